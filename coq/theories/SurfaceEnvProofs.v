(* K10, round 5 -- proofs about the final environment of a module body (SurfaceEnvModel.v). *)
From Coq Require Import List Bool String Lia PeanoNat.
Import ListNotations.
Require Import Pyrefact.SurfaceModel Pyrefact.SurfaceProofs Pyrefact.SurfaceEnvModel.
Open Scope string_scope.
Open Scope list_scope.

(* ---------------------------------------------------------------------------------------------- *)
(* restrict / remove *)

Lemma mem_restrict : forall P n e, mem n (restrict P e) = mem n e && mem n P.
Proof.
  intros P n e. induction e as [|x tl IH]; [reflexivity|].
  unfold restrict in *. cbn [filter]. destruct (mem x P) eqn:HxP.
  - unfold mem in *. cbn [existsb]. rewrite IH. destruct (String.eqb n x) eqn:Hnx.
    + apply String.eqb_eq in Hnx. subst x. unfold mem in HxP. rewrite HxP. reflexivity.
    + reflexivity.
  - unfold mem in *. cbn [existsb]. rewrite IH. destruct (String.eqb n x) eqn:Hnx.
    + apply String.eqb_eq in Hnx. subst x. rewrite HxP. cbn. rewrite andb_false_r. reflexivity.
    + reflexivity.
Qed.

Lemma restrict_remove_in : forall P n e, restrict P (remove n e) = remove n (restrict P e).
Proof.
  intros P n e. unfold restrict, remove. induction e as [|x tl IH]; [reflexivity|].
  cbn [filter]. destruct (negb (String.eqb x n)) eqn:H1; destruct (mem x P) eqn:H2; cbn [filter];
    rewrite ?H1, ?H2, IH; reflexivity.
Qed.

Lemma restrict_remove_out : forall P n e, mem n P = false -> restrict P (remove n e) = restrict P e.
Proof.
  intros P n e HnP. unfold restrict, remove. induction e as [|x tl IH]; [reflexivity|].
  cbn [filter]. destruct (String.eqb x n) eqn:Hxn; cbn [negb filter].
  - apply String.eqb_eq in Hxn. subst x. rewrite HnP. exact IH.
  - rewrite IH. reflexivity.
Qed.

(* ---------------------------------------------------------------------------------------------- *)
(* one event, seen through P *)

Lemma step_in : forall P e ev e', mem (ev_name ev) P = true -> step e ev = Some e' ->
  step (restrict P e) ev = Some (restrict P e').
Proof.
  intros P e ev e' HP Hs. destruct ev as [n|n|n|n]; cbn [ev_name] in HP; cbn [step] in *.
  - inversion Hs. subst e'. unfold restrict. cbn [filter]. rewrite HP. reflexivity.
  - inversion Hs. reflexivity.
  - destruct (mem n e) eqn:Hm; [|discriminate]. inversion Hs. subst e'.
    rewrite mem_restrict, Hm, HP. reflexivity.
  - destruct (mem n e) eqn:Hm; [|discriminate]. inversion Hs. subst e'.
    rewrite mem_restrict, Hm, HP. cbn [andb]. rewrite restrict_remove_in. reflexivity.
Qed.

Lemma step_out : forall P e ev e', mem (ev_name ev) P = false -> step e ev = Some e' ->
  restrict P e' = restrict P e.
Proof.
  intros P e ev e' HP Hs. destruct ev as [n|n|n|n]; cbn [ev_name] in HP; cbn [step] in *.
  - inversion Hs. subst e'. unfold restrict. cbn [filter]. rewrite HP. reflexivity.
  - inversion Hs. reflexivity.
  - destruct (mem n e); [|discriminate]. inversion Hs. reflexivity.
  - destruct (mem n e); [|discriminate]. inversion Hs. subst e'. apply restrict_remove_out. exact HP.
Qed.

(* E1: running the whole body and then looking at the names of P = running only the events about P *)
Theorem run_proj : forall P evs e e', run_from e evs = Some e' ->
  run_from (restrict P e) (proj P evs) = Some (restrict P e').
Proof.
  intros P evs. induction evs as [|ev tl IH]; intros e e' Hr.
  - cbn in *. inversion Hr. reflexivity.
  - cbn [run_from] in Hr. destruct (step e ev) as [e1|] eqn:Hs; [|discriminate].
    unfold proj. cbn [filter]. destruct (mem (ev_name ev) P) eqn:HP.
    + cbn [run_from]. rewrite (step_in P e ev e1 HP Hs). apply IH. exact Hr.
    + rewrite <- (step_out P e ev e1 HP Hs). apply IH. exact Hr.
Qed.

(* E2 (the `_partial` side of R07.6): a transformation that leaves the sub-sequence of events about preserved
   names untouched keeps, for every preserved name, whether it is bound at the end of the module *)
Theorem proj_eq_final_env : forall P evs evs' e e',
  proj P evs = proj P evs' -> run_from [] evs = Some e -> run_from [] evs' = Some e' ->
  forall n, mem n P = true -> mem n e = mem n e'.
Proof.
  intros P evs evs' e e' Hp Hr Hr' n HnP.
  apply (run_proj P) in Hr. apply (run_proj P) in Hr'. rewrite Hp in Hr. rewrite Hr' in Hr.
  inversion Hr as [Heq].
  assert (H1 : mem n (restrict P e) = mem n (restrict P e')) by (rewrite Heq; reflexivity).
  rewrite !mem_restrict, HnP, !andb_true_r in H1. exact H1.
Qed.

(* ---------------------------------------------------------------------------------------------- *)
(* removing statements that mention no preserved name *)

Lemma proj_app : forall P a b, proj P (a ++ b) = proj P a ++ proj P b.
Proof. intros. unfold proj. apply filter_app. Qed.

Lemma proj_unmentioned : forall P s, mentions P s = false -> proj P s = [].
Proof.
  intros P s. unfold mentions, proj. induction s as [|ev tl IH]; [reflexivity|].
  cbn [existsb filter]. intros H. apply orb_false_iff in H. destruct H as [H1 H2].
  rewrite H1. apply IH. exact H2.
Qed.

Lemma select_proj_from : forall P keep b i, droppable_from P keep i b = true ->
  proj P (List.concat (select_from keep i b)) = proj P (List.concat b).
Proof.
  intros P keep b. induction b as [|s tl IH]; intros i Hd; [reflexivity|].
  cbn [droppable_from] in Hd. apply andb_true_iff in Hd. destruct Hd as [H1 H2].
  cbn [select_from List.concat]. rewrite concat_app, !proj_app, (IH (S i) H2).
  destruct (keep i) eqn:Hk.
  - cbn [List.concat]. rewrite app_nil_r. reflexivity.
  - cbn [orb] in H1. apply negb_true_iff in H1. rewrite (proj_unmentioned P s H1). reflexivity.
Qed.

(* E3 *)
Theorem select_proj : forall P keep b, only_unpreserved_removed P keep b = true ->
  proj P (List.concat (select keep b)) = proj P (List.concat b).
Proof. intros. apply select_proj_from. assumption. Qed.

(* E4: a rule that only removes statements outside the preserved set keeps the domain of the final
   environment on the preserved names, and the preserved part of the output runs without NameError *)
Theorem removal_keeps_final_env : forall P keep b e,
  only_unpreserved_removed P keep b = true -> run b = Some e ->
  run_from [] (proj P (List.concat (select keep b))) = Some (restrict P e) /\
  (forall e', run (select keep b) = Some e' -> forall n, mem n P = true -> mem n e = mem n e').
Proof.
  intros P keep b e Hd Hr. split.
  - rewrite (select_proj P keep b Hd). apply (run_proj P) in Hr. exact Hr.
  - intros e' Hr' n HnP. unfold run in *.
    exact (proj_eq_final_env P _ _ e e' (eq_sym (select_proj P keep b Hd)) Hr Hr' n HnP).
Qed.

(* ---------------------------------------------------------------------------------------------- *)
(* ... and the import still succeeds when every name a statement DEMANDS (augmented assignment, del) is
   preserved -- in safe mode: when it was bound by an assignment, def or class *)

Definition demands_in (P : list name) (evs : list event) : bool :=
  forallb (fun ev => match ev with ERequire n | EUnbind n => mem n P | _ => true end) evs.

Lemma step_lift : forall P e ev x, mem (ev_name ev) P = true -> step (restrict P e) ev = Some x ->
  exists y, step e ev = Some y.
Proof.
  intros P e ev x HP Hs. destruct ev as [n|n|n|n]; cbn [ev_name] in HP; cbn [step] in *; eauto.
  - rewrite mem_restrict, HP, andb_true_r in Hs. destruct (mem n e); [eauto|discriminate].
  - rewrite mem_restrict, HP, andb_true_r in Hs. destruct (mem n e); [eauto|discriminate].
Qed.

Lemma run_lift : forall P evs e r, demands_in P evs = true ->
  run_from (restrict P e) (proj P evs) = Some r -> exists e', run_from e evs = Some e'.
Proof.
  intros P evs. induction evs as [|ev tl IH]; intros e r Hd Hr; [cbn; eauto|].
  cbn [demands_in forallb] in Hd. apply andb_true_iff in Hd. destruct Hd as [Hd1 Hd2].
  unfold proj in Hr. cbn [filter] in Hr. destruct (mem (ev_name ev) P) eqn:HP.
  - cbn [run_from] in Hr. destruct (step (restrict P e) ev) as [x|] eqn:Hs; [|discriminate].
    destruct (step_lift P e ev x HP Hs) as [y Hy]. cbn [run_from]. rewrite Hy.
    rewrite (step_in P e ev y HP Hy) in Hs. inversion Hs. subst x. apply (IH y r Hd2 Hr).
  - assert (Hy : exists y, step e ev = Some y).
    { destruct ev as [n|n|n|n]; cbn [ev_name] in HP; cbn [step]; eauto; rewrite HP in Hd1; discriminate. }
    destruct Hy as [y Hy]. cbn [run_from]. rewrite Hy. apply (IH y r Hd2).
    rewrite (step_out P e ev y HP Hy). exact Hr.
Qed.

Lemma demands_in_app : forall P a b, demands_in P (a ++ b) = demands_in P a && demands_in P b.
Proof. intros. unfold demands_in. apply forallb_app. Qed.

Lemma demands_select_from : forall P keep b i, demands_in P (List.concat b) = true ->
  demands_in P (List.concat (select_from keep i b)) = true.
Proof.
  intros P keep b. induction b as [|s tl IH]; intros i Hd; [reflexivity|].
  cbn [List.concat] in Hd. rewrite demands_in_app in Hd. apply andb_true_iff in Hd. destruct Hd as [H1 H2].
  cbn [select_from]. rewrite concat_app, demands_in_app, (IH (S i) H2), andb_true_r.
  destruct (keep i); cbn [List.concat]; [rewrite app_nil_r; exact H1|reflexivity].
Qed.

(* E5 *)
Theorem removal_keeps_import : forall P keep b e,
  only_unpreserved_removed P keep b = true -> demands_in P (List.concat b) = true -> run b = Some e ->
  exists e', run (select keep b) = Some e' /\ forall n, mem n P = true -> mem n e = mem n e'.
Proof.
  intros P keep b e Hd Hdem Hr.
  destruct (removal_keeps_final_env P keep b e Hd Hr) as [H1 H2].
  destruct (run_lift P (List.concat (select keep b)) [] (restrict P e)
              (demands_select_from P keep b 0 Hdem) H1) as [e' He'].
  exists e'. split; [exact He'|]. apply H2. exact He'.
Qed.

(* ---------------------------------------------------------------------------------------------- *)
(* R07.6: "the set of stored names is kept  =>  the surface is kept" is FALSE; this is the reading the round-1
   sweep oracle and fixes._iter_unused_names (`name in subsequent_created`) share *)

Definition X : name := "X".

Theorem name_set_reading_refuted :
  (* annotation-only re-declaration: both bodies import, X is public before and undefined after *)
  (exists b keep e e', incl_b (stored_names b) (stored_names (select keep b)) = true /\
      run b = Some e /\ run (select keep b) = Some e' /\ mem X e = true /\ mem X e' = false) /\
  (* del + re-binding: the body after the removal does not even import *)
  (exists b keep e, incl_b (stored_names b) (stored_names (select keep b)) = true /\
      run b = Some e /\ mem X e = true /\ run (select keep b) = None).
Proof.
  split.
  - exists [[EBind X]; [EAnn X]], (fun i => negb (Nat.eqb i 0)), [X], [].
    repeat split; vm_compute; reflexivity.
  - exists [[EBind X]; [EUnbind X]; [EBind X]], (fun i => negb (Nat.eqb i 0)), [X].
    repeat split; vm_compute; reflexivity.
Qed.

(* both removals of R07.6 are rejected by the guard of E4 as soon as X is preserved ... *)
Example refuted_witnesses_outside_guard :
  only_unpreserved_removed [X] (fun i => negb (Nat.eqb i 0)) [[EBind X]; [EAnn X]] = false /\
  only_unpreserved_removed [X] (fun i => negb (Nat.eqb i 0)) [[EBind X]; [EUnbind X]; [EBind X]] = false.
Proof. split; vm_compute; reflexivity. Qed.

(* ... and the guard is satisfiable by a removal that really removes something *)
Example guard_nontrivial :
  let b := [[EBind X]; [EBind "tmp"]; [EAnn X]; [ERequire "tmp"; EBind "tmp"]; [EUnbind "tmp"]; [EBind "Y"]] in
  let keep := fun i => negb (Nat.eqb i 1 || Nat.eqb i 3 || Nat.eqb i 4) in
  only_unpreserved_removed [X; "Y"] keep b = true /\ demands_in [X; "Y"] (List.concat (select keep b)) = true /\
  run b = Some ["Y"; X] /\ run (select keep b) = Some ["Y"; X].
Proof. repeat split; vm_compute; reflexivity. Qed.

(* ---------------------------------------------------------------------------------------------- *)
(* the set reading of SurfaceModel.v is exact where nothing unbinds: every name of [top_surface] is bound at the
   end of a module (of the [item] language, which has no del) that imports *)

Definition no_unbind (evs : list event) : bool :=
  forallb (fun ev => match ev with EUnbind _ => false | _ => true end) evs.

Lemma run_monotone : forall evs e e', no_unbind evs = true -> run_from e evs = Some e' ->
  (forall n, In n e -> In n e') /\ (forall n, In (EBind n) evs -> In n e').
Proof.
  induction evs as [|ev tl IH]; intros e e' Hn Hr.
  - cbn in Hr. inversion Hr. subst. split; [auto|intros n []].
  - cbn [no_unbind forallb] in Hn. apply andb_true_iff in Hn. destruct Hn as [Hn1 Hn2].
    cbn [run_from] in Hr. destruct (step e ev) as [e1|] eqn:Hs; [|discriminate].
    destruct (IH e1 e' Hn2 Hr) as [IH1 IH2].
    assert (Hmono : forall n, In n e -> In n e1).
    { destruct ev as [n0|n0|n0|n0]; cbn [step] in Hs; try discriminate.
      - inversion Hs. subst. intros n Hin. right. exact Hin.
      - inversion Hs. subst. auto.
      - destruct (mem n0 e); [|discriminate]. inversion Hs. subst. auto. }
    split.
    + intros n Hin. apply IH1, Hmono, Hin.
    + intros n [Heq|Hin].
      * subst ev. cbn [step] in Hs. inversion Hs. subst e1. apply IH1. left. reflexivity.
      * apply IH2, Hin.
Qed.

Lemma no_unbind_app : forall a b, no_unbind (a ++ b) = no_unbind a && no_unbind b.
Proof. intros. unfold no_unbind. apply forallb_app. Qed.

Lemma no_unbind_map : forall (f : name -> event) l, (forall n, match f n with EUnbind _ => false | _ => true end = true) ->
  no_unbind (map f l) = true.
Proof.
  intros f l Hf. unfold no_unbind. apply forallb_forall. intros ev Hin. apply in_map_iff in Hin.
  destruct Hin as [n [Heq _]]. subst ev. apply Hf.
Qed.

Lemma item_events_no_unbind : forall it, no_unbind (item_events it) = true.
Proof.
  intros [n a|n b ms|ts|t [|]|t|ns|]; cbn [item_events]; try reflexivity;
    try (apply no_unbind_map; intros; reflexivity).
  rewrite no_unbind_app, !no_unbind_map; try reflexivity; intros; reflexivity.
Qed.

Lemma module_events_no_unbind : forall m, no_unbind (List.concat (module_events m)) = true.
Proof.
  induction m as [|it tl IH]; [reflexivity|].
  cbn [module_events map List.concat]. rewrite no_unbind_app, item_events_no_unbind. exact IH.
Qed.

Lemma item_binds_events : forall it n, In n (item_binds it) -> In (EBind n) (item_events it).
Proof.
  intros [n0 a|n0 b ms|ts|t [|]|t|ns|] n Hin; cbn [item_binds item_events] in *;
    try (destruct Hin as [Heq|[]]; subst; left; reflexivity); try contradiction.
  - apply in_map. exact Hin.
  - apply in_map. exact Hin.
  - apply in_or_app. right. apply in_map. exact Hin.
Qed.

(* E6 *)
Theorem surface_in_final_env : forall m e, run (module_events m) = Some e ->
  forall n, In n (top_surface m) -> In n e.
Proof.
  intros m e Hr n Hin. unfold run in Hr.
  destruct (run_monotone _ _ _ (module_events_no_unbind m) Hr) as [_ H2]. apply H2.
  unfold top_surface in Hin. apply in_flat_map in Hin. destruct Hin as [it [Hit Hn]].
  apply in_concat. exists (item_events it). split.
  - unfold module_events. apply in_map. exact Hit.
  - apply item_binds_events. exact Hn.
Qed.
