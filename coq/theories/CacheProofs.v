(* K8 -- proofs about CacheModel.v: the cache invariant is preserved by every history of
   non-mutating programs under every eviction policy that only removes entries; the result of a call is
   then the cache-free result; with a mutating program it is not. *)
From Coq Require Import List Arith Bool Lia.
Import ListNotations.
Require Import Pyrefact.CacheModel.

Section Proofs.
Variable K V : Type.
Variable keqb : K -> K -> bool.
Hypothesis keqb_spec : forall a b, keqb a b = true <-> a = b.
Variable compute : K -> option V.
Variable evict : list (K * V) -> list (K * V).
Hypothesis evict_incl : forall st e, In e (evict st) -> In e st.

Notation cache := (cache K V).
Notation lookup := (lookup K V keqb).
Notation get := (get K V keqb compute evict).
Notation update := (update K V keqb).
Notation exec := (exec K V keqb compute evict).
Notation eval := (eval K V compute).
Notation run_history := (run_history K V keqb compute evict).

(* every resident entry is what a fresh computation of its key gives *)
Definition faithful (st : cache) : Prop := forall k v, In (k, v) st -> compute k = Some v.

(* the invariant as the property states it, through lookup *)
Definition Inv (st : cache) : Prop := forall k v, lookup k st = Some v -> compute k = Some v.

Lemma lookup_in (k : K) (st : cache) v : lookup k st = Some v -> In (k, v) st.
Proof.
  induction st as [|[k' v'] tl IH]; cbn; [discriminate|].
  destruct (keqb k' k) eqn:E.
  - intros H; inversion H; subst. apply keqb_spec in E; subst. now left.
  - intros H; right; auto.
Qed.

Lemma faithful_Inv st : faithful st -> Inv st.
Proof. intros F k v H. apply F. now apply lookup_in. Qed.

Lemma faithful_nil : faithful [].
Proof. intros k v []. Qed.

Lemma faithful_incl (st st' : cache) : (forall e, In e st' -> In e st) -> faithful st -> faithful st'.
Proof. intros I F k v H. apply F. now apply I. Qed.

Lemma get_result st k : faithful st -> fst (get k st) = compute k.
Proof.
  intros F. unfold CacheModel.get.
  destruct (lookup k st) as [v|] eqn:L.
  - cbn. symmetry. apply F. now apply lookup_in.
  - destruct (compute k); reflexivity.
Qed.

Lemma get_faithful st k : faithful st -> faithful (snd (get k st)).
Proof.
  intros F. unfold CacheModel.get.
  destruct (lookup k st) as [v|] eqn:L.
  - cbn. intros k' v' [H|H].
    + inversion H; subst. apply F. now apply lookup_in.
    + apply F. unfold remove in H. apply filter_In in H. tauto.
  - destruct (compute k) as [v|] eqn:C; cbn; [|exact F].
    intros k' v' H. apply evict_incl in H. destruct H as [H|H].
    + inversion H; subst. exact C.
    + now apply F.
Qed.

Lemma update_id k f (st : cache) : (forall v, f v = v) -> update k f st = st.
Proof.
  intros Hf. unfold CacheModel.update. induction st as [|[k' v'] tl IH]; cbn; [reflexivity|].
  rewrite IH. destruct (keqb k' k); [rewrite Hf|]; reflexivity.
Qed.

(* T05.1, one call *)
Lemma exec_pure {R} (p : prog K V R) : pure p -> forall st, faithful st ->
  fst (exec p st) = eval p /\ faithful (snd (exec p st)).
Proof.
  induction 1 as [r | k c Hc IH | k f c Hf Hc IH]; intros st F; cbn.
  - split; [reflexivity | exact F].
  - pose proof (get_result st k F) as G. pose proof (get_faithful st k F) as F'.
    destruct (get k st) as [ov st'] eqn:E. cbn in G, F'. subst ov. apply IH. exact F'.
  - rewrite update_id by exact Hf. now apply IH.
Qed.

Lemma run_history_faithful {R} (h : list (prog K V R)) : Forall pure h -> forall st, faithful st ->
  faithful (run_history h st).
Proof.
  induction 1 as [|p h Hp Hh IH]; intros st F; cbn; [exact F|].
  apply IH. now apply exec_pure.
Qed.

(* T05.1: after every history of non-mutating calls, from every faithful state (in particular the
   empty one), the caches are faithful and the call under test returns its cache-free result. *)
Theorem history_independence {R} (h : list (prog K V R)) (p : prog K V R) (st0 : cache) :
  Forall pure h -> pure p -> faithful st0 ->
  Inv (run_history h st0)
  /\ fst (exec p (run_history h st0)) = eval p
  /\ fst (exec p (run_history h st0)) = fst (exec p []).
Proof.
  intros Hh Hp F0.
  pose proof (run_history_faithful h Hh st0 F0) as F.
  split; [now apply faithful_Inv|].
  destruct (exec_pure p Hp _ F) as [E _].
  destruct (exec_pure p Hp [] faithful_nil) as [E0 _].
  split; congruence.
Qed.

(* calling twice gives the same result twice *)
Corollary twice_same {R} (h : list (prog K V R)) (p : prog K V R) :
  Forall pure h -> pure p ->
  let st := run_history h [] in
  fst (exec p (snd (exec p st))) = fst (exec p st).
Proof.
  intros Hh Hp st.
  pose proof (run_history_faithful h Hh [] faithful_nil) as F. fold st in F.
  destruct (exec_pure p Hp st F) as [E F'].
  destruct (exec_pure p Hp _ F') as [E' _]. congruence.
Qed.

End Proofs.

(* ------------------------------------------------------------------------------------------- *)
(* the two concrete policies only remove entries *)

Lemma lru_incl {K V} cap (st : list (K * V)) e : In e (lru cap st) -> In e st.
Proof. unfold lru. revert st. induction cap; intros [|x tl]; cbn; try tauto. intros [H|H]; auto. Qed.

Lemma evict2_incl {K V} (st : list ((bool * K) * V)) : forall n0 n1 e, In e (evict2 n0 n1 st) -> In e st.
Proof.
  induction st as [|[[[] k] v] tl IH]; intros n0 n1 e; cbn; [tauto| |].
  - destruct n1; cbn; [intros H; right; eauto|]. intros [H|H]; [now left | right; eauto].
  - destruct n0; cbn; [intros H; right; eauto|]. intros [H|H]; [now left | right; eauto].
Qed.

(* T05.1 instantiated for core.parse: lru_cache(maxsize=100), fresh process = [] *)
Theorem parse_cache_independence :
  forall (Src Tree : Type) (src_eqb : Src -> Src -> bool), (forall a b, src_eqb a b = true <-> a = b) ->
  forall (py_parse : Src -> option Tree) (R : Type) (h : list (prog Src Tree R)) (p : prog Src Tree R),
    Forall pure h -> pure p ->
    let st := run_history Src Tree src_eqb py_parse (lru PARSE_MAXSIZE) h [] in
    (forall s t, lookup Src Tree src_eqb s st = Some t -> py_parse s = Some t)
    /\ fst (exec Src Tree src_eqb py_parse (lru PARSE_MAXSIZE) p st)
       = fst (exec Src Tree src_eqb py_parse (lru PARSE_MAXSIZE) p []).
Proof.
  intros Src Tree src_eqb Hs py_parse R h p Hh Hp.
  destruct (history_independence Src Tree src_eqb Hs py_parse (lru PARSE_MAXSIZE)
              (lru_incl PARSE_MAXSIZE) h p [] Hh Hp (faithful_nil Src Tree py_parse)) as (I & _ & E).
  split; [exact I | exact E].
Qed.

(* T05.1 for the parse cache and the template cache side by side *)
Theorem both_caches_independence :
  forall (K V : Type) (keqb : bool * K -> bool * K -> bool), (forall a b, keqb a b = true <-> a = b) ->
  forall (compute : bool * K -> option V) (R : Type) (h : list (prog (bool * K) V R)) (p : prog (bool * K) V R),
    Forall pure h -> pure p ->
    let ev := evict2 PARSE_MAXSIZE TEMPLATE_MAXSIZE in
    let st := run_history (bool * K) V keqb compute ev h [] in
    Inv (bool * K) V keqb compute st
    /\ fst (exec (bool * K) V keqb compute ev p st) = fst (exec (bool * K) V keqb compute ev p []).
Proof.
  intros K V keqb Hk compute R h p Hh Hp.
  destruct (history_independence (bool * K) V keqb Hk compute (evict2 PARSE_MAXSIZE TEMPLATE_MAXSIZE)
              (fun st e => evict2_incl st PARSE_MAXSIZE TEMPLATE_MAXSIZE e) h p [] Hh Hp
              (faithful_nil (bool * K) V compute)) as (I & _ & E).
  split; [exact I | exact E].
Qed.

(* an lru cache never holds more than its capacity, whatever is done with it *)
Section Bounded.
Variable K V : Type.
Variable keqb : K -> K -> bool.
Variable compute : K -> option V.
Variable cap : nat.

Lemma filter_length_le {X} (f : X -> bool) (l : list X) : length (filter f l) <= length l.
Proof. induction l; cbn; [lia|]. destruct (f a); cbn; lia. Qed.

Lemma lookup_some_filter_lt (k : K) (st : cache K V) v :
  lookup K V keqb k st = Some v ->
  length (remove K V keqb k st) < length st.
Proof.
  unfold remove. induction st as [|[k' v'] tl IH]; cbn; [discriminate|].
  destruct (keqb k' k) eqn:E; cbn.
  - intros _. pose proof (filter_length_le (fun e : K * V => negb (keqb (fst e) k)) tl). lia.
  - intros H. apply IH in H. lia.
Qed.

Lemma get_bounded k (st : cache K V) : length st <= cap ->
  length (snd (get K V keqb compute (lru cap) k st)) <= cap.
Proof.
  intros B. unfold get. destruct (lookup K V keqb k st) eqn:L; cbn.
  - apply lookup_some_filter_lt in L. lia.
  - destruct (compute k); cbn; [|exact B]. unfold lru. rewrite firstn_length. cbn. lia.
Qed.

Lemma update_length k f (st : cache K V) : length (update K V keqb k f st) = length st.
Proof. unfold update. now rewrite map_length. Qed.

Theorem exec_bounded {R} (p : prog K V R) : forall st, length st <= cap ->
  length (snd (exec K V keqb compute (lru cap) p st)) <= cap.
Proof.
  induction p as [r | k c IH | k f c IH]; intros st B; cbn; [exact B| |].
  - pose proof (get_bounded k st B) as G.
    destruct (get K V keqb compute (lru cap) k st) as [ov st']. now apply IH.
  - apply IH. now rewrite update_length.
Qed.

End Bounded.

(* ------------------------------------------------------------------------------------------- *)
(* R05.2: the premise is necessary.  A rule that edits the object it was handed, and whose result
   shows the edit, gives two different results when called twice (any capacity >= 1). *)
Section Necessity.
Variable K V R : Type.
Variable keqb : K -> K -> bool.
Hypothesis keqb_spec : forall a b, keqb a b = true <-> a = b.
Variable compute : K -> option V.

Definition edit_rule (k : K) (f : V -> V) (g : V -> R) (err : R) : prog K V R :=
  Get k (fun ov => match ov with
                   | None => Ret err
                   | Some v => Mut k f (Ret (g (f v)))
                   end).

Lemma keqb_refl k : keqb k k = true.
Proof. now apply keqb_spec. Qed.

Theorem mutating_rule_history_dependent (cap : nat) (k : K) (f : V -> V) (g : V -> R) (err : R) (t : V) :
  compute k = Some t ->
  g (f (f t)) <> g (f t) ->
  let call := exec K V keqb compute (lru (S cap)) (edit_rule k f g err) in
  fst (call (snd (call []))) <> fst (call []).
Proof.
  intros C D. cbn. unfold get. cbn. rewrite C. cbn. rewrite keqb_refl. cbn.
  rewrite keqb_refl. cbn. exact D.
Qed.

End Necessity.

(* the concrete witness: performance.remove_redundant_chained_calls before its repair, on
   `reversed(sorted(x))`: first call -> sorted(x, reverse=True), second call -> sorted(x) *)
Theorem chained_calls_refuted :
  exists (h : list (prog nat bool (option bool))),
    let call := exec nat bool Nat.eqb (fun _ => Some false) (lru PARSE_MAXSIZE) chained_calls_before_fix in
    fst (call (run_history nat bool Nat.eqb (fun _ => Some false) (lru PARSE_MAXSIZE) h [])) <> fst (call []).
Proof. exists [chained_calls_before_fix]. vm_compute. discriminate. Qed.

Lemma chained_calls_after_fix_pure : pure chained_calls_after_fix.
Proof. constructor. intros [v|]; constructor. Qed.
