(* K1 (application step) -- model of pyrefact/processing.py:_apply_rewrites and of the two per-rewrite
   refusals of processing._do_rewrite that the pure splice of SchedModel.apply_all abstracts away:
     - "Prevent whitespace-only changes from being applied"
           [l.rstrip() for l in new.splitlines() if l.strip()] == [l.rstrip() for l in code.splitlines() if l.strip()]
     - core.has_ignore_comment(source, old) evaluated on the CURRENT (partly rewritten) text with the
       offsets of the original text.
   Two variants:
     [apply_v0]  the code before the repair (hunt items C10-0 / C10-1): every scheduled rewrite goes through
                 _do_rewrite, which may refuse that one member on its own;
     [apply_tx]  the repaired code: a transaction with a member that is a whitespace-only change is refused as a
                 whole (decided on the original text), the others are spliced; no ignore re-check.
   No proofs in this file. *)
From Coq Require Import List ZArith NArith Bool.
Import ListNotations.
Require Import Pyrefact.SchedModel Pyrefact.IgnoreModel.
Open Scope Z_scope.

Definition ztext := list Z.
Definition to_n (s : ztext) : text := map Z.to_N s.

(* str.rstrip() / "is whitespace only" (str.strip() is empty) *)
Definition rstrip (l : text) : text := rev (skip_spaces (rev l)).
Definition blank (l : text) : bool := forallb is_space l.

(* [line.rstrip() for line in s.splitlines() if line.strip()]
   (split_lines keeps the line ends; every line-break character is a \s character, so rstrip removes them) *)
Definition sig_lines (s : text) : list text :=
  map rstrip (filter (fun l => negb (blank l)) (split_lines s)).

Definition ws_only (code new : text) : bool := lines_eqb (sig_lines new) (sig_lines code).

(* source[start:end] *)
Definition slice {A} (src : list A) (r : range) : list A :=
  firstn (Z.to_nat (snd r) - Z.to_nat (fst r)) (skipn (Z.to_nat (fst r)) src).

(* ---- before the repair: _do_rewrite with its own refusals ---- *)
Inductive outcome := Same | RefusedIgnore | RefusedWs | Spliced.

Definition do_outcome (src : ztext) (r : range) (new : ztext) : outcome :=
  let code := slice src r in
  if text_eqb new code then Same
  else if has_ignore (to_n src) None r then RefusedIgnore
  else if ws_only (to_n code) (to_n new) then RefusedWs
  else Spliced.

Definition do_rewrite_v0 (src : ztext) (r : range) (new : ztext) : ztext :=
  match do_outcome src r new with
  | Spliced => splice Z src r new
  | _ => src
  end.

Definition entry := (tkey * rewrite ztext)%type.

Definition apply_v0 (src : ztext) (sched : list entry) : ztext :=
  fold_left (fun s e => do_rewrite_v0 s (rrng (snd e)) (rnew (snd e))) sched src.

(* what happened to every scheduled rewrite, in application order *)
Fixpoint outcomes_v0 (src : ztext) (sched : list entry) : list (tkey * outcome) :=
  match sched with
  | [] => []
  | e :: tl => (fst e, do_outcome src (rrng (snd e)) (rnew (snd e)))
               :: outcomes_v0 (do_rewrite_v0 src (rrng (snd e)) (rnew (snd e))) tl
  end.

Definition is_refused (o : outcome) : bool :=
  match o with RefusedIgnore | RefusedWs => true | _ => false end.
Definition is_spliced (o : outcome) : bool := match o with Spliced => true | _ => false end.

(* a transaction of which one member was spliced and another one refused *)
Definition torn (key : tkey) (os : list (tkey * outcome)) : bool :=
  existsb (fun p => key_eqb (fst p) key && is_spliced (snd p)) os
  && existsb (fun p => key_eqb (fst p) key && is_refused (snd p)) os.

(* ---- the repaired code: refusal decided per transaction, on the original text ---- *)
Section Tx.
Variable T : Type.
Variable refused : tkey * rewrite T -> bool.

Definition refused_keys (sched : list (tkey * rewrite T)) : list tkey :=
  map fst (filter refused sched).

Definition surviving (sched : list (tkey * rewrite T)) : list (tkey * rewrite T) :=
  let ks := refused_keys sched in
  filter (fun e => negb (existsb (key_eqb (fst e)) ks)) sched.
End Tx.

(* processing._is_whitespace_only_change(source, range, rewrite) *)
Definition ws_refused (src : ztext) (e : entry) : bool :=
  let code := slice src (rrng (snd e)) in
  negb (text_eqb (rnew (snd e)) code) && ws_only (to_n code) (to_n (rnew (snd e))).

Definition apply_tx (src : ztext) (sched : list entry) : ztext :=
  apply_all Z src (map (fun e => (rrng (snd e), rnew (snd e))) (surviving ztext (ws_refused src) sched)).

(* ---- correspondence ---- *)
Definition model_candidate_v0 (c : sched_case) : ztext :=
  apply_v0 (c_src c) (schedule_text (c_ilines c) (c_groups c)).
Definition model_candidate_tx (c : sched_case) : ztext :=
  apply_tx (c_src c) (schedule_text (c_ilines c) (c_groups c)).

Definition case_ok_v0 (c : sched_case) : bool :=
  flats_eqb (model_schedule c) (c_expected c) && text_eqb (model_candidate_v0 c) (c_candidate c).
Definition case_ok_tx (c : sched_case) : bool :=
  flats_eqb (model_schedule c) (c_expected c) && text_eqb (model_candidate_tx c) (c_candidate c).
