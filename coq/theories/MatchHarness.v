(* Support for the C12 correspondence case files (harness/c12.py): expected-result references,
   case predicates, and the exhaustive list-quantifier family enumerated INSIDE Coq (the harness
   enumerates the same family in the same order against the real core.match_template and compares
   one checksum per item list). Not part of any theorem. *)
From Coq Require Import List Arith Bool ZArith NArith String.
Import ListNotations.
Require Import Pyrefact.Base Pyrefact.MatchModel.
Open Scope string_scope.
Open Scope list_scope.

(* how the harness names a value of the implementation's result *)
Inductive ref :=
| RUid (n : Z)                 (* an AST node, by the unique number in its "@" pseudo field *)
| RKey (tg : tag) (k : N)    (* a list / atom: its type name and interned str() *)
| RSkip.                       (* not compared (root slot of a list-template match = template permutation) *)

Definition ref_ok (r : ref) (v : value) : bool :=
  match r with
  | RSkip => true
  | RUid n => match uid v with Some (VA _ (AInt m)) => Z.eqb n m | _ => false end
  | RKey tg k => match v with VT _ _ _ => false | _ => String.eqb (vtag v) tg && N.eqb (vkey v) k end
  end.

Fixpoint binds_ok (e : list (name * ref)) (b : binds) : bool :=
  match e, b with
  | [], [] => true
  | (n, r) :: e', (m, v) :: b' => Nat.eqb n m && ref_ok r v && binds_ok e' b'
  | _, _ => false
  end.

Definition expected := option (option ref * list (name * ref)).

Definition result_ok (e : expected) (r : option result) : bool :=
  match e, r with
  | None, None => true
  | Some (er, eb), Some (rr, rb) =>
      match er, rr with
      | None, None => true
      | Some x, Some v => ref_ok x v
      | _, _ => false
      end && binds_ok eb rb
  | _, _ => false
  end.

Record mcase := mkCase { c_tmpl : tmpl; c_val : value; c_exp : expected }.
Definition mcase_ok (c : mcase) : bool := result_ok (c_exp c) (match_template (c_tmpl c) (c_val c)).

(* search cases: walk_wildcard returns (node, match) pairs *)
Record wcase := mkWCase { w_tmpl : tmpl; w_root : value; w_exp : list (ref * expected) }.
Fixpoint wres_ok (e : list (ref * expected)) (r : list (value * result)) : bool :=
  match e, r with
  | [], [] => true
  | (x, ex) :: e', (n, res) :: r' =>
      ref_ok x n && result_ok ex (Some (fst res, sort_binds (snd res))) && wres_ok e' r'
  | _, _ => false
  end.
Definition wcase_ok (c : wcase) : bool := wres_ok (w_exp c) (walk_wildcard (w_root c) (w_tmpl c)).

(* ast.walk order *)
Fixpoint refs_ok (e : list ref) (r : list value) : bool :=
  match e, r with
  | [], [] => true
  | x :: e', v :: r' => ref_ok x v && refs_ok e' r'
  | _, _ => false
  end.
Definition walk_case_ok (c : value * list ref) : bool := refs_ok (snd c) (ast_walk (fst c)).

(* statement-sequence cases *)
Record scase := mkSCase { s_order : list tag; s_tmpls : list tmpl; s_root : value;
                          s_exp : list (list ref * list (name * ref)) }.
Fixpoint sres_ok (e : list (list ref * list (name * ref))) (r : list (list value * binds)) : bool :=
  match e, r with
  | [], [] => true
  | (xs, eb) :: e', (w, b) :: r' => refs_ok xs w && binds_ok eb (sort_binds b) && sres_ok e' r'
  | _, _ => false
  end.
(* core.py:504-508: the scopes are walked in the order of
   dict.fromkeys of AST_TYPES_WITH_BODY followed by AST_TYPES_WITH_ORELSE -- first occurrences, table order *)
Fixpoint dedup (seen l : list tag) : list tag :=
  match l with
  | [] => []
  | x :: tl => if existsb (String.eqb x) seen then dedup seen tl else x :: dedup (x :: seen) tl
  end.
Fixpoint tags_eqb (a b : list tag) : bool :=
  match a, b with
  | [], [] => true
  | x :: a', y :: b' => String.eqb x y && tags_eqb a' b'
  | _, _ => false
  end.
Definition scase_ok (body_tags : list tag) (c : scase) : bool :=
  tags_eqb (s_order c) (dedup [] body_tags) && sres_ok (s_exp c) (walk_sequence (s_order c) (s_root c) (s_tmpls c)).

(* ---------------------------------------------------------------------------------------------- *)
(* the exhaustive family: item lists over {object, Constant(0), Constant(1), Wildcard x, Wildcard y}
   x {plain, ZeroOrOne, ZeroOrMany, OneOrMany}; node lists over Constant 0/1/2 *)

Section AllLists.
  Context {X : Type} (alphabet : list X).
  Fixpoint all_lists (n : nat) : list (list X) :=
    match n with
    | 0 => [[]]
    | S n' => flat_map (fun x => map (cons x) (all_lists n')) alphabet
    end.
  Fixpoint all_lists_upto (n : nat) : list (list X) :=
    match n with 0 => all_lists 0 | S n' => all_lists_upto n' ++ all_lists n end.
End AllLists.

Definition cnode (pos c : nat) : value :=
  VT (N.of_nat c) "Constant" [("value", VA (N.of_nat c) (AInt (Z.of_nat c))); ("kind", VA 1000%N ANone);
                   ("@", VA 0%N (AInt (Z.of_nat pos)))]%string.
Definition ctmpl (c : nat) : tmpl := TNode "Constant" [("value", TAtom (AInt (Z.of_nat c)))]%string.
Definition elem_tmpls : list tmpl := [TAny; ctmpl 0; ctmpl 1; TWild 0 true TAny; TWild 1 true TAny].
Definition fam_items : list (item tmpl) :=
  map One elem_tmpls ++ map Opt elem_tmpls ++ map Star elem_tmpls ++ map Plus elem_tmpls.

Fixpoint number_from (pos : nat) (cs : list nat) : list value :=
  match cs with [] => [] | c :: tl => cnode pos c :: number_from (S pos) tl end.
Definition fam_nodelists (maxlen : nat) : list (list value) :=
  map (number_from 0) (all_lists_upto [0; 1; 2] maxlen).

Definition pos_code (o : option value) : N :=
  match o with
  | Some v => match uid v with Some (VA _ (AInt m)) => 1 + Z.to_N m | _ => 7 end
  | None => 0
  end%N.
Definition res_code (r : option result) : N :=
  match r with
  | None => 0
  | Some (_, b) => 1 + 6 * pos_code (blookup 0%nat b) + pos_code (blookup 1%nat b)
  end%N.
Definition fam_checksum (maxnodes : nat) (its : list (item tmpl)) : N :=
  fold_left (fun acc l => ((acc * 37 + res_code (match_template (TList its) (VL 0%N l))) mod 1000000007)%N)
            (fam_nodelists maxnodes) 0%N.

Definition fam_case_ok (maxnodes : nat) (c : list nat * N) : bool :=
  N.eqb (fam_checksum maxnodes (map (fun i => nth i fam_items (One TAny)) (fst c))) (snd c).
