(* Proofs about the application step (SchedApplyModel.v). *)
From Coq Require Import List ZArith NArith Bool Lia Permutation.
Import ListNotations.
Require Import Pyrefact.SchedModel Pyrefact.SchedProofs Pyrefact.IgnoreModel Pyrefact.SchedApplyModel.
Open Scope Z_scope.

(* ------------------------------------------------------------------------------------------- *)
(* 1. The code before the repair tears transactions: a transaction that the scheduler accepted as a whole
      is applied in part.  Both witnesses are the hunt inputs (C10-0: whitespace-only refusal of one member;
      C10-1: the ignore test re-run on the partly rewritten text with the offsets of the original). *)

(* "s = '''a  \nb'''\nx = 1\nprint(repr(s), x)\n": (7,10) 'a  ' -> 'a' and (21,22) '1' -> '2', transaction 7 *)
Definition src_c10_0 : ztext :=
  [115;32;61;32;39;39;39;97;32;32;10;98;39;39;39;10;120;32;61;32;49;10;
   112;114;105;110;116;40;114;101;112;114;40;115;41;44;32;120;41;10].
Definition groups_c10_0 : list (list (yielded ztext)) :=
  [[((7, 10), [97], Some 7); ((21, 22), [50], Some 7)]].

(* "a = 1\nb = 2  # pyrefact: ignore\nprint(a, b)\n": (4,5) '1' -> '3' and (5,6) '\n' -> '; ', transaction 1;
   the ignored line is (6, 32) *)
Definition src_c10_1 : ztext :=
  [97;32;61;32;49;10;
   98;32;61;32;50;32;32;35;32;112;121;114;101;102;97;99;116;58;32;105;103;110;111;114;101;10;
   112;114;105;110;116;40;97;44;32;98;41;10].
Definition groups_c10_1 : list (list (yielded ztext)) :=
  [[((4, 5), [51], Some 1); ((5, 6), [59; 32], Some 1)]].

Theorem apply_v0_atomic_refuted :
  (exists src ilines groups key,
      length (filter (fun e => key_eqb (fst e) key) (schedule_text ilines groups)) = 2%nat
      /\ torn key (outcomes_v0 src (schedule_text ilines groups)) = true
      /\ In (key, RefusedWs) (outcomes_v0 src (schedule_text ilines groups)))
  /\ (exists src ilines groups key,
      length (filter (fun e => key_eqb (fst e) key) (schedule_text ilines groups)) = 2%nat
      /\ torn key (outcomes_v0 src (schedule_text ilines groups)) = true
      /\ In (key, RefusedIgnore) (outcomes_v0 src (schedule_text ilines groups))).
Proof.
  split.
  - exists src_c10_0, [], groups_c10_0, (0, 7). vm_compute. repeat split; auto.
  - exists src_c10_1, [(6, 32)], groups_c10_1, (0, 1). vm_compute. repeat split; auto.
Qed.

(* 2. Partial: when no member is refused at its turn the old application step is the pure splice
      (so T10.1/T10.4 carry over to the text). *)
Definition no_refusal (os : list (tkey * outcome)) : bool :=
  forallb (fun p => negb (is_refused (snd p))) os.

Lemma text_eqb_eq (a : ztext) : forall b, text_eqb a b = true -> a = b.
Proof.
  induction a as [|x a IH]; intros [|y b] H; cbn in H; try discriminate; auto.
  apply andb_true_iff in H. destruct H as [H1 H2]. apply Z.eqb_eq in H1. subst. f_equal. auto.
Qed.

Lemma skipn_add {A} (b : nat) : forall (a : nat) (l : list A), skipn a (skipn b l) = skipn (b + a) l.
Proof.
  induction b as [|b IH]; intros a l; [reflexivity|].
  destruct l as [|x l]; [destruct a; reflexivity|]. cbn [skipn plus]. apply IH.
Qed.

Lemma splice_slice_same (src : ztext) (r : range) :
  (Z.to_nat (fst r) <= Z.to_nat (snd r))%nat ->
  splice Z src r (slice src r) = src.
Proof.
  intros Hle. unfold splice, slice.
  set (a := Z.to_nat (fst r)). set (b := Z.to_nat (snd r)). fold a b in Hle.
  rewrite <- (firstn_skipn a src) at 4. f_equal.
  rewrite <- (firstn_skipn (b - a) (skipn a src)) at 2. f_equal.
  rewrite skipn_add. f_equal. lia.
Qed.

Definition wf_entry (e : entry) : Prop := (Z.to_nat (fst (rrng (snd e))) <= Z.to_nat (snd (rrng (snd e))))%nat.

Theorem apply_v0_partial : forall (sched : list entry) (src : ztext),
  Forall wf_entry sched ->
  no_refusal (outcomes_v0 src sched) = true ->
  apply_v0 src sched = apply_all Z src (map (fun e => (rrng (snd e), rnew (snd e))) sched).
Proof.
  induction sched as [|e tl IH]; intros src Hwf H; [reflexivity|].
  inversion Hwf as [|? ? Hwe Hwt]; subst.
  cbn [outcomes_v0 no_refusal forallb snd] in H. apply andb_true_iff in H. destruct H as [Ho Ht].
  unfold apply_v0, apply_all in *. cbn [fold_left map fst snd].
  assert (E : do_rewrite_v0 src (rrng (snd e)) (rnew (snd e)) = splice Z src (rrng (snd e)) (rnew (snd e))).
  { unfold do_rewrite_v0 in *. unfold do_outcome in *.
    destruct (text_eqb (rnew (snd e)) (slice src (rrng (snd e)))) eqn:Eq.
    - apply text_eqb_eq in Eq. rewrite Eq. symmetry. apply splice_slice_same. exact Hwe.
    - destruct (has_ignore (to_n src) None (rrng (snd e))); [discriminate Ho|].
      destruct (ws_only _ _); [discriminate Ho|]. reflexivity. }
  rewrite E in *. apply IH; assumption.
Qed.

(* the guard is satisfiable on a non-trivial input: two members of one transaction, both spliced *)
Example apply_v0_partial_example :
  let sched := schedule_text [] [[((0, 2), [109; 49], Some 0); ((3, 5), [109; 50], Some 0)]] in
  no_refusal (outcomes_v0 [118; 48; 10; 118; 49; 10] sched) = true
  /\ apply_v0 [118; 48; 10; 118; 49; 10] sched = [109; 49; 10; 109; 50; 10].
Proof. vm_compute. split; reflexivity. Qed.

(* ------------------------------------------------------------------------------------------- *)
(* 3. The repaired code: refusing by transaction is atomic, for every refusal predicate. *)
Section TxProofs.
Variable T : Type.
Variable refused : tkey * rewrite T -> bool.
Notation entryT := (tkey * rewrite T)%type.

Lemma filter_key_all (ks : list tkey) (key : tkey) (l : list entryT) :
  existsb (key_eqb key) ks = false ->
  filter (fun e => key_eqb (fst e) key) (filter (fun e => negb (existsb (key_eqb (fst e)) ks)) l)
  = filter (fun e => key_eqb (fst e) key) l.
Proof.
  intros H. induction l as [|e l IH]; [reflexivity|]. cbn [filter].
  destruct (key_eqb (fst e) key) eqn:K.
  - pose proof K as K'. apply key_eqb_spec in K'. rewrite K' at 1. rewrite H. cbn [negb filter]. rewrite K. f_equal. exact IH.
  - destruct (negb (existsb (key_eqb (fst e)) ks)); cbn [filter]; rewrite ?K; exact IH.
Qed.

Lemma filter_key_none (ks : list tkey) (key : tkey) (l : list entryT) :
  existsb (key_eqb key) ks = true ->
  filter (fun e => key_eqb (fst e) key) (filter (fun e => negb (existsb (key_eqb (fst e)) ks)) l) = [].
Proof.
  intros H. induction l as [|e l IH]; [reflexivity|]. cbn [filter].
  destruct (negb (existsb (key_eqb (fst e)) ks)) eqn:N; [|exact IH].
  cbn [filter]. destruct (key_eqb (fst e) key) eqn:K; [|exact IH].
  apply key_eqb_spec in K. rewrite K, H in N. discriminate N.
Qed.

(* all members of a transaction survive, or none *)
Theorem surviving_atomic (sched : list entryT) (key : tkey) :
  let got := filter (fun e => key_eqb (fst e) key) (surviving T refused sched) in
  got = [] \/ got = filter (fun e => key_eqb (fst e) key) sched.
Proof.
  cbv zeta. unfold surviving.
  destruct (existsb (key_eqb key) (refused_keys T refused sched)) eqn:E.
  - left. apply filter_key_none. exact E.
  - right. apply filter_key_all. exact E.
Qed.

(* a transaction is taken out iff one of its members is refused *)
Theorem surviving_drop_iff (sched : list entryT) (key : tkey) :
  In key (map fst sched) ->
  (In key (map fst (surviving T refused sched)) <->
   forall e, In e sched -> fst e = key -> refused e = false).
Proof.
  intros Hin. unfold surviving. split.
  - intros H e He Hk. apply in_map_iff in H. destruct H as [e' [Hk' He']].
    apply filter_In in He'. destruct He' as [_ Hn]. apply negb_true_iff in Hn.
    destruct (refused e) eqn:R; [|reflexivity]. exfalso.
    assert (X : existsb (key_eqb (fst e')) (refused_keys T refused sched) = true).
    { apply existsb_exists. exists (fst e). split.
      - unfold refused_keys. apply in_map. apply filter_In. split; assumption.
      - rewrite Hk', Hk. apply key_eqb_refl. }
    congruence.
  - intros H. apply in_map_iff in Hin. destruct Hin as [e [Hk He]].
    apply in_map_iff. exists e. split; [exact Hk|]. apply filter_In. split; [exact He|].
    apply negb_true_iff. destruct (existsb (key_eqb (fst e)) (refused_keys T refused sched)) eqn:X; [|reflexivity].
    exfalso. apply existsb_exists in X. destruct X as [k [Hk1 Hk2]]. apply key_eqb_spec in Hk2.
    unfold refused_keys in Hk1. apply in_map_iff in Hk1. destruct Hk1 as [e2 [He2 Hf]].
    apply filter_In in Hf. destruct Hf as [Hf1 Hf2].
    rewrite (H e2 Hf1) in Hf2; [discriminate|]. congruence.
Qed.

(* the survivors are scheduled entries, in the same order: disjointness carries over *)
Lemma surviving_incl (sched : list entryT) e : In e (surviving T refused sched) -> In e sched.
Proof. unfold surviving. intros H. apply filter_In in H. tauto. Qed.

End TxProofs.

(* whole pass: scheduler + transaction-wise refusal.  The rewrites of a transaction that reach the text are
   none of them, or exactly its (set-deduplicated) rewrites. *)
Theorem pass_atomic :
  forall (T : Type) (teqb : T -> T -> bool) (tcmp : T -> T -> comparison),
    (forall a b, teqb a b = true <-> a = b) ->
  forall (refused : tkey * rewrite T -> bool) (ilines : list range) (groups : list (list (yielded T)))
         (key : tkey),
    let got := filter (fun e => key_eqb (fst e) key)
                      (surviving T refused (schedule T teqb tcmp ilines groups)) in
    got = [] \/ Permutation (map snd got) (nodup_rw T teqb (tx_of T groups key)).
Proof.
  intros T teqb tcmp Hspec refused ilines groups key. cbv zeta.
  destruct (surviving_atomic T refused (schedule T teqb tcmp ilines groups) key) as [E|E]; rewrite E.
  - left. reflexivity.
  - exact (schedule_atomic T teqb tcmp Hspec ilines groups key).
Qed.

Lemma FOP_filter {A} (R : A -> A -> Prop) (f : A -> bool) (l : list A) :
  ForallOrdPairs R l -> ForallOrdPairs R (filter f l).
Proof.
  induction 1 as [|a l Ha Hl IH]; cbn [filter]; [constructor|].
  destruct (f a); [|exact IH]. constructor; [|exact IH].
  rewrite Forall_forall in *. intros x Hx. apply filter_In in Hx. apply Ha. tauto.
Qed.

Theorem pass_disjoint :
  forall (T : Type) (teqb : T -> T -> bool) (tcmp : T -> T -> comparison)
         (refused : tkey * rewrite T -> bool) (ilines : list range) (groups : list (list (yielded T))),
    ForallOrdPairs (fun a b => overlaps (rrng (snd a)) (rrng (snd b)) = false)
                   (surviving T refused (schedule T teqb tcmp ilines groups)).
Proof.
  intros. unfold surviving. apply FOP_filter. apply schedule_disjoint.
Qed.

(* the repaired application step on the two hunt inputs: whole transaction refused / whole transaction applied *)
Example apply_tx_c10_0 :
  apply_tx src_c10_0 (schedule_text [] groups_c10_0) = src_c10_0.
Proof. vm_compute. reflexivity. Qed.

Example apply_tx_c10_1 :
  apply_tx src_c10_1 (schedule_text [(6, 32)] groups_c10_1)
  = [97;32;61;32;51;59;32;
     98;32;61;32;50;32;32;35;32;112;121;114;101;102;97;99;116;58;32;105;103;110;111;114;101;10;
     112;114;105;110;116;40;97;44;32;98;41;10].
Proof. vm_compute. reflexivity. Qed.
