(* K4, round 5 -- proofs about LitValRbModel: literal_value with the per-file rebinding guard.
   lv_rb_nil        a file that rebinds nothing: lv_rb [] = lv (all of LitValProofs applies)
   eval_rb_nil      likewise for the reference semantics
   lv_rb_sound      a value returned for a file that rebinds [rb] is the value Python computes in every program
                    that rebinds [rb], whatever the rebound names are bound to: no call through a rebound name
                    is reached (such a call is Gap in eval_rb)
   rebound_call_unknown   a direct call of a rebound name never has a known value
   lv_rb_depends_on_rebound_set   the rebound set is a real argument: the same expression has a value in one file
                    and none in another (so a result memoised by expression alone is wrong -- seed C15-d) *)
From Coq Require Import List ZArith Bool String.
Import ListNotations.
Require Import Pyrefact.Ops Pyrefact.PyValModel Pyrefact.LitValModel Pyrefact.LitValProofs Pyrefact.LitValRbModel.
Require Import PyrefactGen.Tables PyrefactGen.TablesC15.
Open Scope Z_scope.

Lemma lv_rb_unfold : forall rb e,
  lv_rb rb e = wrap (if hse BUILTIN_FUNCTIONS e then Exc KValue else
     match e with
     | EBin o a b =>
         match table_fn (OB o) with
         | Some f => x <- sub (lv_rb rb a) ;; y <- sub (lv_rb rb b) ;; opfn_apply f x y
         | None => leval_rb rb e
         end
     | ECmp a rest =>
         match rest with
         | [] => Gap
         | _ => cmp_all (fun x => sub (lv_rb rb x)) (sub (lv_rb rb a)) rest
         end
     | EUn UNot a => v <- sub (lv_rb rb a) ;; Val (VBool (negb (truthy v)))
     | EBool isand es =>
         match es with
         | [] => Exc KValue
         | _ => boolop_go (fun x => sub (lv_rb rb x)) isand es
         end
     | EMeth recv m args kws =>
         match kws with
         | [] => if is_dunder m then Exc KValue
                 else a <- eval_list (fun x => sub (lv_rb rb x)) args ;; call_method recv m a
         | _ => Exc KValue
         end
     | ECall f args kws =>
         match kws with
         | [] =>
             if mem_str f PURE_BUILTIN_FUNCTIONS && negb (mem_str f rb) then
               a <- eval_list (fun x => sub (lv_rb rb x)) args ;; call_builtin f a
             else leval_rb rb e
         | _ => leval_rb rb e
         end
     | _ => leval_rb rb e
     end).
Proof. destruct e; reflexivity. Qed.

(* ---------- nothing rebound ---------- *)
Lemma existsb_false_Forall : forall {X} (p : X -> bool) l, Forall (fun x => p x = false) l -> existsb p l = false.
Proof. intros X p l H. induction H as [| x tl Hx _ IH]; [reflexivity|]. cbn [existsb]. rewrite Hx, IH. reflexivity. Qed.

Lemma calls_rebound_nil : forall e, calls_rebound [] e = false.
Proof.
  induction e as [v0 | x0 | o a IHa | o a b IHa IHb | isand es IHes | a rest IHa IHrest | c a b IHc IHa IHb | es IHes | es IHes | f args kws IHargs IHkws | r m args kws IHargs IHkws] using expr_ind';
    cbn [calls_rebound]; try reflexivity.
  - exact IHa.
  - rewrite IHa, IHb. reflexivity.
  - exact (existsb_false_Forall _ _ IHes).
  - rewrite IHa. exact (existsb_false_Forall (fun p => calls_rebound [] (snd p)) _ IHrest).
  - rewrite IHc, IHa, IHb. reflexivity.
  - exact (existsb_false_Forall _ _ IHes).
  - exact (existsb_false_Forall _ _ IHes).
  - rewrite (existsb_false_Forall _ _ IHargs).
    rewrite (existsb_false_Forall (fun p => calls_rebound [] (snd p)) _ IHkws). reflexivity.
  - rewrite (existsb_false_Forall _ _ IHargs).
    exact (existsb_false_Forall (fun p => calls_rebound [] (snd p)) _ IHkws).
Qed.

Lemma leval_rb_nil : forall e, leval_rb [] e = leval e.
Proof. intros e. unfold leval_rb. rewrite calls_rebound_nil. reflexivity. Qed.

Lemma boolop_go_ext : forall f g isand l, Forall (fun x => f x = g x) l -> boolop_go f isand l = boolop_go g isand l.
Proof.
  intros f g isand l H. induction H as [| x tl Hx Htl IH]; [reflexivity|].
  destruct tl as [| y tl'].
  - exact Hx.
  - change (boolop_go f isand (x :: y :: tl')) with
      (w <- f x ;; if Bool.eqb (truthy w) isand then boolop_go f isand (y :: tl') else Val w).
    change (boolop_go g isand (x :: y :: tl')) with
      (w <- g x ;; if Bool.eqb (truthy w) isand then boolop_go g isand (y :: tl') else Val w).
    rewrite Hx, IH. reflexivity.
Qed.

Lemma cmp_all_ext : forall f g rest r,
  Forall (fun p => f (snd p) = g (snd p)) rest -> cmp_all f r rest = cmp_all g r rest.
Proof.
  intros f g rest. induction rest as [| [o b] tl IH]; intros r HF; [reflexivity|].
  inversion HF as [| ? ? Hb Htl]; subst. cbn [snd] in Hb.
  cbn [cmp_all]. rewrite Hb. destruct (table_fn (OC o)); [| reflexivity].
  destruct r as [x | k |]; cbn [bind]; try reflexivity.
  destruct (g b) as [y | k |]; cbn [bind]; try reflexivity.
  destruct (opfn_apply o0 x y) as [w | k |]; cbn [bind]; try reflexivity.
  destruct (truthy w); [apply IH; exact Htl | reflexivity].
Qed.

Theorem lv_rb_nil : forall e, lv_rb [] e = lv e.
Proof.
  induction e as [v0 | x0 | o a IHa | o a b IHa IHb | isand es IHes | a rest IHa IHrest | c a b IHc IHa IHb | es IHes | es IHes | f args kws IHargs IHkws | r m args kws IHargs IHkws] using expr_ind';
    rewrite lv_rb_unfold, lv_unfold; rewrite ?leval_rb_nil; try reflexivity.
  - (* EUn *) destruct o; rewrite ?leval_rb_nil; try reflexivity. rewrite IHa. reflexivity.
  - (* EBin *) rewrite IHa, IHb. reflexivity.
  - (* EBool *) destruct es as [| e0 es']; [reflexivity|].
    rewrite (boolop_go_ext (fun x => sub (lv_rb [] x)) (fun x => sub (lv x))); [reflexivity|].
    eapply Forall_impl; [| exact IHes]. intros a Ha. cbn beta. rewrite Ha. reflexivity.
  - (* ECmp *) destruct rest as [| p rest']; [reflexivity|]. rewrite IHa.
    rewrite (cmp_all_ext (fun x => sub (lv_rb [] x)) (fun x => sub (lv x))); [reflexivity|].
    eapply Forall_impl; [| exact IHrest]. intros q Hq. cbn beta. rewrite Hq. reflexivity.
  - (* ECall *) destruct kws as [| k kws']; [| reflexivity].
    cbn [mem_str existsb negb]. rewrite andb_true_r.
    rewrite (eval_list_exact (fun x => sub (lv_rb [] x)) (fun x => sub (lv x))); [reflexivity|].
    eapply Forall_impl; [| exact IHargs]. intros a Ha. cbn beta. rewrite Ha. reflexivity.
  - (* EMeth *) destruct kws as [| k kws']; [| reflexivity].
    rewrite (eval_list_exact (fun x => sub (lv_rb [] x)) (fun x => sub (lv x))); [reflexivity|].
    eapply Forall_impl; [| exact IHargs]. intros a Ha. cbn beta. rewrite Ha. reflexivity.
Qed.

Lemma eval_kws_ext : forall f g l, Forall (fun p => f (snd p) = g (snd p)) l -> eval_kws f l = eval_kws g l.
Proof.
  intros f g l H. induction H as [| [n x] tl Hx _ IH]; [reflexivity|].
  cbn [eval_kws]. cbn [snd] in Hx. rewrite Hx, IH. reflexivity.
Qed.

Lemma cmp_go_ext : forall f g rest x, Forall (fun p => f (snd p) = g (snd p)) rest -> cmp_go f x rest = cmp_go g x rest.
Proof.
  intros f g rest. induction rest as [| [o b] tl IH]; intros x HF; [reflexivity|].
  inversion HF as [| ? ? Hb Htl]; subst. cbn [snd] in Hb.
  destruct tl as [| p tl'].
  - cbn [cmp_go]. rewrite Hb. reflexivity.
  - change (cmp_go f x ((o, b) :: p :: tl')) with
      (y0 <- f b ;; r0 <- opfn_apply (cmpop_fn o) x y0 ;; if truthy r0 then cmp_go f y0 (p :: tl') else Val r0).
    change (cmp_go g x ((o, b) :: p :: tl')) with
      (y0 <- g b ;; r0 <- opfn_apply (cmpop_fn o) x y0 ;; if truthy r0 then cmp_go g y0 (p :: tl') else Val r0).
    rewrite Hb. destruct (g b) as [y | k |]; cbn [bind]; try reflexivity.
    destruct (opfn_apply (cmpop_fn o) x y) as [w | k |]; cbn [bind]; try reflexivity.
    destruct (truthy w); [apply IH; exact Htl | reflexivity].
Qed.

Theorem eval_rb_nil : forall env e, eval_rb [] env e = eval env e.
Proof.
  intros env.
  induction e as [v0 | x0 | o a IHa | o a b IHa IHb | isand es IHes | a rest IHa IHrest | c a b IHc IHa IHb | es IHes | es IHes | f args kws IHargs IHkws | r m args kws IHargs IHkws] using expr_ind';
    cbn [eval_rb eval]; [reflexivity | reflexivity | ..].
  - rewrite IHa. reflexivity.
  - rewrite IHa, IHb. reflexivity.
  - apply boolop_go_ext. exact IHes.
  - rewrite IHa. destruct (eval env a) as [x | k |]; cbn [bind]; try reflexivity;
    try (apply cmp_go_ext; exact IHrest).
  - rewrite IHc, IHa, IHb. reflexivity.
  - rewrite (eval_list_exact _ _ _ IHes). reflexivity.
  - rewrite (eval_list_exact _ _ _ IHes). reflexivity.
  - rewrite (eval_list_exact _ _ _ IHargs), (eval_kws_ext _ _ _ IHkws). reflexivity.
  - rewrite (eval_list_exact _ _ _ IHargs). reflexivity.
Qed.

(* ---------- soundness under rebinding ---------- *)
Lemma lv_rb_known_body : forall rb e v, lv_rb rb e = LKnown v ->
  match e with
     | EBin o a b =>
         match table_fn (OB o) with
         | Some f => x <- sub (lv_rb rb a) ;; y <- sub (lv_rb rb b) ;; opfn_apply f x y
         | None => leval_rb rb e
         end
     | ECmp a rest =>
         match rest with
         | [] => Gap
         | _ => cmp_all (fun x => sub (lv_rb rb x)) (sub (lv_rb rb a)) rest
         end
     | EUn UNot a => v <- sub (lv_rb rb a) ;; Val (VBool (negb (truthy v)))
     | EBool isand es =>
         match es with
         | [] => Exc KValue
         | _ => boolop_go (fun x => sub (lv_rb rb x)) isand es
         end
     | EMeth recv m args kws =>
         match kws with
         | [] => if is_dunder m then Exc KValue
                 else a <- eval_list (fun x => sub (lv_rb rb x)) args ;; call_method recv m a
         | _ => Exc KValue
         end
     | ECall f args kws =>
         match kws with
         | [] =>
             if mem_str f PURE_BUILTIN_FUNCTIONS && negb (mem_str f rb) then
               a <- eval_list (fun x => sub (lv_rb rb x)) args ;; call_builtin f a
             else leval_rb rb e
         | _ => leval_rb rb e
         end
     | _ => leval_rb rb e
     end = Val v.
Proof.
  intros rb e v H. rewrite lv_rb_unfold in H. apply wrap_known in H. apply gate_val in H. exact H.
Qed.

(* what ast.literal_eval accepts never reaches a call, so rebinding does not matter for it *)
Lemma leval_sound_rb : forall rb env e v, leval e = Val v -> eval_rb rb env e = Val v.
Proof.
  intros rb env. induction e as [v0 | x0 | o a IHa | o a b IHa IHb | isand es IHes | a rest IHa IHrest | c a b IHc IHa IHb | es IHes | es IHes | f args kws IHargs IHkws | r m args kws IHargs IHkws] using expr_ind';
    intros w H; cbn [leval] in H; try discriminate.
  - exact H.
  - destruct o; try discriminate; destruct a; try discriminate; destruct v; try discriminate;
      inversion H; reflexivity.
  - apply bind_val in H. destruct H as [l [Hl H]]. cbn [eval_rb].
    rewrite (eval_list_mono leval (eval_rb rb env) es l); [exact H | | exact Hl].
    eapply Forall_impl; [| exact IHes]. intros a Ha v Hv. exact (Ha v Hv).
  - apply bind_val in H. destruct H as [l [Hl H]]. cbn [eval_rb].
    rewrite (eval_list_mono leval (eval_rb rb env) es l); [exact H | | exact Hl].
    eapply Forall_impl; [| exact IHes]. intros a Ha v Hv. exact (Ha v Hv).
  - destruct args; [| discriminate]. destruct kws; [| discriminate].
    destruct (String.eqb f "set"); discriminate.
Qed.

Lemma leval_rb_sound : forall rb env e v, leval_rb rb e = Val v -> eval_rb rb env e = Val v.
Proof.
  intros rb env e v H. unfold leval_rb in H. destruct (calls_rebound rb e); [discriminate|].
  exact (leval_sound_rb rb env e v H).
Qed.

Theorem lv_rb_sound : forall rb env e v, lv_rb rb e = LKnown v -> eval_rb rb env e = Val v.
Proof.
  intros rb env. induction e as [v0 | x0 | o a IHa | o a b IHa IHb | isand es IHes | a rest IHa IHrest | c a b IHc IHa IHb | es IHes | es IHes | f args kws IHargs IHkws | r m args kws IHargs IHkws] using expr_ind';
    intros w H; apply lv_rb_known_body in H.
  - exact (leval_rb_sound rb env _ _ H).
  - exact (leval_rb_sound rb env _ _ H).
  - (* EUn *)
    destruct o; try exact (leval_rb_sound rb env _ _ H).
    apply bind_val in H. destruct H as [x [Hx H]]. apply sub_val in Hx.
    cbn [eval_rb]. rewrite (IHa x Hx). exact H.
  - (* EBin *)
    rewrite table_binop in H.
    apply bind_val in H. destruct H as [x [Hx H]]. apply sub_val in Hx.
    apply bind_val in H. destruct H as [y [Hy H]]. apply sub_val in Hy.
    cbn [eval_rb]. rewrite (IHa x Hx), (IHb y Hy). exact H.
  - (* EBool *)
    destruct es as [| e0 es']; [discriminate|].
    cbn [eval_rb]. apply (boolop_go_mono (fun x => sub (lv_rb rb x)) (eval_rb rb env)); [| exact H].
    eapply Forall_impl; [| exact IHes]. intros a Ha v Hv. apply sub_val in Hv. exact (Ha v Hv).
  - (* ECmp *)
    destruct rest as [| p rest']; [discriminate|].
    destruct (sub (lv_rb rb a)) as [x | k |] eqn:Hx.
    + apply sub_val in Hx. cbn [eval_rb]. rewrite (IHa x Hx). cbn [bind].
      apply (cmp_all_sound (fun x => sub (lv_rb rb x)) (eval_rb rb env)); [discriminate | | exact H].
      eapply Forall_impl; [| exact IHrest]. intros q Hq v Hv. apply sub_val in Hv. exact (Hq v Hv).
    + destruct p as [o b]. cbn [cmp_all] in H. rewrite table_cmpop in H. discriminate.
    + destruct p as [o b]. cbn [cmp_all] in H. rewrite table_cmpop in H. discriminate.
  - (* EIf *) exact (leval_rb_sound rb env _ _ H).
  - (* ETuple *) exact (leval_rb_sound rb env _ _ H).
  - (* EList *) exact (leval_rb_sound rb env _ _ H).
  - (* ECall *)
    destruct kws as [| k kws']; [| exact (leval_rb_sound rb env _ _ H)].
    destruct (mem_str f PURE_BUILTIN_FUNCTIONS); cbn [andb] in H; [| exact (leval_rb_sound rb env _ _ H)].
    destruct (mem_str f rb) eqn:Hrb; cbn [negb] in H; [exact (leval_rb_sound rb env _ _ H)|].
    apply bind_val in H. destruct H as [a [Ha H]].
    cbn [eval_rb eval_kws]. rewrite (eval_list_mono (fun x => sub (lv_rb rb x)) (eval_rb rb env) args a); [| | exact Ha].
    + cbn [bind]. rewrite Hrb. cbn [call_builtin_kw]. exact H.
    + eapply Forall_impl; [| exact IHargs]. intros x Hx v Hv. apply sub_val in Hv. exact (Hx v Hv).
  - (* EMeth *)
    destruct kws as [| k kws']; [| discriminate].
    destruct (is_dunder m); [discriminate|].
    apply bind_val in H. destruct H as [a [Ha H]].
    cbn [eval_rb]. rewrite (call_method_known _ _ _ _ H).
    rewrite (eval_list_mono (fun x => sub (lv_rb rb x)) (eval_rb rb env) args a); [| | exact Ha].
    + cbn [bind]. exact H.
    + eapply Forall_impl; [| exact IHargs]. intros x Hx v Hv. apply sub_val in Hv. exact (Hx v Hv).
Qed.

(* a direct call of a name the file binds never has a known value *)
Theorem rebound_call_unknown : forall rb f args kws v,
  mem_str f rb = true -> lv_rb rb (ECall f args kws) <> LKnown v.
Proof.
  intros rb f args kws v Hrb H. apply lv_rb_known_body in H.
  assert (L : leval_rb rb (ECall f args kws) <> Val v).
  { unfold leval_rb. cbn [calls_rebound]. rewrite Hrb. cbn [orb]. discriminate. }
  destruct kws as [| k kws']; [| exact (L H)].
  rewrite Hrb in H. cbn [negb] in H. rewrite andb_false_r in H. exact (L H).
Qed.

(* the rebound set is a real argument of literal_value: `len('a')` has the value 1 in a file that leaves len
   alone and no value in a file that defines its own len -- whichever was evaluated first *)
Open Scope string_scope.
Definition len_a : expr := ECall "len" [EConst (VStr [97%Z])] [].
Theorem lv_rb_depends_on_rebound_set :
  lv_rb [] len_a = LKnown (VInt 1) /\ lv_rb ["len"] len_a = LUnknown /\ lv len_a = LKnown (VInt 1).
Proof. split; [| split]; vm_compute; reflexivity. Qed.
Close Scope string_scope.
