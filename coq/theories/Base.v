(* Shared helpers for the correspondence case files. *)
From Coq Require Import List.
Import ListNotations.

Fixpoint bad_idx_from {X} (ok : X -> bool) (i : nat) (l : list X) : list nat :=
  match l with
  | [] => []
  | c :: tl => if ok c then bad_idx_from ok (S i) tl else i :: bad_idx_from ok (S i) tl
  end.
Definition bad_idx {X} (ok : X -> bool) (l : list X) : list nat := bad_idx_from ok O l.
