(* K6 -- a VERIFIED CHECKER for the outputs of the sympy based rule
   symbolic_math.simplify_boolean_expressions_symmath (symbolic_math.py:36-114, 641-654).
   sympy is not modelled: every (input, output) pair the real rule yields is handed to the checkers
   below (translation validation).  Three checkers, from coarse to fine:
     equiv_dec        propositional: atoms are opaque, truth table over the atoms of both formulas;
     equiv_dec_arith  atoms `x op c` / `c op x` / a bare integer name are interpreted over the
                      integers: every variable ranges over the points c-1, c, c+1 of the constants;
     vequiv_dec       the VALUE Python computes (`and` / `or` return an operand, `not` a bool),
                      names are integer valued.
   The semantics (peval / teval / veval) are definitions, validated against CPython by the harness. *)
From Coq Require Import List ZArith Bool.
Import ListNotations.
Require Import Pyrefact.BoundModel.
Open Scope Z_scope.

(* ---------------- propositional layer, generic in the atom type ---------------- *)
Section Propositional.
Variable A : Type.
Variable aeqb : A -> A -> bool.

Inductive pform :=
| PAtom (a : A)
| PConst (b : bool)
| PNot (f : pform)
| PAnd (f g : pform)
| POr (f g : pform).

Fixpoint peval (v : A -> bool) (f : pform) : bool :=
  match f with
  | PAtom a => v a
  | PConst b => b
  | PNot f' => negb (peval v f')
  | PAnd f1 f2 => peval v f1 && peval v f2
  | POr f1 f2 => peval v f1 || peval v f2
  end.

Fixpoint atoms (f : pform) : list A :=
  match f with
  | PAtom a => [a]
  | PConst _ => []
  | PNot f' => atoms f'
  | PAnd f1 f2 | POr f1 f2 => atoms f1 ++ atoms f2
  end.

Definition memb (a : A) (l : list A) : bool := existsb (aeqb a) l.

Fixpoint dedup (l : list A) : list A :=
  match l with
  | [] => []
  | a :: tl => if memb a tl then dedup tl else a :: dedup tl
  end.

Fixpoint subsets (l : list A) : list (list A) :=
  match l with
  | [] => [[]]
  | a :: tl => map (cons a) (subsets tl) ++ subsets tl
  end.

(* the valuation "exactly the atoms of U are true" *)
Definition val_of (U : list A) : A -> bool := fun a => memb a U.

Definition agree_on (f g : pform) (U : list A) : bool :=
  Bool.eqb (peval (val_of U) f) (peval (val_of U) g).

Definition table_atoms (f g : pform) : list A := dedup (atoms f ++ atoms g).

Definition equiv_dec (f g : pform) : bool :=
  forallb (agree_on f g) (subsets (table_atoms f g)).

(* for the harness: the set of true atoms of a distinguishing valuation *)
Definition counterexample (f g : pform) : option (list A) :=
  find (fun U => negb (agree_on f g U)) (subsets (table_atoms f g)).
End Propositional.

Arguments PAtom {A} a.
Arguments PConst {A} b.
Arguments PNot {A} f.
Arguments PAnd {A} f g.
Arguments POr {A} f g.
Arguments peval {A} v f.
Arguments atoms {A} f.
Arguments memb {A} aeqb a l.
Arguments dedup {A} aeqb l.
Arguments subsets {A} l.
Arguments val_of {A} aeqb U.
Arguments agree_on {A} aeqb f g U.
Arguments table_atoms {A} aeqb f g.
Arguments equiv_dec {A} aeqb f g.
Arguments counterexample {A} aeqb f g.

(* ---------------- atoms of Python conditions ---------------- *)
(* AName x      : the bare name x used as an operand (an integer variable: true iff non-zero)
   ACmp x op c fl : `x op c` (fl = false) or `c op x` (fl = true), x an integer variable
   AOpq i       : any other operand (a bool valued opaque condition, e.g. `x == y`, `p(x)`) *)
Inductive atom :=
| AName (x : nat)
| ACmp (x : nat) (op : bop) (c : Z) (fl : bool)
| AOpq (i : nat).

Definition atom_eqb (a b : atom) : bool :=
  match a, b with
  | AName x, AName y => Nat.eqb x y
  | ACmp x o c f, ACmp y p d g => Nat.eqb x y && bop_eqb o p && (c =? d) && Bool.eqb f g
  | AOpq i, AOpq j => Nat.eqb i j
  | _, _ => false
  end.

Definition form := pform atom.

Definition atom_truth (rho : nat -> Z) (sigma : nat -> bool) (a : atom) : bool :=
  match a with
  | AName x => negb (rho x =? 0)
  | ACmp x op c fl => if fl then cmp_sem op c (rho x) else cmp_sem op (rho x) c
  | AOpq i => sigma i
  end.

(* truth value of a condition under an integer valuation rho and an interpretation sigma of the
   opaque operands *)
Definition teval (rho : nat -> Z) (sigma : nat -> bool) (f : form) : bool :=
  peval (atom_truth rho sigma) f.

(* ---------------- the value Python computes ---------------- *)
(* [val], [truthy], [val_eqb]: BoundModel *)

Definition atom_val (rho : nat -> Z) (sigma : nat -> bool) (a : atom) : val :=
  match a with
  | AName x => VI (rho x)
  | _ => VB (atom_truth rho sigma a)
  end.

Fixpoint veval (rho : nat -> Z) (sigma : nat -> bool) (f : form) : val :=
  match f with
  | PAtom a => atom_val rho sigma a
  | PConst b => VB b
  | PNot f' => VB (negb (truthy (veval rho sigma f')))
  | PAnd f1 f2 => let v := veval rho sigma f1 in if truthy v then veval rho sigma f2 else v
  | POr f1 f2 => let v := veval rho sigma f1 in if truthy v then v else veval rho sigma f2
  end.

(* which operand decides: a bool, the (non-zero) name x, or a name that is zero *)
Inductive sel := SB (b : bool) | SN (x : nat) | SZ.
Definition sel_eqb (a b : sel) : bool :=
  match a, b with
  | SB x, SB y => Bool.eqb x y
  | SN x, SN y => Nat.eqb x y
  | SZ, SZ => true
  | _, _ => false
  end.
Definition decode (rho : nat -> Z) (s : sel) : val :=
  match s with SB b => VB b | SN x => VI (rho x) | SZ => VI 0 end.

Fixpoint seval (rho : nat -> Z) (sigma : nat -> bool) (f : form) : sel :=
  match f with
  | PAtom (AName x) => if rho x =? 0 then SZ else SN x
  | PAtom a => SB (atom_truth rho sigma a)
  | PConst b => SB b
  | PNot f' => SB (negb (teval rho sigma f'))
  | PAnd f1 f2 => if teval rho sigma f1 then seval rho sigma f2 else seval rho sigma f1
  | POr f1 f2 => if teval rho sigma f1 then seval rho sigma f1 else seval rho sigma f2
  end.

(* a formula without bare names in it: every sub-expression is a bool *)
Fixpoint names_free (f : form) : bool :=
  match f with
  | PAtom (AName _) => false
  | PAtom _ | PConst _ => true
  | PNot f' => names_free f'
  | PAnd f1 f2 | POr f1 f2 => names_free f1 && names_free f2
  end.

(* ---------------- the finite set of representative integer valuations ---------------- *)
Definition atom_consts (a : atom) : list Z :=
  match a with AName _ => [0] | ACmp _ _ c _ => [c] | AOpq _ => [] end.
Definition atom_vars (a : atom) : list nat :=
  match a with AName x => [x] | ACmp x _ _ _ => [x] | AOpq _ => [] end.
Definition atom_opqs (a : atom) : list nat :=
  match a with AOpq i => [i] | _ => [] end.

Definition consts (f : form) : list Z := flat_map atom_consts (atoms f).
Definition vars (f : form) : list nat := flat_map atom_vars (atoms f).
Definition opqs (f : form) : list nat := flat_map atom_opqs (atoms f).

(* 0 and, for every constant c, the points c-1, c, c+1 *)
Definition points (C : list Z) : list Z := 0 :: flat_map (fun c => [c - 1; c; c + 1]) C.

Definition same_side (r x c : Z) : bool :=
  match r ?= c, x ?= c with
  | Eq, Eq | Lt, Lt | Gt, Gt => true
  | _, _ => false
  end.

(* a point of [points C] on the same side of every constant of C as x *)
Definition rep (C : list Z) (x : Z) : Z :=
  match find (fun r => forallb (same_side r x) C) (points C) with
  | Some r => r
  | None => 0
  end.

Fixpoint assignments (V : list nat) (P : list Z) : list (list (nat * Z)) :=
  match V with
  | [] => [[]]
  | x :: tl => flat_map (fun z => map (cons (x, z)) (assignments tl P)) P
  end.

Fixpoint lookup (asg : list (nat * Z)) (x : nat) : Z :=
  match asg with
  | [] => 0
  | (y, z) :: tl => if Nat.eqb x y then z else lookup tl x
  end.

Definition mem_nat (U : list nat) (i : nat) : bool := existsb (Nat.eqb i) U.

Definition grid (f g : form) : list (list (nat * Z) * list nat) :=
  let C := dedup Z.eqb (consts f ++ consts g) in
  let P := dedup Z.eqb (points C) in
  let V := dedup Nat.eqb (vars f ++ vars g) in
  let O := dedup Nat.eqb (opqs f ++ opqs g) in
  list_prod (assignments V P) (subsets O).

Definition truth_agree (f g : form) (pt : list (nat * Z) * list nat) : bool :=
  Bool.eqb (teval (lookup (fst pt)) (mem_nat (snd pt)) f) (teval (lookup (fst pt)) (mem_nat (snd pt)) g).

Definition value_agree (f g : form) (pt : list (nat * Z) * list nat) : bool :=
  sel_eqb (seval (lookup (fst pt)) (mem_nat (snd pt)) f) (seval (lookup (fst pt)) (mem_nat (snd pt)) g).

(* truth equivalence over the integers *)
Definition equiv_dec_arith (f g : form) : bool := forallb (truth_agree f g) (grid f g).
(* value equivalence over the integers (sound; see BoolEquivProofs.vequiv_dec_sound) *)
Definition vequiv_dec (f g : form) : bool := forallb (value_agree f g) (grid f g).

(* ---------------- correspondence plumbing ---------------- *)
(* one yield of the real rule: (input, output, value context?, expected truth verdict, expected value
   verdict as observed by evaluating both texts in CPython over a box) is NOT what is checked here:
   the verdict of the checkers themselves is what the harness reads. *)
Definition verdict_code (f g : form) : nat :=
  (* 0: not even truth equivalent; 1: truth equivalent only; 2: value equivalent;
     +10 when the propositional checker alone accepts *)
  ((if equiv_dec atom_eqb f g then 10 else 0) +
   (if vequiv_dec f g then 2 else if equiv_dec_arith f g then 1 else 0))%nat.

(* one (input, output) pair the real rule yielded; ctx = only the truth value of the node is used *)
Definition sym_case_ok (c : form * form * bool) : bool :=
  let '(f, g, ctx) := c in if ctx then equiv_dec_arith f g else vequiv_dec f g.

(* validation of the reference semantics against CPython: value of the formula at a valuation *)
Definition veval_case_ok (c : form * list (nat * Z) * list nat * val) : bool :=
  let '(f, asg, U, v) := c in val_eqb (veval (lookup asg) (mem_nat U) f) v.
