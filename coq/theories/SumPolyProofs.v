(* K6 -- the discrete fundamental theorem behind the validation of emitted closed forms:
   a candidate F with F (k + 1) = F k + f k sums f over range(a, b) to F b - F a (a <= b).
   The generated instance files discharge the two premises (polynomial identities over Q) with `field`,
   which turns "agrees on a box" into "agrees for ALL a <= b" for that instance. *)
From Coq Require Import List ZArith QArith Qround Bool Lia.
Import ListNotations.
Require Import Pyrefact.RangeModel Pyrefact.BoolEquivModel Pyrefact.SumPolyModel.
Open Scope Z_scope.

Definition qsumf (f : Z -> Q) (l : list Z) : Q := fold_right (fun z acc => (f z + acc)%Q) 0%Q l.

Lemma zrange1_nil : forall a b, b <= a -> zrange a b 1 = [].
Proof.
  intros a b H. unfold zrange. cbn [Z.ltb Z.compare].
  replace (Z.to_nat (b - a)) with O by lia. reflexivity.
Qed.

Lemma zrange1_cons : forall a b, a < b -> zrange a b 1 = a :: zrange (a + 1) b 1.
Proof.
  intros a b H. unfold zrange. cbn [Z.ltb Z.compare].
  replace (Z.to_nat (b - a)) with (S (Z.to_nat (b - (a + 1)))) by lia.
  cbn [zrange_up]. destruct (Z.ltb_spec a b); [reflexivity | lia].
Qed.

Theorem telescope : forall (F f : Z -> Q),
  (forall k : Z, (F (k + 1)%Z == F k + f k)%Q) ->
  forall a b, a <= b -> (qsumf f (zrange a b 1) == F b - F a)%Q.
Proof.
  intros F f HF a b Hab.
  remember (Z.to_nat (b - a)) as n eqn:Hn. revert a Hab Hn.
  induction n as [|n IH]; intros a Hab Hn.
  - assert (a = b) by lia. subst. rewrite zrange1_nil by lia. cbn [qsumf fold_right]. ring.
  - rewrite zrange1_cons by lia. cbn [qsumf fold_right]. fold (qsumf f (zrange (a + 1) b 1)).
    rewrite (IH (a + 1)) by lia. rewrite (HF a). ring.
Qed.

Lemma qsum_some : forall (g : Z -> Q) zs, qsum (map (fun z => Some (g z)) zs) = Some (qsumf g zs).
Proof.
  intros g zs. induction zs as [|z tl IH]; [reflexivity|].
  cbn [map qsum fold_right qsumf] in *. unfold qsum in IH. rewrite IH. reflexivity.
Qed.

Lemma aeval_ext : forall rho rho' e, (forall i, rho i = rho' i) -> aeval rho e = aeval rho' e.
Proof.
  intros rho rho' e H. induction e; cbn [aeval]; rewrite ?H, ?IHe, ?IHe1, ?IHe2; reflexivity.
Qed.

Lemma upd_same : forall rho x e, aeval (upd rho x (rho x)) e = aeval rho e.
Proof.
  intros rho x e. apply aeval_ext. intros i. unfold upd. destruct (Nat.eqb_spec i x); subst; reflexivity.
Qed.

(* T17.13 sum(elt for x in range(lo, hi)) = out for EVERY valuation with lo <= hi, as soon as a function F
   with F (k + 1) = F k + elt[x := k], F lo = 0 and F hi = out is exhibited.  (The instance files take
   F k := out[n := k] for the variable n that is the upper bound.) *)
Theorem closed_form_valid : forall x lo hi elt out rho a b (F : Z -> Q),
  zeval rho lo = Some a -> zeval rho hi = Some b -> a <= b ->
  (forall k : Z, (F (k + 1)%Z == F k + aeval (upd rho x k) elt)%Q) ->
  (F a == 0)%Q -> (F b == aeval rho out)%Q ->
  exists v, comp_sum [GRange x lo hi (ANum 1)] rho elt = Some v /\ (v == aeval rho out)%Q.
Proof.
  intros x lo hi elt out rho a b F Ha Hb Hab HF H0 H1.
  cbn [comp_sum gen_elems zeval]. rewrite Ha, Hb. cbn [Z.eqb].
  change (fun z => comp_sum [] (upd rho x z) elt) with (fun z => Some (aeval (upd rho x z) elt)).
  rewrite qsum_some. eexists. split; [reflexivity|].
  rewrite (telescope F (fun k => aeval (upd rho x k) elt) HF a b Hab). rewrite H0, H1. ring.
Qed.

(* the repaired rule writes the closed form of an integer sum as N // d: when the exact quotient N / d is the
   integer z (it is a sum of integers), the floor division is that integer *)
Theorem floor_exact : forall rho N d (v : Q) (z : Z),
  (v == aeval rho (ADiv N d))%Q -> (v == inject_Z z)%Q -> (aeval rho (AFdiv N d) == v)%Q.
Proof.
  intros rho N d v z H1 H2. cbn [aeval] in *.
  assert (E : (aeval rho N / aeval rho d == inject_Z z)%Q) by (rewrite <- H1; exact H2).
  rewrite (Qfloor_comp _ _ E), Qfloor_Z. symmetry. exact H2.
Qed.

(* an instance, proved the way the generated files do it: sum(i * i for i in range(m, n)) *)
Example closed_form_example : forall rho : nat -> Z, rho 1%nat <= rho 2%nat ->
  exists v, comp_sum [GRange 0 (AVar 1) (AVar 2) (ANum 1)] rho (AMul (AVar 0) (AVar 0)) = Some v /\
    (v == aeval rho (ASub (AAdd (ASub (ADiv (APow (AVar 2) 3) (ANum 3)) (ADiv (APow (AVar 2) 2) (ANum 2))) (ADiv (AVar 2) (ANum 6)))
                          (AAdd (ASub (ADiv (APow (AVar 1) 3) (ANum 3)) (ADiv (APow (AVar 1) 2) (ANum 2))) (ADiv (AVar 1) (ANum 6)))))%Q.
Proof.
  intros rho H.
  eapply (closed_form_valid 0 (AVar 1) (AVar 2) _ _ rho (rho 1%nat) (rho 2%nat)
            (fun k => aeval (upd rho 2 k) (ASub (AAdd (ASub (ADiv (APow (AVar 2) 3) (ANum 3)) (ADiv (APow (AVar 2) 2) (ANum 2))) (ADiv (AVar 2) (ANum 6)))
                          (AAdd (ASub (ADiv (APow (AVar 1) 3) (ANum 3)) (ADiv (APow (AVar 1) 2) (ANum 2))) (ADiv (AVar 1) (ANum 6))))));
    [reflexivity | reflexivity | exact H | | | ].
  - intros k. cbn [aeval qpow upd Nat.eqb]. rewrite inject_Z_plus. field.
  - cbn [aeval qpow upd Nat.eqb]. field.
  - cbv beta. rewrite (upd_same rho 2). reflexivity.
Qed.

Print Assumptions telescope.
Print Assumptions closed_form_valid.
Print Assumptions floor_exact.
