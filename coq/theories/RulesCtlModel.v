(* C02, control-flow abstraction tranche ("ctl"): abstractions.simplify_if_control_flow over MiniPy.

   The rule (pyrefact/abstractions.py:675-797) looks, in ast.walk order (breadth first), for the first
   `if t: body else: orelse` such that
     - orelse is not empty and the whole node contains no assignment                       (l.684-691)
     - body and orelse contain the same number of Name nodes                               (l.693-702)
     - after giving every distinct pair (name in body, name in orelse) of differing names a fresh
       `var_N` and renaming -- textually, one pair after the other, every occurrence -- the two
       bodies are equal                                                                    (l.704-776)
     - the added assignments are at most half as long as one branch                        (l.778-782)
   then puts `var_N = name` at the start of both branches, replaces the Name nodes at the differing
   positions by var_N, and calls itself on the result (l.784-795).  When the first such node has an
   `elif` (orelse = [If]) the added line lands in front of the `elif`, processing.alter_code refuses
   the invalid text and the rule returns the source unchanged (l.792-793).

   MiniPy variables are numbers: x < VB prints as `v<x>`, VB + k prints as `var_<k+1>` (harness/c02_ctl.py).
   The other Name nodes of printed MiniPy (e, c, it, _k, E) are NFun.
   Reference semantics = MiniPyModel.exec (validated against CPython by the Flow tranche).
   Models only; proofs are in RulesCtlProofs.v. *)
From Coq Require Import List Bool Arith.
Import ListNotations.
Require Import Pyrefact.MiniPyModel.

Definition VB : nat := 10.

Inductive name := NVar (x : var) | NFun (k : nat).
Definition F_E := NFun 0.   (* e *)
Definition F_C := NFun 1.   (* c *)
Definition F_IT := NFun 2.  (* it *)
Definition F_K := NFun 3.   (* _k *)
Definition F_EXC := NFun 4. (* E *)

Definition name_eqb (a b : name) : bool :=
  match a, b with
  | NVar x, NVar y => Nat.eqb x y
  | NFun x, NFun y => Nat.eqb x y
  | _, _ => false
  end.

(* ---- Name nodes in source order ---- *)
Fixpoint tnames (t : test) : list name :=
  match t with
  | Known _ => []
  | Unknown _ rd => F_C :: map NVar rd
  | TNot t' => tnames t'
  end.
Definition rnames (e : rexpr) : list name :=
  match e with RVal _ => [] | RVar x => [NVar x] | RTest t => tnames t end.
Definition hnames (h : head) : list name :=
  match h with
  | HWhile t => tnames t
  | HFor (IKnown _) => [F_K]
  | HFor (IUnknown _ rd) => F_K :: F_IT :: map NVar rd
  end.
Fixpoint snames (s : stmt) : list name :=
  let blk := fix blk (l : list stmt) : list name :=
               match l with [] => [] | x :: tl => snames x ++ blk tl end in
  match s with
  | SPass | SBreak | SContinue => []
  | SRaise => [F_EXC]
  | SEv _ rd => F_E :: map NVar rd
  | SAssign x e => NVar x :: rnames e
  | SReturn e => rnames e
  | SIf t b e => tnames t ++ blk b ++ blk e
  | SLoop h b e => hnames h ++ blk b ++ blk e
  end.
Fixpoint bnames (l : list stmt) : list name :=
  match l with [] => [] | x :: tl => snames x ++ bnames tl end.

Fixpoint vars_of (l : list name) : list var :=
  match l with [] => [] | NVar x :: tl => x :: vars_of tl | _ :: tl => vars_of tl end.
Definition bvars (l : list stmt) : list var := vars_of (bnames l).

(* ---- l.690: any assignment inside the node ---- *)
Fixpoint sasg (s : stmt) : bool :=
  let blk := fix blk (l : list stmt) : bool :=
               match l with [] => false | x :: tl => sasg x || blk tl end in
  match s with
  | SAssign _ _ => true
  | SIf _ b e | SLoop _ b e => blk b || blk e
  | _ => false
  end.
Fixpoint basg (l : list stmt) : bool :=
  match l with [] => false | x :: tl => sasg x || basg tl end.

(* ---- positional substitution of variable reads.  f pos x = the name to put at Name-position pos
        (counted as the rule counts them: every Name node of the block, in source order) ---- *)
Section Sub.
Variable f : nat -> var -> var.

Fixpoint sub_rd (pos : nat) (rd : list var) : list var :=
  match rd with [] => [] | x :: tl => f pos x :: sub_rd (S pos) tl end.
Fixpoint sub_test (pos : nat) (t : test) : test :=
  match t with
  | Known b => Known b
  | Unknown i rd => Unknown i (sub_rd (S pos) rd)
  | TNot t' => TNot (sub_test pos t')
  end.
Definition sub_rexpr (pos : nat) (e : rexpr) : rexpr :=
  match e with
  | RVal v => RVal v
  | RVar x => RVar (f pos x)
  | RTest t => RTest (sub_test pos t)
  end.
Definition sub_head (pos : nat) (h : head) : head :=
  match h with
  | HWhile t => HWhile (sub_test pos t)
  | HFor (IKnown n) => HFor (IKnown n)
  | HFor (IUnknown i rd) => HFor (IUnknown i (sub_rd (S (S pos)) rd))
  end.
Fixpoint sub_stmt (pos : nat) (s : stmt) : stmt :=
  let blk := fix blk (pos : nat) (l : list stmt) : list stmt :=
               match l with [] => [] | x :: tl => sub_stmt pos x :: blk (pos + length (snames x)) tl end in
  match s with
  | SEv i rd => SEv i (sub_rd (S pos) rd)
  | SAssign x e => SAssign (f pos x) (sub_rexpr (S pos) e)
  | SReturn e => SReturn (sub_rexpr pos e)
  | SIf t b e =>
      let p1 := pos + length (tnames t) in
      SIf (sub_test pos t) (blk p1 b) (blk (p1 + length (bnames b)) e)
  | SLoop h b e =>
      let p1 := pos + length (hnames h) in
      SLoop (sub_head pos h) (blk p1 b) (blk (p1 + length (bnames b)) e)
  | _ => s
  end.
Fixpoint sub_block (pos : nat) (l : list stmt) : list stmt :=
  match l with [] => [] | x :: tl => sub_stmt pos x :: sub_block (pos + length (snames x)) tl end.
End Sub.

(* whole-text renaming `src.replace(a, w)` (l.765): every occurrence of the variable *)
Definition ren (a w : var) : nat -> var -> var := fun _ x => if Nat.eqb x a then w else x.

(* ---- the pairs of differing names (l.704-711), in order of first occurrence ---- *)
Definition pair_eqb (p q : name * name) : bool := name_eqb (fst p) (fst q) && name_eqb (snd p) (snd q).
Fixpoint mem_pair (p : name * name) (l : list (name * name)) : bool :=
  match l with [] => false | q :: tl => pair_eqb p q || mem_pair p tl end.
Fixpoint diff_pairs (l : list (name * name)) (seen : list (name * name)) : list (name * name) :=
  match l with
  | [] => []
  | p :: tl =>
      if name_eqb (fst p) (snd p) || mem_pair p seen then diff_pairs tl seen
      else p :: diff_pairs tl (p :: seen)
  end.
(* every differing pair is a pair of variables (a Name of a stub function differing from another name makes
   the renamed texts differ: checked by the correspondence) *)
Fixpoint var_pairs (l : list (name * name)) : option (list (var * var)) :=
  match l with
  | [] => Some []
  | (NVar a, NVar b) :: tl => option_map (cons (a, b)) (var_pairs tl)
  | _ => None
  end.

(* ---- fresh names (l.749-756): var_1, var_2, ... skipping every name used in the module ---- *)
Fixpoint memv (x : var) (l : list var) : bool :=
  match l with [] => false | y :: tl => Nat.eqb x y || memv x tl end.
Fixpoint next_fresh (used : list var) (n fuel : nat) : option var :=
  match fuel with
  | O => None
  | S fuel' => if memv n used then next_fresh used (S n) fuel' else Some n
  end.
(* (a, b, w) : body name, orelse name, new name *)
Fixpoint alloc (used : list var) (n : nat) (ps : list (var * var)) : option (list (var * var * var)) :=
  match ps with
  | [] => Some []
  | (a, b) :: tl =>
      match next_fresh used n (S (length used)) with
      | None => None
      | Some w => option_map (cons (a, b, w)) (alloc used (S w) tl)
      end
  end.

(* ---- the equality check (l.757-776): rename pair after pair, compare ---- *)
Fixpoint ren_all (side : var * var * var -> var) (tr : list (var * var * var)) (l : list stmt) : list stmt :=
  match tr with
  | [] => l
  | p :: tl => ren_all side tl (sub_block (ren (side p) (snd p)) 0 l)
  end.
Definition side_b (p : var * var * var) : var := fst (fst p).
Definition side_e (p : var * var * var) : var := snd (fst p).

(* ---- the size guard (l.778-782): text lengths as ast.unparse prints MiniPy ---- *)
Definition digits (n : nat) : nat :=
  if n <? 10 then 1 else if n <? 100 then 2 else if n <? 1000 then 3 else 4.
Definition len_var (x : var) : nat := if x <? VB then 1 + digits x else 4 + digits (x - VB + 1).
Fixpoint len_rd (rd : list var) : nat :=
  match rd with [] => 0 | x :: tl => 2 + len_var x + len_rd tl end.
Definition len_call (fn i : nat) (rd : list var) : nat := fn + 1 + digits i + len_rd rd + 1.
Definition len_val (v : val) : nat :=
  match v with
  | VBool true => 4 | VBool false => 5
  | VObj true n => digits (n + 2)
  | VObj false 0 => 1 | VObj false 1 => 2 | VObj false 2 => 2 | VObj false _ => 4
  end.
Fixpoint len_test (t : test) : nat :=
  match t with
  | Known true => 4 | Known false => 5
  | Unknown i rd => len_call 1 i rd
  | TNot t' => 4 + len_test t'
  end.
Definition len_rexpr (e : rexpr) : nat :=
  match e with RVal v => len_val v | RVar x => len_var x | RTest t => len_test t end.
(* (0, 1, ..., n-1) ; (0,) ; () *)
Fixpoint len_seq (k n : nat) : nat :=
  match n with O => 0 | S n' => digits k + (match n' with O => 0 | _ => 2 end) + len_seq (S k) n' end.
Definition len_iter (it : iter) : nat :=
  match it with
  | IKnown 1 => 4
  | IKnown n => 2 + len_seq 0 n
  | IUnknown i rd => len_call 2 i rd
  end.
(* lines of a statement at indentation ind (4 blanks per level), newline included *)
Fixpoint len_stmt (ind : nat) (elif : bool) (s : stmt) : nat :=
  let blk := fix blk (ind : nat) (l : list stmt) : nat :=
               match l with [] => 0 | x :: tl => len_stmt ind false x + blk ind tl end in
  let p := 4 * ind in
  match s with
  | SPass => p + 5
  | SEv i rd => p + len_call 1 i rd + 1
  | SAssign x e => p + len_var x + 3 + len_rexpr e + 1
  | SReturn e => p + 7 + len_rexpr e + 1
  | SRaise => p + 10
  | SBreak => p + 6
  | SContinue => p + 9
  | SIf t b e =>
      p + (if elif then 5 else 3) + len_test t + 2 + blk (S ind) b +
      match e with
      | [] => 0
      | [x] => match x with SIf _ _ _ => len_stmt ind true x | _ => p + 6 + blk (S ind) e end
      | _ => p + 6 + blk (S ind) e
      end
  | SLoop h b e =>
      p + (match h with HWhile t => 6 + len_test t | HFor it => 10 + len_iter it end) + 2 + blk (S ind) b +
      match e with [] => 0 | _ => p + 6 + blk (S ind) e end
  end.
Fixpoint len_block (ind : nat) (l : list stmt) : nat :=
  match l with [] => 0 | x :: tl => len_stmt ind false x + len_block ind tl end.
(* "def func():\n" + body, no trailing newline *)
Definition len_func (l : list stmt) : nat := 12 + len_block 1 l - 1.
Fixpoint len_adds (tr : list (var * var * var)) : nat :=
  match tr with
  | [] => 0
  | (a, b, w) :: tl => (len_var w + 3 + len_var a) + (len_var w + 3 + len_var b) + len_adds tl
  end.

(* ---- one candidate node ---- *)
Fixpoint pos_table (side : var * var * var -> var) (tr : list (var * var * var))
                   (zs : list (name * name)) : list (option (var * var)) :=
  match zs with
  | [] => []
  | (na, nb) :: tl =>
      (if name_eqb na nb then None
       else match na, nb with
            | NVar a, NVar b =>
                (fix find (l : list (var * var * var)) : option (var * var) :=
                   match l with
                   | [] => None
                   | p :: l' => if Nat.eqb (side_b p) a && Nat.eqb (side_e p) b then Some (side p, snd p) else find l'
                   end) tr
            | _, _ => None
            end) :: pos_table side tr tl
  end.
Definition tab_fn (tab : list (option (var * var))) : nat -> var -> var :=
  fun pos x => match nth pos tab None with
               | Some (a, w) => if Nat.eqb x a then w else x
               | None => x
               end.
Definition prelude (side : var * var * var -> var) (tr : list (var * var * var)) : list stmt :=
  map (fun p => SAssign (snd p) (RVar (side p))) tr.

Inductive verdict := Skip | Abort | Fire (s : stmt) (tr : list (var * var * var)).

Definition cand (used : list var) (t : test) (b e : list stmt) : verdict :=
  match e with
  | [] => Skip
  | _ =>
    if basg b || basg e then Skip else
    let nb := bnames b in
    let ne := bnames e in
    if negb (Nat.eqb (length nb) (length ne)) then Skip else
    let zs := combine nb ne in
    match var_pairs (diff_pairs zs []) with
    | None => Skip
    | Some ps =>
      match alloc used VB ps with
      | None => Skip
      | Some tr =>
        let rb := ren_all side_b tr b in
        let re := ren_all side_e tr e in
        if negb (prog_eqb rb re) then Skip else
        if len_func rb <? 2 * len_adds tr then Skip else
        match tr with
        | [] => Skip
        | _ =>
          match e with
          | [SIf _ _ _] => Abort
          | _ =>
            Fire (SIf t (prelude side_b tr ++ sub_block (tab_fn (pos_table side_b tr zs)) 0 b)
                        (prelude side_e tr ++ sub_block (tab_fn (pos_table side_e tr zs)) 0 e)) tr
          end
        end
      end
    end
  end.

(* ---- ast.walk order: breadth first = by nesting depth, left to right ---- *)
Inductive found := NoCand | Stop | Done (l : list stmt) (tr : list (var * var * var)).

Fixpoint at_depth (used : list var) (d : nat) (l : list stmt) {struct d} : found :=
  match d with
  | O =>
      (fix go (l : list stmt) : found :=
         match l with
         | [] => NoCand
         | s :: tl =>
             match s with
             | SIf t b e =>
                 match cand used t b e with
                 | Skip => match go tl with Done tl' tr => Done (s :: tl') tr | r => r end
                 | Abort => Stop
                 | Fire s' tr => Done (s' :: tl) tr
                 end
             | _ => match go tl with Done tl' tr => Done (s :: tl') tr | r => r end
             end
         end) l
  | S d' =>
      (fix go (l : list stmt) : found :=
         match l with
         | [] => NoCand
         | s :: tl =>
             match s with
             | SIf t b e =>
                 match at_depth used d' b with
                 | Done b' tr => Done (SIf t b' e :: tl) tr
                 | Stop => Stop
                 | NoCand =>
                     match at_depth used d' e with
                     | Done e' tr => Done (SIf t b e' :: tl) tr
                     | Stop => Stop
                     | NoCand => match go tl with Done tl' tr => Done (s :: tl') tr | r => r end
                     end
                 end
             | SLoop h b e =>
                 match at_depth used d' b with
                 | Done b' tr => Done (SLoop h b' e :: tl) tr
                 | Stop => Stop
                 | NoCand =>
                     match at_depth used d' e with
                     | Done e' tr => Done (SLoop h b e' :: tl) tr
                     | Stop => Stop
                     | NoCand => match go tl with Done tl' tr => Done (s :: tl') tr | r => r end
                     end
                 end
             | _ => match go tl with Done tl' tr => Done (s :: tl') tr | r => r end
             end
         end) l
  end.

Fixpoint sdepth (s : stmt) : nat :=
  let blk := fix blk (l : list stmt) : nat :=
               match l with [] => 0 | x :: tl => Nat.max (sdepth x) (blk tl) end in
  match s with
  | SIf _ b e | SLoop _ b e => S (Nat.max (blk b) (blk e))
  | _ => 0
  end.
Fixpoint bdepth (l : list stmt) : nat :=
  match l with [] => 0 | x :: tl => Nat.max (sdepth x) (bdepth tl) end.

(* depths 0, 1, ..., n-1 *)
Fixpoint levels (used : list var) (p : list stmt) (d n : nat) : found :=
  match n with
  | O => NoCand
  | S n' => match at_depth used d p with NoCand => levels used p (S d) n' | r => r end
  end.

(* one pass of the rule body: the first candidate in walk order *)
Definition sicf_step (p : list stmt) : found := levels (bvars p) p 0 (S (bdepth p)).

(* the rule: again on the result, until no node is rewritten *)
Fixpoint sicf_iter (fuel : nat) (p : list stmt) : list stmt :=
  match fuel with
  | O => p
  | S fuel' => match sicf_step p with Done p' _ => sicf_iter fuel' p' | _ => p end
  end.
Fixpoint count_ifs (s : stmt) : nat :=
  let blk := fix blk (l : list stmt) : nat :=
               match l with [] => 0 | x :: tl => count_ifs x + blk tl end in
  match s with
  | SIf _ b e => S (blk b + blk e)
  | SLoop _ b e => blk b + blk e
  | _ => 0
  end.
Definition sicf (p : list stmt) : list stmt :=
  sicf_iter (S (fold_right (fun s n => count_ifs s + n) 0 p)) p.

(* ---- correspondence: (program, output of the real rule read back) ---- *)
Definition ctl_case_ok (c : list stmt * list stmt) : bool := prog_eqb (sicf (fst c)) (snd c).
Definition step_fires (p : list stmt) : bool := match sicf_step p with Done _ _ => true | _ => false end.
