(* K9 -- renaming decisions: Gallina mirror of
     fixes._get_uses_of                               (use-site discovery)
     fixes.align_variable_names_with_convention       (collection of substitutes per node, blacklist,
                                                       all-mentions-or-nothing guard, collision guard)
     fixes._iter_identifier_mentions                  (as data: the list of mentions)
     fixes._unused_loop_variable_names, the generated names of abstractions.overused_constant,
     abstractions.simplify_if_control_flow (var_n), fixes._keys_to_items ({value}_{target})
   as they are after the `fix:` commits listed in design/C19.md.

   A module is abstracted to what these functions look at: the Name occurrences (identifier, ctx,
   "inside an AugAssign", position, chain of enclosing def/class nodes), the def/class nodes, and
   the other places where an identifier is written.  Identifiers are `text` (code points). *)
From Coq Require Import List NArith ZArith Bool String Ascii.
Import ListNotations.
Require Import Pyrefact.NamingModel PyrefactGen.Tables.
Open Scope list_scope.

Definition ident := text.

Definition mem (x : ident) (l : list ident) : bool := existsb (text_eqb x) l.

Definition text_of_string (s : string) : text := map N_of_ascii (list_ascii_of_string s).
Definition BUILTINS : list ident := map text_of_string BUILTIN_FUNCTIONS.
Definition KEYWORDS : list ident := map text_of_string PYTHON_KEYWORDS.

(* ------------------------------------------------------------------------------------------ *)
(* Part A: the decision (fixes.py, tail of align_variable_names_with_convention)               *)

Record mention := Mention { m_node : option nat; m_name : ident }.
Record cand := Cand { c_node : nat; c_old : ident; c_subs : list ident }.
Definition entry := (nat * ident * ident)%type.          (* node, old name, substitute *)

(* len(set) == 1 *)
Definition single (l : list ident) : option ident :=
  match l with
  | [] => None
  | s :: t => if forallb (text_eqb s) t then Some s else None
  end.

Definition blacklist (imported defined : list ident) (ms : list mention) : list ident :=
  imported ++ defined ++ map m_name ms ++ BUILTINS ++ KEYWORDS.

(* renamings = {node: s for node, subs in renamings.items() if len(subs) == 1 and s not in blacklist} *)
Definition step1 (bl : list ident) (cs : list cand) : list entry :=
  flat_map (fun c => match single (c_subs c) with
                     | Some s => if mem s bl then [] else [(c_node c, c_old c, s)]
                     | None => []
                     end) cs.

Fixpoint lookup (n : nat) (r : list entry) : option ident :=
  match r with
  | [] => None
  | (n', _, s) :: t => if Nat.eqb n n' then Some s else lookup n t
  end.

(* renamings.get(node, name) for a mention *)
Definition mention_sub (r : list entry) (m : mention) : ident :=
  match m_node m with
  | Some n => match lookup n r with Some s => s | None => m_name m end
  | None => m_name m
  end.

(* name_substitutes[x] <= {s} *)
Definition consistent (ms : list mention) (r : list entry) (x s : ident) : bool :=
  forallb (fun m => if text_eqb (m_name m) x then text_eqb (mention_sub r m) s else true) ms.

(* ... and a name that is also a builtin is never renamed (read before its definition it means the builtin) *)
Definition step2 (ms : list mention) (r : list entry) : list entry :=
  filter (fun e => let '(_, old, s) := e in consistent ms r old s && negb (mem old BUILTINS)) r.

(* the nodes grouped under substitute s all carry the same old name *)
Definition group_ok (r2 : list entry) (s : ident) : bool :=
  match filter (fun e : entry => text_eqb (snd e) s) r2 with
  | [] => true
  | (_, old, _) :: t => forallb (fun e : entry => text_eqb (snd (fst e)) old) t
  end.

Definition emit (preserve : list ident) (r2 : list entry) : list entry :=
  filter (fun e => let '(_, old, s) := e in
                   group_ok r2 s && negb (text_eqb old s) && negb (mem old preserve)) r2.

Definition decide (imported defined : list ident) (ms : list mention) (cs : list cand)
                  (preserve : list ident) : list entry :=
  emit preserve (step2 ms (step1 (blacklist imported defined ms) cs)).

(* ------------------------------------------------------------------------------------------ *)
(* Part B: collection                                                                         *)

Inductive ctx := Load | Store | Del.
Definition pos := (Z * Z)%type.
Definition pos_lt (a b : pos) : bool :=
  (fst a <? fst b)%Z || ((fst a =? fst b)%Z && (snd a <? snd b)%Z).

Record occ := Occ {
  o_id : nat;                (* node id *)
  o_name : ident;
  o_ctx : ctx;
  o_aug : bool;              (* lies inside an AugAssign statement *)
  o_start : pos;             (* (lineno, col_offset) *)
  o_end : pos;               (* (end_lineno, end_col_offset) *)
  o_scopes : list nat;       (* ids of the enclosing def/class nodes (AST containment), outermost first *)
  o_target : bool;           (* yielded by parsing.iter_assignments(innermost enclosing def/class/module):
                                a Name under Tuple / List / Starred targets of a direct body statement *)
  o_typevar : bool           (* target of a type definition (parsing.iter_typedefs; not modelled, taken as data) *)
}.

Inductive dkind := KFunc | KClass.
Record defn := Defn {
  d_id : nat;                (* node id *)
  d_scope : nat;             (* scope id of the body (> 0; 0 is the module) *)
  d_kind : dkind;
  d_name : ident;
  d_start : pos;             (* (lineno, first char of the name token) as _get_func_name_start_end *)
  d_end : pos;
  d_scopes : list nat;       (* enclosing def/class scope ids, outermost first *)
  d_params : list ident;     (* every ast.arg under .args *)
  d_bases : bool;            (* ClassDef.bases non-empty *)
  d_direct : bool            (* is a direct statement of the body of its parent *)
}.

Record modl := Modl {
  occs : list occ;
  defs : list defn;
  args : list ident;         (* every ast.arg in the module *)
  others : list ident;       (* attributes, keywords, global/nonlocal, aliases, handlers, captures, type params *)
  imported : list ident      (* tracing.get_imported_names *)
}.

Definition last_scope (l : list nat) : nat := last l 0%nat.
Definition in_scope (sc : nat) (chain : list nat) : bool := Nat.eqb sc 0 || existsb (Nat.eqb sc) chain.

Definition find_def (sc : nat) (ds : list defn) : option defn := find (fun d => Nat.eqb (d_scope d) sc) ds.
Definition scope_kind (sc : nat) (ds : list defn) : option dkind :=
  match find_def sc ds with Some d => Some (d_kind d) | None => None end.
(* Module, ClassDef (and While/For, never passed here) are "maybe unordered" *)
Definition unordered (sc : nat) (ds : list defn) : bool :=
  match scope_kind sc ds with Some KFunc => false | _ => true end.

(* the node whose uses are looked for *)
Record target := Target { t_name : ident; t_start : pos; t_end : pos; t_within : list nat }.
Definition target_of_occ (o : occ) : target := Target (o_name o) (o_start o) (o_end o) (o_scopes o).
Definition target_of_def (d : defn) : target :=
  Target (d_name d) (d_start d) (d_end d) (d_scopes d ++ [d_scope d]).

(* fixes._get_uses_of(node, scope, source) *)
Definition blacklisted (sc : nat) (t : target) (ds : list defn) (o : occ) : bool :=
  existsb (fun F =>
             match d_kind F with
             | KClass => false
             | KFunc =>
                 (Nat.eqb (d_scope F) sc || in_scope sc (d_scopes F))          (* walk(scope, FunctionDef) *)
                 && negb (existsb (Nat.eqb (d_scope F)) (t_within t))         (* node in walk(funcdef, ...) *)
                 && existsb (Nat.eqb (d_scope F)) (o_scopes o)                (* o lies inside funcdef *)
                 && (mem (t_name t) (d_params F)
                     || (match o_ctx o with Store => true | _ => false end && text_eqb (o_name o) (t_name t)))
             end) ds.

Definition is_load (o : occ) : bool := match o_ctx o with Load => true | _ => false end.

Definition uses_of (sc : nat) (t : target) (m : modl) : list occ :=
  filter (fun o =>
            in_scope sc (o_scopes o)
            && text_eqb (o_name o) (t_name t)
            && (o_aug o || (is_load o && negb (blacklisted sc t (defs m) o)))
            && (pos_lt (t_end t) (o_start o)
                || (unordered sc (defs m) && pos_lt (o_end o) (t_start t))))
         (occs m).

(* events: (node id, old name, substitute) added to the `renamings` dict of sets *)
Definition event := (nat * ident * ident)%type.

Definition opt_get (o : option text) (d : text) : text := match o with Some x => x | None => d end.
(* rename_class raises on "", which cannot be the identifier of a parsed node *)
Definition rclass (n : ident) (private : bool) : ident := opt_get (rename_class n private) n.

Definition parent (chain : list nat) : nat := last chain 0%nat.

(* one `renamings[node].add(substitute)` + the same for every use; `keep` is the
   `renamings[node] = {name}` of class members that must not be renamed *)
Definition item_events (t : target) (nid sc : nat) (m : modl) (keep : bool) (sub : ident) : list event :=
  (if keep then [(nid, t_name t, t_name t)] else [])
  ++ (nid, t_name t, sub) :: map (fun o => (o_id o, o_name o, sub)) (uses_of sc t m).

Inductive skind := SModule | SClass (bases : bool) | SFunc.

Definition def_sub (k : skind) (preserve : list ident) (d : defn) : bool * ident :=
  let n := d_name d in
  match k, d_kind d with
  | SModule, KClass => (false, rclass n (is_private n || negb (mem n preserve)))
  | SModule, KFunc => (false, rename_variable n false (is_private n || negb (mem n preserve)))
  | SClass b, KClass => (false, rclass n (is_private n))
  | SClass b, KFunc => (b || is_dunder n, rename_variable n false (is_private n))
  | SFunc, KClass => (false, rclass n false)
  | SFunc, KFunc => (false, rename_variable n false false)
  end.

(* the `typevars` set: the targets found by parsing.iter_typedefs (data) and their uses in the module *)
Definition in_typevars (m : modl) (o : occ) : bool :=
  o_typevar o
  || existsb (fun t => o_typevar t
                       && existsb (fun u => Nat.eqb (o_id u) (o_id o)) (uses_of 0 (target_of_occ t) m))
             (occs m).

Definition occ_sub (k : skind) (m : modl) (o : occ) : bool * ident :=
  let n := o_name o in
  match k with
  | SModule => (false, if in_typevars m o then rclass n (is_private n) else rename_variable n true (is_private n))
  | SClass b => (b || is_dunder n, rename_variable n false (is_private n))
  | SFunc => (false, rename_variable n false false)
  end.

Definition scope_events (sc : nat) (k : skind) (preserve : list ident) (m : modl) : list event :=
  flat_map (fun d => if d_direct d && Nat.eqb (parent (d_scopes d)) sc
                     then let '(keep, sub) := def_sub k preserve d in
                          item_events (target_of_def d) (d_id d) sc m keep sub
                     else []) (defs m)
  ++ flat_map (fun o => if o_target o && Nat.eqb (parent (o_scopes o)) sc
                        then let '(keep, sub) := occ_sub k m o in
                             item_events (target_of_occ o) (o_id o) sc m keep sub
                        else []) (occs m).

(* a def/class is visited iff it and all its ancestors are direct statements of their parent's body *)
Definition direct_scope (ds : list defn) (sc : nat) : bool :=
  match find_def sc ds with Some d => d_direct d | None => false end.
Definition visited (ds : list defn) (d : defn) : bool :=
  d_direct d && forallb (direct_scope ds) (d_scopes d).

Definition all_events (preserve : list ident) (m : modl) : list event :=
  scope_events 0 SModule preserve m
  ++ flat_map (fun d => if visited (defs m) d
                        then scope_events (d_scope d)
                               (match d_kind d with KClass => SClass (d_bases d) | KFunc => SFunc end)
                               preserve m
                        else []) (defs m).

(* dict of sets: group the events by node (first occurrence order) *)
Fixpoint add_event (e : event) (cs : list cand) : list cand :=
  let '(n, old, s) := e in
  match cs with
  | [] => [Cand n old [s]]
  | c :: t => if Nat.eqb (c_node c) n then Cand n (c_old c) (c_subs c ++ [s]) :: t else c :: add_event e t
  end.
Definition group_events (es : list event) : list cand := fold_left (fun cs e => add_event e cs) es [].

Definition is_store (o : occ) : bool := match o_ctx o with Store => true | _ => false end.
(* tracing.get_defined_names *)
Definition defined_names (m : modl) : list ident :=
  map o_name (filter is_store (occs m)) ++ map d_name (defs m) ++ args m.

Definition class_member (ds : list defn) (d : defn) : bool :=
  match d_scopes d with
  | [] => false
  | _ => match scope_kind (parent (d_scopes d)) ds with Some KClass => true | _ => false end
  end.

(* fixes._iter_identifier_mentions: a member of a class counts only when its identifier is also
   written as a plain Name somewhere *)
Definition mentions (m : modl) : list mention :=
  map (fun o => Mention (Some (o_id o)) (o_name o)) (occs m)
  ++ map (fun d => Mention (Some (d_id d)) (d_name d))
         (filter (fun d => negb (class_member (defs m) d) || mem (d_name d) (map o_name (occs m))) (defs m))
  ++ map (Mention None) (args m ++ others m).

(* one pass of align_variable_names_with_convention: the (node, new name) pairs it yields *)
Definition align (preserve : list ident) (m : modl) : list entry :=
  decide (imported m) (defined_names m) (mentions m) (group_events (all_events preserve m)) preserve.

(* well-formedness of a module abstraction: node ids and scope ids are unique (checked on every
   correspondence case; hypothesis of the theorems about `align`) *)
Fixpoint nodup_nat (l : list nat) : bool :=
  match l with [] => true | x :: t => negb (existsb (Nat.eqb x) t) && nodup_nat t end.
Definition wf_modl (m : modl) : bool :=
  nodup_nat (map o_id (occs m) ++ map d_id (defs m)) && nodup_nat (map d_scope (defs m))
  && forallb (fun d => negb (Nat.eqb (d_scope d) 0)) (defs m).

(* ------------------------------------------------------------------------------------------ *)
(* Part C: generated names                                                                    *)

Definition letters : list N := map N.of_nat (seq 97 26).
(* fixes._unused_loop_variable_names: "", then a..z, then aa..zz, minus the names in use *)
Definition loop_candidates : list ident :=
  map (fun c => [c]) letters ++ flat_map (fun a => map (fun b => [a; b]) letters) letters.
Definition loop_names (used : list ident) : list ident :=
  filter (fun n => negb (mem n used)) loop_candidates.

Fixpoint digits_fuel (fuel : nat) (n : N) (acc : text) : text :=
  match fuel with
  | O => acc
  | S f => let acc' := (48 + N.modulo n 10)%N :: acc in
           if (n <? 10)%N then acc' else digits_fuel f (N.div n 10) acc'
  end.
Definition decimal (n : N) : text := digits_fuel 40 n [].

(* abstractions.overused_constant.  First: the first free index among 0..10, or give up. *)
Definition overused_name (i : N) : ident := text_of_string "pyrefact_overused_constant_"%string ++ decimal i.
Fixpoint pick_fuel (fuel : nat) (i : N) (bl : list ident) : N :=
  match fuel with
  | O => i
  | S f => if mem (overused_name i) bl && (i <? 10)%N then pick_fuel f (i + 1)%N bl else i
  end.
Definition pick_index (bl : list ident) : option N :=
  let i := pick_fuel 11 0%N bl in
  if mem (overused_name i) bl then None else Some i.
(* Then, for every constant that needs a generated name:
     while name(i) in blacklisted_names: i += 1          (fuel: more steps than names in the blacklist)
     take name(i); i += 1; blacklisted_names |= {the new name}                                  *)
Fixpoint next_free (fuel : nat) (i : N) (bl : list ident) : option N :=
  match fuel with
  | O => None
  | S f => if mem (overused_name i) bl then next_free f (i + 1)%N bl else Some i
  end.
Fixpoint overused_seq (k : nat) (i : N) (bl : list ident) : list ident :=
  match k with
  | O => []
  | S k' => match next_free (S (List.length bl)) i bl with
            | None => []
            | Some j => overused_name j :: overused_seq k' (j + 1)%N (overused_name j :: bl)
            end
  end.
Definition overused_names (bl : list ident) (k : nat) : list ident :=
  match pick_index bl with
  | None => []
  | Some i => overused_seq k i bl
  end.
(* a variable named after a string constant: only when that name is free and an identifier *)
Definition overused_string_name (bl : list ident) (candidate : ident) : option ident :=
  if mem candidate bl || negb (is_ident candidate) then None else Some candidate.

(* abstractions.simplify_if_control_flow: the first k names var_1, var_2, ... that are not in use
   (itertools.count filtered; at most |used| candidates can be taken, so k + |used| suffice) *)
Definition var_name (k : nat) : ident := text_of_string "var_"%string ++ decimal (N.of_nat (S k)).
Definition var_names (used : list ident) (k : nat) : list ident :=
  firstn k (filter (fun n => negb (mem n used)) (map var_name (seq 0 (k + List.length used)))).

(* fixes._keys_to_items / _for_keys_to_items: re.sub("[^a-zA-Z]", "_", f"{value}_{target}"),
   the rewrite is skipped when that name is already written somewhere in the module *)
Definition keys_items_name (value target : text) : ident :=
  map (fun c => if is_alpha c then c else US) (value ++ US :: target).
Definition keys_items_decision (used : list ident) (value target : text) : option ident :=
  let n := keys_items_name value target in if mem n used then None else Some n.
