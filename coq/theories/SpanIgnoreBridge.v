(* K3 / K-ignore bridge: the model of core.has_ignore_comment in SpanModel.v (property C13) and the one in
   IgnoreModel.v (property C20) were written independently from the same Python code, in different styles
   (prepending line splitter / loop with a running character count  vs.  accumulating splitter / table of line
   ranges filtered and searched).  They are the same function: every theorem about one holds of the other. *)
From Coq Require Import List ZArith NArith Bool Lia.
Require Import Pyrefact.Base Pyrefact.SpanModel Pyrefact.SpanProofs.
Require Pyrefact.SchedModel Pyrefact.IgnoreModel.
Import ListNotations.
Open Scope Z_scope.

Module Ig := Pyrefact.IgnoreModel.

(* ---- the regex ---- *)
Lemma is_space_same : forall c, is_space c = Ig.is_space c.
Proof.
  intro c. unfold is_space, Ig.is_space, Ig.space_points, neqb. cbn [existsb].
  apply Bool.eq_true_iff_eq.
  rewrite !orb_true_iff, !andb_true_iff, !N.eqb_eq, !N.leb_le. lia.
Qed.

Lemma dropwhile_skip_spaces : forall l, dropwhile is_space l = Ig.skip_spaces l.
Proof.
  induction l as [|c tl IH]; [reflexivity|]. cbn [dropwhile Ig.skip_spaces].
  rewrite <- is_space_same. destruct (is_space c); [exact IH|reflexivity].
Qed.

Lemma prefix_of_strip : forall p l, prefix_of p l = Ig.strip p l.
Proof.
  induction p as [|x p IH]; intros [|y l]; reflexivity.   (* the two fixpoints are convertible *)
Qed.

Lemma ignore_tail_same : forall l, ignore_tail l = Ig.match_after_hash [Ig.SKIP_FILE; Ig.IGNORE] l.
Proof.
  intro l. unfold ignore_tail, Ig.match_after_hash.
  rewrite dropwhile_skip_spaces, prefix_of_strip.
  change w_pyrefact with Ig.PYREFACT.
  destruct (Ig.strip Ig.PYREFACT (Ig.skip_spaces l)) as [r1|]; [|reflexivity].
  rewrite dropwhile_skip_spaces. destruct (Ig.skip_spaces r1) as [|c r2]; [reflexivity|].
  unfold neqb, Ig.COLON. destruct (N.eqb c 58); [|reflexivity].
  rewrite dropwhile_skip_spaces. cbn [existsb andb]. cbv zeta.
  change w_skip_file with Ig.SKIP_FILE. change w_ignore with Ig.IGNORE.
  change (Ig.strip Ig.SKIP_FILE) with (prefix_of Ig.SKIP_FILE). change (Ig.strip Ig.IGNORE) with (prefix_of Ig.IGNORE).
  destruct (prefix_of Ig.SKIP_FILE (Ig.skip_spaces r2)), (prefix_of Ig.IGNORE (Ig.skip_spaces r2)); reflexivity.
Qed.

Lemma has_ignore_pattern_same : forall l, has_ignore_pattern l = Ig.ignore_line l.
Proof.
  unfold Ig.ignore_line. induction l as [|c tl IH]; [reflexivity|].
  cbn [has_ignore_pattern Ig.search]. rewrite IH, ignore_tail_same. reflexivity.
Qed.

(* ---- the physical lines ---- *)
Lemma lines_crlf : forall tl, lines is_tok_nl (13 :: 10 :: tl)%N = [13; 10]%N :: lines is_tok_nl tl.
Proof. reflexivity. Qed.
Lemma lines_lf : forall tl, lines is_tok_nl (10 :: tl)%N = [10%N] :: lines is_tok_nl tl.
Proof. reflexivity. Qed.
Lemma lines_cr : forall d tl, N.eqb d 10 = false ->
  lines is_tok_nl (13%N :: d :: tl) = [13%N] :: lines is_tok_nl (d :: tl).
Proof.
  intros d tl H. remember (d :: tl) as r. cbn [lines]. subst r.
  unfold line_end at 1. unfold neqb. rewrite H. reflexivity.
Qed.
Lemma lines_other : forall c tl, N.eqb c 10 = false -> N.eqb c 13 = false ->
  lines is_tok_nl (c :: tl)
  = match lines is_tok_nl tl with [] => [[c]] | l :: ls => (c :: l) :: ls end.
Proof.
  intros c tl H1 H2. cbn [lines]. unfold line_end, is_tok_nl at 1, neqb. rewrite H1, H2. reflexivity.
Qed.

Lemma split_at_lines :
  forall n s cur, (length s <= n)%nat ->
    Ig.split_at (N.eqb 10) cur s
    = match lines is_tok_nl s with
      | [] => match cur with [] => [] | _ => [rev cur] end
      | l :: ls => (rev cur ++ l) :: ls
      end.
Proof.
  induction n as [|n IH]; intros s cur H.
  - destruct s; [reflexivity|simpl in H; lia].
  - destruct s as [|c tl]; [reflexivity|]. cbn [length] in H.
    cbn [Ig.split_at].
    destruct (N.eqb c 13) eqn:E13.
    + apply N.eqb_eq in E13. subst c.
      destruct tl as [|d tl'].
      * cbn. reflexivity.
      * cbn [length] in H. destruct (N.eqb d 10) eqn:E10.
        -- apply N.eqb_eq in E10. subst d. rewrite lines_crlf.
           rewrite (IH tl' []) by lia. cbn [rev]. rewrite <- !app_assoc. cbn [app].
           destruct (lines is_tok_nl tl') as [|l ls]; reflexivity.
        -- rewrite (lines_cr d tl' E10). rewrite (IH (d :: tl') []) by (cbn [length]; lia).
           cbn [rev app].
           destruct (lines is_tok_nl (d :: tl')) as [|l ls] eqn:L;
             [exfalso; revert L; apply lines_nonempty|reflexivity].
    + rewrite N.eqb_sym. destruct (N.eqb c 10) eqn:E10.
      * apply N.eqb_eq in E10. subst c. rewrite lines_lf.
        rewrite (IH tl []) by lia. cbn [rev app].
        destruct (lines is_tok_nl tl) as [|l ls]; reflexivity.
      * rewrite (lines_other c tl E10 E13). rewrite (IH tl (c :: cur)) by lia. cbn [rev].
        destruct (lines is_tok_nl tl) as [|l ls];
          [reflexivity|rewrite <- app_assoc; reflexivity].
Qed.

Theorem tok_lines_same : forall s, tok_lines s = Ig.split_lines s.
Proof.
  intro s. unfold Ig.split_lines, tok_lines. rewrite (split_at_lines (length s) s []) by lia.
  destruct (lines is_tok_nl s); reflexivity.
Qed.

Lemma terminated_same : forall l, terminated l = Ig.terminated l.
Proof.
  intro l. unfold terminated, Ig.terminated. destruct l as [|c tl]; [reflexivity|].
  destruct (rev (c :: tl)) as [|x r] eqn:R.
  - apply (f_equal (@length N)) in R. rewrite rev_length in R. discriminate.
  - rewrite (rev_head_last (c :: tl) x r 0%N R). reflexivity.
Qed.

(* ---- the recogniser ---- *)
Lemma touches_same :
  forall r st e l, touches_line r st e l = Ig.touches r ((st, e), l).
Proof.
  intros r st e l. unfold touches_line, Ig.touches. cbn [fst snd]. rewrite terminated_same. reflexivity.
Qed.

Lemma has_ignore_from_same :
  forall ls coms i st r,
    has_ignore_from coms i st ls r
    = existsb (Ig.touches r)
        (map snd (filter (fun e => Ig.ignore_line (snd (snd e)) && Ig.comment_ok coms (fst e))
                         (combine (seq i (length (Ig.line_ranges st ls))) (Ig.line_ranges st ls)))).
Proof.
  induction ls as [|l tl IH]; intros coms i st r; [reflexivity|].
  cbn [has_ignore_from Ig.line_ranges length seq combine filter fst snd].
  rewrite IH, touches_same, has_ignore_pattern_same. unfold len.
  change (Ig.comment_ok coms i) with (comment_ok coms i).
  destruct (Ig.ignore_line l && comment_ok coms i) eqn:F.
  - cbn [map existsb snd]. rewrite <- andb_assoc, F, andb_true_r. reflexivity.
  - rewrite <- andb_assoc, F, andb_false_r. reflexivity.
Qed.

Theorem has_ignore_comment_same :
  forall s coms r, has_ignore_comment s coms r = Ig.has_ignore s coms r.
Proof.
  intros s coms r. unfold has_ignore_comment, Ig.has_ignore, Ig.ignore_entries.
  rewrite <- tok_lines_same. apply has_ignore_from_same.
Qed.
