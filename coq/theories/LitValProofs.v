(* K4 -- proofs about LitValModel.lv against the reference semantics PyValModel.eval. *)
From Coq Require Import List ZArith Bool String Lia.
Import ListNotations.
Require Import Pyrefact.Ops Pyrefact.PyValModel Pyrefact.LitValModel.
Require Import PyrefactGen.Tables PyrefactGen.TablesC15.
Open Scope Z_scope.

(* ---------- the regenerated constants.COMPARISON_OPERATORS maps every operator token to the Python
   function that the reference semantics assigns to it ---------- *)
Lemma table_binop : forall o, table_fn (OB o) = Some (binop_fn o).
Proof. destruct o; vm_compute; reflexivity. Qed.
Lemma table_cmpop : forall o, table_fn (OC o) = Some (cmpop_fn o).
Proof. destruct o; vm_compute; reflexivity. Qed.

(* the regenerated constants.PURE_BUILTIN_FUNCTIONS contains only builtins known to be pure, and
   every one of them is a builtin name *)
Lemma pure_table_ok : forall f, In f PURE_BUILTIN_FUNCTIONS -> In f KNOWN_PURE /\ In f BUILTIN_FUNCTIONS.
Proof.
  assert (H : forallb (fun f => mem_str f KNOWN_PURE && mem_str f BUILTIN_FUNCTIONS) PURE_BUILTIN_FUNCTIONS = true)
    by (vm_compute; reflexivity).
  rewrite forallb_forall in H. intros f Hf. specialize (H f Hf). apply andb_true_iff in H. destruct H as [H1 H2].
  unfold mem_str in *. apply existsb_exists in H1. apply existsb_exists in H2.
  destruct H1 as [x [Hx Ex]]. destruct H2 as [y [Hy Ey]].
  apply String.eqb_eq in Ex. apply String.eqb_eq in Ey. subst. split; assumption.
Qed.

(* ---------- induction principle for the nested type ---------- *)
Section ExprInd.
Variable P : expr -> Prop.
Hypothesis HConst : forall v, P (EConst v).
Hypothesis HName : forall x, P (EName x).
Hypothesis HUn : forall o a, P a -> P (EUn o a).
Hypothesis HBin : forall o a b, P a -> P b -> P (EBin o a b).
Hypothesis HBool : forall isand es, Forall P es -> P (EBool isand es).
Hypothesis HCmp : forall a rest, P a -> Forall (fun p => P (snd p)) rest -> P (ECmp a rest).
Hypothesis HIf : forall c a b, P c -> P a -> P b -> P (EIf c a b).
Hypothesis HTuple : forall es, Forall P es -> P (ETuple es).
Hypothesis HList : forall es, Forall P es -> P (EList es).
Hypothesis HCall : forall f args kws, Forall P args -> Forall (fun p => P (snd p)) kws -> P (ECall f args kws).
Hypothesis HMeth : forall r m args kws, Forall P args -> Forall (fun p => P (snd p)) kws -> P (EMeth r m args kws).

Fixpoint expr_ind' (e : expr) : P e :=
  let list_ind := fix go (l : list expr) : Forall P l :=
    match l with [] => Forall_nil _ | x :: tl => Forall_cons x (expr_ind' x) (go tl) end in
  match e with
  | EConst v => HConst v
  | EName x => HName x
  | EUn o a => HUn o a (expr_ind' a)
  | EBin o a b => HBin o a b (expr_ind' a) (expr_ind' b)
  | EBool isand es => HBool isand es (list_ind es)
  | ECmp a rest =>
      HCmp a rest (expr_ind' a)
        ((fix go (l : list (cmpop * expr)) : Forall (fun p => P (snd p)) l :=
            match l with [] => Forall_nil _ | p :: tl => Forall_cons p (expr_ind' (snd p)) (go tl) end) rest)
  | EIf c a b => HIf c a b (expr_ind' c) (expr_ind' a) (expr_ind' b)
  | ETuple es => HTuple es (list_ind es)
  | EList es => HList es (list_ind es)
  | ECall f args kws =>
      HCall f args kws (list_ind args)
        ((fix go (l : list (string * expr)) : Forall (fun p => P (snd p)) l :=
            match l with [] => Forall_nil _ | p :: tl => Forall_cons p (expr_ind' (snd p)) (go tl) end) kws)
  | EMeth r m args kws =>
      HMeth r m args kws (list_ind args)
        ((fix go (l : list (string * expr)) : Forall (fun p => P (snd p)) l :=
            match l with [] => Forall_nil _ | p :: tl => Forall_cons p (expr_ind' (snd p)) (go tl) end) kws)
  end.
End ExprInd.

(* ---------- small facts about the result monad and the try/except wrapper ---------- *)
Lemma bind_val : forall {A B} (r : res A) (f : A -> res B) v,
  bind r f = Val v -> exists a, r = Val a /\ f a = Val v.
Proof. intros A B r f v H. destruct r as [a | k |]; cbn in H; try discriminate. exists a. split; [reflexivity | exact H]. Qed.

Lemma wrap_known : forall r v, wrap r = LKnown v -> r = Val v.
Proof.
  intros r v H. destruct r as [a | k |]; cbn in H.
  - inversion H. reflexivity.
  - destruct (is_exception k); discriminate.
  - discriminate.
Qed.

Lemma sub_val : forall r v, sub r = Val v -> r = LKnown v.
Proof. intros r v H. destruct r; cbn in H; try discriminate. inversion H. reflexivity. Qed.

Lemma gate_val : forall (c : bool) (r : res val) v, (if c then Exc KValue else r) = Val v -> r = Val v.
Proof. intros c r v H. destruct c; [discriminate | exact H]. Qed.

(* one unfolding of lv *)
Lemma lv_unfold : forall e,
  lv e = wrap (if hse BUILTIN_FUNCTIONS e then Exc KValue else
     match e with
     | EBin o a b =>
         match table_fn (OB o) with
         | Some f => x <- sub (lv a) ;; y <- sub (lv b) ;; opfn_apply f x y
         | None => leval e
         end
     | ECmp a rest =>
         match rest with
         | [] => Gap
         | _ => cmp_all (fun x => sub (lv x)) (sub (lv a)) rest
         end
     | EUn UNot a => v <- sub (lv a) ;; Val (VBool (negb (truthy v)))
     | EBool isand es =>
         match es with
         | [] => Exc KValue
         | _ => boolop_go (fun x => sub (lv x)) isand es
         end
     | EMeth recv m args kws =>
         match kws with
         | [] => if is_dunder m then Exc KValue
                 else a <- eval_list (fun x => sub (lv x)) args ;; call_method recv m a
         | _ => Exc KValue
         end
     | ECall f args kws =>
         match kws with
         | [] =>
             if mem_str f PURE_BUILTIN_FUNCTIONS then
               a <- eval_list (fun x => sub (lv x)) args ;; call_builtin f a
             else leval e
         | _ => leval e
         end
     | _ => leval e
     end).
Proof. destruct e; reflexivity. Qed.

(* what literal_value returns when it returns: the body's value *)
Lemma lv_known_body : forall e v, lv e = LKnown v ->
  match e with
     | EBin o a b =>
         match table_fn (OB o) with
         | Some f => x <- sub (lv a) ;; y <- sub (lv b) ;; opfn_apply f x y
         | None => leval e
         end
     | ECmp a rest =>
         match rest with
         | [] => Gap
         | _ => cmp_all (fun x => sub (lv x)) (sub (lv a)) rest
         end
     | EUn UNot a => v <- sub (lv a) ;; Val (VBool (negb (truthy v)))
     | EBool isand es =>
         match es with
         | [] => Exc KValue
         | _ => boolop_go (fun x => sub (lv x)) isand es
         end
     | EMeth recv m args kws =>
         match kws with
         | [] => if is_dunder m then Exc KValue
                 else a <- eval_list (fun x => sub (lv x)) args ;; call_method recv m a
         | _ => Exc KValue
         end
     | ECall f args kws =>
         match kws with
         | [] =>
             if mem_str f PURE_BUILTIN_FUNCTIONS then
               a <- eval_list (fun x => sub (lv x)) args ;; call_builtin f a
             else leval e
         | _ => leval e
         end
     | _ => leval e
     end = Val v.
Proof.
  intros e v H. rewrite lv_unfold in H. apply wrap_known in H. apply gate_val in H. exact H.
Qed.

(* ---------- monotonicity of the shared evaluation schemes ---------- *)
Definition refines (f g : expr -> res val) (x : expr) : Prop := forall v, f x = Val v -> g x = Val v.

Lemma eval_list_mono : forall f g l vs,
  Forall (refines f g) l -> eval_list f l = Val vs -> eval_list g l = Val vs.
Proof.
  intros f g l. induction l as [| x tl IH]; intros vs HF H.
  - exact H.
  - inversion HF as [| ? ? Hx Htl]; subst.
    cbn [eval_list] in *. apply bind_val in H. destruct H as [v [Hv H]].
    apply bind_val in H. destruct H as [r [Hr H]].
    rewrite (Hx v Hv). cbn [bind]. rewrite (IH r Htl Hr). cbn [bind]. exact H.
Qed.

Lemma boolop_go_mono : forall f g isand l v,
  Forall (refines f g) l -> boolop_go f isand l = Val v -> boolop_go g isand l = Val v.
Proof.
  intros f g isand l. induction l as [| x tl IH]; intros v HF H.
  - discriminate.
  - inversion HF as [| ? ? Hx Htl]; subst. destruct tl as [| y tl'].
    + cbn [boolop_go] in *. exact (Hx v H).
    + change (boolop_go f isand (x :: y :: tl')) with
        (w <- f x ;; if Bool.eqb (truthy w) isand then boolop_go f isand (y :: tl') else Val w) in H.
      change (boolop_go g isand (x :: y :: tl')) with
        (w <- g x ;; if Bool.eqb (truthy w) isand then boolop_go g isand (y :: tl') else Val w).
      apply bind_val in H. destruct H as [w [Hw H]]. rewrite (Hx w Hw). cbn [bind].
      destruct (Bool.eqb (truthy w) isand); [exact (IH v Htl H) | exact H].
Qed.

(* every comparison operator yields a bool on the modelled values *)
Lemma cmp_result_bool : forall o x y r, opfn_apply (cmpop_fn o) x y = Val r -> exists b, r = VBool b.
Proof.
  intros o x y r H. destruct o; cbn [cmpop_fn opfn_apply] in H.
  - inversion H. eexists; reflexivity.
  - inversion H. eexists; reflexivity.
  - unfold of_cmp in H. apply bind_val in H. destruct H as [c [_ H]]. inversion H. eexists; reflexivity.
  - unfold of_cmp in H. apply bind_val in H. destruct H as [c [_ H]]. inversion H. eexists; reflexivity.
  - unfold of_cmp in H. apply bind_val in H. destruct H as [c [_ H]]. inversion H. eexists; reflexivity.
  - unfold of_cmp in H. apply bind_val in H. destruct H as [c [_ H]]. inversion H. eexists; reflexivity.
  - destruct (is_singleton x || is_singleton y); [| discriminate]. inversion H. eexists; reflexivity.
  - destruct (is_singleton x || is_singleton y); [| discriminate]. inversion H. eexists; reflexivity.
  - apply bind_val in H. destruct H as [c [_ H]]. inversion H. eexists; reflexivity.
  - apply bind_val in H. destruct H as [c [_ H]]. inversion H. eexists; reflexivity.
Qed.

(* Compare as all(...) agrees with Python's chained comparison whenever it yields a value *)
Lemma cmp_all_sound : forall f g rest x v,
  rest <> [] ->
  Forall (fun p => refines f g (snd p)) rest ->
  cmp_all f (Val x) rest = Val v -> cmp_go g x rest = Val v.
Proof.
  intros f g rest. induction rest as [| [o b] tl IH]; intros x v Hne HF H.
  - contradiction.
  - inversion HF as [| ? ? Hb Htl]; subst. cbn [snd] in Hb.
    cbn [cmp_all] in H. rewrite table_cmpop in H. cbn [bind] in H.
    apply bind_val in H. destruct H as [y [Hy H]].
    apply bind_val in H. destruct H as [r [Hr H]].
    destruct (cmp_result_bool _ _ _ _ Hr) as [bb Hbb]. subst r.
    destruct tl as [| p tl'].
    + cbn [cmp_go]. rewrite (Hb y Hy). cbn [bind]. rewrite Hr.
      destruct bb; cbn [truthy cmp_all] in H; exact H.
    + change (cmp_go g x ((o, b) :: p :: tl')) with
        (y0 <- g b ;; r0 <- opfn_apply (cmpop_fn o) x y0 ;; if truthy r0 then cmp_go g y0 (p :: tl') else Val r0).
      rewrite (Hb y Hy). cbn [bind]. rewrite Hr. cbn [bind].
      destruct bb; cbn [truthy] in *.
      * rewrite Hy in H. apply IH; [discriminate | exact Htl | exact H].
      * exact H.
Qed.

(* ---------- ast.literal_eval agrees with Python on what it accepts ---------- *)
Lemma leval_sound : forall env e v, leval e = Val v -> eval env e = Val v.
Proof.
  intros env. induction e as [v0 | x0 | o a IHa | o a b IHa IHb | isand es IHes | a rest IHa IHrest | c a b IHc IHa IHb | es IHes | es IHes | f args kws IHargs IHkws | r m args kws IHargs IHkws] using expr_ind';
    intros w H; cbn [leval] in H; try discriminate.
  - exact H.
  - (* EUn *) destruct o; try discriminate; destruct a; try discriminate; destruct v; try discriminate;
      inversion H; reflexivity.
  - (* ETuple *) apply bind_val in H. destruct H as [l [Hl H]]. cbn [eval].
    rewrite (eval_list_mono leval (eval env) es l); [exact H | | exact Hl].
    eapply Forall_impl; [| exact IHes]. intros a Ha v Hv. exact (Ha v Hv).
  - (* EList *) apply bind_val in H. destruct H as [l [Hl H]]. cbn [eval].
    rewrite (eval_list_mono leval (eval env) es l); [exact H | | exact Hl].
    eapply Forall_impl; [| exact IHes]. intros a Ha v Hv. exact (Ha v Hv).
  - (* ECall *) destruct args; [| discriminate]. destruct kws; [| discriminate].
    destruct (String.eqb f "set"); discriminate.
Qed.

(* call_method only returns for the methods whose lookup the reference semantics knows *)
Lemma call_method_known : forall recv m a v, call_method recv m a = Val v -> method_known recv m = true.
Proof.
  intros recv m a v H. destruct recv; cbn [call_method] in H; try discriminate.
  cbn [method_known].
  destruct (String.eqb m "upper"); [reflexivity|].
  destruct (String.eqb m "lower"); [reflexivity|].
  destruct (String.eqb m "join"); [reflexivity|].
  destruct (String.eqb m "startswith"); [reflexivity|].
  destruct (String.eqb m "endswith"); [reflexivity|].
  discriminate.
Qed.

(* ---------- T15.1 soundness: a value returned by literal_value is the value Python computes,
   whatever the variables in scope hold ---------- *)
Theorem lv_sound : forall env e v, lv e = LKnown v -> eval env e = Val v.
Proof.
  intros env. induction e as [v0 | x0 | o a IHa | o a b IHa IHb | isand es IHes | a rest IHa IHrest | c a b IHc IHa IHb | es IHes | es IHes | f args kws IHargs IHkws | r m args kws IHargs IHkws] using expr_ind';
    intros w H; apply lv_known_body in H.
  - exact (leval_sound env _ _ H).
  - exact (leval_sound env _ _ H).
  - (* EUn *)
    destruct o; try exact (leval_sound env _ _ H).
    apply bind_val in H. destruct H as [x [Hx H]]. apply sub_val in Hx.
    cbn [eval]. rewrite (IHa x Hx). exact H.
  - (* EBin *)
    rewrite table_binop in H.
    apply bind_val in H. destruct H as [x [Hx H]]. apply sub_val in Hx.
    apply bind_val in H. destruct H as [y [Hy H]]. apply sub_val in Hy.
    cbn [eval]. rewrite (IHa x Hx), (IHb y Hy). exact H.
  - (* EBool *)
    destruct es as [| e0 es']; [discriminate|].
    cbn [eval]. apply (boolop_go_mono (fun x => sub (lv x)) (eval env)); [| exact H].
    eapply Forall_impl; [| exact IHes]. intros a Ha v Hv. apply sub_val in Hv. exact (Ha v Hv).
  - (* ECmp *)
    destruct rest as [| p rest']; [discriminate|].
    destruct (sub (lv a)) as [x | k |] eqn:Hx.
    + apply sub_val in Hx. cbn [eval]. rewrite (IHa x Hx). cbn [bind].
      apply (cmp_all_sound (fun x => sub (lv x)) (eval env)); [discriminate | | exact H].
      eapply Forall_impl; [| exact IHrest]. intros q Hq v Hv. apply sub_val in Hv. exact (Hq v Hv).
    + destruct p as [o b]. cbn [cmp_all] in H. rewrite table_cmpop in H. discriminate.
    + destruct p as [o b]. cbn [cmp_all] in H. rewrite table_cmpop in H. discriminate.
  - (* EIf *) exact (leval_sound env _ _ H).
  - (* ETuple *) exact (leval_sound env _ _ H).
  - (* EList *) exact (leval_sound env _ _ H).
  - (* ECall *)
    destruct kws as [| k kws']; [| exact (leval_sound env _ _ H)].
    destruct (mem_str f PURE_BUILTIN_FUNCTIONS); [| exact (leval_sound env _ _ H)].
    apply bind_val in H. destruct H as [a [Ha H]].
    cbn [eval eval_kws]. rewrite (eval_list_mono (fun x => sub (lv x)) (eval env) args a); [| | exact Ha].
    + cbn [bind call_builtin_kw]. exact H.
    + eapply Forall_impl; [| exact IHargs]. intros x Hx v Hv. apply sub_val in Hv. exact (Hx v Hv).
  - (* EMeth *)
    destruct kws as [| k kws']; [| discriminate].
    destruct (is_dunder m); [discriminate|].
    apply bind_val in H. destruct H as [a [Ha H]].
    cbn [eval]. rewrite (call_method_known _ _ _ _ H).
    rewrite (eval_list_mono (fun x => sub (lv x)) (eval env) args a); [| | exact Ha].
    + cbn [bind]. exact H.
    + eapply Forall_impl; [| exact IHargs]. intros x Hx v Hv. apply sub_val in Hv. exact (Hx v Hv).
Qed.

(* ---------- corollaries ---------- *)
(* an expression whose evaluation raises is never given a value *)
Theorem lv_raise_not_known : forall env e k, eval env e = Exc k -> forall v, lv e <> LKnown v.
Proof. intros env e k He v Hv. rewrite (lv_sound env e v Hv) in He. discriminate. Qed.

(* a value returned by literal_value does not depend on the variables in scope *)
Theorem lv_known_closed : forall e v env1 env2, lv e = LKnown v -> eval env1 e = eval env2 e.
Proof. intros e v env1 env2 H. rewrite (lv_sound env1 e v H), (lv_sound env2 e v H). reflexivity. Qed.

(* the decision a consumer takes from a known value is Python's truth value of the test *)
Theorem lv_truth : forall env e v, lv e = LKnown v ->
  exists w, eval env e = Val w /\ truthy w = truthy v.
Proof. intros env e v H. exists v. split; [exact (lv_sound env e v H) | reflexivity]. Qed.

(* ---------- T15.2 exactness on the operator fragment: literals combined by not / and / or /
   (chained) comparisons / binary operators.  There literal_value returns exactly Python's value
   (the VALUE of and/or/comparison chains, not only its truth), is unknown exactly when evaluation
   raises, and never lets an exception escape. ---------- *)
Fixpoint literal (e : expr) : bool :=
  match e with
  | EConst _ => true
  | ETuple es | EList es => forallb literal es
  | EUn UNeg (EConst (VInt _)) | EUn UPos (EConst (VInt _)) => true
  | _ => false
  end.
Fixpoint frag (e : expr) : bool :=
  match e with
  | EConst _ => true
  | ETuple es | EList es => forallb literal es
  | EUn UNot a => frag a
  | EUn UNeg (EConst (VInt _)) | EUn UPos (EConst (VInt _)) => true
  | EBin _ a b => frag a && frag b
  | EBool _ es => match es with [] => false | _ => forallb frag es end
  | ECmp a rest => match rest with [] => false | _ => frag a && forallb (fun p => frag (snd p)) rest end
  | ECall f args [] => mem_str f PURE_BUILTIN_FUNCTIONS && forallb frag args
  | _ => false
  end.

Definition sim (r1 r2 : res val) : Prop := wrap r1 = wrap r2.

Lemma sim_refl : forall r, sim r r.
Proof. reflexivity. Qed.
Lemma sim_val : forall r v, sim r (Val v) -> r = Val v.
Proof. intros r v H. exact (wrap_known r v H). Qed.
Lemma sim_gap : forall r, sim r Gap -> r = Gap.
Proof. intros r H. unfold sim in H. destruct r as [a | k |]; cbn in H; try discriminate; [destruct (is_exception k); discriminate | reflexivity]. Qed.
Lemma sim_exc : forall r k, sim r (Exc k) -> exists k', r = Exc k' /\ sim (Exc k') (Exc k).
Proof.
  intros r k H. destruct r as [a | k' |].
  - unfold sim in H. cbn in H. destruct (is_exception k); discriminate.
  - exists k'. split; [reflexivity | exact H].
  - unfold sim in H. cbn in H. destruct (is_exception k); discriminate.
Qed.
Lemma sub_wrap : forall r, sim (sub (wrap r)) r.
Proof. intros [a | k |]; unfold sim; cbn; [reflexivity | | reflexivity]. destruct (is_exception k) eqn:E; cbn; [reflexivity | rewrite E; reflexivity]. Qed.

Lemma bind_cong1 : forall r1 r2 (f : val -> res val), sim r1 r2 -> sim (bind r1 f) (bind r2 f).
Proof.
  intros r1 r2 f H. destruct r2 as [a | k |].
  - rewrite (sim_val _ _ H). reflexivity.
  - destruct (sim_exc _ _ H) as [k' [E Hk]]. subst r1. exact Hk.
  - rewrite (sim_gap _ H). reflexivity.
Qed.
Lemma bind_cong2 : forall (r : res val) (f g : val -> res val), (forall a, sim (f a) (g a)) -> sim (bind r f) (bind r g).
Proof. intros [a | k |] f g H; cbn [bind]; [apply H | reflexivity | reflexivity]. Qed.
Lemma sim_trans : forall a b c, sim a b -> sim b c -> sim a c.
Proof. unfold sim. intros a b c H1 H2. rewrite H1. exact H2. Qed.

Lemma eval_list_exact : forall f g l, Forall (fun x => f x = g x) l -> eval_list f l = eval_list g l.
Proof.
  intros f g l H. induction H as [| x tl Hx _ IH]; [reflexivity|].
  cbn [eval_list]. rewrite Hx, IH. reflexivity.
Qed.

Lemma leval_exact : forall env e, literal e = true -> leval e = eval env e.
Proof.
  intros env. induction e as [v0 | x0 | o a IHa | o a b IHa IHb | isand es IHes | a rest IHa IHrest | c a b IHc IHa IHb | es IHes | es IHes | f args kws IHargs IHkws | r m args kws IHargs IHkws] using expr_ind';
    intros H; cbn [literal] in H; try discriminate.
  - reflexivity.
  - destruct o; try discriminate; destruct a; try discriminate; destruct v; try discriminate; reflexivity.
  - cbn [leval eval]. rewrite (eval_list_exact leval (eval env) es); [reflexivity|].
    rewrite forallb_forall in H. rewrite Forall_forall in *. intros x Hx. exact (IHes x Hx (H x Hx)).
  - cbn [leval eval]. rewrite (eval_list_exact leval (eval env) es); [reflexivity|].
    rewrite forallb_forall in H. rewrite Forall_forall in *. intros x Hx. exact (IHes x Hx (H x Hx)).
Qed.

Lemma literal_hse : forall wl e, literal e = true -> hse wl e = false.
Proof.
  intros wl. induction e as [v0 | x0 | o a IHa | o a b IHa IHb | isand es IHes | a rest IHa IHrest | c a b IHc IHa IHb | es IHes | es IHes | f args kws IHargs IHkws | r m args kws IHargs IHkws] using expr_ind';
    intros H; cbn [literal] in H; try discriminate.
  - reflexivity.
  - destruct o; try discriminate; destruct a; try discriminate; reflexivity.
  - cbn [hse]. rewrite forallb_forall in H. rewrite Forall_forall in IHes.
    destruct (existsb (hse wl) es) eqn:E; [| reflexivity].
    apply existsb_exists in E. destruct E as [x [Hx Hs]]. rewrite (IHes x Hx (H x Hx)) in Hs. discriminate.
  - cbn [hse]. rewrite forallb_forall in H. rewrite Forall_forall in IHes.
    destruct (existsb (hse wl) es) eqn:E; [| reflexivity].
    apply existsb_exists in E. destruct E as [x [Hx Hs]]. rewrite (IHes x Hx (H x Hx)) in Hs. discriminate.
Qed.

Lemma existsb_false : forall {X} (p : X -> bool) l, (forall x, In x l -> p x = false) -> existsb p l = false.
Proof.
  intros X p l H. destruct (existsb p l) eqn:E; [| reflexivity].
  apply existsb_exists in E. destruct E as [x [Hx Hp]]. rewrite (H x Hx) in Hp. discriminate.
Qed.

Lemma pure_in_builtin : forall f, mem_str f PURE_BUILTIN_FUNCTIONS = true -> mem_str f BUILTIN_FUNCTIONS = true.
Proof.
  intros f H. unfold mem_str in *. apply existsb_exists in H. destruct H as [x [Hx E]].
  apply String.eqb_eq in E. subst x. destruct (pure_table_ok f Hx) as [_ Hb].
  apply existsb_exists. exists f. split; [exact Hb | apply String.eqb_refl].
Qed.

Lemma flat_map_nil : forall {X Y} (g : X -> list Y) l, (forall x, In x l -> g x = []) -> flat_map g l = [].
Proof.
  intros X Y g l H. induction l as [| x t IH]; [reflexivity|]. cbn [flat_map].
  rewrite (H x (or_introl eq_refl)). cbn [app]. apply IH. intros y Hy. apply H. right. exact Hy.
Qed.

Lemma literal_attrs : forall e, literal e = true -> attrs_of e = [].
Proof.
  induction e as [v0 | x0 | o a IHa | o a b IHa IHb | isand es IHes | a rest IHa IHrest | c a b IHc IHa IHb | es IHes | es IHes | f args kws IHargs IHkws | r m args kws IHargs IHkws] using expr_ind';
    intros H; cbn [literal] in H; try discriminate.
  - reflexivity.
  - destruct o; try discriminate; destruct a; try discriminate; reflexivity.
  - cbn [attrs_of]. apply flat_map_nil. intros x Hx. rewrite forallb_forall in H. rewrite Forall_forall in IHes. exact (IHes x Hx (H x Hx)).
  - cbn [attrs_of]. apply flat_map_nil. intros x Hx. rewrite forallb_forall in H. rewrite Forall_forall in IHes. exact (IHes x Hx (H x Hx)).
Qed.

Lemma frag_attrs : forall e, frag e = true -> attrs_of e = [].
Proof.
  induction e as [v0 | x0 | o a IHa | o a b IHa IHb | isand es IHes | a rest IHa IHrest | c a b IHc IHa IHb | es IHes | es IHes | f args kws IHargs IHkws | r m args kws IHargs IHkws] using expr_ind';
    intros H; cbn [frag] in H; try discriminate.
  - reflexivity.
  - destruct o; try discriminate.
    + cbn [attrs_of]. exact (IHa H).
    + destruct a; try discriminate. reflexivity.
    + destruct a; try discriminate. reflexivity.
  - apply andb_true_iff in H. destruct H as [Ha Hb]. cbn [attrs_of]. rewrite (IHa Ha), (IHb Hb). reflexivity.
  - destruct es as [| e0 es']; [discriminate|]. cbn [attrs_of]. apply flat_map_nil. intros x Hx.
    rewrite forallb_forall in H. rewrite Forall_forall in IHes. exact (IHes x Hx (H x Hx)).
  - destruct rest as [| p rest']; [discriminate|]. apply andb_true_iff in H. destruct H as [Ha Hr].
    cbn [attrs_of]. rewrite (IHa Ha). cbn [app]. apply flat_map_nil. intros x Hx.
    rewrite forallb_forall in Hr. rewrite Forall_forall in IHrest. exact (IHrest x Hx (Hr x Hx)).
  - apply (literal_attrs (ETuple es)). exact H.
  - apply (literal_attrs (EList es)). exact H.
  - destruct kws; [| discriminate]. apply andb_true_iff in H. destruct H as [_ Ha].
    cbn [attrs_of flat_map]. rewrite app_nil_r. apply flat_map_nil. intros x Hx.
    rewrite forallb_forall in Ha. rewrite Forall_forall in IHargs. exact (IHargs x Hx (Ha x Hx)).
Qed.

Lemma frag_hse : forall e, frag e = true -> hse BUILTIN_FUNCTIONS e = false.
Proof.
  induction e as [v0 | x0 | o a IHa | o a b IHa IHb | isand es IHes | a rest IHa IHrest | c a b IHc IHa IHb | es IHes | es IHes | f args kws IHargs IHkws | r m args kws IHargs IHkws] using expr_ind';
    intros H; pose proof H as Hfrag; cbn [frag] in H; try discriminate.
  - reflexivity.
  - destruct o; try discriminate.
    + cbn [hse]. exact (IHa H).
    + destruct a; try discriminate. reflexivity.
    + destruct a; try discriminate. reflexivity.
  - apply andb_true_iff in H. destruct H as [Ha Hb]. cbn [hse]. rewrite (IHa Ha), (IHb Hb). reflexivity.
  - destruct es as [| e0 es']; [discriminate|]. cbn [hse]. apply existsb_false. intros x Hx.
    rewrite forallb_forall in H. rewrite Forall_forall in IHes. exact (IHes x Hx (H x Hx)).
  - destruct rest as [| p rest']; [discriminate|]. apply andb_true_iff in H. destruct H as [Ha Hr].
    cbn [hse]. rewrite (IHa Ha). cbn [orb]. apply existsb_false. intros x Hx.
    rewrite forallb_forall in Hr. rewrite Forall_forall in IHrest. exact (IHrest x Hx (Hr x Hx)).
  - apply (literal_hse BUILTIN_FUNCTIONS (ETuple es)). exact H.
  - apply (literal_hse BUILTIN_FUNCTIONS (EList es)). exact H.
  - destruct kws; [| discriminate]. apply andb_true_iff in H. destruct H as [Hf Ha].
    cbn [hse]. rewrite (pure_in_builtin f Hf). cbn [orb negb existsb].
    rewrite (frag_attrs _ Hfrag). cbn [forallb negb]. rewrite !orb_false_r.
    apply existsb_false. intros x Hx.
    rewrite forallb_forall in Ha. rewrite Forall_forall in IHargs. exact (IHargs x Hx (Ha x Hx)).
Qed.

Lemma bind_assoc : forall {A B C} (r : res A) (f : A -> res B) (g : B -> res C),
  bind (bind r f) g = bind r (fun a => bind (f a) g).
Proof. intros A B C [a | k |] f g; reflexivity. Qed.

Lemma eval_list_cong : forall f g l, Forall (fun x => sim (f x) (g x)) l ->
  forall F : list val -> res val, sim (bind (eval_list f l) F) (bind (eval_list g l) F).
Proof.
  intros f g l H. induction H as [| x tl Hx _ IH]; intros F; [reflexivity|].
  cbn [eval_list]. rewrite !bind_assoc.
  eapply sim_trans; [apply bind_cong1; exact Hx|].
  apply bind_cong2. intros v. rewrite !bind_assoc. cbn [bind]. apply (IH (fun r => F (v :: r))).
Qed.

Lemma boolop_go_cong : forall f g isand l,
  Forall (fun x => sim (f x) (g x)) l -> sim (boolop_go f isand l) (boolop_go g isand l).
Proof.
  intros f g isand l H. induction H as [| x tl Hx Htl IH]; [reflexivity|].
  destruct tl as [| y tl'].
  - exact Hx.
  - change (boolop_go f isand (x :: y :: tl')) with
      (w <- f x ;; if Bool.eqb (truthy w) isand then boolop_go f isand (y :: tl') else Val w).
    change (boolop_go g isand (x :: y :: tl')) with
      (w <- g x ;; if Bool.eqb (truthy w) isand then boolop_go g isand (y :: tl') else Val w).
    eapply sim_trans; [apply bind_cong1; exact Hx|].
    apply bind_cong2. intros w. destruct (Bool.eqb (truthy w) isand); [exact IH | reflexivity].
Qed.

Lemma cmp_all_exact : forall f g rest x,
  rest <> [] ->
  Forall (fun p => sim (f (snd p)) (g (snd p))) rest ->
  sim (cmp_all f (Val x) rest) (cmp_go g x rest).
Proof.
  intros f g rest. induction rest as [| [o b] tl IH]; intros x Hne HF; [contradiction|].
  inversion HF as [| ? ? Hb Htl]; subst. cbn [snd] in Hb.
  cbn [cmp_all]. rewrite table_cmpop. cbn [bind].
  destruct (g b) as [y | k |] eqn:Hg.
  - rewrite (sim_val _ _ Hb). cbn [bind].
    destruct tl as [| p tl'].
    + cbn [cmp_go]. rewrite Hg. cbn [bind].
      destruct (opfn_apply (cmpop_fn o) x y) as [r | k0 |] eqn:Hr; cbn [bind]; try reflexivity.
      destruct (cmp_result_bool _ _ _ _ Hr) as [bb Hbb]. subst r. destruct bb; reflexivity.
    + change (cmp_go g x ((o, b) :: p :: tl')) with
        (y0 <- g b ;; r0 <- opfn_apply (cmpop_fn o) x y0 ;; if truthy r0 then cmp_go g y0 (p :: tl') else Val r0).
      rewrite Hg. cbn [bind].
      destruct (opfn_apply (cmpop_fn o) x y) as [r | k0 |] eqn:Hr; cbn [bind]; try reflexivity.
      destruct (cmp_result_bool _ _ _ _ Hr) as [bb Hbb]. subst r. destruct bb; cbn [truthy].
      * apply IH; [discriminate | exact Htl].
      * reflexivity.
  - destruct (sim_exc _ _ Hb) as [k' [E Hk]]. rewrite E. cbn [bind].
    destruct tl as [| p tl'].
    + cbn [cmp_go]. rewrite Hg. exact Hk.
    + change (cmp_go g x ((o, b) :: p :: tl')) with
        (y0 <- g b ;; r0 <- opfn_apply (cmpop_fn o) x y0 ;; if truthy r0 then cmp_go g y0 (p :: tl') else Val r0).
      rewrite Hg. exact Hk.
  - rewrite (sim_gap _ Hb). cbn [bind].
    destruct tl as [| p tl'].
    + cbn [cmp_go]. rewrite Hg. reflexivity.
    + change (cmp_go g x ((o, b) :: p :: tl')) with
        (y0 <- g b ;; r0 <- opfn_apply (cmpop_fn o) x y0 ;; if truthy r0 then cmp_go g y0 (p :: tl') else Val r0).
      rewrite Hg. reflexivity.
Qed.

Theorem frag_exact : forall env e, frag e = true -> lv e = wrap (eval env e).
Proof.
  intros env. induction e as [v0 | x0 | o a IHa | o a b IHa IHb | isand es IHes | a rest IHa IHrest | c a b IHc IHa IHb | es IHes | es IHes | f args kws IHargs IHkws | r m args kws IHargs IHkws] using expr_ind';
    intros H; rewrite lv_unfold; rewrite (frag_hse _ H); cbn [frag] in H; try discriminate.
  - reflexivity.
  - (* EUn *) destruct o; try discriminate.
    + specialize (IHa H). cbn [eval]. change (sim (v <- sub (lv a) ;; Val (VBool (negb (truthy v)))) (v <- eval env a ;; unop_apply UNot v)).
      apply bind_cong1. rewrite IHa. apply sub_wrap.
    + destruct a; try discriminate. destruct v; try discriminate. reflexivity.
    + destruct a; try discriminate. destruct v; try discriminate. reflexivity.
  - (* EBin *) apply andb_true_iff in H. destruct H as [Ha Hb]. specialize (IHa Ha). specialize (IHb Hb).
    rewrite table_binop. cbn [eval].
    change (sim (x <- sub (lv a) ;; y <- sub (lv b) ;; opfn_apply (binop_fn o) x y)
                (x <- eval env a ;; y <- eval env b ;; opfn_apply (binop_fn o) x y)).
    eapply sim_trans; [apply bind_cong1; rewrite IHa; apply sub_wrap|].
    apply bind_cong2. intros x. apply bind_cong1. rewrite IHb. apply sub_wrap.
  - (* EBool *) destruct es as [| e0 es']; [discriminate|]. cbn [eval].
    apply (boolop_go_cong (fun x => sub (lv x)) (eval env)).
    rewrite forallb_forall in H. rewrite Forall_forall in *. intros x Hx.
    rewrite (IHes x Hx (H x Hx)). apply sub_wrap.
  - (* ECmp *) destruct rest as [| p rest']; [discriminate|].
    apply andb_true_iff in H. destruct H as [Ha Hr]. specialize (IHa Ha).
    cbn [eval].
    assert (HF : Forall (fun p0 => sim (sub (lv (snd p0))) (eval env (snd p0))) (p :: rest')).
    { rewrite forallb_forall in Hr. rewrite Forall_forall in *. intros q Hq.
      rewrite (IHrest q Hq (Hr q Hq)). apply sub_wrap. }
    assert (Hsa : sim (sub (lv a)) (eval env a)) by (rewrite IHa; apply sub_wrap).
    change (sim (cmp_all (fun x => sub (lv x)) (sub (lv a)) (p :: rest')) (x <- eval env a ;; cmp_go (eval env) x (p :: rest'))).
    destruct (eval env a) as [x | k |] eqn:Hea.
    + rewrite (sim_val _ _ Hsa). cbn [bind]. apply cmp_all_exact; [discriminate | exact HF].
    + destruct (sim_exc _ _ Hsa) as [k' [E Hk]]. rewrite E. destruct p as [o b].
      cbn [cmp_all]. rewrite table_cmpop. exact Hk.
    + rewrite (sim_gap _ Hsa). destruct p as [o b]. cbn [cmp_all]. rewrite table_cmpop. reflexivity.
  - (* ETuple *) f_equal. apply (leval_exact env (ETuple es)). exact H.
  - (* EList *) f_equal. apply (leval_exact env (EList es)). exact H.
  - (* ECall *) destruct kws; [| discriminate]. apply andb_true_iff in H. destruct H as [Hf Ha].
    rewrite Hf. cbn [eval eval_kws].
    change (sim (a <- eval_list (fun x => sub (lv x)) args ;; call_builtin f a)
                (a <- eval_list (eval env) args ;; k <- Val [] ;; call_builtin_kw f a k)).
    cbn [bind call_builtin_kw].
    apply (eval_list_cong (fun x => sub (lv x)) (eval env)).
    rewrite forallb_forall in Ha. rewrite Forall_forall in *. intros x Hx.
    rewrite (IHargs x Hx (Ha x Hx)). apply sub_wrap.
Qed.

(* ---------- T15.3 no exception escapes from literal_value ---------- *)
Definition safe {A} (r : res A) : Prop := forall k, r = Exc k -> is_exception k = true.

Lemma safe_val : forall {A} (a : A), safe (Val a).
Proof. intros A a k H. discriminate. Qed.
Lemma safe_gap : forall {A}, safe (@Gap A).
Proof. intros A k H. discriminate. Qed.
Lemma safe_exc : forall {A} k, is_exception k = true -> safe (@Exc A k).
Proof. intros A k Hk k' H. inversion H. subst. exact Hk. Qed.
Lemma bind_safe : forall {A B} (r : res A) (f : A -> res B), safe r -> (forall a, safe (f a)) -> safe (bind r f).
Proof.
  intros A B r f Hr Hf. destruct r as [a | k |]; cbn [bind].
  - apply Hf.
  - intros k' H. inversion H. subst. apply Hr. reflexivity.
  - apply safe_gap.
Qed.

Ltac safe_step :=
  first
    [ apply safe_val | apply safe_gap | (apply safe_exc; reflexivity)
    | assumption
    | apply bind_safe; [| intros ?]
    | match goal with
      | |- safe (if ?c then _ else _) => destruct c
      | |- safe (match ?x with _ => _ end) => destruct x
      end ].
Ltac safe_tac := repeat safe_step.

Section ValInd.
Variable P : val -> Prop.
Hypothesis HNone : P VNone.
Hypothesis HBool : forall b, P (VBool b).
Hypothesis HInt : forall z, P (VInt z).
Hypothesis HStr : forall s, P (VStr s).
Hypothesis HTuple : forall l, Forall P l -> P (VTuple l).
Hypothesis HList : forall l, Forall P l -> P (VList l).
Fixpoint val_ind' (v : val) : P v :=
  let list_ind := fix go (l : list val) : Forall P l :=
    match l with [] => Forall_nil _ | x :: tl => Forall_cons x (val_ind' x) (go tl) end in
  match v with
  | VNone => HNone | VBool b => HBool b | VInt z => HInt z | VStr s => HStr s
  | VTuple l => HTuple l (list_ind l)
  | VList l => HList l (list_ind l)
  end.
End ValInd.

Lemma val_compare_safe : forall a b, safe (val_compare a b).
Proof.
  induction a as [| b0 | z | s | l IH | l IH] using val_ind'; intros b.
  - destruct b; cbn; safe_tac.
  - destruct b; cbn; safe_tac.
  - destruct b; cbn; safe_tac.
  - destruct b; cbn; safe_tac.
  - destruct b as [| | | | m | m]; try (cbn; safe_tac).
    cbn [val_compare]. revert m. induction IH as [| x tl Hx _ IHtl]; intros m.
    + destruct m; safe_tac.
    + destruct m as [| y m']; [safe_tac|]. destruct (val_eq x y); [apply IHtl | apply Hx].
  - destruct b as [| | | | m | m]; try (cbn; safe_tac).
    cbn [val_compare]. revert m. induction IH as [| x tl Hx _ IHtl]; intros m.
    + destruct m; safe_tac.
    + destruct m as [| y m']; [safe_tac|]. destruct (val_eq x y); [apply IHtl | apply Hx].
Qed.

Lemma contains_safe : forall a b, safe (contains a b).
Proof. intros a b. unfold contains. safe_tac. Qed.

Lemma int_op_safe : forall f a b, (forall x y, safe (f x y)) -> safe (int_op f a b).
Proof. intros f a b H. unfold int_op. safe_tac. apply H. Qed.

Lemma repeat_seq_safe : forall {X} mk (l : list X) n, safe (repeat_seq mk l n).
Proof. intros. unfold repeat_seq. safe_tac. Qed.

Lemma opfn_apply_safe : forall f a b, safe (opfn_apply f a b).
Proof.
  intros f a b.
  destruct f; cbn [opfn_apply]; unfold of_cmp;
    try (safe_tac; fail);
    try (apply bind_safe; [first [apply val_compare_safe | apply contains_safe] | intros ?; safe_tac]; fail).
  all: try (apply int_op_safe; intros; safe_tac; fail).
  all: try (destruct a; destruct b; cbn [as_int both_bool]; try apply repeat_seq_safe; try (apply int_op_safe; intros; safe_tac); safe_tac; fail).
Qed.

Lemma iter_of_safe : forall v, safe (iter_of v).
Proof. intros v. unfold iter_of. safe_tac. Qed.
Lemma val_lt_safe : forall a b, safe (val_lt a b).
Proof. intros. unfold val_lt. apply bind_safe; [apply val_compare_safe | intros; safe_tac]. Qed.
Lemma extremum_safe : forall want l best, safe (extremum want best l).
Proof.
  intros want l. induction l as [| x t IH]; intros best; cbn [extremum]; [safe_tac|].
  apply bind_safe; [apply val_compare_safe | intros c; apply IH].
Qed.
Lemma insert_sorted_safe : forall x l, safe (insert_sorted x l).
Proof.
  intros x l. induction l as [| y t IH]; cbn [insert_sorted]; [safe_tac|].
  apply bind_safe; [apply val_lt_safe | intros b]. destruct b; [| safe_tac].
  apply bind_safe; [exact IH | intros; safe_tac].
Qed.
Lemma isort_safe : forall l, safe (isort l).
Proof.
  induction l as [| x t IH]; cbn [isort]; [safe_tac|].
  apply bind_safe; [exact IH | intros; apply insert_sorted_safe].
Qed.
Lemma sorted_list_safe : forall l, safe (sorted_list l).
Proof.
  intros l. unfold sorted_list. destruct l as [| a [| b [| c t]]]; try (safe_tac; fail).
  - apply bind_safe; [apply val_lt_safe | intros; safe_tac].
  - destruct (pairwise_comparable (a :: b :: c :: t)); [apply isort_safe | safe_tac].
Qed.
Lemma sum_from_safe : forall l acc, safe (sum_from acc l).
Proof.
  induction l as [| x t IH]; intros acc; cbn [sum_from]; [safe_tac|].
  apply bind_safe; [apply opfn_apply_safe | intros; apply IH].
Qed.
Lemma join_strs_safe : forall sepr l, safe (join_strs sepr l).
Proof.
  intros sepr l. induction l as [| x t IH]; cbn [join_strs]; [safe_tac|].
  destruct x; safe_tac.
Qed.
Lemma parse_int_safe : forall s, safe (parse_int s).
Proof. intros s. unfold parse_int. safe_tac. Qed.
Lemma str_of_safe : forall v, safe (str_of v).
Proof. intros v. unfold str_of. safe_tac. Qed.

Ltac safe_step2 :=
  first
    [ apply safe_val | apply safe_gap | (apply safe_exc; reflexivity) | assumption
    | apply iter_of_safe | apply parse_int_safe | apply str_of_safe | apply sorted_list_safe
    | apply extremum_safe | apply sum_from_safe | apply join_strs_safe | apply val_compare_safe
    | apply opfn_apply_safe
    | apply bind_safe; [| intros ?]
    | match goal with
      | |- safe (if ?c then _ else _) => destruct c
      | |- safe (match ?x with _ => _ end) => destruct x
      end ].

Lemma call_builtin_safe : forall f a, safe (call_builtin f a).
Proof. intros f a. unfold call_builtin. repeat safe_step2. Qed.

Lemma call_method_safe : forall r m a, safe (call_method r m a).
Proof. intros r m a. unfold call_method. repeat safe_step2. Qed.

Lemma eval_list_safe : forall f l, Forall (fun x => safe (f x)) l -> safe (eval_list f l).
Proof.
  intros f l H. induction H as [| x t Hx _ IH]; cbn [eval_list]; [safe_tac|].
  apply bind_safe; [exact Hx | intros v]. apply bind_safe; [exact IH | intros; safe_tac].
Qed.

Lemma leval_safe : forall e, safe (leval e).
Proof.
  induction e as [v0 | x0 | o a IHa | o a b IHa IHb | isand es IHes | a rest IHa IHrest | c a b IHc IHa IHb | es IHes | es IHes | f args kws IHargs IHkws | r m args kws IHargs IHkws] using expr_ind';
    cbn [leval]; try (safe_tac; fail).
  - apply bind_safe; [apply eval_list_safe; exact IHes | intros; safe_tac].
  - apply bind_safe; [apply eval_list_safe; exact IHes | intros; safe_tac].
Qed.

Lemma sub_wrap_safe : forall r, safe r -> safe (sub (wrap r)).
Proof.
  intros [a | k |] H; cbn [wrap].
  - cbn. safe_tac.
  - rewrite (H k eq_refl). cbn. safe_tac.
  - cbn. safe_tac.
Qed.

Lemma boolop_go_safe : forall f isand l, Forall (fun x => safe (f x)) l -> safe (boolop_go f isand l).
Proof.
  intros f isand l H. induction H as [| x t Hx Ht IH]; [cbn; safe_tac|].
  destruct t as [| y t']; [exact Hx|].
  change (boolop_go f isand (x :: y :: t')) with
    (w <- f x ;; if Bool.eqb (truthy w) isand then boolop_go f isand (y :: t') else Val w).
  apply bind_safe; [exact Hx | intros w]. destruct (Bool.eqb (truthy w) isand); [exact IH | safe_tac].
Qed.

Lemma cmp_all_safe : forall f l r, safe r -> Forall (fun p => safe (f (snd p))) l -> safe (cmp_all f r l).
Proof.
  intros f l. induction l as [| [o b] t IH]; intros r Hr H; cbn [cmp_all]; [safe_tac|].
  inversion H as [| ? ? Hb Ht]; subst. cbn [snd] in Hb.
  destruct (table_fn (OC o)); [| safe_tac].
  apply bind_safe; [exact Hr | intros x]. apply bind_safe; [exact Hb | intros y].
  apply bind_safe; [apply opfn_apply_safe | intros q]. destruct (truthy q); [apply IH; assumption | safe_tac].
Qed.

(* the body of _literal_value raises only classes derived from Exception *)
Lemma lv_body_safe : forall e, safe (sub (lv e)).
Proof.
  induction e as [v0 | x0 | o a IHa | o a b IHa IHb | isand es IHes | a rest IHa IHrest | c a b IHc IHa IHb | es IHes | es IHes | f args kws IHargs IHkws | r m args kws IHargs IHkws] using expr_ind';
    rewrite lv_unfold; apply sub_wrap_safe;
    (destruct (hse BUILTIN_FUNCTIONS _); [safe_tac|]); try apply leval_safe.
  - destruct o; try apply leval_safe. apply bind_safe; [exact IHa | intros; safe_tac].
  - destruct (table_fn (OB o)); [| apply leval_safe].
    apply bind_safe; [exact IHa | intros x]. apply bind_safe; [exact IHb | intros y]. apply opfn_apply_safe.
  - destruct es as [| e0 es']; [safe_tac|]. apply boolop_go_safe. exact IHes.
  - destruct rest as [| p rest']; [safe_tac|]. apply cmp_all_safe; [exact IHa | exact IHrest].
  - destruct kws; [| apply leval_safe]. destruct (mem_str f PURE_BUILTIN_FUNCTIONS); [| apply leval_safe].
    apply bind_safe; [apply eval_list_safe; exact IHargs | intros; apply call_builtin_safe].
  - destruct kws; [| safe_tac]. destruct (is_dunder m); [safe_tac|].
    apply bind_safe; [apply eval_list_safe; exact IHargs | intros; apply call_method_safe].
Qed.

Theorem lv_no_crash : forall e k, lv e <> LCrash k.
Proof.
  intros e k H. pose proof (lv_body_safe e k) as Hs. rewrite H in Hs. cbn [sub] in Hs.
  specialize (Hs eq_refl).
  (* wrap only produces LCrash for a class that is not an Exception *)
  rewrite lv_unfold in H. destruct (if hse BUILTIN_FUNCTIONS e then Exc KValue else _) as [a | k' |]; cbn [wrap] in H; try discriminate.
  destruct (is_exception k') eqn:E; [discriminate|]. inversion H. subst. rewrite E in Hs. discriminate.
Qed.

(* special methods of constants ('abc'.__hash__() depends on the hash seed) are never evaluated *)
Theorem dunder_unknown : forall r m args kws, is_dunder m = true -> lv (EMeth r m args kws) = LUnknown.
Proof.
  intros r m args kws H. rewrite lv_unfold.
  destruct (hse BUILTIN_FUNCTIONS (EMeth r m args kws)); [reflexivity|].
  destruct kws; [rewrite H|]; reflexivity.
Qed.
