(* K4 -- proofs about LitValModel.lv against the reference semantics PyValModel.eval. *)
From Coq Require Import List ZArith Bool String Lia.
Import ListNotations.
Require Import Pyrefact.Ops Pyrefact.PyValModel Pyrefact.LitValModel.
Require Import PyrefactGen.Tables PyrefactGen.TablesC15.
Open Scope Z_scope.

(* the regenerated constants.COMPARISON_OPERATORS maps every operator token to the Python function
   that the reference semantics assigns to it *)
Lemma table_binop : forall o, table_fn (OB o) = Some (binop_fn o).
Proof. destruct o; vm_compute; reflexivity. Qed.
Lemma table_cmpop : forall o, table_fn (OC o) = Some (cmpop_fn o).
Proof. destruct o; vm_compute; reflexivity. Qed.
