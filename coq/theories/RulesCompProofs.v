(* C02, loop -> comprehension tranche: proofs about RulesCompModel.v.
   Part 1  induction principle, frame lemma (an expression only depends on the names it mentions)
   Part 2  the loop nest of a rule site is the statement built from its clauses
   Part 3  a for / if nest that fills a collection  ~  the clauses of a comprehension (generic simulation)
   Part 4  the statement rules: list / set / sum / dict comprehension, + / | folds, extend of a generator
   Part 5  dead variables: a rewritten site followed by code that does not read the loop variables
   Part 6  the expression rules (redundant comprehension, chained / nested comprehensions, map / filter) *)
From Coq Require Import List ZArith Bool Lia.
Import ListNotations.
Require Import Pyrefact.RulesExprModel Pyrefact.RulesExprProofs Pyrefact.RulesCompModel.
Open Scope Z_scope.

(* =========================================================================================== *)
(* Part 1 *)

Section CxInd.
  Variable P : cx -> Prop.
  Hypothesis HConst : forall a, P (XConst a).
  Hypothesis HName : forall x, P (XName x).
  Hypothesis HCall : forall f args, Forall P args -> P (XCall f args).
  Hypothesis HBi : forall b args, Forall P args -> P (XBi b args).
  Hypothesis HSeq : forall k args, Forall P args -> P (XSeq k args).
  Hypothesis HDict : forall args, Forall P args -> P (XDict args).
  Hypothesis HBin : forall o l r, P l -> P r -> P (XBin o l r).
  Hypothesis HNeg : forall e, P e -> P (XNeg e).
  Hypothesis HNot : forall e, P e -> P (XNot e).
  Hypothesis HBool : forall a args, Forall P args -> P (XBool a args).
  Hypothesis HComp : forall k elt dval gens, P elt -> P dval -> Forall P gens -> P (XComp k elt dval gens).
  Hypothesis HGen : forall t it ifs, P it -> Forall P ifs -> P (XGen t it ifs).
  Hypothesis HMap : forall a body it, P body -> P it -> P (XMap a body it).
  Hypothesis HFilter : forall n a body it, P body -> P it -> P (XFilter n a body it).
  Hypothesis HKV : forall k v, P k -> P v -> P (XKV k v).
  Hypothesis HDStar : forall e, P e -> P (XDStar e).

  Fixpoint cx_ind' (e : cx) : P e :=
    let all := fix all (l : list cx) : Forall P l :=
      match l with
      | [] => Forall_nil P
      | a :: tl => Forall_cons a (cx_ind' a) (all tl)
      end in
    match e with
    | XConst a => HConst a
    | XName x => HName x
    | XCall f args => HCall f args (all args)
    | XBi b args => HBi b args (all args)
    | XSeq k args => HSeq k args (all args)
    | XDict args => HDict args (all args)
    | XBin o l r => HBin o l r (cx_ind' l) (cx_ind' r)
    | XNeg e1 => HNeg e1 (cx_ind' e1)
    | XNot e1 => HNot e1 (cx_ind' e1)
    | XBool a args => HBool a args (all args)
    | XComp k elt dval gens => HComp k elt dval gens (cx_ind' elt) (cx_ind' dval) (all gens)
    | XGen t it ifs => HGen t it ifs (cx_ind' it) (all ifs)
    | XMap a body it => HMap a body it (cx_ind' body) (cx_ind' it)
    | XFilter n a body it => HFilter n a body it (cx_ind' body) (cx_ind' it)
    | XKV k v => HKV k v (cx_ind' k) (cx_ind' v)
    | XDStar e1 => HDStar e1 (cx_ind' e1)
    end.
End CxInd.

(* ---- environments that agree on a set of names ---- *)

Definition agree_on (S : nat -> bool) (en1 en2 : env) : Prop := forall y, S y = true -> en1 y = en2 y.

Lemma agree_on_sub : forall (S S' : nat -> bool) en1 en2,
  (forall y, S' y = true -> S y = true) -> agree_on S en1 en2 -> agree_on S' en1 en2.
Proof. intros S S' en1 en2 H A y Hy. apply A, H, Hy. Qed.

Lemma agree_on_upd : forall S en1 en2 x v, agree_on S en1 en2 -> agree_on S (upd en1 x v) (upd en2 x v).
Proof. intros S en1 en2 x v A y Hy. unfold upd. destruct (Nat.eqb y x); [reflexivity | apply A, Hy]. Qed.

Lemma agree_on_bind_names : forall S xs vs en1 en2, agree_on S en1 en2 ->
  match bind_names xs vs en1, bind_names xs vs en2 with
  | Some e1, Some e2 => agree_on S e1 e2
  | None, None => True
  | _, _ => False
  end.
Proof.
  induction xs as [|x xs IH]; intros vs en1 en2 A; destruct vs as [|v vs]; cbn [bind_names]; try exact I.
  - exact A.
  - apply IH, agree_on_upd, A.
Qed.

Lemma agree_on_bind : forall S t v en1 en2, agree_on S en1 en2 ->
  match bind t v en1, bind t v en2 with
  | Some e1, Some e2 => agree_on S e1 e2
  | None, None => True
  | _, _ => False
  end.
Proof.
  intros S t v en1 en2 A. destruct t as [x|xs]; cbn [bind].
  - apply agree_on_upd, A.
  - destruct (items_of v); [apply agree_on_bind_names, A | exact I].
Qed.

Lemma agree_on_mask : forall S ns en1 en2, agree_on S en1 en2 -> agree_on S (mask ns en1) (mask ns en2).
Proof. intros S ns en1 en2 A y Hy. unfold mask. destruct (memn y ns); [reflexivity | apply A, Hy]. Qed.

(* results of the clause machinery, related up to the names in S *)
Definition res_rel (S : nat -> bool) (r1 r2 : res) : Prop :=
  match r1, r2 with
  | Some (e1, a1, t1), Some (e2, a2, t2) => a1 = a2 /\ t1 = t2 /\ agree_on S e1 e2
  | None, None => True
  | _, _ => False
  end.

Lemma iter_items_rel : forall S (b1 b2 : env -> trace -> list val -> res) t,
  (forall en1 en2 tr acc, agree_on S en1 en2 -> res_rel S (b1 en1 tr acc) (b2 en2 tr acc)) ->
  forall xs en1 en2 tr acc, agree_on S en1 en2 ->
  res_rel S (iter_items b1 t xs en1 tr acc) (iter_items b2 t xs en2 tr acc).
Proof.
  intros S b1 b2 t Hb. induction xs as [|x xs IH]; intros en1 en2 tr acc A; cbn [iter_items].
  - cbn. auto.
  - pose proof (agree_on_bind S t x en1 en2 A) as B.
    destruct (bind t x en1) as [e1|], (bind t x en2) as [e2|]; try contradiction; [|exact I].
    pose proof (Hb e1 e2 tr acc B) as R. unfold res_rel in R.
    destruct (b1 e1 tr acc) as [[[e1' a1] t1]|], (b2 e2 tr acc) as [[[e2' a2] t2]|]; try contradiction; [|exact I].
    destruct R as [-> [-> A']]. apply IH, A'.
Qed.

(* an evaluator that only depends on the names in S *)
Definition framed (S : nat -> bool) (w : world) (e : cx) : Prop :=
  forall en1 en2 tr, agree_on S en1 en2 -> eval w e en1 tr = eval w e en2 tr.

Lemma ev_list_frame : forall S w l, Forall (framed S w) l ->
  forall en1 en2 tr, agree_on S en1 en2 -> ev_list (eval w) en1 l tr = ev_list (eval w) en2 l tr.
Proof.
  intros S w l H. induction H as [|a l Ha _ IH]; intros en1 en2 tr A; cbn [ev_list]; [reflexivity|].
  rewrite (Ha en1 en2 tr A). destruct (eval w a en2 tr) as [[v tr1]|]; [|reflexivity].
  rewrite (IH en1 en2 tr1 A). reflexivity.
Qed.

Lemma ev_conds_frame : forall S w l, Forall (framed S w) l ->
  forall en1 en2 tr, agree_on S en1 en2 -> ev_conds (eval w) en1 l tr = ev_conds (eval w) en2 l tr.
Proof.
  intros S w l H. induction H as [|a l Ha _ IH]; intros en1 en2 tr A; cbn [ev_conds]; [reflexivity|].
  rewrite (Ha en1 en2 tr A). destruct (eval w a en2 tr) as [[v tr1]|]; [|reflexivity].
  destruct (truthy v); [apply IH, A | reflexivity].
Qed.

Lemma ev_bool_frame : forall S w b l, Forall (framed S w) l ->
  forall en1 en2 tr, agree_on S en1 en2 -> ev_bool (eval w) b en1 l tr = ev_bool (eval w) b en2 l tr.
Proof.
  intros S w b l H. induction H as [|a l Ha _ IH]; intros en1 en2 tr A; cbn [ev_bool]; [reflexivity|].
  rewrite (Ha en1 en2 tr A). destruct (eval w a en2 tr) as [[v tr1]|]; [|reflexivity].
  destruct l; [reflexivity|]. destruct (Bool.eqb (truthy v) b); [apply IH, A | reflexivity].
Qed.

(* items of a dict display: XKV / XDStar wrap framed expressions *)
Definition framed_item (S : nat -> bool) (w : world) (it : cx) : Prop :=
  match it with
  | XKV k v => framed S w k /\ framed S w v
  | XDStar v => framed S w v
  | _ => True
  end.

Lemma ev_items_frame : forall S w l, Forall (framed_item S w) l ->
  forall en1 en2 d tr, agree_on S en1 en2 -> ev_items (eval w) en1 l d tr = ev_items (eval w) en2 l d tr.
Proof.
  intros S w l H. induction H as [|a l Ha _ IH]; intros en1 en2 d tr A; cbn [ev_items]; [reflexivity|].
  destruct a; try reflexivity; cbn [framed_item] in Ha.
  - destruct Ha as [Hk Hv]. rewrite (Hk en1 en2 tr A). destruct (eval w a1 en2 tr) as [[kv tr1]|]; [|reflexivity].
    rewrite (Hv en1 en2 tr1 A). destruct (eval w a2 en2 tr1) as [[vv tr2]|]; [|reflexivity].
    destruct (hashable kv); [apply IH, A | reflexivity].
  - rewrite (Ha en1 en2 tr A). destruct (eval w a en2 tr) as [[[] tr1]|]; try reflexivity. apply IH, A.
Qed.

Definition framed_gen (S : nat -> bool) (w : world) (g : cx) : Prop :=
  match g with
  | XGen _ it ifs => framed S w it /\ Forall (framed S w) ifs
  | _ => True
  end.

Lemma clause_body_rel : forall S w ifs (k1 k2 : env -> trace -> list val -> res),
  Forall (framed S w) ifs ->
  (forall en1 en2 tr acc, agree_on S en1 en2 -> res_rel S (k1 en1 tr acc) (k2 en2 tr acc)) ->
  forall en1 en2 tr acc, agree_on S en1 en2 ->
  res_rel S (clause_body (eval w) ifs k1 en1 tr acc) (clause_body (eval w) ifs k2 en2 tr acc).
Proof.
  intros S w ifs k1 k2 Hifs Hk en1 en2 tr acc A. unfold clause_body.
  rewrite (ev_conds_frame S w ifs Hifs en1 en2 tr A).
  destruct (ev_conds (eval w) en2 ifs tr) as [[[] tr1]|]; [apply Hk, A | cbn; auto | exact I].
Qed.

Lemma run_gens_rel : forall S w (l1 l2 : env -> trace -> list val -> res) gens,
  Forall (framed_gen S w) gens ->
  (forall en1 en2 tr acc, agree_on S en1 en2 -> res_rel S (l1 en1 tr acc) (l2 en2 tr acc)) ->
  forall en1 en2 tr acc, agree_on S en1 en2 ->
  res_rel S (run_gens (eval w) l1 gens en1 tr acc) (run_gens (eval w) l2 gens en2 tr acc).
Proof.
  intros S w l1 l2 gens H Hl. induction H as [|g gens Hg _ IH]; intros en1 en2 tr acc A; cbn [run_gens].
  - apply Hl, A.
  - destruct g; try exact I. cbn [framed_gen] in Hg. destruct Hg as [Hit Hifs].
    rewrite (Hit en1 en2 tr A). destruct (eval w g en2 tr) as [[v tr1]|]; [|exact I].
    destruct (items_of v) as [xs|]; [|exact I].
    apply iter_items_rel; [|exact A]. intros e1 e2 tr' acc' A'.
    apply clause_body_rel; [exact Hifs | exact IH | exact A'].
Qed.

Lemma leaf_of_rel : forall S w k elt dval, framed S w elt -> framed S w dval ->
  forall en1 en2 tr acc, agree_on S en1 en2 ->
  res_rel S (leaf_of (eval w) k elt dval en1 tr acc) (leaf_of (eval w) k elt dval en2 tr acc).
Proof.
  intros S w k elt dval He Hd en1 en2 tr acc A. unfold leaf_of.
  rewrite (He en1 en2 tr A). destruct (eval w elt en2 tr) as [[v tr1]|]; [|exact I].
  destruct k; try (cbn; auto).
  rewrite (Hd en1 en2 tr1 A). destruct (eval w dval en2 tr1) as [[dv tr2]|]; [cbn; auto | exact I].
Qed.

Lemma lam_items_ext : forall (f1 f2 : val -> trace -> option (list val * trace)),
  (forall x tr, f1 x tr = f2 x tr) -> forall xs tr acc, lam_items f1 xs tr acc = lam_items f2 xs tr acc.
Proof.
  intros f1 f2 H. induction xs as [|x xs IH]; intros tr acc; cbn [lam_items]; [reflexivity|].
  rewrite H. destruct (f2 x tr) as [[ys tr']|]; [apply IH | reflexivity].
Qed.

Lemma existsb_mentions_in : forall y (l : list cx) a, List.In a l -> mentions y a = true -> existsb (mentions y) l = true.
Proof. intros y l a Hin H. apply existsb_exists. exists a. split; assumption. Qed.

(* an expression only depends on the names it mentions *)
Lemma sub_existsb : forall (S : nat -> bool) (l : list cx),
  (forall y, existsb (mentions y) l = true -> S y = true) ->
  forall a, List.In a l -> forall y, mentions y a = true -> S y = true.
Proof. intros S l H a Ha y Hy. apply H. eapply existsb_mentions_in; eassumption. Qed.

Definition frame_all (w : world) (e : cx) : Prop :=
  forall S : nat -> bool, (forall y, mentions y e = true -> S y = true) ->
  framed S w e /\ framed_item S w e /\ framed_gen S w e.

Lemma Forall_frame : forall w (S : nat -> bool) l, Forall (frame_all w) l ->
  (forall y, existsb (mentions y) l = true -> S y = true) ->
  Forall (framed S w) l /\ Forall (framed_item S w) l /\ Forall (framed_gen S w) l.
Proof.
  intros w S l H HS. rewrite !Forall_forall. rewrite Forall_forall in H.
  repeat split; intros a Ha; destruct (H a Ha S (sub_existsb S l HS a Ha)) as [H1 [H2 H3]]; assumption.
Qed.

Lemma eval_frame_all : forall w e, frame_all w e.
Proof.
  intros w e. induction e using cx_ind'; intros S HS; cbn [mentions] in HS.
  - split; [|split; exact I]. intros en1 en2 tr A. reflexivity.
  - split; [|split; exact I]. intros en1 en2 tr A. cbn [eval]. rewrite (A x); [reflexivity|].
    apply HS. apply Nat.eqb_refl.
  - destruct (Forall_frame w S args H HS) as [HF _]. repeat split; try exact I.
    intros en1 en2 tr A. cbn [eval]. rewrite (ev_list_frame S w args HF en1 en2 tr A). reflexivity.
  - destruct (Forall_frame w S args H HS) as [HF _]. repeat split; try exact I.
    intros en1 en2 tr A. cbn [eval]. rewrite (ev_list_frame S w args HF en1 en2 tr A). reflexivity.
  - destruct (Forall_frame w S args H HS) as [HF _]. repeat split; try exact I.
    intros en1 en2 tr A. cbn [eval]. rewrite (ev_list_frame S w args HF en1 en2 tr A). reflexivity.
  - destruct (Forall_frame w S args H HS) as [_ [HF _]]. repeat split; try exact I.
    intros en1 en2 tr A. cbn [eval]. rewrite (ev_items_frame S w args HF en1 en2 [] tr A). reflexivity.
  - assert (H1 : framed S w e1) by (apply IHe1; intros y Hy; apply HS; rewrite Hy; reflexivity).
    assert (H2 : framed S w e2) by (apply IHe2; intros y Hy; apply HS; rewrite Hy; apply orb_true_r).
    split; [|split; exact I]. intros en1 en2 tr A. cbn [eval]. rewrite (H1 en1 en2 tr A).
    destruct (eval w e1 en2 tr) as [[a tr1]|]; [|reflexivity]. rewrite (H2 en1 en2 tr1 A). reflexivity.
  - assert (H1 : framed S w e) by (apply IHe; exact HS).
    split; [|split; exact I]. intros en1 en2 tr A. cbn [eval]. rewrite (H1 en1 en2 tr A). reflexivity.
  - assert (H1 : framed S w e) by (apply IHe; exact HS).
    split; [|split; exact I]. intros en1 en2 tr A. cbn [eval]. rewrite (H1 en1 en2 tr A). reflexivity.
  - destruct (Forall_frame w S args H HS) as [HF _]. split; [|split; exact I].
    intros en1 en2 tr A. cbn [eval]. apply (ev_bool_frame S); assumption.
  - (* XComp *)
    assert (He : framed S w e1) by (apply IHe1; intros y Hy; apply HS; rewrite Hy; reflexivity).
    assert (Hd : framed S w e2)
      by (apply IHe2; intros y Hy; apply HS; rewrite Hy; rewrite orb_true_r; reflexivity).
    assert (Hg : forall y, existsb (mentions y) gens = true -> S y = true)
      by (intros y Hy; apply HS; rewrite Hy; apply orb_true_r).
    destruct (Forall_frame w S gens H Hg) as [_ [_ HG]].
    split; [|split; exact I]. intros en1 en2 tr A. cbn [eval].
    destruct gens as [|g rest]; [reflexivity|]. destruct g; try reflexivity.
    inversion HG as [|? ? Hg1 HGr]; subst. cbn [framed_gen] in Hg1. destruct Hg1 as [Hit Hifs].
    rewrite (Hit en1 en2 tr A). destruct (eval w g en2 tr) as [[v tr1]|]; [|reflexivity].
    destruct (items_of v) as [xs|]; [|reflexivity].
    set (ts := gens_targets (XGen t g ifs :: rest)).
    pose proof (iter_items_rel S
      (clause_body (eval w) ifs (run_gens (eval w) (leaf_of (eval w) k e1 e2) rest))
      (clause_body (eval w) ifs (run_gens (eval w) (leaf_of (eval w) k e1 e2) rest)) t) as R.
    specialize (R (fun e1' e2' tr' acc' A' =>
      clause_body_rel S w ifs _ _ Hifs
        (run_gens_rel S w _ _ rest HGr (leaf_of_rel S w k e1 e2 He Hd)) e1' e2' tr' acc' A')).
    specialize (R xs (mask ts en1) (mask ts en2) tr1 [] (agree_on_mask S ts en1 en2 A)).
    unfold res_rel in R.
    destruct (iter_items _ t xs (mask ts en1) tr1 []) as [[[e1' a1] t1]|],
             (iter_items _ t xs (mask ts en2) tr1 []) as [[[e2' a2] t2]|]; try contradiction; [|reflexivity].
    destruct R as [-> [-> _]]. reflexivity.
  - (* XGen *)
    assert (Hit : framed S w e)
      by (apply IHe; intros y Hy; apply HS; rewrite Hy; rewrite orb_true_r; reflexivity).
    assert (Hg : forall y, existsb (mentions y) ifs = true -> S y = true)
      by (intros y Hy; apply HS; rewrite Hy; apply orb_true_r).
    destruct (Forall_frame w S ifs H Hg) as [HF _].
    split; [|split; [exact I | split; assumption]]. intros en1 en2 tr A. reflexivity.
  - (* XMap *)
    assert (Hb : framed S w e1) by (apply IHe1; intros y Hy; apply HS; rewrite Hy; reflexivity).
    assert (Hi : framed S w e2) by (apply IHe2; intros y Hy; apply HS; rewrite Hy; apply orb_true_r).
    split; [|split; exact I]. intros en1 en2 tr A. cbn [eval]. rewrite (Hi en1 en2 tr A).
    destruct (eval w e2 en2 tr) as [[v tr1]|]; [|reflexivity]. destruct (items_of v) as [xs|]; [|reflexivity].
    erewrite lam_items_ext; [reflexivity|]. intros x tr'. cbn beta.
    rewrite (Hb (upd en1 a x) (upd en2 a x) tr' (agree_on_upd S en1 en2 a x A)). reflexivity.
  - (* XFilter *)
    assert (Hb : framed S w e1) by (apply IHe1; intros y Hy; apply HS; rewrite Hy; reflexivity).
    assert (Hi : framed S w e2) by (apply IHe2; intros y Hy; apply HS; rewrite Hy; apply orb_true_r).
    split; [|split; exact I]. intros en1 en2 tr A. cbn [eval]. rewrite (Hi en1 en2 tr A).
    destruct (eval w e2 en2 tr) as [[v tr1]|]; [|reflexivity]. destruct (items_of v) as [xs|]; [|reflexivity].
    erewrite lam_items_ext; [reflexivity|]. intros x tr'. cbn beta.
    rewrite (Hb (upd en1 a x) (upd en2 a x) tr' (agree_on_upd S en1 en2 a x A)). reflexivity.
  - (* XKV *)
    assert (H1 : framed S w e1) by (apply IHe1; intros y Hy; apply HS; rewrite Hy; reflexivity).
    assert (H2 : framed S w e2) by (apply IHe2; intros y Hy; apply HS; rewrite Hy; apply orb_true_r).
    split; [|split; [split; assumption | exact I]]. intros en1 en2 tr A. reflexivity.
  - assert (H1 : framed S w e) by (apply IHe; exact HS).
    split; [|split; [exact H1 | exact I]]. intros en1 en2 tr A. reflexivity.
Qed.

Lemma eval_frame : forall w e en1 en2 tr,
  (forall y, mentions y e = true -> en1 y = en2 y) -> eval w e en1 tr = eval w e en2 tr.
Proof.
  intros w e en1 en2 tr H. destruct (eval_frame_all w e (fun y => mentions y e) (fun y Hy => Hy)) as [F _].
  apply F. exact H.
Qed.

(* =========================================================================================== *)
(* Part 2: the loop nest of a site is the statement built from its clauses *)

Section StInd.
  Variable P : st -> Prop.
  Hypothesis HAssign : forall x e, P (SAssign x e).
  Hypothesis HMeth : forall r m e, P (SMeth r m e).
  Hypothesis HAug : forall x o e, P (SAug x o e).
  Hypothesis HSetItem : forall x k v, P (SSetItem x k v).
  Hypothesis HExpr : forall e, P (SExpr e).
  Hypothesis HFor : forall t it body orelse, Forall P body -> Forall P orelse -> P (SFor t it body orelse).
  Hypothesis HIf : forall c body orelse, Forall P body -> Forall P orelse -> P (SIf c body orelse).

  Fixpoint st_ind' (s : st) : P s :=
    let all := fix all (l : list st) : Forall P l :=
      match l with
      | [] => Forall_nil P
      | a :: tl => Forall_cons a (st_ind' a) (all tl)
      end in
    match s with
    | SAssign x e => HAssign x e
    | SMeth r m e => HMeth r m e
    | SAug x o e => HAug x o e
    | SSetItem x k v => HSetItem x k v
    | SExpr e => HExpr e
    | SFor t it body orelse => HFor t it body orelse (all body) (all orelse)
    | SIf c body orelse => HIf c body orelse (all body) (all orelse)
    end.
End StInd.

(* the body of a for / if nest: conditions around a block, clauses around a block *)
Fixpoint wrap_ifs (ifs : list cx) (b : list st) : list st :=
  match ifs with
  | [] => b
  | c :: cs => [SIf c (wrap_ifs cs b) []]
  end.

Fixpoint build (cl : list clause) (leaf : list st) : list st :=
  match cl with
  | [] => leaf
  | (t, it, ifs) :: cl' => [SFor t it (wrap_ifs ifs (build cl' leaf)) []]
  end.

Lemma collect_sound : forall s ifs cl leaf,
  collect s = (ifs, cl, leaf) -> [s] = wrap_ifs ifs (build cl leaf).
Proof.
  intros s. induction s using st_ind'; intros ifs cl leaf Hc;
    try (cbn in Hc; inversion Hc; subst; reflexivity).
  - (* SFor *)
    cbn [collect] in Hc. destruct orelse; [|inversion Hc; subst; reflexivity].
    destruct body as [|b [|b2 body]]; try (inversion Hc; subst; reflexivity).
    destruct (collect b) as [[ifs' cl'] leaf'] eqn:E. inversion Hc; subst.
    inversion H as [|? ? Hb _]; subst. cbn [wrap_ifs build]. rewrite <- (Hb _ _ _ E). reflexivity.
  - (* SIf *)
    cbn [collect] in Hc. destruct orelse; [|inversion Hc; subst; reflexivity].
    destruct body as [|b [|b2 body]]; try (inversion Hc; subst; reflexivity).
    destruct (collect b) as [[ifs' cl'] leaf'] eqn:E. inversion Hc; subst.
    inversion H as [|? ? Hb _]; subst. cbn [wrap_ifs build]. rewrite <- (Hb _ _ _ E). reflexivity.
Qed.

Lemma loop_shape_sound : forall s cl leaf, loop_shape s = Some (cl, leaf) -> [s] = build cl [leaf].
Proof.
  intros s cl leaf H. unfold loop_shape in H.
  destruct s; try discriminate. destruct body as [|b [|? ?]]; try discriminate. destruct orelse; try discriminate.
  destruct (collect (SFor t it [b] [])) as [[ifs cl'] lf] eqn:E.
  destruct lf as [|l1 [|? ?]]; try discriminate. inversion H; subst.
  pose proof (collect_sound _ _ _ _ E) as Hs.
  cbn [collect] in E. destruct (collect b) as [[i2 c2] l2]. inversion E; subst. exact Hs.
Qed.

(* ---- execution of blocks, conditions and nests ---- *)

Lemma exec_block1 : forall w s en tr, exec_block w [s] en tr = exec w s en tr.
Proof. intros. cbn [exec_block]. destruct (exec w s en tr) as [[e t]|]; reflexivity. Qed.

Lemma exec_block_app : forall w l1 l2 en tr,
  exec_block w (l1 ++ l2) en tr =
  match exec_block w l1 en tr with Some (en', tr') => exec_block w l2 en' tr' | None => None end.
Proof.
  induction l1 as [|s l1 IH]; intros l2 en tr; [reflexivity|]. cbn [app exec_block].
  destruct (exec w s en tr) as [[e t]|]; [apply IH | reflexivity].
Qed.

(* the local block executor inside exec is exec_block *)
Lemma exec_For : forall w t it body orelse en tr,
  exec w (SFor t it body orelse) en tr =
  match eval w it en tr with
  | Some (v, tr1) =>
      match items_of v with
      | Some xs => match for_items (exec_block w body) t xs en tr1 with
                   | Some (en', tr2) => exec_block w orelse en' tr2
                   | None => None
                   end
      | None => None
      end
  | None => None
  end.
Proof. reflexivity. Qed.

Lemma exec_If : forall w c body orelse en tr,
  exec w (SIf c body orelse) en tr =
  match eval w c en tr with
  | Some (cv, tr1) => if truthy cv then exec_block w body en tr1 else exec_block w orelse en tr1
  | None => None
  end.
Proof. reflexivity. Qed.

Lemma exec_wrap_ifs : forall w ifs b en tr,
  exec_block w (wrap_ifs ifs b) en tr =
  match ev_conds (eval w) en ifs tr with
  | Some (true, tr1) => exec_block w b en tr1
  | Some (false, tr1) => Some (en, tr1)
  | None => None
  end.
Proof.
  induction ifs as [|c cs IH]; intros b en tr; cbn [wrap_ifs ev_conds]; [reflexivity|].
  rewrite exec_block1, exec_If. destruct (eval w c en tr) as [[cv tr1]|]; [|reflexivity].
  destruct (truthy cv); [apply IH | reflexivity].
Qed.

(* `if a and b and c` = `if a: if b: if c` *)
Lemma ev_conds_and : forall w en ifs tr,
  ev_conds (eval w) en (and_ifs ifs) tr = ev_conds (eval w) en ifs tr.
Proof.
  intros w en ifs tr. destruct ifs as [|a [|b ifs]]; try reflexivity.
  unfold and_ifs. cbn [ev_conds eval].
  assert (G : forall l tr0,
    match ev_bool (eval w) true en l tr0 with
    | Some (cv, tr1) => if truthy cv then Some (true, tr1) else Some (false, tr1)
    | None => None
    end = match l with [] => None | _ => ev_conds (eval w) en l tr0 end).
  { induction l as [|c l IH]; intros tr0; [reflexivity|]. cbn [ev_bool ev_conds].
    destruct (eval w c en tr0) as [[v t1]|]; [|reflexivity].
    destruct l as [|c2 l].
    - cbn [ev_conds]. destruct (truthy v); reflexivity.
    - destruct (truthy v) eqn:Tv; cbn [Bool.eqb]; [apply IH | rewrite Tv; reflexivity]. }
  specialize (G (a :: b :: ifs) tr). cbn [ev_conds] in G |- *. exact G.
Qed.

(* =========================================================================================== *)
(* Part 3: a for / if nest that fills a collection  ~  the clauses of a comprehension *)

Lemma memn_app : forall y a b, memn y (a ++ b) = memn y a || memn y b.
Proof. intros. unfold memn. apply existsb_app. Qed.

Lemma memn_In : forall y l, memn y l = true <-> List.In y l.
Proof.
  intros y l. unfold memn. rewrite existsb_exists. split.
  - intros [z [Hz E]]. apply Nat.eqb_eq in E. subst. exact Hz.
  - intros H. exists y. split; [exact H | apply Nat.eqb_refl].
Qed.

Lemma bind_names_other : forall xs vs en en' y, bind_names xs vs en = Some en' -> memn y xs = false -> en' y = en y.
Proof.
  induction xs as [|x xs IH]; intros vs en en' y Hb Hy; destruct vs as [|v vs]; cbn [bind_names] in Hb; try discriminate.
  - inversion Hb. reflexivity.
  - cbn [memn existsb] in Hy. apply orb_false_iff in Hy as [H1 H2]. rewrite (IH _ _ _ _ Hb H2).
    unfold upd. rewrite H1. reflexivity.
Qed.

Lemma bind_other : forall t v en en' y, bind t v en = Some en' -> memn y (tnames t) = false -> en' y = en y.
Proof.
  intros t v en en' y Hb Hy. destruct t as [x|xs]; cbn [bind tnames] in *.
  - inversion Hb; subst. unfold upd. cbn [memn existsb] in Hy. rewrite orb_false_r in Hy. rewrite Hy. reflexivity.
  - destruct (items_of v); [|discriminate]. eapply bind_names_other; eassumption.
Qed.

Lemma bind_names_same : forall xs vs en1 en2 e1 e2 y,
  bind_names xs vs en1 = Some e1 -> bind_names xs vs en2 = Some e2 ->
  (memn y xs = true \/ en1 y = en2 y) -> e1 y = e2 y.
Proof.
  induction xs as [|x xs IH]; intros vs en1 en2 e1 e2 y H1 H2 Hy; destruct vs as [|v vs]; cbn [bind_names] in *; try discriminate.
  - inversion H1; inversion H2; subst. destruct Hy as [Hy|Hy]; [discriminate | exact Hy].
  - eapply IH; [exact H1 | exact H2 |].
    destruct (memn y xs) eqn:E; [left; reflexivity|]. right. unfold upd.
    destruct (Nat.eqb y x) eqn:E2; [reflexivity|].
    destruct Hy as [Hy|Hy]; [|exact Hy]. cbn [memn existsb] in Hy. rewrite E2 in Hy. cbn in Hy. unfold memn in E. congruence.
Qed.

(* after binding the same value to the same target, two environments agree on the target's names too *)
Lemma bind_agree_more : forall S t v en1 en2 e1 e2,
  bind t v en1 = Some e1 -> bind t v en2 = Some e2 -> agree_on S en1 en2 ->
  agree_on (fun y => S y || memn y (tnames t)) e1 e2.
Proof.
  intros S t v en1 en2 e1 e2 H1 H2 A y Hy. destruct t as [x|xs]; cbn [bind tnames] in *.
  - inversion H1; inversion H2; subst. unfold upd. destruct (Nat.eqb y x) eqn:E; [reflexivity|].
    apply A. cbn [memn existsb] in Hy. rewrite E in Hy. cbn in Hy. rewrite orb_false_r in Hy. exact Hy.
  - destruct (items_of v) as [vs|]; [|discriminate]. eapply bind_names_same; [exact H1 | exact H2 |].
    destruct (memn y xs) eqn:E; [left; reflexivity | right]. apply A. rewrite orb_false_r in Hy. exact Hy.
Qed.

Section Nest.
  Variable w : world.
  Variable x : nat.                  (* the variable that holds the collection *)
  Variables F T : list nat.          (* names only one side binds (nobody reads them); all loop targets *)
  Variable W : list nat.             (* what the leaf writes besides x *)
  Variable leaf : list st.
  Variable kleaf : env -> trace -> list val -> res.
  Variable Inv : val -> list val -> Prop.      (* the collection in x  vs  the items collected so far *)
  Variable join : bool.

  (* the names on which the loop and the comprehension agree once the targets in Bd are bound *)
  Definition SB (Bd : list nat) : nat -> bool :=
    fun y => negb (Nat.eqb y x) && negb (memn y F) && (negb (memn y T) || memn y Bd).

  Definition bad (Bd : list nat) : list nat := x :: F ++ filter (fun y => negb (memn y Bd)) T.
  Definition okx (Bd : list nat) (e : cx) : bool := forallb (fun y => negb (mentions y e)) (bad Bd).

  Lemma okx_spec : forall Bd e, okx Bd e = true -> forall y, mentions y e = true -> SB Bd y = true.
  Proof.
    intros Bd e H y Hy. unfold okx in H. rewrite forallb_forall in H. unfold SB.
    destruct (Nat.eqb y x) eqn:E1.
    { apply Nat.eqb_eq in E1. subst. specialize (H x (or_introl eq_refl)). rewrite Hy in H. discriminate. }
    destruct (memn y F) eqn:E2.
    { apply memn_In in E2. specialize (H y). unfold bad in H. rewrite Hy in H.
      assert (List.In y (x :: F ++ filter (fun y0 => negb (memn y0 Bd)) T)) by (right; apply in_or_app; left; exact E2).
      specialize (H H0). discriminate. }
    cbn. destruct (memn y T) eqn:E3; [|reflexivity]. cbn. destruct (memn y Bd) eqn:E4; [reflexivity|].
    apply memn_In in E3. specialize (H y). unfold bad in H. rewrite Hy in H.
    assert (List.In y (x :: F ++ filter (fun y0 => negb (memn y0 Bd)) T)).
    { right. apply in_or_app. right. apply filter_In. split; [exact E3 | rewrite E4; reflexivity]. }
    specialize (H H0). discriminate.
  Qed.

  Lemma okx_frame : forall Bd e el ec tr, okx Bd e = true -> agree_on (SB Bd) el ec ->
    eval w e el tr = eval w e ec tr.
  Proof. intros Bd e el ec tr H A. apply eval_frame. intros y Hy. apply A. eapply okx_spec; eassumption. Qed.

  Lemma okx_conds : forall Bd ifs el ec tr, forallb (okx Bd) ifs = true -> agree_on (SB Bd) el ec ->
    ev_conds (eval w) el ifs tr = ev_conds (eval w) ec ifs tr.
  Proof.
    induction ifs as [|c cs IH]; intros el ec tr H A; cbn [ev_conds]; [reflexivity|].
    cbn [forallb] in H. apply andb_true_iff in H as [H1 H2]. rewrite (okx_frame Bd c el ec tr H1 A).
    destruct (eval w c ec tr) as [[cv tr1]|]; [|reflexivity]. destruct (truthy cv); [apply IH; assumption | reflexivity].
  Qed.

  Fixpoint scoped (Bd : list nat) (cl : list clause) : bool :=
    match cl with
    | [] => true
    | (t, it, ifs) :: cl' =>
        okx Bd it && forallb (okx (Bd ++ tnames t)) ifs && scoped (Bd ++ tnames t) cl'
    end.

  Lemma SB_mono : forall Bd Bd' y, (forall z, memn z Bd = true -> memn z Bd' = true) -> SB Bd y = true -> SB Bd' y = true.
  Proof.
    intros Bd Bd' y H. unfold SB. destruct (Nat.eqb y x); [auto|]. destruct (memn y F); [auto|]. cbn.
    destruct (memn y T); [|auto]. cbn. apply H.
  Qed.

  (* what the leaf does on both sides *)
  Hypothesis leaf_ok : forall Bd el ec tr acc c el' tr',
    (forall y, memn y T = true -> memn y Bd = true) ->
    agree_on (SB Bd) el ec -> el x = Some c -> Inv c acc ->
    exec_block w leaf el tr = Some (el', tr') ->
    exists ec' acc' c', kleaf ec tr acc = Some (ec', acc', tr') /\ el' x = Some c' /\ Inv c' acc'
      /\ agree_on (SB Bd) el' ec'
      /\ (forall y, y <> x -> memn y W = false -> el' y = el y).

  Hypothesis x_not_target : memn x T = false.
  Hypothesis F_not_target : forall y, memn y F = true -> memn y T = false.

  Definition sim_post (Bd : list nat) (el el' : env) (tr' : trace) (r : res) : Prop :=
    exists ec' acc' c', r = Some (ec', acc', tr') /\ el' x = Some c' /\ Inv c' acc' /\ agree_on (SB Bd) el' ec'
      /\ (forall y, y <> x -> memn y W = false -> memn y T = false -> el' y = el y).

  (* one clause, its items already evaluated *)
  Lemma items_sim : forall cl t ifs Bd,
    (forall el ec tr acc c el' tr', agree_on (SB (Bd ++ tnames t)) el ec -> el x = Some c -> Inv c acc ->
       exec_block w (build cl leaf) el tr = Some (el', tr') ->
       sim_post (Bd ++ tnames t) el el' tr' (run_gens (eval w) kleaf (map (gen_of join) cl) ec tr acc)) ->
    forallb (okx (Bd ++ tnames t)) ifs = true ->
    (forall y, memn y (tnames t) = true -> memn y T = true) ->
    forall xs el ec tr acc c el' tr', agree_on (SB Bd) el ec -> el x = Some c -> Inv c acc ->
      for_items (exec_block w (wrap_ifs ifs (build cl leaf))) t xs el tr = Some (el', tr') ->
      sim_post Bd el el' tr'
        (iter_items (clause_body (eval w) (if join then and_ifs ifs else ifs)
                       (run_gens (eval w) kleaf (map (gen_of join) cl))) t xs ec tr acc).
  Proof.
    intros cl t ifs Bd IH Hsc2 Ht.
    induction xs as [|v1 xs IHxs]; intros el ec tr1 acc c el' tr' A Hx HI Hfor; cbn [for_items iter_items] in *.
    - inversion Hfor; subst. exists ec, acc, c. repeat split; try assumption; try reflexivity.
    - destruct (bind t v1 el) as [el1|] eqn:Hb1; [|discriminate].
      pose proof (agree_on_bind (SB Bd) t v1 el ec A) as Hb. rewrite Hb1 in Hb.
      destruct (bind t v1 ec) as [ec1|] eqn:Hb2; [|contradiction].
      assert (A1 : agree_on (SB (Bd ++ tnames t)) el1 ec1).
      { pose proof (bind_agree_more (SB Bd) t v1 el ec el1 ec1 Hb1 Hb2 A) as A1. intros y Hy. apply A1.
        unfold SB in *. destruct (Nat.eqb y x); [discriminate|]. destruct (memn y F); [discriminate|]. cbn in *.
        rewrite memn_app in Hy. destruct (memn y T); cbn in *; [|reflexivity].
        destruct (memn y Bd); cbn in *; [reflexivity | exact Hy]. }
      assert (Hx1 : el1 x = Some c).
      { rewrite (bind_other t v1 el el1 x Hb1); [exact Hx|].
        destruct (memn x (tnames t)) eqn:E; [|reflexivity]. rewrite (Ht x E) in x_not_target. discriminate. }
      rewrite exec_wrap_ifs in Hfor.
      unfold clause_body at 1.
      assert (Hc : ev_conds (eval w) ec1 (if join then and_ifs ifs else ifs) tr1 = ev_conds (eval w) el1 ifs tr1).
      { destruct join; [rewrite ev_conds_and|]; symmetry; apply (okx_conds (Bd ++ tnames t)); assumption. }
      rewrite Hc. destruct (ev_conds (eval w) el1 ifs tr1) as [[[] tr2]|]; [| |discriminate].
      + destruct (exec_block w (build cl leaf) el1 tr2) as [[el2 tr3]|] eqn:Hin; [|discriminate].
        destruct (IH el1 ec1 tr2 acc c el2 tr3 A1 Hx1 HI Hin) as [ec2 [acc2 [c2 [G1 [G2 [G3 [G4 G5]]]]]]].
        rewrite G1.
        assert (A2 : agree_on (SB Bd) el2 ec2).
        { intros y Hy. apply G4. eapply SB_mono; [|exact Hy]. intros z Hz. rewrite memn_app, Hz. reflexivity. }
        destruct (IHxs el2 ec2 tr3 acc2 c2 el' tr' A2 G2 G3 Hfor) as [ec3 [acc3 [c3 [K1 [K2 [K3 [K4 K5]]]]]]].
        exists ec3, acc3, c3. repeat split; try assumption.
        intros y Hy HF HT. rewrite (K5 y Hy HF HT), (G5 y Hy HF HT). apply (bind_other t v1 el el1 y Hb1).
        destruct (memn y (tnames t)) eqn:E; [|reflexivity]. rewrite (Ht y E) in HT. discriminate.
      + assert (A2 : agree_on (SB Bd) el1 ec1).
        { intros y Hy. apply A1. eapply SB_mono; [|exact Hy]. intros z Hz. rewrite memn_app, Hz. reflexivity. }
        destruct (IHxs el1 ec1 tr2 acc c el' tr' A2 Hx1 HI Hfor) as [ec3 [acc3 [c3 [K1 [K2 [K3 [K4 K5]]]]]]].
        exists ec3, acc3, c3. repeat split; try assumption.
        intros y Hy HF HT. rewrite (K5 y Hy HF HT). apply (bind_other t v1 el el1 y Hb1).
        destruct (memn y (tnames t)) eqn:E; [|reflexivity]. rewrite (Ht y E) in HT. discriminate.
  Qed.

  Lemma nest_sim : forall cl Bd el ec tr acc c el' tr',
    scoped Bd cl = true ->
    (forall y, memn y T = true -> memn y Bd = true \/ memn y (clause_targets cl) = true) ->
    (forall y, memn y (clause_targets cl) = true -> memn y T = true) ->
    agree_on (SB Bd) el ec -> el x = Some c -> Inv c acc ->
    exec_block w (build cl leaf) el tr = Some (el', tr') ->
    sim_post Bd el el' tr' (run_gens (eval w) kleaf (map (gen_of join) cl) ec tr acc).
  Proof.
    induction cl as [|[[t it] ifs] cl IH]; intros Bd el ec tr acc c el' tr' Hsc Hcov Hsub A Hx HI Hex.
    - cbn [build map run_gens] in *.
      assert (Hall : forall y, memn y T = true -> memn y Bd = true).
      { intros y Hy. destruct (Hcov y Hy) as [H|H]; [exact H | discriminate]. }
      destruct (leaf_ok Bd el ec tr acc c el' tr' Hall A Hx HI Hex) as [ec' [acc' [c' [H1 [H2 [H3 [H4 H5]]]]]]].
      exists ec', acc', c'. repeat split; try assumption. intros y Hy HF _. apply H5; assumption.
    - cbn [build map gen_of run_gens] in *. cbn [scoped] in Hsc.
      apply andb_true_iff in Hsc as [Hsc Hsc3]. apply andb_true_iff in Hsc as [Hsc1 Hsc2].
      rewrite exec_block1, exec_For in Hex. rewrite <- (okx_frame Bd it el ec tr Hsc1 A).
      destruct (eval w it el tr) as [[v tr1]|]; [|discriminate].
      destruct (items_of v) as [xs|]; [|discriminate].
      destruct (for_items (exec_block w (wrap_ifs ifs (build cl leaf))) t xs el tr1) as [[el1 tr2]|] eqn:Hfor; [|discriminate].
      cbn [exec_block] in Hex. inversion Hex; subst el1 tr2. clear Hex.
      assert (Ht : forall y, memn y (tnames t) = true -> memn y T = true).
      { intros y Hy. apply Hsub. cbn [clause_targets map concat fst]. rewrite memn_app, Hy. reflexivity. }
      apply (items_sim cl t ifs Bd) with (c := c); try assumption.
      intros el0 ec0 tr0 acc0 c0 el0' tr0' A0 Hx0 HI0 Hex0.
      apply (IH (Bd ++ tnames t)) with (c := c0); try assumption.
      + intros y Hy. destruct (Hcov y Hy) as [H|H]; [left; rewrite memn_app, H; reflexivity|].
        cbn [clause_targets map concat fst] in H. rewrite memn_app in H. apply orb_true_iff in H as [H|H].
        * left. rewrite memn_app, H. apply orb_true_r.
        * right. exact H.
      + intros y Hy. apply Hsub. cbn [clause_targets map concat fst]. rewrite memn_app. unfold clause_targets in Hy.
        rewrite Hy. apply orb_true_r.
  Qed.

  (* the whole nest, from the environment in which the comprehension is evaluated: the first iterable is
     evaluated outside the comprehension (it may read anything but x), the names in M are masked *)
  Definition top_scoped (cl : list clause) : bool :=
    match cl with
    | [] => false
    | (t, it, ifs) :: cl' =>
        negb (mentions x it) && forallb (fun y => negb (mentions y it)) F
        && forallb (okx (tnames t)) ifs && scoped (tnames t) cl'
    end.

  Lemma top_sim : forall t it ifs cl M en el c tr el' tr',
    T = clause_targets ((t, it, ifs) :: cl) ->
    top_scoped ((t, it, ifs) :: cl) = true ->
    (forall y, memn y M = true -> memn y T = true \/ memn y F = true) ->
    (forall y, y <> x -> memn y F = false -> el y = en y) -> el x = Some c -> Inv c [] ->
    exec_block w (build ((t, it, ifs) :: cl) leaf) el tr = Some (el', tr') ->
    exists v tr1 xs ec' acc c',
      eval w it en tr = Some (v, tr1) /\ items_of v = Some xs
      /\ iter_items (clause_body (eval w) (if join then and_ifs ifs else ifs)
                       (run_gens (eval w) kleaf (map (gen_of join) cl))) t xs (mask M en) tr1 [] = Some (ec', acc, tr')
      /\ el' x = Some c' /\ Inv c' acc
      /\ (forall y, y <> x -> memn y W = false -> memn y T = false -> el' y = el y).
  Proof.
    intros t it ifs cl M en el c tr el' tr' HT Hsc HM Hel Hx HI Hex.
    cbn [top_scoped] in Hsc. apply andb_true_iff in Hsc as [Hsc Hs4]. apply andb_true_iff in Hsc as [Hsc Hs3].
    apply andb_true_iff in Hsc as [Hs1 Hs2]. apply negb_true_iff in Hs1.
    cbn [build] in Hex. rewrite exec_block1, exec_For in Hex.
    assert (Hit : eval w it el tr = eval w it en tr).
    { apply eval_frame. intros y Hy. apply Hel.
      - intros ->. rewrite Hs1 in Hy. discriminate.
      - destruct (memn y F) eqn:E; [|reflexivity]. apply memn_In in E. rewrite forallb_forall in Hs2.
        specialize (Hs2 y E). rewrite Hy in Hs2. discriminate. }
    rewrite Hit in Hex. destruct (eval w it en tr) as [[v tr1]|]; [|discriminate].
    destruct (items_of v) as [xs|] eqn:Hitems; [|discriminate].
    destruct (for_items (exec_block w (wrap_ifs ifs (build cl leaf))) t xs el tr1) as [[el1 tr2]|] eqn:Hfor; [|discriminate].
    cbn [exec_block] in Hex. inversion Hex; subst el1 tr2. clear Hex.
    assert (Ht : forall y, memn y (tnames t) = true -> memn y T = true).
    { intros y Hy. rewrite HT. cbn [clause_targets map concat fst]. rewrite memn_app, Hy. reflexivity. }
    assert (A0 : agree_on (SB []) el (mask M en)).
    { intros y Hy. unfold SB in Hy. destruct (Nat.eqb y x) eqn:E1; [discriminate|]. destruct (memn y F) eqn:E2; [discriminate|].
      cbn in Hy. rewrite orb_false_r in Hy. apply negb_true_iff in Hy. unfold mask.
      destruct (memn y M) eqn:E3.
      - destruct (HM y E3) as [H|H]; congruence.
      - apply Hel; [apply Nat.eqb_neq; exact E1 | exact E2]. }
    destruct (items_sim cl t ifs [] ) with (xs := xs) (el := el) (ec := mask M en) (tr := tr1) (acc := @nil val)
      (c := c) (el' := el') (tr' := tr') as [ec' [acc' [c' [K1 [K2 [K3 [K4 K5]]]]]]]; try assumption.
    - intros el0 ec0 tr0 acc0 c0 el0' tr0' A1 Hx0 HI0 Hex0.
      apply (nest_sim cl ([] ++ tnames t)) with (c := c0); try assumption.
      + intros y Hy. rewrite HT in Hy. cbn [clause_targets map concat fst] in Hy. rewrite memn_app in Hy.
        apply orb_true_iff in Hy as [H|H]; [left; exact H | right; exact H].
      + intros y Hy. rewrite HT. cbn [clause_targets map concat fst]. rewrite memn_app. unfold clause_targets in Hy.
        rewrite Hy. apply orb_true_r.
    - exists v, tr1, xs, ec', acc', c'. repeat split; assumption.
  Qed.
End Nest.

(* =========================================================================================== *)
(* Part 4: the statement rules at a site *)

Lemma gens_targets_map : forall j cl, gens_targets (map (gen_of j) cl) = clause_targets cl.
Proof.
  induction cl as [|[[t it] ifs] cl IH]; [reflexivity|].
  cbn [map gen_of gens_targets clause_targets concat fst]. unfold clause_targets in IH. rewrite IH. reflexivity.
Qed.

Lemma SB_other : forall x F T Bd (el : env) y v, SB x F T Bd y = true -> upd el x v y = el y.
Proof.
  intros x F T Bd el y v H. unfold SB in H. unfold upd. destruct (Nat.eqb y x); [discriminate | reflexivity].
Qed.

(* when every target is bound, the two sides agree on everything an expression without x / F mentions *)
Lemma leaf_frame : forall w x F T Bd e (el ec : env) tr,
  (forall y, memn y T = true -> memn y Bd = true) ->
  mentions x e = false -> forallb (fun y => negb (mentions y e)) F = true ->
  agree_on (SB x F T Bd) el ec -> eval w e el tr = eval w e ec tr.
Proof.
  intros w x F T Bd e el ec tr Hall Hx HF A. apply eval_frame. intros y Hy. apply A. unfold SB.
  destruct (Nat.eqb y x) eqn:E1; [apply Nat.eqb_eq in E1; subst; congruence|].
  destruct (memn y F) eqn:E2.
  { apply memn_In in E2. rewrite forallb_forall in HF. specialize (HF y E2). rewrite Hy in HF. discriminate. }
  cbn. destruct (memn y T) eqn:E3; [|reflexivity]. cbn. apply Hall, E3.
Qed.

(* ---- x.append(e) in a nest  ~  a list comprehension ---- *)

Definition nest_guard (x : nat) (F : list nat) (cl : list clause) (es : list cx) : bool :=
  forallb (fun e => negb (mentions x e) && forallb (fun y => negb (mentions y e)) F) es
  && negb (memn x (clause_targets cl))
  && forallb (fun y => negb (memn y (clause_targets cl))) F
  && top_scoped x F (clause_targets cl) cl.

Lemma nest_guard_parts : forall x F cl es, nest_guard x F cl es = true ->
  (forall e, List.In e es -> mentions x e = false /\ forallb (fun y => negb (mentions y e)) F = true)
  /\ memn x (clause_targets cl) = false
  /\ (forall y, memn y F = true -> memn y (clause_targets cl) = false)
  /\ top_scoped x F (clause_targets cl) cl = true.
Proof.
  intros x F cl es H. unfold nest_guard in H. apply andb_true_iff in H as [H H4]. apply andb_true_iff in H as [H H3].
  apply andb_true_iff in H as [H1 H2]. split; [|split; [|split]].
  - intros e He. rewrite forallb_forall in H1. specialize (H1 e He). apply andb_true_iff in H1 as [A B].
    apply negb_true_iff in A. split; assumption.
  - apply negb_true_iff in H2. exact H2.
  - intros y Hy. apply memn_In in Hy. rewrite forallb_forall in H3. specialize (H3 y Hy). apply negb_true_iff in H3. exact H3.
  - exact H4.
Qed.

Theorem list_nest_sound : forall w x cl e l0 en tr el' tr',
  nest_guard x [] cl [e] = true ->
  exec_block w (build cl [SMeth (RName x) MAppend e]) (upd en x (VList l0)) tr = Some (el', tr') ->
  exists acc,
    eval w (XComp CList e dummy (map (gen_of true) cl)) en tr = Some (VList acc, tr')
    /\ el' x = Some (VList (l0 ++ acc))
    /\ (forall y, y <> x -> memn y (clause_targets cl) = false -> el' y = en y).
Proof.
  intros w x cl e l0 en tr el' tr' G Hex.
  destruct (nest_guard_parts _ _ _ _ G) as [Ge [Gx [GF Gs]]].
  destruct (Ge e (or_introl eq_refl)) as [Hxe HFe].
  destruct cl as [|[[t it] ifs] cl]; [discriminate|].
  set (T := clause_targets ((t, it, ifs) :: cl)) in *.
  destruct (top_sim w x [] T [] [SMeth (RName x) MAppend e] (leaf_of (eval w) CList e dummy)
              (fun c acc => c = VList (l0 ++ acc)) true) with
      (t := t) (it := it) (ifs := ifs) (cl := cl) (M := T) (en := en) (el := upd en x (VList l0))
      (c := VList l0) (tr := tr) (el' := el') (tr' := tr')
    as [v [tr1 [xs [ec' [acc [c' [E1 [E2 [E3 [E4 [E5 E6]]]]]]]]]]]; try assumption; try reflexivity.
  - (* the leaf *)
    intros Bd el ec tr0 acc c el0 tr0' Hall A Hx HI Hl. subst c.
    rewrite exec_block1 in Hl. cbn [exec] in Hl. rewrite Hx in Hl.
    rewrite (leaf_frame w x [] T Bd e el ec tr0 Hall Hxe HFe A) in Hl. unfold leaf_of.
    destruct (eval w e ec tr0) as [[a tr1]|]; [|discriminate]. cbn [meth_val] in Hl. inversion Hl; subst.
    exists ec, (acc ++ [a]), (VList ((l0 ++ acc) ++ [a])). repeat split.
    + unfold upd. rewrite Nat.eqb_refl. reflexivity.
    + rewrite app_assoc. reflexivity.
    + intros y Hy. rewrite (SB_other x [] T Bd el y _ Hy). apply A, Hy.
    + intros y Hy _. unfold upd. apply Nat.eqb_neq in Hy. rewrite Hy. reflexivity.
  - intros y Hy. left. exact Hy.
  - intros y Hy _. unfold upd. apply Nat.eqb_neq in Hy. rewrite Hy. reflexivity.
  - unfold upd. rewrite Nat.eqb_refl. reflexivity.
  - rewrite app_nil_r. reflexivity.
  - exists acc. split; [|split].
    + cbn [eval map gen_of]. rewrite E1, E2. cbn [gens_targets]. rewrite gens_targets_map.
      change (tnames t ++ clause_targets cl) with T. rewrite E3. reflexivity.
    + rewrite E4, E5. reflexivity.
    + intros y Hy HT. rewrite (E6 y Hy eq_refl HT). unfold upd. apply Nat.eqb_neq in Hy. rewrite Hy. reflexivity.
Qed.

(* ---- x.add(e) in a nest  ~  a set comprehension ---- *)

Theorem set_nest_sound : forall w x cl e s0 en tr el' tr',
  nest_guard x [] cl [e] = true ->
  exec_block w (build cl [SMeth (RName x) MAdd e]) (upd en x (VSet s0)) tr = Some (el', tr') ->
  exists acc,
    eval w (XComp CSet e dummy (map (gen_of true) cl)) en tr = Some (VSet (fold_left set_add acc []), tr')
    /\ el' x = Some (VSet (fold_left set_add acc s0))
    /\ (forall y, y <> x -> memn y (clause_targets cl) = false -> el' y = en y).
Proof.
  intros w x cl e s0 en tr el' tr' G Hex.
  destruct (nest_guard_parts _ _ _ _ G) as [Ge [Gx [GF Gs]]].
  destruct (Ge e (or_introl eq_refl)) as [Hxe HFe].
  destruct cl as [|[[t it] ifs] cl]; [discriminate|].
  set (T := clause_targets ((t, it, ifs) :: cl)) in *.
  destruct (top_sim w x [] T [] [SMeth (RName x) MAdd e] (leaf_of (eval w) CSet e dummy)
              (fun c acc => c = VSet (fold_left set_add acc s0) /\ forallb hashable acc = true) true) with
      (t := t) (it := it) (ifs := ifs) (cl := cl) (M := T) (en := en) (el := upd en x (VSet s0))
      (c := VSet s0) (tr := tr) (el' := el') (tr' := tr')
    as [v [tr1 [xs [ec' [acc [c' [E1 [E2 [E3 [E4 [[E5 E5'] E6]]]]]]]]]]]; try assumption; try reflexivity.
  - intros Bd el ec tr0 acc c el0 tr0' Hall A Hx [HI HI'] Hl. subst c.
    rewrite exec_block1 in Hl. cbn [exec] in Hl. rewrite Hx in Hl.
    rewrite (leaf_frame w x [] T Bd e el ec tr0 Hall Hxe HFe A) in Hl. unfold leaf_of.
    destruct (eval w e ec tr0) as [[a tr1]|]; [|discriminate]. cbn [meth_val] in Hl.
    destruct (hashable a) eqn:Ha; [|discriminate]. inversion Hl; subst.
    exists ec, (acc ++ [a]), (VSet (set_add (fold_left set_add acc s0) a)). repeat split.
    + unfold upd. rewrite Nat.eqb_refl. reflexivity.
    + rewrite fold_left_app. reflexivity.
    + rewrite forallb_app, HI'. cbn. rewrite Ha. reflexivity.
    + intros y Hy. rewrite (SB_other x [] T Bd el y _ Hy). apply A, Hy.
    + intros y Hy _. unfold upd. apply Nat.eqb_neq in Hy. rewrite Hy. reflexivity.
  - intros y Hy. left. exact Hy.
  - intros y Hy _. unfold upd. apply Nat.eqb_neq in Hy. rewrite Hy. reflexivity.
  - unfold upd. rewrite Nat.eqb_refl. reflexivity.
  - split; reflexivity.
  - exists acc. split; [|split].
    + cbn [eval map gen_of]. rewrite E1, E2. cbn [gens_targets]. rewrite gens_targets_map.
      change (tnames t ++ clause_targets cl) with T. rewrite E3. cbn [finish]. unfold mkset. rewrite E5'. reflexivity.
    + rewrite E4, E5. reflexivity.
    + intros y Hy HT. rewrite (E6 y Hy eq_refl HT). unfold upd. apply Nat.eqb_neq in Hy. rewrite Hy. reflexivity.
Qed.

(* ---- x += e / x -= e in a nest, from an integer  ~  sum() of a generator ---- *)

Lemma sum_num_snoc : forall acc b,
  sum_num (acc ++ [b]) = match sum_num acc, num b with Some s, Some q => Some (s + q) | _, _ => None end.
Proof.
  induction acc as [|a acc IH]; intros b; cbn [app sum_num].
  - destruct (num b); [f_equal; lia | reflexivity].
  - rewrite IH. destruct (num a), (sum_num acc), (num b); try reflexivity. f_equal. lia.
Qed.

Definition sgn (o : binop) (z s : Z) : Z := match o with OSub => z - s | _ => z + s end.

Theorem sum_nest_sound : forall w x cl e o z0 en tr el' tr',
  (o = OAdd \/ o = OSub) ->
  nest_guard x [] cl [e] = true ->
  exec_block w (build cl [SAug x o e]) (upd en x (VInt z0)) tr = Some (el', tr') ->
  exists s,
    eval w (XBi BSum [XComp CGen e dummy (map (gen_of true) cl)]) en tr = Some (VInt s, tr')
    /\ el' x = Some (VInt (sgn o z0 s))
    /\ (forall y, y <> x -> memn y (clause_targets cl) = false -> el' y = en y).
Proof.
  intros w x cl e o z0 en tr el' tr' Ho G Hex.
  destruct (nest_guard_parts _ _ _ _ G) as [Ge [Gx [GF Gs]]].
  destruct (Ge e (or_introl eq_refl)) as [Hxe HFe].
  destruct cl as [|[[t it] ifs] cl]; [discriminate|].
  set (T := clause_targets ((t, it, ifs) :: cl)) in *.
  destruct (top_sim w x [] T [] [SAug x o e] (leaf_of (eval w) CGen e dummy)
              (fun c acc => exists s, sum_num acc = Some s /\ c = VInt (sgn o z0 s)) true) with
      (t := t) (it := it) (ifs := ifs) (cl := cl) (M := T) (en := en) (el := upd en x (VInt z0))
      (c := VInt z0) (tr := tr) (el' := el') (tr' := tr')
    as [v [tr1 [xs [ec' [acc [c' [E1 [E2 [E3 [E4 [[s [E5 E5']] E6]]]]]]]]]]]; try assumption; try reflexivity.
  - intros Bd el ec tr0 acc c el0 tr0' Hall A Hx [s [HI HI']] Hl. subst c.
    rewrite exec_block1 in Hl. cbn [exec] in Hl. rewrite Hx in Hl.
    rewrite (leaf_frame w x [] T Bd e el ec tr0 Hall Hxe HFe A) in Hl. unfold leaf_of.
    destruct (eval w e ec tr0) as [[a tr1]|]; [|discriminate].
    assert (Hv : exists q, num a = Some q /\ aug_val o (VInt (sgn o z0 s)) a = Some (VInt (sgn o z0 (s + q)))).
    { destruct Ho; subst o; cbn [aug_val binop_val num sgn] in *.
      - destruct a; cbn [num] in *; try discriminate; eexists; split; try reflexivity; f_equal; f_equal; lia.
      - destruct (num a) as [q|]; [|discriminate]. exists q. split; [reflexivity|]. f_equal. f_equal. lia. }
    destruct Hv as [q [Hq Hv]]. rewrite Hv in Hl. inversion Hl; subst.
    exists ec, (acc ++ [a]), (VInt (sgn o z0 (s + q))). repeat split.
    + unfold upd. rewrite Nat.eqb_refl. reflexivity.
    + exists (s + q). split; [|reflexivity]. rewrite sum_num_snoc, HI, Hq. reflexivity.
    + intros y Hy. rewrite (SB_other x [] T Bd el y _ Hy). apply A, Hy.
    + intros y Hy _. unfold upd. apply Nat.eqb_neq in Hy. rewrite Hy. reflexivity.
  - intros y Hy. left. exact Hy.
  - intros y Hy _. unfold upd. apply Nat.eqb_neq in Hy. rewrite Hy. reflexivity.
  - unfold upd. rewrite Nat.eqb_refl. reflexivity.
  - exists 0. split; [reflexivity|]. destruct o; cbn [sgn]; f_equal; lia.
  - exists s. split; [|split].
    + cbn [eval ev_list map gen_of]. rewrite E1, E2. cbn [gens_targets]. rewrite gens_targets_map.
      change (tnames t ++ clause_targets cl) with T. rewrite E3. cbn [finish capply bapply items_of option_map].
      rewrite E5. reflexivity.
    + rewrite E4, E5'. reflexivity.
    + intros y Hy HT. rewrite (E6 y Hy eq_refl HT). unfold upd. apply Nat.eqb_neq in Hy. rewrite Hy. reflexivity.
Qed.

(* ---- x.extend(e) in a nest  ~  x.extend(generator with one more clause) ---- *)

Lemma iter_items_ext : forall (b1 b2 : env -> trace -> list val -> res) t,
  (forall en tr acc, b1 en tr acc = b2 en tr acc) ->
  forall xs en tr acc, iter_items b1 t xs en tr acc = iter_items b2 t xs en tr acc.
Proof.
  intros b1 b2 t H. induction xs as [|x xs IH]; intros en tr acc; cbn [iter_items]; [reflexivity|].
  destruct (bind t x en) as [en'|]; [|reflexivity]. rewrite H.
  destruct (b2 en' tr acc) as [[[e a] t']|]; [apply IH | reflexivity].
Qed.

Lemma clause_body_ext : forall ev ifs (k1 k2 : env -> trace -> list val -> res),
  (forall en tr acc, k1 en tr acc = k2 en tr acc) ->
  forall en tr acc, clause_body ev ifs k1 en tr acc = clause_body ev ifs k2 en tr acc.
Proof.
  intros ev ifs k1 k2 H en tr acc. unfold clause_body.
  destruct (ev_conds ev en ifs tr) as [[[] tr1]|]; [apply H | reflexivity | reflexivity].
Qed.

Lemma run_gens_app : forall ev leaf g2 g1 en tr acc,
  run_gens ev leaf (g1 ++ g2) en tr acc = run_gens ev (run_gens ev leaf g2) g1 en tr acc.
Proof.
  intros ev leaf g2. induction g1 as [|g g1 IH]; intros en tr acc; cbn [app run_gens]; [reflexivity|].
  destruct g; try reflexivity. destruct (ev g en tr) as [[v tr1]|]; [|reflexivity].
  destruct (items_of v) as [xs|]; [|reflexivity].
  apply iter_items_ext. intros en' tr' acc'. apply clause_body_ext. exact IH.
Qed.

(* the last clause `for fresh in e` with element `fresh` adds the items of e *)
Lemma fresh_clause : forall w fresh xs ec tr acc,
  exists ec', iter_items (clause_body (eval w) [] (leaf_of (eval w) CGen (XName fresh) dummy)) (TName fresh) xs ec tr acc
              = Some (ec', acc ++ xs, tr)
              /\ (forall y, y <> fresh -> ec' y = ec y).
Proof.
  intros w fresh. induction xs as [|v xs IH]; intros ec tr acc; cbn [iter_items].
  - exists ec. rewrite app_nil_r. split; reflexivity.
  - cbn [bind]. unfold clause_body at 1. cbn [ev_conds]. unfold leaf_of at 1. cbn [eval]. unfold upd at 1.
    rewrite Nat.eqb_refl. destruct (IH (upd ec fresh v) tr (acc ++ [v])) as [ec' [H1 H2]].
    exists ec'. rewrite H1, <- app_assoc. split; [reflexivity|].
    intros y Hy. rewrite (H2 y Hy). unfold upd. apply Nat.eqb_neq in Hy. rewrite Hy. reflexivity.
Qed.

Definition extend_leaf (x : nat) (tmp : option nat) (e : cx) : list st :=
  match tmp with
  | None => [SMeth (RName x) MExtend e]
  | Some c => [SAssign c e; SMeth (RName x) MExtend (XName c)]
  end.
Definition opt_names (o : option nat) : list nat := match o with Some c => [c] | None => [] end.

Theorem extend_nest_sound : forall w x fresh tmp cl e l0 en tr el' tr',
  nest_guard x (fresh :: opt_names tmp) cl [e] = true ->
  negb (memn x (opt_names tmp)) = true ->
  en x = Some (VList l0) ->
  exec_block w (build cl (extend_leaf x tmp e)) en tr = Some (el', tr') ->
  exists acc,
    eval w (XComp CGen (XName fresh) dummy (map (gen_of false) cl ++ [XGen (TName fresh) e []])) en tr
      = Some (VIter acc, tr')
    /\ el' x = Some (VList (l0 ++ acc))
    /\ (forall y, y <> x -> memn y (opt_names tmp) = false -> memn y (clause_targets cl) = false -> el' y = en y).
Proof.
  intros w x fresh tmp cl e l0 en tr el' tr' G Hxt Hx0 Hex.
  destruct (nest_guard_parts _ _ _ _ G) as [Ge [Gx [GF Gs]]].
  destruct (Ge e (or_introl eq_refl)) as [Hxe HFe].
  destruct cl as [|[[t it] ifs] cl]; [discriminate|].
  set (T := clause_targets ((t, it, ifs) :: cl)) in *.
  set (F := fresh :: opt_names tmp) in *.
  set (kleaf := run_gens (eval w) (leaf_of (eval w) CGen (XName fresh) dummy) [XGen (TName fresh) e []]).
  destruct (top_sim w x F T (opt_names tmp) (extend_leaf x tmp e) kleaf
              (fun c acc => c = VList (l0 ++ acc)) false) with
      (t := t) (it := it) (ifs := ifs) (cl := cl) (M := T ++ [fresh]) (en := en) (el := en)
      (c := VList l0) (tr := tr) (el' := el') (tr' := tr')
    as [v [tr1 [xs [ec' [acc [c' [E1 [E2 [E3 [E4 [E5 E6]]]]]]]]]]]; try assumption; try reflexivity.
  - (* the leaf *)
    intros Bd el ec tr0 acc c el0 tr0' Hall A Hx HI Hl. subst c.
    assert (Hev : forall tr2, eval w e el tr2 = eval w e ec tr2)
      by (intros tr2; apply (leaf_frame w x F T Bd e el ec tr2 Hall Hxe HFe A)).
    unfold kleaf. cbn [run_gens]. rewrite <- Hev.
    destruct tmp as [c|]; cbn [extend_leaf exec_block exec] in Hl.
    + (* through a temporary *)
      destruct (eval w e el tr0) as [[a tr1]|]; [|discriminate].
      assert (Hcx : Nat.eqb x c = false).
      { cbn [opt_names memn existsb] in Hxt. rewrite orb_false_r in Hxt. apply negb_true_iff in Hxt. exact Hxt. }
      unfold upd at 1 in Hl. rewrite Hcx, Hx in Hl. cbn [eval] in Hl. unfold upd at 1 in Hl. rewrite Nat.eqb_refl in Hl.
      cbn [meth_val] in Hl. destruct (items_of a) as [ys|]; [|discriminate]. inversion Hl; subst.
      destruct (fresh_clause w fresh ys ec tr0' acc) as [ec2 [K1 K2]].
      change (fun (en0 : env) (tr1 : trace) (acc0 : list val) => leaf_of (eval w) CGen (XName fresh) dummy en0 tr1 acc0)
        with (leaf_of (eval w) CGen (XName fresh) dummy). rewrite K1.
      exists ec2, (acc ++ ys), (VList ((l0 ++ acc) ++ ys)). repeat split.
      * unfold upd. rewrite Nat.eqb_refl. reflexivity.
      * rewrite app_assoc. reflexivity.
      * intros y Hy. unfold SB in Hy. destruct (Nat.eqb y x) eqn:E1; [discriminate|].
        destruct (memn y F) eqn:E2; [discriminate|]. unfold F in E2. cbn [memn existsb opt_names] in E2.
        apply orb_false_iff in E2 as [E2 E3]. rewrite orb_false_r in E3.
        unfold upd. rewrite E1, E3. rewrite (K2 y); [|apply Nat.eqb_neq; exact E2]. apply A. unfold SB.
        rewrite E1. unfold F. cbn [memn existsb opt_names]. rewrite E2, E3. exact Hy.
      * intros y Hy Hw. cbn [opt_names memn existsb] in Hw. rewrite orb_false_r in Hw. unfold upd.
        apply Nat.eqb_neq in Hy. rewrite Hy, Hw. reflexivity.
    + rewrite Hx in Hl. destruct (eval w e el tr0) as [[a tr1]|]; [|discriminate].
      cbn [meth_val] in Hl. destruct (items_of a) as [ys|]; [|discriminate]. inversion Hl; subst.
      destruct (fresh_clause w fresh ys ec tr0' acc) as [ec2 [K1 K2]].
      change (fun (en0 : env) (tr1 : trace) (acc0 : list val) => leaf_of (eval w) CGen (XName fresh) dummy en0 tr1 acc0)
        with (leaf_of (eval w) CGen (XName fresh) dummy). rewrite K1.
      exists ec2, (acc ++ ys), (VList ((l0 ++ acc) ++ ys)). repeat split.
      * unfold upd. rewrite Nat.eqb_refl. reflexivity.
      * rewrite app_assoc. reflexivity.
      * intros y Hy. unfold SB in Hy. destruct (Nat.eqb y x) eqn:E1; [discriminate|].
        destruct (memn y F) eqn:E2; [discriminate|]. unfold F in E2. cbn [memn existsb opt_names] in E2.
        rewrite orb_false_r in E2.
        unfold upd. rewrite E1. rewrite (K2 y); [|apply Nat.eqb_neq; exact E2]. apply A. unfold SB.
        rewrite E1. unfold F. cbn [memn existsb opt_names]. rewrite E2. exact Hy.
      * intros y Hy _. unfold upd. apply Nat.eqb_neq in Hy. rewrite Hy. reflexivity.
  - (* masked names *)
    intros y Hy. rewrite memn_app in Hy. apply orb_true_iff in Hy as [H|H]; [left; exact H | right].
    unfold F. cbn [memn existsb] in *. rewrite orb_false_r in H. rewrite H. reflexivity.
  - rewrite app_nil_r. reflexivity.
  - exists acc. split; [|split].
    + cbn [eval map gen_of app]. rewrite E1, E2.
      assert (HM : gens_targets (XGen t it ifs :: map (gen_of false) cl ++ [XGen (TName fresh) e []]) = T ++ [fresh]).
      { cbn [gens_targets].
        assert (Hg : forall g, gens_targets (g ++ [XGen (TName fresh) e []]) = gens_targets g ++ [fresh]).
        { induction g as [|a g IHg]; [reflexivity|]. cbn [app gens_targets]. destruct a; rewrite IHg; try reflexivity.
          rewrite app_assoc. reflexivity. }
        rewrite Hg, gens_targets_map, app_assoc. reflexivity. }
      rewrite HM.
      erewrite iter_items_ext; [rewrite E3; reflexivity|].
      intros en' tr'' acc'. apply clause_body_ext. intros en2 tr2 acc2. apply run_gens_app.
    + rewrite E4, E5. reflexivity.
    + intros y Hy Hw HT. apply (E6 y Hy Hw HT).
Qed.

(* ---- the rule models at a site ---- *)

Definition site_scoped (s1 s2 : st) : bool :=
  match s1, loop_shape s2 with
  | SAssign x _, Some (cl, _) => top_scoped x [] (clause_targets cl) cl
  | _, _ => false
  end.

Definition site_targets (s2 : st) : list nat :=
  match loop_shape s2 with Some (cl, _) => clause_targets cl | None => [] end.

Lemma gens_mention_targets : forall x j cl,
  existsb (mentions x) (map (gen_of j) cl) = false -> memn x (clause_targets cl) = false.
Proof.
  induction cl as [|[[t it] ifs] cl IH]; intros H; [reflexivity|].
  cbn [map gen_of existsb mentions] in H. apply orb_false_iff in H as [H1 H2].
  apply orb_false_iff in H1 as [H1 _]. apply orb_false_iff in H1 as [H1 _].
  cbn [clause_targets map concat fst]. rewrite memn_app, H1. apply IH, H2.
Qed.

Lemma nest_guard_intro : forall x cl e j,
  mentions x e = false -> existsb (mentions x) (map (gen_of j) cl) = false ->
  top_scoped x [] (clause_targets cl) cl = true -> nest_guard x [] cl [e] = true.
Proof.
  intros x cl e j H1 H2 H3. unfold nest_guard. cbn [forallb]. rewrite H1, (gens_mention_targets x j cl H2), H3. reflexivity.
Qed.

Lemma upd_same : forall en x v, upd en x v x = Some v.
Proof. intros. unfold upd. rewrite Nat.eqb_refl. reflexivity. Qed.

Lemma upd_other : forall en x v y, y <> x -> upd en x v y = en y.
Proof. intros en x v y H. unfold upd. apply Nat.eqb_neq in H. rewrite H. reflexivity. Qed.

Lemma int_literal_eval : forall w e z en tr, int_literal e = Some z -> eval w e en tr = Some (VInt z, tr).
Proof.
  intros w e z en tr H. destruct e; try discriminate.
  - destruct a; try discriminate. inversion H. reflexivity.
  - destruct e; try discriminate. destruct a; try discriminate. inversion H. reflexivity.
Qed.

Theorem setlist_site_sound : forall w after s1 s2 s',
  site_setlist after s1 s2 = Some s' -> site_scoped s1 s2 = true ->
  forall en tr en1 tr1, exec_block w [s1; s2] en tr = Some (en1, tr1) ->
  exists en2, exec_block w [s'] en tr = Some (en2, tr1)
    /\ forall y, memn y (site_targets s2) = false -> en1 y = en2 y.
Proof.
  intros w after s1 s2 s' Hs Hsc en tr en1 tr1 Hex.
  unfold site_setlist in Hs. unfold site_scoped in Hsc. unfold site_targets.
  destruct s1 as [x value| | | | | |]; try discriminate.
  destruct (loop_shape s2) as [[cl leaf]|] eqn:Hshape; [|discriminate].
  pose proof (loop_shape_sound _ _ _ Hshape) as Hb.
  change [SAssign x value; s2] with ([SAssign x value] ++ [s2]) in Hex. rewrite exec_block_app, Hb in Hex.
  rewrite exec_block1 in Hex. cbn [exec] in Hex.
  destruct leaf as [| r m e | x' o e | | | |]; try discriminate.
  - (* append / add *)
    destruct r as [x'|]; [|discriminate]. destruct m; try discriminate.
    + (* append *)
      destruct value; try discriminate. destruct k; try discriminate. destruct elts; [|discriminate].
      destruct (Nat.eqb x' x) eqn:Ex; [|discriminate]. apply Nat.eqb_eq in Ex. subst x'.
      destruct (negb (mentions x e) && negb (existsb (mentions x) (map (gen_of true) cl))
                && dead_after after (clause_targets cl)) eqn:G; [|discriminate]. inversion Hs; subst s'. clear Hs.
      apply andb_true_iff in G as [G _]. apply andb_true_iff in G as [G1 G2].
      apply negb_true_iff in G1. apply negb_true_iff in G2.
      cbn [eval ev_list] in Hex.
      destruct (list_nest_sound w x cl e [] en tr en1 tr1 (nest_guard_intro x cl e true G1 G2 Hsc) Hex)
        as [acc [E1 [E2 E3]]].
      exists (upd en x (VList acc)). split.
      * rewrite exec_block1. cbn [exec]. rewrite E1. reflexivity.
      * intros y Hy. destruct (Nat.eq_dec y x) as [->|Hn]; [rewrite E2, upd_same; reflexivity|].
        rewrite (E3 y Hn Hy), upd_other by exact Hn. reflexivity.
    + (* add *)
      destruct value; try discriminate. destruct b; try discriminate. destruct args; [|discriminate].
      destruct (Nat.eqb x' x) eqn:Ex; [|discriminate]. apply Nat.eqb_eq in Ex. subst x'.
      destruct (negb (mentions x e) && negb (existsb (mentions x) (map (gen_of true) cl))
                && dead_after after (clause_targets cl)) eqn:G; [|discriminate]. inversion Hs; subst s'. clear Hs.
      apply andb_true_iff in G as [G _]. apply andb_true_iff in G as [G1 G2].
      apply negb_true_iff in G1. apply negb_true_iff in G2.
      cbn [eval ev_list capply bapply] in Hex.
      destruct (set_nest_sound w x cl e [] en tr en1 tr1 (nest_guard_intro x cl e true G1 G2 Hsc) Hex)
        as [acc [E1 [E2 E3]]].
      exists (upd en x (VSet (fold_left set_add acc []))). split.
      * rewrite exec_block1. cbn [exec]. rewrite E1. reflexivity.
      * intros y Hy. destruct (Nat.eq_dec y x) as [->|Hn]; [rewrite E2, upd_same; reflexivity|].
        rewrite (E3 y Hn Hy), upd_other by exact Hn. reflexivity.
  - (* += / -= *)
    destruct (int_literal value) as [z|] eqn:Hz; [|destruct o; discriminate].
    assert (Ho : o = OAdd \/ o = OSub) by (destruct o; try discriminate; auto).
    assert (Hs' : (if Nat.eqb x' x && (negb (mentions x e) && negb (existsb (mentions x) (map (gen_of true) cl))
                                       && dead_after after (clause_targets cl))
                   then Some (SAssign x (if z =? 0 then match o with OSub => XNeg (XBi BSum [XComp CGen e dummy (map (gen_of true) cl)])
                                                         | _ => XBi BSum [XComp CGen e dummy (map (gen_of true) cl)] end
                                         else XBin o value (XBi BSum [XComp CGen e dummy (map (gen_of true) cl)])))
                   else None) = Some s') by (destruct Ho; subst o; exact Hs).
    clear Hs. destruct (Nat.eqb x' x) eqn:Ex; [|discriminate]. apply Nat.eqb_eq in Ex. subst x'. cbn [andb] in Hs'.
    destruct (negb (mentions x e) && negb (existsb (mentions x) (map (gen_of true) cl))
              && dead_after after (clause_targets cl)) eqn:G; [|discriminate]. inversion Hs'; subst s'. clear Hs'.
    apply andb_true_iff in G as [G _]. apply andb_true_iff in G as [G1 G2].
    apply negb_true_iff in G1. apply negb_true_iff in G2.
    rewrite (int_literal_eval w value z en tr Hz) in Hex.
    destruct (sum_nest_sound w x cl e o z en tr en1 tr1 Ho (nest_guard_intro x cl e true G1 G2 Hsc) Hex)
      as [s [E1 [E2 E3]]].
    exists (upd en x (VInt (sgn o z s))). split.
    + rewrite exec_block1. cbn [exec]. destruct (z =? 0) eqn:Ez.
      * apply Z.eqb_eq in Ez. subst z. destruct Ho; subst o.
        -- rewrite E1. cbn [sgn]. reflexivity.
        -- change (eval w (XNeg ?a) en tr) with
             (match eval w a en tr with Some (v, tr1) => match num v with Some z => Some (VInt (- z), tr1) | None => None end | None => None end).
           cbn [eval] in E1 |- *. rewrite E1. cbn [num sgn]. reflexivity.
      * change (eval w (XBin o value ?b) en tr) with
          (match eval w value en tr with
           | Some (a, tr1) => match eval w b en tr1 with
                              | Some (b', tr2) => match binop_val o a b' with Some v => Some (v, tr2) | None => None end
                              | None => None end
           | None => None end).
        rewrite (int_literal_eval w value z en tr Hz), E1. destruct Ho; subst o; reflexivity.
    + intros y Hy. destruct (Nat.eq_dec y x) as [->|Hn]; [rewrite E2, upd_same; reflexivity|].
      rewrite (E3 y Hn Hy), upd_other by exact Hn. reflexivity.
Qed.

(* ---- replace_listcomp_append_with_plus / replace_setcomp_add_with_union ---- *)

(* a start value that cannot be anything but a list (resp. a set) *)
Fixpoint coll_typed (is_set : bool) (e : cx) : bool :=
  match e with
  | XSeq KList _ => negb is_set
  | XSeq KSet _ => is_set
  | XComp CList _ _ _ => negb is_set
  | XComp CSet _ _ _ => is_set
  | XBin OAdd l r => negb is_set && (coll_typed is_set l || coll_typed is_set r)
  | XBin OBitOr l r => is_set && (coll_typed is_set l || coll_typed is_set r)
  | _ => false
  end.

Lemma mkset_shape' : forall l s, mkset l = Some s -> exists s', s = VSet s'.
Proof. intros l s H. unfold mkset in H. destruct (forallb hashable l); inversion H. eexists; reflexivity. Qed.

Lemma coll_typed_val : forall w is_set e en tr v tr',
  coll_typed is_set e = true -> eval w e en tr = Some (v, tr') ->
  exists l, v = if is_set then VSet l else VList l.
Proof.
  intros w is_set e. induction e using cx_ind'; intros en tr v tr' Ht He; try discriminate.
  - (* XSeq *)
    cbn [eval] in He. destruct (ev_list (eval w) en args tr) as [[vs tr1]|]; [|discriminate].
    destruct k; cbn [coll_typed] in Ht.
    + destruct is_set; [discriminate|]. inversion He. eexists; reflexivity.
    + discriminate.
    + destruct is_set; [|discriminate]. destruct (mkset vs) eqn:E; [|discriminate]. inversion He; subst.
      eapply mkset_shape'; eassumption.
  - (* XBin *)
    cbn [eval] in He. destruct (eval w e1 en tr) as [[a tr1]|] eqn:E1; [|discriminate].
    destruct (eval w e2 en tr1) as [[b tr2]|] eqn:E2; [|discriminate].
    destruct (binop_val o a b) as [r|] eqn:Eb; [|discriminate]. inversion He; subst.
    destruct o; cbn [coll_typed] in Ht; try discriminate.
    + apply andb_true_iff in Ht as [Hs Ht]. destruct is_set; [discriminate|]. apply orb_true_iff in Ht as [Ht|Ht].
      * destruct (IHe1 en tr a tr1 Ht E1) as [l ->]. cbn [binop_val] in Eb.
        destruct b; cbn [num] in Eb; try discriminate. inversion Eb. eexists; reflexivity.
      * destruct (IHe2 en tr1 b tr' Ht E2) as [l ->]. cbn [binop_val] in Eb.
        destruct a; cbn [num] in Eb; try discriminate. inversion Eb. eexists; reflexivity.
    + apply andb_true_iff in Ht as [Hs Ht]. destruct is_set; [|discriminate]. apply orb_true_iff in Ht as [Ht|Ht].
      * destruct (IHe1 en tr a tr1 Ht E1) as [l ->]. cbn [binop_val] in Eb.
        destruct b; try discriminate. inversion Eb. eexists; reflexivity.
      * destruct (IHe2 en tr1 b tr' Ht E2) as [l ->]. cbn [binop_val] in Eb.
        destruct a; try discriminate. inversion Eb. eexists; reflexivity.
  - (* XComp *)
    cbn [eval] in He. destruct gens as [|g rest]; [discriminate|]. destruct g; try discriminate.
    destruct (eval w g en tr) as [[iv tr1]|]; [|discriminate]. destruct (items_of iv) as [xs|]; [|discriminate].
    destruct (iter_items _ t xs _ tr1 []) as [[[e' acc] tr2]|]; [|discriminate].
    destruct k; cbn [coll_typed finish] in *.
    + destruct is_set; [discriminate|]. inversion He. eexists; reflexivity.
    + destruct is_set; [|discriminate]. destruct (mkset acc) eqn:E; [|discriminate]. inversion He; subst.
      eapply mkset_shape'; eassumption.
    + discriminate.
    + discriminate.
Qed.

Definition fold_typed (is_set : bool) (s2 : st) (value : cx) : bool :=
  match s2 with
  | SFor _ _ _ _ => coll_typed is_set value
  | _ => true
  end.

Theorem fold_site_sound : forall w is_set after s1 s2 s',
  site_fold is_set after s1 s2 = Some s' ->
  (match s1 with SAssign _ value => fold_typed is_set s2 value | _ => false end) = true ->
  forall en tr en1 tr1, exec_block w [s1; s2] en tr = Some (en1, tr1) ->
  exists en2, exec_block w [s'] en tr = Some (en2, tr1)
    /\ forall y, memn y (match s2 with SFor t _ _ _ => tnames t | _ => [] end) = false -> en1 y = en2 y.
Proof.
  intros w is_set after s1 s2 s' Hs Hty en tr en1 tr1 Hex.
  unfold site_fold in Hs. destruct s1 as [x value| | | | | |]; try discriminate.
  destruct ((if is_set then union_start else plus_start) value) eqn:Hstart; [|discriminate].
  change [SAssign x value; s2] with ([SAssign x value] ++ [s2]) in Hex. rewrite exec_block_app in Hex.
  rewrite exec_block1 in Hex. cbn [exec] in Hex.
  destruct (eval w value en tr) as [[c0 tr0]|] eqn:Ev; [|discriminate].
  destruct s2 as [| r m e | | | | t it body orelse |]; try discriminate.
  - (* x.extend(e) / x.update(e) *)
    destruct r as [x'|]; [|discriminate].
    destruct (Nat.eqb x' x) eqn:Ex; [|discriminate]. apply Nat.eqb_eq in Ex. subst x'. cbn [andb] in Hs.
    destruct (match m with MExtend => _ | _ => _ end) eqn:Hm in Hs; [|discriminate]. cbn [andb] in Hs.
    destruct (mentions x e) eqn:Hxe; [discriminate|]. cbn [negb] in Hs. inversion Hs; subst s'. clear Hs.
    rewrite exec_block1 in Hex. cbn [exec] in Hex. rewrite upd_same in Hex.
    assert (Hfr : eval w e (upd en x c0) tr0 = eval w e en tr0).
    { apply eval_frame. intros y Hy. apply upd_other. intros ->. congruence. }
    rewrite Hfr in Hex. destruct (eval w e en tr0) as [[a tr2]|] eqn:Ee; [|discriminate].
    destruct (meth_val m c0 a) as [c'|] eqn:Em; [|discriminate]. inversion Hex; subst.
    exists (upd en x c'). split.
    + rewrite exec_block1. cbn [exec eval ev_list]. rewrite Ev, Ee.
      destruct is_set; destruct m; try discriminate; destruct c0; try discriminate; cbn [meth_val] in Em;
        destruct (items_of a) as [ys|] eqn:Ei; try discriminate; cbn [capply bapply]; rewrite Ei; cbn [option_map].
      * unfold mkset. destruct (forallb hashable ys); [|discriminate]. inversion Em; subst. cbn [binop_val].
        unfold set_union. rewrite set_absorb. reflexivity.
      * inversion Em; subst. reflexivity.
    + intros y _. destruct (Nat.eq_dec y x) as [->|Hn]; [rewrite !upd_same; reflexivity|].
      rewrite !upd_other by exact Hn. reflexivity.
  - (* for t in it: x.append(e) / x.add(e) *)
    destruct body as [|b [|? ?]]; try discriminate; destruct b; try discriminate; destruct r as [x'|]; try discriminate.
    destruct orelse; [|discriminate].
    destruct (Nat.eqb x' x) eqn:Ex; [|discriminate]. apply Nat.eqb_eq in Ex. subst x'. cbn [andb] in Hs.
    destruct (match m with MAppend => _ | _ => _ end) eqn:Hm in Hs; [|discriminate]. cbn [andb] in Hs.
    destruct (memn x (tnames t)) eqn:Hxt; [discriminate|]. destruct (mentions x it) eqn:Hxi; [discriminate|].
    destruct (mentions x e) eqn:Hxe; [discriminate|]. cbn [negb andb] in Hs.
    destruct (dead_after after (tnames t)); [|discriminate]. inversion Hs; subst s'. clear Hs.
    cbn [fold_typed] in Hty. destruct (coll_typed_val w is_set value en tr c0 tr0 Hty Ev) as [l0 Hc0].
    assert (G : nest_guard x [] [(t, it, [])] [e] = true).
    { unfold nest_guard. cbn [forallb clause_targets map concat fst top_scoped scoped]. rewrite Hxe, Hxi, app_nil_r, Hxt. reflexivity. }
    change [SFor t it [SMeth (RName x) m e] []] with (build [(t, it, [])] [SMeth (RName x) m e]) in Hex.
    destruct is_set; destruct m; try discriminate; subst c0.
    + destruct (set_nest_sound w x [(t, it, [])] e l0 en tr0 en1 tr1 G Hex) as [acc [E1 [E2 E3]]].
      exists (upd en x (VSet (fold_left set_add acc l0))). split.
      * rewrite exec_block1. cbn [exec].
        change (eval w (XBin OBitOr value ?b) en tr) with
          (match eval w value en tr with
           | Some (a, tr1) => match eval w b en tr1 with
                              | Some (b', tr2) => match binop_val OBitOr a b' with Some v => Some (v, tr2) | None => None end
                              | None => None end
           | None => None end).
        rewrite Ev. cbn [map gen_of and_ifs] in E1. rewrite E1. cbn [binop_val]. unfold set_union. rewrite set_absorb. reflexivity.
      * intros y Hy. destruct (Nat.eq_dec y x) as [->|Hn]; [rewrite E2, upd_same; reflexivity|].
        cbn [clause_targets map concat fst] in E3. rewrite app_nil_r in E3. rewrite (E3 y Hn Hy), !upd_other by exact Hn. reflexivity.
    + destruct (list_nest_sound w x [(t, it, [])] e l0 en tr0 en1 tr1 G Hex) as [acc [E1 [E2 E3]]].
      exists (upd en x (VList (l0 ++ acc))). split.
      * rewrite exec_block1. cbn [exec].
        change (eval w (XBin OAdd value ?b) en tr) with
          (match eval w value en tr with
           | Some (a, tr1) => match eval w b en tr1 with
                              | Some (b', tr2) => match binop_val OAdd a b' with Some v => Some (v, tr2) | None => None end
                              | None => None end
           | None => None end).
        rewrite Ev. cbn [map gen_of and_ifs] in E1. rewrite E1. reflexivity.
      * intros y Hy. destruct (Nat.eq_dec y x) as [->|Hn]; [rewrite E2, upd_same; reflexivity|].
        cbn [clause_targets map concat fst] in E3. rewrite app_nil_r in E3. rewrite (E3 y Hn Hy), !upd_other by exact Hn. reflexivity.
Qed.

(* ---- replace_nested_loops_with_set_list_comp ---- *)

Lemma down_sound : forall s ifs cl leaf, down s = (ifs, cl, leaf) -> [s] = wrap_ifs ifs (build cl leaf).
Proof.
  intros s. induction s using st_ind'; intros ifs cl leaf Hc;
    try (cbn in Hc; inversion Hc; subst; reflexivity).
  - cbn [down] in Hc. destruct orelse; [|inversion Hc; subst; reflexivity].
    destruct body as [|b [|b2 body]]; try (inversion Hc; subst; reflexivity).
    inversion H as [|? ? Hb _]; subst.
    destruct b; try (inversion Hc; subst; reflexivity).
    + destruct orelse; [|inversion Hc; subst; reflexivity].
      destruct (down (SFor t0 it0 body [])) as [[ifs' cl'] leaf'] eqn:E. inversion Hc; subst.
      cbn [wrap_ifs build]. rewrite <- (Hb _ _ _ eq_refl). reflexivity.
    + destruct orelse; [|inversion Hc; subst; reflexivity].
      destruct (down (SIf c body [])) as [[ifs' cl'] leaf'] eqn:E. inversion Hc; subst.
      cbn [wrap_ifs build]. rewrite <- (Hb _ _ _ eq_refl). reflexivity.
  - cbn [down] in Hc. destruct orelse; [|inversion Hc; subst; reflexivity].
    destruct body as [|b [|b2 body]]; try (inversion Hc; subst; reflexivity).
    inversion H as [|? ? Hb _]; subst.
    destruct b; try (inversion Hc; subst; reflexivity).
    + destruct orelse; [|inversion Hc; subst; reflexivity].
      destruct (down (SFor t it body [])) as [[ifs' cl'] leaf'] eqn:E. inversion Hc; subst.
      cbn [wrap_ifs build]. rewrite <- (Hb _ _ _ eq_refl). reflexivity.
    + destruct orelse; [|inversion Hc; subst; reflexivity].
      destruct (down (SIf c0 body [])) as [[ifs' cl'] leaf'] eqn:E. inversion Hc; subst.
      cbn [wrap_ifs build]. rewrite <- (Hb _ _ _ eq_refl). reflexivity.
Qed.

(* the side conditions under which the theorem holds (the rule's own conditions are part of site_nested) *)
Definition nested_guard (fresh : nat) (s : st) : bool :=
  let '(_, cl, leaf) := down s in
  match leaf with
  | [SMeth (RName x) MExtend e] => nest_guard x [fresh] cl [e]
  | [SAssign c e; SMeth (RName x) MExtend (XName _)] => nest_guard x [fresh; c] cl [e] && negb (Nat.eqb x c)
  | _ => false
  end.

Definition nested_receiver (s : st) : option nat :=
  let '(_, _, leaf) := down s in
  match leaf with
  | [SMeth (RName x) _ _] | [_; SMeth (RName x) _ _] => Some x
  | _ => None
  end.

Definition nested_dead (s : st) : list nat :=
  let '(_, cl, leaf) := down s in
  clause_targets cl ++ match leaf with [SAssign c _; _] => [c] | _ => [] end.

Theorem nested_site_sound : forall w fresh after s s',
  site_nested fresh after s = Some s' -> nested_guard fresh s = true ->
  forall x l0 en tr en1 tr1, nested_receiver s = Some x -> en x = Some (VList l0) ->
  exec_block w [s] en tr = Some (en1, tr1) ->
  exists en2, exec_block w [s'] en tr = Some (en2, tr1)
    /\ forall y, memn y (nested_dead s) = false -> en1 y = en2 y.
Proof.
  intros w fresh after s s' Hs Hg x l0 en tr en1 tr1 Hr Hx Hex.
  unfold site_nested in Hs. unfold nested_guard in Hg. unfold nested_receiver in Hr. unfold nested_dead.
  destruct s as [| | | | | t it body orelse |]; try discriminate. destruct orelse; [|discriminate].
  destruct (down (SFor t it body [])) as [[ifs0 cl] leaf] eqn:Hd.
  pose proof (down_sound _ _ _ _ Hd) as Hb.
  assert (Hifs : ifs0 = []).
  { cbn [down] in Hd. destruct body as [|b [|? ?]]; try (inversion Hd; reflexivity).
    destruct b; try (inversion Hd; reflexivity).
    - destruct orelse; [|inversion Hd; reflexivity]. destruct (down (SFor t0 it0 body [])) as [[? ?] ?]. inversion Hd; reflexivity.
    - destruct orelse; [|inversion Hd; reflexivity]. destruct (down (SIf c body [])) as [[? ?] ?]. inversion Hd; reflexivity. }
  subst ifs0. cbn [wrap_ifs] in Hb. rewrite Hb in Hex.
  destruct leaf as [|s1 [|s2 [|? ?]]]; try discriminate.
  - (* x.extend(e) *)
    destruct s1; try discriminate. destruct r as [x'|]; [|destruct m; discriminate]. destruct m; try discriminate.
    inversion Hr; subst x'. clear Hr.
    destruct (dead_after after (clause_targets cl) && negb (recv_mentions_any (RName x) (clause_targets cl))
              && negb (mentions x e || existsb (mentions x) (map (gen_of false) cl))) eqn:G; [|discriminate].
    inversion Hs; subst s'. clear Hs.
    destruct (extend_nest_sound w x fresh None cl e l0 en tr en1 tr1 Hg eq_refl Hx Hex) as [acc [E1 [E2 E3]]].
    exists (upd en x (VList (l0 ++ acc))). split.
    + rewrite exec_block1. cbn [exec]. rewrite Hx, E1. reflexivity.
    + intros y Hy. rewrite app_nil_r in Hy. destruct (Nat.eq_dec y x) as [->|Hn]; [rewrite E2, upd_same; reflexivity|].
      rewrite (E3 y Hn eq_refl Hy), upd_other by exact Hn. reflexivity.
  - (* tmp = e; x.extend(tmp) *)
    destruct s1 as [c e| ? m0 ? | | | | |]; try discriminate; try (destruct m0; discriminate). destruct s2; try discriminate.
    destruct r as [x'|]; [|destruct m; try discriminate; destruct e0; discriminate].
    destruct m; try discriminate. destruct e0; try discriminate.
    inversion Hr; subst x'. clear Hr.
    destruct (Nat.eqb c x0 && negb (mentions c e) && negb (existsb (mentions c) (map (gen_of false) cl))) eqn:G0; [|discriminate].
    apply andb_true_iff in G0 as [G0 _]. apply andb_true_iff in G0 as [G0 _]. apply Nat.eqb_eq in G0. subst x0.
    destruct (dead_after after (clause_targets cl ++ [c]) && negb (recv_mentions_any (RName x) (clause_targets cl ++ [c]))
              && negb (mentions x e || existsb (mentions x) (map (gen_of false) cl))) eqn:G; [|discriminate].
    inversion Hs; subst s'. clear Hs.
    apply andb_true_iff in Hg as [Hg Hxc].
    assert (Hxt : negb (memn x (opt_names (Some c))) = true).
    { cbn [opt_names memn existsb]. rewrite orb_false_r. exact Hxc. }
    destruct (extend_nest_sound w x fresh (Some c) cl e l0 en tr en1 tr1 Hg Hxt Hx Hex) as [acc [E1 [E2 E3]]].
    exists (upd en x (VList (l0 ++ acc))). split.
    + rewrite exec_block1. cbn [exec]. rewrite Hx, E1. reflexivity.
    + intros y Hy. rewrite memn_app in Hy. apply orb_false_iff in Hy as [Hy1 Hy2].
      destruct (Nat.eq_dec y x) as [->|Hn]; [rewrite E2, upd_same; reflexivity|].
      rewrite (E3 y Hn Hy2 Hy1), upd_other by exact Hn. reflexivity.
  - repeat match type of Hs with context [match ?v with _ => _ end] => destruct v; try discriminate end.
Qed.

(* =========================================================================================== *)
(* Part 5: dead variables.  Code that does not read the names in D (in the sense of
   fixes._is_read_after_loop: a later loop / comprehension over a name shields its own body) runs alike in
   two environments that differ on D only. *)

Definition SD (D : list nat) : nat -> bool := fun y => negb (memn y D).

Definition dead_in (D : list nat) (e : cx) : Prop := forall n, memn n D = true -> rd n e = false.

Definition dfr (w : world) (e : cx) : Prop := forall D, dead_in D e -> framed (SD D) w e.

Definition dparts (w : world) (e : cx) : Prop :=
  match e with
  | XGen _ it ifs => dfr w it /\ Forall (dfr w) ifs
  | XKV k v => dfr w k /\ dfr w v
  | XDStar v => dfr w v
  | _ => True
  end.

Lemma dead_in_list : forall D (l : list cx), (forall n, memn n D = true -> existsb (rd n) l = false) ->
  forall a, List.In a l -> dead_in D a.
Proof.
  intros D l H a Ha n Hn. specialize (H n Hn). destruct (rd n a) eqn:E; [|reflexivity].
  assert (existsb (rd n) l = true) by (apply existsb_exists; exists a; split; assumption). congruence.
Qed.

Lemma Forall_dfr : forall w D l, Forall (dfr w) l ->
  (forall n, memn n D = true -> existsb (rd n) l = false) -> Forall (framed (SD D) w) l.
Proof.
  intros w D l H HD. rewrite Forall_forall in *. intros a Ha. apply (H a Ha), (dead_in_list D l HD a Ha).
Qed.

Lemma memn_filter : forall y (f : nat -> bool) l, memn y (filter f l) = memn y l && f y.
Proof.
  intros y f l. induction l as [|a l IH]; [reflexivity|]. cbn [filter]. destruct (f a) eqn:E; cbn [memn existsb].
  - fold (memn y (filter f l)). fold (memn y l). rewrite IH. destruct (Nat.eqb y a) eqn:E2; [|reflexivity].
    apply Nat.eqb_eq in E2. subst. rewrite E. cbn. destruct (memn a l); reflexivity.
  - fold (memn y (filter f l)). fold (memn y l). rewrite IH. destruct (Nat.eqb y a) eqn:E2; [|reflexivity].
    apply Nat.eqb_eq in E2. subst. rewrite E. cbn. rewrite andb_false_r. reflexivity.
Qed.

(* dict items / comprehension clauses whose parts are dead-framed *)
Lemma items_dfr : forall w D l, Forall (fun e => dfr w e /\ dparts w e) l ->
  (forall n, memn n D = true -> existsb (rd n) l = false) -> Forall (framed_item (SD D) w) l.
Proof.
  intros w D l H HD. rewrite Forall_forall in *. intros a Ha. destruct (H a Ha) as [_ Hp].
  pose proof (dead_in_list D l HD a Ha) as Hd. destruct a; cbn [framed_item dparts] in *; try exact I.
  - destruct Hp as [Hk Hv]. split; [apply Hk | apply Hv]; intros n Hn; specialize (Hd n Hn); cbn [rd] in Hd;
      apply orb_false_iff in Hd; apply Hd.
  - apply Hp. exact Hd.
Qed.

Lemma gens_dfr : forall w D l, Forall (fun e => dfr w e /\ dparts w e) l ->
  (forall n, memn n D = true -> existsb (rd n) l = false) -> Forall (framed_gen (SD D) w) l.
Proof.
  intros w D l H HD. rewrite Forall_forall in *. intros a Ha. destruct (H a Ha) as [_ Hp].
  pose proof (dead_in_list D l HD a Ha) as Hd. destruct a; cbn [framed_gen dparts] in *; try exact I.
  destruct Hp as [Hit Hifs]. split.
  - apply Hit. intros n Hn. specialize (Hd n Hn). cbn [rd] in Hd. apply orb_false_iff in Hd. apply Hd.
  - apply Forall_dfr; [exact Hifs|]. intros n Hn. specialize (Hd n Hn). cbn [rd] in Hd. apply orb_false_iff in Hd. apply Hd.
Qed.

Lemma Forall_fst : forall (P Q : cx -> Prop) l, Forall (fun e => P e /\ Q e) l -> Forall P l.
Proof. intros P Q l H. rewrite Forall_forall in *. intros a Ha. apply (H a Ha). Qed.

Lemma eval_dead_all : forall w e, dfr w e /\ dparts w e.
Proof.
  intros w e. induction e using cx_ind'.
  - split; [|exact I]. intros D HD en1 en2 tr A. reflexivity.
  - split; [|exact I]. intros D HD en1 en2 tr A. cbn [eval]. rewrite (A x); [reflexivity|].
    unfold SD. destruct (memn x D) eqn:E; [|reflexivity]. specialize (HD x E). cbn [rd] in HD.
    rewrite Nat.eqb_refl in HD. discriminate.
  - split; [|exact I]. intros D HD en1 en2 tr A. cbn [eval].
    rewrite (ev_list_frame (SD D) w args (Forall_dfr w D args (Forall_fst _ _ _ H) HD) en1 en2 tr A). reflexivity.
  - split; [|exact I]. intros D HD en1 en2 tr A. cbn [eval].
    rewrite (ev_list_frame (SD D) w args (Forall_dfr w D args (Forall_fst _ _ _ H) HD) en1 en2 tr A). reflexivity.
  - split; [|exact I]. intros D HD en1 en2 tr A. cbn [eval].
    rewrite (ev_list_frame (SD D) w args (Forall_dfr w D args (Forall_fst _ _ _ H) HD) en1 en2 tr A). reflexivity.
  - split; [|exact I]. intros D HD en1 en2 tr A. cbn [eval].
    rewrite (ev_items_frame (SD D) w args (items_dfr w D args H HD) en1 en2 [] tr A). reflexivity.
  - split; [|exact I]. intros D HD.
    assert (H1 : framed (SD D) w e1) by (apply IHe1; intros n Hn; specialize (HD n Hn); cbn [rd] in HD; apply orb_false_iff in HD; apply HD).
    assert (H2 : framed (SD D) w e2) by (apply IHe2; intros n Hn; specialize (HD n Hn); cbn [rd] in HD; apply orb_false_iff in HD; apply HD).
    intros en1 en2 tr A. cbn [eval]. rewrite (H1 en1 en2 tr A).
    destruct (eval w e1 en2 tr) as [[a tr1]|]; [|reflexivity]. rewrite (H2 en1 en2 tr1 A). reflexivity.
  - split; [|exact I]. intros D HD. assert (H1 : framed (SD D) w e) by (apply IHe; exact HD).
    intros en1 en2 tr A. cbn [eval]. rewrite (H1 en1 en2 tr A). reflexivity.
  - split; [|exact I]. intros D HD. assert (H1 : framed (SD D) w e) by (apply IHe; exact HD).
    intros en1 en2 tr A. cbn [eval]. rewrite (H1 en1 en2 tr A). reflexivity.
  - split; [|exact I]. intros D HD en1 en2 tr A. cbn [eval].
    apply (ev_bool_frame (SD D)); [apply (Forall_dfr w D args (Forall_fst _ _ _ H) HD) | exact A].
  - (* XComp: inside, the names that the comprehension binds are bound (or unbound) alike on both sides *)
    split; [|exact I]. intros D HD en1 en2 tr A. cbn [eval].
    destruct gens as [|g rest]; [reflexivity|]. destruct g; try reflexivity.
    set (ts := gens_targets (XGen t g ifs :: rest)) in *.
    set (D' := filter (fun y => negb (memn y ts)) D).
    inversion H as [|? ? Hg Hrest]; subst. destruct Hg as [_ [Hit Hifs]].
    assert (HD' : forall n, memn n D' = true ->
                  rd n e1 = false /\ rd n e2 = false /\ existsb (rd n) ifs = false /\ existsb (rd n) rest = false).
    { intros n Hn. unfold D' in Hn. rewrite memn_filter in Hn. apply andb_true_iff in Hn as [Hn1 Hn2].
      apply negb_true_iff in Hn2. specialize (HD n Hn1). cbn [rd] in HD. fold ts in HD. rewrite Hn2 in HD.
      cbn [existsb rd] in HD.
      apply orb_false_iff in HD as [HD HD3]. apply orb_false_iff in HD as [HD1 HD2].
      apply orb_false_iff in HD3 as [HD3 HD4]. apply orb_false_iff in HD3 as [HD3 HD5]. repeat split; assumption. }
    assert (Hfirst : framed (SD D) w g).
    { apply Hit. intros n Hn. specialize (HD n Hn). cbn [rd] in HD. fold ts in HD. destruct (memn n ts).
      - exact HD.
      - cbn [existsb rd] in HD. apply orb_false_iff in HD as [_ HD]. apply orb_false_iff in HD as [HD _].
        apply orb_false_iff in HD as [HD _]. exact HD. }
    rewrite (Hfirst en1 en2 tr A). destruct (eval w g en2 tr) as [[v tr1]|]; [|reflexivity].
    destruct (items_of v) as [xs|]; [|reflexivity].
    assert (He : framed (SD D') w e1) by (apply IHe1; intros n Hn; apply (HD' n Hn)).
    assert (Hd : framed (SD D') w e2) by (apply IHe2; intros n Hn; apply (HD' n Hn)).
    assert (Hifs' : Forall (framed (SD D') w) ifs) by (apply Forall_dfr; [exact Hifs | intros n Hn; apply (HD' n Hn)]).
    assert (HGr : Forall (framed_gen (SD D') w) rest) by (apply gens_dfr; [exact Hrest | intros n Hn; apply (HD' n Hn)]).
    assert (A' : agree_on (SD D') (mask ts en1) (mask ts en2)).
    { intros y Hy. unfold mask. destruct (memn y ts) eqn:E; [reflexivity|]. apply A. unfold SD in *. unfold D' in Hy.
      rewrite memn_filter, E in Hy. cbn in Hy. rewrite andb_true_r in Hy. exact Hy. }
    pose proof (iter_items_rel (SD D')
      (clause_body (eval w) ifs (run_gens (eval w) (leaf_of (eval w) k e1 e2) rest))
      (clause_body (eval w) ifs (run_gens (eval w) (leaf_of (eval w) k e1 e2) rest)) t
      (fun e1' e2' tr' acc' A0 =>
         clause_body_rel (SD D') w ifs _ _ Hifs'
           (run_gens_rel (SD D') w _ _ rest HGr (leaf_of_rel (SD D') w k e1 e2 He Hd)) e1' e2' tr' acc' A0)
      xs (mask ts en1) (mask ts en2) tr1 [] A') as R.
    unfold res_rel in R.
    destruct (iter_items _ t xs (mask ts en1) tr1 []) as [[[e1' a1] t1]|],
             (iter_items _ t xs (mask ts en2) tr1 []) as [[[e2' a2] t2]|]; try contradiction; [|reflexivity].
    destruct R as [-> [-> _]]. reflexivity.
  - (* XGen *)
    split.
    + intros D HD en1 en2 tr A. reflexivity.
    + cbn [dparts]. split; [apply IHe | apply (Forall_fst _ _ _ H)].
  - (* XMap *)
    split; [|exact I]. intros D HD.
    assert (Hb : framed (SD D) w e1) by (apply IHe1; intros n Hn; specialize (HD n Hn); cbn [rd] in HD; apply orb_false_iff in HD; apply HD).
    assert (Hi : framed (SD D) w e2) by (apply IHe2; intros n Hn; specialize (HD n Hn); cbn [rd] in HD; apply orb_false_iff in HD; apply HD).
    intros en1 en2 tr A. cbn [eval]. rewrite (Hi en1 en2 tr A).
    destruct (eval w e2 en2 tr) as [[v tr1]|]; [|reflexivity]. destruct (items_of v) as [xs|]; [|reflexivity].
    erewrite lam_items_ext; [reflexivity|]. intros x tr'. cbn beta.
    rewrite (Hb (upd en1 a x) (upd en2 a x) tr' (agree_on_upd (SD D) en1 en2 a x A)). reflexivity.
  - (* XFilter *)
    split; [|exact I]. intros D HD.
    assert (Hb : framed (SD D) w e1) by (apply IHe1; intros n0 Hn; specialize (HD n0 Hn); cbn [rd] in HD; apply orb_false_iff in HD; apply HD).
    assert (Hi : framed (SD D) w e2) by (apply IHe2; intros n0 Hn; specialize (HD n0 Hn); cbn [rd] in HD; apply orb_false_iff in HD; apply HD).
    intros en1 en2 tr A. cbn [eval]. rewrite (Hi en1 en2 tr A).
    destruct (eval w e2 en2 tr) as [[v tr1]|]; [|reflexivity]. destruct (items_of v) as [xs|]; [|reflexivity].
    erewrite lam_items_ext; [reflexivity|]. intros x tr'. cbn beta.
    rewrite (Hb (upd en1 a x) (upd en2 a x) tr' (agree_on_upd (SD D) en1 en2 a x A)). reflexivity.
  - split.
    + intros D HD en1 en2 tr A. reflexivity.
    + cbn [dparts]. split; [apply IHe1 | apply IHe2].
  - split.
    + intros D HD en1 en2 tr A. reflexivity.
    + cbn [dparts]. apply IHe.
Qed.

Lemma eval_dead : forall w e D en1 en2 tr, dead_in D e -> agree_on (SD D) en1 en2 ->
  eval w e en1 tr = eval w e en2 tr.
Proof. intros w e D en1 en2 tr H A. destruct (eval_dead_all w e) as [F _]. apply (F D H), A. Qed.

(* ---- statements ---- *)

Lemma st_reads_blk : forall fe sh n l,
  (fix blk (l : list st) : bool := match l with [] => false | s1 :: l' => st_reads fe sh n s1 || blk l' end) l
  = block_reads fe sh n l.
Proof. intros fe sh n. induction l as [|a l IH]; [reflexivity|]. cbn [block_reads existsb]. rewrite IH. reflexivity. Qed.

Lemma st_reads_For : forall fe sh n t it body orelse,
  st_reads fe sh n (SFor t it body orelse) =
  fe n it || (if sh && memn n (tnames t) then false else block_reads fe sh n body) || block_reads fe sh n orelse.
Proof. intros. cbn [st_reads]. rewrite !st_reads_blk. reflexivity. Qed.

Lemma st_reads_If : forall fe sh n c body orelse,
  st_reads fe sh n (SIf c body orelse) = fe n c || block_reads fe sh n body || block_reads fe sh n orelse.
Proof. intros. cbn [st_reads]. rewrite !st_reads_blk. reflexivity. Qed.

Definition dead_st (D : list nat) (s : st) : Prop := forall n, memn n D = true -> st_rd n s = false.
Definition dead_blk (D : list nat) (l : list st) : Prop := forall n, memn n D = true -> blk_rd n l = false.

Definition ex_rel (D : list nat) (r1 r2 : option (env * trace)) : Prop :=
  match r1, r2 with
  | Some (e1, t1), Some (e2, t2) => t1 = t2 /\ agree_on (SD D) e1 e2
  | None, None => True
  | _, _ => False
  end.

Definition exec_dead_at (w : world) (s : st) : Prop :=
  forall D en1 en2 tr, dead_st D s -> agree_on (SD D) en1 en2 -> ex_rel D (exec w s en1 tr) (exec w s en2 tr).

Lemma block_dead : forall w l, Forall (exec_dead_at w) l ->
  forall D en1 en2 tr, dead_blk D l -> agree_on (SD D) en1 en2 ->
  ex_rel D (exec_block w l en1 tr) (exec_block w l en2 tr).
Proof.
  intros w l H. induction H as [|s l Hs _ IH]; intros D en1 en2 tr HD A; cbn [exec_block].
  - cbn. auto.
  - assert (H1 : dead_st D s).
    { intros n Hn. specialize (HD n Hn). unfold blk_rd, block_reads in HD. cbn [existsb] in HD. apply orb_false_iff in HD. apply HD. }
    assert (H2 : dead_blk D l).
    { intros n Hn. specialize (HD n Hn). unfold blk_rd, block_reads in HD. cbn [existsb] in HD. apply orb_false_iff in HD. apply HD. }
    pose proof (Hs D en1 en2 tr H1 A) as R. unfold ex_rel in R.
    destruct (exec w s en1 tr) as [[e1 t1]|], (exec w s en2 tr) as [[e2 t2]|]; try contradiction; [|exact I].
    destruct R as [-> A']. apply IH; assumption.
Qed.

Lemma SD_not_in : forall D x, memn x D = false -> SD D x = true.
Proof. intros D x H. unfold SD. rewrite H. reflexivity. Qed.

Lemma exec_dead : forall w s, exec_dead_at w s.
Proof.
  intros w s. induction s using st_ind'; intros D en1 en2 tr HD A; unfold dead_st, st_rd in HD.
  - (* SAssign *)
    cbn [exec]. rewrite (eval_dead w e D en1 en2 tr); [|intros n Hn; apply (HD n Hn)|exact A].
    destruct (eval w e en2 tr) as [[v tr1]|]; [|exact I]. cbn. split; [reflexivity | apply agree_on_upd, A].
  - (* SMeth *)
    destruct r as [x|x k].
    + assert (Hx : en1 x = en2 x).
      { apply A, SD_not_in. destruct (memn x D) eqn:E; [|reflexivity]. specialize (HD x E). cbn [st_reads recv_name] in HD.
        rewrite Nat.eqb_refl in HD. discriminate. }
      cbn [exec]. rewrite Hx. destruct (en2 x) as [c|]; [|exact I].
      rewrite (eval_dead w e D en1 en2 tr); [| |exact A].
      * destruct (eval w e en2 tr) as [[a tr1]|]; [|exact I]. destruct (meth_val m c a); [|exact I].
        cbn. split; [reflexivity | apply agree_on_upd, A].
      * intros n Hn. specialize (HD n Hn). cbn [st_reads] in HD. apply orb_false_iff in HD. apply HD.
    + assert (Hx : en1 x = en2 x).
      { apply A, SD_not_in. destruct (memn x D) eqn:E; [|reflexivity]. specialize (HD x E). cbn [st_reads recv_name] in HD.
        rewrite Nat.eqb_refl in HD. discriminate. }
      assert (Hk : dead_in D k).
      { intros n Hn. specialize (HD n Hn). cbn [st_reads recv_exprs existsb] in HD.
        apply orb_false_iff in HD as [HD _]. apply orb_false_iff in HD as [_ HD]. rewrite orb_false_r in HD. exact HD. }
      assert (He : dead_in D e).
      { intros n Hn. specialize (HD n Hn). cbn [st_reads] in HD. apply orb_false_iff in HD. apply HD. }
      cbn [exec]. rewrite Hx. destruct (en2 x) as [[]|]; try exact I.
      rewrite (eval_dead w k D en1 en2 tr Hk A). destruct (eval w k en2 tr) as [[kv tr1]|]; [|exact I].
      destruct (if hashable kv then dict_get d kv else None) as [c|]; [|exact I].
      rewrite (eval_dead w e D en1 en2 tr1 He A). destruct (eval w e en2 tr1) as [[a tr2]|]; [|exact I].
      destruct (meth_val m c a); [|exact I]. cbn. split; [reflexivity | apply agree_on_upd, A].
  - (* SAug *)
    assert (Hx : en1 x = en2 x).
    { apply A, SD_not_in. destruct (memn x D) eqn:E; [|reflexivity]. specialize (HD x E). cbn [st_reads] in HD.
      rewrite Nat.eqb_refl in HD. discriminate. }
    cbn [exec]. rewrite Hx. destruct (en2 x) as [a|]; [|exact I].
    rewrite (eval_dead w e D en1 en2 tr); [| |exact A].
    + destruct (eval w e en2 tr) as [[b tr1]|]; [|exact I]. destruct (aug_val o a b); [|exact I].
      cbn. split; [reflexivity | apply agree_on_upd, A].
    + intros n Hn. specialize (HD n Hn). cbn [st_reads] in HD. apply orb_false_iff in HD. apply HD.
  - (* SSetItem *)
    assert (Hx : en1 x = en2 x).
    { apply A, SD_not_in. destruct (memn x D) eqn:E; [|reflexivity]. specialize (HD x E). cbn [st_reads] in HD.
      rewrite Nat.eqb_refl in HD. discriminate. }
    assert (Hk : dead_in D k).
    { intros n Hn. specialize (HD n Hn). cbn [st_reads] in HD. apply orb_false_iff in HD as [HD _].
      apply orb_false_iff in HD. apply HD. }
    assert (Hv : dead_in D v).
    { intros n Hn. specialize (HD n Hn). cbn [st_reads] in HD. apply orb_false_iff in HD. apply HD. }
    cbn [exec]. rewrite (eval_dead w v D en1 en2 tr Hv A). destruct (eval w v en2 tr) as [[vv tr1]|]; [|exact I].
    rewrite Hx. destruct (en2 x) as [[]|]; try exact I.
    rewrite (eval_dead w k D en1 en2 tr1 Hk A). destruct (eval w k en2 tr1) as [[kv tr2]|]; [|exact I].
    destruct (hashable kv); [|exact I]. cbn. split; [reflexivity | apply agree_on_upd, A].
  - (* SExpr *)
    cbn [exec]. rewrite (eval_dead w e D en1 en2 tr); [|intros n Hn; apply (HD n Hn)|exact A].
    destruct (eval w e en2 tr) as [[v tr1]|]; [|exact I]. cbn. split; [reflexivity | exact A].
  - (* SFor *)
    rewrite !exec_For.
    assert (Hit : dead_in D it).
    { intros n Hn. specialize (HD n Hn). rewrite st_reads_For in HD. apply orb_false_iff in HD as [HD _].
      apply orb_false_iff in HD. apply HD. }
    rewrite (eval_dead w it D en1 en2 tr Hit A). destruct (eval w it en2 tr) as [[v tr1]|]; [|exact I].
    destruct (items_of v) as [xs|]; [|exact I].
    set (D' := filter (fun y => negb (memn y (tnames t))) D).
    assert (Hbody : dead_blk D' body).
    { intros n Hn. unfold D' in Hn. rewrite memn_filter in Hn. apply andb_true_iff in Hn as [Hn1 Hn2].
      apply negb_true_iff in Hn2. specialize (HD n Hn1). rewrite st_reads_For in HD. rewrite Hn2 in HD. cbn [andb] in HD.
      apply orb_false_iff in HD as [HD _]. apply orb_false_iff in HD. apply HD. }
    assert (Horelse : dead_blk D orelse).
    { intros n Hn. specialize (HD n Hn). rewrite st_reads_For in HD. apply orb_false_iff in HD. apply HD. }
    assert (Hloop : forall xs en1 en2 tr, agree_on (SD D) en1 en2 ->
              ex_rel D (for_items (exec_block w body) t xs en1 tr) (for_items (exec_block w body) t xs en2 tr)).
    { induction xs0 as [|x xs0 IHxs]; intros e1 e2 tr0 A0; cbn [for_items].
      - cbn. auto.
      - pose proof (agree_on_bind (SD D) t x e1 e2 A0) as Hb.
        destruct (bind t x e1) as [e1'|] eqn:B1, (bind t x e2) as [e2'|] eqn:B2; try contradiction; [|exact I].
        assert (A1 : agree_on (SD D') e1' e2').
        { pose proof (bind_agree_more (SD D) t x e1 e2 e1' e2' B1 B2 A0) as A1. intros y Hy. apply A1.
          unfold SD, D' in *. rewrite memn_filter in Hy. destruct (memn y D); [|reflexivity]. cbn in *.
          destruct (memn y (tnames t)); [reflexivity | discriminate]. }
        pose proof (block_dead w body H D' e1' e2' tr0 Hbody A1) as R. unfold ex_rel in R.
        destruct (exec_block w body e1' tr0) as [[f1 t1]|], (exec_block w body e2' tr0) as [[f2 t2]|]; try contradiction; [|exact I].
        destruct R as [-> A2]. apply IHxs. intros y Hy. apply A2. unfold SD, D' in *. rewrite memn_filter.
        apply negb_true_iff in Hy. rewrite Hy. reflexivity. }
    pose proof (Hloop xs en1 en2 tr1 A) as R. unfold ex_rel in R.
    destruct (for_items (exec_block w body) t xs en1 tr1) as [[f1 t1]|],
             (for_items (exec_block w body) t xs en2 tr1) as [[f2 t2]|]; try contradiction; [|exact I].
    destruct R as [-> A2]. apply (block_dead w orelse H0 D f1 f2 t2 Horelse A2).
  - (* SIf *)
    rewrite !exec_If.
    assert (Hc : dead_in D c).
    { intros n Hn. specialize (HD n Hn). rewrite st_reads_If in HD. apply orb_false_iff in HD as [HD _].
      apply orb_false_iff in HD. apply HD. }
    rewrite (eval_dead w c D en1 en2 tr Hc A). destruct (eval w c en2 tr) as [[cv tr1]|]; [|exact I].
    destruct (truthy cv).
    + apply (block_dead w body H); [|exact A]. intros n Hn. specialize (HD n Hn). rewrite st_reads_If in HD.
      apply orb_false_iff in HD as [HD _]. apply orb_false_iff in HD. apply HD.
    + apply (block_dead w orelse H0); [|exact A]. intros n Hn. specialize (HD n Hn). rewrite st_reads_If in HD.
      apply orb_false_iff in HD. apply HD.
Qed.

Lemma exec_block_dead : forall w l D en1 en2 tr, dead_blk D l -> agree_on (SD D) en1 en2 ->
  ex_rel D (exec_block w l en1 tr) (exec_block w l en2 tr).
Proof. intros w l. apply block_dead. apply Forall_forall. intros s _. apply exec_dead. Qed.

(* ---- a rewritten site followed by code that does not read what the loop leaves behind ---- *)

Definition site_rel (w : world) (Tg : list nat) (pre pre' : list st) : Prop :=
  forall en tr en1 tr1, exec_block w pre en tr = Some (en1, tr1) ->
  exists en2, exec_block w pre' en tr = Some (en2, tr1) /\ forall y, memn y Tg = false -> en1 y = en2 y.

Lemma in_context : forall w Tg pre pre' rest,
  site_rel w Tg pre pre' -> dead_blk Tg rest -> site_rel w Tg (pre ++ rest) (pre' ++ rest).
Proof.
  intros w Tg pre pre' rest Hsite Hdead en tr en1 tr1 Hex. rewrite exec_block_app in Hex.
  destruct (exec_block w pre en tr) as [[em tm]|] eqn:Hp; [|discriminate].
  destruct (Hsite en tr em tm Hp) as [em2 [Hp2 Ha]].
  assert (A : agree_on (SD Tg) em em2).
  { intros y Hy. apply Ha. unfold SD in Hy. apply negb_true_iff in Hy. exact Hy. }
  pose proof (exec_block_dead w rest Tg em em2 tm Hdead A) as R. unfold ex_rel in R. rewrite Hex in R.
  destruct (exec_block w rest em2 tm) as [[en2 t2]|] eqn:Hr; [|contradiction]. destruct R as [<- A2].
  exists en2. split.
  - rewrite exec_block_app, Hp2. exact Hr.
  - intros y Hy. apply A2. unfold SD. rewrite Hy. reflexivity.
Qed.

Lemma dead_after_blk : forall rest Tg, dead_after (fun n => blk_rd n rest) Tg = true -> dead_blk Tg rest.
Proof.
  intros rest Tg H n Hn. unfold dead_after in H. rewrite forallb_forall in H. apply memn_In in Hn.
  specialize (H n Hn). apply negb_true_iff in H. exact H.
Qed.

Lemma setlist_dead : forall after s1 s2 s', site_setlist after s1 s2 = Some s' ->
  dead_after after (site_targets s2) = true.
Proof.
  intros after s1 s2 s' Hs. unfold site_setlist in Hs. unfold site_targets.
  destruct s1 as [x value| | | | | |]; try discriminate.
  destruct (loop_shape s2) as [[cl leaf]|]; [|discriminate].
  destruct (dead_after after (clause_targets cl)) eqn:E; [reflexivity|]. exfalso.
  cbv zeta in Hs.
  destruct leaf as [| r m e | x' o e | | | |]; try discriminate.
  - destruct r as [x'|]; [|discriminate]. destruct m; try discriminate.
    + destruct value; try discriminate. destruct k; try discriminate. destruct elts; [|discriminate].
      rewrite !andb_false_r in Hs. discriminate.
    + destruct value; try discriminate. destruct b; try discriminate. destruct args; [|discriminate].
      rewrite !andb_false_r in Hs. discriminate.
  - destruct (int_literal value); [|destruct o; discriminate].
    destruct o; try discriminate; rewrite !andb_false_r in Hs; discriminate.
Qed.

Theorem setlist_in_context : forall w s1 s2 s' rest,
  site_setlist (fun n => blk_rd n rest) s1 s2 = Some s' -> site_scoped s1 s2 = true ->
  site_rel w (site_targets s2) (s1 :: s2 :: rest) (s' :: rest).
Proof.
  intros w s1 s2 s' rest Hs Hsc.
  apply (in_context w (site_targets s2) [s1; s2] [s'] rest).
  - intros en tr en1 tr1 Hex. eapply setlist_site_sound; eassumption.
  - apply dead_after_blk. eapply setlist_dead; eassumption.
Qed.

Lemma fold_dead : forall is_set after s1 s2 s', site_fold is_set after s1 s2 = Some s' ->
  dead_after after (match s2 with SFor t _ _ _ => tnames t | _ => [] end) = true.
Proof.
  intros is_set after s1 s2 s' Hs. unfold site_fold in Hs.
  destruct s2 as [| | | | | t it body orelse |]; try reflexivity.
  destruct (dead_after after (tnames t)) eqn:E; [reflexivity|]. exfalso.
  cbv zeta in Hs. destruct s1 as [x value| | | | | |]; try discriminate.
  destruct ((if is_set then union_start else plus_start) value); [|discriminate].
  destruct body as [|b [|? ?]]; try discriminate; destruct b; try discriminate; destruct r as [x'|]; try discriminate.
  destruct orelse; [|discriminate]. rewrite !andb_false_r in Hs. discriminate.
Qed.

Theorem fold_in_context : forall w is_set s1 s2 s' rest,
  site_fold is_set (fun n => blk_rd n rest) s1 s2 = Some s' ->
  (match s1 with SAssign _ value => fold_typed is_set s2 value | _ => false end) = true ->
  site_rel w (match s2 with SFor t _ _ _ => tnames t | _ => [] end) (s1 :: s2 :: rest) (s' :: rest).
Proof.
  intros w is_set s1 s2 s' rest Hs Hty.
  apply (in_context w _ [s1; s2] [s'] rest).
  - intros en tr en1 tr1 Hex. eapply fold_site_sound; eassumption.
  - apply dead_after_blk. eapply fold_dead; eassumption.
Qed.

Lemma nested_dead_after : forall fresh after s s', site_nested fresh after s = Some s' ->
  dead_after after (nested_dead s) = true.
Proof.
  intros fresh after s s' Hs. unfold site_nested in Hs. unfold nested_dead.
  destruct s as [| | | | | t it body orelse |]; try discriminate. destruct orelse; [|discriminate].
  destruct (down (SFor t it body [])) as [[ifs0 cl] leaf].
  destruct leaf as [|s1 [|s2 [|? ?]]]; try discriminate.
  - destruct s1; try discriminate. destruct m; try discriminate.
    rewrite app_nil_r. destruct (dead_after after (clause_targets cl)); [reflexivity|]. cbn [andb] in Hs. discriminate.
  - destruct s1 as [c e| ? m0 ? | | | | |]; try discriminate; try (destruct m0; discriminate).
    destruct s2; try discriminate. destruct m; try discriminate. destruct e0; try discriminate.
    destruct (Nat.eqb c x && negb (mentions c e) && negb (existsb (mentions c) (map (gen_of false) cl))); [|discriminate].
    destruct (dead_after after (clause_targets cl ++ [c])); [reflexivity|]. cbn [andb] in Hs. discriminate.
  - repeat match type of Hs with context [match ?v with _ => _ end] => destruct v; try discriminate end.
Qed.

Theorem nested_in_context : forall w fresh s s' rest x l0,
  site_nested fresh (fun n => blk_rd n rest) s = Some s' -> nested_guard fresh s = true ->
  nested_receiver s = Some x ->
  forall en tr en1 tr1, en x = Some (VList l0) ->
  exec_block w (s :: rest) en tr = Some (en1, tr1) ->
  exists en2, exec_block w (s' :: rest) en tr = Some (en2, tr1)
    /\ forall y, memn y (nested_dead s) = false -> en1 y = en2 y.
Proof.
  intros w fresh s s' rest x l0 Hs Hg Hr en tr en1 tr1 Hx Hex.
  change (s :: rest) with ([s] ++ rest) in Hex. rewrite exec_block_app in Hex.
  destruct (exec_block w [s] en tr) as [[em tm]|] eqn:Hp; [|discriminate].
  destruct (nested_site_sound w fresh _ s s' Hs Hg x l0 en tr em tm Hr Hx Hp) as [em2 [Hp2 Ha]].
  assert (A : agree_on (SD (nested_dead s)) em em2).
  { intros y Hy. apply Ha. unfold SD in Hy. apply negb_true_iff in Hy. exact Hy. }
  pose proof (exec_block_dead w rest (nested_dead s) em em2 tm
                (dead_after_blk rest _ (nested_dead_after fresh _ s s' Hs)) A) as R.
  unfold ex_rel in R. rewrite Hex in R.
  destruct (exec_block w rest em2 tm) as [[en2 t2]|] eqn:Hrr; [|contradiction]. destruct R as [<- A2].
  exists en2. split.
  - change (s' :: rest) with ([s'] ++ rest). rewrite exec_block_app, Hp2. exact Hrr.
  - intros y Hy. apply A2. unfold SD. rewrite Hy. reflexivity.
Qed.

(* =========================================================================================== *)
(* Part 6: the expression rules *)

(* ---- remove_redundant_comprehensions ---- *)

Lemma identity_clause : forall w k x dv, k <> CDict -> forall xs ec tr acc,
  exists ec', iter_items (clause_body (eval w) [] (leaf_of (eval w) k (XName x) dv))
                (TName x) xs ec tr acc = Some (ec', acc ++ xs, tr).
Proof.
  intros w k x dv Hk. induction xs as [|v xs IH]; intros ec tr acc; cbn [iter_items].
  - exists ec. rewrite app_nil_r. reflexivity.
  - cbn [bind]. unfold clause_body at 1. cbn [ev_conds]. unfold leaf_of at 1. cbn [eval]. rewrite upd_same.
    destruct (IH (upd ec x v) tr (acc ++ [v])) as [ec' H1]. exists ec'.
    destruct k; try contradiction; rewrite H1, <- app_assoc; reflexivity.
Qed.

Lemma run_gens_nil : forall ev leaf, run_gens ev leaf [] = leaf.
Proof. reflexivity. Qed.

Theorem redundant_seq_sound : forall w e e' en tr,
  rw_redundant e = Some e' -> (match e with XComp CDict _ _ _ => false | _ => true end) = true ->
  eval w e' en tr = eval w e en tr.
Proof.
  intros w e e' en tr H Hk. unfold rw_redundant in H.
  destruct e; try discriminate. destruct k; try discriminate; destruct e1; try discriminate;
    destruct gens as [|g [|? ?]]; try discriminate; destruct g; try discriminate; destruct t; try discriminate;
    destruct ifs; try discriminate;
    destruct (Nat.eqb x x0) eqn:E; try discriminate; apply Nat.eqb_eq in E; subst x0; inversion H; subst e';
    cbn [eval ev_list]; destruct (eval w g en tr) as [[v tr1]|]; try reflexivity;
    cbn [capply bapply]; destruct (items_of v) as [xs|]; try reflexivity; cbn [gens_targets tnames app];
    rewrite run_gens_nil.
  - destruct (identity_clause w CList x e2 ltac:(discriminate) xs (mask [x] en) tr1 []) as [ec' ->]. reflexivity.
  - destruct (identity_clause w CSet x e2 ltac:(discriminate) xs (mask [x] en) tr1 []) as [ec' ->].
    cbn [finish app option_map]. destruct (mkset xs); reflexivity.
  - destruct (identity_clause w CGen x e2 ltac:(discriminate) xs (mask [x] en) tr1 []) as [ec' ->]. reflexivity.
Qed.

(* ---- replace_map_lambda_with_comp / replace_filter_lambda_with_comp ---- *)

(* a one-clause generator over the parameter of the lambda does what the calls of the lambda do *)
Lemma lambda_clause : forall a en (f : val -> trace -> option (list val * trace)) (body : env -> trace -> list val -> res),
  (forall ec x tr acc, (forall y, y <> a -> ec y = en y) ->
     match f x tr, body (upd ec a x) tr acc with
     | Some (ys, t1), Some (ec', acc', t2) => acc' = acc ++ ys /\ t1 = t2 /\ (forall y, y <> a -> ec' y = en y)
     | None, None => True
     | _, _ => False
     end) ->
  forall xs ec tr acc, (forall y, y <> a -> ec y = en y) ->
  match lam_items f xs tr acc, iter_items body (TName a) xs ec tr acc with
  | Some (l, t1), Some (_, l', t2) => l = l' /\ t1 = t2
  | None, None => True
  | _, _ => False
  end.
Proof.
  intros a en f body H. induction xs as [|x xs IH]; intros ec tr acc Hec; cbn [lam_items iter_items bind].
  - auto.
  - specialize (H ec x tr acc Hec).
    destruct (f x tr) as [[ys t1]|], (body (upd ec a x) tr acc) as [[[ec' acc'] t2]|]; try contradiction; [|exact I].
    destruct H as [-> [-> Hec']]. apply IH, Hec'.
Qed.

Theorem map_sound : forall w e e' en tr, rw_map e = Some e' -> eval w e' en tr = eval w e en tr.
Proof.
  intros w e e' en tr H. destruct e; try discriminate. inversion H; subst e'. clear H. cbn [eval].
  destruct (eval w e2 en tr) as [[v tr1]|]; [|reflexivity]. destruct (items_of v) as [xs|]; [|reflexivity].
  cbn [gens_targets tnames app]. rewrite run_gens_nil.
  pose proof (lambda_clause a en
    (fun x tr' => match eval w e1 (upd en a x) tr' with Some (r, tr2) => Some ([r], tr2) | None => None end)
    (clause_body (eval w) [] (leaf_of (eval w) CGen e1 dummy))) as L.
  match type of L with ?A -> _ => assert (HA0 : A) end.
  { intros ec x tr0 acc Hec. cbn beta. unfold clause_body. cbn [ev_conds]. unfold leaf_of.
    assert (Hf : eval w e1 (upd ec a x) tr0 = eval w e1 (upd en a x) tr0).
    { apply eval_frame. intros y _. unfold upd. destruct (Nat.eqb y a) eqn:E; [reflexivity|]. apply Hec. apply Nat.eqb_neq. exact E. }
    rewrite Hf. destruct (eval w e1 (upd en a x) tr0) as [[r tr2]|]; [|exact I].
    repeat split. intros y Hy. rewrite upd_other by exact Hy. apply Hec, Hy. }
  specialize (L HA0 xs (mask [a] en) tr1 []).
  match type of L with ?A -> _ => assert (HA : A) end.
  { intros y Hy. unfold mask. cbn [memn existsb]. apply Nat.eqb_neq in Hy. rewrite Hy. reflexivity. }
  specialize (L HA).
  destruct (lam_items _ xs tr1 []) as [[l t1]|], (iter_items _ (TName a) xs (mask [a] en) tr1 []) as [[[ec' l'] t2]|];
    try contradiction; [|reflexivity].
  destruct L as [-> ->]. reflexivity.
Qed.

Theorem filter_sound : forall w e e' en tr, rw_filter e = Some e' -> eval w e' en tr = eval w e en tr.
Proof.
  intros w e e' en tr H. destruct e; try discriminate. inversion H; subst e'. clear H. cbn [eval].
  destruct (eval w e2 en tr) as [[v tr1]|]; [|reflexivity]. destruct (items_of v) as [xs|]; [|reflexivity].
  cbn [gens_targets tnames app]. rewrite run_gens_nil.
  pose proof (lambda_clause a en
    (fun x tr' => match eval w e1 (upd en a x) tr' with
                  | Some (r, tr2) => Some (if Bool.eqb (truthy r) (negb neg) then [x] else [], tr2)
                  | None => None end)
    (clause_body (eval w) [if neg then XNot e1 else e1] (leaf_of (eval w) CGen (XName a) dummy))) as L.
  match type of L with ?A -> _ => assert (HA0 : A) end.
  { intros ec x tr0 acc Hec. cbn beta. unfold clause_body. cbn [ev_conds]. unfold leaf_of.
    assert (Hf : eval w e1 (upd ec a x) tr0 = eval w e1 (upd en a x) tr0).
    { apply eval_frame. intros y _. unfold upd. destruct (Nat.eqb y a) eqn:E; [reflexivity|]. apply Hec. apply Nat.eqb_neq. exact E. }
    assert (Hkeep : forall y, y <> a -> upd ec a x y = en y) by (intros y Hy; rewrite upd_other by exact Hy; apply Hec, Hy).
    destruct neg; cbn [eval negb]; rewrite Hf; destruct (eval w e1 (upd en a x) tr0) as [[r tr2]|]; try exact I;
      cbn [truthy]; destruct (truthy r); cbn [negb Bool.eqb eval]; rewrite ?upd_same;
      repeat split; try assumption; try (rewrite app_nil_r; reflexivity). }
  specialize (L HA0 xs (mask [a] en) tr1 []).
  match type of L with ?A -> _ => assert (HA : A) end.
  { intros y Hy. unfold mask. cbn [memn existsb]. apply Nat.eqb_neq in Hy. rewrite Hy. reflexivity. }
  specialize (L HA).
  destruct (lam_items _ xs tr1 []) as [[l t1]|], (iter_items _ (TName a) xs (mask [a] en) tr1 []) as [[[ec' l'] t2]|];
    try contradiction; [|reflexivity].
  destruct L as [-> ->]. reflexivity.
Qed.

(* the rule as it was: `not` bound to the first operand of an `or` *)
Theorem filter_old_refuted :
  exists w e e' en tr, rw_filter_old e = Some e' /\ eval w e' en tr <> eval w e en tr.
Proof.
  exists test_world,
    (XFilter true 1%nat (XBool false [XName 1%nat; XConst (ABool true)]) (XSeq KList [XConst (AInt 0)])).
  eexists. exists (fun _ => None), []. split; [reflexivity|]. vm_compute. discriminate.
Qed.

(* =========================================================================================== *)
(* Refutations (what the faithful models still get wrong: the known findings) and examples of inputs that
   meet the guards of the theorems *)

Definition nn (n : nat) : nat := n.
Definition no_after : nat -> bool := fun _ => false.

(* F02comp-6: the inner iterable reads a variable that the inner for binds: local and unbound in a comprehension *)
Definition scope_prog : st * st :=
  (SAssign 1 (XSeq KList []),
   SFor (TName 2) (XName 8) [SFor (TName 4) (XName 4) [SMeth (RName 1) MAppend (XName 4)] []] []).
Definition scope_env : env := mkenv [(8%nat, VList [VList [VInt 1]]); (4%nat, VList [VInt 5; VInt 6])].

Theorem setlist_scope_refuted :
  exists w s' en tr r, site_setlist no_after (fst scope_prog) (snd scope_prog) = Some s'
    /\ exec_block w [fst scope_prog; snd scope_prog] en tr = Some r /\ exec_block w [s'] en tr = None.
Proof.
  exists test_world. eexists. exists scope_env, []. eexists. split; [reflexivity|]. split; vm_compute; reflexivity.
Qed.

Example setlist_scope_guard_catches_it : site_scoped (fst scope_prog) (snd scope_prog) = false.
Proof. reflexivity. Qed.

(* an input that meets the guards: x = []; for a in v8: if f4(a): for b in f5(a): if b: x.append(f0(a, b)) *)
Definition good_prog : st * st :=
  (SAssign 1 (XSeq KList []),
   SFor (TName 2) (XName 8)
     [SIf (XCall 4 [XName 2])
        [SFor (TName 4) (XCall 5 [XName 2]) [SIf (XName 4) [SMeth (RName 1) MAppend (XCall 0 [XName 2; XName 4])] []] []]
        []] []).

Example setlist_guard_example :
  site_scoped (fst good_prog) (snd good_prog) = true
  /\ site_setlist no_after (fst good_prog) (snd good_prog)
     = Some (SAssign 1 (XComp CList (XCall 0 [XName 2; XName 4]) dummy
                          [XGen (TName 2) (XName 8) [XCall 4 [XName 2]];
                           XGen (TName 4) (XCall 5 [XName 2]) [XName 4]])).
Proof. split; reflexivity. Qed.

(* the loop variable is gone after the rewrite: the two final environments differ on it (hence "outside the
   targets" in the theorems, and the guard dead_after in the rule) *)
Theorem setlist_leak_refuted :
  exists w s1 s2 s' en tr en1 en2 tr1 tr2, site_setlist no_after s1 s2 = Some s'
    /\ exec_block w [s1; s2] en tr = Some (en1, tr1) /\ exec_block w [s'] en tr = Some (en2, tr2)
    /\ en1 2%nat <> en2 2%nat.
Proof.
  exists test_world, (SAssign 1 (XSeq KList [])),
    (SFor (TName 2) (XSeq KList [XConst (AInt 7)]) [SMeth (RName 1) MAppend (XName 2)] []).
  eexists. exists (fun _ => None), []. do 4 eexists. split; [reflexivity|].
  split; [vm_compute; reflexivity|]. split; [vm_compute; reflexivity|]. vm_compute. discriminate.
Qed.

(* F02comp-3: x.extend(generator) looks x up although the loop does not run *)
Theorem nested_loops_refuted :
  exists w s s' en tr r, site_nested 1000 no_after s = Some s'
    /\ exec_block w [s] en tr = Some r /\ exec_block w [s'] en tr = None.
Proof.
  exists test_world, (SFor (TName 2) (XSeq KList []) [SMeth (RName 1) MExtend (XName 2)] []).
  eexists. exists (fun _ => None), []. eexists. split; [reflexivity|]. split; vm_compute; reflexivity.
Qed.

Example nested_guard_example :
  let s := SFor (TName 2) (XName 8) [SIf (XCall 4 [XName 2]) [SMeth (RName 1) MExtend (XCall 5 [XName 2])] []] [] in
  nested_guard 1000 s = true /\ nested_receiver s = Some 1%nat
  /\ site_nested 1000 no_after s
     = Some (SMeth (RName 1) MExtend
               (XComp CGen (XName 1000) dummy
                  [XGen (TName 2) (XName 8) [XCall 4 [XName 2]]; XGen (TName 1000) (XCall 5 [XName 2]) []])).
Proof. repeat split; reflexivity. Qed.

(* F02comp-4: v = 1 + 2; for i in []: v.append(i) *)
Theorem plus_refuted :
  exists w s1 s2 s' en tr r, site_fold false no_after s1 s2 = Some s'
    /\ exec_block w [s1; s2] en tr = Some r /\ exec_block w [s'] en tr = None.
Proof.
  exists test_world, (SAssign 1 (XBin OAdd (XConst (AInt 1)) (XConst (AInt 2)))),
    (SFor (TName 2) (XSeq KList []) [SMeth (RName 1) MAppend (XName 2)] []).
  eexists. exists (fun _ => None), []. eexists. split; [reflexivity|]. split; vm_compute; reflexivity.
Qed.

Example fold_guard_example :
  let s1 := SAssign 1 (XBin OAdd (XName 7) (XSeq KList [XConst (AInt 1)])) in
  let s2 := SFor (TTup [2%nat; 4%nat]) (XName 8) [SMeth (RName 1) MAppend (XCall 0 [XName 2])] [] in
  fold_typed false s2 (XBin OAdd (XName 7) (XSeq KList [XConst (AInt 1)])) = true
  /\ site_fold false no_after s1 s2
     = Some (SAssign 1 (XBin OAdd (XBin OAdd (XName 7) (XSeq KList [XConst (AInt 1)]))
                          (XComp CList (XCall 0 [XName 2]) dummy [XGen (TTup [2%nat; 4%nat]) (XName 8) []]))).
Proof. split; reflexivity. Qed.

(* F02comp-1 / F02comp-2: the calls of the inner conditions and of the outer element are interleaved *)
Definition chained_witness : cx :=
  XComp CList (XCall 0 [XName 2]) dummy
    [XGen (TName 2) (XComp CList (XName 2) dummy
                       [XGen (TName 2) (XSeq KList [XConst (AInt 1); XConst (AInt 3)]) [XCall 4 [XName 2]]]) []].

Theorem chained_refuted :
  exists w e e' en tr r r', rw_chained e = Some e' /\ eval w e en tr = Some r /\ eval w e' en tr = Some r' /\ r <> r'.
Proof.
  exists test_world, chained_witness. eexists. exists (fun _ => None), []. do 2 eexists.
  split; [reflexivity|]. split; [vm_compute; reflexivity|]. split; [vm_compute; reflexivity|]. discriminate.
Qed.

Definition nested_witness : cx :=
  XComp CList (XCall 0 [XName 2]) dummy
    [XGen (TName 2) (XComp CList (XName 4) dummy
                       [XGen (TName 4) (XSeq KList [XConst (AInt 1); XConst (AInt 3)]) [XCall 4 [XName 4]]]) []].

Theorem nested_refuted :
  exists w e e' en tr r r', rw_nested e = Some e' /\ eval w e en tr = Some r /\ eval w e' en tr = Some r' /\ r <> r'.
Proof.
  exists test_world, nested_witness. eexists. exists (fun _ => None), []. do 2 eexists.
  split; [reflexivity|]. split; [vm_compute; reflexivity|]. split; [vm_compute; reflexivity|]. discriminate.
Qed.

(* F02-49: {k: v for k, v in d} iterates the KEYS of a mapping, dict(d) copies it *)
Theorem redundant_dict_refuted :
  exists w e e' en tr r r', rw_redundant e = Some e' /\ eval w e en tr = Some r /\ eval w e' en tr = Some r' /\ r <> r'.
Proof.
  exists test_world, (XComp CDict (XName 2) (XName 4) [XGen (TTup [2%nat; 4%nat]) (XName 8) []]). eexists.
  exists (mkenv [(8%nat, VDict [(VTuple [VInt 1; VInt 2], VInt 3)])]), []. do 2 eexists.
  split; [reflexivity|]. split; [vm_compute; reflexivity|]. split; [vm_compute; reflexivity|]. discriminate.
Qed.

(* =========================================================================================== *)
(* Part 7: expressions without calls of unknown functions neither read nor extend the trace *)

Definition lift_tr {A} (o : option A) (tr : trace) : option (A * trace) :=
  match o with Some a => Some (a, tr) | None => None end.

Definition pure_at (w : world) (e : cx) : Prop :=
  forall en, exists o, forall tr, eval w e en tr = lift_tr o tr.

Definition pure_parts (w : world) (e : cx) : Prop :=
  match e with
  | XGen _ it ifs => pure_at w it /\ Forall (pure_at w) ifs
  | XKV k v => pure_at w k /\ pure_at w v
  | XDStar v => pure_at w v
  | _ => True
  end.

Lemma pure_ev_list : forall w l, Forall (pure_at w) l ->
  forall en, exists o, forall tr, ev_list (eval w) en l tr = lift_tr o tr.
Proof.
  intros w l H. induction H as [|a l Ha _ IH]; intros en.
  - exists (Some []). reflexivity.
  - destruct (Ha en) as [oa Ea]. destruct (IH en) as [ol El]. destruct oa as [v|].
    + destruct ol as [vs|]; [exists (Some (v :: vs)) | exists None]; intros tr; cbn [ev_list]; rewrite Ea; cbn [lift_tr];
        rewrite El; reflexivity.
    + exists None. intros tr. cbn [ev_list]. rewrite Ea. reflexivity.
Qed.

Lemma pure_ev_conds : forall w l, Forall (pure_at w) l ->
  forall en, exists o, forall tr, ev_conds (eval w) en l tr = lift_tr o tr.
Proof.
  intros w l H. induction H as [|a l Ha _ IH]; intros en.
  - exists (Some true). reflexivity.
  - destruct (Ha en) as [oa Ea]. destruct (IH en) as [ol El]. destruct oa as [v|].
    + destruct (truthy v) eqn:T.
      * exists ol. intros tr. cbn [ev_conds]. rewrite Ea. cbn [lift_tr]. rewrite T. apply El.
      * exists (Some false). intros tr. cbn [ev_conds]. rewrite Ea. cbn [lift_tr]. rewrite T. reflexivity.
    + exists None. intros tr. cbn [ev_conds]. rewrite Ea. reflexivity.
Qed.

Lemma pure_ev_bool : forall w b l, Forall (pure_at w) l ->
  forall en, exists o, forall tr, ev_bool (eval w) b en l tr = lift_tr o tr.
Proof.
  intros w b l H. induction H as [|a l Ha _ IH]; intros en.
  - exists None. reflexivity.
  - destruct (Ha en) as [oa Ea]. destruct (IH en) as [ol El]. destruct oa as [v|].
    + destruct l as [|a2 l].
      * exists (Some v). intros tr. cbn [ev_bool]. rewrite Ea. reflexivity.
      * destruct (Bool.eqb (truthy v) b) eqn:T.
        -- exists ol. intros tr. cbn [ev_bool]. rewrite Ea. cbn [lift_tr]. rewrite T. apply El.
        -- exists (Some v). intros tr. cbn [ev_bool]. rewrite Ea. cbn [lift_tr]. rewrite T. reflexivity.
    + exists None. intros tr. cbn [ev_bool]. rewrite Ea. reflexivity.
Qed.

Definition pure_item (w : world) (it : cx) : Prop :=
  match it with
  | XKV k v => pure_at w k /\ pure_at w v
  | XDStar v => pure_at w v
  | _ => True
  end.

Lemma pure_ev_items : forall w l, Forall (pure_item w) l ->
  forall en d, exists o, forall tr, ev_items (eval w) en l d tr = lift_tr o tr.
Proof.
  intros w l H. induction H as [|a l Ha _ IH]; intros en d.
  - exists (Some d). reflexivity.
  - destruct a; try (exists None; reflexivity); cbn [pure_item] in Ha.
    + destruct Ha as [Hk Hv]. destruct (Hk en) as [ok Ek]. destruct (Hv en) as [ov Ev].
      destruct ok as [kv|]; [|exists None; intros tr; cbn [ev_items]; rewrite Ek; reflexivity].
      destruct ov as [vv|]; [|exists None; intros tr; cbn [ev_items]; rewrite Ek; cbn [lift_tr]; rewrite Ev; reflexivity].
      destruct (hashable kv) eqn:Hh.
      * destruct (IH en (dict_set d kv vv)) as [ol El]. exists ol. intros tr. cbn [ev_items]. rewrite Ek. cbn [lift_tr].
        rewrite Ev. cbn [lift_tr]. rewrite Hh. apply El.
      * exists None. intros tr. cbn [ev_items]. rewrite Ek. cbn [lift_tr]. rewrite Ev. cbn [lift_tr]. rewrite Hh. reflexivity.
    + destruct (Ha en) as [ov Ev]. destruct ov as [[]|];
        try (exists None; intros tr; cbn [ev_items]; rewrite Ev; reflexivity).
      destruct (IH en (dict_update d d0)) as [ol El]. exists ol. intros tr. cbn [ev_items]. rewrite Ev. apply El.
Qed.

(* clause machinery whose pieces are pure *)
Definition pure_k (k : env -> trace -> list val -> res) : Prop :=
  forall en acc, exists o, forall tr, k en tr acc = lift_tr o tr.

Lemma pure_iter_items : forall body t, pure_k body -> forall xs, pure_k (iter_items body t xs).
Proof.
  intros body t Hb. induction xs as [|x xs IH]; intros en acc.
  - exists (Some (en, acc)). reflexivity.
  - destruct (bind t x en) as [en'|] eqn:B; [|exists None; intros tr; cbn [iter_items]; rewrite B; reflexivity].
    destruct (Hb en' acc) as [ob Eb]. destruct ob as [[e2 a2]|].
    + destruct (IH e2 a2) as [ol El]. exists ol. intros tr. cbn [iter_items]. rewrite B, Eb. apply El.
    + exists None. intros tr. cbn [iter_items]. rewrite B, Eb. reflexivity.
Qed.

Lemma pure_clause_body : forall w ifs k, Forall (pure_at w) ifs -> pure_k k -> pure_k (clause_body (eval w) ifs k).
Proof.
  intros w ifs k Hifs Hk en acc. destruct (pure_ev_conds w ifs Hifs en) as [oc Ec]. destruct oc as [[]|].
  - destruct (Hk en acc) as [ok Ek]. exists ok. intros tr. unfold clause_body. rewrite Ec. apply Ek.
  - exists (Some (en, acc)). intros tr. unfold clause_body. rewrite Ec. reflexivity.
  - exists None. intros tr. unfold clause_body. rewrite Ec. reflexivity.
Qed.

Definition pure_gen (w : world) (g : cx) : Prop :=
  match g with XGen _ it ifs => pure_at w it /\ Forall (pure_at w) ifs | _ => True end.

Lemma pure_run_gens : forall w leaf gens, pure_k leaf -> Forall (pure_gen w) gens -> pure_k (run_gens (eval w) leaf gens).
Proof.
  intros w leaf gens Hl H. induction H as [|g gens Hg _ IH]; intros en acc.
  - destruct (Hl en acc) as [o E]. exists o. exact E.
  - destruct g; try (exists None; reflexivity). cbn [pure_gen] in Hg. destruct Hg as [Hit Hifs].
    destruct (Hit en) as [oi Ei]. destruct oi as [v|]; [|exists None; intros tr; cbn [run_gens]; rewrite Ei; reflexivity].
    destruct (items_of v) as [xs|] eqn:Hv; [|exists None; intros tr; cbn [run_gens]; rewrite Ei; cbn [lift_tr]; rewrite Hv; reflexivity].
    destruct (pure_iter_items _ t (pure_clause_body w ifs _ Hifs IH) xs en acc) as [o E].
    exists o. intros tr. cbn [run_gens]. rewrite Ei. cbn [lift_tr]. rewrite Hv. apply E.
Qed.

Lemma pure_leaf_of : forall w k elt dval, pure_at w elt -> pure_at w dval -> pure_k (leaf_of (eval w) k elt dval).
Proof.
  intros w k elt dval He Hd en acc. destruct (He en) as [oe Ee]. destruct oe as [v|]; [|exists None; intros tr; unfold leaf_of; rewrite Ee; reflexivity].
  destruct k; try (exists (Some (en, acc ++ [v])); intros tr; unfold leaf_of; rewrite Ee; reflexivity).
  destruct (Hd en) as [od Ed]. destruct od as [dv|].
  - exists (Some (en, acc ++ [VTuple [v; dv]])). intros tr. unfold leaf_of. rewrite Ee. cbn [lift_tr]. rewrite Ed. reflexivity.
  - exists None. intros tr. unfold leaf_of. rewrite Ee. cbn [lift_tr]. rewrite Ed. reflexivity.
Qed.

Lemma effect_pure : forall w e, effect e = false -> pure_at w e /\ pure_parts w e.
Proof.
  intros w e. induction e using cx_ind'; intros He; cbn [effect] in He; try discriminate.
  - split; [|exact I]. intros en. exists (Some (val_of_atom a)). reflexivity.
  - split; [|exact I]. intros en. exists (en x). intros tr. cbn [eval]. destruct (en x); reflexivity.
  - (* XBi *)
    split; [|exact I]. intros en.
    assert (HF : Forall (pure_at w) args).
    { rewrite Forall_forall in *. intros a0 Ha. apply (H a0 Ha). destruct (effect a0) eqn:E; [|reflexivity].
      assert (existsb effect args = true) by (apply existsb_exists; exists a0; split; assumption). congruence. }
    destruct (pure_ev_list w args HF en) as [o E]. destruct o as [vs|].
    + exists (capply b vs). intros tr. cbn [eval]. rewrite E. cbn [lift_tr]. destruct (capply b vs); reflexivity.
    + exists None. intros tr. cbn [eval]. rewrite E. reflexivity.
  - (* XSeq *)
    split; [|exact I]. intros en.
    assert (HF : Forall (pure_at w) args).
    { rewrite Forall_forall in *. intros a0 Ha. apply (H a0 Ha). destruct (effect a0) eqn:E; [|reflexivity].
      assert (existsb effect args = true) by (apply existsb_exists; exists a0; split; assumption). congruence. }
    destruct (pure_ev_list w args HF en) as [o E]. destruct o as [vs|].
    + exists (match k with KList => Some (VList vs) | KTuple => Some (VTuple vs) | KSet => mkset vs end).
      intros tr. cbn [eval]. rewrite E. cbn [lift_tr]. destruct k; reflexivity.
    + exists None. intros tr. cbn [eval]. rewrite E. reflexivity.
  - (* XDict *)
    split; [|exact I]. intros en.
    assert (HF : Forall (pure_item w) args).
    { rewrite Forall_forall in *. intros a0 Ha.
      assert (E0 : effect a0 = false).
      { destruct (effect a0) eqn:E; [|reflexivity].
        assert (existsb effect args = true) by (apply existsb_exists; exists a0; split; assumption). congruence. }
      destruct (H a0 Ha E0) as [_ Hp]. destruct a0; cbn [pure_item pure_parts] in *; try exact I; exact Hp. }
    destruct (pure_ev_items w args HF en []) as [o E]. destruct o as [d|].
    + exists (Some (VDict d)). intros tr. cbn [eval]. rewrite E. reflexivity.
    + exists None. intros tr. cbn [eval]. rewrite E. reflexivity.
  - (* XBin *)
    apply orb_false_iff in He as [H1 H2]. destruct (IHe1 H1) as [P1 _]. destruct (IHe2 H2) as [P2 _].
    split; [|exact I]. intros en. destruct (P1 en) as [o1 E1]. destruct (P2 en) as [o2 E2].
    destruct o1 as [a|]; [|exists None; intros tr; cbn [eval]; rewrite E1; reflexivity].
    destruct o2 as [b|]; [|exists None; intros tr; cbn [eval]; rewrite E1; cbn [lift_tr]; rewrite E2; reflexivity].
    exists (binop_val o a b). intros tr. cbn [eval]. rewrite E1. cbn [lift_tr]. rewrite E2. cbn [lift_tr].
    destruct (binop_val o a b); reflexivity.
  - destruct (IHe He) as [P _]. split; [|exact I]. intros en. destruct (P en) as [o E]. destruct o as [v|].
    + exists (match num v with Some z => Some (VInt (- z)) | None => None end). intros tr. cbn [eval]. rewrite E.
      cbn [lift_tr]. destruct (num v); reflexivity.
    + exists None. intros tr. cbn [eval]. rewrite E. reflexivity.
  - destruct (IHe He) as [P _]. split; [|exact I]. intros en. destruct (P en) as [o E]. destruct o as [v|].
    + exists (Some (VBool (negb (truthy v)))). intros tr. cbn [eval]. rewrite E. reflexivity.
    + exists None. intros tr. cbn [eval]. rewrite E. reflexivity.
  - (* XBool *)
    split; [|exact I]. intros en.
    assert (HF : Forall (pure_at w) args).
    { rewrite Forall_forall in *. intros a0 Ha. apply (H a0 Ha). destruct (effect a0) eqn:E; [|reflexivity].
      assert (existsb effect args = true) by (apply existsb_exists; exists a0; split; assumption). congruence. }
    destruct (pure_ev_bool w a args HF en) as [o E]. exists o. intros tr. cbn [eval]. apply E.
  - (* XComp *)
    apply orb_false_iff in He as [He Hg]. apply orb_false_iff in He as [H1 H2].
    destruct (IHe1 H1) as [P1 _]. destruct (IHe2 H2) as [P2 _].
    split; [|exact I]. intros en.
    destruct gens as [|g rest]; [exists None; reflexivity|]. destruct g; try (exists None; reflexivity).
    cbn [existsb] in Hg. apply orb_false_iff in Hg as [Hg1 Hgr].
    inversion H as [|? ? Hfirst Hrest]; subst. destruct (Hfirst Hg1) as [_ [Pit Pifs]].
    assert (HGr : Forall (pure_gen w) rest).
    { rewrite Forall_forall in *. intros a0 Ha.
      assert (E0 : effect a0 = false).
      { destruct (effect a0) eqn:E; [|reflexivity].
        assert (existsb effect rest = true) by (apply existsb_exists; exists a0; split; assumption). congruence. }
      destruct (Hrest a0 Ha E0) as [_ Hp]. destruct a0; cbn [pure_gen pure_parts] in *; try exact I; exact Hp. }
    destruct (Pit en) as [oi Ei]. destruct oi as [v|]; [|exists None; intros tr; cbn [eval]; rewrite Ei; reflexivity].
    destruct (items_of v) as [xs|] eqn:Hv; [|exists None; intros tr; cbn [eval]; rewrite Ei; cbn [lift_tr]; rewrite Hv; reflexivity].
    destruct (pure_iter_items _ t
                (pure_clause_body w ifs _ Pifs (pure_run_gens w _ rest (pure_leaf_of w k e1 e2 P1 P2) HGr))
                xs (mask (gens_targets (XGen t g ifs :: rest)) en) []) as [o E].
    destruct o as [[e' acc]|].
    + exists (finish k acc). intros tr. cbn [eval]. rewrite Ei. cbn [lift_tr]. rewrite Hv, E. cbn [lift_tr].
      destruct (finish k acc); reflexivity.
    + exists None. intros tr. cbn [eval]. rewrite Ei. cbn [lift_tr]. rewrite Hv, E. reflexivity.
  - (* XGen *)
    apply orb_false_iff in He as [H1 H2]. split.
    + intros en. exists None. reflexivity.
    + cbn [pure_parts]. split; [apply IHe, H1|].
      rewrite Forall_forall in *. intros a0 Ha. apply (H a0 Ha). destruct (effect a0) eqn:E; [|reflexivity].
      assert (existsb effect ifs = true) by (apply existsb_exists; exists a0; split; assumption). congruence.
  - apply orb_false_iff in He as [H1 H2]. split.
    + intros en. exists None. reflexivity.
    + cbn [pure_parts]. split; [apply IHe1, H1 | apply IHe2, H2].
  - split.
    + intros en. exists None. reflexivity.
    + cbn [pure_parts]. apply IHe, He.
Qed.

Lemma pure_eval : forall w e en, effect e = false -> exists o, forall tr, eval w e en tr = lift_tr o tr.
Proof. intros w e en H. destruct (effect_pure w e H) as [P _]. apply P. Qed.

(* ---- d[k] = v in a nest  ~  a dict comprehension ---- *)

Lemma pairs_dict_snoc : forall acc d k v,
  pairs_dict (acc ++ [VTuple [k; v]]) d =
  match pairs_dict acc d with
  | Some d' => if hashable k then Some (dict_set d' k v) else None
  | None => None
  end.
Proof.
  induction acc as [|a acc IH]; intros d k v; cbn [app pairs_dict].
  - destruct (hashable k); reflexivity.
  - destruct a; try reflexivity. destruct l as [|k1 [|v1 [|? ?]]]; try reflexivity.
    destruct (hashable k1); [apply IH | reflexivity].
Qed.

Lemma pairs_dict_start : forall acc d0 dc0 d1, wfd dc0 ->
  pairs_dict acc (dict_update d0 dc0) = Some d1 ->
  exists dc, pairs_dict acc dc0 = Some dc /\ d1 = dict_update d0 dc.
Proof.
  induction acc as [|a acc IH]; intros d0 dc0 d1 Hw H; cbn [pairs_dict] in *.
  - inversion H. exists dc0. split; reflexivity.
  - destruct a; try discriminate. destruct l as [|k1 [|v1 [|? ?]]]; try discriminate.
    destruct (hashable k1); [|discriminate]. rewrite <- (update_set dc0 d0 k1 v1 Hw) in H.
    apply (IH d0 (dict_set dc0 k1 v1) d1 (wfd_set dc0 k1 v1 Hw) H).
Qed.

Theorem dict_nest_sound : forall w x cl k v d0 en tr el' tr',
  nest_guard x [] cl [k; v] = true -> effect k && effect v = false ->
  exec_block w (build cl [SSetItem x k v]) (upd en x (VDict d0)) tr = Some (el', tr') ->
  exists dc,
    eval w (XComp CDict k v (map (gen_of true) cl)) en tr = Some (VDict dc, tr')
    /\ el' x = Some (VDict (dict_update d0 dc))
    /\ (forall y, y <> x -> memn y (clause_targets cl) = false -> el' y = en y).
Proof.
  intros w x cl k v d0 en tr el' tr' G Hpure Hex.
  destruct (nest_guard_parts _ _ _ _ G) as [Ge [Gx [GF Gs]]].
  destruct (Ge k (or_introl eq_refl)) as [Hxk HFk].
  destruct (Ge v (or_intror (or_introl eq_refl))) as [Hxv HFv].
  destruct cl as [|[[t it] ifs] cl]; [discriminate|].
  set (T := clause_targets ((t, it, ifs) :: cl)) in *.
  destruct (top_sim w x [] T [] [SSetItem x k v] (leaf_of (eval w) CDict k v)
              (fun c acc => exists d, c = VDict d /\ pairs_dict acc d0 = Some d) true) with
      (t := t) (it := it) (ifs := ifs) (cl := cl) (M := T) (en := en) (el := upd en x (VDict d0))
      (c := VDict d0) (tr := tr) (el' := el') (tr' := tr')
    as [iv [tr1 [xs [ec' [acc [c' [E1 [E2 [E3 [E4 [[d1 [E5 E5']] E6]]]]]]]]]]]; try assumption; try reflexivity.
  - (* the leaf: the value is evaluated first in the loop, the key first in the comprehension; one of them
       neither reads nor extends the trace *)
    intros Bd el ec tr0 acc c el0 tr0' Hall A Hx [d [Hc HI]] Hl. subst c.
    rewrite exec_block1 in Hl. cbn [exec] in Hl.
    rewrite (leaf_frame w x [] T Bd v el ec tr0 Hall Hxv HFv A) in Hl.
    destruct (eval w v ec tr0) as [[vv tr1]|] eqn:Ev; [|discriminate]. rewrite Hx in Hl.
    rewrite (leaf_frame w x [] T Bd k el ec tr1 Hall Hxk HFk A) in Hl.
    destruct (eval w k ec tr1) as [[kv tr2]|] eqn:Ek; [|discriminate].
    destruct (hashable kv) eqn:Hh; [|discriminate]. inversion Hl; subst el0 tr0'. clear Hl.
    assert (Hcomp : eval w k ec tr0 = Some (kv, if effect k then tr2 else tr0)
                    /\ eval w v ec (if effect k then tr2 else tr0) = Some (vv, tr2)).
    { apply andb_false_iff in Hpure as [Hp|Hp].
      - rewrite Hp. destruct (pure_eval w k ec Hp) as [o Eo]. rewrite Eo in Ek. destruct o as [kv'|]; [|discriminate].
        cbn [lift_tr] in Ek. inversion Ek; subst. split; [rewrite Eo; reflexivity | exact Ev].
      - destruct (pure_eval w v ec Hp) as [o Eo]. rewrite Eo in Ev. destruct o as [vv'|]; [|discriminate].
        cbn [lift_tr] in Ev. inversion Ev; subst. destruct (effect k) eqn:Ek0; [split; [exact Ek | rewrite Eo; reflexivity]|].
        destruct (pure_eval w k ec Ek0) as [o2 Eo2]. rewrite Eo2 in Ek. destruct o2; [|discriminate].
        cbn [lift_tr] in Ek. inversion Ek; subst. split; [rewrite Eo2; reflexivity | rewrite Eo; reflexivity]. }
    destruct Hcomp as [Hk1 Hv1]. unfold leaf_of. rewrite Hk1, Hv1.
    exists ec, (acc ++ [VTuple [kv; vv]]), (VDict (dict_set d kv vv)). repeat split.
    + unfold upd. rewrite Nat.eqb_refl. reflexivity.
    + exists (dict_set d kv vv). split; [reflexivity|]. rewrite pairs_dict_snoc, HI, Hh. reflexivity.
    + intros y Hy. rewrite (SB_other x [] T Bd el y _ Hy). apply A, Hy.
    + intros y Hy _. unfold upd. apply Nat.eqb_neq in Hy. rewrite Hy. reflexivity.
  - intros y Hy. left. exact Hy.
  - intros y Hy _. unfold upd. apply Nat.eqb_neq in Hy. rewrite Hy. reflexivity.
  - unfold upd. rewrite Nat.eqb_refl. reflexivity.
  - exists d0. split; reflexivity.
  - assert (Hd0 : d0 = dict_update d0 []) by reflexivity. rewrite Hd0 in E5'.
    destruct (pairs_dict_start acc d0 [] d1 I E5') as [dc [Hdc Hd1]].
    exists dc. split; [|split].
    + cbn [eval map gen_of]. rewrite E1, E2. cbn [gens_targets]. rewrite gens_targets_map.
      change (tnames t ++ clause_targets cl) with T. rewrite E3. cbn [finish]. rewrite Hdc. reflexivity.
    + rewrite E4, E5, Hd1. reflexivity.
    + intros y Hy HT. rewrite (E6 y Hy eq_refl HT). unfold upd. apply Nat.eqb_neq in Hy. rewrite Hy. reflexivity.
Qed.

(* dicts that evaluation builds have no duplicate keys; re-inserting their items in order rebuilds them *)
Lemma dict_set_new : forall d k v, dict_has d k = false -> dict_set d k v = d ++ [(k, v)].
Proof.
  induction d as [|[k0 v0] d IH]; intros k v H; [reflexivity|]. cbn [dict_set]. cbn [dict_has existsb fst] in H.
  apply orb_false_iff in H as [H1 H2]. rewrite H1. cbn [app]. f_equal. apply IH. exact H2.
Qed.

Lemma dict_has_app : forall a b k, dict_has (a ++ b) k = dict_has a k || dict_has b k.
Proof. intros. unfold dict_has. apply existsb_app. Qed.

Lemma wfd_rebuild_from : forall d acc, wfd d ->
  forallb (fun kv => negb (dict_has acc (fst kv))) d = true -> dict_update acc d = acc ++ d.
Proof.
  induction d as [|[k v] d IH]; intros acc Hw Hn; unfold dict_update in *; cbn [fold_left fst snd].
  - rewrite app_nil_r. reflexivity.
  - cbn [forallb fst] in Hn. apply andb_true_iff in Hn as [Hk Hn]. apply negb_true_iff in Hk.
    destruct Hw as [Hnot Hw]. rewrite (dict_set_new acc k v Hk). rewrite IH; [rewrite <- app_assoc; reflexivity | exact Hw |].
    rewrite forallb_forall in *. intros [k1 v1] Hin. specialize (Hn _ Hin). cbn [fst] in *.
    apply negb_true_iff in Hn. apply negb_true_iff. rewrite dict_has_app, Hn. cbn [dict_has existsb fst orb].
    rewrite orb_false_r.
    (* k is not among the later keys *)
    destruct (key_eqb k k1) eqn:E; [|reflexivity].
    assert (dict_has d k = true).
    { unfold dict_has. apply existsb_exists. exists (k1, v1). split; [exact Hin|]. cbn [fst]. rewrite key_eqb_sym. exact E. }
    congruence.
Qed.

Lemma wfd_rebuild : forall d, wfd d -> dict_update [] d = d.
Proof.
  intros d H. rewrite (wfd_rebuild_from d [] H); [reflexivity|]. apply forallb_forall. intros kv _. reflexivity.
Qed.

Lemma wfd_ev_items : forall w en l d tr d' tr', wfd d -> ev_items (eval w) en l d tr = Some (d', tr') -> wfd d'.
Proof.
  induction l as [|a l IH]; intros d tr d' tr' Hw H; cbn [ev_items] in H.
  - inversion H; subst. exact Hw.
  - destruct a; try discriminate.
    + destruct (eval w a1 en tr) as [[kv tr1]|]; [|discriminate]. destruct (eval w a2 en tr1) as [[vv tr2]|]; [|discriminate].
      destruct (hashable kv); [|discriminate]. eapply IH; [|exact H]. apply wfd_set, Hw.
    + destruct (eval w a en tr) as [[[] tr1]|]; try discriminate. eapply IH; [|exact H]. apply wfd_update, Hw.
Qed.

Lemma wfd_pairs_dict : forall acc d d', wfd d -> pairs_dict acc d = Some d' -> wfd d'.
Proof.
  induction acc as [|a acc IH]; intros d d' Hw H; cbn [pairs_dict] in H.
  - inversion H; subst. exact Hw.
  - destruct a; try discriminate. destruct l as [|k1 [|v1 [|? ?]]]; try discriminate.
    destruct (hashable k1); [|discriminate]. eapply IH; [|exact H]. apply wfd_set, Hw.
Qed.

Lemma ev_items_app : forall w en l1 l2 d tr,
  ev_items (eval w) en (l1 ++ l2) d tr =
  match ev_items (eval w) en l1 d tr with Some (d', tr') => ev_items (eval w) en l2 d' tr' | None => None end.
Proof.
  induction l1 as [|a l1 IH]; intros l2 d tr; cbn [app ev_items]; [reflexivity|].
  destruct a; try reflexivity.
  - destruct (eval w a1 en tr) as [[kv tr1]|]; [|reflexivity]. destruct (eval w a2 en tr1) as [[vv tr2]|]; [|reflexivity].
    destruct (hashable kv); [apply IH | reflexivity].
  - destruct (eval w a en tr) as [[[] tr1]|]; try reflexivity. apply IH.
Qed.

(* the start values of replace_for_loops_with_dict_comp evaluate to dicts without duplicate keys *)
Lemma dict_start_wfd : forall w value en tr c tr',
  (match value with XDict _ | XComp CDict _ _ _ => true | _ => false end) = true ->
  eval w value en tr = Some (c, tr') -> exists d, c = VDict d /\ wfd d.
Proof.
  intros w value en tr c tr' Hv He. destruct value; try discriminate.
  - cbn [eval] in He. destruct (ev_items (eval w) en items [] tr) as [[d t1]|] eqn:E; [|discriminate].
    inversion He; subst. exists d. split; [reflexivity|]. eapply wfd_ev_items; [|exact E]. exact I.
  - destruct k; try discriminate. cbn [eval] in He.
    destruct gens as [|g rest]; [discriminate|]. destruct g; try discriminate.
    destruct (eval w g en tr) as [[iv t1]|]; [|discriminate]. destruct (items_of iv) as [xs|]; [|discriminate].
    destruct (iter_items _ t xs _ t1 []) as [[[e' acc] t2]|]; [|discriminate]. cbn [finish] in He.
    destruct (pairs_dict acc []) as [d|] eqn:E; [|discriminate]. inversion He; subst. exists d. split; [reflexivity|].
    eapply wfd_pairs_dict; [|exact E]. exact I.
Qed.

Theorem dictcomp_site_sound : forall w after s1 s2 s',
  site_dictcomp after s1 s2 = Some s' -> site_scoped s1 s2 = true ->
  forall en tr en1 tr1, exec_block w [s1; s2] en tr = Some (en1, tr1) ->
  exists en2, exec_block w [s'] en tr = Some (en2, tr1)
    /\ forall y, memn y (site_targets s2) = false -> en1 y = en2 y.
Proof.
  intros w after s1 s2 s' Hs Hsc en tr en1 tr1 Hex.
  unfold site_dictcomp in Hs. unfold site_scoped in Hsc. unfold site_targets.
  destruct s1 as [x value| | | | | |]; try discriminate.
  destruct (loop_shape s2) as [[cl leaf]|] eqn:Hshape; [|discriminate].
  pose proof (loop_shape_sound _ _ _ Hshape) as Hb.
  destruct leaf as [| | | x' k v | | |]; try discriminate.
  destruct (Nat.eqb x' x) eqn:Ex; [|discriminate]. apply Nat.eqb_eq in Ex. subst x'. cbn [andb] in Hs.
  destruct (mentions x k) eqn:Hxk; [discriminate|]. destruct (mentions x v) eqn:Hxv; [discriminate|].
  destruct (existsb (mentions x) (map (gen_of true) cl)) eqn:Hxg; [discriminate|]. cbn [negb andb] in Hs.
  destruct (dead_after after (clause_targets cl)); [|discriminate]. cbn [andb] in Hs.
  destruct (effect k && effect v) eqn:Hpure; [discriminate|]. cbn [negb] in Hs.
  assert (G : nest_guard x [] cl [k; v] = true).
  { unfold nest_guard. cbn [forallb]. rewrite Hxk, Hxv, (gens_mention_targets x true cl Hxg), Hsc. reflexivity. }
  change [SAssign x value; s2] with ([SAssign x value] ++ [s2]) in Hex. rewrite exec_block_app, Hb in Hex.
  rewrite exec_block1 in Hex. cbn [exec] in Hex.
  destruct (eval w value en tr) as [[c0 tr0]|] eqn:Ev; [|discriminate].
  assert (Hstart : (match value with XDict _ | XComp CDict _ _ _ => true | _ => false end) = true).
  { destruct value; try discriminate; try reflexivity. destruct k0; try discriminate; reflexivity. }
  destruct (dict_start_wfd w value en tr c0 tr0 Hstart Ev) as [d0 [-> Hw0]].
  destruct (dict_nest_sound w x cl k v d0 en tr0 en1 tr1 G Hpure Hex) as [dc [E1 [E2 E3]]].
  assert (Hfinal : forall e', eval w e' en tr = Some (VDict (dict_update d0 dc), tr1) ->
            exists en2, exec_block w [SAssign x e'] en tr = Some (en2, tr1)
              /\ forall y, memn y (clause_targets cl) = false -> en1 y = en2 y).
  { intros e' He'. exists (upd en x (VDict (dict_update d0 dc))). split.
    - rewrite exec_block1. cbn [exec]. rewrite He'. reflexivity.
    - intros y Hy. destruct (Nat.eq_dec y x) as [->|Hn]; [rewrite E2, upd_same; reflexivity|].
      rewrite (E3 y Hn Hy), upd_other by exact Hn. reflexivity. }
  (* {**value, **comp}: the first unpacking rebuilds value *)
  assert (Hwrap : eval w (XDict [XDStar value; XDStar (XComp CDict k v (map (gen_of true) cl))]) en tr
                  = Some (VDict (dict_update d0 dc), tr1)).
  { cbn [eval ev_items]. rewrite Ev. cbn [eval] in E1. rewrite E1.
    change (dict_update [] d0) with (dict_update [] d0). rewrite (wfd_rebuild d0 Hw0). reflexivity. }
  destruct value as [| | | | | items | | | | | kk ee dd gg | | | | |]; try discriminate.
  - (* a display *)
    destruct items as [|i0 items].
    + (* {} *)
      inversion Hs; subst s'. apply Hfinal. cbn [eval ev_items] in Ev. inversion Ev; subst.
      rewrite E1. unfold dict_update. cbn [fold_left].
      assert (Hr : fold_left (fun d kv => dict_set d (fst kv) (snd kv)) dc [] = dc).
      { apply (wfd_rebuild dc). cbn [eval] in E1.
        destruct cl as [|[[t it] ifs] cl]; [discriminate|]. cbn [map gen_of] in E1.
        destruct (eval w it en tr0) as [[iv t1]|]; [|discriminate]. destruct (items_of iv) as [xs|]; [|discriminate].
        destruct (iter_items _ t xs _ t1 []) as [[[e' acc] t2]|]; [|discriminate]. cbn [finish] in E1.
        destruct (pairs_dict acc []) as [d|] eqn:E; [|discriminate]. inversion E1; subst.
        eapply wfd_pairs_dict; [|exact E]. exact I. }
      rewrite Hr. reflexivity.
    + destruct (forallb is_dstar (i0 :: items)) eqn:Hall.
      * (* only unpackings: the comprehension is unpacked after them *)
        inversion Hs; subst s'. apply Hfinal. cbn [eval] in Ev |- *.
        destruct (ev_items (eval w) en (i0 :: items) [] tr) as [[dd tt]|] eqn:Ei; [|discriminate].
        inversion Ev; subst dd tt. rewrite ?app_comm_cons. rewrite ev_items_app, Ei. cbn [ev_items]. rewrite E1. reflexivity.
      * inversion Hs; subst s'. apply Hfinal. exact Hwrap.
  - (* a dict comprehension *)
    destruct kk; try discriminate. inversion Hs; subst s'. apply Hfinal. exact Hwrap.
Qed.

Lemma dictcomp_dead : forall after s1 s2 s', site_dictcomp after s1 s2 = Some s' ->
  dead_after after (site_targets s2) = true.
Proof.
  intros after s1 s2 s' Hs. unfold site_dictcomp in Hs. unfold site_targets.
  destruct s1 as [x value| | | | | |]; try discriminate.
  destruct (loop_shape s2) as [[cl leaf]|]; [|discriminate].
  destruct leaf as [| | | x' k v | | |]; try discriminate.
  destruct (dead_after after (clause_targets cl)) eqn:E; [reflexivity|]. exfalso.
  rewrite !andb_false_r in Hs. cbn [andb] in Hs. discriminate.
Qed.

Theorem dictcomp_in_context : forall w s1 s2 s' rest,
  site_dictcomp (fun n => blk_rd n rest) s1 s2 = Some s' -> site_scoped s1 s2 = true ->
  site_rel w (site_targets s2) (s1 :: s2 :: rest) (s' :: rest).
Proof.
  intros w s1 s2 s' rest Hs Hsc.
  apply (in_context w (site_targets s2) [s1; s2] [s'] rest).
  - intros en tr en1 tr1 Hex. eapply dictcomp_site_sound; eassumption.
  - apply dead_after_blk. eapply dictcomp_dead; eassumption.
Qed.

(* the rule as it was before 9a002ae: key and value both call *)
Definition site_dictcomp_old (s1 s2 : st) : option st :=
  match s1, loop_shape s2 with
  | SAssign x (XDict []), Some (cl, SSetItem x' k v) =>
      if Nat.eqb x' x then Some (SAssign x (XComp CDict k v (map (gen_of true) cl))) else None
  | _, _ => None
  end.

Theorem dictcomp_order_refuted :
  exists w s1 s2 s' en tr r r', site_dictcomp_old s1 s2 = Some s'
    /\ exec_block w [s1; s2] en tr = Some r /\ exec_block w [s'] en tr = Some r' /\ snd r <> snd r'.
Proof.
  exists test_world, (SAssign 1 (XDict [])),
    (SFor (TName 2) (XSeq KList [XConst (AInt 1)]) [SSetItem 1 (XCall 0 [XName 2]) (XCall 6 [XName 2])] []).
  eexists. exists (fun _ => None), []. do 2 eexists. split; [reflexivity|].
  split; [vm_compute; reflexivity|]. split; [vm_compute; reflexivity|]. vm_compute. discriminate.
Qed.

(* =========================================================================================== *)
(* Part 8: merge_chained_comps when the inner conditions make no unknown calls *)

Definition all_names : nat -> bool := fun _ => true.

Lemma framed_all : forall w e, framed all_names w e.
Proof. intros w e. destruct (eval_frame_all w e all_names (fun _ _ => eq_refl)) as [F _]. exact F. Qed.

Lemma agree_all : forall (en1 en2 : env), (forall y, en1 y = en2 y) -> agree_on all_names en1 en2.
Proof. intros en1 en2 H y _. apply H. Qed.

Lemma ev_conds_ext : forall w ifs en1 en2 tr, (forall y, en1 y = en2 y) ->
  ev_conds (eval w) en1 ifs tr = ev_conds (eval w) en2 ifs tr.
Proof.
  intros w ifs en1 en2 tr H. apply (ev_conds_frame all_names w ifs); [|apply agree_all, H].
  apply Forall_forall. intros c _. apply framed_all.
Qed.

Lemma ev_conds_app : forall w en l1 l2 tr,
  ev_conds (eval w) en (l1 ++ l2) tr =
  match ev_conds (eval w) en l1 tr with
  | Some (true, tr1) => ev_conds (eval w) en l2 tr1
  | r => r
  end.
Proof.
  induction l1 as [|c l1 IH]; intros l2 tr; cbn [app ev_conds]; [reflexivity|].
  destruct (eval w c en tr) as [[cv tr1]|]; [|reflexivity]. destruct (truthy cv); [apply IH | reflexivity].
Qed.

Lemma pure_conds : forall w ifs en, forallb (fun c => negb (effect c)) ifs = true ->
  exists o, forall tr, ev_conds (eval w) en ifs tr = lift_tr o tr.
Proof.
  intros w ifs en H. apply pure_ev_conds. apply Forall_forall. intros c Hc. rewrite forallb_forall in H.
  specialize (H c Hc). apply negb_true_iff in H. apply (effect_pure w c H).
Qed.

Definition res_eq (r1 r2 : res) : Prop :=
  match r1, r2 with
  | Some (_, a1, t1), Some (_, a2, t2) => a1 = a2 /\ t1 = t2
  | None, None => True
  | _, _ => False
  end.

Section Chained.
  Variables (w : world) (k : ckind) (x : nat) (elt dval dv' : cx) (ifs_in ifs_out : list cx) (base : env).
  Hypothesis Hk : k <> CDict.
  Hypothesis Hpure : forallb (fun c => negb (effect c)) ifs_in = true.

  Let inner := clause_body (eval w) ifs_in (leaf_of (eval w) k (XName x) dv').
  Let outer := clause_body (eval w) ifs_out (leaf_of (eval w) k elt dval).
  Let merged := clause_body (eval w) (ifs_in ++ ifs_out) (leaf_of (eval w) k elt dval).

  Definition off_x (e : env) : Prop := forall y, y <> x -> e y = base y.

  Lemma off_x_upd : forall e v, off_x e -> off_x (upd e x v).
  Proof. intros e v H y Hy. rewrite upd_other by exact Hy. apply H, Hy. Qed.

  Lemma upd_ext : forall e1 e2 v, off_x e1 -> off_x e2 -> forall y, upd e1 x v y = upd e2 x v y.
  Proof.
    intros e1 e2 v H1 H2 y. unfold upd. destruct (Nat.eqb y x) eqn:E; [reflexivity|].
    apply Nat.eqb_neq in E. rewrite (H1 y E), (H2 y E). reflexivity.
  Qed.

  Lemma outer_step_ext : forall e2 e3 tr acc, (forall y, e2 y = e3 y) ->
    match leaf_of (eval w) k elt dval e2 tr acc, leaf_of (eval w) k elt dval e3 tr acc with
    | Some (f2, a2, t2), Some (f3, a3, t3) => f2 = e2 /\ f3 = e3 /\ a2 = a3 /\ t2 = t3
    | None, None => True
    | _, _ => False
    end.
  Proof.
    intros e2 e3 tr acc H. unfold leaf_of. rewrite (framed_all w elt e2 e3 tr (agree_all e2 e3 H)).
    destruct (eval w elt e3 tr) as [[v tr1]|]; [|exact I].
    destruct k; try (repeat split; reflexivity). contradiction.
  Qed.

  Lemma chained_items : forall xs e1 e2 e3 tI tr a1 a2, off_x e1 -> off_x e2 -> off_x e3 ->
    match iter_items inner (TName x) xs e1 tI a1 with
    | None => iter_items merged (TName x) xs e3 tr a2 = None
    | Some (_, a1', t') =>
        t' = tI /\ exists ys, a1' = a1 ++ ys
          /\ res_eq (iter_items merged (TName x) xs e3 tr a2) (iter_items outer (TName x) ys e2 tr a2)
    end.
  Proof.
    induction xs as [|x0 xs IH]; intros e1 e2 e3 tI tr a1 a2 H1 H2 H3; cbn [iter_items bind].
    - split; [reflexivity|]. exists []. rewrite app_nil_r. split; [reflexivity|]. cbn. auto.
    - destruct (pure_conds w ifs_in (upd e1 x x0) Hpure) as [oc Ec].
      assert (Ec3 : forall t, ev_conds (eval w) (upd e3 x x0) ifs_in t = lift_tr oc t).
      { intros t. rewrite <- Ec. apply ev_conds_ext. apply upd_ext; assumption. }
      assert (HI : inner (upd e1 x x0) tI a1 =
                   match oc with
                   | Some true => Some (upd e1 x x0, a1 ++ [x0], tI)
                   | Some false => Some (upd e1 x x0, a1, tI)
                   | None => None
                   end).
      { unfold inner, clause_body. rewrite Ec. destruct oc as [[]|]; cbn [lift_tr]; try reflexivity.
        unfold leaf_of. cbn [eval]. rewrite upd_same. destruct k; try reflexivity. contradiction. }
      assert (HM : merged (upd e3 x x0) tr a2 =
                   match oc with
                   | Some true => outer (upd e3 x x0) tr a2
                   | Some false => Some (upd e3 x x0, a2, tr)
                   | None => None
                   end).
      { unfold merged, outer, clause_body. rewrite ev_conds_app, Ec3. destruct oc as [[]|]; reflexivity. }
      rewrite HI, !HM. destruct oc as [[]|].
      + (* the inner conditions hold: the item is kept; merged and outer do the same step *)
        assert (HO : match outer (upd e3 x x0) tr a2, outer (upd e2 x x0) tr a2 with
                     | Some (f3, a3, t3), Some (f2, a2', t2) => f3 = upd e3 x x0 /\ f2 = upd e2 x x0 /\ a3 = a2' /\ t3 = t2
                     | None, None => True
                     | _, _ => False
                     end).
        { unfold outer, clause_body. rewrite (ev_conds_ext w ifs_out (upd e3 x x0) (upd e2 x x0) tr (upd_ext e3 e2 x0 H3 H2)).
          destruct (ev_conds (eval w) (upd e2 x x0) ifs_out tr) as [[[] tr1]|]; [| repeat split; reflexivity | exact I].
          pose proof (outer_step_ext (upd e2 x x0) (upd e3 x x0) tr1 a2 (upd_ext e2 e3 x0 H2 H3)) as Hs.
          destruct (leaf_of (eval w) k elt dval (upd e2 x x0) tr1 a2) as [[[f2 b2] t2]|],
                   (leaf_of (eval w) k elt dval (upd e3 x x0) tr1 a2) as [[[f3 b3] t3]|]; try contradiction; [|exact I].
          destruct Hs as [-> [-> [-> ->]]]. repeat split; reflexivity. }
        destruct (outer (upd e3 x x0) tr a2) as [[[f3 a3] t3]|] eqn:O3,
                 (outer (upd e2 x x0) tr a2) as [[[f2 a2'] t2]|] eqn:O2; try contradiction.
        * destruct HO as [-> [-> [-> ->]]].
          pose proof (IH (upd e1 x x0) (upd e2 x x0) (upd e3 x x0) tI t2 (a1 ++ [x0]) a2'
                         (off_x_upd _ _ H1) (off_x_upd _ _ H2) (off_x_upd _ _ H3)) as IH'.
          destruct (iter_items inner (TName x) xs (upd e1 x x0) tI (a1 ++ [x0])) as [[[g1 b1] u1]|]; [|exact IH'].
          destruct IH' as [-> [ys [-> Hr]]]. split; [reflexivity|]. exists (x0 :: ys). rewrite <- app_assoc.
          split; [reflexivity|]. cbn [iter_items bind]. rewrite O2. exact Hr.
        * pose proof (IH (upd e1 x x0) (upd e2 x x0) (upd e3 x x0) tI tr (a1 ++ [x0]) a2
                         (off_x_upd _ _ H1) (off_x_upd _ _ H2) (off_x_upd _ _ H3)) as IH'.
          destruct (iter_items inner (TName x) xs (upd e1 x x0) tI (a1 ++ [x0])) as [[[g1 b1] u1]|]; [|reflexivity].
          destruct IH' as [-> [ys [-> _]]]. split; [reflexivity|]. exists (x0 :: ys). rewrite <- app_assoc.
          split; [reflexivity|]. cbn [iter_items bind]. rewrite O2. exact I.
      + (* an inner condition is false: the item is dropped on both sides *)
        apply (IH (upd e1 x x0) e2 (upd e3 x x0) tI tr a1 a2 (off_x_upd _ _ H1) H2 (off_x_upd _ _ H3)).
      + reflexivity.
  Qed.
End Chained.

Definition chained_guard (e : cx) : bool :=
  match e with
  | XComp k _ _ [XGen (TName _) (XComp _ _ _ [XGen _ _ ifs_in]) _] =>
      (match k with CList | CGen => true | _ => false end) && forallb (fun c => negb (effect c)) ifs_in
  | _ => false
  end.

Theorem chained_partial : forall w e e' en tr,
  rw_chained e = Some e' -> chained_guard e = true -> eval w e' en tr = eval w e en tr.
Proof.
  intros w e e' en tr H G. unfold rw_chained in H. unfold chained_guard in G.
  destruct e as [| | | | | | | | | | k elt dval gens | | | | |]; try discriminate.
  destruct gens as [|g [|? ?]]; try discriminate; [| exfalso; clear H; repeat match type of G with context [match ?v with _ => _ end] => destruct v; try discriminate end].
  destruct g as [| | | | | | | | | | | t inner ifs_out | | | |]; try discriminate.
  destruct t as [x|]; [|discriminate].
  destruct inner as [| | | | | | | | | | k' elt' dv' gens' | | | | |]; try (destruct k; discriminate).
  destruct gens' as [|g' [|? ?]]; try (destruct k; discriminate); [| exfalso; clear H; repeat match type of G with context [match ?v with _ => _ end] => destruct v; try discriminate end].
  destruct g' as [| | | | | | | | | | | t' it ifs_in | | | |]; try (destruct k; discriminate).
  apply andb_true_iff in G as [Gk Hpure].
  assert (Hk : k <> CDict) by (intros ->; discriminate).
  destruct (ckind_eqb k k' && tgt_eqb (TName x) t' && tgt_expr_same (TName x) elt') eqn:C; [|destruct k; discriminate].
  assert (He' : e' = XComp k elt dval [XGen (TName x) it (ifs_in ++ ifs_out)]) by (destruct k; inversion H; reflexivity).
  subst e'. clear H.
  apply andb_true_iff in C as [C C3]. apply andb_true_iff in C as [C1 C2].
  assert (k' = k) by (destruct k, k'; try discriminate; reflexivity). subst k'.
  destruct t' as [x'|]; [|discriminate]. cbn [tgt_eqb] in C2. apply Nat.eqb_eq in C2. subst x'.
  destruct elt'; try discriminate. cbn [tgt_expr_same] in C3. apply Nat.eqb_eq in C3. subst x0.
  (* both sides start with the iterable *)
  cbn [eval gens_targets tnames app]. rewrite !run_gens_nil.
  destruct (eval w it en tr) as [[v tr1]|]; [|reflexivity]. destruct (items_of v) as [xs|]; [|reflexivity].
  set (base := mask [x] en).
  pose proof (chained_items w k x elt dval dv' ifs_in ifs_out base Hk Hpure xs base base base tr1 tr1 [] []
                (fun y _ => eq_refl) (fun y _ => eq_refl) (fun y _ => eq_refl)) as L.
  destruct (iter_items (clause_body (eval w) ifs_in (leaf_of (eval w) k (XName x) dv')) (TName x) xs base tr1 [])
    as [[[g1 ys] t']|].
  - destruct L as [-> [ys' [Hys R]]]. cbn [app] in Hys. subst ys'.
    assert (Hf : exists r, finish k ys = Some r /\ items_of r = Some ys) by (destruct k; try discriminate; eexists; split; reflexivity).
    destruct Hf as [r [Hf1 Hf2]]. rewrite Hf1, Hf2. unfold res_eq in R.
    destruct (iter_items (clause_body (eval w) (ifs_in ++ ifs_out) (leaf_of (eval w) k elt dval)) (TName x) xs base tr1 [])
      as [[[g3 a3] t3]|],
      (iter_items (clause_body (eval w) ifs_out (leaf_of (eval w) k elt dval)) (TName x) ys base tr1 [])
      as [[[g2 a2] t2]|]; try contradiction; [|reflexivity].
    destruct R as [-> ->]. reflexivity.
  - rewrite L. reflexivity.
Qed.

Example chained_guard_example :
  let e := XComp CList (XCall 0 [XName 2]) dummy
             [XGen (TName 2) (XComp CList (XName 2) dummy [XGen (TName 2) (XName 8) [XName 2; XNot (XName 3)]])
                [XCall 4 [XName 2]]] in
  chained_guard e = true
  /\ rw_chained e = Some (XComp CList (XCall 0 [XName 2]) dummy
                            [XGen (TName 2) (XName 8) [XName 2; XNot (XName 3); XCall 4 [XName 2]]]).
Proof. split; reflexivity. Qed.

(* merge_nested_comprehensions, where it needs no renaming (the inner target has the name of the outer one,
   one inner clause, same kind): the result is that of merge_chained_comps *)
Lemma map_id_Forall : forall (f : cx -> cx) l, Forall (fun a => f a = a) l -> map f l = l.
Proof. intros f l H. induction H as [|a l Ha _ IH]; [reflexivity|]. cbn [map]. rewrite Ha, IH. reflexivity. Qed.

Lemma rename_same : forall x e, rename x x e = e.
Proof.
  intros x e. induction e using cx_ind'; cbn [rename]; try reflexivity;
    try (rewrite (map_id_Forall _ _ H); reflexivity).
  - destruct (Nat.eqb x0 x) eqn:E; [apply Nat.eqb_eq in E; subst; reflexivity | reflexivity].
  - rewrite IHe1, IHe2. reflexivity.
  - rewrite IHe. reflexivity.
  - rewrite IHe. reflexivity.
  - rewrite IHe1, IHe2, (map_id_Forall _ _ H). reflexivity.
  - rewrite IHe, (map_id_Forall _ _ H). f_equal. destruct t as [n|ns]; cbn [ren_t].
    + destruct (Nat.eqb n x) eqn:E; [apply Nat.eqb_eq in E; subst; reflexivity | reflexivity].
    + f_equal. induction ns as [|n ns IHn]; [reflexivity|]. cbn [map]. rewrite IHn.
      destruct (Nat.eqb n x) eqn:E; [apply Nat.eqb_eq in E; subst; reflexivity | reflexivity].
  - rewrite IHe1, IHe2. reflexivity.
  - rewrite IHe1, IHe2. reflexivity.
  - rewrite IHe1, IHe2. reflexivity.
  - rewrite IHe. reflexivity.
Qed.

Definition nested_guard_same (e : cx) : bool :=
  match e with
  | XComp k _ _ [XGen (TName x) (XComp k' (XName y) _ [XGen (TName y') it ifs_in]) []] =>
      Nat.eqb x y && Nat.eqb y y' && ckind_eqb k k'
      && (match k with CList | CGen => true | _ => false end)
      && forallb (fun c => negb (effect c)) ifs_in
  | _ => false
  end.

Theorem nested_partial : forall w e e' en tr,
  rw_nested e = Some e' -> nested_guard_same e = true -> eval w e' en tr = eval w e en tr.
Proof.
  intros w e e' en tr H G. unfold nested_guard_same in G.
  destruct e as [| | | | | | | | | | k elt dval gens | | | | |]; try discriminate.
  destruct gens as [|g [|? ?]]; try discriminate;
    [| exfalso; clear H; repeat match type of G with context [match ?v with _ => _ end] => destruct v; try discriminate end].
  destruct g as [| | | | | | | | | | | t inner ifs_out | | | |]; try discriminate.
  destruct t as [x|]; [|discriminate].
  destruct inner as [| | | | | | | | | | k' elt' dv' gens' | | | | |]; try discriminate.
  destruct elt' as [|y| | | | | | | | | | | | | |]; try discriminate.
  destruct gens' as [|g' [|? ?]]; try discriminate;
    [| exfalso; clear H; repeat match type of G with context [match ?v with _ => _ end] => destruct v; try discriminate end].
  destruct g' as [| | | | | | | | | | | t' it ifs_in | | | |]; try discriminate.
  destruct t' as [y'|]; [|discriminate]. destruct ifs_out; [|discriminate].
  apply andb_true_iff in G as [G Hpure]. apply andb_true_iff in G as [G Gk]. apply andb_true_iff in G as [G Gkk].
  apply andb_true_iff in G as [G1 G2]. apply Nat.eqb_eq in G1. apply Nat.eqb_eq in G2. subst y y'.
  assert (k' = k) by (destruct k, k'; try discriminate; reflexivity). subst k'.
  (* what the model of merge_nested_comprehensions yields here *)
  assert (Hm : e' = XComp k elt dval [XGen (TName x) it ifs_in] \/ False).
  { unfold rw_nested in H. cbn [merge_gens merge_clause app] in H. unfold last_target_is in H. cbn [rev app] in H.
    rewrite Nat.eqb_refl in H. cbn [negb] in H.
    destruct k; try discriminate; cbn [gens_targets tnames app existsb negb andb first_iter] in H;
      rewrite ?Nat.eqb_refl in H; cbn [negb andb orb] in H;
      destruct (mentions x it); cbn [orb] in H; try discriminate;
      cbn [map] in H; rewrite rename_same in H; cbn [app] in H; inversion H; left; reflexivity. }
  destruct Hm as [->|[]].
  rewrite <- (chained_partial w (XComp k elt dval [XGen (TName x) (XComp k (XName x) dv' [XGen (TName x) it ifs_in]) []])
                (XComp k elt dval [XGen (TName x) it (ifs_in ++ [])]) en tr).
  - rewrite app_nil_r. reflexivity.
  - unfold rw_chained. cbn [ckind_eqb tgt_eqb tgt_expr_same]. rewrite Nat.eqb_refl.
    destruct k; try discriminate; reflexivity.
  - unfold chained_guard. rewrite Hpure. destruct k; try discriminate; reflexivity.
Qed.

(* f6bcd55: an eager (list / set / dict) comprehension is never merged into a generator expression: merged, its
   iterable and conditions would be evaluated while the generator is consumed.  (The semantics of this file
   evaluates generators eagerly, so the laziness itself is outside the model; what is pinned is the refusal.) *)
Lemma nested_gen_eager_clause : forall elt others x ik y idval igens,
  ik <> CGen -> merge_clause CGen elt others (XGen (TName x) (XComp ik (XName y) idval igens) []) = None.
Proof.
  intros elt others x ik y idval igens Hk. cbn [merge_clause].
  destruct (negb (last_target_is igens y)); [reflexivity|]. destruct ik; try reflexivity. congruence.
Qed.
Theorem nested_gen_eager_kept : forall elt dval x ik y idval igens,
  ik <> CGen -> rw_nested (XComp CGen elt dval [XGen (TName x) (XComp ik (XName y) idval igens) []]) = None.
Proof.
  intros elt dval x ik y idval igens Hk. unfold rw_nested. cbn [merge_gens app].
  rewrite nested_gen_eager_clause by exact Hk. reflexivity.
Qed.
Example nested_gen_gen_merged :
  rw_nested (XComp CGen (XName 2) dummy [XGen (TName 2) (XComp CGen (XName 4) dummy [XGen (TName 4) (XName 3) []]) []])
  = Some (XComp CGen (XName 2) dummy [XGen (TName 2) (XName 3) []]).
Proof. reflexivity. Qed.

Example nested_guard_same_example :
  let e := XComp CList (XCall 0 [XName 2]) dummy
             [XGen (TName 2) (XComp CList (XName 2) dummy [XGen (TName 2) (XName 8) [XNot (XName 2)]]) []] in
  nested_guard_same e = true
  /\ rw_nested e = Some (XComp CList (XCall 0 [XName 2]) dummy [XGen (TName 2) (XName 8) [XNot (XName 2)]]).
Proof. split; reflexivity. Qed.
