(* C02, abstraction tranche: proofs about RulesAbsModel.v (every program of AbsPy, every oracle, every state).

   Part 1  induction principles, environments, blocks
   Part 2  fixes.missing_context_manager: mcm1 (the repaired rule) changes a run only by ONE close event, and exactly
           when the moved block is left by an exception / return or when there was no close() at all; the rule before
           the repairs is refuted (rebinding, nested return)
   Part 3  abstractions.overused_constant: binding immutable literals to fresh names in front of the first statement
           that is not an import preserves every run (new names aside); list displays are refuted *)
From Coq Require Import List Bool Arith Lia.
Import ListNotations.
Require Import Pyrefact.RulesAbsModel.

(* =========================================================================================== *)
(* Part 1 *)

Section ExprInd.
  Variable P : expr -> Prop.
  Hypothesis Hatom : forall k w, P (EAtom k w).
  Hypothesis Hname : forall x, P (EName x).
  Hypothesis Hdisp : forall kd es, Forall P es -> P (EDisp kd es).
  Hypothesis Hcall : forall i es, Forall P es -> P (ECall i es).
  Fixpoint expr_ind' (e : expr) : P e :=
    match e with
    | EAtom k w => Hatom k w
    | EName x => Hname x
    | EDisp kd es =>
        Hdisp kd es ((fix go (l : list expr) : Forall P l :=
                        match l with [] => Forall_nil _ | x :: t => Forall_cons _ (expr_ind' x) (go t) end) es)
    | ECall i es =>
        Hcall i es ((fix go (l : list expr) : Forall P l :=
                       match l with [] => Forall_nil _ | x :: t => Forall_cons _ (expr_ind' x) (go t) end) es)
    end.
End ExprInd.

Section StmtInd.
  Variable P : stmt -> Prop.
  Hypothesis Hpass : P SPass.
  Hypothesis Himport : forall i, P (SImport i).
  Hypothesis Hexpr : forall e, P (SExpr e).
  Hypothesis Hassign : forall x e, P (SAssign x e).
  Hypothesis Happend : forall x e, P (SAppend x e).
  Hypothesis Hopen : forall x r, P (SOpen x r).
  Hypothesis Hclose : forall x, P (SClose x).
  Hypothesis Hread : forall y x, P (SRead y x).
  Hypothesis Hreturn : forall e, P (SReturn e).
  Hypothesis Hif : forall e b1 b2, Forall P b1 -> Forall P b2 -> P (SIf e b1 b2).
  Hypothesis Hwith : forall x r b, Forall P b -> P (SWith x r b).
  Fixpoint stmt_ind' (s : stmt) : P s :=
    let go := fix go (l : list stmt) : Forall P l :=
                match l with [] => Forall_nil _ | x :: t => Forall_cons _ (stmt_ind' x) (go t) end in
    match s with
    | SPass => Hpass
    | SImport i => Himport i
    | SExpr e => Hexpr e
    | SAssign x e => Hassign x e
    | SAppend x e => Happend x e
    | SOpen x r => Hopen x r
    | SClose x => Hclose x
    | SRead y x => Hread y x
    | SReturn e => Hreturn e
    | SIf e b1 b2 => Hif e b1 b2 (go b1) (go b2)
    | SWith x r b => Hwith x r b (go b)
    end.
End StmtInd.

Lemma get_upd_same : forall e x v, get (upd e x v) x = Some v.
Proof.
  intros e x; revert e; induction x as [|x IH]; intros [|a tl] v; cbn; auto.
  - apply (IH []).
  - apply IH.
Qed.

Lemma nth_nil_none : forall y, nth y (@nil (option val)) None = None.
Proof. intros [|y]; reflexivity. Qed.

Lemma get_upd_other : forall e x y v, x <> y -> get (upd e x v) y = get e y.
Proof.
  unfold get. intros e x; revert e; induction x as [|x IH]; intros [|a tl] y v Hne; destruct y as [|y]; cbn;
    try congruence; auto; rewrite ?nth_nil_none; auto.
  - destruct y; reflexivity.
  - rewrite IH by congruence. apply nth_nil_none.
Qed.

Arguments get : simpl never.
Arguments upd : simpl never.

Lemma exec_cons : forall o st s tl,
  exec_block o st (s :: tl) = match exec_stmt o st s with (Normal, st1) => exec_block o st1 tl | r => r end.
Proof. reflexivity. Qed.

Lemma exec_app : forall o a b st,
  exec_block o st (a ++ b) = match exec_block o st a with (Normal, st1) => exec_block o st1 b | r => r end.
Proof.
  intros o a; induction a as [|s tl IH]; intros b st.
  - reflexivity.
  - cbn [app]. rewrite !exec_cons. destruct (exec_stmt o st s) as [[|v|k] st1]; auto.
Qed.

(* expressions never touch the environment *)
Definition er_st (r : er) : state := match r with EV _ st => st | EX _ st => st end.
Definition lr_st (r : lr) : state := match r with LV _ st => st | LX _ st => st end.

Lemma evals_cons : forall o st e tl,
  evals o st (e :: tl) = match eval o st e with
                         | EX k st1 => LX k st1
                         | EV v st1 => match evals o st1 tl with LV vs st2 => LV (v :: vs) st2 | LX k st2 => LX k st2 end
                         end.
Proof. reflexivity. Qed.

Lemma eval_disp : forall o st kd es,
  eval o st (EDisp kd es) = match evals o st es with LV vs st1 => mk kd vs st1 | LX k st1 => EX k st1 end.
Proof. reflexivity. Qed.
Lemma eval_call : forall o st i es,
  eval o st (ECall i es) = match evals o st es with LV vs st1 => call o i vs st1 | LX k st1 => EX k st1 end.
Proof. reflexivity. Qed.

Lemma evals_env_F : forall o es,
  Forall (fun e => forall st, s_env (er_st (eval o st e)) = s_env st) es ->
  forall st, s_env (lr_st (evals o st es)) = s_env st.
Proof.
  intros o es HF; induction HF as [|e tl He _ IH]; intros st.
  - reflexivity.
  - rewrite evals_cons. specialize (He st). destruct (eval o st e) as [v st1|k st1]; cbn in *; auto.
    specialize (IH st1). destruct (evals o st1 tl); cbn in *; congruence.
Qed.

Lemma eval_env : forall o e st, s_env (er_st (eval o st e)) = s_env st.
Proof.
  intros o e; induction e as [k w|x|kd es IH|i es IH] using expr_ind'; intros st.
  - reflexivity.
  - cbn. destruct (get (s_env st) x); reflexivity.
  - rewrite eval_disp. pose proof (evals_env_F o es IH st) as H.
    destruct (evals o st es) as [vs st1|k st1]; cbn in *; auto. destruct kd; cbn; auto.
  - rewrite eval_call. pose proof (evals_env_F o es IH st) as H.
    destruct (evals o st es) as [vs st1|k st1]; cbn in *; auto.
    unfold call. cbn. destruct (o (s_pos st1)); cbn; auto.
Qed.

Lemma close_h_env : forall h st, s_env (close_h h st) = s_env st.
Proof. intros h st; unfold close_h. destruct (nth h (s_files st) false); reflexivity. Qed.

(* =========================================================================================== *)
(* Part 2: missing_context_manager *)

Lemma split_close_app : forall x b b1 b2, split_close x b = Some (b1, b2) -> b = b1 ++ SClose x :: b2.
Proof.
  intros x b; induction b as [|s tl IH]; intros b1 b2 H; cbn in H; [discriminate|].
  destruct s; try (destruct (split_close x tl) as [[c1 c2]|]; [|discriminate]; inversion H; subst; cbn;
                   f_equal; apply IH; reflexivity).
  destruct (Nat.eqb x x0) eqn:E.
  - apply Nat.eqb_eq in E; subst. inversion H; subst. reflexivity.
  - destruct (split_close x tl) as [[c1 c2]|]; [|discriminate]. inversion H; subst. cbn. f_equal. apply IH; reflexivity.
Qed.

(* a statement that does not rebind x leaves x alone *)
Lemma block_frame_F : forall o x b,
  Forall (fun s => assigns x s = false -> forall st, get (s_env (snd (exec_stmt o st s))) x = get (s_env st) x) b ->
  existsb (assigns x) b = false ->
  forall st, get (s_env (snd (exec_block o st b))) x = get (s_env st) x.
Proof.
  intros o x b HF; induction HF as [|s tl Hs _ IH]; intros Hno st.
  - reflexivity.
  - cbn in Hno. apply orb_false_iff in Hno as [H1 H2].
    rewrite exec_cons. specialize (Hs H1 st).
    destruct (exec_stmt o st s) as [[|v|k] st1]; cbn in *; auto.
    rewrite IH; auto.
Qed.

Lemma stmt_frame : forall o x s, assigns x s = false ->
  forall st, get (s_env (snd (exec_stmt o st s))) x = get (s_env st) x.
Proof.
  intros o x s; induction s as [| i | e | y e | y e | y r | y | y z | e | e b1 b2 IH1 IH2 | y r b IH] using stmt_ind';
    intros Hno st; cbn [assigns] in Hno.
  - reflexivity.
  - reflexivity.
  - cbn. pose proof (eval_env o e st) as H. destruct (eval o st e); cbn in *; congruence.
  - cbn. pose proof (eval_env o e st) as H. apply Nat.eqb_neq in Hno.
    destruct (eval o st e); cbn in *; [|congruence]. rewrite get_upd_other by congruence. congruence.
  - cbn. destruct (get (s_env st) y) as [[| | |a|]|]; cbn; auto.
    pose proof (eval_env o e st) as H. destruct (eval o st e); cbn in *; congruence.
  - cbn. apply Nat.eqb_neq in Hno. rewrite get_upd_other by congruence. reflexivity.
  - cbn. destruct (get (s_env st) y) as [[| | | |h]|]; cbn; auto. rewrite close_h_env. reflexivity.
  - cbn. apply Nat.eqb_neq in Hno. destruct (get (s_env st) z) as [[| | | |h]|]; cbn; auto.
    destruct (nth h (s_files st) false); cbn; auto.
    destruct (o (s_pos st)); cbn; auto. rewrite get_upd_other by congruence. reflexivity.
  - cbn. pose proof (eval_env o e st) as H. destruct (eval o st e); cbn in *; congruence.
  - apply orb_false_iff in Hno as [H1 H2]. cbn [exec_stmt].
    pose proof (eval_env o e st) as H. destruct (eval o st e) as [v st1|k st1]; cbn in H; [|cbn; congruence].
    fold (exec_block o). destruct (truthy st1 v).
    + rewrite (block_frame_F o x b1 IH1 H1). congruence.
    + rewrite (block_frame_F o x b2 IH2 H2). congruence.
  - apply orb_false_iff in Hno as [H1 H2]. apply Nat.eqb_neq in H1. cbn [exec_stmt].
    fold (exec_block o). cbn [do_open].
    pose proof (block_frame_F o x b IH H2
                  (set_var y (VHandle (length (s_files st))) (emit (EvOpen r (length (s_files st))) (set_files (s_files st ++ [true]) st)))) as HB.
    destruct (exec_block o _ b) as [out st2]. cbn in *. rewrite close_h_env. rewrite HB.
    rewrite get_upd_other by congruence. reflexivity.
Qed.

Lemma block_frame : forall o x b, existsb (assigns x) b = false ->
  forall st, get (s_env (snd (exec_block o st b))) x = get (s_env st) x.
Proof.
  intros o x b. apply block_frame_F. apply Forall_forall. intros s _. apply stmt_frame.
Qed.

(* the state in which the moved block starts *)
Definition opened (x : var) (r : nat) (st : state) : state :=
  set_var x (VHandle (length (s_files st))) (emit (EvOpen r (length (s_files st))) (set_files (s_files st ++ [true]) st)).

Lemma exec_open : forall o st x r rest,
  exec_block o st (SOpen x r :: rest) = exec_block o (opened x r st) rest.
Proof. reflexivity. Qed.

Lemma exec_with : forall o st x r b rest,
  exec_block o st (SWith x r b :: rest) =
  match exec_block o (opened x r st) b with
  | (Normal, st2) => exec_block o (close_h (length (s_files st)) st2) rest
  | (out, st2) => (out, close_h (length (s_files st)) st2)
  end.
Proof.
  intros. rewrite exec_cons. cbn [exec_stmt do_open]. fold (exec_block o). fold (opened x r st).
  destruct (exec_block o (opened x r st) b) as [[|v|k] st2]; reflexivity.
Qed.

(* no close() in the list: the with block spans the rest of the list, and the only difference, on EVERY run, is that the
   handle is closed when the list is left *)
Theorem mcm_noclose_exact : forall o st x r rest,
  exec_block o st [SWith x r rest] =
  (fst (exec_block o st (SOpen x r :: rest)), close_h (length (s_files st)) (snd (exec_block o st (SOpen x r :: rest)))).
Proof.
  intros. rewrite exec_with, exec_open.
  destruct (exec_block o (opened x r st) rest) as [[|v|k] st2]; reflexivity.
Qed.

(* a close() at the end of the moved block b1, which does not rebind the handle: runs on which b1 completes are unchanged *)
Theorem mcm_close_normal : forall o st x r b1 b2 st2,
  existsb (assigns x) b1 = false ->
  exec_block o (opened x r st) b1 = (Normal, st2) ->
  exec_block o st (SWith x r b1 :: b2) = exec_block o st (SOpen x r :: b1 ++ SClose x :: b2).
Proof.
  intros o st x r b1 b2 st2 Hno Hb1.
  rewrite exec_with, exec_open, exec_app, Hb1, exec_cons. cbn [exec_stmt].
  pose proof (block_frame o x b1 Hno (opened x r st)) as HF. rewrite Hb1 in HF. cbn [snd] in HF.
  unfold opened in HF. cbn [set_var s_env] in HF. rewrite get_upd_same in HF. rewrite HF. reflexivity.
Qed.

(* ... and runs on which b1 is left by an exception or a return end with the handle closed: the point of the rule *)
Theorem mcm_close_abrupt : forall o st x r b1 b2 out st2,
  exec_block o (opened x r st) b1 = (out, st2) -> out <> Normal ->
  exec_block o st (SOpen x r :: b1 ++ SClose x :: b2) = (out, st2) /\
  exec_block o st (SWith x r b1 :: b2) = (out, close_h (length (s_files st)) st2).
Proof.
  intros o st x r b1 b2 out st2 Hb1 Hout.
  rewrite exec_with, exec_open, exec_app, Hb1. destruct out; [congruence| |]; auto.
Qed.

(* what one rewrite may do to a run: nothing, or one handle closed in the final state (close_h: one more EvClose event
   and the handle marked closed, nothing else) *)
Definition close_rel (r1 r2 : res) : Prop :=
  fst r2 = fst r1 /\ (snd r2 = snd r1 \/ exists h, snd r2 = close_h h (snd r1)).

Lemma mcm_here_sound : forall x r rest b', mcm_here x r rest = Some b' ->
  forall o st, close_rel (exec_block o st (SOpen x r :: rest)) (exec_block o st b').
Proof.
  intros x r rest b' H o st. unfold mcm_here, mcm_here_with in H.
  destruct rest as [|s0 tl]; [discriminate|]. remember (s0 :: tl) as rest.
  destruct (existsb (ret_handle x) rest); [discriminate|].
  destruct (split_close x rest) as [[b1 b2]|] eqn:Esc.
  - cbn [andb] in H. destruct (existsb (assigns x) b1) eqn:Eas; [discriminate|]. inversion H; subst b'.
    apply split_close_app in Esc. rewrite Esc.
    destruct (exec_block o (opened x r st) b1) as [out st2] eqn:Eb1.
    destruct out.
    + rewrite (mcm_close_normal o st x r b1 b2 st2 Eas Eb1). split; auto.
    + destruct (mcm_close_abrupt o st x r b1 b2 _ st2 Eb1) as [E1 E2]; [congruence|].
      rewrite E1, E2. split; cbn; eauto.
    + destruct (mcm_close_abrupt o st x r b1 b2 _ st2 Eb1) as [E1 E2]; [congruence|].
      rewrite E1, E2. split; cbn; eauto.
  - inversion H; subst b'. rewrite mcm_noclose_exact. split; cbn; eauto.
Qed.

Theorem mcm1_sound : forall b b', mcm1 b = Some b' ->
  forall o st, close_rel (exec_block o st b) (exec_block o st b').
Proof.
  intros b; induction b as [|s rest IH]; intros b' H o st; [discriminate|].
  unfold mcm1 in H. cbn [mcm1_with] in H. fold mcm1 in H.
  destruct (match s with SOpen x r => mcm_here_with true x r rest | _ => None end) as [c|] eqn:Eh.
  - inversion H; subst c. destruct s; try discriminate. apply mcm_here_sound. exact Eh.
  - change (mcm1_with true rest) with (mcm1 rest) in H.
    destruct (mcm1 rest) as [r'|] eqn:Er; [|discriminate]. inversion H; subst b'.
    rewrite !exec_cons. destruct (exec_stmt o st s) as [[|v|k] st1].
    + apply IH. reflexivity.
    + split; auto.
    + split; auto.
Qed.

(* full-strength equality fails by design: a raising run ends with one more close event *)
Theorem mcm_strict_refuted : exists b b' o,
  mcm1 b = Some b' /\ exec_block o st0 b <> exec_block o st0 b' /\
  s_tr (snd (exec_block o st0 b')) = EvClose 0 :: s_tr (snd (exec_block o st0 b)).
Proof.
  exists [SOpen 1 0; SRead 2 1; SClose 1], [SWith 1 0 [SRead 2 1]], (fun _ => None).
  split; [reflexivity|]. split; [|reflexivity]. vm_compute. discriminate.
Qed.

(* the rule before repair e19a6bf: the removed close() closed another object *)
Theorem mcm_old_refuted_rebind : exists b b' o,
  mcm1_old b = Some b' /\ mcm1 b <> Some b' /\
  s_files (snd (exec_block o st0 b)) = [true; false] /\ s_files (snd (exec_block o st0 b')) = [false; true] /\
  ~ close_rel (exec_block o st0 b) (exec_block o st0 b').
Proof.
  exists [SOpen 1 0; SOpen 1 1; SClose 1], [SWith 1 0 [SOpen 1 1]], (fun _ => Some 0).
  split; [reflexivity|]. split; [vm_compute; discriminate|]. split; [reflexivity|]. split; [reflexivity|].
  intros [_ [H|[h H]]].
  - vm_compute in H. discriminate.
  - apply (f_equal s_files) in H. vm_compute in H.
    destruct h as [|[|[|h]]]; vm_compute in H; discriminate.
Qed.

(* the rule before repair 7bedbf5: a nested `return x` hands out a closed file *)
Theorem mcm_old_refuted_nested_return : exists b b' o,
  mcm1_old b = Some b' /\ mcm1 b = None /\
  fst (exec_block o st0 b) = Ret (RHandle 0 true) /\ fst (exec_block o st0 b') = Ret (RHandle 0 true) /\
  nth 0 (s_files (snd (exec_block o st0 b))) false = true /\
  nth 0 (s_files (snd (exec_block o st0 b'))) false = false.
Proof.
  exists [SOpen 1 0; SIf (ECall 0 []) [SReturn (EName 1)] []; SClose 1],
         [SWith 1 0 [SIf (ECall 0 []) [SReturn (EName 1)] []]], (fun _ => Some 1).
  repeat split; reflexivity.
Qed.

Example mcm_fires_example :
  mcm [SOpen 1 0; SRead 2 1; SClose 1; SExpr (ECall 0 [EName 2])] = [SWith 1 0 [SRead 2 1]; SExpr (ECall 0 [EName 2])]
  /\ mcm [SOpen 1 0; SOpen 3 1; SRead 2 1] = [SWith 1 0 [SWith 3 1 [SRead 2 1]]].
Proof. split; reflexivity. Qed.

(* =========================================================================================== *)
(* Part 3: overused_constant *)

Definition leq_with (eqb : expr -> expr -> bool) : list expr -> list expr -> bool :=
  fix leq (l m : list expr) {struct l} : bool :=
    match l, m with
    | [], [] => true
    | x :: l', y :: m' => eqb x y && leq l' m'
    | _, _ => false
    end.
Lemma expr_eqb_disp : forall kd es kd' es',
  expr_eqb (EDisp kd es) (EDisp kd' es') = kind_eqb kd kd' && leq_with expr_eqb es es'.
Proof. reflexivity. Qed.
Lemma expr_eqb_call : forall i es j es',
  expr_eqb (ECall i es) (ECall j es') = Nat.eqb i j && leq_with expr_eqb es es'.
Proof. reflexivity. Qed.

Lemma leq_with_eq : forall es,
  Forall (fun a => forall b, expr_eqb a b = true -> a = b) es ->
  forall es', leq_with expr_eqb es es' = true -> es = es'.
Proof.
  intros es HF; induction HF as [|a tl Ha _ IH]; intros [|b tl'] H; cbn in H; try discriminate; auto.
  apply andb_true_iff in H as [H1 H2]. f_equal; auto.
Qed.

Lemma expr_eqb_eq : forall a b, expr_eqb a b = true -> a = b.
Proof.
  intros a; induction a as [k w|x|kd es IH|i es IH] using expr_ind'; intros b H; destruct b; try discriminate H.
  - cbn in H. apply andb_true_iff in H as [H1 H2]. apply Nat.eqb_eq in H1, H2. congruence.
  - cbn in H. apply Nat.eqb_eq in H. congruence.
  - rewrite expr_eqb_disp in H. apply andb_true_iff in H as [H1 H2].
    apply (leq_with_eq es IH) in H2. destruct kd, kd0; try discriminate; congruence.
  - rewrite expr_eqb_call in H. apply andb_true_iff in H as [H1 H2].
    apply (leq_with_eq es IH) in H2. apply Nat.eqb_eq in H1. congruence.
Qed.

Definition names (pl : plan) : list var := map snd pl.
Definition atomval (a : expr) : val := match a with EAtom k w => VAtom k w | _ => VOpq 0 end.
Definition litval (l : expr) : val := match l with EDisp KTup es => VTup (map atomval es) | _ => atomval l end.

Lemma evals_atoms : forall o st es, forallb is_atom es = true -> evals o st es = LV (map atomval es) st.
Proof.
  intros o st es; induction es as [|a tl IH]; cbn [forallb]; intros H; [reflexivity|].
  apply andb_true_iff in H as [Ha Ht]. rewrite evals_cons. destruct a; try discriminate.
  cbn [eval]. rewrite IH by auto. reflexivity.
Qed.

(* evaluating an immutable literal is pure and gives the same value everywhere *)
Lemma eval_imm : forall o st l, imm_lit l = true -> eval o st l = EV (litval l) st.
Proof.
  intros o st l H; destruct l as [k w|x|kd es|i es]; try discriminate; [reflexivity|].
  destruct kd; try discriminate. cbn [imm_lit] in H. rewrite eval_disp, evals_atoms by auto. reflexivity.
Qed.

Lemma lookup_In : forall pl e x, lookup pl e = Some x -> In (e, x) pl.
Proof.
  intros pl; induction pl as [|[l y] tl IH]; intros e x H; cbn in H; [discriminate|].
  destruct (expr_eqb l e) eqn:E.
  - apply expr_eqb_eq in E. inversion H; subst. left; reflexivity.
  - right. apply IH; auto.
Qed.

Definition core (st : state) := (s_heap st, s_files st, s_pos st, s_tr st).
(* st1: a state of the original run; st2: of the rewritten run *)
Definition R (pl : plan) (st1 st2 : state) : Prop :=
  core st1 = core st2 /\
  (forall y, ~ In y (names pl) -> get (s_env st1) y = get (s_env st2) y) /\
  (forall l x, In (l, x) pl -> get (s_env st2) x = Some (litval l)).

Lemma R_core : forall pl st1 st2, R pl st1 st2 ->
  s_heap st1 = s_heap st2 /\ s_files st1 = s_files st2 /\ s_pos st1 = s_pos st2 /\ s_tr st1 = s_tr st2.
Proof. intros pl st1 st2 [H _]. unfold core in H. inversion H; auto. Qed.

Lemma R_same_core : forall pl st1 st2 (f : state -> state),
  (forall st, s_env (f st) = s_env st) ->
  (forall s1 s2, core s1 = core s2 -> core (f s1) = core (f s2)) ->
  R pl st1 st2 -> R pl (f st1) (f st2).
Proof.
  intros pl st1 st2 f He Hc (H1 & H2 & H3). split; [auto|]. rewrite !He. split; auto.
Qed.

Lemma R_emit : forall pl ev st1 st2, R pl st1 st2 -> R pl (emit ev st1) (emit ev st2).
Proof.
  intros pl ev st1 st2. apply R_same_core with (f := emit ev); auto.
  intros s1 s2 H. unfold core in *. cbn. inversion H. congruence.
Qed.
Lemma R_bump : forall pl st1 st2, R pl st1 st2 -> R pl (bump st1) (bump st2).
Proof.
  intros pl st1 st2. apply R_same_core with (f := bump); auto.
  intros s1 s2 H. unfold core in *. cbn. inversion H. congruence.
Qed.
Lemma R_set_heap : forall pl hp st1 st2, R pl st1 st2 -> R pl (set_heap hp st1) (set_heap hp st2).
Proof.
  intros pl hp st1 st2. apply R_same_core with (f := set_heap hp); auto.
  intros s1 s2 H. unfold core in *. cbn. inversion H. congruence.
Qed.
Lemma R_set_files : forall pl fl st1 st2, R pl st1 st2 -> R pl (set_files fl st1) (set_files fl st2).
Proof.
  intros pl fl st1 st2. apply R_same_core with (f := set_files fl); auto.
  intros s1 s2 H. unfold core in *. cbn. inversion H. congruence.
Qed.
Lemma R_close_h : forall pl h st1 st2, R pl st1 st2 -> R pl (close_h h st1) (close_h h st2).
Proof.
  intros pl h st1 st2 HR. destruct (R_core _ _ _ HR) as (Hh & Hf & _). unfold close_h. rewrite Hf.
  destruct (nth h (s_files st2) false); auto. apply R_emit, R_set_files. exact HR.
Qed.
Lemma R_set_var : forall pl x v st1 st2, ~ In x (names pl) -> R pl st1 st2 -> R pl (set_var x v st1) (set_var x v st2).
Proof.
  intros pl x v st1 st2 Hx (H1 & H2 & H3). split; [exact H1|]. cbn [set_var s_env]. split.
  - intros y Hy. destruct (Nat.eq_dec x y) as [->|Hne].
    + rewrite !get_upd_same. reflexivity.
    + rewrite !get_upd_other by auto. auto.
  - intros l x' Hin. rewrite get_upd_other; [eauto|].
    intros ->. apply Hx. unfold names. apply in_map_iff. exists (l, x'). auto.
Qed.

Definition er_rel (pl : plan) (r1 r2 : er) : Prop :=
  match r1, r2 with
  | EV v s1, EV v' s2 => v = v' /\ R pl s1 s2
  | EX k s1, EX k' s2 => k = k' /\ R pl s1 s2
  | _, _ => False
  end.
Definition lr_rel (pl : plan) (r1 r2 : lr) : Prop :=
  match r1, r2 with
  | LV v s1, LV v' s2 => v = v' /\ R pl s1 s2
  | LX k s1, LX k' s2 => k = k' /\ R pl s1 s2
  | _, _ => False
  end.
(* same outcome (returned contents included), same heap, handles, oracle position and trace; the variables agree
   except for the new names *)
Definition res_rel (pl : plan) (r1 r2 : res) : Prop := fst r1 = fst r2 /\ R pl (snd r1) (snd r2).

Lemma subst_e_eq : forall pl e,
  subst_e pl e = match lookup pl e with
                 | Some x => EName x
                 | None => match e with
                           | EDisp kd es => EDisp kd (map (subst_e pl) es)
                           | ECall i es => ECall i (map (subst_e pl) es)
                           | _ => e
                           end
                 end.
Proof. intros pl e; destruct e; reflexivity. Qed.

Lemma fold_max_le : forall {A} (f : A -> nat) l n,
  fold_right (fun a m => Nat.max (f a) m) 0 l <= n -> Forall (fun a => f a <= n) l.
Proof.
  intros A f l n; induction l as [|a tl IH]; cbn; intros H; constructor.
  - lia.
  - apply IH. lia.
Qed.

Section Sim.
  Variable o : oracle.
  Variable pl : plan.
  Variable n : nat.
  Hypothesis Himm : plan_imm pl = true.
  Hypothesis Hfresh : forall x, In x (names pl) -> n < x.

  Lemma low_not_name : forall y, y <= n -> ~ In y (names pl).
  Proof. intros y Hy Hin. apply Hfresh in Hin. lia. Qed.

  Lemma sim_hit : forall e x st1 st2, lookup pl e = Some x -> R pl st1 st2 ->
    er_rel pl (eval o st1 e) (eval o st2 (EName x)).
  Proof.
    intros e x st1 st2 Hl HR. apply lookup_In in Hl.
    assert (Hi : imm_lit e = true).
    { unfold plan_imm in Himm. rewrite forallb_forall in Himm. apply (Himm (e, x)). exact Hl. }
    rewrite eval_imm by exact Hi. cbn [eval]. destruct HR as (H1 & H2 & H3).
    rewrite (H3 e x Hl). split; [reflexivity|]. split; auto.
  Qed.

  Lemma evals_sim : forall es,
    Forall (fun e => maxv_e e <= n -> forall st1 st2, R pl st1 st2 ->
                     er_rel pl (eval o st1 e) (eval o st2 (subst_e pl e))) es ->
    Forall (fun e => maxv_e e <= n) es ->
    forall st1 st2, R pl st1 st2 -> lr_rel pl (evals o st1 es) (evals o st2 (map (subst_e pl) es)).
  Proof.
    intros es HF; induction HF as [|e tl He _ IH]; intros Hb st1 st2 HR.
    - cbn. split; auto.
    - inversion Hb as [|? ? Hbe Hbt]; subst. cbn [map]. rewrite !evals_cons.
      specialize (He Hbe st1 st2 HR).
      destruct (eval o st1 e) as [v s1|k s1], (eval o st2 (subst_e pl e)) as [v' s2|k' s2]; cbn in He; try contradiction.
      + destruct He as [-> HR1]. specialize (IH Hbt s1 s2 HR1).
        destruct (evals o s1 tl) as [vs t1|k t1], (evals o s2 (map (subst_e pl) tl)) as [vs' t2|k' t2];
          cbn in IH; try contradiction; destruct IH as [-> HR2]; cbn; auto.
      + exact He.
  Qed.

  Lemma eval_sim : forall e, maxv_e e <= n -> forall st1 st2, R pl st1 st2 ->
    er_rel pl (eval o st1 e) (eval o st2 (subst_e pl e)).
  Proof.
    intros e; induction e as [k w|x|kd es IH|i es IH] using expr_ind'; intros Hb st1 st2 HR; rewrite subst_e_eq.
    - destruct (lookup pl (EAtom k w)) eqn:El; [apply sim_hit; auto|]. cbn. auto.
    - destruct (lookup pl (EName x)) eqn:El; [apply sim_hit; auto|]. cbn [eval].
      cbn in Hb. destruct HR as (H1 & H2 & H3). rewrite (H2 x (low_not_name x Hb)).
      destruct (get (s_env st2) x); cbn; repeat split; auto.
    - destruct (lookup pl (EDisp kd es)) eqn:El; [apply sim_hit; auto|]. rewrite !eval_disp.
      cbn [maxv_e] in Hb. apply fold_max_le in Hb.
      pose proof (evals_sim es IH Hb st1 st2 HR) as HL.
      destruct (evals o st1 es) as [vs s1|k s1], (evals o st2 (map (subst_e pl) es)) as [vs' s2|k' s2];
        cbn in HL; try contradiction; [|exact HL].
      destruct HL as [-> HR1]. destruct kd; cbn [mk]; cbn; [auto|].
      destruct (R_core _ _ _ HR1) as (Hh & _). rewrite Hh. split; [reflexivity|]. apply R_set_heap. exact HR1.
    - destruct (lookup pl (ECall i es)) eqn:El; [apply sim_hit; auto|]. rewrite !eval_call.
      cbn [maxv_e] in Hb. apply fold_max_le in Hb.
      pose proof (evals_sim es IH Hb st1 st2 HR) as HL.
      destruct (evals o st1 es) as [vs s1|k s1], (evals o st2 (map (subst_e pl) es)) as [vs' s2|k' s2];
        cbn in HL; try contradiction; [|exact HL].
      destruct HL as [-> HR1]. destruct (R_core _ _ _ HR1) as (Hh & Hf & Hp & Ht).
      unfold call, render_st. cbn [emit s_pos]. rewrite Hh, Hf, Hp.
      destruct (o (s_pos s2)); cbn; (split; [reflexivity|]); apply R_bump, R_emit; exact HR1.
  Qed.
End Sim.

Lemma truthy_R : forall pl st1 st2 v, R pl st1 st2 -> truthy st1 v = truthy st2 v.
Proof. intros pl st1 st2 v HR. destruct (R_core _ _ _ HR) as (Hh & _). destruct v; cbn; auto. rewrite Hh. reflexivity. Qed.

Section SimStmt.
  Variable o : oracle.
  Variable pl : plan.
  Variable n : nat.
  Hypothesis Himm : plan_imm pl = true.
  Hypothesis Hfresh : forall x, In x (names pl) -> n < x.

  Let SP (s : stmt) : Prop :=
    maxv_s s <= n -> forall st1 st2, R pl st1 st2 ->
    res_rel pl (exec_stmt o st1 s) (exec_stmt o st2 (subst_s pl s)).

  Lemma block_sim_F : forall b, Forall SP b -> Forall (fun s => maxv_s s <= n) b ->
    forall st1 st2, R pl st1 st2 -> res_rel pl (exec_block o st1 b) (exec_block o st2 (map (subst_s pl) b)).
  Proof.
    intros b HF; induction HF as [|s tl Hs _ IH]; intros Hb st1 st2 HR.
    - cbn. split; auto.
    - inversion Hb as [|? ? Hbs Hbt]; subst. cbn [map]. rewrite !exec_cons.
      specialize (Hs Hbs st1 st2 HR).
      destruct (exec_stmt o st1 s) as [o1 s1], (exec_stmt o st2 (subst_s pl s)) as [o2 s2].
      destruct Hs as [Ho HR1]. cbn in Ho, HR1. subst o2.
      destruct o1; [apply IH; auto|split; auto|split; auto].
  Qed.

  Lemma body_sim_F : forall b, Forall SP b -> Forall (fun s => maxv_s s <= n) b ->
    forall st1 st2, R pl st1 st2 ->
    res_rel pl (exec_block o st1 b) (exec_block o st2 (sub_body (subst_s pl) b)).
  Proof.
    intros b HF Hb st1 st2 HR. destruct b as [|s tl]; [cbn; split; auto|].
    destruct s; try (apply block_sim_F; assumption).
    destruct e; try (apply block_sim_F; assumption).
    cbn [sub_body]. rewrite !exec_cons. cbn [exec_stmt eval].
    inversion HF; subst. inversion Hb; subst. apply block_sim_F; assumption.
  Qed.

  Lemma stmt_sim : forall s, SP s.
  Proof.
    intros s; induction s as [| i | e | x e | x e | x r | x | y x | e | e b1 b2 IH1 IH2 | x r b IH] using stmt_ind';
      intros Hb st1 st2 HR; cbn [subst_s exec_stmt maxv_s] in *.
    - split; auto.
    - split; auto.
    - pose proof (eval_sim o pl n Himm Hfresh e Hb st1 st2 HR) as He.
      destruct (eval o st1 e), (eval o st2 (subst_e pl e)); cbn in He; try contradiction;
        destruct He as [-> HR1]; split; auto.
    - assert (He' : maxv_e e <= n) by lia.
      pose proof (eval_sim o pl n Himm Hfresh e He' st1 st2 HR) as He.
      destruct (eval o st1 e), (eval o st2 (subst_e pl e)); cbn in He; try contradiction;
        destruct He as [-> HR1]; split; auto.
      cbn [snd]. apply R_set_var; auto. apply (low_not_name pl n Hfresh). lia.
    - assert (He' : maxv_e e <= n) by lia.
      destruct HR as (H1 & H2 & H3). rewrite (H2 x) by (apply (low_not_name pl n Hfresh); lia).
      assert (HR : R pl st1 st2) by (split; auto).
      destruct (get (s_env st2) x) as [[| | |a|]|]; try (split; auto; fail).
      pose proof (eval_sim o pl n Himm Hfresh e He' st1 st2 HR) as He.
      destruct (eval o st1 e) as [v s1|k s1], (eval o st2 (subst_e pl e)) as [v' s2|k' s2]; cbn in He; try contradiction;
        destruct He as [-> HR1]; split; auto.
      cbn [snd]. destruct (R_core _ _ _ HR1) as (Hh & _). rewrite Hh. apply R_set_heap. exact HR1.
    - destruct (R_core _ _ _ HR) as (Hh & Hf & _). unfold do_open. rewrite Hf. split; [reflexivity|].
      cbn [snd]. apply R_set_var; [apply (low_not_name pl n Hfresh); lia|]. apply R_emit, R_set_files. exact HR.
    - destruct HR as (H1 & H2 & H3). rewrite (H2 x) by (apply (low_not_name pl n Hfresh); lia).
      assert (HR : R pl st1 st2) by (split; auto).
      destruct (get (s_env st2) x) as [[| | | |h]|]; try (split; auto; fail).
      split; [reflexivity|]. apply R_close_h. exact HR.
    - destruct HR as (H1 & H2 & H3). rewrite (H2 x) by (apply (low_not_name pl n Hfresh); lia).
      assert (HR : R pl st1 st2) by (split; auto).
      destruct (get (s_env st2) x) as [[| | | |h]|]; try (split; auto; fail).
      destruct (R_core _ _ _ HR) as (Hh & Hf & Hp & Ht). rewrite Hf.
      destruct (nth h (s_files st2) false); [|split; auto].
      cbn [emit s_pos]. rewrite Hp. destruct (o (s_pos st2)).
      + split; [reflexivity|]. cbn [snd]. apply R_set_var; [apply (low_not_name pl n Hfresh); lia|].
        apply R_bump, R_emit. exact HR.
      + split; [reflexivity|]. cbn [snd]. apply R_bump, R_emit. exact HR.
    - pose proof (eval_sim o pl n Himm Hfresh e Hb st1 st2 HR) as He.
      destruct (eval o st1 e) as [v s1|k s1], (eval o st2 (subst_e pl e)) as [v' s2|k' s2]; cbn in He; try contradiction;
        destruct He as [-> HR1]; split; auto.
      cbn [fst]. destruct (R_core _ _ _ HR1) as (Hh & Hf & _). unfold render_st. rewrite Hh, Hf. reflexivity.
    - assert (He' : maxv_e e <= n) by lia.
      assert (Hb1 : Forall (fun s => maxv_s s <= n) b1) by (apply fold_max_le; lia).
      assert (Hb2 : Forall (fun s => maxv_s s <= n) b2) by (apply fold_max_le; lia).
      pose proof (eval_sim o pl n Himm Hfresh e He' st1 st2 HR) as He.
      destruct (eval o st1 e) as [v s1|k s1], (eval o st2 (subst_e pl e)) as [v' s2|k' s2]; cbn in He; try contradiction;
        destruct He as [-> HR1]; [|split; auto].
      fold (exec_block o). rewrite (truthy_R pl s1 s2 v' HR1). destruct (truthy s2 v').
      + apply body_sim_F; auto.
      + apply block_sim_F; auto.
    - assert (Hb1 : Forall (fun s => maxv_s s <= n) b) by (apply fold_max_le; lia).
      fold (exec_block o). destruct (R_core _ _ _ HR) as (Hh & Hf & _). unfold do_open. rewrite Hf.
      assert (HR1 : R pl (set_var x (VHandle (length (s_files st2))) (emit (EvOpen r (length (s_files st2))) (set_files (s_files st2 ++ [true]) st1)))
                         (set_var x (VHandle (length (s_files st2))) (emit (EvOpen r (length (s_files st2))) (set_files (s_files st2 ++ [true]) st2)))).
      { apply R_set_var; [apply (low_not_name pl n Hfresh); lia|]. apply R_emit, R_set_files. exact HR. }
      pose proof (body_sim_F b IH Hb1 _ _ HR1) as HB.
      destruct (exec_block o _ b) as [o1 s1], (exec_block o _ (sub_body (subst_s pl) b)) as [o2 s2].
      destruct HB as [Ho HR2]. cbn in Ho, HR2. subst o2. split; [reflexivity|]. cbn [snd]. apply R_close_h. exact HR2.
  Qed.

  Lemma prog_sim : forall p, maxv p <= n -> forall st1 st2, R pl st1 st2 ->
    res_rel pl (exec_block o st1 p) (exec_block o st2 (sub_body (subst_s pl) p)).
  Proof.
    intros p Hp. apply body_sim_F.
    - apply Forall_forall. intros s _. apply stmt_sim.
    - apply fold_max_le. exact Hp.
  Qed.
End SimStmt.

(* ---- the inserted assignments ---- *)
Fixpoint bind_all (pl : plan) (st : state) : state :=
  match pl with [] => st | (l, x) :: tl => bind_all tl (set_var x (litval l) st) end.

Lemma exec_binds : forall o pl q st, plan_imm pl = true ->
  exec_block o st (binds pl ++ q) = exec_block o (bind_all pl st) q.
Proof.
  intros o pl; induction pl as [|[l x] tl IH]; intros q st Hi; [reflexivity|].
  cbn in Hi. apply andb_true_iff in Hi as [Hl Ht].
  cbn [binds map app bind_all fst snd]. rewrite exec_cons. cbn [exec_stmt]. rewrite eval_imm by exact Hl.
  apply IH. exact Ht.
Qed.

Lemma bind_all_spec : forall pl st, NoDup (names pl) ->
  core (bind_all pl st) = core st /\
  (forall y, ~ In y (names pl) -> get (s_env (bind_all pl st)) y = get (s_env st) y) /\
  (forall l x, In (l, x) pl -> get (s_env (bind_all pl st)) x = Some (litval l)).
Proof.
  intros pl; induction pl as [|[l x] tl IH]; intros st Hnd.
  - repeat split; auto. intros l x [].
  - cbn [names map snd] in Hnd. inversion Hnd as [|? ? Hx Hnd']; subst.
    destruct (IH (set_var x (litval l) st) Hnd') as (H1 & H2 & H3). cbn [bind_all]. repeat split.
    + rewrite H1. reflexivity.
    + intros y Hy. cbn [names map snd] in Hy. rewrite H2 by (intros Hin; apply Hy; right; exact Hin).
      cbn [set_var s_env]. apply get_upd_other. intros ->. apply Hy. left; reflexivity.
    + intros l' x' [Heq|Hin].
      * inversion Heq; subst. rewrite H2 by exact Hx. cbn [set_var s_env]. apply get_upd_same.
      * apply H3. exact Hin.
Qed.

Lemma bind_all_R : forall pl st, NoDup (names pl) -> R pl st (bind_all pl st).
Proof.
  intros pl st Hnd. destruct (bind_all_spec pl st Hnd) as (H1 & H2 & H3).
  split; [symmetry; exact H1|]. split; [|exact H3]. intros y Hy. symmetry. apply H2. exact Hy.
Qed.

Lemma split_imports_spec : forall b im rest, split_imports b = (im, rest) ->
  b = im ++ rest /\ Forall (fun s => is_import s = true) im.
Proof.
  intros b; induction b as [|s tl IH]; intros im rest H; cbn in H.
  - inversion H; subst. split; auto.
  - destruct (is_import s) eqn:E.
    + destruct (split_imports tl) as [a c]. inversion H; subst. destruct (IH a rest eq_refl) as [-> HF].
      split; [reflexivity|]. constructor; auto.
    + inversion H; subst. split; auto.
Qed.

Lemma exec_imports : forall o im q st, Forall (fun s => is_import s = true) im ->
  exec_block o st (im ++ q) = exec_block o st q.
Proof.
  intros o im q st HF; induction HF as [|s tl Hs _ IH]; [reflexivity|].
  cbn [app]. rewrite exec_cons. destruct s; try discriminate. cbn [exec_stmt]. exact IH.
Qed.

Lemma ins_generic : forall o pl b st, plan_imm pl = true ->
  exec_block o st (let (im, rest) := split_imports b in im ++ binds pl ++ rest) = exec_block o (bind_all pl st) b.
Proof.
  intros o pl b st Hi. destruct (split_imports b) as [im rest] eqn:E.
  destruct (split_imports_spec b im rest E) as [-> HF].
  rewrite (exec_imports o im (binds pl ++ rest) st HF), (exec_imports o im rest (bind_all pl st) HF).
  apply exec_binds. exact Hi.
Qed.

(* the new assignments go behind the docstring and the leading imports: nothing in front of them reads or writes
   anything they touch, so it is as if they ran first *)
Lemma insert_binds_exec : forall o pl q st, plan_imm pl = true ->
  exec_block o st (insert_binds pl q) = exec_block o (bind_all pl st) q.
Proof.
  intros o pl q st Hi. unfold insert_binds. destruct q as [|s tl]; [apply (ins_generic o pl [] st Hi)|].
  destruct s; try (apply ins_generic; exact Hi).
  destruct e; try (apply ins_generic; exact Hi).
  destruct (split_imports tl) as [im rest] eqn:E. rewrite !exec_cons. cbn [exec_stmt eval].
  pose proof (ins_generic o pl tl st Hi) as HG. rewrite E in HG. exact HG.
Qed.

(* MAIN THEOREM (overused_constant): for EVERY program, EVERY plan of immutable literals (atoms, tuple displays of atoms)
   with distinct names that do not occur in the program, every oracle and every start state: the rewritten program has
   the same outcome, heap, handles, trace and oracle position, and the same variables except for the new names *)
Theorem oc_with_sound : forall p pl,
  plan_imm pl = true -> NoDup (names pl) -> (forall x, In x (names pl) -> maxv p < x) ->
  forall o st, res_rel pl (exec_block o st p) (exec_block o st (oc_with pl p)).
Proof.
  intros p pl Hi Hnd Hfr o st. unfold oc_with. rewrite insert_binds_exec by exact Hi.
  apply (prog_sim o pl (maxv p) Hi Hfr p (le_n _)). apply bind_all_R. exact Hnd.
Qed.

Lemma names_combine : forall (ls : list expr) a, names (combine ls (seq a (length ls))) = seq a (length ls).
Proof. intros ls; induction ls as [|l tl IH]; intros a; cbn; [reflexivity|]. f_equal. apply IH. Qed.

Lemma oc_plan_names : forall p, names (oc_plan p) = seq (S (maxv p)) (length (oc_lits p)).
Proof. intros p. unfold oc_plan. apply names_combine. Qed.

(* the rule as it is: sound whenever every literal it picked is immutable *)
Theorem oc_partial : forall p p', oc p = Some p' -> plan_imm (oc_plan p) = true ->
  forall o st, res_rel (oc_plan p) (exec_block o st p) (exec_block o st p').
Proof.
  intros p p' H Hi o st. unfold oc in H.
  assert (Hp' : p' = oc_with (oc_plan p) p) by (destruct (oc_plan p); [discriminate|inversion H; reflexivity]).
  subst p'. apply oc_with_sound; auto.
  - rewrite oc_plan_names. apply seq_NoDup.
  - intros x Hx. rewrite oc_plan_names in Hx. apply in_seq in Hx. lia.
Qed.

Definition five (l : expr) : list stmt := map (fun i => SAssign i l) [1; 2; 3; 4; 5].

(* ... and refuted for list displays (finding F02-81): one shared object instead of five *)
Theorem oc_refuted_list_display : exists p p' o,
  oc p = Some p' /\ plan_imm (oc_plan p) = false /\
  ~ res_rel (oc_plan p) (exec_block o st0 p) (exec_block o st0 p') /\
  s_tr (snd (exec_block o st0 p)) = [EvCall 0 [RList [RAtom 0 22]]] /\
  s_tr (snd (exec_block o st0 p')) = [EvCall 0 [RList [RAtom 0 22; RAtom 4 5]]].
Proof.
  exists (five (EDisp KList [EAtom 0 22]) ++ [SAppend 1 (EAtom 4 5); SExpr (ECall 0 [EName 2])]).
  eexists. exists (fun _ => Some 0).
  split; [vm_compute; reflexivity|]. split; [reflexivity|]. split; [|split; reflexivity].
  intros [_ HR]. apply R_core in HR. destruct HR as (_ & _ & _ & Ht). vm_compute in Ht. discriminate.
Qed.

Example oc_partial_example :
  let p := SImport 0 :: five (EDisp KTup [EAtom 0 22; EAtom 4 5]) ++ [SExpr (ECall 0 [EAtom 0 22; EName 2])] in
  oc p = Some (SImport 0 :: SAssign 6 (EDisp KTup [EAtom 0 22; EAtom 4 5]) :: five (EName 6) ++ [SExpr (ECall 0 [EAtom 0 22; EName 2])])
  /\ plan_imm (oc_plan p) = true.
Proof. split; reflexivity. Qed.

(* a display that is replaced takes its elements with it; an atom is replaced inside displays that stay *)
Example oc_nested_example :
  let a := EAtom 0 22 in
  let p := five (EDisp KTup [a]) ++ five (EDisp KList [a; EName 1]) in
  oc p = Some (SAssign 6 (EDisp KTup [a]) :: SAssign 7 a :: five (EName 6) ++ five (EDisp KList [EName 7; EName 1])).
Proof. reflexivity. Qed.

(* the with block ends with the statement list in which it is introduced; the enclosing list may still use the handle
   (finding F02abs-3, the same family as F01-76): mcm1_sound is a statement about the rewritten list, not a congruence *)
Theorem mcm_nested_refuted : exists p o,
  mcm p = [SIf (ECall 0 []) [SWith 1 0 [SRead 2 1]] []; SRead 2 1] /\
  fst (exec_block o st0 p) = Normal /\ fst (exec_block o st0 (mcm p)) = Exc XClosed.
Proof.
  exists [SIf (ECall 0 []) [SOpen 1 0; SRead 2 1] []; SRead 2 1], (fun _ => Some 1). repeat split; reflexivity.
Qed.
