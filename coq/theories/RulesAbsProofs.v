(* C02, abstraction tranche: proofs about RulesAbsModel.v (every program of AbsPy, every oracle, every state).

   Part 1  induction principles, environments, blocks
   Part 2  fixes.missing_context_manager: mcm1 (the repaired rule) changes a run only by ONE close event, and exactly
           when the moved block is left by an exception / return or when there was no close() at all; the rule before
           the repairs is refuted (rebinding, nested return)
   Part 3  abstractions.overused_constant: binding immutable literals to fresh names in front of the first statement
           that is not an import preserves every run (new names aside); list displays are refuted *)
From Coq Require Import List Bool Arith Lia.
Import ListNotations.
Require Import Pyrefact.RulesAbsModel.

(* =========================================================================================== *)
(* Part 1 *)

Section ExprInd.
  Variable P : expr -> Prop.
  Hypothesis Hatom : forall k w, P (EAtom k w).
  Hypothesis Hname : forall x, P (EName x).
  Hypothesis Hdisp : forall kd es, Forall P es -> P (EDisp kd es).
  Hypothesis Hcall : forall i es, Forall P es -> P (ECall i es).
  Fixpoint expr_ind' (e : expr) : P e :=
    match e with
    | EAtom k w => Hatom k w
    | EName x => Hname x
    | EDisp kd es =>
        Hdisp kd es ((fix go (l : list expr) : Forall P l :=
                        match l with [] => Forall_nil _ | x :: t => Forall_cons _ (expr_ind' x) (go t) end) es)
    | ECall i es =>
        Hcall i es ((fix go (l : list expr) : Forall P l :=
                       match l with [] => Forall_nil _ | x :: t => Forall_cons _ (expr_ind' x) (go t) end) es)
    end.
End ExprInd.

Section StmtInd.
  Variable P : stmt -> Prop.
  Hypothesis Hpass : P SPass.
  Hypothesis Himport : forall i, P (SImport i).
  Hypothesis Hexpr : forall e, P (SExpr e).
  Hypothesis Hassign : forall x e, P (SAssign x e).
  Hypothesis Happend : forall x e, P (SAppend x e).
  Hypothesis Hopen : forall x r, P (SOpen x r).
  Hypothesis Hclose : forall x, P (SClose x).
  Hypothesis Hread : forall y x, P (SRead y x).
  Hypothesis Hreturn : forall e, P (SReturn e).
  Hypothesis Hif : forall e b1 b2, Forall P b1 -> Forall P b2 -> P (SIf e b1 b2).
  Hypothesis Hwith : forall x r b, Forall P b -> P (SWith x r b).
  Fixpoint stmt_ind' (s : stmt) : P s :=
    let go := fix go (l : list stmt) : Forall P l :=
                match l with [] => Forall_nil _ | x :: t => Forall_cons _ (stmt_ind' x) (go t) end in
    match s with
    | SPass => Hpass
    | SImport i => Himport i
    | SExpr e => Hexpr e
    | SAssign x e => Hassign x e
    | SAppend x e => Happend x e
    | SOpen x r => Hopen x r
    | SClose x => Hclose x
    | SRead y x => Hread y x
    | SReturn e => Hreturn e
    | SIf e b1 b2 => Hif e b1 b2 (go b1) (go b2)
    | SWith x r b => Hwith x r b (go b)
    end.
End StmtInd.

Lemma get_upd_same : forall e x v, get (upd e x v) x = Some v.
Proof.
  intros e x; revert e; induction x as [|x IH]; intros [|a tl] v; cbn; auto.
  - apply (IH []).
  - apply IH.
Qed.

Lemma nth_nil_none : forall y, nth y (@nil (option val)) None = None.
Proof. intros [|y]; reflexivity. Qed.

Lemma get_upd_other : forall e x y v, x <> y -> get (upd e x v) y = get e y.
Proof.
  unfold get. intros e x; revert e; induction x as [|x IH]; intros [|a tl] y v Hne; destruct y as [|y]; cbn;
    try congruence; auto; rewrite ?nth_nil_none; auto.
  - destruct y; reflexivity.
  - rewrite IH by congruence. apply nth_nil_none.
Qed.

Arguments get : simpl never.
Arguments upd : simpl never.

Lemma exec_cons : forall o st s tl,
  exec_block o st (s :: tl) = match exec_stmt o st s with (Normal, st1) => exec_block o st1 tl | r => r end.
Proof. reflexivity. Qed.

Lemma exec_app : forall o a b st,
  exec_block o st (a ++ b) = match exec_block o st a with (Normal, st1) => exec_block o st1 b | r => r end.
Proof.
  intros o a; induction a as [|s tl IH]; intros b st.
  - reflexivity.
  - cbn [app]. rewrite !exec_cons. destruct (exec_stmt o st s) as [[|v|k] st1]; auto.
Qed.

(* expressions never touch the environment *)
Definition er_st (r : er) : state := match r with EV _ st => st | EX _ st => st end.
Definition lr_st (r : lr) : state := match r with LV _ st => st | LX _ st => st end.

Lemma evals_cons : forall o st e tl,
  evals o st (e :: tl) = match eval o st e with
                         | EX k st1 => LX k st1
                         | EV v st1 => match evals o st1 tl with LV vs st2 => LV (v :: vs) st2 | LX k st2 => LX k st2 end
                         end.
Proof. reflexivity. Qed.

Lemma eval_disp : forall o st kd es,
  eval o st (EDisp kd es) = match evals o st es with LV vs st1 => mk kd vs st1 | LX k st1 => EX k st1 end.
Proof. reflexivity. Qed.
Lemma eval_call : forall o st i es,
  eval o st (ECall i es) = match evals o st es with LV vs st1 => call o i vs st1 | LX k st1 => EX k st1 end.
Proof. reflexivity. Qed.

Lemma evals_env_F : forall o es,
  Forall (fun e => forall st, s_env (er_st (eval o st e)) = s_env st) es ->
  forall st, s_env (lr_st (evals o st es)) = s_env st.
Proof.
  intros o es HF; induction HF as [|e tl He _ IH]; intros st.
  - reflexivity.
  - rewrite evals_cons. specialize (He st). destruct (eval o st e) as [v st1|k st1]; cbn in *; auto.
    specialize (IH st1). destruct (evals o st1 tl); cbn in *; congruence.
Qed.

Lemma eval_env : forall o e st, s_env (er_st (eval o st e)) = s_env st.
Proof.
  intros o e; induction e as [k w|x|kd es IH|i es IH] using expr_ind'; intros st.
  - reflexivity.
  - cbn. destruct (get (s_env st) x); reflexivity.
  - rewrite eval_disp. pose proof (evals_env_F o es IH st) as H.
    destruct (evals o st es) as [vs st1|k st1]; cbn in *; auto. destruct kd; cbn; auto.
  - rewrite eval_call. pose proof (evals_env_F o es IH st) as H.
    destruct (evals o st es) as [vs st1|k st1]; cbn in *; auto.
    unfold call. cbn. destruct (o (s_pos st1)); cbn; auto.
Qed.

Lemma close_h_env : forall h st, s_env (close_h h st) = s_env st.
Proof. intros h st; unfold close_h. destruct (nth h (s_files st) false); reflexivity. Qed.

(* =========================================================================================== *)
(* Part 2: missing_context_manager *)

Lemma split_close_app : forall x b b1 b2, split_close x b = Some (b1, b2) -> b = b1 ++ SClose x :: b2.
Proof.
  intros x b; induction b as [|s tl IH]; intros b1 b2 H; cbn in H; [discriminate|].
  destruct s; try (destruct (split_close x tl) as [[c1 c2]|]; [|discriminate]; inversion H; subst; cbn;
                   f_equal; apply IH; reflexivity).
  destruct (Nat.eqb x x0) eqn:E.
  - apply Nat.eqb_eq in E; subst. inversion H; subst. reflexivity.
  - destruct (split_close x tl) as [[c1 c2]|]; [|discriminate]. inversion H; subst. cbn. f_equal. apply IH; reflexivity.
Qed.

(* a statement that does not rebind x leaves x alone *)
Lemma block_frame_F : forall o x b,
  Forall (fun s => assigns x s = false -> forall st, get (s_env (snd (exec_stmt o st s))) x = get (s_env st) x) b ->
  existsb (assigns x) b = false ->
  forall st, get (s_env (snd (exec_block o st b))) x = get (s_env st) x.
Proof.
  intros o x b HF; induction HF as [|s tl Hs _ IH]; intros Hno st.
  - reflexivity.
  - cbn in Hno. apply orb_false_iff in Hno as [H1 H2].
    rewrite exec_cons. specialize (Hs H1 st).
    destruct (exec_stmt o st s) as [[|v|k] st1]; cbn in *; auto.
    rewrite IH; auto.
Qed.

Lemma stmt_frame : forall o x s, assigns x s = false ->
  forall st, get (s_env (snd (exec_stmt o st s))) x = get (s_env st) x.
Proof.
  intros o x s; induction s as [| i | e | y e | y e | y r | y | y z | e | e b1 b2 IH1 IH2 | y r b IH] using stmt_ind';
    intros Hno st; cbn [assigns] in Hno.
  - reflexivity.
  - reflexivity.
  - cbn. pose proof (eval_env o e st) as H. destruct (eval o st e); cbn in *; congruence.
  - cbn. pose proof (eval_env o e st) as H. apply Nat.eqb_neq in Hno.
    destruct (eval o st e); cbn in *; [|congruence]. rewrite get_upd_other by congruence. congruence.
  - cbn. destruct (get (s_env st) y) as [[| | |a|]|]; cbn; auto.
    pose proof (eval_env o e st) as H. destruct (eval o st e); cbn in *; congruence.
  - cbn. apply Nat.eqb_neq in Hno. rewrite get_upd_other by congruence. reflexivity.
  - cbn. destruct (get (s_env st) y) as [[| | | |h]|]; cbn; auto. rewrite close_h_env. reflexivity.
  - cbn. apply Nat.eqb_neq in Hno. destruct (get (s_env st) z) as [[| | | |h]|]; cbn; auto.
    destruct (nth h (s_files st) false); cbn; auto.
    destruct (o (s_pos st)); cbn; auto. rewrite get_upd_other by congruence. reflexivity.
  - cbn. pose proof (eval_env o e st) as H. destruct (eval o st e); cbn in *; congruence.
  - apply orb_false_iff in Hno as [H1 H2]. cbn [exec_stmt].
    pose proof (eval_env o e st) as H. destruct (eval o st e) as [v st1|k st1]; cbn in H; [|cbn; congruence].
    fold (exec_block o). destruct (truthy st1 v).
    + rewrite (block_frame_F o x b1 IH1 H1). congruence.
    + rewrite (block_frame_F o x b2 IH2 H2). congruence.
  - apply orb_false_iff in Hno as [H1 H2]. apply Nat.eqb_neq in H1. cbn [exec_stmt].
    fold (exec_block o). cbn [do_open].
    pose proof (block_frame_F o x b IH H2
                  (set_var y (VHandle (length (s_files st))) (emit (EvOpen r (length (s_files st))) (set_files (s_files st ++ [true]) st)))) as HB.
    destruct (exec_block o _ b) as [out st2]. cbn in *. rewrite close_h_env. rewrite HB.
    rewrite get_upd_other by congruence. reflexivity.
Qed.

Lemma block_frame : forall o x b, existsb (assigns x) b = false ->
  forall st, get (s_env (snd (exec_block o st b))) x = get (s_env st) x.
Proof.
  intros o x b. apply block_frame_F. apply Forall_forall. intros s _. apply stmt_frame.
Qed.

(* the state in which the moved block starts *)
Definition opened (x : var) (r : nat) (st : state) : state :=
  set_var x (VHandle (length (s_files st))) (emit (EvOpen r (length (s_files st))) (set_files (s_files st ++ [true]) st)).

Lemma exec_open : forall o st x r rest,
  exec_block o st (SOpen x r :: rest) = exec_block o (opened x r st) rest.
Proof. reflexivity. Qed.

Lemma exec_with : forall o st x r b rest,
  exec_block o st (SWith x r b :: rest) =
  match exec_block o (opened x r st) b with
  | (Normal, st2) => exec_block o (close_h (length (s_files st)) st2) rest
  | (out, st2) => (out, close_h (length (s_files st)) st2)
  end.
Proof.
  intros. rewrite exec_cons. cbn [exec_stmt do_open]. fold (exec_block o). fold (opened x r st).
  destruct (exec_block o (opened x r st) b) as [[|v|k] st2]; reflexivity.
Qed.

(* no close() in the list: the with block spans the rest of the list, and the only difference, on EVERY run, is that the
   handle is closed when the list is left *)
Theorem mcm_noclose_exact : forall o st x r rest,
  exec_block o st [SWith x r rest] =
  (fst (exec_block o st (SOpen x r :: rest)), close_h (length (s_files st)) (snd (exec_block o st (SOpen x r :: rest)))).
Proof.
  intros. rewrite exec_with, exec_open.
  destruct (exec_block o (opened x r st) rest) as [[|v|k] st2]; reflexivity.
Qed.

(* a close() at the end of the moved block b1, which does not rebind the handle: runs on which b1 completes are unchanged *)
Theorem mcm_close_normal : forall o st x r b1 b2 st2,
  existsb (assigns x) b1 = false ->
  exec_block o (opened x r st) b1 = (Normal, st2) ->
  exec_block o st (SWith x r b1 :: b2) = exec_block o st (SOpen x r :: b1 ++ SClose x :: b2).
Proof.
  intros o st x r b1 b2 st2 Hno Hb1.
  rewrite exec_with, exec_open, exec_app, Hb1, exec_cons. cbn [exec_stmt].
  pose proof (block_frame o x b1 Hno (opened x r st)) as HF. rewrite Hb1 in HF. cbn [snd] in HF.
  unfold opened in HF. cbn [set_var s_env] in HF. rewrite get_upd_same in HF. rewrite HF. reflexivity.
Qed.

(* ... and runs on which b1 is left by an exception or a return end with the handle closed: the point of the rule *)
Theorem mcm_close_abrupt : forall o st x r b1 b2 out st2,
  exec_block o (opened x r st) b1 = (out, st2) -> out <> Normal ->
  exec_block o st (SOpen x r :: b1 ++ SClose x :: b2) = (out, st2) /\
  exec_block o st (SWith x r b1 :: b2) = (out, close_h (length (s_files st)) st2).
Proof.
  intros o st x r b1 b2 out st2 Hb1 Hout.
  rewrite exec_with, exec_open, exec_app, Hb1. destruct out; [congruence| |]; auto.
Qed.

(* what one rewrite may do to a run: nothing, or one handle closed in the final state (close_h: one more EvClose event
   and the handle marked closed, nothing else) *)
Definition close_rel (r1 r2 : res) : Prop :=
  fst r2 = fst r1 /\ (snd r2 = snd r1 \/ exists h, snd r2 = close_h h (snd r1)).

Lemma mcm_here_sound : forall x r rest b', mcm_here x r rest = Some b' ->
  forall o st, close_rel (exec_block o st (SOpen x r :: rest)) (exec_block o st b').
Proof.
  intros x r rest b' H o st. unfold mcm_here, mcm_here_with in H.
  destruct rest as [|s0 tl]; [discriminate|]. remember (s0 :: tl) as rest.
  destruct (existsb (ret_handle x) rest); [discriminate|].
  destruct (split_close x rest) as [[b1 b2]|] eqn:Esc.
  - cbn [andb] in H. destruct (existsb (assigns x) b1) eqn:Eas; [discriminate|]. inversion H; subst b'.
    apply split_close_app in Esc. rewrite Esc.
    destruct (exec_block o (opened x r st) b1) as [out st2] eqn:Eb1.
    destruct out.
    + rewrite (mcm_close_normal o st x r b1 b2 st2 Eas Eb1). split; auto.
    + destruct (mcm_close_abrupt o st x r b1 b2 _ st2 Eb1) as [E1 E2]; [congruence|].
      rewrite E1, E2. split; cbn; eauto.
    + destruct (mcm_close_abrupt o st x r b1 b2 _ st2 Eb1) as [E1 E2]; [congruence|].
      rewrite E1, E2. split; cbn; eauto.
  - inversion H; subst b'. rewrite mcm_noclose_exact. split; cbn; eauto.
Qed.

Theorem mcm1_sound : forall b b', mcm1 b = Some b' ->
  forall o st, close_rel (exec_block o st b) (exec_block o st b').
Proof.
  intros b; induction b as [|s rest IH]; intros b' H o st; [discriminate|].
  unfold mcm1 in H. cbn [mcm1_with] in H. fold mcm1 in H.
  destruct (match s with SOpen x r => mcm_here_with true x r rest | _ => None end) as [c|] eqn:Eh.
  - inversion H; subst c. destruct s; try discriminate. apply mcm_here_sound. exact Eh.
  - change (mcm1_with true rest) with (mcm1 rest) in H.
    destruct (mcm1 rest) as [r'|] eqn:Er; [|discriminate]. inversion H; subst b'.
    rewrite !exec_cons. destruct (exec_stmt o st s) as [[|v|k] st1].
    + apply IH. reflexivity.
    + split; auto.
    + split; auto.
Qed.

(* full-strength equality fails by design: a raising run ends with one more close event *)
Theorem mcm_strict_refuted : exists b b' o,
  mcm1 b = Some b' /\ exec_block o st0 b <> exec_block o st0 b' /\
  s_tr (snd (exec_block o st0 b')) = EvClose 0 :: s_tr (snd (exec_block o st0 b)).
Proof.
  exists [SOpen 1 0; SRead 2 1; SClose 1], [SWith 1 0 [SRead 2 1]], (fun _ => None).
  split; [reflexivity|]. split; [|reflexivity]. vm_compute. discriminate.
Qed.

(* the rule before repair 99bac35: the removed close() closed another object *)
Theorem mcm_old_refuted_rebind : exists b b' o,
  mcm1_old b = Some b' /\ mcm1 b <> Some b' /\
  s_files (snd (exec_block o st0 b)) = [true; false] /\ s_files (snd (exec_block o st0 b')) = [false; true] /\
  ~ close_rel (exec_block o st0 b) (exec_block o st0 b').
Proof.
  exists [SOpen 1 0; SOpen 1 1; SClose 1], [SWith 1 0 [SOpen 1 1]], (fun _ => Some 0).
  split; [reflexivity|]. split; [vm_compute; discriminate|]. split; [reflexivity|]. split; [reflexivity|].
  intros [_ [H|[h H]]].
  - vm_compute in H. discriminate.
  - apply (f_equal s_files) in H. vm_compute in H.
    destruct h as [|[|[|h]]]; vm_compute in H; discriminate.
Qed.

(* the rule before repair 3428d16: a nested `return x` hands out a closed file *)
Theorem mcm_old_refuted_nested_return : exists b b' o,
  mcm1_old b = Some b' /\ mcm1 b = None /\
  fst (exec_block o st0 b) = Ret (RHandle 0 true) /\ fst (exec_block o st0 b') = Ret (RHandle 0 true) /\
  nth 0 (s_files (snd (exec_block o st0 b))) false = true /\
  nth 0 (s_files (snd (exec_block o st0 b'))) false = false.
Proof.
  exists [SOpen 1 0; SIf (ECall 0 []) [SReturn (EName 1)] []; SClose 1],
         [SWith 1 0 [SIf (ECall 0 []) [SReturn (EName 1)] []]], (fun _ => Some 1).
  repeat split; reflexivity.
Qed.

Example mcm_fires_example :
  mcm [SOpen 1 0; SRead 2 1; SClose 1; SExpr (ECall 0 [EName 2])] = [SWith 1 0 [SRead 2 1]; SExpr (ECall 0 [EName 2])]
  /\ mcm [SOpen 1 0; SOpen 3 1; SRead 2 1] = [SWith 1 0 [SWith 3 1 [SRead 2 1]]].
Proof. split; reflexivity. Qed.
