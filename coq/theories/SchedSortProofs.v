(* K1 for C06 -- the final sort makes the scheduled LIST (not only the set) independent of the yield order:
   for a lawful text order, [map snd (schedule ...)] is the unique descending arrangement of its elements. *)
From Coq Require Import List ZArith Bool Lia Permutation Sorted.
Import ListNotations.
Require Import Pyrefact.SchedModel Pyrefact.SchedProofs Pyrefact.SchedPermProofs.
Open Scope Z_scope.

Section SortProofs.
Variable T : Type.
Variable teqb : T -> T -> bool.
Variable tcmp : T -> T -> comparison.
Hypothesis teqb_spec : forall a b, teqb a b = true <-> a = b.
Hypothesis tcmp_eq : forall a b, tcmp a b = Eq <-> a = b.
Hypothesis tcmp_antisym : forall a b, tcmp a b = CompOpp (tcmp b a).
Hypothesis tcmp_trans : forall a b c, tcmp a b = Lt -> tcmp b c = Lt -> tcmp a c = Lt.
Variable ilines : list range.

Notation rw := (rewrite T).
Notation entry := (tkey * rewrite T)%type.

Definition rw_cmp (a b : rw) : comparison :=
  match range_cmp (rrng a) (rrng b) with
  | Eq => tcmp (rnew a) (rnew b)
  | c => c
  end.

Lemma range_cmp_Lt (a b : range) :
  range_cmp a b = Lt <-> fst a < fst b \/ (fst a = fst b /\ snd a < snd b).
Proof.
  unfold range_cmp. destruct (Z.compare_spec (fst a) (fst b)) as [E|L|G].
  - rewrite Z.compare_lt_iff. lia.
  - split; [intros _; left; exact L | reflexivity].
  - split; [discriminate | lia].
Qed.

Lemma range_cmp_Eq (a b : range) : range_cmp a b = Eq <-> a = b.
Proof.
  unfold range_cmp. destruct a as [a1 a2], b as [b1 b2]; cbn [fst snd].
  destruct (Z.compare_spec a1 b1) as [E|L|G].
  - rewrite Z.compare_eq_iff. split; [intros ->; now subst | intros H; now inversion H].
  - split; [discriminate | intros H; inversion H; lia].
  - split; [discriminate | intros H; inversion H; lia].
Qed.

Lemma range_cmp_antisym (a b : range) : range_cmp a b = CompOpp (range_cmp b a).
Proof.
  unfold range_cmp. rewrite (Z.compare_antisym (fst a) (fst b)).
  destruct (fst a ?= fst b); cbn; [apply Z.compare_antisym | reflexivity | reflexivity].
Qed.

Lemma rw_cmp_Lt (a b : rw) :
  rw_cmp a b = Lt <-> range_cmp (rrng a) (rrng b) = Lt \/ (rrng a = rrng b /\ tcmp (rnew a) (rnew b) = Lt).
Proof.
  unfold rw_cmp. destruct (range_cmp (rrng a) (rrng b)) eqn:E.
  - apply range_cmp_Eq in E. split; [intros H; right; auto | intros [H|[_ H]]; [discriminate | exact H]].
  - split; [intros _; now left | reflexivity].
  - split; [discriminate|]. intros [H|[H _]]; [discriminate|].
    apply range_cmp_Eq in H. congruence.
Qed.

Lemma rw_cmp_Eq (a b : rw) : rw_cmp a b = Eq <-> a = b.
Proof.
  unfold rw_cmp. destruct a as [ra na], b as [rb nb]; cbn [rrng rnew].
  destruct (range_cmp ra rb) eqn:E.
  - apply range_cmp_Eq in E. subst. rewrite tcmp_eq. split; [intros ->; reflexivity | intros H; now inversion H].
  - split; [discriminate|]. intros H; inversion H; subst.
    assert (X : range_cmp rb rb = Eq) by now apply range_cmp_Eq. congruence.
  - split; [discriminate|]. intros H; inversion H; subst.
    assert (X : range_cmp rb rb = Eq) by now apply range_cmp_Eq. congruence.
Qed.

Lemma rw_cmp_antisym (a b : rw) : rw_cmp a b = CompOpp (rw_cmp b a).
Proof.
  unfold rw_cmp. rewrite (range_cmp_antisym (rrng a) (rrng b)).
  destruct (range_cmp (rrng b) (rrng a)); cbn; [apply tcmp_antisym | reflexivity | reflexivity].
Qed.

Lemma rw_cmp_trans (a b c : rw) : rw_cmp a b = Lt -> rw_cmp b c = Lt -> rw_cmp a c = Lt.
Proof.
  rewrite !rw_cmp_Lt, !range_cmp_Lt. intros [H1|[E1 T1]] [H2|[E2 T2]].
  - left. lia.
  - left. rewrite <- E2. exact H1.
  - left. rewrite E1. exact H2.
  - right. split; [congruence | eapply tcmp_trans; eauto].
Qed.

(* a >= b *)
Definition rge (a b : rw) : Prop := rw_cmp a b <> Lt.

Lemma rge_trans a b c : rge a b -> rge b c -> rge a c.
Proof.
  unfold rge. intros H1 H2 H3.
  destruct (rw_cmp a b) eqn:E1; [|contradiction|].
  - apply rw_cmp_Eq in E1. subst. contradiction.
  - assert (L : rw_cmp b a = Lt) by (rewrite rw_cmp_antisym, E1; reflexivity).
    apply H2. eapply rw_cmp_trans; eauto.
Qed.

Lemma rge_antisym a b : rge a b -> rge b a -> a = b.
Proof.
  unfold rge. intros H1 H2. apply rw_cmp_Eq.
  destruct (rw_cmp a b) eqn:E; [reflexivity | contradiction|].
  exfalso. apply H2. rewrite rw_cmp_antisym, E. reflexivity.
Qed.

Lemma entry_cmp_Gt_rge (x y : entry) : entry_cmp T tcmp x y = Gt -> rge (snd x) (snd y).
Proof.
  unfold entry_cmp, rge, rw_cmp. destruct (range_cmp (rrng (snd x)) (rrng (snd y))); [|discriminate|discriminate].
  destruct (tcmp (rnew (snd x)) (rnew (snd y))); intros H; congruence.
Qed.

Lemma entry_cmp_notGt_rge (x y : entry) : entry_cmp T tcmp x y <> Gt -> rge (snd y) (snd x).
Proof.
  unfold rge. intros H L. apply H. clear H.
  assert (G : rw_cmp (snd x) (snd y) = Gt) by (rewrite rw_cmp_antisym, L; reflexivity).
  unfold entry_cmp. unfold rw_cmp in G.
  destruct (range_cmp (rrng (snd x)) (rrng (snd y))); [|discriminate|reflexivity].
  now rewrite G.
Qed.

Lemma insert_desc_sorted (x : entry) (l : list entry) :
  StronglySorted rge (map snd l) -> StronglySorted rge (map snd (insert_desc T tcmp x l)).
Proof.
  induction l as [|y tl IH]; intros S; cbn [insert_desc map]; [repeat constructor|].
  inversion S as [|? ? Stl Hy]; subst.
  destruct (entry_cmp T tcmp x y) eqn:E.
  - cbn [map]. constructor; [now apply IH|].
    assert (P : Permutation (map snd (x :: tl)) (map snd (insert_desc T tcmp x tl)))
      by (apply Permutation_map, insert_desc_perm).
    eapply Permutation_Forall; [exact P|]. cbn [map]. constructor; [|exact Hy].
    apply entry_cmp_notGt_rge. congruence.
  - cbn [map]. constructor; [now apply IH|].
    assert (P : Permutation (map snd (x :: tl)) (map snd (insert_desc T tcmp x tl)))
      by (apply Permutation_map, insert_desc_perm).
    eapply Permutation_Forall; [exact P|]. cbn [map]. constructor; [|exact Hy].
    apply entry_cmp_notGt_rge. congruence.
  - cbn [map]. constructor; [exact S|]. apply entry_cmp_Gt_rge in E.
    constructor; [exact E|]. eapply Forall_impl; [|exact Hy]. intros z Hz. eapply rge_trans; eauto.
Qed.

Lemma sort_desc_sorted (l : list entry) : StronglySorted rge (map snd (sort_desc T tcmp l)).
Proof.
  unfold sort_desc.
  assert (G : forall acc, StronglySorted rge (map snd acc) ->
              StronglySorted rge (map snd (fold_left (fun acc x => insert_desc T tcmp x acc) l acc))).
  { induction l as [|x l IH]; intros acc S; cbn [fold_left]; [exact S|]. apply IH. now apply insert_desc_sorted. }
  apply G. constructor.
Qed.

Lemma sorted_perm_unique (l : list rw) : forall l', StronglySorted rge l -> StronglySorted rge l' ->
  Permutation l l' -> l = l'.
Proof.
  induction l as [|x tl IH]; intros l' S S' P.
  - apply Permutation_nil in P. now subst.
  - destruct l' as [|y tl']; [apply Permutation_sym, Permutation_nil in P; discriminate|].
    inversion S as [|? ? Stl Hx]; inversion S' as [|? ? Stl' Hy]; subst.
    assert (x = y) as ->.
    { assert (Ix : In x (y :: tl')) by (eapply Permutation_in; [exact P | now left]).
      assert (Iy : In y (x :: tl)) by (eapply Permutation_in; [apply Permutation_sym; exact P | now left]).
      destruct Ix as [->|Ix]; [reflexivity|]. destruct Iy as [->|Iy]; [reflexivity|].
      rewrite Forall_forall in Hx, Hy. apply rge_antisym; [now apply Hx | now apply Hy]. }
    f_equal. apply IH; try assumption. eapply Permutation_cons_inv; exact P.
Qed.

(* T06.1, list form: the scheduled rewrites are applied in the same order whatever the yield order *)
Theorem schedule_perm_invariant_list (pre post : list (list (yielded T))) (g g' : list (yielded T)) :
  Permutation g g' ->
  Forall (is_default T) g ->
  NoDup (map (yrw T) g) ->
  ForallOrdPairs (fun a b => overlaps (rrng a) (rrng b) = false) (map (yrw T) g) ->
  map snd (schedule T teqb tcmp ilines (pre ++ g :: post))
  = map snd (schedule T teqb tcmp ilines (pre ++ g' :: post)).
Proof.
  intros P D ND FO.
  apply sorted_perm_unique; try apply sort_desc_sorted.
  now apply (schedule_perm_invariant T teqb tcmp teqb_spec).
Qed.

End SortProofs.

(* the concrete text order of the correspondence is lawful *)
Lemma text_cmp_eq (a : list Z) : forall b, text_cmp a b = Eq <-> a = b.
Proof.
  induction a as [|x a IH]; intros [|y b]; cbn; try (split; [discriminate | discriminate]); [tauto|].
  destruct (Z.compare_spec x y) as [E|L|G].
  - subst. rewrite IH. split; [intros ->; reflexivity | intros H; now inversion H].
  - split; [discriminate | intros H; inversion H; lia].
  - split; [discriminate | intros H; inversion H; lia].
Qed.

Lemma text_cmp_antisym (a : list Z) : forall b, text_cmp a b = CompOpp (text_cmp b a).
Proof.
  induction a as [|x a IH]; intros [|y b]; cbn; try reflexivity.
  rewrite (Z.compare_antisym y x). destruct (y ?= x); cbn; [apply IH | reflexivity | reflexivity].
Qed.

Lemma text_cmp_trans (a : list Z) : forall b c, text_cmp a b = Lt -> text_cmp b c = Lt -> text_cmp a c = Lt.
Proof.
  induction a as [|x a IH]; intros [|y b] [|z c]; cbn; try discriminate; try reflexivity.
  destruct (Z.compare_spec x y) as [E|L|G]; [| |discriminate].
  - subst. destruct (Z.compare_spec y z) as [E2|L2|G2]; [apply IH | reflexivity | discriminate].
  - destruct (Z.compare_spec y z) as [E2|L2|G2]; [|  |discriminate]; intros _ _.
    + subst. now rewrite (proj2 (Z.compare_lt_iff x z) L).
    + now rewrite (proj2 (Z.compare_lt_iff x z) (Z.lt_trans _ _ _ L L2)).
Qed.

Lemma text_eqb_spec (a : list Z) : forall b, text_eqb a b = true <-> a = b.
Proof.
  induction a as [|x a IH]; intros [|y b]; cbn; try (split; [discriminate | discriminate]); [tauto|].
  rewrite andb_true_iff, Z.eqb_eq, IH. split; [intros [-> ->]; reflexivity | intros H; now inversion H].
Qed.

Theorem schedule_text_perm_invariant (ilines : list range) (pre post : list (list (yielded (list Z))))
        (g g' : list (yielded (list Z))) :
  Permutation g g' ->
  Forall (is_default (list Z)) g ->
  NoDup (map (yrw (list Z)) g) ->
  ForallOrdPairs (fun a b => overlaps (rrng a) (rrng b) = false) (map (yrw (list Z)) g) ->
  map snd (schedule_text ilines (pre ++ g :: post)) = map snd (schedule_text ilines (pre ++ g' :: post)).
Proof.
  apply (schedule_perm_invariant_list (list Z) text_eqb text_cmp text_eqb_spec text_cmp_eq text_cmp_antisym
           text_cmp_trans).
Qed.

(* ... hence the text the pass produces (before the validity test) is the same *)
Theorem pass_text_perm_invariant (ilines : list range) (src : list Z)
        (pre post : list (list (yielded (list Z)))) (g g' : list (yielded (list Z))) :
  Permutation g g' ->
  Forall (is_default (list Z)) g ->
  NoDup (map (yrw (list Z)) g) ->
  ForallOrdPairs (fun a b => overlaps (rrng a) (rrng b) = false) (map (yrw (list Z)) g) ->
  apply_all Z src (map (fun e => (rrng (snd e), rnew (snd e))) (schedule_text ilines (pre ++ g :: post)))
  = apply_all Z src (map (fun e => (rrng (snd e), rnew (snd e))) (schedule_text ilines (pre ++ g' :: post))).
Proof.
  intros P D ND FO.
  rewrite <- !(map_map snd (fun r : rewrite (list Z) => (rrng r, rnew r))).
  now rewrite (schedule_text_perm_invariant ilines pre post g g' P D ND FO).
Qed.
