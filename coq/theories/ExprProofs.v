(* K13 -- theorems about ExprModel.v: T14.6 parse (unparse e) = Some e for every tree of every depth;
   T14.7 textual instantiation = tree instantiation when every binding binds at least as tightly as
   the context of its hole; R14.8 refuted in general (and for substituting a pattern by itself). *)
From Coq Require Import List Arith Bool Lia.
Import ListNotations.
Require Import Pyrefact.ExprModel.

(* ======================================================================================== *)
(* basic facts                                                                               *)
(* ======================================================================================== *)
Lemma P_L (f lvl : nat) (ts : list token) :
  P (S f) (L lvl) ts =
  match kind_of lvl with
  | KPass => P f (L (S lvl)) ts
  | KPrefix u =>
      match ts with
      | t :: r =>
          if tok_eqb t (tok_of_uop u)
          then match P f (L lvl) r with Some (e, r') => Some (Un u e, r') | None => None end
          else P f (L (S lvl)) ts
      | [] => None
      end
  | KBin o =>
      match P f (L (S lvl)) ts with Some (a, r) => P f (Loop o a 0) r | None => None end
  | KAtom =>
      match ts with
      | TAtom n :: TLp :: r =>
          match P f (L 0) r with Some (a, TRp :: r') => Some (Call n a, r') | _ => None end
      | TAtom n :: r => Some (Atom n, r)
      | THole x :: r => Some (Hole x, r)
      | TLp :: r =>
          match P f (L 0) r with Some (a, TRp :: r') => Some (a, r') | _ => None end
      | _ => None
      end
  end.
Proof. reflexivity. Qed.

Lemma P_Loop (f : nat) (o : bop) (acc : expr) (k : nat) (ts : list token) :
  P (S f) (Loop o acc k) ts =
  match ts with
  | t :: r =>
      if tok_eqb t (tok_of_bop o)
      then if nonassoc o && (0 <? k) then None
           else match P f (L (S (blvl o))) r with
                | Some (b, r') => P f (Loop o (Bin o acc b) (S k)) r'
                | None => None
                end
      else Some (acc, ts)
  | [] => Some (acc, [])
  end.
Proof. reflexivity. Qed.

Lemma tok_eqb_refl (t : token) : tok_eqb t t = true.
Proof. destruct t; simpl; try reflexivity; apply Nat.eqb_refl. Qed.

Lemma P_mono : forall f m ts r, P f m ts = Some r -> forall f', f <= f' -> P f' m ts = Some r.
Proof.
  induction f as [|f IH]; intros m ts r H f' Hle; [discriminate|].
  destruct f' as [|f']; [lia|]. assert (Hle' : f <= f') by lia.
  destruct m as [lvl | o acc k].
  - rewrite P_L in *. destruct (kind_of lvl) as [|u|o|].
    + eapply IH; eauto.
    + destruct ts as [|t r0]; [discriminate|]. destruct (tok_eqb t (tok_of_uop u)).
      * destruct (P f (L lvl) r0) as [[e r']|] eqn:E; [|discriminate].
        rewrite (IH _ _ _ E _ Hle'). exact H.
      * eapply IH; eauto.
    + destruct (P f (L (S lvl)) ts) as [[a r0]|] eqn:E; [|discriminate].
      rewrite (IH _ _ _ E _ Hle'). eapply IH; eauto.
    + destruct ts as [|t r0]; [discriminate|].
      destruct t; try discriminate; try exact H.
      * destruct r0 as [|t2 r1]; [exact H|].
        destruct t2; try exact H.
        destruct (P f (L 0) r1) as [[a r2]|] eqn:E; [|discriminate].
        rewrite (IH _ _ _ E _ Hle'). exact H.
      * destruct (P f (L 0) r0) as [[a r2]|] eqn:E; [|discriminate].
        rewrite (IH _ _ _ E _ Hle'). exact H.
  - rewrite P_Loop in *. destruct ts as [|t r0]; [exact H|].
    destruct (tok_eqb t (tok_of_bop o)); [|exact H].
    destruct (nonassoc o && (0 <? k)); [discriminate|].
    destruct (P f (L (S (blvl o))) r0) as [[b r']|] eqn:E; [|discriminate].
    rewrite (IH _ _ _ E _ Hle'). eapply IH; eauto.
Qed.

(* the operator count only matters for the non-associative levels *)
Lemma loop_k : forall f o acc k k' ts,
  nonassoc o = false -> P f (Loop o acc k) ts = P f (Loop o acc k') ts.
Proof.
  induction f as [|f IH]; intros o acc k k' ts Hn; [reflexivity|].
  rewrite !P_Loop. destruct ts as [|t r]; [reflexivity|].
  destruct (tok_eqb t (tok_of_bop o)); [|reflexivity].
  rewrite Hn. cbn [andb].
  destruct (P f (L (S (blvl o))) r) as [[b r']|]; [|reflexivity].
  apply IH. exact Hn.
Qed.

Definition hd_is (t : token) (ts : list token) : bool :=
  match ts with x :: _ => tok_eqb x t | [] => false end.

Definition tok_bop (t : token) : option bop :=
  match t with
  | TStar => Some BMul | TPlus => Some BAdd | TLess => Some BLt | TAnd => Some BAnd | TOr => Some BOr
  | _ => None
  end.

(* what may follow an expression parsed at level l: the end, a closing parenthesis, or a binary
   operator that binds less tightly than l *)
Definition follow_ok (l : nat) (rest : list token) : bool :=
  match rest with
  | [] => true
  | TRp :: _ => true
  | t :: _ => match tok_bop t with Some o => blvl o <? l | None => false end
  end.

Lemma follow_mono (l l2 : nat) (rest : list token) :
  l <= l2 -> follow_ok l rest = true -> follow_ok l2 rest = true.
Proof.
  intros Hle H. destruct rest as [|t r]; [reflexivity|].
  destruct t; simpl in *; try discriminate; try reflexivity;
    apply Nat.ltb_lt in H; apply Nat.ltb_lt; lia.
Qed.

Lemma follow_not_op (l : nat) (o : bop) (rest : list token) :
  follow_ok l rest = true -> l <= blvl o -> hd_is (tok_of_bop o) rest = false.
Proof.
  intros H Hle. destruct rest as [|t r]; [reflexivity|].
  destruct t; destruct o; simpl in *; try reflexivity; try discriminate;
    apply Nat.ltb_lt in H; lia.
Qed.

Lemma follow_not_lp (l : nat) (rest : list token) :
  follow_ok l rest = true -> hd_is TLp rest = false.
Proof. intros H. destruct rest as [|t r]; [reflexivity|]. destruct t; simpl in *; congruence. Qed.

Lemma follow_op (o : bop) (l : nat) (ts : list token) :
  blvl o < l -> follow_ok l (tok_of_bop o :: ts) = true.
Proof. intros H. destruct o; simpl in *; apply Nat.ltb_lt; exact H. Qed.

Lemma loop_exit (f : nat) (o : bop) (acc : expr) (k : nat) (rest : list token) :
  hd_is (tok_of_bop o) rest = false -> P (S f) (Loop o acc k) rest = Some (acc, rest).
Proof.
  intros H. rewrite P_Loop. destruct rest as [|t r]; [reflexivity|].
  simpl in H. rewrite H. reflexivity.
Qed.

Lemma kind_bin_lvl (l : nat) (o : bop) : kind_of l = KBin o -> blvl o = l.
Proof.
  do 9 (destruct l as [|l]; [simpl; intros H; try discriminate; inversion H; reflexivity|]).
  simpl. discriminate.
Qed.

Lemma kind_prefix_lvl (l : nat) (u : uop) : kind_of l = KPrefix u -> ulvl u = l.
Proof.
  do 9 (destruct l as [|l]; [simpl; intros H; try discriminate; inversion H; reflexivity|]).
  simpl. discriminate.
Qed.

Lemma kind_of_blvl (o : bop) : kind_of (blvl o) = KBin o.
Proof. destruct o; reflexivity. Qed.

Lemma kind_of_ulvl (u : uop) : kind_of (ulvl u) = KPrefix u.
Proof. destruct u; reflexivity. Qed.

Lemma P_nil : forall f l, P f (L l) [] = None.
Proof.
  induction f as [|f IH]; intros l; [reflexivity|].
  rewrite P_L. destruct (kind_of l); try reflexivity; [apply IH | rewrite IH; reflexivity].
Qed.

(* one level down *)
Lemma down1 (f l : nat) (ts : list token) (e : expr) (rest : list token) :
  l < 8 ->
  P f (L (S l)) ts = Some (e, rest) ->
  (forall o, kind_of l = KBin o -> hd_is (tok_of_bop o) rest = false) ->
  (forall u, kind_of l = KPrefix u -> hd_is (tok_of_uop u) ts = false) ->
  P (S f) (L l) ts = Some (e, rest).
Proof.
  intros Hl H Hb Hp. rewrite P_L. destruct (kind_of l) as [|u|o|] eqn:K.
  - exact H.
  - specialize (Hp u eq_refl). destruct ts as [|t r].
    + rewrite P_nil in H. discriminate.
    + simpl in Hp. rewrite Hp. exact H.
  - rewrite H. destruct f; [discriminate|]. apply loop_exit. apply Hb. reflexivity.
  - exfalso. do 8 (destruct l as [|l]; [discriminate|]). lia.
Qed.

(* several levels down *)
Lemma descent (d : nat) : forall f l ts e rest,
  l + d <= 8 ->
  P f (L (l + d)) ts = Some (e, rest) ->
  follow_ok l rest = true ->
  (forall u, l <= ulvl u -> ulvl u < l + d -> hd_is (tok_of_uop u) ts = false) ->
  P (f + d) (L l) ts = Some (e, rest).
Proof.
  induction d as [|d IH]; intros f l ts e rest Hle H Hf Hp.
  - rewrite !Nat.add_0_r in *. exact H.
  - rewrite Nat.add_succ_r. apply down1.
    + lia.
    + apply IH.
      * lia.
      * replace (S l + d) with (l + S d) by lia. exact H.
      * eapply follow_mono; [|exact Hf]. lia.
      * intros u H1 H2. apply Hp; lia.
    + intros o K. apply kind_bin_lvl in K. eapply follow_not_op; [exact Hf | lia].
    + intros u K. apply kind_prefix_lvl in K. apply Hp; lia.
Qed.

(* ======================================================================================== *)
(* shape of the printed text                                                                 *)
(* ======================================================================================== *)
Lemma up_paren (l : nat) (e : expr) :
  up l e = if prec e <? l then TLp :: up 0 e ++ [TRp] else up 0 e.
Proof. destruct e; reflexivity. Qed.

Lemma prec_le_8 (e : expr) : prec e <= 8.
Proof. destruct e as [n|x|u a|o a b|f a]; simpl; try lia; [destruct u | destruct o]; simpl; lia. Qed.

Lemma up_nonempty (l : nat) (e : expr) : up l e <> [].
Proof.
  rewrite up_paren. destruct (prec e <? l); [discriminate|].
  revert l. induction e as [n|x|u a IHa|o a IHa b IHb|f a IHa]; intros l; try discriminate.
  cbn [up]. replace (prec (Bin o a b) <? 0) with false by (destruct o; reflexivity).
  intros H. apply app_eq_nil in H. destruct H as [_ H]. discriminate.
Qed.

(* a printed expression in a context tighter than a prefix operator never starts with it *)
Lemma up_head_prefix (e : expr) : forall l u rest,
  ulvl u < l -> hd_is (tok_of_uop u) (up l e ++ rest) = false.
Proof.
  induction e as [n|x|v a IHa|o a IHa b IHb|f a IHa]; intros l u rest Hl;
    rewrite up_paren; destruct (prec _ <? l) eqn:E; try (destruct u; reflexivity).
  - (* Un, not parenthesised *)
    apply Nat.ltb_ge in E. cbn [prec] in E.
    destruct u, v; cbn in *; try reflexivity; lia.
  - (* Bin, not parenthesised *)
    apply Nat.ltb_ge in E. cbn [prec] in E.
    cbn [up]. replace (prec (Bin o a b) <? 0) with false by (destruct o; reflexivity).
    rewrite <- app_assoc. apply IHa. destruct o; cbn in *; lia.
Qed.

Fixpoint size (e : expr) : nat :=
  match e with
  | Atom _ | Hole _ => 1
  | Un _ a => S (size a)
  | Bin _ a b => S (size a + size b)
  | Call _ a => S (size a)
  end.

Lemma up0_un u a : up 0 (Un u a) = tok_of_uop u :: up (ulvl u) a.
Proof. reflexivity. Qed.
Lemma up0_bin o a b : up 0 (Bin o a b) = up (lprint o) a ++ tok_of_bop o :: up (rprint o) b.
Proof. reflexivity. Qed.
Lemma up0_call f a : up 0 (Call f a) = TAtom f :: TLp :: up 0 a ++ [TRp].
Proof. reflexivity. Qed.

Lemma up_len_ge (l : nat) (e : expr) : length (up 0 e) <= length (up l e).
Proof.
  rewrite (up_paren l e). destruct (prec e <? l); [|lia].
  cbn [length]. rewrite app_length. lia.
Qed.

Lemma size_le_length (e : expr) : forall l, size e <= length (up l e).
Proof.
  intros l. eapply Nat.le_trans; [|apply up_len_ge]. clear l.
  induction e as [n|x|u a IHa|o a IHa b IHb|f a IHa]; cbn [size].
  - simpl. lia.
  - simpl. lia.
  - rewrite up0_un. cbn [length]. pose proof (up_len_ge (ulvl u) a). lia.
  - rewrite up0_bin, app_length. cbn [length].
    pose proof (up_len_ge (lprint o) a). pose proof (up_len_ge (rprint o) b). lia.
  - rewrite up0_call. cbn [length]. rewrite app_length. cbn [length]. lia.
Qed.

(* ======================================================================================== *)
(* T14.6  parse (unparse e) = Some e                                                         *)
(* ======================================================================================== *)
Definition B (e : expr) : nat := 40 * size e.

(* parsing at level l (or looser than the level l' the text was printed for) the printed text of e,
   followed by something that cannot continue an expression of level l, gives back e *)
Definition Main (e : expr) : Prop :=
  forall l l' rest f, l <= l' -> l <= 8 -> follow_ok l rest = true -> B e + 20 <= f ->
    P f (L l) (up l' e ++ rest) = Some (e, rest).

(* left-associative levels: parsing the printed e and then continuing the operand loop is the same
   as entering the loop with e already accumulated *)
Definition Spine (e : expr) : Prop :=
  forall o rest r f1, nonassoc o = false -> follow_ok (S (blvl o)) rest = true ->
    P f1 (Loop o e 0) rest = Some r ->
    P (f1 + B e + 20) (L (blvl o)) (up (blvl o) e ++ rest) = Some r.

Lemma main_of_body (e : expr) :
  (forall l rest f, l <= prec e -> follow_ok l rest = true -> B e + 10 <= f ->
      P f (L l) (up 0 e ++ rest) = Some (e, rest)) ->
  Main e.
Proof.
  intros A l l' rest f Hll Hl8 Hf Hfuel. rewrite up_paren. destruct (prec e <? l') eqn:E.
  - apply P_mono with (f := S (B e + 10) + (8 - l)); [|lia].
    apply descent.
    + lia.
    + replace (l + (8 - l)) with 8 by lia. rewrite P_L. change (kind_of 8) with KAtom.
      cbn [app]. rewrite <- app_assoc. cbn [app].
      rewrite (A 0 (TRp :: rest) (B e + 10)); [reflexivity | lia | reflexivity | lia].
    + exact Hf.
    + intros u _ _. destruct u; reflexivity.
  - apply Nat.ltb_ge in E. apply A; [lia | exact Hf | lia].
Qed.

Lemma blvl_inj (o o' : bop) : blvl o = blvl o' -> o = o'.
Proof. destruct o, o'; simpl; intros H; try reflexivity; discriminate. Qed.

Lemma blvl_le (o : bop) : blvl o <= 6.
Proof. destruct o; simpl; lia. Qed.

Lemma up_same (p : nat) (e : expr) : prec e <> p -> up p e = up (S p) e.
Proof.
  intros H. rewrite (up_paren p), (up_paren (S p)).
  destruct (prec e <? p) eqn:E1, (prec e <? S p) eqn:E2; try reflexivity;
    [apply Nat.ltb_lt in E1; apply Nat.ltb_ge in E2 | apply Nat.ltb_ge in E1; apply Nat.ltb_lt in E2]; lia.
Qed.

Lemma loop_fuel f o e k rest r : P f (Loop o e k) rest = Some r -> 1 <= f.
Proof. destruct f; [discriminate | lia]. Qed.

Lemma main_spine (e : expr) : Main e /\ Spine e.
Proof.
  induction e as [n|x|u a [IHa SPa]|o a [IHa SPa] b [IHb SPb]|g a [IHa SPa]].
  - (* Atom *)
    assert (M : Main (Atom n)).
    { apply main_of_body. intros l rest f Hl Hf Hfuel. cbn [prec] in Hl.
      apply P_mono with (f := 1 + (8 - l)); [|unfold B in *; cbn [size] in *; lia].
      apply descent.
      - lia.
      - replace (l + (8 - l)) with 8 by lia. rewrite P_L. change (kind_of 8) with KAtom.
        change (up 0 (Atom n) ++ rest) with (TAtom n :: rest).
        destruct rest as [|t r]; [reflexivity|].
        destruct t; try reflexivity. apply follow_not_lp in Hf. discriminate.
      - exact Hf.
      - intros u _ _. destruct u; reflexivity. }
    split; [exact M|].
    intros o rest r f1 Hn Hf H. pose proof (loop_fuel _ _ _ _ _ _ H) as H1.
    replace (f1 + B (Atom n) + 20) with (S (f1 + B (Atom n) + 19)) by lia.
    rewrite P_L, kind_of_blvl.
    rewrite (up_same (blvl o) (Atom n)) by (pose proof (blvl_le o); cbn [prec]; lia).
    rewrite (M (S (blvl o)) (S (blvl o)) rest); [|lia | pose proof (blvl_le o); lia | exact Hf | lia].
    eapply P_mono; [exact H | lia].
  - (* Hole *)
    assert (M : Main (Hole x)).
    { apply main_of_body. intros l rest f Hl Hf Hfuel. cbn [prec] in Hl.
      apply P_mono with (f := 1 + (8 - l)); [|unfold B in *; cbn [size] in *; lia].
      apply descent.
      - lia.
      - replace (l + (8 - l)) with 8 by lia. reflexivity.
      - exact Hf.
      - intros u _ _. destruct u; reflexivity. }
    split; [exact M|].
    intros o rest r f1 Hn Hf H. pose proof (loop_fuel _ _ _ _ _ _ H) as H1.
    replace (f1 + B (Hole x) + 20) with (S (f1 + B (Hole x) + 19)) by lia.
    rewrite P_L, kind_of_blvl.
    rewrite (up_same (blvl o) (Hole x)) by (pose proof (blvl_le o); cbn [prec]; lia).
    rewrite (M (S (blvl o)) (S (blvl o)) rest); [|lia | pose proof (blvl_le o); lia | exact Hf | lia].
    eapply P_mono; [exact H | lia].
  - (* Un *)
    assert (M : Main (Un u a)).
    { apply main_of_body. intros l rest f Hl Hf Hfuel. cbn [prec] in Hl.
      assert (Hu8 : ulvl u <= 8) by (destruct u; simpl; lia).
      apply P_mono with (f := S (B a + 20) + (ulvl u - l));
        [|unfold B in *; cbn [size] in *; lia].
      apply descent.
      - lia.
      - replace (l + (ulvl u - l)) with (ulvl u) by lia. rewrite P_L, kind_of_ulvl.
        rewrite up0_un. cbn [app]. rewrite tok_eqb_refl.
        rewrite (IHa (ulvl u) (ulvl u) rest); [reflexivity | lia | exact Hu8 | | lia].
        eapply follow_mono; [|exact Hf]. exact Hl.
      - exact Hf.
      - intros u' H1 H2. rewrite up0_un. cbn [app hd_is].
        destruct u, u'; cbn [ulvl tok_of_uop tok_eqb] in *; try reflexivity; lia. }
    split; [exact M|].
    intros o rest r f1 Hn Hf H. pose proof (loop_fuel _ _ _ _ _ _ H) as H1.
    replace (f1 + B (Un u a) + 20) with (S (f1 + B (Un u a) + 19)) by lia.
    rewrite P_L, kind_of_blvl.
    rewrite (up_same (blvl o) (Un u a)) by (destruct o, u; cbn; try discriminate; lia).
    rewrite (M (S (blvl o)) (S (blvl o)) rest); [|lia | pose proof (blvl_le o); lia | exact Hf | lia].
    eapply P_mono; [exact H | lia].
  - (* Bin *)
    assert (M : Main (Bin o a b)).
    { apply main_of_body. intros l rest f Hl Hf Hfuel. cbn [prec] in Hl.
      pose proof (blvl_le o) as Ho6.
      assert (Hfp : follow_ok (S (blvl o)) rest = true) by (eapply follow_mono; [|exact Hf]; lia).
      assert (Hexit : hd_is (tok_of_bop o) rest = false) by (eapply follow_not_op; [exact Hf | exact Hl]).
      assert (Hb : P (B b + 21) (L (S (blvl o))) (up (rprint o) b ++ rest) = Some (b, rest)).
      { apply IHb; [destruct o; simpl; lia | lia | exact Hfp | lia]. }
      rewrite up0_bin, <- app_assoc. cbn [app].
      destruct (nonassoc o) eqn:Hn.
      - (* `or`, `and`, `<`: both operands one level up, no second operator *)
        apply P_mono with (f := S (S (B a + B b + 21)) + (blvl o - l));
          [|unfold B in *; cbn [size] in *; lia].
        apply descent.
        + lia.
        + replace (l + (blvl o - l)) with (blvl o) by lia. rewrite P_L, kind_of_blvl.
          rewrite (IHa (S (blvl o)) (lprint o));
            [|destruct o; cbn [blvl lprint nonassoc] in *; try discriminate; lia | lia | apply follow_op; lia | lia].
          rewrite P_Loop, tok_eqb_refl, Hn. cbn [Nat.ltb Nat.leb andb].
          rewrite (P_mono _ _ _ _ Hb) by lia.
          replace (B a + B b + 21) with (S (B a + B b + 20)) by lia.
          apply loop_exit. exact Hexit.
        + exact Hf.
        + intros u' H1 H2. apply up_head_prefix. destruct o; cbn [blvl lprint] in *; lia.
      - (* `+`, `*`: left operand at the same level (the spine), right operand one level up *)
        assert (Elp : lprint o = blvl o) by (destruct o; simpl in *; try discriminate; reflexivity).
        rewrite Elp.
        apply P_mono with (f := (S (B b + 21) + B a + 20) + (blvl o - l));
          [|unfold B in *; cbn [size] in *; lia].
        apply descent.
        + lia.
        + replace (l + (blvl o - l)) with (blvl o) by lia.
          apply (SPa o (tok_of_bop o :: up (rprint o) b ++ rest) (Bin o a b, rest) (S (B b + 21)) Hn).
          * apply follow_op. lia.
          * rewrite P_Loop, tok_eqb_refl, Hn. cbn [andb]. rewrite Hb.
            replace (B b + 21) with (S (B b + 20)) by lia. apply loop_exit. exact Hexit.
        + exact Hf.
        + intros u' H1 H2. apply up_head_prefix. lia. }
    split; [exact M|].
    intros o' rest r f1 Hn Hf H. pose proof (loop_fuel _ _ _ _ _ _ H) as H1.
    destruct (Nat.eq_dec (blvl o) (blvl o')) as [Eo|Eo].
    + (* the node itself is part of the spine *)
      apply blvl_inj in Eo. subst o'.
      assert (Elp : lprint o = blvl o) by (destruct o; simpl in *; try discriminate; reflexivity).
      assert (Erp : rprint o = S (blvl o)) by (destruct o; simpl in *; try discriminate; reflexivity).
      rewrite (up_paren (blvl o) (Bin o a b)). cbn [prec]. rewrite Nat.ltb_irrefl.
      rewrite up0_bin, <- app_assoc, Elp, Erp. cbn [app].
      pose proof (blvl_le o) as Ho6.
      apply P_mono with (f := S (f1 + B b + 20) + B a + 20); [|unfold B; cbn [size]; lia].
      apply (SPa o (tok_of_bop o :: up (S (blvl o)) b ++ rest) r (S (f1 + B b + 20)) Hn).
      * apply follow_op. lia.
      * rewrite P_Loop, tok_eqb_refl, Hn. cbn [andb].
        rewrite (IHb (S (blvl o)) (S (blvl o)) rest); [|lia | lia | exact Hf | lia].
        rewrite (loop_k _ o (Bin o a b) 1 0 rest Hn). eapply P_mono; [exact H | lia].
    + replace (f1 + B (Bin o a b) + 20) with (S (f1 + B (Bin o a b) + 19)) by lia.
      rewrite P_L, kind_of_blvl.
      rewrite (up_same (blvl o') (Bin o a b)) by (cbn [prec]; exact Eo).
      rewrite (M (S (blvl o')) (S (blvl o')) rest); [|lia | pose proof (blvl_le o'); lia | exact Hf | lia].
      eapply P_mono; [exact H | lia].
  - (* Call *)
    assert (M : Main (Call g a)).
    { apply main_of_body. intros l rest f Hl Hf Hfuel. cbn [prec] in Hl.
      apply P_mono with (f := S (B a + 20) + (8 - l)); [|unfold B in *; cbn [size] in *; lia].
      apply descent.
      - lia.
      - replace (l + (8 - l)) with 8 by lia. rewrite P_L. change (kind_of 8) with KAtom.
        rewrite up0_call. cbn [app]. rewrite <- app_assoc. cbn [app].
        rewrite (IHa 0 0 (TRp :: rest)); [reflexivity | lia | lia | reflexivity | lia].
      - exact Hf.
      - intros u _ _. destruct u; reflexivity. }
    split; [exact M|].
    intros o rest r f1 Hn Hf H. pose proof (loop_fuel _ _ _ _ _ _ H) as H1.
    replace (f1 + B (Call g a) + 20) with (S (f1 + B (Call g a) + 19)) by lia.
    rewrite P_L, kind_of_blvl.
    rewrite (up_same (blvl o) (Call g a)) by (pose proof (blvl_le o); cbn [prec]; lia).
    rewrite (M (S (blvl o)) (S (blvl o)) rest); [|lia | pose proof (blvl_le o); lia | exact Hf | lia].
    eapply P_mono; [exact H | lia].
Qed.

(* T14.6 *)
Theorem parse_unparse (e : expr) : parse (unparse e) = Some e.
Proof.
  unfold parse, unparse, parse_fuel.
  destruct (main_spine e) as [M _].
  rewrite <- (app_nil_r (up 0 e)) at 2.
  rewrite (M 0 0 [] (40 * length (up 0 e) + 40)); [reflexivity | lia | lia | reflexivity |].
  pose proof (size_le_length e 0). unfold B. lia.
Qed.

(* ======================================================================================== *)
(* T14.7  textual instantiation vs tree instantiation                                        *)
(* ======================================================================================== *)
Lemma inst_tokens_app rho a b : inst_tokens rho (a ++ b) = inst_tokens rho a ++ inst_tokens rho b.
Proof. unfold inst_tokens. apply flat_map_app. Qed.

Lemma inst_up (rho : nat -> expr) (t : expr) : forall l,
  safe_at rho l t = true -> inst_tokens rho (up l t) = up l (inst_tree rho t).
Proof.
  induction t as [n|x|u a IHa|o a IHa b IHb|f a IHa]; intros l Hs.
  - cbn [inst_tree]. rewrite (up_paren l (Atom n)). cbn [prec]. destruct (8 <? l); reflexivity.
  - cbn [safe_at] in Hs. apply Nat.leb_le in Hs. pose proof (prec_le_8 (rho x)) as H8.
    rewrite (up_paren l (Hole x)). cbn [prec].
    replace (8 <? l) with false by (symmetry; apply Nat.ltb_ge; lia).
    cbn [inst_tree]. rewrite (up_paren l (rho x)).
    replace (prec (rho x) <? l) with false by (symmetry; apply Nat.ltb_ge; lia).
    change (up 0 (Hole x)) with [THole x]. unfold inst_tokens. cbn [flat_map]. apply app_nil_r.
  - cbn [safe_at] in Hs. cbn [inst_tree].
    rewrite (up_paren l (Un u a)), (up_paren l (Un u (inst_tree rho a))). cbn [prec].
    assert (E : inst_tokens rho (up 0 (Un u a)) = up 0 (Un u (inst_tree rho a))).
    { rewrite !up0_un. change (tok_of_uop u :: up (ulvl u) a) with ([tok_of_uop u] ++ up (ulvl u) a).
      rewrite inst_tokens_app, (IHa _ Hs). destruct u; reflexivity. }
    destruct (ulvl u <? l); [|exact E].
    change (TLp :: up 0 (Un u a) ++ [TRp]) with ([TLp] ++ up 0 (Un u a) ++ [TRp]).
    rewrite !inst_tokens_app, E. reflexivity.
  - cbn [safe_at] in Hs. apply andb_true_iff in Hs. destruct Hs as [Ha Hb]. cbn [inst_tree].
    rewrite (up_paren l (Bin o a b)), (up_paren l (Bin o (inst_tree rho a) (inst_tree rho b))).
    cbn [prec].
    assert (E : inst_tokens rho (up 0 (Bin o a b)) = up 0 (Bin o (inst_tree rho a) (inst_tree rho b))).
    { rewrite !up0_bin.
      change (tok_of_bop o :: up (rprint o) b) with ([tok_of_bop o] ++ up (rprint o) b).
      rewrite !inst_tokens_app, (IHa _ Ha), (IHb _ Hb). destruct o; reflexivity. }
    destruct (blvl o <? l); [|exact E].
    change (TLp :: up 0 (Bin o a b) ++ [TRp]) with ([TLp] ++ up 0 (Bin o a b) ++ [TRp]).
    rewrite !inst_tokens_app, E. reflexivity.
  - cbn [safe_at] in Hs. cbn [inst_tree].
    rewrite (up_paren l (Call f a)), (up_paren l (Call f (inst_tree rho a))). cbn [prec].
    assert (E : inst_tokens rho (up 0 (Call f a)) = up 0 (Call f (inst_tree rho a))).
    { rewrite !up0_call.
      change (TAtom f :: TLp :: up 0 a ++ [TRp]) with ([TAtom f; TLp] ++ up 0 a ++ [TRp]).
      rewrite !inst_tokens_app, (IHa _ Hs). reflexivity. }
    destruct (8 <? l); [|exact E].
    change (TLp :: up 0 (Call f a) ++ [TRp]) with ([TLp] ++ up 0 (Call f a) ++ [TRp]).
    rewrite !inst_tokens_app, E. reflexivity.
Qed.

(* T14.7 (partial): when every binding's top operator binds at least as tightly as the context of
   its hole, the text format_template produces is the unparsed tree-level result, hence parses to it *)
Theorem inst_text_partial (rho : nat -> expr) (t : expr) :
  safe rho t = true ->
  inst_text rho t = unparse (inst_tree rho t)
  /\ parse (inst_text rho t) = Some (inst_tree rho t).
Proof.
  intros Hs. unfold inst_text, unparse, safe in *.
  rewrite (inst_up rho t 0 Hs). split; [reflexivity | apply parse_unparse].
Qed.

(* R14.8: refuted in general.  sub("f({{x}})", "{{x}} * 2", "y = f(1 + 2)")  gives  1 + 2 * 2 *)
Definition w_rho : nat -> expr := rho_of [Bin BAdd (Atom 1) (Atom 2)].
Definition w_tmpl : expr := Bin BMul (Hole 0) (Atom 2).

Theorem inst_text_refuted :
  exists rho t, parse (inst_text rho t) <> Some (inst_tree rho t).
Proof. exists w_rho, w_tmpl. vm_compute. discriminate. Qed.

Example inst_text_witness :
  parse (inst_text w_rho w_tmpl) = Some (Bin BAdd (Atom 1) (Bin BMul (Atom 2) (Atom 2)))
  /\ inst_tree w_rho w_tmpl = Bin BMul (Bin BAdd (Atom 1) (Atom 2)) (Atom 2).
Proof. split; vm_compute; reflexivity. Qed.

(* substituting a pattern by itself: the bindings are the operands the pattern matched, so the tree
   instantiation is the matched tree itself, but the text instantiation of (1 + 2) * 3 is 1 + 2 * 3 *)
Theorem self_substitution_refuted :
  exists rho t e, inst_tree rho t = e /\ parse (inst_text rho t) <> Some e.
Proof.
  exists (rho_of [Bin BAdd (Atom 1) (Atom 2); Atom 3]), (Bin BMul (Hole 0) (Hole 1)),
         (Bin BMul (Bin BAdd (Atom 1) (Atom 2)) (Atom 3)).
  split; [reflexivity | vm_compute; discriminate].
Qed.

(* the guard is not vacuous: a call argument is a context of the loosest level, so any binding is safe
   there, and an atom or a call is safe anywhere *)
Example safe_example :
  safe (rho_of [Bin BOr (Atom 1) (Un UNot (Atom 2)); Call 7 (Bin BAdd (Atom 1) (Atom 2))])
       (Bin BMul (Call 5 (Hole 0)) (Un UNeg (Hole 1))) = true.
Proof. vm_compute. reflexivity. Qed.
