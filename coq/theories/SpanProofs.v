(* K3 -- theorems about SpanModel.v (offset arithmetic of core.get_charnos / Match and the
   pattern_matching wrappers).  All statements are for every source text and every offset. *)
From Coq Require Import List ZArith NArith Bool Lia.
Import ListNotations.
Require Import Pyrefact.Base Pyrefact.SpanModel.
Open Scope Z_scope.

(* ------------------------------------------------------------------------------------------ *)
(* T13.4 API coherence *)

Lemma findall_is_map_string : forall s spans, findall s spans = map (match_string s) spans.
Proof. reflexivity. Qed.

Lemma findall_length : forall s spans, length (findall s spans) = length spans.
Proof. intros. unfold findall. apply map_length. Qed.

Lemma search_is_first : forall spans, search spans = hd_error spans.
Proof. reflexivity. Qed.

Lemma search_none_iff : forall spans, search spans = None <-> spans = [].
Proof. intros [|x l]; simpl; split; intro H; try reflexivity; discriminate. Qed.

Lemma find_some_iff_exists :
  forall (A : Type) (f : A -> bool) (l : list A),
    (exists m, find f l = Some m) <-> (exists m, In m l /\ f m = true).
Proof.
  intros A f l. split.
  - intros [m Hm]. apply find_some in Hm. eauto.
  - intros [m [Hin Hf]]. destruct (find f l) eqn:E; eauto.
    exfalso. apply (find_none _ _ E) in Hin. congruence.
Qed.

Lemma find_first :
  forall (A : Type) (f : A -> bool) (l : list A) m,
    find f l = Some m ->
    exists l1 l2, l = l1 ++ m :: l2 /\ f m = true /\ forall x, In x l1 -> f x = false.
Proof.
  intros A f. induction l as [|a l IH]; simpl; intros m H; [discriminate|].
  destruct (f a) eqn:Ea.
  - inversion H; subst. exists [], l. simpl. repeat split; auto. intros x [].
  - destruct (IH _ H) as [l1 [l2 [E [Hm Hl]]]]. exists (a :: l1), l2. subst l. simpl.
    repeat split; auto. intros x [->|Hx]; auto.
Qed.

(* match succeeds exactly when some match starts at the start of the module body, and it returns
   the first such match in finditer order *)
Theorem match_spec :
  forall body spans br,
    body_range body = Some br ->
    ((exists m, pm_match body spans = Some m) <-> (exists m, In m spans /\ fst m = fst br))
    /\ (forall m, pm_match body spans = Some m ->
          exists l1 l2, spans = l1 ++ m :: l2 /\ fst m = fst br /\ forall x, In x l1 -> fst x <> fst br).
Proof.
  intros body spans br Hb. unfold pm_match. rewrite Hb. split.
  - rewrite find_some_iff_exists. split; intros [m [Hi Hm]]; exists m; split; auto; lia.
  - intros m H. destruct (find_first _ _ _ _ H) as [l1 [l2 [E [Hm Hl]]]].
    exists l1, l2. repeat split; auto; [lia|]. intros x Hx. specialize (Hl x Hx). lia.
Qed.

Lemma range_eqb_eq : forall a b, range_eqb a b = true <-> a = b.
Proof.
  intros [a1 a2] [b1 b2]. unfold range_eqb. simpl. rewrite andb_true_iff, !Z.eqb_eq.
  split; [intros [-> ->]; reflexivity | intro H; inversion H; auto].
Qed.

Theorem fullmatch_spec :
  forall body spans br,
    body_range body = Some br ->
    ((exists m, pm_fullmatch body spans = Some m) <-> In br spans)
    /\ (forall m, pm_fullmatch body spans = Some m -> m = br).
Proof.
  intros body spans br Hb. unfold pm_fullmatch. rewrite Hb. split.
  - rewrite find_some_iff_exists. split.
    + intros [m [Hi Hm]]. apply range_eqb_eq in Hm. subst. exact Hi.
    + intro Hi. exists br. split; auto. apply range_eqb_eq. reflexivity.
  - intros m H. apply find_some in H. destruct H as [_ H]. apply range_eqb_eq in H. exact H.
Qed.

Theorem empty_body_no_match :
  forall spans, pm_match [] spans = None /\ pm_fullmatch [] spans = None.
Proof. intros. split; reflexivity. Qed.

(* the module body range: minimum of the starts, maximum of the ends *)
Lemma zmin_list_spec : forall l d, (forall x, In x (d :: l) -> zmin_list d l <= x) /\ In (zmin_list d l) (d :: l).
Proof.
  unfold zmin_list. induction l as [|a l IH]; intros d; simpl.
  - split; [intros x [Hd|[]]; lia | auto].
  - destruct (IH (Z.min d a)) as [H1 H2]. split.
    + intros x [Hd|[Ha|Hx]].
      * specialize (H1 (Z.min d a) (or_introl eq_refl)). lia.
      * specialize (H1 (Z.min d a) (or_introl eq_refl)). lia.
      * apply H1. right. exact Hx.
    + destruct H2 as [H2|H2]; [|auto]. rewrite <- H2. destruct (Z.min_spec d a) as [[_ ->]|[_ ->]]; auto.
Qed.

Lemma zmax_list_spec : forall l d, (forall x, In x (d :: l) -> x <= zmax_list d l) /\ In (zmax_list d l) (d :: l).
Proof.
  unfold zmax_list. induction l as [|a l IH]; intros d; simpl.
  - split; [intros x [Hd|[]]; lia | auto].
  - destruct (IH (Z.max d a)) as [H1 H2]. split.
    + intros x [Hd|[Ha|Hx]].
      * specialize (H1 (Z.max d a) (or_introl eq_refl)). lia.
      * specialize (H1 (Z.max d a) (or_introl eq_refl)). lia.
      * apply H1. right. exact Hx.
    + destruct H2 as [H2|H2]; [|auto]. rewrite <- H2. destruct (Z.max_spec d a) as [[_ ->]|[_ ->]]; auto.
Qed.

Theorem body_range_spec :
  forall body br, body_range body = Some br ->
    (forall r, In r body -> fst br <= fst r /\ snd r <= snd br)
    /\ In (fst br) (map fst body) /\ In (snd br) (map snd body).
Proof.
  intros [|b bs] br H; [discriminate|]. simpl in H. inversion H; subst; clear H. simpl.
  destruct (zmin_list_spec (map fst bs) (fst b)) as [A1 A2].
  destruct (zmax_list_spec (map snd bs) (snd b)) as [B1 B2].
  split; [|split; auto].
  intros r [->|Hr].
  - split; [apply A1 | apply B1]; left; reflexivity.
  - split; [apply A1 | apply B1]; right; apply in_map; exact Hr.
Qed.
