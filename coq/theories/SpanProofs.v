(* K3 -- theorems about SpanModel.v (offset arithmetic of core.get_charnos / Match and the
   pattern_matching wrappers).  All statements are for every source text and every offset. *)
From Coq Require Import List ZArith NArith Bool Lia.
Import ListNotations.
Require Import Pyrefact.Base Pyrefact.SpanModel.
Open Scope Z_scope.

(* ------------------------------------------------------------------------------------------ *)
(* T13.4 API coherence *)

Lemma findall_is_map_string : forall s spans, findall s spans = map (match_string s) spans.
Proof. reflexivity. Qed.

Lemma findall_length : forall s spans, length (findall s spans) = length spans.
Proof. intros. unfold findall. apply map_length. Qed.

Lemma search_is_first : forall spans, search spans = hd_error spans.
Proof. reflexivity. Qed.

Lemma search_none_iff : forall spans, search spans = None <-> spans = [].
Proof. intros [|x l]; simpl; split; intro H; try reflexivity; discriminate. Qed.

Lemma find_some_iff_exists :
  forall (A : Type) (f : A -> bool) (l : list A),
    (exists m, find f l = Some m) <-> (exists m, In m l /\ f m = true).
Proof.
  intros A f l. split.
  - intros [m Hm]. apply find_some in Hm. eauto.
  - intros [m [Hin Hf]]. destruct (find f l) eqn:E; eauto.
    exfalso. apply (find_none _ _ E) in Hin. congruence.
Qed.

Lemma find_first :
  forall (A : Type) (f : A -> bool) (l : list A) m,
    find f l = Some m ->
    exists l1 l2, l = l1 ++ m :: l2 /\ f m = true /\ forall x, In x l1 -> f x = false.
Proof.
  intros A f. induction l as [|a l IH]; simpl; intros m H; [discriminate|].
  destruct (f a) eqn:Ea.
  - inversion H; subst. exists [], l. simpl. repeat split; auto. intros x [].
  - destruct (IH _ H) as [l1 [l2 [E [Hm Hl]]]]. exists (a :: l1), l2. subst l. simpl.
    repeat split; auto. intros x [->|Hx]; auto.
Qed.

(* match succeeds exactly when some match starts at the start of the module body, and it returns
   the first such match in finditer order *)
Theorem match_spec :
  forall body spans br,
    body_range body = Some br ->
    ((exists m, pm_match body spans = Some m) <-> (exists m, In m spans /\ fst m = fst br))
    /\ (forall m, pm_match body spans = Some m ->
          exists l1 l2, spans = l1 ++ m :: l2 /\ fst m = fst br /\ forall x, In x l1 -> fst x <> fst br).
Proof.
  intros body spans br Hb. unfold pm_match. rewrite Hb. split.
  - rewrite find_some_iff_exists. split; intros [m [Hi Hm]]; exists m; split; auto; lia.
  - intros m H. destruct (find_first _ _ _ _ H) as [l1 [l2 [E [Hm Hl]]]].
    exists l1, l2. repeat split; auto; [lia|]. intros x Hx. specialize (Hl x Hx). lia.
Qed.

Lemma range_eqb_eq : forall a b, range_eqb a b = true <-> a = b.
Proof.
  intros [a1 a2] [b1 b2]. unfold range_eqb. simpl. rewrite andb_true_iff, !Z.eqb_eq.
  split; [intros [-> ->]; reflexivity | intro H; inversion H; auto].
Qed.

Theorem fullmatch_spec :
  forall body spans br,
    body_range body = Some br ->
    ((exists m, pm_fullmatch body spans = Some m) <-> In br spans)
    /\ (forall m, pm_fullmatch body spans = Some m -> m = br).
Proof.
  intros body spans br Hb. unfold pm_fullmatch. rewrite Hb. split.
  - rewrite find_some_iff_exists. split.
    + intros [m [Hi Hm]]. apply range_eqb_eq in Hm. subst. exact Hi.
    + intro Hi. exists br. split; auto. apply range_eqb_eq. reflexivity.
  - intros m H. apply find_some in H. destruct H as [_ H]. apply range_eqb_eq in H. exact H.
Qed.

Theorem empty_body_no_match :
  forall spans, pm_match [] spans = None /\ pm_fullmatch [] spans = None.
Proof. intros. split; reflexivity. Qed.

(* the module body range: minimum of the starts, maximum of the ends *)
Lemma zmin_list_spec : forall l d, (forall x, In x (d :: l) -> zmin_list d l <= x) /\ In (zmin_list d l) (d :: l).
Proof.
  unfold zmin_list. induction l as [|a l IH]; intros d; simpl.
  - split; [intros x [Hd|[]]; lia | auto].
  - destruct (IH (Z.min d a)) as [H1 H2]. split.
    + intros x [Hd|[Ha|Hx]].
      * specialize (H1 (Z.min d a) (or_introl eq_refl)). lia.
      * specialize (H1 (Z.min d a) (or_introl eq_refl)). lia.
      * apply H1. right. exact Hx.
    + destruct H2 as [H2|H2]; [|auto]. rewrite <- H2. destruct (Z.min_spec d a) as [[_ ->]|[_ ->]]; auto.
Qed.

Lemma zmax_list_spec : forall l d, (forall x, In x (d :: l) -> x <= zmax_list d l) /\ In (zmax_list d l) (d :: l).
Proof.
  unfold zmax_list. induction l as [|a l IH]; intros d; simpl.
  - split; [intros x [Hd|[]]; lia | auto].
  - destruct (IH (Z.max d a)) as [H1 H2]. split.
    + intros x [Hd|[Ha|Hx]].
      * specialize (H1 (Z.max d a) (or_introl eq_refl)). lia.
      * specialize (H1 (Z.max d a) (or_introl eq_refl)). lia.
      * apply H1. right. exact Hx.
    + destruct H2 as [H2|H2]; [|auto]. rewrite <- H2. destruct (Z.max_spec d a) as [[_ ->]|[_ ->]]; auto.
Qed.

Theorem body_range_spec :
  forall body br, body_range body = Some br ->
    (forall r, In r body -> fst br <= fst r /\ snd r <= snd br)
    /\ In (fst br) (map fst body) /\ In (snd br) (map snd body).
Proof.
  intros [|b bs] br H; [discriminate|]. simpl in H. inversion H; subst; clear H. simpl.
  destruct (zmin_list_spec (map fst bs) (fst b)) as [A1 A2].
  destruct (zmax_list_spec (map snd bs) (snd b)) as [B1 B2].
  split; [|split; auto].
  intros r [->|Hr].
  - split; [apply A1 | apply B1]; left; reflexivity.
  - split; [apply A1 | apply B1]; right; apply in_map; exact Hr.
Qed.

(* ------------------------------------------------------------------------------------------ *)
(* basic facts about len, py_index, py_slice *)

Lemma len_nil : forall A, len (@nil A) = 0.
Proof. reflexivity. Qed.

Lemma len_cons : forall A (x : A) l, len (x :: l) = 1 + len l.
Proof. intros. unfold len. simpl length. lia. Qed.

Lemma len_nonneg : forall A (l : list A), 0 <= len l.
Proof. intros. unfold len. lia. Qed.

Lemma len_app : forall A (a b : list A), len (a ++ b) = len a + len b.
Proof. intros. unfold len. rewrite app_length. lia. Qed.

Lemma py_index_nonneg : forall A (t : list A) i, 0 <= i -> py_index t i = nth_error t (Z.to_nat i).
Proof. intros A t i H. unfold py_index. destruct (i <? 0) eqn:E; [lia | reflexivity]. Qed.

Lemma norm_idx_in : forall n i, 0 <= i <= n -> norm_idx n i = i.
Proof. intros n i H. unfold norm_idx. destruct (i <? 0) eqn:E; lia. Qed.

Lemma py_slice_in :
  forall A (s : list A) a b, 0 <= a <= b -> b <= len s ->
    py_slice s a b = firstn (Z.to_nat (b - a)) (skipn (Z.to_nat a) s).
Proof.
  intros A s a b H1 H2. unfold py_slice. rewrite !norm_idx_in by lia. reflexivity.
Qed.

Lemma py_slice_prefix :
  forall A (s : list A) b, 0 <= b <= len s -> py_slice s 0 b = firstn (Z.to_nat b) s.
Proof.
  intros A s b H. rewrite py_slice_in by lia. simpl. f_equal. lia.
Qed.

(* ------------------------------------------------------------------------------------------ *)
(* the line table is 0 followed by the offsets just after every line end *)

Fixpoint ends_from (k : Z) (s : text) : list Z :=
  match s with
  | [] => []
  | c :: tl => if line_end is_tok_nl c tl then (k + 1) :: ends_from (k + 1) tl else ends_from (k + 1) tl
  end.

Definition table (k : Z) (s : text) : list Z :=
  let '(r, e) := starts_from k (tok_lines s) in
  if ends_with_nl s then r ++ [e] else r.

Lemma line_starts_table : forall s, line_starts s = table 0 s.
Proof. reflexivity. Qed.

Lemma lines_nonempty : forall sep c tl, lines sep (c :: tl) <> [].
Proof.
  intros sep c tl. simpl. destruct (line_end sep c tl); [discriminate|].
  destruct (lines sep tl); discriminate.
Qed.

Lemma ends_with_nl_cons2 : forall c d tl, ends_with_nl (c :: d :: tl) = ends_with_nl (d :: tl).
Proof. reflexivity. Qed.

Lemma line_end_last : forall sep c, line_end sep c [] = sep c.
Proof. intros. unfold line_end. rewrite andb_false_r. simpl. apply andb_true_r. Qed.

Lemma table_ends : forall s k, table k s = k :: ends_from k s.
Proof.
  induction s as [|c tl IH]; intros k.
  - reflexivity.
  - unfold table, tok_lines. simpl lines. simpl ends_from.
    destruct (line_end is_tok_nl c tl) eqn:LE.
    + (* a line ends after c *)
      simpl starts_from. rewrite len_cons, len_nil.
      specialize (IH (k + 1)). unfold table, tok_lines in IH.
      replace (k + (1 + 0)) with (k + 1) by lia.
      destruct (starts_from (k + 1) (lines is_tok_nl tl)) as [r e] eqn:SF.
      assert (EN : ends_with_nl (c :: tl) = ends_with_nl tl).
      { destruct tl as [|d tl']; [|reflexivity].
        rewrite line_end_last in LE. simpl. exact LE. }
      rewrite EN. destruct (ends_with_nl tl); simpl; rewrite IH; reflexivity.
    + destruct tl as [|d tl'].
      * simpl. rewrite line_end_last in LE. rewrite LE. reflexivity.
      * specialize (IH (k + 1)). unfold table, tok_lines in IH.
        destruct (lines is_tok_nl (d :: tl')) as [|l ls] eqn:LL.
        { exfalso. exact (lines_nonempty _ _ _ LL). }
        simpl starts_from in *. rewrite len_cons.
        replace (k + (1 + len l)) with (k + 1 + len l) by lia.
        destruct (starts_from (k + 1 + len l) ls) as [r e] eqn:SF.
        rewrite ends_with_nl_cons2.
        destruct (ends_with_nl (d :: tl')); simpl in *; inversion IH; subst; reflexivity.
Qed.

Lemma line_starts_ends : forall s, line_starts s = 0 :: ends_from 0 s.
Proof. intros. rewrite line_starts_table. apply table_ends. Qed.

(* every entry of ends_from k s lies in (k, k + len s] *)
Lemma ends_from_bounds : forall s k x, In x (ends_from k s) -> k < x <= k + len s.
Proof.
  induction s as [|c tl IH]; intros k x H; simpl in H; [contradiction|].
  rewrite len_cons. pose proof (len_nonneg _ tl).
  destruct (line_end is_tok_nl c tl).
  - destruct H as [<-|H]; [lia|]. apply IH in H. lia.
  - apply IH in H. lia.
Qed.

(* ------------------------------------------------------------------------------------------ *)
(* UTF-8 counting *)

Lemma utf8_len_pos : forall c, 1 <= utf8_len c <= 4.
Proof.
  intro c. unfold utf8_len.
  destruct (c <? 128)%N; [lia|]. destruct (c <? 2048)%N; [lia|]. destruct (c <? 65536)%N; lia.
Qed.

Lemma utf8_len_ascii : forall c, (c <? 128)%N = true -> utf8_len c = 1.
Proof. intros c H. unfold utf8_len. rewrite H. reflexivity. Qed.

Lemma chars_in_nonpos : forall l b, b <= 0 -> chars_in l b = 0.
Proof.
  intros [|c tl] b H; simpl; [reflexivity|].
  pose proof (utf8_len_pos c). destruct (utf8_len c <=? b) eqn:E; [lia | reflexivity].
Qed.

Lemma chars_in_bounds : forall l b, 0 <= chars_in l b <= len l.
Proof.
  induction l as [|c tl IH]; intros b; cbn [chars_in].
  - rewrite len_nil. lia.
  - rewrite len_cons. destruct (utf8_len c <=? b); [specialize (IH (b - utf8_len c)); lia|].
    pose proof (len_nonneg _ tl). lia.
Qed.

Lemma chars_in_firstn :
  forall l b m, Z.min b (len l) <= Z.of_nat m -> chars_in (firstn m l) b = chars_in l b.
Proof.
  induction l as [|c tl IH]; intros b m H.
  - destruct m; reflexivity.
  - rewrite len_cons in H. pose proof (len_nonneg _ tl). pose proof (utf8_len_pos c).
    destruct m as [|m'].
    + simpl firstn. assert (b <= 0) by lia. rewrite (chars_in_nonpos (c :: tl)) by lia. reflexivity.
    + simpl. destruct (utf8_len c <=? b) eqn:E; [|reflexivity].
      rewrite IH; [reflexivity | lia].
Qed.

(* ------------------------------------------------------------------------------------------ *)
(* the reference location and the line table *)

Lemma tok_loc_nil : forall p, tok_loc [] p = (O, 0, 0).
Proof. destruct p; reflexivity. Qed.

Lemma loc_table :
  forall s p k n b cc,
    (p <= length s)%nat -> tok_loc s p = (n, b, cc) ->
    nth_error (k :: ends_from k s) n = Some (k + Z.of_nat p - cc)
    /\ 0 <= cc <= Z.of_nat p /\ 0 <= b
    /\ chars_in (skipn (Z.to_nat (Z.of_nat p - cc)) s) b = cc
    /\ (is_ascii s = true -> b = cc)
    /\ (n = O -> cc = Z.of_nat p).
Proof.
  induction s as [|c tl IH]; intros p k n b cc Hp H.
  - rewrite tok_loc_nil in H. inversion H; subst. simpl in Hp. assert (p = O) by lia. subst p.
    simpl. repeat split; try lia. f_equal; lia.
  - destruct p as [|p'].
    + simpl in H. inversion H; subst. simpl Z.of_nat. replace (0 - 0) with 0 by lia.
      simpl skipn. rewrite chars_in_nonpos by lia. simpl. repeat split; try lia. f_equal; lia.
    + simpl in Hp. assert (Hp' : (p' <= length tl)%nat) by lia.
      cbn [tok_loc] in H. destruct (tok_loc tl p') as [[n' b'] cc'] eqn:E.
      destruct (IH p' (k + 1) n' b' cc' Hp' E) as [I1 [I2 [I3 [I4 [I5 I6]]]]].
      rewrite Nat2Z.inj_succ. simpl ends_from.
      assert (SK : forall x, 0 <= x <= Z.of_nat p' ->
                  skipn (Z.to_nat (Z.succ (Z.of_nat p') - x)) (c :: tl) = skipn (Z.to_nat (Z.of_nat p' - x)) tl).
      { intros x Hx. replace (Z.to_nat (Z.succ (Z.of_nat p') - x)) with (S (Z.to_nat (Z.of_nat p' - x))) by lia.
        reflexivity. }
      assert (AS : is_ascii (c :: tl) = true -> (c <? 128)%N = true /\ is_ascii tl = true).
      { simpl. intro HA. apply andb_true_iff in HA. exact HA. }
      destruct (line_end is_tok_nl c tl) eqn:LE.
      * inversion H; subst; clear H. cbn [nth_error]. rewrite I1.
        rewrite SK by lia.
        refine (conj _ (conj _ (conj _ (conj _ (conj _ _))))).
        -- f_equal; lia.
        -- lia.
        -- lia.
        -- exact I4.
        -- intro HA. apply I5. apply AS. exact HA.
        -- discriminate.
      * destruct n' as [|m].
        -- assert (Hn : n = O) by congruence. assert (Hb : b = utf8_len c + b') by congruence.
           assert (Hc : cc = 1 + cc') by congruence. subst n b cc. clear H.
           specialize (I6 eq_refl). subst cc'.
           pose proof (utf8_len_pos c) as U.
           replace (Z.succ (Z.of_nat p') - (1 + Z.of_nat p')) with 0 by lia.
           change (Z.to_nat 0) with O. cbn [skipn nth_error].
           replace (Z.of_nat p' - Z.of_nat p') with 0 in I4 by lia.
           change (Z.to_nat 0) with O in I4. cbn [skipn] in I4.
           refine (conj _ (conj _ (conj _ (conj _ (conj _ _))))).
           ++ f_equal; lia.
           ++ lia.
           ++ lia.
           ++ cbn [chars_in]. destruct (utf8_len c <=? utf8_len c + b') eqn:EE; [|lia].
              replace (utf8_len c + b' - utf8_len c) with b' by lia. rewrite I4. reflexivity.
           ++ intro HA. destruct (AS HA) as [A1 A2]. rewrite (utf8_len_ascii _ A1). rewrite (I5 A2). reflexivity.
           ++ intros _. lia.
        -- inversion H; subst; clear H. cbn [nth_error]. cbn [nth_error] in I1. rewrite I1.
           rewrite SK by lia.
           refine (conj _ (conj _ (conj _ (conj _ (conj _ _))))).
           ++ f_equal; lia.
           ++ lia.
           ++ lia.
           ++ exact I4.
           ++ intro HA. apply I5. apply AS. exact HA.
           ++ discriminate.
Qed.

Lemma lc_loop_below :
  forall E prev ln q, (forall x, In x E -> q < x) -> lc_loop prev ln E q = (ln, q - prev).
Proof.
  intros [|t E] prev ln q H; simpl; [reflexivity|].
  specialize (H t (or_introl eq_refl)). destruct (q <? t) eqn:Q; [reflexivity | lia].
Qed.

Lemma lc_loop_loc :
  forall s p k prev ln n b cc,
    (p <= length s)%nat -> tok_loc s p = (n, b, cc) ->
    lc_loop prev ln (ends_from k s) (k + Z.of_nat p)
    = (ln + Z.of_nat n, match n with O => k + Z.of_nat p - prev | S _ => cc end).
Proof.
  induction s as [|c tl IH]; intros p k prev ln n b cc Hp H.
  - rewrite tok_loc_nil in H. inversion H; subst. simpl. f_equal. lia.
  - destruct p as [|p'].
    + simpl in H. inversion H; subst. rewrite lc_loop_below.
      * f_equal. simpl. lia.
      * intros x Hx. apply ends_from_bounds in Hx. simpl. lia.
    + simpl in Hp. assert (Hp' : (p' <= length tl)%nat) by lia.
      cbn [tok_loc] in H. destruct (tok_loc tl p') as [[n' b'] cc'] eqn:E.
      rewrite Nat2Z.inj_succ. simpl ends_from.
      replace (k + Z.succ (Z.of_nat p')) with (k + 1 + Z.of_nat p') by lia.
      destruct (line_end is_tok_nl c tl) eqn:LE.
      * inversion H; subst; clear H. simpl lc_loop.
        destruct (k + 1 + Z.of_nat p' <? k + 1) eqn:Q; [lia|].
        rewrite (IH p' (k + 1) (k + 1) (ln + 1) n' b cc Hp' E).
        destruct (loc_table tl p' 0 n' b cc Hp' E) as [_ [_ [_ [_ [_ I6]]]]].
        destruct n' as [|m].
        -- specialize (I6 eq_refl). f_equal; lia.
        -- f_equal. lia.
      * rewrite (IH p' (k + 1) prev ln n' b' cc' Hp' E).
        destruct n' as [|m]; inversion H; subst; clear H; f_equal; lia.
Qed.

(* tok_scan (left to right, the way a tokenizer counts) computes the same location *)
Lemma tok_scan_loc :
  forall s p l0 b0 n b cc,
    tok_loc s p = (n, b, cc) ->
    tok_scan s p l0 b0 = (l0 + Z.of_nat n, match n with O => b0 + b | S _ => b end).
Proof.
  induction s as [|c tl IH]; intros p l0 b0 n b cc H.
  - rewrite tok_loc_nil in H. inversion H; subst. destruct p; simpl; f_equal; lia.
  - destruct p as [|p']; cbn [tok_loc] in H.
    + inversion H; subst. simpl. f_equal; lia.
    + destruct (tok_loc tl p') as [[n' b'] cc'] eqn:E. cbn [tok_scan].
      destruct (line_end is_tok_nl c tl).
      * inversion H; subst; clear H. rewrite (IH p' (l0 + 1) 0 n' b cc E).
        destruct n'; f_equal; lia.
      * rewrite (IH p' l0 (b0 + utf8_len c) n' b' cc' E).
        destruct n'; inversion H; subst; clear H; f_equal; lia.
Qed.

Theorem tok_scan_is_tok_pos : forall s p, tok_scan s p 1 0 = tok_pos s p.
Proof.
  intros s p. unfold tok_pos. destruct (tok_loc s p) as [[n b] cc] eqn:E.
  rewrite (tok_scan_loc s p 1 0 n b cc E). destruct n; f_equal; lia.
Qed.

(* ------------------------------------------------------------------------------------------ *)
(* T13.1 / T13.2 *)

Theorem lineno_col_spec :
  forall s p n b cc,
    (p <= length s)%nat -> tok_loc s p = (n, b, cc) ->
    lineno_col s (Z.of_nat p) = Some (1 + Z.of_nat n, cc)
    /\ 0 <= cc <= Z.of_nat p
    /\ py_index (line_starts s) (Z.of_nat n) = Some (Z.of_nat p - cc).
Proof.
  intros s p n b cc Hp H.
  destruct (loc_table s p 0 n b cc Hp H) as [I1 [I2 [I3 [I4 [I5 I6]]]]].
  unfold lineno_col. rewrite line_starts_ends.
  pose proof (lc_loop_loc s p 0 0 1 n b cc Hp H) as L. simpl Z.add in L at 1.
  replace (0 + Z.of_nat p) with (Z.of_nat p) in L by lia. rewrite L.
  split; [|split; [exact I2|]].
  - destruct n as [|m]; [|reflexivity]. specialize (I6 eq_refl).
    replace (Z.of_nat p - 0) with cc by lia. reflexivity.
  - rewrite py_index_nonneg by lia. rewrite Nat2Z.id. rewrite I1. f_equal; lia.
Qed.

Theorem get_charno_tok_loc :
  forall s p n b cc,
    (p <= length s)%nat -> tok_loc s p = (n, b, cc) ->
    get_charno s (1 + Z.of_nat n) b = Some (Z.of_nat p).
Proof.
  intros s p n b cc Hp H.
  destruct (loc_table s p 0 n b cc Hp H) as [I1 [I2 [I3 [I4 [I5 I6]]]]].
  unfold get_charno. rewrite line_starts_ends.
  replace (Z.max (1 + Z.of_nat n - 1) 0) with (Z.of_nat n) by lia.
  rewrite py_index_nonneg by lia. rewrite Nat2Z.id. rewrite I1.
  replace (0 + Z.of_nat p - cc) with (Z.of_nat p - cc) by lia.
  destruct (is_ascii s) eqn:A; simpl orb.
  - rewrite (I5 eq_refl). f_equal. lia.
  - destruct (b <=? 0) eqn:B.
    + assert (b = 0) by lia. subst b. rewrite chars_in_nonpos in I4 by lia. f_equal. lia.
    + f_equal. assert (Hlen : Z.of_nat p <= len s) by (unfold len; lia).
      assert (C : chars_in (py_slice s (Z.of_nat p - cc) (Z.of_nat p - cc + b)) b = cc).
      { unfold py_slice. rewrite (norm_idx_in (len s) (Z.of_nat p - cc)) by lia.
        rewrite chars_in_firstn; [exact I4|].
        assert (LS : len (skipn (Z.to_nat (Z.of_nat p - cc)) s) = len s - (Z.of_nat p - cc)).
        { unfold len. rewrite skipn_length. unfold len in Hlen. lia. }
        rewrite LS. unfold norm_idx.
        destruct (Z.of_nat p - cc + b <? 0) eqn:Q; [lia|]. lia. }
      rewrite C. lia.
Qed.

Theorem get_charno_tok_pos :
  forall s p, (p <= length s)%nat ->
    get_charno s (fst (tok_pos s p)) (snd (tok_pos s p)) = Some (Z.of_nat p).
Proof.
  intros s p Hp. unfold tok_pos. destruct (tok_loc s p) as [[n b] cc] eqn:E. simpl.
  exact (get_charno_tok_loc s p n b cc Hp E).
Qed.

(* the reported line is CPython's line number of the offset, the reported column counts the
   characters since the start of that line, and converting (line, utf-8 column) back gives the offset *)
Theorem match_linecol_roundtrip :
  forall s p, (p <= length s)%nat ->
    exists l c, lineno_col s (Z.of_nat p) = Some (l, c)
      /\ l = fst (tok_pos s p)
      /\ 0 <= c <= Z.of_nat p
      /\ py_index (line_starts s) (l - 1) = Some (Z.of_nat p - c)
      /\ get_charno s l (snd (tok_pos s p)) = Some (Z.of_nat p).
Proof.
  intros s p Hp. unfold tok_pos. destruct (tok_loc s p) as [[n b] cc] eqn:E. simpl.
  destruct (lineno_col_spec s p n b cc Hp E) as [L1 [L2 L3]].
  exists (1 + Z.of_nat n), cc. repeat split; try lia; auto.
  - replace (1 + Z.of_nat n - 1) with (Z.of_nat n) by lia. exact L3.
  - exact (get_charno_tok_loc s p n b cc Hp E).
Qed.

(* ------------------------------------------------------------------------------------------ *)
(* runs of spaces, rstrip *)

Lemma lspaces_split :
  forall l, exists r, l = repeat SP (Z.to_nat (lspaces l)) ++ r
                 /\ 0 <= lspaces l <= len l
                 /\ match r with c :: _ => neqb c SP = false | [] => True end.
Proof.
  induction l as [|c tl IH].
  - exists []. cbn [lspaces]. rewrite len_nil. split; [reflexivity|]. split; [lia|exact I].
  - cbn [lspaces]. rewrite len_cons. pose proof (len_nonneg _ tl) as LN. destruct (neqb c SP) eqn:E.
    + destruct IH as [r [E1 [E2 E3]]]. exists r.
      replace (Z.to_nat (1 + lspaces tl)) with (S (Z.to_nat (lspaces tl))) by lia.
      apply N.eqb_eq in E. subst c. cbn [repeat]. rewrite <- app_comm_cons. rewrite <- E1.
      split; [reflexivity|]. split; [lia|exact E3].
    + exists (c :: tl). change (Z.to_nat 0) with O. cbn [repeat app].
      split; [reflexivity|]. split; [lia|exact E].
Qed.

Lemma rev_repeat : forall A (x : A) n, rev (repeat x n) = repeat x n.
Proof.
  intros A x. induction n as [|n IH]; [reflexivity|]. simpl. rewrite IH.
  clear IH. induction n; [reflexivity|]. simpl. rewrite IHn. reflexivity.
Qed.

(* t = pre ++ (rspaces t) spaces, and pre does not end with a space *)
Lemma rspaces_split :
  forall t, exists pre, t = pre ++ repeat SP (Z.to_nat (rspaces t))
                   /\ 0 <= rspaces t <= len t
                   /\ match rev pre with c :: _ => neqb c SP = false | [] => True end.
Proof.
  intro t. unfold rspaces. destruct (lspaces_split (rev t)) as [r [E1 [E2 E3]]].
  exists (rev r). rewrite rev_involutive. split; [|split].
  - apply (f_equal (@rev N)) in E1. rewrite rev_involutive, rev_app_distr, rev_repeat in E1. exact E1.
  - unfold len in *. rewrite rev_length in E2. exact E2.
  - exact E3.
Qed.

Lemma dropwhile_app_stop :
  forall f bl x rest, forallb f bl = true -> f x = false -> dropwhile f (bl ++ x :: rest) = x :: rest.
Proof.
  intros f. induction bl as [|b bl IH]; intros x rest Hb Hx; simpl.
  - rewrite Hx. reflexivity.
  - simpl in Hb. apply andb_true_iff in Hb. destruct Hb as [B1 B2]. rewrite B1. apply IH; assumption.
Qed.

Lemma rstrip_stop :
  forall f pre x bl, forallb f bl = true -> f x = false -> rstrip f (pre ++ x :: bl) = pre ++ [x].
Proof.
  intros f pre x bl Hb Hx. unfold rstrip. rewrite rev_app_distr. simpl rev. rewrite <- app_assoc. simpl app.
  rewrite dropwhile_app_stop; [| rewrite forallb_forall in *; intros y Hy; apply Hb; apply in_rev; exact Hy | exact Hx].
  simpl rev. rewrite rev_involutive. reflexivity.
Qed.

Lemma rev_head_last : forall (t : text) c r d, rev t = c :: r -> last t d = c.
Proof.
  intros t c r d H. rewrite <- (rev_involutive t). rewrite H. simpl. apply last_last.
Qed.

(* ------------------------------------------------------------------------------------------ *)
(* T13.3 spans of nodes *)

(* the text between two character offsets *)
Definition node_text (s : text) (p1 p2 : nat) : text := py_slice s (Z.of_nat p1) (Z.of_nat p2).

(* the guard of the partial theorem: the text does not start or end with a space *)
Definition no_edge_blank (t : text) : bool :=
  match t with
  | [] => true
  | c :: _ => negb (neqb c SP) && negb (neqb (last t 0%N) SP)
  end.

Definition attrs_of (a b : Z * Z) : attrs := (Some (fst a), Some (snd a), Some (fst b), Some (snd b)).

Lemma trim_noop :
  forall code start0 end0,
    no_edge_blank code = true ->
    (match code with c :: _ => if neqb c SP then start0 + lspaces code else start0 | [] => start0 end) = start0
    /\ (match rev code with c :: _ => if neqb c SP then end0 - rspaces code else end0 | [] => end0 end) = end0.
Proof.
  intros code start0 end0 H. destruct code as [|c tl]; [split; reflexivity|].
  unfold no_edge_blank in H. apply andb_true_iff in H. destruct H as [H1 H2].
  apply negb_true_iff in H1, H2. rewrite H1. split; [reflexivity|].
  destruct (rev (c :: tl)) as [|e r] eqn:R; [reflexivity|].
  rewrite (rev_head_last _ _ _ 0%N R) in H2. rewrite H2. reflexivity.
Qed.

(* plain node: positions of the true offsets p1 <= p2, text without edge blanks *)
Theorem span_of_node_partial :
  forall s p1 p2 is_def,
    (p1 <= p2)%nat -> (p2 <= length s)%nat ->
    no_edge_blank (node_text s p1 p2) = true ->
    get_charnos s [] (attrs_of (tok_pos s p1) (tok_pos s p2)) is_def false
    = Some (Z.of_nat p1, Z.of_nat p2).
Proof.
  intros s p1 p2 is_def H12 H2 NB. unfold get_charnos, attrs_of, get_position.
  rewrite get_charno_tok_pos by lia. rewrite get_charno_tok_pos by lia.
  fold (node_text s p1 p2).
  destruct (trim_noop (node_text s p1 p2) (Z.of_nat p1) (Z.of_nat p2) NB) as [T1 T2].
  rewrite T1, T2. reflexivity.
Qed.

(* what the theorem gives: the span lies inside the source and Match.string is the node text *)
Corollary span_inside_and_text :
  forall s p1 p2 is_def r,
    (p1 <= p2)%nat -> (p2 <= length s)%nat ->
    no_edge_blank (node_text s p1 p2) = true ->
    get_charnos s [] (attrs_of (tok_pos s p1) (tok_pos s p2)) is_def false = Some r ->
    0 <= fst r <= snd r /\ snd r <= len s /\ match_string s r = node_text s p1 p2.
Proof.
  intros s p1 p2 is_def r H12 H2 NB H.
  rewrite (span_of_node_partial s p1 p2 is_def H12 H2 NB) in H. inversion H; subst; clear H.
  unfold match_string, node_text, len. simpl. repeat split; lia.
Qed.

(* without the guard the claim is false: the literal part " " of f" {x}" *)
Theorem span_of_node_refuted :
  exists s p1 p2 r,
    (p1 <= p2)%nat /\ (p2 <= length s)%nat
    /\ get_charnos s [] (attrs_of (tok_pos s p1) (tok_pos s p2)) false false = Some r
    /\ snd r < fst r.
Proof.
  exists [102; 34; 32; 123; 120; 125; 34]%N, 2%nat, 3%nat, (3, 2).
  split; [lia|]. split; [simpl; lia|]. split; [vm_compute; reflexivity | simpl; lia].
Qed.

Example span_partial_nontrivial :   (* "s = 'é'; f(1)" : the call f(1), after a two-byte character *)
  let s := [115; 32; 61; 32; 39; 233; 39; 59; 32; 102; 40; 49; 41]%N in
  no_edge_blank (node_text s 9 13) = true
  /\ tok_pos s 9 = (1, 10)
  /\ get_charnos s [] (attrs_of (tok_pos s 9) (tok_pos s 13)) false false = Some (9, 13).
Proof. vm_compute. repeat split; reflexivity. Qed.

(* keep_first_indent: the start moves left over the run of spaces that precedes it *)
Theorem span_keep_first_indent :
  forall s p1 p2 is_def,
    (p1 <= p2)%nat -> (p2 <= length s)%nat ->
    no_edge_blank (node_text s p1 p2) = true ->
    exists k pre,
      get_charnos s [] (attrs_of (tok_pos s p1) (tok_pos s p2)) is_def true
      = Some (Z.of_nat p1 - k, Z.of_nat p2)
      /\ 0 <= k <= Z.of_nat p1
      /\ firstn p1 s = pre ++ repeat SP (Z.to_nat k)
      /\ match rev pre with c :: _ => neqb c SP = false | [] => True end.
Proof.
  intros s p1 p2 is_def H12 H2 NB. unfold get_charnos, attrs_of, get_position.
  rewrite get_charno_tok_pos by lia. rewrite get_charno_tok_pos by lia.
  fold (node_text s p1 p2).
  destruct (trim_noop (node_text s p1 p2) (Z.of_nat p1) (Z.of_nat p2) NB) as [T1 T2].
  rewrite T1, T2.
  rewrite py_slice_prefix by (unfold len; lia). rewrite Nat2Z.id.
  destruct (rspaces_split (firstn p1 s)) as [pre [E1 [E2 E3]]].
  exists (rspaces (firstn p1 s)), pre. split; [reflexivity|]. split; [|split; assumption].
  unfold len in E2. rewrite firstn_length in E2. lia.
Qed.

(* decorated definition: the first decorator expression starts at pd, its "@" is at offset
   length pre, and only blanks / continuations / "(" lie between them *)
Theorem span_of_decorated_partial :
  forall s d ds pre bl pd p1 p2,
    (pd <= p1)%nat -> (p1 <= p2)%nat -> (p2 <= length s)%nat ->
    (let '(l, c, _, _) := min_pos d ds in (l, c)) = tok_pos s pd ->
    firstn pd s = pre ++ AT :: bl ->
    forallb is_dec_blank bl = true ->
    no_edge_blank (node_text s pd p2) = true ->
    get_charnos s (d :: ds) (attrs_of (tok_pos s p1) (tok_pos s p2)) true false
    = Some (len pre, Z.of_nat p2).
Proof.
  intros s d ds pre bl pd p1 p2 Hd H12 H2 Hmin Hpre Hbl NB.
  unfold get_charnos, attrs_of, get_position.
  destruct (min_pos d ds) as [[[l c] el] ec]. 
  assert (L : l = fst (tok_pos s pd)) by (rewrite <- Hmin; reflexivity).
  assert (C : c = snd (tok_pos s pd)) by (rewrite <- Hmin; reflexivity).
  subst l c. rewrite get_charno_tok_pos by lia. rewrite get_charno_tok_pos by lia.
  fold (node_text s pd p2).
  destruct (trim_noop (node_text s pd p2) (Z.of_nat pd) (Z.of_nat p2) NB) as [T1 T2].
  rewrite T1, T2.
  rewrite py_slice_prefix by (unfold len; lia). rewrite Nat2Z.id. rewrite Hpre.
  rewrite rstrip_stop by (exact Hbl || reflexivity).
  rewrite len_app. rewrite len_cons, len_nil.
  replace (len pre + (1 + 0) - 1) with (len pre) by lia.
  pose proof (len_nonneg _ pre) as P0.
  destruct (0 <=? len pre) eqn:Z0; [|lia]. simpl andb.
  assert (IX : py_index s (len pre) = Some AT).
  { rewrite py_index_nonneg by lia. unfold len. rewrite Nat2Z.id.
    rewrite <- (firstn_skipn pd s). rewrite Hpre. rewrite <- app_assoc. 
    rewrite nth_error_app2 by lia. rewrite Nat.sub_diag. reflexivity. }
  rewrite IX. reflexivity.
Qed.

(* without the blank guard the "@" is not found: "@(#c<LF>f)<LF>def g():<LF> pass" *)
Theorem span_of_decorated_refuted :
  exists s d pre bl pd p1 p2,
    (pd <= p1)%nat /\ (p1 <= p2)%nat /\ (p2 <= length s)%nat
    /\ (let '(l, c, _, _) := d in (l, c)) = tok_pos s pd
    /\ firstn pd s = pre ++ AT :: bl
    /\ no_edge_blank (node_text s pd p2) = true
    /\ get_charnos s [d] (attrs_of (tok_pos s p1) (tok_pos s p2)) true false
       <> Some (len pre, Z.of_nat p2).
Proof.
  exists [64; 40; 35; 99; 10; 102; 41; 10; 100; 101; 102; 32; 103; 40; 41; 58; 10; 32; 112; 97; 115; 115]%N,
         (2, 0, 2, 1), [], [40; 35; 99; 10]%N, 5%nat, 8%nat, 22%nat.
  split; [lia|]. split; [lia|]. split; [simpl; lia|]. split; [vm_compute; reflexivity|].
  split; [reflexivity|]. split; [vm_compute; reflexivity|]. vm_compute. discriminate.
Qed.

Example span_decorated_nontrivial :   (* "@ foo<LF>def f():<LF>  pass" *)
  let s := [64; 32; 102; 111; 111; 10; 100; 101; 102; 32; 102; 40; 41; 58; 10; 32; 32; 112; 97; 115; 115]%N in
  tok_pos s 2 = (1, 2) /\ firstn 2 s = [] ++ AT :: [32%N] /\ forallb is_dec_blank [32%N] = true
  /\ get_charnos s [(1, 2, 1, 5)] (attrs_of (tok_pos s 6) (tok_pos s 21)) true false = Some (0, 21).
Proof. vm_compute. repeat split; reflexivity. Qed.

(* min over decorator positions: an element of the list, not above any other *)
Lemma min_pos_in : forall l b, In (min_pos b l) (b :: l).
Proof.
  induction l as [|x tl IH]; intros b; simpl; [auto|].
  destruct (IH (if pos_ltb x b then x else b)) as [H|H]; [|auto].
  rewrite <- H. destruct (pos_ltb x b); auto.
Qed.

(* ------------------------------------------------------------------------------------------ *)
(* core.has_ignore_comment and the range (after the repairs a37c022 / 8992e08 / 776bcb9) *)

Lemma overlaps_mono :
  forall a b a' b' l, a' <= a -> b <= b' -> overlaps (a, b) l = true -> overlaps (a', b') l = true.
Proof.
  intros a b a' b' [l1 l2] H1 H2. unfold overlaps. simpl. rewrite !andb_true_iff, !Z.ltb_lt. lia.
Qed.

(* a range that is not an insertion touches a line -> so does every range around it (an insertion
   strictly inside the line included: that is the case of an inverted inner range) *)
Lemma touches_mono :
  forall a b a' b' st e l, a <> b -> a' <= a -> b <= b' ->
    touches_line (a, b) st e l = true -> touches_line (a', b') st e l = true.
Proof.
  intros a b a' b' st e l N H1 H2. unfold touches_line, overlaps. cbn [fst snd].
  destruct (a =? b) eqn:E; [lia|]. destruct (a' =? b') eqn:E'; lia.
Qed.

(* the repaired recogniser only grows with the range, as long as the inner range is not an insertion *)
Theorem has_ignore_mono :
  forall s coms a b a' b', a <> b -> a' <= a -> b <= b' ->
    has_ignore_comment s coms (a, b) = true -> has_ignore_comment s coms (a', b') = true.
Proof.
  intros s coms a b a' b' N H1 H2. unfold has_ignore_comment. generalize 0%nat, 0.
  induction (tok_lines s) as [|l ls IH]; intros i st; cbn [has_ignore_from]; [auto|].
  rewrite !orb_true_iff, !andb_true_iff. intros [[[O P] C]|R].
  - left. split; [split|]; [|exact P|exact C]. eapply touches_mono; eauto.
  - right. apply IH. exact R.
Qed.

(* the statement that held for the old recogniser (any inner range) is false now: in "x<LF># pyrefact: ignore"
   the insertion at offset 2 (first column of the comment line [2, 20)) is refused, the range (0, 2)
   that contains the point is not -- it ends where the line starts *)
Theorem has_ignore_mono_any_refuted :
  exists s coms a b a' b', a' <= a /\ b <= b'
    /\ has_ignore_comment s coms (a, b) = true /\ has_ignore_comment s coms (a', b') = false.
Proof.
  exists [120; 10; 35; 32; 112; 121; 114; 101; 102; 97; 99; 116; 58; 32; 105; 103; 110; 111; 114; 101]%N,
         (Some [1%nat]), 2, 2, 0, 2.
  split; [lia|]. split; [lia|]. split; vm_compute; reflexivity.
Qed.

(* ... while the old recogniser (Range.overlaps for every range) was monotone without a guard *)
Theorem has_ignore_v0_mono :
  forall s a b a' b', a' <= a -> b <= b' ->
    has_ignore_comment_v0 s (a, b) = true -> has_ignore_comment_v0 s (a', b') = true.
Proof.
  intros s a b a' b' H1 H2. unfold has_ignore_comment_v0. generalize 0.
  induction (str_lines s) as [|l ls IH]; intros st; simpl; [auto|].
  rewrite !orb_true_iff, !andb_true_iff. intros [[O P]|R].
  - left. split; [|exact P]. eapply overlaps_mono; eauto.
  - right. apply IH. exact R.
Qed.

(* the shape of core.split_lines(source): no empty line; every line but the last is terminated *)
Fixpoint lines_wf (ls : list text) : Prop :=
  match ls with
  | [] => True
  | l :: tl => l <> [] /\ (tl = [] \/ terminated l = true) /\ lines_wf tl
  end.

Lemma terminated_cons : forall c l, l <> [] -> terminated (c :: l) = terminated l.
Proof. intros c [|d l] H; [contradiction|reflexivity]. Qed.

Lemma tok_lines_wf : forall s, lines_wf (tok_lines s).
Proof.
  unfold tok_lines. induction s as [|c tl IH]; [exact Logic.I|].
  cbn [lines]. destruct (line_end is_tok_nl c tl) eqn:E.
  - cbn [lines_wf]. split; [discriminate|]. split; [|exact IH]. right.
    unfold line_end in E. apply andb_true_iff in E. destruct E as [E _]. exact E.
  - destruct (lines is_tok_nl tl) as [|l ls] eqn:L; [cbn; repeat split; [discriminate|auto]|].
    cbn [lines_wf] in *. destruct IH as [NE [T W]]. split; [discriminate|]. split; [|exact W].
    destruct T as [T|T]; [left; exact T|right]. rewrite terminated_cons; assumption.
Qed.

Lemma lines_concat : forall sep s, concat (lines sep s) = s.
Proof.
  intros sep. induction s as [|c tl IH]; [reflexivity|].
  cbn [lines]. destruct (line_end sep c tl); [cbn; rewrite IH; reflexivity|].
  destruct (lines sep tl) as [|l ls]; cbn in *; rewrite <- IH; reflexivity.
Qed.

Lemma len_pos_nonempty : forall (l : text), l <> [] -> 0 < len l.
Proof. intros [|c l] H; [contradiction|]. rewrite len_cons. pose proof (len_nonneg _ l). lia. Qed.

(* an insertion point that touches a line is also caught by every non-empty range that contains the
   character at p -- or, at the end of the text (the end of an unterminated last line), the one before p *)
Lemma ins_caught_from :
  forall ls coms i st p a' b',
    lines_wf ls -> a' <= p -> p <= b' -> a' < b' ->
    (if p <? st + len (concat ls) then p <? b' else a' <? p) = true ->
    has_ignore_from coms i st ls (p, p) = true -> has_ignore_from coms i st ls (a', b') = true.
Proof.
  induction ls as [|l tl IH]; intros coms i st p a' b' W H1 H2 H3 HC; cbn [has_ignore_from]; [auto|].
  cbn [lines_wf] in W. destruct W as [NE [T W]]. pose proof (len_pos_nonempty l NE) as LP.
  cbn [concat] in HC. rewrite len_app in HC. pose proof (len_nonneg _ (concat tl)) as LT.
  rewrite !orb_true_iff, !andb_true_iff. intros [[[O P] C]|R].
  - left. split; [split|]; [|exact P|exact C].
    unfold touches_line, overlaps in *. cbn [fst snd] in *. rewrite Z.eqb_refl in O.
    destruct (a' =? b') eqn:E'; [lia|].
    apply orb_true_iff in O. destruct O as [O|O].
    + destruct (p <? st + (len l + len (concat tl))) eqn:Q; lia.
    + apply andb_true_iff in O. destruct O as [O1 O2]. apply negb_true_iff in O2.
      destruct T as [T|T]; [|congruence]. subst tl. cbn [concat] in HC. rewrite len_nil in HC.
      destruct (p <? st + (len l + 0)) eqn:Q; lia.
  - right. apply (IH coms (S i) (st + len l) p a' b' W H1 H2 H3); [|exact R].
    replace (st + len l + len (concat tl)) with (st + (len l + len (concat tl))) by lia. exact HC.
Qed.

Theorem has_ignore_insertion_caught :
  forall s coms p a' b',
    a' <= p -> p <= b' -> a' < b' ->
    (if p <? len s then p <? b' else a' <? p) = true ->
    has_ignore_comment s coms (p, p) = true -> has_ignore_comment s coms (a', b') = true.
Proof.
  intros s coms p a' b' H1 H2 H3 HC. unfold has_ignore_comment.
  apply ins_caught_from; [apply tok_lines_wf|assumption..|].
  unfold tok_lines. rewrite lines_concat. exact HC.
Qed.

(* exactly: an insertion before the character at p is refused iff a rewrite of that character is *)
Lemma ins_char_from :
  forall ls coms i st p, lines_wf ls -> p < st + len (concat ls) ->
    has_ignore_from coms i st ls (p, p) = has_ignore_from coms i st ls (p, p + 1).
Proof.
  induction ls as [|l tl IH]; intros coms i st p W HP; cbn [has_ignore_from]; [reflexivity|].
  cbn [lines_wf] in W. destruct W as [NE [T W]]. pose proof (len_pos_nonempty l NE) as LP.
  cbn [concat] in HP. rewrite len_app in HP.
  rewrite (IH coms (S i) (st + len l) p W) by lia. f_equal. f_equal. f_equal.
  unfold touches_line, overlaps. cbn [fst snd]. rewrite Z.eqb_refl.
  destruct (p =? p + 1) eqn:E; [lia|].
  destruct T as [T|T].
  - subst tl. cbn [concat] in HP. rewrite len_nil in HP.
    destruct (p =? st + len l) eqn:Q; [lia|]. cbn [andb]. rewrite orb_false_r. lia.
  - rewrite T. cbn [negb]. rewrite andb_false_r, orb_false_r. lia.
Qed.

Theorem has_ignore_insertion_is_char :
  forall s coms p, p < len s ->
    has_ignore_comment s coms (p, p) = has_ignore_comment s coms (p, p + 1).
Proof.
  intros s coms p HP. unfold has_ignore_comment. apply ins_char_from; [apply tok_lines_wf|].
  unfold tok_lines. rewrite lines_concat. lia.
Qed.

(* no line is touched by an insertion beyond the end of the text *)
Lemma ins_beyond_from :
  forall ls coms i st p, st + len (concat ls) < p -> has_ignore_from coms i st ls (p, p) = false.
Proof.
  induction ls as [|l tl IH]; intros coms i st p HP; cbn [has_ignore_from]; [reflexivity|].
  cbn [concat] in HP. rewrite len_app in HP. pose proof (len_nonneg _ (concat tl)).
  rewrite IH by lia. rewrite orb_false_r.
  unfold touches_line. cbn [fst snd]. rewrite Z.eqb_refl.
  destruct (st <=? p) eqn:A, (p <? st + len l) eqn:B, (p =? st + len l) eqn:C; try lia; reflexivity.
Qed.

Theorem has_ignore_insertion_beyond :
  forall s coms p, len s < p -> has_ignore_comment s coms (p, p) = false.
Proof.
  intros s coms p HP. unfold has_ignore_comment. apply ins_beyond_from.
  unfold tok_lines. rewrite lines_concat. lia.
Qed.

Lemma terminated_app : forall a b, b <> [] -> terminated (a ++ b) = terminated b.
Proof.
  induction a as [|c a IH]; intros b H; [reflexivity|].
  cbn [app]. rewrite terminated_cons; [apply IH; exact H|].
  destruct a; [exact H|discriminate].
Qed.

(* at the end of the text: refused iff the text has no final line terminator and its last character is protected *)
Lemma ins_eof_from :
  forall ls coms i st, lines_wf ls ->
    has_ignore_from coms i st ls (st + len (concat ls), st + len (concat ls))
    = negb (terminated (concat ls))
      && has_ignore_from coms i st ls (st + len (concat ls) - 1, st + len (concat ls)).
Proof.
  induction ls as [|l tl IH]; intros coms i st W; [reflexivity|].
  cbn [lines_wf] in W. destruct W as [NE [_ W]]. pose proof (len_pos_nonempty l NE) as LP.
  cbn [has_ignore_from concat]. rewrite len_app.
  destruct tl as [|l2 tl2].
  - cbn [concat has_ignore_from]. rewrite app_nil_r, len_nil, !orb_false_r.
    unfold touches_line, overlaps. cbn [fst snd].
    replace (st + (len l + 0)) with (st + len l) by lia. rewrite !Z.eqb_refl.
    destruct (st + len l - 1 =? st + len l) eqn:E; [lia|].
    replace (st + len l <? st + len l) with false by lia.
    replace (st + len l - 1 <? st + len l) with true by lia.
    replace (st <? st + len l) with true by lia.
    rewrite andb_false_r. cbn [orb andb]. rewrite !andb_assoc. reflexivity.
  - assert (NT : concat (l2 :: tl2) <> []).
    { cbn [lines_wf] in W. destruct W as [N2 _]. cbn [concat]. destruct l2; [contradiction|discriminate]. }
    pose proof (len_pos_nonempty _ NT) as LQ.
    rewrite (terminated_app l _ NT).
    replace (st + (len l + len (concat (l2 :: tl2)))) with (st + len l + len (concat (l2 :: tl2))) by lia.
    rewrite (IH coms (S i) (st + len l) W).
    set (p := st + len l + len (concat (l2 :: tl2))) in *.
    assert (T1 : touches_line (p, p) st (st + len l) l = false).
    { unfold touches_line. cbn [fst snd]. rewrite Z.eqb_refl.
      destruct (st <=? p) eqn:A, (p <? st + len l) eqn:B, (p =? st + len l) eqn:C; try lia; reflexivity. }
    assert (T2 : touches_line (p - 1, p) st (st + len l) l = false).
    { unfold touches_line, overlaps. cbn [fst snd]. destruct (p - 1 =? p) eqn:E; [lia|].
      destruct (p - 1 <? st + len l) eqn:A; [lia|reflexivity]. }
    rewrite T1, T2. reflexivity.
Qed.

Theorem has_ignore_insertion_at_end :
  forall s coms,
    has_ignore_comment s coms (len s, len s)
    = negb (terminated s) && has_ignore_comment s coms (len s - 1, len s).
Proof.
  intros s coms. unfold has_ignore_comment.
  pose proof (ins_eof_from (tok_lines s) coms 0%nat 0 (tok_lines_wf s)) as H.
  unfold tok_lines in *. rewrite lines_concat in H. exact H.
Qed.

(* ------------------------------------------------------------------------------------------ *)
(* R13.3 -- why the repairs F13-1/F13-2/F13-3 were needed: the arithmetic of the pinned code
   (str.splitlines line table, byte column added to a character offset, source[start - 1] at 0)
   does not satisfy the round trip of [get_charno_tok_pos]. *)

Definition charno_v0 (s : text) (lineno col : Z) : option Z :=
  match py_index (fst (starts_from 0 (str_lines s))) (lineno - 1) with
  | Some st => Some (st + col)
  | None => None
  end.

Theorem v0_byte_column_refuted :      (* s = 'é'; f(1)   -- the call is at offset 9, column 10 *)
  exists s p, (p <= length s)%nat /\ is_ascii s = false
    /\ charno_v0 s (fst (tok_pos s p)) (snd (tok_pos s p)) <> Some (Z.of_nat p).
Proof.
  exists [115; 32; 61; 32; 39; 233; 39; 59; 32; 102; 40; 49; 41]%N, 9%nat.
  split; [simpl; lia|]. split; [reflexivity|]. vm_compute. discriminate.
Qed.

Theorem v0_splitlines_table_refuted : (* s = '<FF>'<LF>f(1)<LF>   -- ascii, the call is at offset 8 *)
  exists s p, (p <= length s)%nat /\ is_ascii s = true
    /\ charno_v0 s (fst (tok_pos s p)) (snd (tok_pos s p)) <> Some (Z.of_nat p).
Proof.
  exists [115; 32; 61; 32; 39; 12; 39; 10; 102; 40; 49; 41; 10]%N, 8%nat.
  split; [simpl; lia|]. split; [reflexivity|]. vm_compute. discriminate.
Qed.

Theorem v0_agrees_when_plain :        (* the old arithmetic was right for ascii text without \f & co *)
  forall s p n b cc,
    (p <= length s)%nat -> is_ascii s = true -> tok_lines s = str_lines s -> ends_with_nl s = false ->
    tok_loc s p = (n, b, cc) ->
    charno_v0 s (1 + Z.of_nat n) b = Some (Z.of_nat p).
Proof.
  intros s p n b cc Hp HA HL HE H.
  pose proof (get_charno_tok_loc s p n b cc Hp H) as G.
  unfold get_charno in G. rewrite HA in G. simpl orb in G.
  unfold charno_v0. rewrite <- HL.
  unfold line_starts in G. destruct (starts_from 0 (tok_lines s)) as [r e]. rewrite HE in G.
  simpl fst. replace (Z.max (1 + Z.of_nat n - 1) 0) with (1 + Z.of_nat n - 1) in G by lia. exact G.
Qed.

(* Python's negative index: t[-1] is the last element, which is what source[start - 1] read at start = 0 *)
Lemma py_index_minus_one : forall (t : text) d, t <> [] -> py_index t (-1) = Some (last t d).
Proof.
  intros t d H. unfold py_index.
  assert (E0 : (-1 <? 0) = true) by reflexivity. rewrite E0.
  destruct t as [|c tl]; [contradiction|]. rewrite len_cons. pose proof (len_nonneg _ tl).
  destruct (-1 + (1 + len tl) <? 0) eqn:E; [lia|].
  replace (Z.to_nat (-1 + (1 + len tl))) with (length tl) by (unfold len; lia).
  clear. revert c. induction tl as [|x tl IH]; intro c; [reflexivity|].
  cbn [length nth_error]. rewrite IH. reflexivity.
Qed.
