(* K1 -- theorems about the scheduler model (SchedModel.v).  Unbounded: every finite list of
   groups, every yield list, every transaction assignment. *)
From Coq Require Import List ZArith Bool Lia Permutation.
Import ListNotations.
Require Import Pyrefact.SchedModel.
Open Scope Z_scope.

Section Proofs.
Variable T : Type.
Variable teqb : T -> T -> bool.
Variable tcmp : T -> T -> comparison.
Hypothesis teqb_spec : forall a b, teqb a b = true <-> a = b.
Variable ilines : list range.

Notation rw := (rewrite T).
Notation entry := (tkey * rewrite T)%type.
Notation schedule' := (schedule T teqb tcmp ilines).

Definition disjoint_entries (a b : entry) : Prop :=
  overlaps (rrng (snd a)) (rrng (snd b)) = false.

(* ---- T10.2 disjointness: no two scheduled rewrites (at different list positions) overlap ---- *)
Theorem schedule_disjoint :
  forall groups, ForallOrdPairs disjoint_entries (schedule' groups).
Proof.
Admitted.

(* ---- the complete list of (key, rewrite) items as yielded, independent of the scheduler ---- *)
Fixpoint all_items (k cnt : Z) (groups : list (list (yielded T))) : list entry :=
  match groups with
  | [] => []
  | g :: gs =>
      let '(items, cnt') := fill T cnt g in
      map (fun it => ((k, fst it), snd it)) items ++ all_items (k + 1) cnt' gs
  end.

Definition tx_of (groups : list (list (yielded T))) (key : tkey) : list rw :=
  map snd (filter (fun e => key_eqb (fst e) key) (all_items 0 START_COUNT groups)).

(* ---- T10.1 atomicity: the scheduled entries of a transaction are none, or all of its
        (set-deduplicated) rewrites ---- *)
Theorem schedule_atomic :
  forall groups key,
    let got := filter (fun e => key_eqb (fst e) key) (schedule' groups) in
    got = [] \/ Permutation (map snd got) (nodup_rw T teqb (tx_of groups key)).
Proof.
Admitted.

(* ---- T10.3 drop characterisation (both directions) ---- *)
Definition tx_scheduled (groups : list (list (yielded T))) (key : tkey) : Prop :=
  In key (map fst (schedule' groups)).

Theorem schedule_drop_iff :
  forall groups key,
    tx_scheduled groups key <->
      tx_of groups key <> []
      /\ ~ (exists key', key_cmp key' key = Lt /\ tx_of groups key' = tx_of groups key)
      /\ existsb (fun r => ignored ilines (rrng r)) (tx_of groups key) = false
      /\ self_conflict T (nodup_rw T teqb (tx_of groups key)) = false
      /\ (forall key', key_cmp key' key = Lt -> tx_scheduled groups key' ->
            forall r r', In r (tx_of groups key) -> In r' (tx_of groups key') ->
                         overlaps (rrng r) (rrng r') = false).
Proof.
Admitted.

End Proofs.

(* ---- T10.5 rollback, T10.7 bounded driving, T03.1 validity preservation ---- *)
Section ApplyProofs.
Variable A : Type.
Variable valid : list A -> bool.
Variable restore : list A -> list A -> list A.

Theorem apply_rollback :
  forall src rws,
    let r := apply_rewrites A valid restore src rws in
    r = src \/ valid r = true.
Proof.
Admitted.

Theorem apply_invalid_identity :
  forall src rws, valid (apply_all A src rws) = false -> apply_rewrites A valid restore src rws = src.
Proof.
Admitted.

Theorem apply_preserves_valid :
  forall src rws, valid src = true -> valid (apply_rewrites A valid restore src rws) = true.
Proof.
Admitted.

Variable pass : list A -> list A.
Variable src_eqb : list A -> list A -> bool.

Theorem fix_bounded :
  forall max_iter src,
    exists n, (n <= max_iter)%nat /\ fix_wrapper A pass src_eqb max_iter src = Nat.iter n pass src.
Proof.
Admitted.

Theorem fix_preserves :
  forall (P : list A -> Prop), (forall s, P s -> P (pass s)) ->
  forall max_iter src, P src -> P (fix_wrapper A pass src_eqb max_iter src).
Proof.
Admitted.

End ApplyProofs.
