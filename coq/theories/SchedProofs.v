(* K1 -- theorems about the scheduler model (SchedModel.v).  Unbounded: every finite list of
   groups, every yield list, every transaction assignment. *)
From Coq Require Import List ZArith Bool Lia Permutation.
Import ListNotations.
Require Import Pyrefact.SchedModel.
Open Scope Z_scope.

(* ======================================================================================== *)
(* Generic list lemmas                                                                       *)
(* ======================================================================================== *)

Lemma existsb_false_iff {A} (f : A -> bool) (l : list A) :
  existsb f l = false <-> forall x, In x l -> f x = false.
Proof.
  induction l as [|a l IH]; simpl.
  - split; [intros _ x []| reflexivity].
  - rewrite orb_false_iff, IH. split.
    + intros [Ha Hl] x [<-|Hx]; auto.
    + intros H. split; [apply H; left; reflexivity | intros x Hx; apply H; right; exact Hx].
Qed.

Lemma bool_eq_iff (a b : bool) : (a = true <-> b = true) -> a = b.
Proof.
  destruct a, b; intros [H1 H2]; try reflexivity;
    [symmetry; apply H1; reflexivity | apply H2; reflexivity].
Qed.

Lemma filter_nil {A} (f : A -> bool) (l : list A) :
  (forall x, In x l -> f x = false) -> filter f l = [].
Proof.
  induction l as [|a l IH]; simpl; intros H; [reflexivity|].
  rewrite (H a (or_introl eq_refl)). apply IH. intros x Hx. apply H. right; exact Hx.
Qed.

Lemma filter_all {A} (f : A -> bool) (l : list A) :
  (forall x, In x l -> f x = true) -> filter f l = l.
Proof.
  induction l as [|a l IH]; simpl; intros H; [reflexivity|].
  rewrite (H a (or_introl eq_refl)). f_equal. apply IH. intros x Hx. apply H. right; exact Hx.
Qed.

Lemma filter_perm {A} (f : A -> bool) (l l' : list A) :
  Permutation l l' -> Permutation (filter f l) (filter f l').
Proof.
  induction 1 as [| x l l' HP IH | x y l | l l' l'' HP1 IH1 HP2 IH2]; simpl.
  - constructor.
  - destruct (f x); [constructor|]; assumption.
  - destruct (f x), (f y); try reflexivity. apply perm_swap.
  - etransitivity; eassumption.
Qed.

Lemma FOP_app {A} (R : A -> A -> Prop) (l1 l2 : list A) :
  ForallOrdPairs R l1 -> ForallOrdPairs R l2 ->
  (forall a b, In a l1 -> In b l2 -> R a b) ->
  ForallOrdPairs R (l1 ++ l2).
Proof.
  induction l1 as [|x l1 IH]; simpl; intros H1 H2 H12; [exact H2|].
  inversion H1 as [|? ? Hx Hl1]; subst. constructor.
  - apply Forall_app. split; [exact Hx|].
    apply Forall_forall. intros b Hb. apply H12; [left; reflexivity | exact Hb].
  - apply IH; [exact Hl1 | exact H2 |]. intros a b Ha Hb. apply H12; [right; exact Ha | exact Hb].
Qed.

Lemma FOP_perm {A} (R : A -> A -> Prop) (Rsym : forall a b, R a b -> R b a) (l l' : list A) :
  Permutation l l' -> ForallOrdPairs R l -> ForallOrdPairs R l'.
Proof.
  induction 1 as [| x l l' HP IH | x y l | l l' l'' HP1 IH1 HP2 IH2]; intros HF.
  - exact HF.
  - inversion HF as [|? ? Hx Hl]; subst. constructor; [|apply IH; exact Hl].
    rewrite Forall_forall in *. intros b Hb. apply Hx.
    apply Permutation_in with (l := l'); [apply Permutation_sym; exact HP | exact Hb].
  - inversion HF as [|? ? Hy Hl]; subst. inversion Hl as [|? ? Hx Hl']; subst.
    inversion Hy as [|? ? Hyx Hyl]; subst.
    constructor; [constructor; [apply Rsym; exact Hyx | exact Hx]|].
    constructor; [exact Hyl | exact Hl'].
  - apply IH2, IH1, HF.
Qed.

Lemma iter_succ_r {A} (f : A -> A) (n : nat) (x : A) : Nat.iter (S n) f x = Nat.iter n f (f x).
Proof.
  induction n as [|n IH]; [reflexivity|].
  change (Nat.iter (S (S n)) f x) with (f (Nat.iter (S n) f x)). rewrite IH. reflexivity.
Qed.

(* ---- keys ---- *)
Lemma key_cmp_Lt (a b : tkey) :
  key_cmp a b = Lt <-> (fst a < fst b \/ (fst a = fst b /\ snd a < snd b)).
Proof.
  unfold key_cmp. destruct (Z.compare_spec (fst a) (fst b)) as [H|H|H].
  - rewrite Z.compare_lt_iff. lia.
  - split; [intros _; lia | reflexivity].
  - split; [discriminate | intros; exfalso; lia].
Qed.

Lemma key_cmp_Gt (a b : tkey) : key_cmp a b = Gt <-> key_cmp b a = Lt.
Proof.
  rewrite key_cmp_Lt. unfold key_cmp. destruct (Z.compare_spec (fst a) (fst b)) as [H|H|H].
  - rewrite Z.compare_gt_iff. lia.
  - split; [discriminate | intros; exfalso; lia].
  - split; [intros _; lia | reflexivity].
Qed.

Lemma key_cmp_Eq (a b : tkey) : key_cmp a b = Eq <-> a = b.
Proof.
  destruct a as [a1 a2], b as [b1 b2]. unfold key_cmp; simpl.
  destruct (Z.compare_spec a1 b1) as [H|H|H].
  - rewrite Z.compare_eq_iff. split; [intros E; subst; reflexivity | intros E; inversion E; reflexivity].
  - split; [discriminate | intros E; inversion E; exfalso; lia].
  - split; [discriminate | intros E; inversion E; exfalso; lia].
Qed.

Lemma key_eqb_spec (a b : tkey) : key_eqb a b = true <-> a = b.
Proof.
  destruct a as [a1 a2], b as [b1 b2]. unfold key_eqb; simpl.
  rewrite andb_true_iff, !Z.eqb_eq.
  split; [intros [E1 E2]; subst; reflexivity | intros E; inversion E; auto].
Qed.

Lemma key_eqb_refl (a : tkey) : key_eqb a a = true.
Proof. apply key_eqb_spec. reflexivity. Qed.

Lemma key_eqb_neq (a b : tkey) : a <> b -> key_eqb a b = false.
Proof.
  intros H. destruct (key_eqb a b) eqn:E; [|reflexivity].
  apply key_eqb_spec in E. contradiction.
Qed.

Definition klt (a b : tkey) : Prop := key_cmp a b = Lt.

Lemma klt_trans a b c : klt a b -> klt b c -> klt a c.
Proof. unfold klt. rewrite !key_cmp_Lt. lia. Qed.

Lemma klt_irrefl a : ~ klt a a.
Proof. unfold klt. rewrite key_cmp_Lt. lia. Qed.

Lemma klt_asym a b : klt a b -> klt b a -> False.
Proof. unfold klt. rewrite !key_cmp_Lt. lia. Qed.

Lemma overlaps_sym (a b : range) : overlaps a b = overlaps b a.
Proof. unfold overlaps. apply andb_comm. Qed.

Lemma range_eqb_spec (a b : range) : range_eqb a b = true <-> a = b.
Proof.
  destruct a as [a1 a2], b as [b1 b2]. unfold range_eqb; simpl.
  rewrite andb_true_iff, !Z.eqb_eq.
  split; [intros [E1 E2]; subst; reflexivity | intros E; inversion E; auto].
Qed.

Section Proofs.
Variable T : Type.
Variable teqb : T -> T -> bool.
Variable tcmp : T -> T -> comparison.
Hypothesis teqb_spec : forall a b, teqb a b = true <-> a = b.
Variable ilines : list range.

Notation rw := (rewrite T).
Notation entry := (tkey * rewrite T)%type.
Notation schedule' := (schedule T teqb tcmp ilines).

Definition disjoint_entries (a b : entry) : Prop :=
  overlaps (rrng (snd a)) (rrng (snd b)) = false.

(* ---------------------------------------------------------------------------------------- *)
(* auxiliary lemmas for schedule_disjoint                                                     *)
(* ---------------------------------------------------------------------------------------- *)
Notation txm := (txmap T).
Notation dd := (dedup T teqb).
Notation ptx := (process_tx T teqb ilines).
Notation nodup' := (nodup_rw T teqb).

Lemma disjoint_sym (a b : entry) : disjoint_entries a b -> disjoint_entries b a.
Proof. unfold disjoint_entries. intros H. rewrite overlaps_sym. exact H. Qed.

Lemma judge_accepted_iff (sched : list entry) (rs : list rw) :
  judge T ilines sched rs = Accepted <->
  (existsb (fun r => ignored ilines (rrng r)) rs = false
   /\ self_conflict T rs = false /\ sched_conflict T sched rs = false).
Proof.
  unfold judge.
  destruct (existsb (fun r => ignored ilines (rrng r)) rs);
    destruct (self_conflict T rs); destruct (sched_conflict T sched rs);
    split; intros H; try discriminate;
    try (destruct H as (H1 & H2 & H3); discriminate); auto.
Qed.

Lemma self_conflict_FOP (key : tkey) (rs : list rw) :
  self_conflict T rs = false ->
  ForallOrdPairs disjoint_entries (map (fun r => (key, r)) rs).
Proof.
  induction rs as [|a rs IH]; simpl; intros H; [constructor|].
  apply orb_false_iff in H. destruct H as [H1 H2].
  constructor; [|apply IH; exact H2].
  apply Forall_forall. intros e He. apply in_map_iff in He. destruct He as [o [Eo Ho]]. subst e.
  unfold disjoint_entries; simpl.
  rewrite existsb_false_iff in H1. exact (H1 o Ho).
Qed.

Lemma sched_conflict_false (sched : list entry) (rs : list rw) :
  sched_conflict T sched rs = false <->
  forall r o, In r rs -> In o sched -> overlaps (rrng r) (rrng (snd o)) = false.
Proof.
  unfold sched_conflict. rewrite existsb_false_iff. split.
  - intros H r o Hr Ho. specialize (H r Hr). rewrite existsb_false_iff in H. exact (H o Ho).
  - intros H r Hr. rewrite existsb_false_iff. intros o Ho. exact (H r o Hr Ho).
Qed.

Lemma process_tx_disjoint k sched e :
  ForallOrdPairs disjoint_entries sched -> ForallOrdPairs disjoint_entries (ptx k sched e).
Proof.
  intros HF. destruct e as [key rs0]. unfold process_tx; cbv beta iota zeta.
  destruct (negb (fst key =? k)); [exact HF|].
  destruct (judge T ilines sched (nodup' rs0)) eqn:HJ; try exact HF.
  apply judge_accepted_iff in HJ. destruct HJ as (_ & Hself & Hsched).
  apply FOP_app.
  - exact HF.
  - apply self_conflict_FOP; exact Hself.
  - intros a b Ha Hb. apply in_map_iff in Hb. destruct Hb as [r [Er Hr]]. subst b.
    unfold disjoint_entries; simpl. rewrite overlaps_sym.
    rewrite sched_conflict_false in Hsched. exact (Hsched r a Hr Ha).
Qed.

Lemma fold_process_tx_disjoint k tr : forall sched,
  ForallOrdPairs disjoint_entries sched ->
  ForallOrdPairs disjoint_entries (fold_left (ptx k) tr sched).
Proof.
  induction tr as [|e tr IH]; intros sched H; simpl; [exact H|].
  apply IH. apply process_tx_disjoint. exact H.
Qed.

Lemma run_groups_cons k cnt tr sched g gs :
  run_groups T teqb ilines k cnt tr sched (g :: gs) =
  let '(items, cnt') := fill T cnt g in
  let tr2 := dd [] (add_items T k items tr) in
  run_groups T teqb ilines (k + 1) cnt' tr2 (fold_left (ptx k) tr2 sched) gs.
Proof. reflexivity. Qed.

Lemma run_groups_disjoint gs : forall k cnt tr sched,
  ForallOrdPairs disjoint_entries sched ->
  ForallOrdPairs disjoint_entries (snd (run_groups T teqb ilines k cnt tr sched gs)).
Proof.
  induction gs as [|g gs IH]; intros k cnt tr sched H; [exact H|].
  rewrite run_groups_cons. destruct (fill T cnt g) as [items cnt']. cbv zeta.
  apply IH. apply fold_process_tx_disjoint. exact H.
Qed.

Lemma insert_desc_perm (x : entry) (l : list entry) :
  Permutation (x :: l) (insert_desc T tcmp x l).
Proof.
  induction l as [|y l IH]; simpl; [reflexivity|].
  destruct (entry_cmp T tcmp x y); try reflexivity;
    (etransitivity; [apply perm_swap | apply perm_skip; exact IH]).
Qed.

Lemma fold_insert_perm (l : list entry) : forall acc,
  Permutation (l ++ acc) (fold_left (fun acc x => insert_desc T tcmp x acc) l acc).
Proof.
  induction l as [|x l IH]; intros acc; simpl; [reflexivity|].
  etransitivity; [|apply IH].
  etransitivity; [apply Permutation_middle|].
  apply Permutation_app_head. apply insert_desc_perm.
Qed.

Lemma sort_desc_perm (l : list entry) : Permutation l (sort_desc T tcmp l).
Proof.
  unfold sort_desc. pose proof (fold_insert_perm l []) as H. rewrite app_nil_r in H. exact H.
Qed.

(* ---- T10.2 disjointness: no two scheduled rewrites (at different list positions) overlap ---- *)
Theorem schedule_disjoint :
  forall groups, ForallOrdPairs disjoint_entries (schedule' groups).
Proof.
  intros groups. unfold schedule.
  apply FOP_perm with (l := accepted_unsorted T teqb ilines groups).
  - exact disjoint_sym.
  - apply sort_desc_perm.
  - unfold accepted_unsorted. apply run_groups_disjoint. constructor.
Qed.

(* ---- the complete list of (key, rewrite) items as yielded, independent of the scheduler ---- *)
Fixpoint all_items (k cnt : Z) (groups : list (list (yielded T))) : list entry :=
  match groups with
  | [] => []
  | g :: gs =>
      let '(items, cnt') := fill T cnt g in
      map (fun it => ((k, fst it), snd it)) items ++ all_items (k + 1) cnt' gs
  end.

Definition tx_of (groups : list (list (yielded T))) (key : tkey) : list rw :=
  map snd (filter (fun e => key_eqb (fst e) key) (all_items 0 START_COUNT groups)).

(* ======================================================================================== *)
(* Machinery for atomicity and the drop characterisation.                                     *)
(* Plan: run_groups is equal to a non-incremental pipeline                                    *)
(*    F := full ... groups          (all items of all groups inserted, no dedup)              *)
(*    D := dedup [] F                                                                         *)
(*    Sc := fold_left process_any D []     (process_tx without the group test)                *)
(* and the three stages are analysed separately.                                              *)
(* ======================================================================================== *)

(* ---- equality tests ---- *)
Lemma rw_eqb_spec (a b : rw) : rw_eqb T teqb a b = true <-> a = b.
Proof.
  destruct a as [ra na], b as [rb nb]. unfold rw_eqb; simpl.
  rewrite andb_true_iff, range_eqb_spec, teqb_spec.
  split; [intros [E1 E2]; subst; reflexivity | intros E; inversion E; auto].
Qed.

Lemma rws_eqb_spec (a : list rw) : forall b, rws_eqb T teqb a b = true <-> a = b.
Proof.
  induction a as [|x a IH]; intros [|y b]; simpl.
  - split; reflexivity.
  - split; discriminate.
  - split; discriminate.
  - rewrite andb_true_iff, rw_eqb_spec, IH.
    split; [intros [E1 E2]; subst; reflexivity | intros E; inversion E; auto].
Qed.

Lemma existsb_rws_In (rs : list rw) (seen : list (list rw)) :
  existsb (rws_eqb T teqb rs) seen = true <-> In rs seen.
Proof.
  rewrite existsb_exists. split.
  - intros [x [Hx He]]. apply rws_eqb_spec in He. subst x. exact Hx.
  - intros H. exists rs. split; [exact H | apply rws_eqb_spec; reflexivity].
Qed.

(* ---- nodup_rw ---- *)
Lemma nodup_rw_In (r : rw) (rs : list rw) : In r (nodup' rs) <-> In r rs.
Proof.
  induction rs as [|a tl IH]; simpl; [tauto|].
  destruct (existsb (rw_eqb T teqb a) tl) eqn:E.
  - rewrite IH. split; [intros H; right; exact H|].
    intros [Ea|H]; [|exact H]. subst a.
    apply existsb_exists in E. destruct E as [x [Hx He]].
    apply rw_eqb_spec in He. subst x. exact Hx.
  - simpl. rewrite IH. tauto.
Qed.

Lemma existsb_nodup_rw (f : rw -> bool) (rs : list rw) :
  existsb f (nodup' rs) = existsb f rs.
Proof.
  apply bool_eq_iff. rewrite !existsb_exists.
  split; intros [x [Hx Hf]]; exists x; (split; [|exact Hf]).
  - apply (proj1 (nodup_rw_In x rs)). exact Hx.
  - apply (proj2 (nodup_rw_In x rs)). exact Hx.
Qed.

(* ---- process_any: process_tx without the group test ---- *)
Definition tx_entries (e : tkey * list rw) : list entry :=
  map (fun r => (fst e, r)) (nodup' (snd e)).

Definition process_any (sched : list entry) (e : tkey * list rw) : list entry :=
  match judge T ilines sched (nodup' (snd e)) with
  | Accepted => sched ++ tx_entries e
  | _ => sched
  end.

Lemma process_any_ext sched e :
  process_any sched e = sched \/
  (judge T ilines sched (nodup' (snd e)) = Accepted /\ process_any sched e = sched ++ tx_entries e).
Proof.
  unfold process_any. destruct (judge T ilines sched (nodup' (snd e))); auto.
Qed.

Lemma process_any_accept sched e :
  judge T ilines sched (nodup' (snd e)) = Accepted -> process_any sched e = sched ++ tx_entries e.
Proof. intros H. unfold process_any. rewrite H. reflexivity. Qed.

Lemma process_tx_skip k sched e : fst (fst e) <> k -> ptx k sched e = sched.
Proof.
  destruct e as [key rs0]. simpl. intros H. unfold process_tx; cbv beta iota zeta.
  destruct (Z.eqb_spec (fst key) k) as [E|E]; [contradiction | reflexivity].
Qed.

Lemma process_tx_same k sched e : fst (fst e) = k -> ptx k sched e = process_any sched e.
Proof.
  destruct e as [key rs0]. simpl. intros H. unfold process_tx, process_any, tx_entries;
    cbv beta iota zeta.
  rewrite (proj2 (Z.eqb_eq _ _) H). reflexivity.
Qed.

Lemma fold_process_skip k (tr : txm) sched :
  Forall (fun e => fst (fst e) <> k) tr -> fold_left (ptx k) tr sched = sched.
Proof.
  induction tr as [|e tr IH]; intros H; simpl; [reflexivity|].
  inversion H as [|? ? He Htr]; subst.
  rewrite process_tx_skip by exact He. apply IH; exact Htr.
Qed.

Lemma fold_process_same k (tr : txm) : forall sched,
  Forall (fun e => fst (fst e) = k) tr ->
  fold_left (ptx k) tr sched = fold_left process_any tr sched.
Proof.
  induction tr as [|e tr IH]; intros sched H; simpl; [reflexivity|].
  pose proof (Forall_inv H) as He. pose proof (Forall_inv_tail H) as Htr. simpl in He.
  rewrite process_tx_same by exact He. apply IH; exact Htr.
Qed.

(* ---- tr_add / add_items ---- *)
Lemma tr_add_cons k r k' rs (tl : txm) :
  tr_add T k r ((k', rs) :: tl) =
  match key_cmp k k' with
  | Eq => (k', rs ++ [r]) :: tl
  | Lt => (k, [r]) :: (k', rs) :: tl
  | Gt => (k', rs) :: tr_add T k r tl
  end.
Proof. reflexivity. Qed.

Lemma add_items_cons k it items (tr : txm) :
  add_items T k (it :: items) tr = add_items T k items (tr_add T (k, fst it) (snd it) tr).
Proof. reflexivity. Qed.

Definition groups_lt (k : Z) (tr : txm) : Prop := Forall (fun e => fst (fst e) < k) tr.

Lemma tr_add_app k t r (X Y : txm) :
  groups_lt k X -> tr_add T (k, t) r (X ++ Y) = X ++ tr_add T (k, t) r Y.
Proof.
  induction X as [|[k' rs] X IH]; intros H; [reflexivity|].
  inversion H as [|? ? Hk HX]; subst. simpl in Hk.
  rewrite <- !app_comm_cons, tr_add_cons.
  assert (Hc : key_cmp (k, t) k' = Gt).
  { apply key_cmp_Gt, key_cmp_Lt. simpl. lia. }
  rewrite Hc, (IH HX). reflexivity.
Qed.

Lemma add_items_app k items : forall (X Y : txm),
  groups_lt k X -> add_items T k items (X ++ Y) = X ++ add_items T k items Y.
Proof.
  induction items as [|it items IH]; intros X Y H; [reflexivity|].
  rewrite !add_items_cons, tr_add_app by exact H. apply IH; exact H.
Qed.

Lemma add_items_app_nil k items (X : txm) :
  groups_lt k X -> add_items T k items X = X ++ add_items T k items [].
Proof.
  intros H. pose proof (add_items_app k items X [] H) as E. rewrite app_nil_r in E. exact E.
Qed.

Lemma tr_add_keys (P : tkey -> Prop) k r (tr : txm) :
  Forall (fun e => P (fst e)) tr -> P k -> Forall (fun e => P (fst e)) (tr_add T k r tr).
Proof.
  intros H Hk. induction tr as [|[k' rs] tl IH].
  - simpl. constructor; [exact Hk | constructor].
  - rewrite tr_add_cons. inversion H as [|? ? Hk' Htl]; subst.
    destruct (key_cmp k k').
    + constructor; [exact Hk' | exact Htl].
    + constructor; [exact Hk | exact H].
    + constructor; [exact Hk' | apply IH; exact Htl].
Qed.

Lemma add_items_groups k items : forall (Y : txm),
  Forall (fun e => fst (fst e) = k) Y -> Forall (fun e => fst (fst e) = k) (add_items T k items Y).
Proof.
  induction items as [|it items IH]; intros Y H; [exact H|].
  rewrite add_items_cons. apply IH.
  apply (tr_add_keys (fun key => fst key = k)); [exact H | reflexivity].
Qed.

(* ---- dedup ---- *)
Lemma dedup_cons seen k rs (tl : txm) :
  dd seen ((k, rs) :: tl) =
  if existsb (rws_eqb T teqb rs) seen then dd (rs :: seen) tl else (k, rs) :: dd (rs :: seen) tl.
Proof. reflexivity. Qed.

Lemma dedup_app (X : txm) : forall seen Y,
  dd seen (X ++ Y) = dd seen X ++ dd (rev (map snd X) ++ seen) Y.
Proof.
  induction X as [|[k rs] X IH]; intros seen Y; [reflexivity|].
  rewrite <- app_comm_cons, !dedup_cons.
  assert (E : rev (map snd ((k, rs) :: X)) ++ seen = rev (map snd X) ++ rs :: seen).
  { simpl. rewrite <- app_assoc. reflexivity. }
  rewrite E. destruct (existsb (rws_eqb T teqb rs) seen).
  - apply IH.
  - rewrite <- app_comm_cons. f_equal. apply IH.
Qed.

Lemma dedup_Forall (P : tkey * list rw -> Prop) (X : txm) : forall seen,
  Forall P X -> Forall P (dd seen X).
Proof.
  induction X as [|[k rs] X IH]; intros seen H; [constructor|].
  inversion H as [|? ? Hp HX]; subst. rewrite dedup_cons.
  destruct (existsb (rws_eqb T teqb rs) seen); [|constructor; [exact Hp|]]; apply IH; exact HX.
Qed.

Lemma dedup_incl (X : txm) : forall seen e, In e (dd seen X) -> In e X.
Proof.
  induction X as [|[k rs] X IH]; intros seen e H; [exact H|].
  rewrite dedup_cons in H. destruct (existsb (rws_eqb T teqb rs) seen).
  - right. exact (IH _ _ H).
  - destruct H as [E|H]; [left; exact E | right; exact (IH _ _ H)].
Qed.

Lemma dedup_ext (Y : txm) : forall s1 s2,
  (forall rs, In rs s1 <-> In rs s2) -> dd s1 Y = dd s2 Y.
Proof.
  induction Y as [|[k rs] Y IH]; intros s1 s2 H; [reflexivity|].
  rewrite !dedup_cons.
  assert (E : existsb (rws_eqb T teqb rs) s1 = existsb (rws_eqb T teqb rs) s2).
  { apply bool_eq_iff. rewrite !existsb_rws_In. apply H. }
  assert (E' : dd (rs :: s1) Y = dd (rs :: s2) Y).
  { apply IH. intros x. simpl. rewrite (H x). tauto. }
  rewrite E, E'. reflexivity.
Qed.

Lemma dedup_idem (X : txm) : forall s1 s2,
  (forall rs, In rs s1 -> In rs s2) -> dd s1 (dd s2 X) = dd s2 X.
Proof.
  induction X as [|[k rs] X IH]; intros s1 s2 H; [reflexivity|].
  rewrite dedup_cons. destruct (existsb (rws_eqb T teqb rs) s2) eqn:E2.
  - apply IH. intros x Hx. right. apply H. exact Hx.
  - rewrite dedup_cons. destruct (existsb (rws_eqb T teqb rs) s1) eqn:E1.
    + apply existsb_rws_In in E1. apply H in E1. apply existsb_rws_In in E1. congruence.
    + f_equal. apply IH. intros x [Ex|Hx]; [left; exact Ex | right; apply H; exact Hx].
Qed.

Lemma dedup_seen_equiv (X : txm) : forall s rs,
  In rs (map snd (dd s X)) \/ In rs s <-> In rs (map snd X) \/ In rs s.
Proof.
  induction X as [|[k r0] X IH]; intros s rs; [simpl; tauto|].
  rewrite dedup_cons. specialize (IH (r0 :: s) rs). simpl in IH.
  destruct (existsb (rws_eqb T teqb r0) s) eqn:E.
  - apply existsb_rws_In in E. simpl.
    assert (Hs : r0 = rs -> In rs s) by (intros <-; exact E).
    tauto.
  - simpl. tauto.
Qed.

Lemma dedup_in_inv key rs (X : txm) : forall s, In (key, rs) (dd s X) ->
  exists X1 X2, X = X1 ++ (key, rs) :: X2 /\ ~ In rs (map snd X1) /\ ~ In rs s.
Proof.
  induction X as [|[k0 r0] X IH]; intros s H; [destruct H|].
  rewrite dedup_cons in H.
  assert (Htail : In (key, rs) (dd (r0 :: s) X) ->
                  exists X1 X2, (k0, r0) :: X = X1 ++ (key, rs) :: X2
                                /\ ~ In rs (map snd X1) /\ ~ In rs s).
  { intros H'. destruct (IH _ H') as [X1 [X2 (E & N1 & N2)]].
    exists ((k0, r0) :: X1), X2. split; [rewrite E; reflexivity|]. split.
    - simpl. intros [E0|H0]; [apply N2; left; exact E0 | exact (N1 H0)].
    - intros H0. apply N2. right. exact H0. }
  destruct (existsb (rws_eqb T teqb r0) s) eqn:Ex.
  - exact (Htail H).
  - destruct H as [E|H]; [|exact (Htail H)].
    inversion E; subst. exists [], X. split; [reflexivity|]. split; [intros []|].
    intros Hin. apply existsb_rws_In in Hin. congruence.
Qed.

Lemma dedup_in_intro (X1 : txm) key rs X2 :
  ~ In rs (map snd X1) -> In (key, rs) (dd [] (X1 ++ (key, rs) :: X2)).
Proof.
  intros N. rewrite dedup_app, dedup_cons, app_nil_r.
  destruct (existsb (rws_eqb T teqb rs) (rev (map snd X1))) eqn:E.
  - apply existsb_rws_In in E. rewrite <- in_rev in E. contradiction.
  - apply in_or_app. right. left. reflexivity.
Qed.

(* ---- the un-deduplicated map of everything, and the closed form of run_groups ---- *)
Fixpoint full (k cnt : Z) (tr : txm) (gs : list (list (yielded T))) : txm :=
  match gs with
  | [] => tr
  | g :: gs' =>
      let '(items, cnt') := fill T cnt g in
      full (k + 1) cnt' (add_items T k items tr) gs'
  end.

Lemma step_tr k items (X : txm) :
  groups_lt k X -> dd [] (add_items T k items (dd [] X)) = dd [] (add_items T k items X).
Proof.
  intros H.
  assert (H' : groups_lt k (dd [] X)) by (apply dedup_Forall; exact H).
  rewrite (add_items_app_nil k items (dd [] X) H'), (add_items_app_nil k items X H), !dedup_app.
  f_equal.
  - apply dedup_idem. intros rs Hrs; exact Hrs.
  - apply dedup_ext. intros rs. rewrite !app_nil_r, <- !in_rev.
    generalize (dedup_seen_equiv X [] rs). simpl. tauto.
Qed.

Lemma step_sched k items (X : txm) :
  groups_lt k X ->
  fold_left (ptx k) (dd [] (add_items T k items X)) (fold_left process_any (dd [] X) [])
  = fold_left process_any (dd [] (add_items T k items X)) [].
Proof.
  intros H. rewrite (add_items_app_nil k items X H), dedup_app, !fold_left_app.
  rewrite (fold_process_skip k (dd [] X)).
  - apply fold_process_same. apply dedup_Forall. apply add_items_groups. constructor.
  - apply dedup_Forall. eapply Forall_impl; [|exact H]. intros e He. simpl in He. lia.
Qed.

Lemma run_groups_closed gs : forall k cnt (X : txm), groups_lt k X ->
  run_groups T teqb ilines k cnt (dd [] X) (fold_left process_any (dd [] X) []) gs
  = (dd [] (full k cnt X gs), fold_left process_any (dd [] (full k cnt X gs)) []).
Proof.
  induction gs as [|g gs IH]; intros k cnt X H; [reflexivity|].
  rewrite run_groups_cons. simpl full. destruct (fill T cnt g) as [items cnt']. cbv zeta.
  rewrite step_tr, step_sched by exact H.
  apply IH.
  unfold groups_lt. rewrite (add_items_app_nil k items X H). apply Forall_app. split.
  - eapply Forall_impl; [|exact H]. intros e He. simpl in He. lia.
  - eapply Forall_impl; [|apply (add_items_groups k items []); constructor].
    intros e He. simpl in He. lia.
Qed.

Lemma accepted_closed groups :
  accepted_unsorted T teqb ilines groups
  = fold_left process_any (dd [] (full 0 START_COUNT [] groups)) [].
Proof.
  unfold accepted_unsorted.
  exact (f_equal snd (run_groups_closed groups 0 START_COUNT [] (Forall_nil _))).
Qed.

(* ---- sortedness of the key map, lookup ---- *)
Fixpoint sorted_keys (tr : txm) : Prop :=
  match tr with
  | [] => True
  | e :: tl => Forall (fun e' => klt (fst e) (fst e')) tl /\ sorted_keys tl
  end.

Lemma tr_add_sorted k r (tr : txm) : sorted_keys tr -> sorted_keys (tr_add T k r tr).
Proof.
  induction tr as [|[k' rs] tl IH]; intros H.
  - simpl. split; [constructor | exact I].
  - rewrite tr_add_cons. destruct H as [Hall Hs]. simpl in Hall.
    destruct (key_cmp k k') eqn:Hc.
    + split; [exact Hall | exact Hs].
    + split; [| split; [exact Hall | exact Hs]].
      constructor; [exact Hc|].
      eapply Forall_impl; [|exact Hall]. intros e He. simpl in *.
      eapply klt_trans; [exact Hc | exact He].
    + split; [| apply IH; exact Hs].
      apply (tr_add_keys (fun x => klt k' x)); [exact Hall|].
      apply key_cmp_Gt in Hc. exact Hc.
Qed.

Lemma add_items_sorted k items : forall (tr : txm),
  sorted_keys tr -> sorted_keys (add_items T k items tr).
Proof.
  induction items as [|it items IH]; intros tr H; [exact H|].
  rewrite add_items_cons. apply IH, tr_add_sorted, H.
Qed.

Lemma full_sorted gs : forall k cnt (tr : txm), sorted_keys tr -> sorted_keys (full k cnt tr gs).
Proof.
  induction gs as [|g gs IH]; intros k cnt tr H; [exact H|].
  simpl. destruct (fill T cnt g) as [items cnt']. apply IH, add_items_sorted, H.
Qed.

Lemma dedup_sorted (X : txm) : forall s, sorted_keys X -> sorted_keys (dd s X).
Proof.
  induction X as [|[k rs] X IH]; intros s H; [exact I|].
  destruct H as [Hall Hs]. rewrite dedup_cons.
  destruct (existsb (rws_eqb T teqb rs) s); [apply IH; exact Hs|].
  split; [apply dedup_Forall; exact Hall | apply IH; exact Hs].
Qed.

Lemma sorted_split (X1 : txm) e X2 : sorted_keys (X1 ++ e :: X2) ->
  sorted_keys X1 /\ (forall e', In e' X1 -> klt (fst e') (fst e))
  /\ (forall e', In e' X2 -> klt (fst e) (fst e')).
Proof.
  induction X1 as [|a X1 IH]; intros H.
  - destruct H as [Hall _]. split; [exact I|]. split; [intros ? []|].
    rewrite Forall_forall in Hall. exact Hall.
  - rewrite <- app_comm_cons in H. destruct H as [Hall Hs]. destruct (IH Hs) as (S1 & B & A').
    rewrite Forall_forall in Hall.
    split; [split; [apply Forall_forall; intros x Hx; apply Hall; apply in_or_app; left; exact Hx
                   | exact S1]|].
    split; [|exact A'].
    intros e' [Ee|He']; [subst e'; apply Hall; apply in_or_app; right; left; reflexivity
                        | apply B; exact He'].
Qed.

Fixpoint lookup (key : tkey) (tr : txm) : list rw :=
  match tr with
  | [] => []
  | e :: tl => if key_eqb (fst e) key then snd e else lookup key tl
  end.

Lemma lookup_none key (tr : txm) : Forall (fun e => klt key (fst e)) tr -> lookup key tr = [].
Proof.
  induction tr as [|e tl IH]; intros H; simpl; [reflexivity|].
  inversion H as [|? ? He Htl]; subst.
  destruct (key_eqb (fst e) key) eqn:E.
  - apply key_eqb_spec in E. rewrite E in He. exfalso. exact (klt_irrefl _ He).
  - apply IH; exact Htl.
Qed.

Lemma lookup_tr_add key k r (tr : txm) : sorted_keys tr ->
  lookup key (tr_add T k r tr) = if key_eqb k key then lookup key tr ++ [r] else lookup key tr.
Proof.
  induction tr as [|[k' rs] tl IH]; intros H.
  - simpl. destruct (key_eqb k key); reflexivity.
  - destruct H as [Hall Hs]. simpl in Hall. rewrite tr_add_cons.
    destruct (key_cmp k k') eqn:Hc.
    + apply key_cmp_Eq in Hc. subst k'. simpl. destruct (key_eqb k key); reflexivity.
    + change (lookup key ((k, [r]) :: (k', rs) :: tl))
        with (if key_eqb k key then [r] else lookup key ((k', rs) :: tl)).
      destruct (key_eqb k key) eqn:E; [|reflexivity].
      apply key_eqb_spec in E. subst key.
      rewrite (lookup_none k ((k', rs) :: tl)); [reflexivity|].
      constructor; [exact Hc|]. eapply Forall_impl; [|exact Hall].
      intros e He; simpl in *. eapply klt_trans; [exact Hc | exact He].
    + change (lookup key ((k', rs) :: tr_add T k r tl))
        with (if key_eqb k' key then rs else lookup key (tr_add T k r tl)).
      change (lookup key ((k', rs) :: tl)) with (if key_eqb k' key then rs else lookup key tl).
      rewrite (IH Hs).
      destruct (key_eqb k' key) eqn:E'; [|reflexivity].
      apply key_eqb_spec in E'. subst key.
      rewrite key_eqb_neq; [reflexivity|].
      intros Ek. subst k'. apply key_cmp_Gt in Hc. exact (klt_irrefl _ Hc).
Qed.

Lemma lookup_add_items key k items : forall (tr : txm), sorted_keys tr ->
  lookup key (add_items T k items tr)
  = lookup key tr ++ map snd (filter (fun it => key_eqb (k, fst it) key) items).
Proof.
  induction items as [|it items IH]; intros tr H.
  - unfold add_items; simpl. rewrite app_nil_r. reflexivity.
  - rewrite add_items_cons, IH by (apply tr_add_sorted; exact H).
    rewrite lookup_tr_add by exact H. simpl filter.
    destruct (key_eqb (k, fst it) key); simpl; [rewrite <- app_assoc|]; reflexivity.
Qed.

Lemma filter_map_items key k (items : list (Z * rw)) :
  filter (fun e : entry => key_eqb (fst e) key) (map (fun it => ((k, fst it), snd it)) items)
  = map (fun it => ((k, fst it), snd it)) (filter (fun it => key_eqb (k, fst it) key) items).
Proof.
  induction items as [|it items IH]; simpl; [reflexivity|].
  destruct (key_eqb (k, fst it) key); simpl; rewrite IH; reflexivity.
Qed.

Lemma lookup_full key gs : forall k cnt (tr : txm), sorted_keys tr ->
  lookup key (full k cnt tr gs)
  = lookup key tr ++ map snd (filter (fun e => key_eqb (fst e) key) (all_items k cnt gs)).
Proof.
  induction gs as [|g gs IH]; intros k cnt tr H.
  - simpl. rewrite app_nil_r; reflexivity.
  - simpl. destruct (fill T cnt g) as [items cnt'].
    rewrite IH by (apply add_items_sorted; exact H).
    rewrite lookup_add_items by exact H.
    rewrite filter_app, map_app, filter_map_items, map_map, app_assoc. reflexivity.
Qed.

Lemma tx_of_lookup groups key : tx_of groups key = lookup key (full 0 START_COUNT [] groups).
Proof.
  unfold tx_of. rewrite (lookup_full key groups 0 START_COUNT [] I). reflexivity.
Qed.

Lemma sorted_lookup_in (tr : txm) key rs : sorted_keys tr -> In (key, rs) tr -> lookup key tr = rs.
Proof.
  induction tr as [|e tl IH]; intros Hs Hin; [destruct Hin|].
  destruct Hs as [Hall Hs]. simpl. destruct Hin as [Ee|Hin].
  - subst e. simpl. rewrite key_eqb_refl. reflexivity.
  - rewrite Forall_forall in Hall. specialize (Hall _ Hin). simpl in Hall.
    rewrite key_eqb_neq; [apply IH; assumption|].
    intros E. rewrite E in Hall. exact (klt_irrefl _ Hall).
Qed.

Lemma lookup_in (tr : txm) key : lookup key tr <> [] -> In (key, lookup key tr) tr.
Proof.
  induction tr as [|e tl IH]; simpl; intros H; [congruence|].
  destruct (key_eqb (fst e) key) eqn:E.
  - apply key_eqb_spec in E. left. destruct e as [k0 r0]; simpl in *. subst k0. reflexivity.
  - right. apply IH; exact H.
Qed.

(* ---- the accept/drop fold ---- *)
Lemma proc_spec (D : txm) : forall s, exists ext,
  fold_left process_any D s = s ++ ext /\
  forall k' r', In (k', r') ext -> exists rs', In (k', rs') D /\ In r' (nodup' rs').
Proof.
  induction D as [|e D IH]; intros s.
  - exists []. simpl. rewrite app_nil_r. split; [reflexivity | intros ? ? []].
  - simpl fold_left. destruct (IH (process_any s e)) as [ext [Hext Hin]].
    destruct (process_any_ext s e) as [E | [_ E]].
    + exists ext. split; [rewrite Hext, E; reflexivity|].
      intros k' r' H. destruct (Hin k' r' H) as [rs' [H1 H2]].
      exists rs'. split; [right; exact H1 | exact H2].
    + exists (tx_entries e ++ ext). split; [rewrite Hext, E, <- app_assoc; reflexivity|].
      intros k' r' H. apply in_app_or in H. destruct H as [H|H].
      * unfold tx_entries in H. apply in_map_iff in H. destruct H as [r [Hr Hr']].
        inversion Hr; subst. exists (snd e).
        split; [left; destruct e; reflexivity | exact Hr'].
      * destruct (Hin k' r' H) as [rs' [H1 H2]].
        exists rs'. split; [right; exact H1 | exact H2].
Qed.

Lemma proc_prefix (D1 D2 : txm) x :
  In x (fold_left process_any D1 []) -> In x (fold_left process_any (D1 ++ D2) []).
Proof.
  intros H. rewrite fold_left_app.
  destruct (proc_spec D2 (fold_left process_any D1 [])) as [ext [E _]].
  rewrite E. apply in_or_app. left. exact H.
Qed.

Lemma proc_split (D1 : txm) e D2 : sorted_keys (D1 ++ e :: D2) ->
  exists ext2,
    fold_left process_any (D1 ++ e :: D2) [] = process_any (fold_left process_any D1 []) e ++ ext2
    /\ (forall k' r', In (k', r') (fold_left process_any D1 []) ->
          klt k' (fst e) /\ exists rs', In (k', rs') D1 /\ In r' (nodup' rs'))
    /\ (forall k' r', In (k', r') ext2 -> klt (fst e) k').
Proof.
  intros Hs. destruct (sorted_split _ _ _ Hs) as (_ & HB & HA).
  rewrite fold_left_app. simpl fold_left.
  destruct (proc_spec D1 []) as [ext1 [E1 H1]]. simpl in E1.
  destruct (proc_spec D2 (process_any (fold_left process_any D1 []) e)) as [ext2 [E2 H2]].
  exists ext2. split; [exact E2|]. split.
  - intros k' r' H. rewrite E1 in H. destruct (H1 k' r' H) as [rs' [Hin Hr]].
    split; [apply (HB (k', rs') Hin) | exists rs'; split; assumption].
  - intros k' r' H. destruct (H2 k' r' H) as [rs' [Hin _]]. apply (HA (k', rs') Hin).
Qed.

(* an entry of the accepted list comes from a transaction that was judged Accepted against
   exactly the entries produced by the strictly smaller keys *)
Lemma sched_in_inv (D : txm) key r : sorted_keys D ->
  In (key, r) (fold_left process_any D []) ->
  exists D1 rs D2, D = D1 ++ (key, rs) :: D2
    /\ judge T ilines (fold_left process_any D1 []) (nodup' rs) = Accepted
    /\ In r (nodup' rs).
Proof.
  intros Hs Hin.
  destruct (proc_spec D []) as [ext [E H]]. simpl in E.
  assert (Hin' := Hin). rewrite E in Hin'. destruct (H _ _ Hin') as [rs [HinD _]].
  destruct (in_split _ _ HinD) as [D1 [D2 HD]]. subst D.
  exists D1, rs, D2. split; [reflexivity|].
  destruct (proc_split D1 (key, rs) D2 Hs) as [ext2 (E2 & HB & HA)].
  rewrite E2 in Hin. apply in_app_or in Hin. destruct Hin as [Hin|Hin].
  - destruct (process_any_ext (fold_left process_any D1 []) (key, rs)) as [E3 | [HJ E3]];
      rewrite E3 in Hin.
    + exfalso. destruct (HB _ _ Hin) as [Hlt _]. exact (klt_irrefl _ Hlt).
    + apply in_app_or in Hin. destruct Hin as [Hin|Hin].
      * exfalso. destruct (HB _ _ Hin) as [Hlt _]. exact (klt_irrefl _ Hlt).
      * split; [exact HJ|]. unfold tx_entries in Hin. apply in_map_iff in Hin.
        destruct Hin as [r0 [Er Hr]]. inversion Er; subst. exact Hr.
  - exfalso. exact (klt_irrefl _ (HA _ _ Hin)).
Qed.

Lemma sched_in_intro (D1 : txm) key rs D2 r : sorted_keys (D1 ++ (key, rs) :: D2) ->
  judge T ilines (fold_left process_any D1 []) (nodup' rs) = Accepted ->
  In r (nodup' rs) ->
  In (key, r) (fold_left process_any (D1 ++ (key, rs) :: D2) []).
Proof.
  intros Hs HJ Hr. destruct (proc_split D1 (key, rs) D2 Hs) as [ext2 (E2 & _ & _)].
  rewrite E2. apply in_or_app. left. rewrite (process_any_accept _ (key, rs) HJ).
  apply in_or_app. right. unfold tx_entries. simpl.
  apply in_map_iff. exists r. split; [reflexivity | exact Hr].
Qed.

(* all entries with a given key, in the accepted list *)
Lemma filter_key_sched (D : txm) key : sorted_keys D ->
  filter (fun e : entry => key_eqb (fst e) key) (fold_left process_any D []) = [] \/
  exists rs, In (key, rs) D /\
    filter (fun e : entry => key_eqb (fst e) key) (fold_left process_any D [])
    = map (fun r => (key, r)) (nodup' rs).
Proof.
  intros Hs.
  destruct (existsb (fun e : tkey * list rw => key_eqb (fst e) key) D) eqn:HE.
  - apply existsb_exists in HE. destruct HE as [[k0 rs] [Hin Hk]]. simpl in Hk.
    apply key_eqb_spec in Hk. subst k0.
    destruct (in_split _ _ Hin) as [D1 [D2 HD]]. subst D.
    destruct (proc_split D1 (key, rs) D2 Hs) as [ext2 (E & HB & HA)].
    rewrite E.
    assert (F1 : filter (fun e : entry => key_eqb (fst e) key) (fold_left process_any D1 []) = []).
    { apply filter_nil. intros [k' r'] Hx. simpl. apply key_eqb_neq. intros Ek. subst k'.
      destruct (HB _ _ Hx) as [Hlt _]. exact (klt_irrefl _ Hlt). }
    assert (F2 : filter (fun e : entry => key_eqb (fst e) key) ext2 = []).
    { apply filter_nil. intros [k' r'] Hx. simpl. apply key_eqb_neq. intros Ek. subst k'.
      exact (klt_irrefl _ (HA _ _ Hx)). }
    rewrite filter_app, F2, app_nil_r.
    destruct (process_any_ext (fold_left process_any D1 []) (key, rs)) as [E' | [_ E']];
      rewrite E'.
    + left. exact F1.
    + right. exists rs. split; [apply in_or_app; right; left; reflexivity|].
      rewrite filter_app, F1. unfold tx_entries. simpl.
      apply filter_all. intros x Hx. apply in_map_iff in Hx. destruct Hx as [r [Ex _]]. subst x.
      simpl. apply key_eqb_refl.
  - left. rewrite existsb_false_iff in HE.
    destruct (proc_spec D []) as [ext [E H]]. rewrite E. simpl.
    apply filter_nil. intros [k' r'] Hx. destruct (H _ _ Hx) as [rs' [Hin _]].
    exact (HE (k', rs') Hin).
Qed.

(* ---- T10.1 atomicity: the scheduled entries of a transaction are none, or all of its
        (set-deduplicated) rewrites ---- *)
Theorem schedule_atomic :
  forall groups key,
    let got := filter (fun e => key_eqb (fst e) key) (schedule' groups) in
    got = [] \/ Permutation (map snd got) (nodup_rw T teqb (tx_of groups key)).
Proof.
  intros groups key got.
  pose (F := full 0 START_COUNT [] groups).
  assert (HF : sorted_keys F) by (apply full_sorted; exact I).
  assert (HD : sorted_keys (dd [] F)) by (apply dedup_sorted; exact HF).
  assert (HP : Permutation (filter (fun e : entry => key_eqb (fst e) key)
                                   (fold_left process_any (dd [] F) [])) got).
  { unfold got, schedule. rewrite accepted_closed. apply filter_perm, sort_desc_perm. }
  destruct (filter_key_sched (dd [] F) key HD) as [HS | [rs [Hin HS]]]; rewrite HS in HP.
  - left. apply Permutation_nil in HP. exact HP.
  - right. apply dedup_incl in Hin.
    rewrite tx_of_lookup. fold F. rewrite (sorted_lookup_in F key rs HF Hin).
    apply Permutation_sym. apply (Permutation_map snd) in HP.
    rewrite map_map in HP. simpl in HP. rewrite map_id in HP. exact HP.
Qed.

(* ---- T10.3 drop characterisation (both directions) ---- *)
Definition tx_scheduled (groups : list (list (yielded T))) (key : tkey) : Prop :=
  In key (map fst (schedule' groups)).

Lemma scheduled_iff groups key :
  tx_scheduled groups key <->
  exists r, In (key, r) (fold_left process_any (dd [] (full 0 START_COUNT [] groups)) []).
Proof.
  unfold tx_scheduled, schedule. rewrite accepted_closed.
  set (Sc := fold_left process_any (dd [] (full 0 START_COUNT [] groups)) []).
  split.
  - intros H. apply in_map_iff in H. destruct H as [[k r] [Ek Hin]]. simpl in Ek. subst k.
    exists r. apply Permutation_in with (l := sort_desc T tcmp Sc);
      [apply Permutation_sym, sort_desc_perm | exact Hin].
  - intros [r Hin]. apply in_map_iff. exists (key, r). split; [reflexivity|].
    apply Permutation_in with (l := Sc); [apply sort_desc_perm | exact Hin].
Qed.

Theorem schedule_drop_iff :
  forall groups key,
    tx_scheduled groups key <->
      tx_of groups key <> []
      /\ ~ (exists key', key_cmp key' key = Lt /\ tx_of groups key' = tx_of groups key)
      /\ existsb (fun r => ignored ilines (rrng r)) (tx_of groups key) = false
      /\ self_conflict T (nodup_rw T teqb (tx_of groups key)) = false
      /\ (forall key', key_cmp key' key = Lt -> tx_scheduled groups key' ->
            forall r r', In r (tx_of groups key) -> In r' (tx_of groups key') ->
                         overlaps (rrng r) (rrng r') = false).
Proof.
  intros groups key.
  pose (F := full 0 START_COUNT [] groups).
  assert (HF : sorted_keys F) by (apply full_sorted; exact I).
  assert (HD : sorted_keys (dd [] F)) by (apply dedup_sorted; exact HF).
  assert (Htx : forall k, tx_of groups k = lookup k F) by (intros k; apply tx_of_lookup).
  assert (HDF : forall k rs, In (k, rs) (dd [] F) -> tx_of groups k = rs).
  { intros k rs Hin. rewrite Htx. apply sorted_lookup_in; [exact HF|].
    apply dedup_incl in Hin. exact Hin. }
  split.
  - (* scheduled -> conditions *)
    intros Hsch. apply scheduled_iff in Hsch. fold F in Hsch. destruct Hsch as [r Hr].
    destruct (sched_in_inv _ _ _ HD Hr) as [D1 [rs [D2 (ED & HJ & Hrn)]]].
    assert (HinD : In (key, rs) (dd [] F)).
    { rewrite ED. apply in_or_app; right; left; reflexivity. }
    assert (Ers : tx_of groups key = rs) by (apply HDF; exact HinD).
    apply judge_accepted_iff in HJ. destruct HJ as (Hign & Hself & Hsc).
    rewrite Ers.
    split; [|split; [|split; [|split]]].
    + intros En. rewrite En in Hrn. simpl in Hrn. exact Hrn.
    + intros [key' [Hlt Eq']].
      destruct (dedup_in_inv _ _ _ _ HinD) as [X1 [X2 (EF & N1 & _)]].
      assert (HF' := HF). rewrite EF in HF'.
      destruct (sorted_split _ _ _ HF') as (_ & HB & HA).
      assert (Hin' : In (key', rs) F).
      { assert (El : lookup key' F = rs) by (rewrite <- Htx; congruence).
        assert (Hne : lookup key' F <> []).
        { rewrite El. intros En. rewrite En in Hrn. simpl in Hrn. exact Hrn. }
        apply lookup_in in Hne. rewrite El in Hne. exact Hne. }
      rewrite EF in Hin'. apply in_app_or in Hin'. destruct Hin' as [Hin'|[Hin'|Hin']].
      * apply N1. apply in_map_iff. exists (key', rs). split; [reflexivity | exact Hin'].
      * inversion Hin'; subst. exact (klt_irrefl _ Hlt).
      * apply HA in Hin'. simpl in Hin'. exact (klt_asym _ _ Hlt Hin').
    + rewrite existsb_nodup_rw in Hign. exact Hign.
    + exact Hself.
    + intros key' Hlt Hsch' r1 r' Hr1 Hr'.
      apply scheduled_iff in Hsch'. fold F in Hsch'. destruct Hsch' as [r0 Hr0].
      rewrite ED in HD, Hr0.
      destruct (proc_split D1 (key, rs) D2 HD) as [ext2 (E2 & HB & HA)].
      destruct (sorted_split _ _ _ HD) as (HD1 & _ & _).
      assert (Hr0' : In (key', r0) (fold_left process_any D1 [])).
      { rewrite E2 in Hr0. apply in_app_or in Hr0. destruct Hr0 as [Hr0|Hr0].
        - destruct (process_any_ext (fold_left process_any D1 []) (key, rs)) as [E3 | [_ E3]];
            rewrite E3 in Hr0; [exact Hr0|].
          apply in_app_or in Hr0. destruct Hr0 as [Hr0|Hr0]; [exact Hr0|].
          exfalso. unfold tx_entries in Hr0. apply in_map_iff in Hr0.
          destruct Hr0 as [x [Ex _]]. inversion Ex; subst. exact (klt_irrefl _ Hlt).
        - exfalso. apply HA in Hr0. simpl in Hr0. exact (klt_asym _ _ Hlt Hr0). }
      destruct (sched_in_inv _ _ _ HD1 Hr0') as [A1 [rs' [A2 (EA & HJ' & _)]]].
      assert (Ers' : tx_of groups key' = rs').
      { apply HDF. rewrite ED, EA. apply in_or_app. left. apply in_or_app. right. left.
        reflexivity. }
      rewrite Ers' in Hr'.
      assert (Hin1 : In (key', r') (fold_left process_any D1 [])).
      { rewrite EA. apply sched_in_intro; [rewrite <- EA; exact HD1 | exact HJ' |].
        apply nodup_rw_In. exact Hr'. }
      rewrite sched_conflict_false in Hsc.
      apply (Hsc r1 (key', r')); [apply nodup_rw_In; exact Hr1 | exact Hin1].
  - (* conditions -> scheduled *)
    intros (Hne & Hmin & Hign & Hself & Hprev).
    apply scheduled_iff. fold F.
    set (rs := tx_of groups key) in *.
    assert (HinF : In (key, rs) F).
    { unfold rs. rewrite Htx. apply lookup_in. rewrite <- Htx. exact Hne. }
    destruct (in_split _ _ HinF) as [X1 [X2 EF]].
    assert (HF' := HF). rewrite EF in HF'.
    destruct (sorted_split _ _ _ HF') as (_ & HB & _).
    assert (HinD : In (key, rs) (dd [] F)).
    { rewrite EF. apply dedup_in_intro. intros Hin. apply in_map_iff in Hin.
      destruct Hin as [[k' rs'] [Es Hin]]. simpl in Es. subst rs'.
      apply Hmin. exists k'. split; [exact (HB _ Hin)|].
      rewrite Htx. apply sorted_lookup_in; [exact HF|]. rewrite EF. apply in_or_app. left.
      exact Hin. }
    destruct (in_split _ _ HinD) as [D1 [D2 ED]].
    rewrite ED in HD.
    destruct (proc_split D1 (key, rs) D2 HD) as [ext2 (E2 & HB2 & _)].
    assert (HJ : judge T ilines (fold_left process_any D1 []) (nodup' rs) = Accepted).
    { apply judge_accepted_iff. split; [|split].
      - rewrite existsb_nodup_rw. exact Hign.
      - exact Hself.
      - apply sched_conflict_false. intros r [k' r'] Hr Ho. simpl.
        destruct (HB2 _ _ Ho) as [Hlt [rs' [Hin' Hr']]]. simpl in Hlt.
        apply (Hprev k' Hlt).
        + apply scheduled_iff. fold F. exists r'. rewrite ED. apply proc_prefix. exact Ho.
        + apply nodup_rw_In. exact Hr.
        + assert (Ers' : tx_of groups k' = rs').
          { apply HDF. rewrite ED. apply in_or_app. left. exact Hin'. }
          rewrite Ers'. apply nodup_rw_In. exact Hr'. }
    destruct rs as [|a tl] eqn:Ers; [congruence|].
    exists a. rewrite ED. apply sched_in_intro; [exact HD | exact HJ |].
    apply nodup_rw_In. left. reflexivity.
Qed.

End Proofs.

(* ---- T10.5 rollback, T10.7 bounded driving, T03.1 validity preservation ---- *)
Section ApplyProofs.
Variable A : Type.
Variable valid : list A -> bool.
Variable restore : list A -> list A -> list A.

Theorem apply_rollback :
  forall src rws,
    let r := apply_rewrites A valid restore src rws in
    r = src \/ valid r = true.
Proof.
  intros src rws r. unfold r, apply_rewrites; cbv zeta.
  destruct (valid (apply_all A src rws)) eqn:E1; simpl; [|left; reflexivity].
  destruct (valid (restore src (apply_all A src rws))) eqn:E2; simpl;
    [right; exact E2 | left; reflexivity].
Qed.

Theorem apply_invalid_identity :
  forall src rws, valid (apply_all A src rws) = false -> apply_rewrites A valid restore src rws = src.
Proof.
  intros src rws H. unfold apply_rewrites; cbv zeta. rewrite H. reflexivity.
Qed.

Theorem apply_preserves_valid :
  forall src rws, valid src = true -> valid (apply_rewrites A valid restore src rws) = true.
Proof.
  intros src rws H. pose proof (apply_rollback src rws) as HR. cbv zeta in HR.
  destruct HR as [E|E]; [rewrite E; exact H | exact E].
Qed.

Variable pass : list A -> list A.
Variable src_eqb : list A -> list A -> bool.

Lemma fix_loop_bounded :
  forall n orig cur,
    exists m, (m <= n)%nat /\ fix_loop A pass src_eqb n orig cur = Nat.iter m pass cur.
Proof.
  induction n as [|n IH]; intros orig cur.
  - exists O. split; [apply le_n | reflexivity].
  - simpl fix_loop. destruct (src_eqb (pass cur) orig).
    + exists 1%nat. split; [lia | reflexivity].
    + destruct (IH orig (pass cur)) as [m [Hm Em]].
      exists (S m). split; [lia|]. rewrite Em, iter_succ_r. reflexivity.
Qed.

Theorem fix_bounded :
  forall max_iter src,
    exists n, (n <= max_iter)%nat /\ fix_wrapper A pass src_eqb max_iter src = Nat.iter n pass src.
Proof.
  intros max_iter src. unfold fix_wrapper. apply fix_loop_bounded.
Qed.

Lemma fix_loop_preserves :
  forall (P : list A -> Prop), (forall s, P s -> P (pass s)) ->
  forall n orig cur, P cur -> P (fix_loop A pass src_eqb n orig cur).
Proof.
  intros P HP. induction n as [|n IH]; intros orig cur H; [exact H|].
  simpl fix_loop. destruct (src_eqb (pass cur) orig).
  - apply HP; exact H.
  - apply IH. apply HP; exact H.
Qed.

Theorem fix_preserves :
  forall (P : list A -> Prop), (forall s, P s -> P (pass s)) ->
  forall max_iter src, P src -> P (fix_wrapper A pass src_eqb max_iter src).
Proof.
  intros P HP max_iter src H. unfold fix_wrapper. apply fix_loop_preserves; assumption.
Qed.

End ApplyProofs.

Print Assumptions schedule_disjoint.
Print Assumptions schedule_atomic.
Print Assumptions schedule_drop_iff.
Print Assumptions apply_rollback.
Print Assumptions apply_invalid_identity.
Print Assumptions apply_preserves_valid.
Print Assumptions fix_bounded.
Print Assumptions fix_preserves.
