(* K-ignore -- model of the opt-out comment recognisers:
     core.has_ignore_comment (pyrefact/core.py:886-897): per physical line (str.splitlines), the regex
         #\s*pyrefact\s*:\s*(skip_file|ignore)   searched in the line, and Range overlap with the line;
     the skip_file early return of main.format_code (pyrefact/main.py:167-168, after repair 1e98d6a):
         re.search(r"#\s*pyrefact\s*:\s*skip_file", source)  on the whole text.
   Text = list of Unicode code points (N).  Mirrors the code as it is; no proofs in this file. *)
From Coq Require Import List ZArith NArith Bool.
Import ListNotations.
Require Import Pyrefact.SchedModel.

Definition text := list N.

(* Python's regex class \s on str patterns = the characters c with c.isspace()
   (validated against `re` over ALL code points 0..0x10FFFF by harness/c20.py on every run) *)
Definition space_points : list N :=
  [9; 10; 11; 12; 13; 28; 29; 30; 31; 32; 133; 160; 5760;
   8192; 8193; 8194; 8195; 8196; 8197; 8198; 8199; 8200; 8201; 8202;
   8232; 8233; 8239; 8287; 12288]%N.
Definition is_space (c : N) : bool := existsb (N.eqb c) space_points.

(* str.splitlines() boundaries: \n \v \f \r \x1c \x1d \x1e \x85 U+2028 U+2029 (and \r\n as one) *)
Definition break_points : list N := [10; 11; 12; 13; 28; 29; 30; 133; 8232; 8233]%N.
Definition is_break (c : N) : bool := existsb (N.eqb c) break_points.

(* source.splitlines(keepends=True); [cur] = current line, reversed *)
Fixpoint split_lines_aux (cur : text) (s : text) : list text :=
  match s with
  | [] => match cur with [] => [] | _ => [rev cur] end
  | c :: tl =>
      if N.eqb c 13 then
        match tl with
        | d :: tl' => if N.eqb d 10 then rev (d :: c :: cur) :: split_lines_aux [] tl'
                      else rev (c :: cur) :: split_lines_aux [] tl
        | [] => [rev (c :: cur)]
        end
      else if is_break c then rev (c :: cur) :: split_lines_aux [] tl
      else split_lines_aux (c :: cur) tl
  end.
Definition split_lines (s : text) : list text := split_lines_aux [] s.

(* ---- the regex, hand-translated: no backtracking is needed because every \s* is followed by a
        literal that is not a space (proved equivalent to the declarative reading in IgnoreProofs.v) *)
Definition HASH : N := 35%N.
Definition COLON : N := 58%N.
Definition PYREFACT : text := [112; 121; 114; 101; 102; 97; 99; 116]%N.
Definition SKIP_FILE : text := [115; 107; 105; 112; 95; 102; 105; 108; 101]%N.
Definition IGNORE : text := [105; 103; 110; 111; 114; 101]%N.

Fixpoint skip_spaces (s : text) : text :=
  match s with
  | c :: tl => if is_space c then skip_spaces tl else s
  | [] => []
  end.

(* strip the literal p from the front of s *)
Fixpoint strip (p s : text) : option text :=
  match p, s with
  | [], _ => Some s
  | a :: p', b :: s' => if N.eqb a b then strip p' s' else None
  | _ :: _, [] => None
  end.

Definition is_some {X} (o : option X) : bool := match o with Some _ => true | None => false end.

(* [kws] = the alternatives allowed after the colon *)
Definition match_after_hash (kws : list text) (s : text) : bool :=
  match strip PYREFACT (skip_spaces s) with
  | Some s1 =>
      match skip_spaces s1 with
      | c :: s2 => N.eqb c COLON && existsb (fun kw => is_some (strip kw (skip_spaces s2))) kws
      | [] => false
      end
  | None => false
  end.

(* pattern.search(s) *)
Fixpoint search (kws : list text) (s : text) : bool :=
  match s with
  | [] => false
  | c :: tl => (N.eqb c HASH && match_after_hash kws tl) || search kws tl
  end.

Definition ignore_line (l : text) : bool := search [SKIP_FILE; IGNORE] l.
Definition skip_search (src : text) : bool := search [SKIP_FILE] src.

(* ---- has_ignore_comment(source, rng) ---- *)
Fixpoint line_ranges (pos : Z) (ls : list text) : list (range * text) :=
  match ls with
  | [] => []
  | l :: tl => let e := (pos + Z.of_nat (length l))%Z in ((pos, e), l) :: line_ranges e tl
  end.

Definition ignore_ranges (src : text) : list range :=
  map fst (filter (fun p => ignore_line (snd p)) (line_ranges 0 (split_lines src))).

Definition has_ignore (src : text) (r : range) : bool := ignored (ignore_ranges src) r.

(* ---- format_code's first statement: the file is handed back untouched ---- *)
Definition format_code_head (rest : text -> text) (src : text) : text :=
  if skip_search src then src else rest src.

(* ---- correspondence plumbing ---- *)
Fixpoint ntext_eqb (a b : text) : bool :=
  match a, b with
  | [], [] => true
  | x :: a', y :: b' => N.eqb x y && ntext_eqb a' b'
  | _, _ => false
  end.
Fixpoint lines_eqb (a b : list text) : bool :=
  match a, b with
  | [], [] => true
  | x :: a', y :: b' => ntext_eqb x y && lines_eqb a' b'
  | _, _ => false
  end.

(* (source, expected splitlines, expected per-line regex verdicts, expected skip verdict,
    list of (range, expected has_ignore_comment)) *)
Record ign_case := mkIgn {
  ic_src : text;
  ic_lines : list text;
  ic_line_verdicts : list bool;
  ic_skip : bool;
  ic_ranges : list (range * bool)
}.
Fixpoint bools_eq (a b : list bool) : bool :=
  match a, b with
  | [], [] => true
  | x :: a', y :: b' => Bool.eqb x y && bools_eq a' b'
  | _, _ => false
  end.
Definition ign_case_ok (c : ign_case) : bool :=
  lines_eqb (split_lines (ic_src c)) (ic_lines c)
  && bools_eq (map ignore_line (split_lines (ic_src c))) (ic_line_verdicts c)
  && Bool.eqb (skip_search (ic_src c)) (ic_skip c)
  && forallb (fun p => Bool.eqb (has_ignore (ic_src c) (fst p)) (snd p)) (ic_ranges c).
