(* K-ignore -- model of the opt-out comment recognisers:
     core.has_ignore_comment (pyrefact/core.py, after repairs a37c022 8992e08 776bcb9): per physical line
     (core.split_lines: \n, \r\n, \r only), the regex
         #\s*pyrefact\s*:\s*(skip_file|ignore)   searched in the line and confirmed by a comment token of
     the tokenizer on that line, and the line touched by the range (overlap; insertion points);
     the skip_file early return of main.format_code (pyrefact/main.py:167-168, after repair 1e98d6a):
         re.search(r"#\s*pyrefact\s*:\s*skip_file", source)  on the whole text.
   Text = list of Unicode code points (N).  Mirrors the code as it is; no proofs in this file. *)
From Coq Require Import List ZArith NArith Bool.
Import ListNotations.
Require Import Pyrefact.SchedModel.

Definition text := list N.

(* Python's regex class \s on str patterns = the characters c with c.isspace()
   (validated against `re` over ALL code points 0..0x10FFFF by harness/c20.py on every run) *)
Definition space_points : list N :=
  [9; 10; 11; 12; 13; 28; 29; 30; 31; 32; 133; 160; 5760;
   8192; 8193; 8194; 8195; 8196; 8197; 8198; 8199; 8200; 8201; 8202;
   8232; 8233; 8239; 8287; 12288]%N.
Definition is_space (c : N) : bool := existsb (N.eqb c) space_points.

(* str.splitlines() boundaries: \n \v \f \r \x1c \x1d \x1e \x85 U+2028 U+2029 (and \r\n as one).
   This is NOT the line structure of Python source: see split_lines below. *)
Definition break_points : list N := [10; 11; 12; 13; 28; 29; 30; 133; 8232; 8233]%N.
Definition is_break (c : N) : bool := existsb (N.eqb c) break_points.

(* split after every \r\n, after every other \r, and after every other character c with brk c;
   line terminators kept; [cur] = current line, reversed *)
Fixpoint split_at (brk : N -> bool) (cur : text) (s : text) : list text :=
  match s with
  | [] => match cur with [] => [] | _ => [rev cur] end
  | c :: tl =>
      if N.eqb c 13 then
        match tl with
        | d :: tl' => if N.eqb d 10 then rev (d :: c :: cur) :: split_at brk [] tl'
                      else rev (c :: cur) :: split_at brk [] tl
        | [] => [rev (c :: cur)]
        end
      else if brk c then rev (c :: cur) :: split_at brk [] tl
      else split_at brk (c :: cur) tl
  end.

(* source.splitlines(keepends=True): what has_ignore_comment, _do_rewrite, _insert_nodes,
   _fix_undefined_variables and indentation_level used before repairs a37c022..bb9c8e5 *)
Definition str_splitlines (s : text) : list text := split_at is_break [] s.

(* core.split_lines (pyrefact/core.py, after repair a37c022): re.findall of
       [^\r\n]*(?:\r\n|\r|\n)|[^\r\n]+
   = the physical lines of the Python tokenizer (language reference 2.1.2): a line ends at \n, \r\n
   or \r and nowhere else. *)
Definition is_eol (c : N) : bool := N.eqb c 10 || N.eqb c 13.
Definition split_lines (s : text) : list text := split_at (N.eqb 10) [] s.

(* core.strip_line_terminator(line) != line *)
Definition terminated (l : text) : bool :=
  match rev l with c :: _ => is_eol c | [] => false end.

(* ---- the regex, hand-translated: no backtracking is needed because every \s* is followed by a
        literal that is not a space (proved equivalent to the declarative reading in IgnoreProofs.v) *)
Definition HASH : N := 35%N.
Definition COLON : N := 58%N.
Definition PYREFACT : text := [112; 121; 114; 101; 102; 97; 99; 116]%N.
Definition SKIP_FILE : text := [115; 107; 105; 112; 95; 102; 105; 108; 101]%N.
Definition IGNORE : text := [105; 103; 110; 111; 114; 101]%N.

Fixpoint skip_spaces (s : text) : text :=
  match s with
  | c :: tl => if is_space c then skip_spaces tl else s
  | [] => []
  end.

(* strip the literal p from the front of s *)
Fixpoint strip (p s : text) : option text :=
  match p, s with
  | [], _ => Some s
  | a :: p', b :: s' => if N.eqb a b then strip p' s' else None
  | _ :: _, [] => None
  end.

Definition is_some {X} (o : option X) : bool := match o with Some _ => true | None => false end.

(* [kws] = the alternatives allowed after the colon *)
Definition match_after_hash (kws : list text) (s : text) : bool :=
  match strip PYREFACT (skip_spaces s) with
  | Some s1 =>
      match skip_spaces s1 with
      | c :: s2 => N.eqb c COLON && existsb (fun kw => is_some (strip kw (skip_spaces s2))) kws
      | [] => false
      end
  | None => false
  end.

(* pattern.search(s) *)
Fixpoint search (kws : list text) (s : text) : bool :=
  match s with
  | [] => false
  | c :: tl => (N.eqb c HASH && match_after_hash kws tl) || search kws tl
  end.

Definition ignore_line (l : text) : bool := search [SKIP_FILE; IGNORE] l.
Definition skip_search (src : text) : bool := search [SKIP_FILE] src.

(* ---- has_ignore_comment(source, rng) ---- *)
Fixpoint line_ranges (pos : Z) (ls : list text) : list (range * text) :=
  match ls with
  | [] => []
  | l :: tl => let e := (pos + Z.of_nat (length l))%Z in ((pos, e), l) :: line_ranges e tl
  end.

(* The tokenizer's verdict (core._ignore_comment_linenos, after repair 776bcb9): the zero-based numbers
   of the physical lines that carry a COMMENT token matching the regex; None when CPython's tokenize
   raises on the source (then every line whose text matches counts).  The tokenizer itself is not
   modelled: it is an input of the model, supplied by CPython in the correspondence. *)
Definition comment_ok (coms : option (list nat)) (i : nat) : bool :=
  match coms with None => true | Some cs => existsb (Nat.eqb i) cs end.

(* the lines that protect: (range, text) *)
Definition ignore_entries (src : text) (coms : option (list nat)) : list (range * text) :=
  let tbl := line_ranges 0 (split_lines src) in
  map snd (filter (fun e => ignore_line (snd (snd e)) && comment_ok coms (fst e))
                  (combine (seq 0 (length tbl)) tbl)).

(* does the rewrite range r touch the line [ls, le)?  A non-empty range: Range.overlaps.  An empty
   range (an insertion, after repair 8992e08): anywhere from the first column of the line up to its
   terminator; at the very end of an unterminated last line too. *)
Definition touches (r : range) (e : range * text) : bool :=
  let '(ls, le) := fst e in
  if (fst r =? snd r)%Z
  then ((ls <=? fst r) && (fst r <? le))%Z || ((fst r =? le)%Z && negb (terminated (snd e)))
  else overlaps r (ls, le).

Definition has_ignore (src : text) (coms : option (list nat)) (r : range) : bool :=
  existsb (touches r) (ignore_entries src coms).

(* ---- format_code's first statement: the file is handed back untouched ---- *)
Definition format_code_head (rest : text -> text) (src : text) : text :=
  if skip_search src then src else rest src.

(* ---- correspondence plumbing ---- *)
Fixpoint ntext_eqb (a b : text) : bool :=
  match a, b with
  | [], [] => true
  | x :: a', y :: b' => N.eqb x y && ntext_eqb a' b'
  | _, _ => false
  end.
Fixpoint lines_eqb (a b : list text) : bool :=
  match a, b with
  | [], [] => true
  | x :: a', y :: b' => ntext_eqb x y && lines_eqb a' b'
  | _, _ => false
  end.

(* (source, tokenizer verdict, expected core.split_lines, expected str.splitlines, expected per-line
    has_ignore_comment verdicts, expected skip verdict, list of (range, expected has_ignore_comment)) *)
Record ign_case := mkIgn {
  ic_src : text;
  ic_coms : option (list nat);
  ic_lines : list text;
  ic_strlines : list text;
  ic_line_verdicts : list bool;
  ic_skip : bool;
  ic_ranges : list (range * bool)
}.
Fixpoint bools_eq (a b : list bool) : bool :=
  match a, b with
  | [], [] => true
  | x :: a', y :: b' => Bool.eqb x y && bools_eq a' b'
  | _, _ => false
  end.
Definition line_verdicts (src : text) (coms : option (list nat)) : list bool :=
  let tbl := line_ranges 0 (split_lines src) in
  map (fun e => ignore_line (snd (snd e)) && comment_ok coms (fst e)) (combine (seq 0 (length tbl)) tbl).
Definition ign_case_ok (c : ign_case) : bool :=
  lines_eqb (split_lines (ic_src c)) (ic_lines c)
  && lines_eqb (str_splitlines (ic_src c)) (ic_strlines c)
  && bools_eq (line_verdicts (ic_src c) (ic_coms c)) (ic_line_verdicts c)
  && Bool.eqb (skip_search (ic_src c)) (ic_skip c)
  && forallb (fun p => Bool.eqb (has_ignore (ic_src c) (ic_coms c) (fst p)) (snd p)) (ic_ranges c).

(* ---- round 5: nodes.  The direct-editing back end (processing.remove_nodes, processing.alter_code) and the
   rules' own guards ask   has_ignore_comment(source, get_charnos(node, source))   about a NODE of the syntax
   tree.  A node occupies whole physical lines: from the line of its first decorator (core.get_charnos starts
   the range at that decorator's "@"; for a node without decorators: node.lineno) to node.end_lineno.  The
   recogniser works on character ranges; what a caller means is "one of the node's lines protects". *)

(* the numbered line table: (0-based physical line number, (character range, text)) *)
Definition numbered (src : text) : list (nat * (range * text)) :=
  let tbl := line_ranges 0 (split_lines src) in combine (seq 0 (length tbl)) tbl.

(* the line protects: its text matches the regex and the tokenizer confirms a comment on it *)
Definition protects (coms : option (list nat)) (e : nat * (range * text)) : bool :=
  ignore_line (snd (snd e)) && comment_ok coms (fst e).

(* the line-number reading: one of the physical lines first..last (0-based, inclusive) protects *)
Definition node_lines_ignore (src : text) (coms : option (list nat)) (first last : nat) : bool :=
  existsb (fun e => Nat.leb first (fst e) && Nat.leb (fst e) last && protects coms e) (numbered src).

(* the non-empty range r starts inside physical line [first] and ends inside (or at the end of) line [last] *)
Definition spans (src : text) (r : range) (first last : nat) : bool :=
  (fst r <? snd r)%Z
  && existsb (fun e => Nat.eqb (fst e) first
                       && (fst (fst (snd e)) <=? fst r)%Z && (fst r <? snd (fst (snd e)))%Z) (numbered src)
  && existsb (fun e => Nat.eqb (fst e) last
                       && (fst (fst (snd e)) <? snd r)%Z && (snd r <=? snd (fst (snd e)))%Z) (numbered src).

(* (source, tokenizer verdict, the range a real caller handed to has_ignore_comment for a node,
    the node's first physical line (first decorator, else lineno) and last physical line (end_lineno), both
    0-based and computed by the harness from CPython's ast, the verdict of the real has_ignore_comment) *)
Record node_case := mkNode {
  nc_src : text;
  nc_coms : option (list nat);
  nc_range : range;
  nc_first : nat;
  nc_last : nat;
  nc_verdict : bool
}.
Definition node_case_ok (c : node_case) : bool :=
  spans (nc_src c) (nc_range c) (nc_first c) (nc_last c)
  && Bool.eqb (has_ignore (nc_src c) (nc_coms c) (nc_range c)) (nc_verdict c)
  && Bool.eqb (node_lines_ignore (nc_src c) (nc_coms c) (nc_first c) (nc_last c)) (nc_verdict c).
