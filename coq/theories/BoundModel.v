(* K6 -- model of the BoolOp branch of symbolic_math.simplify_boolean_expressions
   (pyrefact/symbolic_math.py:265-607): opposite-expression test, pairwise bound table,
   redundant operand removal, constant operand folding.  Mirrors the code as it is. *)
From Coq Require Import List ZArith Bool.
Import ListNotations.
Open Scope Z_scope.

Inductive bop := BEq | BNe | BGt | BLt | BGe | BLe.

Definition bop_eqb (a b : bop) : bool :=
  match a, b with
  | BEq, BEq | BNe, BNe | BGt, BGt | BLt, BLt | BGe, BGe | BLe, BLe => true
  | _, _ => false
  end.

(* opposite_op_mapping: used when the literal is written on the left *)
Definition opposite (o : bop) : bop :=
  match o with BEq => BEq | BNe => BNe | BGt => BLt | BLt => BGt | BGe => BLe | BLe => BGe end.

(* An operand of a BoolOp.  [OCmp key op c flipped] is the text "key op c" (flipped = false) or
   "c op key" (flipped = true); [key] stands for the unparsed non-literal side. *)
(* a term of a chained comparison: the unparsed text [key] or an integer literal *)
Inductive cterm := TKey (k : nat) | TLit (c : Z).

Inductive operand :=
| OCmp (key : nat) (op : bop) (c : Z) (flipped : bool)
| OVar (id : nat)
| OConst (b : bool)
| ONot (o : operand)
| OBool (isand : bool) (vs : list operand)
(* [OChain t0 [(op1, t1); (op2, t2); ..]] is the text "t0 op1 t1 op2 t2 .." with two or more operators
   (the harness reads a comparison with ONE operator as [OCmp] / [OVar], never as a chain).  The rule's
   template for bounds (regular_compare_template, comparators=[object]) does not match it: to the
   bound analysis a chain is an opaque operand; _is_boolean_valued accepts every Compare. *)
| OChain (first : cterm) (links : list (bop * cterm)).

(* ---------------- reference semantics (truth value under a valuation) ---------------- *)
Definition cmp_sem (o : bop) (x c : Z) : bool :=
  match o with
  | BEq => x =? c | BNe => negb (x =? c) | BGt => x >? c | BLt => x <? c | BGe => x >=? c | BLe => x <=? c
  end.

(* a chained comparison is the CONJUNCTION of its links, evaluated left to right; every middle term
   is evaluated once ([r] is shared by the link it closes and the link it opens) *)
Definition term_val (rho : nat -> Z) (t : cterm) : Z := match t with TKey k => rho k | TLit c => c end.
Fixpoint chain_sem (rho : nat -> Z) (l : Z) (links : list (bop * cterm)) : bool :=
  match links with
  | [] => true
  | (op, t) :: tl => let r := term_val rho t in cmp_sem op l r && chain_sem rho r tl
  end.
Definition chain_eval (rho : nat -> Z) (t0 : cterm) (links : list (bop * cterm)) : bool :=
  chain_sem rho (term_val rho t0) links.

(* Python values of conditions: a bool or an integer *)
Inductive val := VB (b : bool) | VI (z : Z).
Definition truthy (v : val) : bool := match v with VB b => b | VI z => negb (z =? 0) end.
Definition val_eqb (a b : val) : bool :=
  match a, b with VB x, VB y => Bool.eqb x y | VI x, VI y => x =? y | _, _ => false end.

Fixpoint eval (rho : nat -> Z) (sigma : nat -> bool) (o : operand) : bool :=
  match o with
  | OCmp k op c fl => if fl then cmp_sem op c (rho k) else cmp_sem op (rho k) c
  | OVar i => sigma i
  | OConst b => b
  | ONot o' => negb (eval rho sigma o')
  | OBool isand vs =>
      (fix go (l : list operand) : bool :=
         match l with
         | [] => isand
         | v :: tl => if isand then eval rho sigma v && go tl else eval rho sigma v || go tl
         end) vs
  | OChain t0 ls => chain_eval rho t0 ls
  end.

Definition eval_list (rho : nat -> Z) (sigma : nat -> bool) (isand : bool) (vs : list operand) : bool :=
  eval rho sigma (OBool isand vs).

(* ---------------- structural equality (stands for equality of the unparsed text) ---------------- *)
Definition cterm_eqb (a b : cterm) : bool :=
  match a, b with TKey x, TKey y => Nat.eqb x y | TLit x, TLit y => x =? y | _, _ => false end.
Fixpoint links_eqb (a b : list (bop * cterm)) : bool :=
  match a, b with
  | [], [] => true
  | (o1, t1) :: a', (o2, t2) :: b' => bop_eqb o1 o2 && cterm_eqb t1 t2 && links_eqb a' b'
  | _, _ => false
  end.

Fixpoint operand_eqb (a b : operand) : bool :=
  match a, b with
  | OCmp k1 o1 c1 f1, OCmp k2 o2 c2 f2 => Nat.eqb k1 k2 && bop_eqb o1 o2 && (c1 =? c2) && Bool.eqb f1 f2
  | OVar i, OVar j => Nat.eqb i j
  | OConst x, OConst y => Bool.eqb x y
  | ONot x, ONot y => operand_eqb x y
  | OBool a1 v1, OBool a2 v2 =>
      Bool.eqb a1 a2 &&
      (fix go (l1 l2 : list operand) : bool :=
         match l1, l2 with
         | [], [] => true
         | x :: t1, y :: t2 => operand_eqb x y && go t1 t2
         | _, _ => false
         end) v1 v2
  | OChain t1 l1, OChain t2 l2 => cterm_eqb t1 t2 && links_eqb l1 l2
  | _, _ => false
  end.

(* ---------------- the analysis ---------------- *)
(* a constraint "key op c" found among the (transitively nested same-operator) operands;
   [didx] = Some i when it is the i-th DIRECT operand of the node *)
Record atom := mkAtom { a_key : nat; a_op : bop; a_c : Z; a_didx : option nat }.

Definition atom_of (didx : option nat) (o : operand) : list atom :=
  match o with
  | OCmp k op c fl => [mkAtom k (if fl then opposite op else op) c didx]
  | _ => []
  end.

(* constraint_values: node.values extended with the values of nested BoolOps of the same operator;
   listed in source order (the code sorts by (lineno, col_offset)) *)
Fixpoint nested_atoms (isand : bool) (o : operand) : list atom :=
  match o with
  | OBool a vs =>
      if Bool.eqb a isand then
        (fix go (l : list operand) : list atom :=
           match l with
           | [] => []
           | v :: tl => (atom_of None v ++ nested_atoms isand v) ++ go tl
           end) vs
      else []
  | _ => []
  end.

Fixpoint direct_atoms (isand : bool) (i : nat) (vs : list operand) : list atom :=
  match vs with
  | [] => []
  | v :: tl => (atom_of (Some i) v ++ nested_atoms isand v) ++ direct_atoms isand (S i) tl
  end.

(* verdict of one pair: flags and which of the two becomes redundant *)
Inductive rm := RmNone | RmFirst | RmSecond.
Record verdict := mkV { v_false : bool; v_true : bool; v_and : rm; v_or : rm }.
Definition vnone := mkV false false RmNone RmNone.

(* The table, oriented as in the code: the first argument is the operator class that the code's
   outer loop ranges over.  Each clause is one `if` of symbolic_math.py:366-533. *)
Definition table (o1 : bop) (c1 : Z) (o2 : bop) (c2 : Z) : verdict :=
  match o1, o2 with
  (* same operator, different thresholds *)
  | BEq, BEq => if negb (c1 =? c2) then mkV true false RmNone RmNone else vnone
  | BGt, BGt => if c1 >? c2 then mkV false false RmSecond RmFirst
                else if c1 <? c2 then mkV false false RmFirst RmSecond else vnone
  | BLt, BLt => if c1 <? c2 then mkV false false RmSecond RmFirst
                else if c1 >? c2 then mkV false false RmFirst RmSecond else vnone
  | BGe, BGe => if c1 >? c2 then mkV false false RmSecond RmFirst
                else if c1 <? c2 then mkV false false RmFirst RmSecond else vnone
  | BLe, BLe => if c1 <? c2 then mkV false false RmSecond RmFirst
                else if c1 >? c2 then mkV false false RmFirst RmSecond else vnone
  | BNe, BNe => vnone
  (* eq vs everything else *)
  | BEq, BNe => if c1 =? c2 then mkV true true RmNone RmNone else mkV false false RmSecond RmFirst
  | BEq, BGt => if c1 <=? c2 then mkV true false RmNone RmNone else mkV false false RmSecond RmFirst
  | BEq, BLt => if c1 >=? c2 then mkV true false RmNone RmNone else mkV false false RmSecond RmFirst
  | BEq, BGe => if c1 <? c2 then mkV true false RmNone RmNone else mkV false false RmSecond RmFirst
  | BEq, BLe => if c1 >? c2 then mkV true false RmNone RmNone else mkV false false RmSecond RmFirst
  (* neq vs bounds *)
  | BNe, BGt => if c1 <=? c2 then mkV false false RmFirst RmSecond else mkV false true RmNone RmNone
  | BNe, BLt => if c1 >=? c2 then mkV false false RmFirst RmSecond else mkV false true RmNone RmNone
  | BNe, BGe => if c1 <? c2 then mkV false false RmFirst RmSecond else mkV false true RmNone RmNone
  | BNe, BLe => if c1 >? c2 then mkV false false RmFirst RmSecond else mkV false true RmNone RmNone
  (* gt vs lt / lte / gte *)
  | BGt, BLt => if c1 >=? c2 then mkV true false RmNone RmNone else mkV false true RmNone RmNone
  | BGt, BLe => if c1 >=? c2 then mkV true false RmNone RmNone else mkV false true RmNone RmNone
  | BGt, BGe => if c1 >=? c2 then mkV false false RmSecond RmFirst else mkV false false RmFirst RmSecond
  (* gte vs lt / lte *)
  | BGe, BLt => if c1 >=? c2 then mkV true false RmNone RmNone else mkV false true RmNone RmNone
  | BGe, BLe => if c1 >? c2 then mkV true false RmNone RmNone else mkV false true RmNone RmNone
  (* lt vs lte *)
  | BLt, BLe => if c1 <=? c2 then mkV false false RmSecond RmFirst else mkV false false RmFirst RmSecond
  (* every other orientation is looked up the other way round by [oriented] *)
  | _, _ => vnone
  end.

(* does the code's loop nest visit the pair as (o1 outer, o2 inner)? *)
Definition class (o : bop) : nat :=
  match o with BEq => 0 | BNe => 1 | BGt => 2 | BGe => 3 | BLt => 4 | BLe => 5 end%nat.

Definition swap_rm (r : rm) : rm := match r with RmFirst => RmSecond | RmSecond => RmFirst | RmNone => RmNone end.

(* verdict for atoms a (earlier in the source) and b (later), same key *)
Definition pair_verdict (a b : atom) : verdict :=
  if bop_eqb (a_op a) (a_op b) then
    if a_c a =? a_c b then
      (* identical constraints: the later one is redundant if it is a direct operand, else the earlier *)
      match a_didx b with
      | Some _ => mkV false false RmSecond RmSecond
      | None => mkV false false RmFirst RmFirst
      end
    else table (a_op a) (a_c a) (a_op b) (a_c b)
  else if Nat.leb (class (a_op a)) (class (a_op b)) then table (a_op a) (a_c a) (a_op b) (a_c b)
  else let v := table (a_op b) (a_c b) (a_op a) (a_c a) in
       mkV (v_false v) (v_true v) (swap_rm (v_and v)) (swap_rm (v_or v)).

Record acc := mkAcc { always_false : bool; always_true : bool; red_and : list nat; red_or : list nat;
                      red_and_any : bool; red_or_any : bool }.
Definition acc0 := mkAcc false false [] [] false false.

Definition didx_list (a : atom) : list nat := match a_didx a with Some i => [i] | None => [] end.

Definition add_verdict (isand : bool) (a b : atom) (v : verdict) (s : acc) : acc :=
  let ra := match v_and v with RmFirst => Some a | RmSecond => Some b | RmNone => None end in
  let ro := match v_or v with RmFirst => Some a | RmSecond => Some b | RmNone => None end in
  mkAcc (always_false s || (v_false v && isand))
        (always_true s || (v_true v && negb isand))
        (match ra with Some x => didx_list x ++ red_and s | None => red_and s end)
        (match ro with Some x => didx_list x ++ red_or s | None => red_or s end)
        (red_and_any s || match ra with Some _ => true | None => false end)
        (red_or_any s || match ro with Some _ => true | None => false end).

Fixpoint scan_pairs (isand : bool) (a : atom) (rest : list atom) (s : acc) : acc :=
  match rest with
  | [] => s
  | b :: tl =>
      let s' := if Nat.eqb (a_key a) (a_key b) then add_verdict isand a b (pair_verdict a b) s else s in
      scan_pairs isand a tl s'
  end.

Fixpoint scan_all (isand : bool) (ats : list atom) (s : acc) : acc :=
  match ats with
  | [] => s
  | a :: tl => scan_all isand tl (scan_pairs isand a tl s)
  end.

(* the triple rule of symbolic_math.py:491-495:  x > c, x < c and x == c on the same key *)
Definition triple_rule (ats : list atom) : bool :=
  existsb (fun g => bop_eqb (a_op g) BGt &&
    existsb (fun l => bop_eqb (a_op l) BLt && Nat.eqb (a_key g) (a_key l) && (a_c g =? a_c l) &&
      existsb (fun e => bop_eqb (a_op e) BEq && Nat.eqb (a_key g) (a_key e) && (a_c g =? a_c e)) ats) ats) ats.

(* opposite expressions: some operand text occurs both plain and negated *)
Definition opposite_present (vs : list operand) : bool :=
  existsb (fun v => match v with
                    | ONot _ => false
                    | _ => existsb (fun w => match w with ONot w' => operand_eqb w' v | _ => false end) vs
                    end) vs.

Inductive result := RConst (b : bool) | RValues (vs : list operand) | RNone.

Fixpoint filter_idx (rm : list nat) (i : nat) (vs : list operand) : list operand :=
  match vs with
  | [] => []
  | v :: tl => if existsb (Nat.eqb i) rm then filter_idx rm (S i) tl else v :: filter_idx rm (S i) tl
  end.

Definition is_const (b : bool) (o : operand) : bool :=
  match o with OConst x => Bool.eqb x b | _ => false end.

Definition all_same (vs : list operand) : bool :=
  match vs with [] => false | v :: tl => forallb (operand_eqb v) tl end.

(* symbolic_math.py:561-607 *)
Definition const_section (isand : bool) (vs : list operand) : result :=
  if existsb (is_const (negb isand)) vs then RConst (negb isand)
  else
    let values := filter (fun v => negb (is_const isand v)) vs in
    match values with
    | [] => RConst isand
    | v :: _ =>
        if all_same values then RValues [v]
        else if Nat.ltb (length values) (length vs) then RValues values
        else RNone
    end.

Definition simplify (isand : bool) (vs : list operand) : result :=
  if opposite_present vs then RConst (negb isand)
  else
    let ats := direct_atoms isand 0 vs in
    let s0 := scan_all isand ats acc0 in
    let s := if triple_rule ats
             then mkAcc (always_false s0 || isand) (always_true s0 || negb isand)
                        (red_and s0) (red_or s0) (red_and_any s0) (red_or_any s0)
             else s0 in
    if always_false s then RConst false
    else if always_true s then RConst true
    else
      let any := if isand then red_and_any s else red_or_any s in
      let rmset := if isand then red_and s else red_or s in
      let values := filter_idx rmset 0 vs in
      if any && Nat.eqb (length values) 1 then RValues values
      else if any && negb (Nat.eqb (length values) (length vs)) then RValues values
      else const_section isand vs.

(* ---------------- value context (symbolic_math._is_boolean_valued / _truth_tested_nodes) ---------------- *)
(* the VALUE of an operand: `and` / `or` evaluate to the deciding operand, `not` and comparisons to
   a bool; [OVar i] is any other expression (a name, a call ...), whose value tau i is arbitrary *)
Fixpoint opval (rho : nat -> Z) (tau : nat -> val) (o : operand) : val :=
  match o with
  | OCmp k op c fl => VB (if fl then cmp_sem op c (rho k) else cmp_sem op (rho k) c)
  | OVar i => tau i
  | OConst b => VB b
  | ONot o' => VB (negb (truthy (opval rho tau o')))
  | OBool isand vs =>
      (fix go (l : list operand) : val :=
         match l with
         | [] => VB isand
         | v :: tl =>
             match tl with
             | [] => opval rho tau v
             | _ => let x := opval rho tau v in if Bool.eqb (truthy x) isand then go tl else x
             end
         end) vs
  | OChain t0 ls => VB (chain_eval rho t0 ls)
  end.

(* _is_boolean_valued: Compare, not, True/False, and/or of such *)
Fixpoint bool_valued (o : operand) : bool :=
  match o with
  | OCmp _ _ _ _ | OConst _ | ONot _ | OChain _ _ => true
  | OVar _ => false
  | OBool _ vs => (fix go (l : list operand) : bool :=
                     match l with [] => true | v :: tl => bool_valued v && go tl end) vs
  end.

(* the BoolOp loop of simplify_boolean_expressions after the value-context repair: a node is only
   rewritten when just its truth value is used ([truth_ctx]: it is a test, an operand of `not`, an
   unused expression statement, or an operand of such a BoolOp) or when it is boolean valued *)
Definition simplify_ctx (truth_ctx isand : bool) (vs : list operand) : result :=
  if truth_ctx || bool_valued (OBool isand vs) then simplify isand vs else RNone.

(* ---------------- correspondence plumbing ---------------- *)
Fixpoint operands_eqb (a b : list operand) : bool :=
  match a, b with
  | [], [] => true
  | x :: a', y :: b' => operand_eqb x y && operands_eqb a' b'
  | _, _ => false
  end.

Definition result_eqb (a b : result) : bool :=
  match a, b with
  | RConst x, RConst y => Bool.eqb x y
  | RValues x, RValues y => operands_eqb x y
  | RNone, RNone => true
  | _, _ => false
  end.

Record bound_case := mkBCase { bc_ctx : bool; bc_isand : bool; bc_values : list operand; bc_expected : result }.
Definition bound_case_ok (c : bound_case) : bool :=
  result_eqb (simplify_ctx (bc_ctx c) (bc_isand c) (bc_values c)) (bc_expected c).

(* validation of [opval] against CPython: x = rho 0, y = rho 1, p_i = tau i *)
Definition opval_case_ok (c : operand * list Z * list val * val) : bool :=
  let '(o, xs, ps, v) := c in
  val_eqb (opval (fun k => nth k xs 0) (fun i => nth i ps (VI 0)) o) v.
