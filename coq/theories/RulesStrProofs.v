(* C02, tranche "str": proofs about RulesStrModel.v *)
From Coq Require Import List NArith Bool Ascii Arith Lia.
Require Import Pyrefact.RulesStrModel.
Import ListNotations.

(* ================================================================================================ *)
(** * 1. escape decoding *)

Lemma list_ind2 {A} (P : list A -> Prop) :
  P [] -> (forall a, P [a]) -> (forall a b l, P l -> P (b :: l) -> P (a :: b :: l)) -> forall l, P l.
Proof.
  intros H0 H1 H2 l.
  assert (H : P l /\ forall a, P (a :: l)).
  { induction l as [|b l [IH1 IH2]].
    - split; [exact H0 | exact H1].
    - split; [apply IH2 | intro a; apply H2; [exact IH1 | apply IH2]]. }
  exact (proj1 H).
Qed.

Lemma se_list_eqb_eq : forall a b, se_list_eqb a b = true -> a = b.
Proof.
  induction a as [|x a IH]; destruct b as [|y b]; cbn; intros H; try discriminate; auto.
  apply andb_prop in H. destruct H as [H1 H2]. apply N.eqb_eq in H1. f_equal; auto.
Qed.

Lemma se_valid_false : forall bytes e, se_valid_char bytes e = false ->
  se_simple e = None /\ se_is 10 e = false /\ se_is_oct e = false /\ se_is 120 e = false /\
  (negb bytes && se_is 117 e = false) /\ (negb bytes && se_is 85 e = false) /\ (negb bytes && se_is 78 e = false).
Proof.
  intros bytes e H. unfold se_valid_char in H.
  destruct (se_simple e); [discriminate|].
  destruct (se_is 10 e), (se_is_oct e), (se_is 120 e); cbn in H; try discriminate.
  destruct bytes; cbn in *; [repeat split; reflexivity|].
  destruct (se_is 78 e), (se_is 117 e), (se_is 85 e); cbn in H; try discriminate.
  repeat split; reflexivity.
Qed.

(* no valid escape sequence: the cooked and the raw reading of the body coincide *)
Theorem se_all_invalid_same : forall uname bytes s,
  se_all_invalid bytes s = true -> se_cooked uname bytes s = se_raw bytes s.
Proof.
  intros uname bytes. apply (list_ind2 (fun s => se_all_invalid bytes s = true -> se_cooked uname bytes s = se_raw bytes s)).
  - reflexivity.
  - intros a _. cbn. destruct (se_is_bs a); reflexivity.
  - intros a b l IH1 IH2 H.
    destruct (se_is_bs a) eqn:Ha;
      [ cbn [se_all_invalid] in H; rewrite Ha in H; cbn [se_cooked se_raw]; rewrite Ha
      | remember (b :: l) as bl; cbn [se_all_invalid] in H; rewrite Ha in H; cbn [se_cooked se_raw]; rewrite Ha].
    + apply andb_prop in H. destruct H as [Hv Hl]. apply negb_true_iff in Hv.
      destruct (se_valid_false _ _ Hv) as (E1 & E2 & E3 & E4 & E5 & E6 & E7).
      rewrite E1, E2, E3, E4, E5, E6, E7. rewrite (IH1 Hl). reflexivity.
    + rewrite (IH2 H). reflexivity.
Qed.

Theorem decode_all_invalid_same : forall uname bytes s,
  se_all_invalid bytes s = true -> decode uname true bytes s = decode uname false bytes s.
Proof. intros. unfold decode. symmetry. apply se_all_invalid_same. assumption. Qed.

(* the rule as it is after 9b544c4: whenever it fires, the raw literal denotes the same string *)
Theorem ies_sound : forall uname body,
  ies_fires uname body = true ->
  exists v, decode uname false false body = Some v /\ decode uname true false body = Some v.
Proof.
  intros uname body H. unfold ies_fires in H. apply andb_prop in H. destruct H as [_ H].
  destruct (decode uname true false body) as [a|]; [|discriminate].
  destruct (decode uname false false body) as [b|]; [|discriminate].
  apply se_list_eqb_eq in H. subst. exists b. split; reflexivity.
Qed.

Lemma se_list_eqb_refl : forall a, se_list_eqb a a = true.
Proof. induction a; cbn; auto. rewrite N.eqb_refl. exact IHa. Qed.

(* the syntactic criterion implies that the rule fires (on a body that is a literal at all) *)
Theorem ies_fires_when_all_invalid : forall uname body v,
  se_has_bs body = true -> se_all_invalid false body = true -> decode uname false false body = Some v ->
  ies_fires uname body = true.
Proof.
  intros uname body v Hb Hi Hd. unfold ies_fires. rewrite Hb.
  rewrite (decode_all_invalid_same uname false body Hi), Hd. cbn. apply se_list_eqb_refl.
Qed.

(* ---- the converse, by counting: a raw reading keeps every character, a valid escape shrinks *)
Lemma se_ocons_len : forall n o v, se_ocons n o = Some v -> exists w, o = Some w /\ v = n :: w.
Proof. intros n [w|] v H; cbn in H; inversion H. eauto. Qed.

Lemma se_raw_len : forall bytes s v, se_raw bytes s = Some v -> length v = length s.
Proof.
  intros bytes.
  apply (list_ind2 (fun s => forall v, se_raw bytes s = Some v -> length v = length s)).
  - intros v H. inversion H. reflexivity.
  - intros a v H. cbn in H. destruct (se_is_bs a); [discriminate|].
    destruct (se_plain bytes a); inversion H. reflexivity.
  - intros a b l IH1 IH2 v H.
    destruct (se_is_bs a) eqn:Ha; [cbn [se_raw] in H; rewrite Ha in H
                                  | remember (b :: l) as bl; cbn [se_raw] in H; rewrite Ha in H].
    + destruct (se_plain bytes b); [|discriminate].
      apply se_ocons_len in H. destruct H as (w & H & ->).
      apply se_ocons_len in H. destruct H as (w' & H & ->).
      cbn. rewrite (IH1 _ H). reflexivity.
    + destruct (se_plain bytes a); [|discriminate].
      apply se_ocons_len in H. destruct H as (w & H & ->). cbn [length]. rewrite (IH2 _ H). reflexivity.
Qed.

(* strong induction on the length, for the branches of se_cooked that look further ahead *)
Lemma se_nscan_len : forall uname (k : list ascii -> option (list N)) t acc v,
  (forall t' w, length t' < length t -> k t' = Some w -> length w <= length t') ->
  se_nscan uname k acc t = Some v -> length v <= length t.
Proof.
  intros uname k. induction t as [|d t IH]; intros acc v Hk H; cbn in H; [discriminate|].
  destruct (se_is 125 d).
  - destruct (uname (rev acc)); [|discriminate].
    apply se_ocons_len in H. destruct H as (w & H & ->).
    apply Hk in H; cbn; lia.
  - apply IH in H; [cbn; lia|]. intros t' w Hl. apply Hk. cbn. lia.
Qed.

Lemma se_cooked_N : forall uname bytes b r2,
  (fix go (acc : list ascii) (t : list ascii) {struct t} : option (list N) :=
     match t with
     | [] => None
     | d :: t' => if se_is 125 d
                  then match uname (rev acc) with
                       | Some n => se_ocons n (se_cooked uname bytes t')
                       | None => None
                       end
                  else go (d :: acc) t'
     end) b r2 = se_nscan uname (se_cooked uname bytes) b r2.
Proof. reflexivity. Qed.

Lemma se_cooked_len_aux : forall uname bytes n s v,
  length s <= n -> se_cooked uname bytes s = Some v ->
  length v <= length s /\ (se_all_invalid bytes s = false -> length v < length s).
Proof.
  intros uname bytes. induction n as [|n IH]; intros s v Hn H.
  - destruct s; [|cbn in Hn; lia]. inversion H. cbn. split; [lia|discriminate].
  - destruct s as [|c r]; [inversion H; cbn; split; [lia|discriminate]|].
    cbn [se_cooked] in H. cbn [se_all_invalid].
    assert (REC : forall t w, length t <= n -> se_cooked uname bytes t = Some w ->
                              length w <= length t /\ (se_all_invalid bytes t = false -> length w < length t))
      by (intros; eapply IH; eauto).
    destruct (se_is_bs c) eqn:Hc.
    + destruct r as [|e r1]; [discriminate|]. cbn in Hn.
      unfold se_valid_char.
      destruct (se_simple e) eqn:Es.
      { apply se_ocons_len in H. destruct H as (w & H & ->). apply REC in H; [|lia]. cbn. split; intros; lia. }
      destruct (se_is 10 e) eqn:E10.
      { apply REC in H; [|lia]. cbn. split; intros; lia. }
      destruct (se_is_oct e) eqn:Eo.
      { destruct r1 as [|e2 r2].
        - apply se_ocons_len in H. destruct H as (w & H & ->). inversion H. cbn. split; intros; lia.
        - destruct (se_is_oct e2).
          + destruct r2 as [|e3 r3].
            * apply se_ocons_len in H. destruct H as (w & H & ->). inversion H. cbn. split; intros; lia.
            * destruct (se_is_oct e3); apply se_ocons_len in H; destruct H as (w & H & ->);
                (apply REC in H; [|cbn in *; lia]); cbn in *; split; intros; lia.
          + apply se_ocons_len in H. destruct H as (w & H & ->). apply REC in H; [|cbn in *; lia].
            cbn in *. split; intros; lia. }
      destruct (se_is 120 e) eqn:Ex.
      { destruct r1 as [|h1 [|h2 r3]]; try discriminate.
        destruct (se_hex 2 0 [h1; h2]); [|discriminate].
        apply se_ocons_len in H. destruct H as (w & H & ->). apply REC in H; [|cbn in *; lia].
        cbn in *. split; intros; lia. }
      destruct (negb bytes && se_is 117 e) eqn:Eu.
      { destruct r1 as [|h1 [|h2 [|h3 [|h4 r5]]]]; try discriminate.
        destruct (se_hex 4 0 [h1; h2; h3; h4]); [|discriminate].
        apply se_ocons_len in H. destruct H as (w & H & ->). apply REC in H; [|cbn in *; lia].
        cbn in *. split; intros; lia. }
      destruct (negb bytes && se_is 85 e) eqn:EU.
      { destruct r1 as [|h1 [|h2 [|h3 [|h4 [|h5 [|h6 [|h7 [|h8 r9]]]]]]]]; try discriminate.
        destruct (se_hex 8 0 [h1; h2; h3; h4; h5; h6; h7; h8]) as [hv|]; [|discriminate].
        destruct (N.leb hv 1114111); [|discriminate].
        apply se_ocons_len in H. destruct H as (w & H & ->). apply REC in H; [|cbn in *; lia].
        cbn in *. split; intros; lia. }
      destruct (negb bytes && se_is 78 e) eqn:EN.
      { destruct r1 as [|b r2]; [discriminate|].
        destruct (se_is 123 b); [|discriminate].
        rewrite se_cooked_N in H.
        apply se_nscan_len in H.
        - cbn in *. split; intros; lia.

        - intros t' w Hl Hw. apply REC in Hw; [lia|]. cbn in *. lia. }
      destruct (se_plain bytes e); [|discriminate].
      apply se_ocons_len in H. destruct H as (w & H & ->).
      apply se_ocons_len in H. destruct H as (w' & H & ->).
      apply REC in H; [|lia].
      assert (Ev : (negb bytes && (se_is 78 e || se_is 117 e || se_is 85 e)) = false).
      { destruct bytes; [reflexivity|]. cbn in *. rewrite Eu, EU, EN. reflexivity. }
      rewrite Ev. cbn [negb andb orb]. cbn in *. split; [lia|]. intros Hi. apply (proj2 H) in Hi. lia.
    + destruct (se_plain bytes c); [|discriminate].
      apply se_ocons_len in H. destruct H as (w & H & ->). cbn in Hn.
      apply REC in H; [|lia]. cbn. split; [lia|]. intros Hi. apply (proj2 H) in Hi. lia.
Qed.

(* the raw and the cooked reading agree ONLY IF the body contains no valid escape sequence *)
Theorem decode_same_only_if_all_invalid : forall uname bytes s v,
  decode uname false bytes s = Some v -> decode uname true bytes s = Some v -> se_all_invalid bytes s = true.
Proof.
  intros uname bytes s v Hc Hr. unfold decode in *.
  destruct (se_all_invalid bytes s) eqn:E; [reflexivity|].
  apply se_raw_len in Hr.
  destruct (se_cooked_len_aux uname bytes (length s) s v (le_n _) Hc) as [_ H]. apply H in E. lia.
Qed.

(* characterisation of the repaired rule: it fires exactly on literals with a backslash and no valid escape *)
Theorem ies_fires_iff : forall uname body v,
  decode uname false false body = Some v ->
  (ies_fires uname body = true <-> se_has_bs body = true /\ se_all_invalid false body = true).
Proof.
  intros uname body v Hd. split.
  - intros H. split.
    + unfold ies_fires in H. apply andb_prop in H. tauto.
    + destruct (ies_sound _ _ H) as (w & H1 & H2). eapply decode_same_only_if_all_invalid; eauto.
  - intros [H1 H2]. eapply ies_fires_when_all_invalid; eauto.
Qed.

(* implicit concatenation: r goes in front of the first piece only; equal concatenations = equal first pieces *)
Theorem ies_concat_sound : forall uname first rest,
  ies_fires_concat uname first rest = true ->
  exists v, decode uname false false first = Some v /\ decode uname true false first = Some v.
Proof.
  intros uname first rest H. unfold ies_fires_concat in H. apply andb_prop in H. destruct H as [_ H].
  cbn [se_concat] in H.
  destruct (decode uname true false first) as [a|]; [|discriminate].
  destruct (se_concat uname rest) as [y|]; [|discriminate].
  destruct (decode uname false false first) as [b|]; [|discriminate].
  apply se_list_eqb_eq in H. apply app_inv_tail in H. subst. eauto.
Qed.

(* ---- the rule before 9b544c4 *)
Definition se_witness_old : list ascii := map ascii_of_N [92; 100; 92; 120; 52; 49]%N.   (* \d\x41 *)

Theorem ies_old_refuted : forall uname, exists body,
  ies_old_fires body = true /\ decode uname false false body <> decode uname true false body.
Proof. intros uname. exists se_witness_old. split; [reflexivity|]. vm_compute. discriminate. Qed.

Definition se_codes2 : list N :=
  [92; 39; 34; 97; 98; 102; 110; 114; 116; 118; 78; 117; 85; 120; 48; 49; 50; 51; 52; 53; 54; 55; 10]%N.

Lemma se_valid_listed : forall b, se_valid_char false b = true ->
  existsb (fun k => N.eqb k (se_code b)) se_codes2 = true.
Proof.
  intros [[] [] [] [] [] [] [] []] H; vm_compute in H; try discriminate H; vm_compute; reflexivity.
Qed.

Lemma se_codes2_pats : forall k, In k se_codes2 -> In (se_pat [k]) (se_old_list ++ se_missing_list).
Proof.
  intros k H. unfold se_codes2 in H. cbn [In] in H.
  repeat (destruct H as [<- | H]; [vm_compute; repeat (first [left; reflexivity | right]) |]).
  contradiction.
Qed.

Lemma se_codes2_small : forall k, In k se_codes2 -> se_code (ascii_of_N k) = k.
Proof.
  intros k H. unfold se_codes2 in H. cbn [In] in H.
  repeat (destruct H as [<- | H]; [reflexivity |]). contradiction.
Qed.

Lemma se_none_of_tail : forall pats c s, se_none_of pats (c :: s) = true -> se_none_of pats s = true.
Proof.
  intros pats c s H. unfold se_none_of in *. rewrite forallb_forall in *. intros p Hp.
  specialize (H p Hp). cbn [se_substr] in H. rewrite negb_orb in H. apply andb_prop in H. tauto.
Qed.

Lemma se_none_of_all_invalid : forall s,
  se_none_of (se_old_list ++ se_missing_list) s = true -> se_all_invalid false s = true.
Proof.
  apply (list_ind2 (fun s => se_none_of (se_old_list ++ se_missing_list) s = true -> se_all_invalid false s = true)).
  - reflexivity.
  - intros a _. cbn. destruct (se_is_bs a); reflexivity.
  - intros a b l IH1 IH2 H. cbn [se_all_invalid].
    destruct (se_is_bs a) eqn:Ha.
    + rewrite IH1 by (eapply se_none_of_tail, se_none_of_tail, H). rewrite andb_true_r.
      apply negb_true_iff. destruct (se_valid_char false b) eqn:Ev; [|reflexivity].
      apply se_valid_listed in Ev. apply existsb_exists in Ev. destruct Ev as (k & Hk & Ek).
      apply N.eqb_eq in Ek.
      unfold se_none_of in H. rewrite forallb_forall in H.
      specialize (H _ (se_codes2_pats k Hk)). cbn [se_substr se_pat map se_prefix] in H.
      unfold se_is_bs, se_is in Ha. apply N.eqb_eq in Ha.
      rewrite (se_codes2_small k Hk), Ha, Ek in H.
      replace (se_code se_bs) with 92%N in H by reflexivity.
      rewrite !N.eqb_refl in H. cbn in H. discriminate.
    + apply IH2. eapply se_none_of_tail, H.
Qed.

Lemma se_none_of_app : forall p q s, se_none_of p s = true -> se_none_of q s = true -> se_none_of (p ++ q) s = true.
Proof. intros. unfold se_none_of in *. rewrite forallb_app. rewrite H, H0. reflexivity. Qed.

(* the old guard was right on literals without \x, octal digits and backslash-newline *)
Theorem ies_old_partial : forall uname body,
  ies_old_fires body = true -> se_none_of se_missing_list body = true ->
  decode uname true false body = decode uname false false body.
Proof.
  intros uname body H Hm. unfold ies_old_fires in H. apply andb_prop in H. destruct H as [_ H].
  apply decode_all_invalid_same, se_none_of_all_invalid, se_none_of_app; assumption.
Qed.

Example ies_old_partial_example :
  let body := map ascii_of_N [97; 92; 100; 92; 46]%N in     (* a\d\. *)
  ies_old_fires body = true /\ se_none_of se_missing_list body = true /\ ies_fires (fun _ => None) body = true.
Proof. vm_compute. repeat split. Qed.

(* bytes literals: \u and \N are not escapes there; in a str literal they are *)
Example se_bytes_u_example :
  let body := map ascii_of_N [92; 117; 48; 48; 52; 49]%N in   (* A *)
  se_all_invalid true body = true /\ se_all_invalid false body = false /\
  decode (fun _ => None) false false body = Some [65%N] /\
  decode (fun _ => None) false true body = decode (fun _ => None) true true body.
Proof. vm_compute. repeat split. Qed.
