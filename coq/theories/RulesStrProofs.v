(* C02, tranche "str": proofs about RulesStrModel.v *)
From Coq Require Import List NArith Bool Ascii Arith Lia.
Require Import Pyrefact.RulesStrModel.
Import ListNotations.

(* ================================================================================================ *)
(** * 1. escape decoding *)

Lemma list_ind2 {A} (P : list A -> Prop) :
  P [] -> (forall a, P [a]) -> (forall a b l, P l -> P (b :: l) -> P (a :: b :: l)) -> forall l, P l.
Proof.
  intros H0 H1 H2 l.
  assert (H : P l /\ forall a, P (a :: l)).
  { induction l as [|b l [IH1 IH2]].
    - split; [exact H0 | exact H1].
    - split; [apply IH2 | intro a; apply H2; [exact IH1 | apply IH2]]. }
  exact (proj1 H).
Qed.

Lemma se_list_eqb_eq : forall a b, se_list_eqb a b = true -> a = b.
Proof.
  induction a as [|x a IH]; destruct b as [|y b]; cbn; intros H; try discriminate; auto.
  apply andb_prop in H. destruct H as [H1 H2]. apply N.eqb_eq in H1. f_equal; auto.
Qed.

Lemma se_valid_false : forall bytes e, se_valid_char bytes e = false ->
  se_simple e = None /\ se_is 10 e = false /\ se_is_oct e = false /\ se_is 120 e = false /\
  (negb bytes && se_is 117 e = false) /\ (negb bytes && se_is 85 e = false) /\ (negb bytes && se_is 78 e = false).
Proof.
  intros bytes e H. unfold se_valid_char in H.
  destruct (se_simple e); [discriminate|].
  destruct (se_is 10 e), (se_is_oct e), (se_is 120 e); cbn in H; try discriminate.
  destruct bytes; cbn in *; [repeat split; reflexivity|].
  destruct (se_is 78 e), (se_is 117 e), (se_is 85 e); cbn in H; try discriminate.
  repeat split; reflexivity.
Qed.

(* no valid escape sequence: the cooked and the raw reading of the body coincide *)
Theorem se_all_invalid_same : forall uname bytes s,
  se_all_invalid bytes s = true -> se_cooked uname bytes s = se_raw bytes s.
Proof.
  intros uname bytes. apply (list_ind2 (fun s => se_all_invalid bytes s = true -> se_cooked uname bytes s = se_raw bytes s)).
  - reflexivity.
  - intros a _. cbn. destruct (se_is_bs a); reflexivity.
  - intros a b l IH1 IH2 H.
    destruct (se_is_bs a) eqn:Ha;
      [ cbn [se_all_invalid] in H; rewrite Ha in H; cbn [se_cooked se_raw]; rewrite Ha
      | remember (b :: l) as bl; cbn [se_all_invalid] in H; rewrite Ha in H; cbn [se_cooked se_raw]; rewrite Ha].
    + apply andb_prop in H. destruct H as [Hv Hl]. apply negb_true_iff in Hv.
      destruct (se_valid_false _ _ Hv) as (E1 & E2 & E3 & E4 & E5 & E6 & E7).
      rewrite E1, E2, E3, E4, E5, E6, E7. rewrite (IH1 Hl). reflexivity.
    + rewrite (IH2 H). reflexivity.
Qed.

Theorem decode_all_invalid_same : forall uname bytes s,
  se_all_invalid bytes s = true -> decode uname true bytes s = decode uname false bytes s.
Proof. intros. unfold decode. symmetry. apply se_all_invalid_same. assumption. Qed.

(* the rule as it is after 9b544c4: whenever it fires, the raw literal denotes the same string *)
Theorem ies_sound : forall uname body,
  ies_fires uname body = true ->
  exists v, decode uname false false body = Some v /\ decode uname true false body = Some v.
Proof.
  intros uname body H. unfold ies_fires in H. apply andb_prop in H. destruct H as [_ H].
  destruct (decode uname true false body) as [a|]; [|discriminate].
  destruct (decode uname false false body) as [b|]; [|discriminate].
  apply se_list_eqb_eq in H. subst. exists b. split; reflexivity.
Qed.

Lemma se_list_eqb_refl : forall a, se_list_eqb a a = true.
Proof. induction a; cbn; auto. rewrite N.eqb_refl. exact IHa. Qed.

(* the syntactic criterion implies that the rule fires (on a body that is a literal at all) *)
Theorem ies_fires_when_all_invalid : forall uname body v,
  se_has_bs body = true -> se_all_invalid false body = true -> decode uname false false body = Some v ->
  ies_fires uname body = true.
Proof.
  intros uname body v Hb Hi Hd. unfold ies_fires. rewrite Hb.
  rewrite (decode_all_invalid_same uname false body Hi), Hd. cbn. apply se_list_eqb_refl.
Qed.

(* ---- the converse, by counting: a raw reading keeps every character, a valid escape shrinks *)
Lemma se_ocons_len : forall n o v, se_ocons n o = Some v -> exists w, o = Some w /\ v = n :: w.
Proof. intros n [w|] v H; cbn in H; inversion H. eauto. Qed.

Lemma se_raw_len : forall bytes s v, se_raw bytes s = Some v -> length v = length s.
Proof.
  intros bytes.
  apply (list_ind2 (fun s => forall v, se_raw bytes s = Some v -> length v = length s)).
  - intros v H. inversion H. reflexivity.
  - intros a v H. cbn in H. destruct (se_is_bs a); [discriminate|].
    destruct (se_plain bytes a); inversion H. reflexivity.
  - intros a b l IH1 IH2 v H.
    destruct (se_is_bs a) eqn:Ha; [cbn [se_raw] in H; rewrite Ha in H
                                  | remember (b :: l) as bl; cbn [se_raw] in H; rewrite Ha in H].
    + destruct (se_plain bytes b); [|discriminate].
      apply se_ocons_len in H. destruct H as (w & H & ->).
      apply se_ocons_len in H. destruct H as (w' & H & ->).
      cbn. rewrite (IH1 _ H). reflexivity.
    + destruct (se_plain bytes a); [|discriminate].
      apply se_ocons_len in H. destruct H as (w & H & ->). cbn [length]. rewrite (IH2 _ H). reflexivity.
Qed.

(* strong induction on the length, for the branches of se_cooked that look further ahead *)
Lemma se_nscan_len : forall uname (k : list ascii -> option (list N)) t acc v,
  (forall t' w, length t' < length t -> k t' = Some w -> length w <= length t') ->
  se_nscan uname k acc t = Some v -> length v <= length t.
Proof.
  intros uname k. induction t as [|d t IH]; intros acc v Hk H; cbn in H; [discriminate|].
  destruct (se_is 125 d).
  - destruct (uname (rev acc)); [|discriminate].
    apply se_ocons_len in H. destruct H as (w & H & ->).
    apply Hk in H; cbn; lia.
  - apply IH in H; [cbn; lia|]. intros t' w Hl. apply Hk. cbn. lia.
Qed.

Lemma se_cooked_N : forall uname bytes b r2,
  (fix go (acc : list ascii) (t : list ascii) {struct t} : option (list N) :=
     match t with
     | [] => None
     | d :: t' => if se_is 125 d
                  then match uname (rev acc) with
                       | Some n => se_ocons n (se_cooked uname bytes t')
                       | None => None
                       end
                  else go (d :: acc) t'
     end) b r2 = se_nscan uname (se_cooked uname bytes) b r2.
Proof. reflexivity. Qed.

Lemma se_cooked_len_aux : forall uname bytes n s v,
  length s <= n -> se_cooked uname bytes s = Some v ->
  length v <= length s /\ (se_all_invalid bytes s = false -> length v < length s).
Proof.
  intros uname bytes. induction n as [|n IH]; intros s v Hn H.
  - destruct s; [|cbn in Hn; lia]. inversion H. cbn. split; [lia|discriminate].
  - destruct s as [|c r]; [inversion H; cbn; split; [lia|discriminate]|].
    cbn [se_cooked] in H. cbn [se_all_invalid].
    assert (REC : forall t w, length t <= n -> se_cooked uname bytes t = Some w ->
                              length w <= length t /\ (se_all_invalid bytes t = false -> length w < length t))
      by (intros; eapply IH; eauto).
    destruct (se_is_bs c) eqn:Hc.
    + destruct r as [|e r1]; [discriminate|]. cbn in Hn.
      unfold se_valid_char.
      destruct (se_simple e) eqn:Es.
      { apply se_ocons_len in H. destruct H as (w & H & ->). apply REC in H; [|lia]. cbn. split; intros; lia. }
      destruct (se_is 10 e) eqn:E10.
      { apply REC in H; [|lia]. cbn. split; intros; lia. }
      destruct (se_is_oct e) eqn:Eo.
      { destruct r1 as [|e2 r2].
        - apply se_ocons_len in H. destruct H as (w & H & ->). inversion H. cbn. split; intros; lia.
        - destruct (se_is_oct e2).
          + destruct r2 as [|e3 r3].
            * apply se_ocons_len in H. destruct H as (w & H & ->). inversion H. cbn. split; intros; lia.
            * destruct (se_is_oct e3); apply se_ocons_len in H; destruct H as (w & H & ->);
                (apply REC in H; [|cbn in *; lia]); cbn in *; split; intros; lia.
          + apply se_ocons_len in H. destruct H as (w & H & ->). apply REC in H; [|cbn in *; lia].
            cbn in *. split; intros; lia. }
      destruct (se_is 120 e) eqn:Ex.
      { destruct r1 as [|h1 [|h2 r3]]; try discriminate.
        destruct (se_hex 2 0 [h1; h2]); [|discriminate].
        apply se_ocons_len in H. destruct H as (w & H & ->). apply REC in H; [|cbn in *; lia].
        cbn in *. split; intros; lia. }
      destruct (negb bytes && se_is 117 e) eqn:Eu.
      { destruct r1 as [|h1 [|h2 [|h3 [|h4 r5]]]]; try discriminate.
        destruct (se_hex 4 0 [h1; h2; h3; h4]); [|discriminate].
        apply se_ocons_len in H. destruct H as (w & H & ->). apply REC in H; [|cbn in *; lia].
        cbn in *. split; intros; lia. }
      destruct (negb bytes && se_is 85 e) eqn:EU.
      { destruct r1 as [|h1 [|h2 [|h3 [|h4 [|h5 [|h6 [|h7 [|h8 r9]]]]]]]]; try discriminate.
        destruct (se_hex 8 0 [h1; h2; h3; h4; h5; h6; h7; h8]) as [hv|]; [|discriminate].
        destruct (N.leb hv 1114111); [|discriminate].
        apply se_ocons_len in H. destruct H as (w & H & ->). apply REC in H; [|cbn in *; lia].
        cbn in *. split; intros; lia. }
      destruct (negb bytes && se_is 78 e) eqn:EN.
      { destruct r1 as [|b r2]; [discriminate|].
        destruct (se_is 123 b); [|discriminate].
        rewrite se_cooked_N in H.
        apply se_nscan_len in H.
        - cbn in *. split; intros; lia.

        - intros t' w Hl Hw. apply REC in Hw; [lia|]. cbn in *. lia. }
      destruct (se_plain bytes e); [|discriminate].
      apply se_ocons_len in H. destruct H as (w & H & ->).
      apply se_ocons_len in H. destruct H as (w' & H & ->).
      apply REC in H; [|lia].
      assert (Ev : (negb bytes && (se_is 78 e || se_is 117 e || se_is 85 e)) = false).
      { destruct bytes; [reflexivity|]. cbn in *. rewrite Eu, EU, EN. reflexivity. }
      rewrite Ev. cbn [negb andb orb]. cbn in *. split; [lia|]. intros Hi. apply (proj2 H) in Hi. lia.
    + destruct (se_plain bytes c); [|discriminate].
      apply se_ocons_len in H. destruct H as (w & H & ->). cbn in Hn.
      apply REC in H; [|lia]. cbn. split; [lia|]. intros Hi. apply (proj2 H) in Hi. lia.
Qed.

(* the raw and the cooked reading agree ONLY IF the body contains no valid escape sequence *)
Theorem decode_same_only_if_all_invalid : forall uname bytes s v,
  decode uname false bytes s = Some v -> decode uname true bytes s = Some v -> se_all_invalid bytes s = true.
Proof.
  intros uname bytes s v Hc Hr. unfold decode in *.
  destruct (se_all_invalid bytes s) eqn:E; [reflexivity|].
  apply se_raw_len in Hr.
  destruct (se_cooked_len_aux uname bytes (length s) s v (le_n _) Hc) as [_ H]. apply H in E. lia.
Qed.

(* characterisation of the repaired rule: it fires exactly on literals with a backslash and no valid escape *)
Theorem ies_fires_iff : forall uname body v,
  decode uname false false body = Some v ->
  (ies_fires uname body = true <-> se_has_bs body = true /\ se_all_invalid false body = true).
Proof.
  intros uname body v Hd. split.
  - intros H. split.
    + unfold ies_fires in H. apply andb_prop in H. tauto.
    + destruct (ies_sound _ _ H) as (w & H1 & H2). eapply decode_same_only_if_all_invalid; eauto.
  - intros [H1 H2]. eapply ies_fires_when_all_invalid; eauto.
Qed.

(* implicit concatenation: r goes in front of the first piece only; equal concatenations = equal first pieces *)
Theorem ies_concat_sound : forall uname first rest,
  ies_fires_concat uname first rest = true ->
  exists v, decode uname false false first = Some v /\ decode uname true false first = Some v.
Proof.
  intros uname first rest H. unfold ies_fires_concat in H. apply andb_prop in H. destruct H as [_ H].
  cbn [se_concat] in H.
  destruct (decode uname true false first) as [a|]; [|discriminate].
  destruct (se_concat uname rest) as [y|]; [|discriminate].
  destruct (decode uname false false first) as [b|]; [|discriminate].
  apply se_list_eqb_eq in H. apply app_inv_tail in H. subst. eauto.
Qed.

(* ---- the rule before 9b544c4 *)
Definition se_witness_old : list ascii := map ascii_of_N [92; 100; 92; 120; 52; 49]%N.   (* \d\x41 *)

Theorem ies_old_refuted : forall uname, exists body,
  ies_old_fires body = true /\ decode uname false false body <> decode uname true false body.
Proof. intros uname. exists se_witness_old. split; [reflexivity|]. vm_compute. discriminate. Qed.

Definition se_codes2 : list N :=
  [92; 39; 34; 97; 98; 102; 110; 114; 116; 118; 78; 117; 85; 120; 48; 49; 50; 51; 52; 53; 54; 55; 10]%N.

Lemma se_valid_listed : forall b, se_valid_char false b = true ->
  existsb (fun k => N.eqb k (se_code b)) se_codes2 = true.
Proof.
  intros [[] [] [] [] [] [] [] []] H; vm_compute in H; try discriminate H; vm_compute; reflexivity.
Qed.

Lemma se_codes2_pats : forall k, In k se_codes2 -> In (se_pat [k]) (se_old_list ++ se_missing_list).
Proof.
  intros k H. unfold se_codes2 in H. cbn [In] in H.
  repeat (destruct H as [<- | H]; [vm_compute; repeat (first [left; reflexivity | right]) |]).
  contradiction.
Qed.

Lemma se_codes2_small : forall k, In k se_codes2 -> se_code (ascii_of_N k) = k.
Proof.
  intros k H. unfold se_codes2 in H. cbn [In] in H.
  repeat (destruct H as [<- | H]; [reflexivity |]). contradiction.
Qed.

Lemma se_none_of_tail : forall pats c s, se_none_of pats (c :: s) = true -> se_none_of pats s = true.
Proof.
  intros pats c s H. unfold se_none_of in *. rewrite forallb_forall in *. intros p Hp.
  specialize (H p Hp). cbn [se_substr] in H. rewrite negb_orb in H. apply andb_prop in H. tauto.
Qed.

Lemma se_none_of_all_invalid : forall s,
  se_none_of (se_old_list ++ se_missing_list) s = true -> se_all_invalid false s = true.
Proof.
  apply (list_ind2 (fun s => se_none_of (se_old_list ++ se_missing_list) s = true -> se_all_invalid false s = true)).
  - reflexivity.
  - intros a _. cbn. destruct (se_is_bs a); reflexivity.
  - intros a b l IH1 IH2 H. cbn [se_all_invalid].
    destruct (se_is_bs a) eqn:Ha.
    + rewrite IH1 by (eapply se_none_of_tail, se_none_of_tail, H). rewrite andb_true_r.
      apply negb_true_iff. destruct (se_valid_char false b) eqn:Ev; [|reflexivity].
      apply se_valid_listed in Ev. apply existsb_exists in Ev. destruct Ev as (k & Hk & Ek).
      apply N.eqb_eq in Ek.
      unfold se_none_of in H. rewrite forallb_forall in H.
      specialize (H _ (se_codes2_pats k Hk)). cbn [se_substr se_pat map se_prefix] in H.
      unfold se_is_bs, se_is in Ha. apply N.eqb_eq in Ha.
      rewrite (se_codes2_small k Hk), Ha, Ek in H.
      replace (se_code se_bs) with 92%N in H by reflexivity.
      rewrite !N.eqb_refl in H. cbn in H. discriminate.
    + apply IH2. eapply se_none_of_tail, H.
Qed.

Lemma se_none_of_app : forall p q s, se_none_of p s = true -> se_none_of q s = true -> se_none_of (p ++ q) s = true.
Proof. intros. unfold se_none_of in *. rewrite forallb_app. rewrite H, H0. reflexivity. Qed.

(* the old guard was right on literals without \x, octal digits and backslash-newline *)
Theorem ies_old_partial : forall uname body,
  ies_old_fires body = true -> se_none_of se_missing_list body = true ->
  decode uname true false body = decode uname false false body.
Proof.
  intros uname body H Hm. unfold ies_old_fires in H. apply andb_prop in H. destruct H as [_ H].
  apply decode_all_invalid_same, se_none_of_all_invalid, se_none_of_app; assumption.
Qed.

Example ies_old_partial_example :
  let body := map ascii_of_N [97; 92; 100; 92; 46]%N in     (* a\d\. *)
  ies_old_fires body = true /\ se_none_of se_missing_list body = true /\ ies_fires (fun _ => None) body = true.
Proof. vm_compute. repeat split. Qed.

(* bytes literals: \u and \N are not escapes there; in a str literal they are *)
Example se_bytes_u_example :
  let body := map ascii_of_N [92; 117; 48; 48; 52; 49]%N in   (* A *)
  se_all_invalid true body = true /\ se_all_invalid false body = false /\
  decode (fun _ => None) false false body = Some [65%N] /\
  decode (fun _ => None) false true body = decode (fun _ => None) true true body.
Proof. vm_compute. repeat split. Qed.

(* ================================================================================================ *)
(** * 2. logging: msg % args  renders the text of the f-string *)

Lemma lg_text_eqb_eq : forall a b, lg_text_eqb a b = true -> a = b.
Proof.
  induction a as [|x a IH]; destruct b as [|y b]; cbn; intros H; try discriminate; auto.
  apply andb_prop in H. destruct H as [H1 H2]. apply N.eqb_eq in H1. f_equal; auto.
Qed.

Lemma lg_percent_escape : forall objs strict t rest args,
  lg_percent objs strict (lg_escape t ++ rest) args = option_map (app t) (lg_percent objs strict rest args).
Proof.
  intros objs strict. induction t as [|c t IH]; intros rest args.
  - cbn. destruct (lg_percent objs strict rest args); reflexivity.
  - cbn [lg_escape]. destruct (N.eqb c 37) eqn:E.
    + apply N.eqb_eq in E. subst c. cbn [app lg_percent N.eqb Pos.eqb]. rewrite IH.
      destruct (lg_percent objs strict rest args); reflexivity.
    + cbn [app lg_percent]. rewrite E. rewrite IH.
      destruct (lg_percent objs strict rest args); reflexivity.
Qed.

Lemma lg_percent_directive : forall objs strict c rest v args,
  lg_percent objs strict (lg_directive c ++ rest) (v :: args) =
  match lg_conv objs (match c with CNone => CStr | _ => c end) v, lg_percent objs strict rest args with
  | Some x, Some y => Some (x ++ y)
  | _, _ => None
  end.
Proof. intros objs strict [] rest v args; reflexivity. Qed.

(* the heart: with every literal % doubled, % renders exactly the f-string (both argument conventions) *)
Lemma lg_percent_fmt : forall objs strict ps,
  forallb lg_field_ok ps = true -> lg_benign objs ps = true ->
  lg_percent objs strict (lg_fmt true ps) (lg_args ps) = lg_fstring objs ps.
Proof.
  intros objs strict. induction ps as [|p ps IH]; intros Hok Hb.
  - reflexivity.
  - cbn [forallb] in Hok. apply andb_prop in Hok. destruct Hok as [Hp Hok].
    unfold lg_benign in Hb. cbn [forallb] in Hb. apply andb_prop in Hb. destruct Hb as [Hbp Hb].
    specialize (IH Hok Hb).
    destruct p as [t | v c sp].
    + cbn [lg_fmt lg_args lg_fstring]. rewrite lg_percent_escape, IH. reflexivity.
    + destruct sp; [discriminate|].
      cbn [lg_fmt lg_args lg_fstring]. rewrite lg_percent_directive, IH.
      destruct c; cbn [lg_field lg_conv lg_benign_part] in *; try reflexivity.
      destruct (o_str (objs v)) as [a|]; [|discriminate].
      destruct (o_format (objs v) []) as [b|]; [|discriminate].
      apply lg_text_eqb_eq in Hbp. subst. reflexivity.
Qed.

Lemma lg_benign_renders : forall objs ps,
  forallb lg_field_ok ps = true -> lg_benign objs ps = true -> exists t, lg_fstring objs ps = Some t.
Proof.
  intros objs. induction ps as [|p ps IH]; intros Hok Hb.
  - eexists; reflexivity.
  - cbn [forallb] in Hok. apply andb_prop in Hok. destruct Hok as [Hp Hok].
    unfold lg_benign in Hb. cbn [forallb] in Hb. apply andb_prop in Hb. destruct Hb as [Hbp Hb].
    destruct (IH Hok Hb) as [t Ht]. cbn [lg_fstring]. rewrite Ht.
    destruct p as [l | v c sp]; [eexists; reflexivity|].
    destruct sp; [discriminate|].
    destruct c; cbn [lg_field lg_conv lg_benign_part] in *.
    + destruct (o_str (objs v)); [|discriminate]. destruct (o_format (objs v) []); [|discriminate]. eexists; reflexivity.
    + destruct (o_str (objs v)); [|discriminate]. eexists; reflexivity.
    + destruct (o_repr (objs v)); [|discriminate]. eexists; reflexivity.
    + destruct (o_ascii (objs v)); [|discriminate]. eexists; reflexivity.
Qed.

Lemma lg_no_fields : forall objs ps,
  existsb lg_is_field ps = false -> lg_args ps = [] /\ lg_fstring objs ps = Some (lg_fmt false ps).
Proof.
  intros objs. induction ps as [|p ps IH]; intros H.
  - split; reflexivity.
  - cbn [existsb] in H. apply orb_false_iff in H. destruct H as [Hp H]. destruct (IH H) as [IH1 IH2].
    destruct p; [|discriminate]. cbn [lg_args lg_fstring lg_fmt]. rewrite IH2. split; [exact IH1 | reflexivity].
Qed.

Lemma lg_has_fields : forall ps, existsb lg_is_field ps = true -> lg_args ps <> [].
Proof.
  induction ps as [|p ps IH]; intros H; [discriminate|].
  destruct p; cbn [lg_args]; [|discriminate]. apply IH. exact H.
Qed.

(* fixes.deinterpolate_logging_args (f-string form, after 79e10b7): for arguments whose str()/repr()/ascii() do not
   raise and whose format(v, "") is str(v), the logging call gives the same outcome, whether the level is enabled or not *)
Theorem lg_rule_partial : forall objs ps msg args enabled,
  lg_rule ps = Some (msg, args) -> lg_benign objs ps = true ->
  lg_after objs enabled msg args = lg_before objs enabled ps.
Proof.
  intros objs ps msg args enabled Hr Hb. unfold lg_rule in Hr.
  destruct (forallb lg_field_ok ps) eqn:Hok; [|discriminate]. inversion Hr; subst; clear Hr.
  destruct (lg_benign_renders objs ps Hok Hb) as [t Ht].
  unfold lg_after, lg_before. rewrite Ht. destruct enabled; [|reflexivity]. f_equal.
  destruct (existsb lg_is_field ps) eqn:Hf.
  - pose proof (lg_has_fields ps Hf) as Hne. unfold lg_getmessage.
    destruct (lg_args ps) as [|a [|a' rest]] eqn:Ea; [congruence| |];
      rewrite <- Ea, lg_percent_fmt by assumption; exact Ht.
  - destruct (lg_no_fields objs ps Hf) as [Ha Hs]. rewrite Ha. cbn. rewrite <- Hs. exact Ht.
Qed.

Definition lg_o (s r a f : option text) : obj :=
  mkObj s r a (fun sp => match sp with [] => f | _ => None end) false.

Example lg_rule_partial_example :
  let objs := fun _ => lg_o (Some [49]%N) (Some [39; 49; 39]%N) (Some [39; 49; 39]%N) (Some [49]%N) in
  let ps := [PLit [97; 61]%N; PFld 0 CNone None; PLit [32; 53; 37; 32]%N; PFld 1 CRepr None] in     (* f"a={x} 5% {y!r}" *)
  lg_rule ps = Some ([97; 61; 37; 115; 32; 53; 37; 37; 32; 37; 114]%N, [0; 1]) /\ lg_benign objs ps = true /\
  lg_before objs true ps = LEmit (Some [97; 61; 49; 32; 53; 37; 32; 39; 49; 39]%N).
Proof. vm_compute. repeat split. Qed.

(* full strength fails: (a) a class whose __format__ differs from its __str__, (b) a __str__ that raises *)
Theorem lg_rule_refuted_custom_format : exists objs ps msg args,
  lg_rule ps = Some (msg, args) /\ lg_after objs true msg args <> lg_before objs true ps.
Proof.
  exists (fun _ => lg_o (Some [83]%N) (Some [82]%N) (Some [82]%N) (Some [70]%N)), [PFld 0 CNone None], [37; 115]%N, [0].
  split; [reflexivity|]. vm_compute. discriminate.
Qed.

Theorem lg_rule_refuted_raising_str : exists objs ps msg args enabled,
  lg_rule ps = Some (msg, args) /\ lg_after objs enabled msg args <> lg_before objs enabled ps.
Proof.
  exists (fun _ => lg_o None (Some [82]%N) (Some [82]%N) None), [PFld 0 CStr None], [37; 115]%N, [0], false.
  split; [reflexivity|]. vm_compute. discriminate.
Qed.

(* why the guards are there: without doubling %, and with a format spec squeezed into %s *)
Definition lg_rule_noescape (ps : list part) : option (text * list nat) :=
  if forallb lg_field_ok ps then Some (lg_fmt false ps, lg_args ps) else None.
Definition lg_rule_nospec (ps : list part) : option (text * list nat) :=
  Some (lg_fmt (existsb lg_is_field ps) ps, lg_args ps).

Theorem lg_noescape_refuted : exists objs ps msg args,
  lg_benign objs ps = true /\ lg_rule_noescape ps = Some (msg, args) /\
  lg_after objs true msg args <> lg_before objs true ps.
Proof.
  exists (fun _ => lg_o (Some [49]%N) (Some [49]%N) (Some [49]%N) (Some [49]%N)),
         [PLit [53; 37; 32]%N; PFld 0 CNone None], [53; 37; 32; 37; 115]%N, [0].       (* f"5% {x}" *)
  split; [reflexivity|]. split; [reflexivity|]. vm_compute. discriminate.
Qed.

Theorem lg_nospec_refuted : exists objs ps msg args,
  lg_benign objs ps = true /\ lg_rule_nospec ps = Some (msg, args) /\
  lg_after objs true msg args <> lg_before objs true ps.
Proof.
  exists (fun _ => mkObj (Some [49]%N) (Some [49]%N) (Some [49]%N)
                         (fun sp => match sp with [] => Some [49]%N | _ => Some [32; 32; 49]%N end) false),
         [PFld 0 CNone (Some [62; 51]%N)], [37; 115]%N, [0].                            (* f"{x:>3}" *)
  split; [reflexivity|]. split; [reflexivity|]. vm_compute. discriminate.
Qed.

(* the rule before 79e10b7 (str.format placeholders): the line is lost whenever there is a field *)
Theorem lg_rule_old_refuted : exists objs ps msg args,
  lg_benign objs ps = true /\ lg_rule_old ps = Some (msg, args) /\
  lg_before objs true ps = LEmit (Some [97; 61; 49]%N) /\ lg_after objs true msg args = LEmit None.
Proof.
  exists (fun _ => lg_o (Some [49]%N) (Some [49]%N) (Some [49]%N) (Some [49]%N)),
         [PLit [97; 61]%N; PFld 0 CNone None], [97; 61; 123; 125]%N, [0].
  repeat split.
Qed.

(* "fmt".format(args): the rule parses the format string into the parts of an f-string and goes on as above *)
Theorem lg_rule_format_partial : forall objs fmt n msg args enabled,
  lg_rule_format fmt n = Some (msg, args) ->
  exists ps, lg_fparse [] fmt 0 = Some ps /\ length (lg_args ps) = n /\
             (lg_benign objs ps = true -> lg_after objs enabled msg args = lg_before objs enabled ps).
Proof.
  intros objs fmt n msg args enabled H. unfold lg_rule_format in H.
  destruct (lg_fparse [] fmt 0) as [ps|]; [|discriminate].
  destruct (Nat.eqb (length (lg_args ps)) n) eqn:E; [|discriminate].
  exists ps. split; [reflexivity|]. split; [apply Nat.eqb_eq; exact E|].
  intros Hb. apply lg_rule_partial; assumption.
Qed.

Example lg_rule_format_example :                                                   (* "x={} {{}} {!r}%".format(a, b) *)
  lg_rule_format [120; 61; 123; 125; 32; 123; 123; 125; 125; 32; 123; 33; 114; 125; 37]%N 2
  = Some ([120; 61; 37; 115; 32; 123; 125; 32; 37; 114; 37; 37]%N, [0; 1]).
Proof. reflexivity. Qed.

(* ================================================================================================ *)
(** * 3. deleting comment lines leaves the significant tokens alone *)

Lemma cm_sig_app : forall a b, cm_sig (a ++ b) = cm_sig a ++ cm_sig b.
Proof. intros. unfold cm_sig. rewrite flat_map_app, filter_app. reflexivity. Qed.

Lemma cm_sig_cons : forall l r, cm_sig (l :: r) = cm_sig [l] ++ cm_sig r.
Proof. intros. apply (cm_sig_app [l] r). Qed.

Lemma cm_sig_insig : forall l, cm_line_insig l = true -> cm_sig [l] = [].
Proof.
  intros l H. unfold cm_sig, cm_line_insig in *. cbn [flat_map]. rewrite app_nil_r.
  induction (l_toks l) as [|t ts IH]; [reflexivity|].
  cbn [forallb] in H. apply andb_prop in H. destruct H as [Ht H]. cbn [filter]. rewrite Ht. cbn. apply IH. exact H.
Qed.

Definition cm_good (b : list line) (r : nat * nat) : Prop :=
  forallb (fun l => negb (l_lit l)) (firstn (snd r - fst r) (skipn (fst r) b)) = true.

Lemma cm_loop_se_good : forall parses b n si k se removed,
  Forall (cm_good b) removed -> Forall (cm_good b) (cm_loop_se parses b n si k se removed).
Proof.
  intros parses b n si. induction k as [|k IH]; intros se removed H; [exact H|].
  cbn [cm_loop_se]. apply IH.
  destruct (cm_sub_ok parses b removed si (n - se)) eqn:E; [|exact H].
  apply Forall_app. split; [exact H|]. constructor; [|constructor].
  unfold cm_sub_ok in E. apply andb_prop in E. destruct E as [E _]. apply andb_prop in E. destruct E as [_ E].
  exact E.
Qed.

Lemma cm_loop_si_good : forall parses b n k si removed,
  Forall (cm_good b) removed -> Forall (cm_good b) (cm_loop_si parses b n k si removed).
Proof.
  intros parses b n. induction k as [|k IH]; intros si removed H; [exact H|].
  cbn [cm_loop_si]. apply IH. apply cm_loop_se_good. exact H.
Qed.

Lemma cm_forallb_window : forall (f : line -> bool) b i0 len i l,
  forallb f (firstn len (skipn i0 b)) = true -> i0 <= i -> i < i0 + len -> nth_error b i = Some l -> f l = true.
Proof.
  intros f. induction b as [|x b IH]; intros i0 len i l H H1 H2 Hn.
  - destruct i; discriminate.
  - destruct i0 as [|i0].
    + cbn [skipn] in H. destruct len as [|len]; [lia|]. cbn [firstn forallb] in H.
      apply andb_prop in H. destruct H as [Hx H].
      destruct i as [|i]; [inversion Hn; subst; exact Hx|].
      cbn in Hn. apply (IH 0 len i l); try lia; try assumption.
    + destruct i as [|i]; [lia|]. cbn in Hn. cbn [skipn] in H. apply (IH i0 len i l); try lia; assumption.
Qed.

Lemma cm_removed_not_lit : forall parses b i l,
  cm_in_removed (cm_block_removed parses b) i = true -> nth_error b i = Some l -> l_lit l = false.
Proof.
  intros parses b i l H Hn. unfold cm_in_removed in H. apply existsb_exists in H. destruct H as (r & Hr & Hi).
  apply andb_prop in Hi. destruct Hi as [H1 H2]. apply Nat.leb_le in H1. apply Nat.ltb_lt in H2.
  assert (G : Forall (cm_good b) (cm_block_removed parses b)) by (apply cm_loop_si_good; constructor).
  rewrite Forall_forall in G. specialize (G r Hr). unfold cm_good in G.
  apply negb_true_iff.
  apply (cm_forallb_window (fun l => negb (l_lit l)) b (fst r) (snd r - fst r) i l G); try lia; assumption.
Qed.

Lemma cm_keep_sig : forall removed b k,
  (forall i l, nth_error b i = Some l -> cm_in_removed removed (k + i) = true -> cm_line_insig l = true) ->
  cm_sig (cm_keep removed k b) = cm_sig b.
Proof.
  intros removed. induction b as [|x b IH]; intros k H; [reflexivity|].
  cbn [cm_keep]. rewrite (cm_sig_cons x b).
  assert (IH' : cm_sig (cm_keep removed (S k) b) = cm_sig b).
  { apply IH. intros i l Hn Hr. apply (H (S i) l); [exact Hn|]. replace (k + S i) with (S k + i) by lia. exact Hr. }
  destruct (cm_in_removed removed k) eqn:E.
  - rewrite IH'. rewrite cm_sig_insig; [reflexivity|]. apply (H 0 x); [reflexivity|]. rewrite Nat.add_0_r. exact E.
  - rewrite (cm_sig_cons x). rewrite IH'. reflexivity.
Qed.

Lemma cm_block_lines : forall src l, In l (firstn (cm_block_len src) src) -> l_cand l || l_blank l = true.
Proof.
  induction src as [|x r IH]; intros l H; [contradiction|].
  cbn [cm_block_len] in H. destruct (l_cand x || l_blank x) eqn:E; [|contradiction].
  destruct (cm_reaches (x :: r)); [|contradiction].
  cbn [firstn In] in H. destruct H as [<- | H]; [exact E | apply IH; exact H].
Qed.

Lemma cm_in_firstn : forall {A} n (l : list A) x, In x (firstn n l) -> In x l.
Proof. intros A n l x H. rewrite <- (firstn_skipn n l). apply in_or_app. left. exact H. Qed.
Lemma cm_in_skipn : forall {A} n (l : list A) x, In x (skipn n l) -> In x l.
Proof. intros A n l x H. rewrite <- (firstn_skipn n l). apply in_or_app. right. exact H. Qed.

(* fixes.delete_commented_code: if the tokenizer agrees that the lines the rule may touch -- comment / blank lines that
   overlap no string literal -- carry nothing but COMMENT and NL tokens, the significant tokens stay as they are,
   whatever the parse oracle says and however the blocks are cut *)
Theorem cm_rule_sound : forall parses src,
  (forall l, In l src -> cm_deletable l = true -> cm_line_insig l = true) ->
  cm_sig (cm_rule parses src) = cm_sig src.
Proof.
  intros parses src. unfold cm_rule. generalize (length src) as fuel. intros fuel. revert src.
  induction fuel as [|f IH]; intros src H; [reflexivity|].
  cbn [cm_rule_fuel]. destruct src as [|l r]; [reflexivity|].
  destruct (cm_block_len (l :: r)) as [|n'] eqn:En.
  - rewrite (cm_sig_cons l), (cm_sig_cons l r). rewrite IH; [reflexivity|].
    intros x Hx. apply H. right. exact Hx.
  - set (n := S n') in *. set (src := l :: r) in *. rewrite cm_sig_app.
    rewrite IH by (intros x Hx; apply H; eapply cm_in_skipn; exact Hx).
    rewrite cm_keep_sig.
    + rewrite <- cm_sig_app, firstn_skipn. reflexivity.
    + intros i x Hn Hr. cbn [plus] in Hr.
      assert (Hin : In x (firstn n src)) by (eapply nth_error_In; exact Hn).
      apply H; [eapply cm_in_firstn; exact Hin|].
      unfold cm_deletable. rewrite <- En in Hin. rewrite (cm_block_lines src x Hin).
      rewrite (cm_removed_not_lit parses (firstn n src) i x Hr Hn). reflexivity.
Qed.

Example cm_rule_example :
  let src := [mkLine 0 false false false [TSig 1; TSig 2; TSig 3];        (* x = 1        *)
              mkLine 1 true false false [TComment; TNl];                   (* # y = 2      *)
              mkLine 2 true false false [TComment; TNl];                   (* # hello you  *)
              mkLine 3 false false false [TSig 4]] in                      (* print(x)     *)
  map l_id (cm_rule (cm_table [(1, 2)]) src) = [0; 2; 3] /\ cm_sig (cm_rule (cm_table [(1, 2)]) src) = cm_sig src.
Proof. vm_compute. split; reflexivity. Qed.

(* without the classification hypothesis the claim fails: a '#' line inside a bytes literal before f6ddf69 (the range
   of the literal was not protected, the line is a piece of the string token) *)
Theorem cm_rule_refuted_unprotected : exists parses src,
  cm_sig (cm_rule parses src) <> cm_sig src.
Proof.
  exists (cm_table [(1, 2)]),
         [mkLine 0 false false false [TSig 1; TSig 2; TSig 3];            (* x = b<triple quote>  *)
          mkLine 1 true false false [TSig 4];                              (* # foo(1)     *)
          mkLine 2 false false false [TSig 5]].                            (* <triple quote>      *)
  vm_compute. discriminate.
Qed.
