(* K10, round 5 -- the public surface as a FINAL ENVIRONMENT, not as a set of names.

   SurfaceModel.v reads a module as the SET of names its top-level statements bind.  Seed C07-d shows what the
   property needs instead: the LAST REACHING binding of each public name at the end of the module body.  A name
   stays public only if, after the whole body has run, it is still bound:
     X = 1 ; X: int          the annotation binds nothing -- X lives on the first statement alone
     X = 1 ; del X ; X = 2   the second binding is reached only when `del X` finds X bound
   (tracing.code_dependencies_outputs counts both `X: int` and the re-binding after `del X` as creations of X.)

   This file: a module body as an ordered list of statements, each an ordered list of binding EVENTS;
   [run] = what CPython does with the module namespace (REFERENCE, a definition, validated against exec() by
   harness/c07_env.py on every run: Some env = the names bound when the import succeeds, None = NameError).
   Reads of a name inside expressions are not events, except where the statement itself needs the binding
   (augmented assignment, del). *)
From Coq Require Import List Bool String.
Import ListNotations.
Require Import Pyrefact.SurfaceModel.
Open Scope string_scope.
Open Scope list_scope.

Inductive event :=
| EBind (n : name)        (* assignment, annotated assignment WITH value, def, class, import, for/with target,
                             walrus, `global n` assignment run at top level, `except E as n` on entry *)
| EAnn (n : name)         (* annotation without value: declares, binds nothing *)
| ERequire (n : name)     (* the statement reads its own target first: n += ... *)
| EUnbind (n : name).     (* del n; the implicit `del n` at the end of `except E as n` *)

Definition ev_name (e : event) : name :=
  match e with EBind n | EAnn n | ERequire n | EUnbind n => n end.

Definition stmt := list event.
Definition body := list stmt.

Definition env := list name.           (* names bound so far; a list read as a set *)

Definition remove (n : name) (e : env) : env := filter (fun x => negb (String.eqb x n)) e.

Definition step (e : env) (ev : event) : option env :=
  match ev with
  | EBind n => Some (n :: e)
  | EAnn _ => Some e
  | ERequire n => if mem n e then Some e else None
  | EUnbind n => if mem n e then Some (remove n e) else None
  end.

Fixpoint run_from (e : env) (evs : list event) : option env :=
  match evs with
  | [] => Some e
  | ev :: tl => match step e ev with
                | Some e' => run_from e' tl
                | None => None
                end
  end.

Definition run (b : body) : option env := run_from [] (List.concat b).

(* the events that concern the names of P, in order *)
Definition proj (P : list name) (evs : list event) : list event := filter (fun ev => mem (ev_name ev) P) evs.
Definition restrict (P : list name) (e : env) : env := filter (fun n => mem n P) e.

(* a statement none of whose events concerns a preserved name *)
Definition mentions (P : list name) (s : stmt) : bool := existsb (fun ev => mem (ev_name ev) P) s.

(* a rule that only REMOVES statements (or their binding effect: `X = v` -> `v`), chosen by position *)
Fixpoint select_from (keep : nat -> bool) (i : nat) (b : body) : body :=
  match b with
  | [] => []
  | s :: tl => (if keep i then [s] else []) ++ select_from keep (S i) tl
  end.
Definition select (keep : nat -> bool) (b : body) : body := select_from keep 0 b.

Fixpoint droppable_from (P : list name) (keep : nat -> bool) (i : nat) (b : body) : bool :=
  match b with
  | [] => true
  | s :: tl => (keep i || negb (mentions P s)) && droppable_from P keep (S i) tl
  end.
(* the guard: every removed statement mentions no preserved name *)
Definition only_unpreserved_removed (P : list name) (keep : nat -> bool) (b : body) : bool :=
  droppable_from P keep 0 b.

(* the SYNTACTIC name set: every name some statement stores, as tracing.code_dependencies_outputs and the
   lenient output reading of the round-1 oracle see it (an annotation and a re-binding after del count) *)
Definition stored_names (b : body) : list name :=
  flat_map (fun ev => match ev with EBind n => [n] | EAnn n => [n] | _ => [] end) (List.concat b).

(* the events of a module of SurfaceModel.v (no del there: [Other] carries no event) *)
Definition item_events (it : item) : stmt :=
  match it with
  | Def n _ => [EBind n]
  | Class n _ _ => [EBind n]
  | Assign ts => map EBind (flat_map bound ts)
  | AnnAssign t true => map EBind (bound t)
  | AnnAssign t false => map EAnn (bound t)
  | AugAssign t => map ERequire (bound t) ++ map EBind (bound t)
  | Import ns => map EBind ns
  | Other => []
  end.
Definition module_events (m : module) : body := map item_events m.

(* ---------------------------------------------------------------------------------------------- *)
(* correspondence case checkers *)

Definition opt_set_eqb (a b : option env) : bool :=
  match a, b with
  | Some x, Some y => set_eqb x y
  | None, None => true
  | _, _ => false
  end.

(* reference semantics vs CPython: (body, names exec() left in the namespace | None for NameError) *)
Definition env_case_ok (c : body * option (list name)) : bool :=
  let '(b, py) := c in opt_set_eqb (run b) py.

(* a real rule / the real pipeline under a preserve set P: when the input imports cleanly, so does the output,
   and every preserved name bound at the end of the input is bound at the end of the output *)
Definition env_rule_case_ok (c : list name * body * body) : bool :=
  let '(P, b_in, b_out) := c in
  match run b_in with
  | None => true
  | Some e => match run b_out with
              | None => false
              | Some e' => incl_b (restrict P e) e'
              end
  end.
