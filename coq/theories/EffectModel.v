(* K5 (second half) -- model of core.has_side_effect (pyrefact/core.py:588-780), of the inference
   parsing.safe_callable_names (pyrefact/parsing.py:143-200) and of the deletion decision of
   fixes.delete_pointless_statements (pyrefact/fixes.py:777-793), over a small expression / statement
   language, with a reference semantics: an oracle-driven evaluator that produces the trace of events
   (calls, bindings, stores) and the way the statement terminates. *)
From Coq Require Import List Bool String.
Import ListNotations.

Definition name := string.
Definition underscore : name := "_"%string.
Definition mem (x : name) (l : list name) : bool := existsb (String.eqb x) l.

(* ---------------- syntax ---------------- *)
Inductive ctarget := CTName (x : name) | CTTuple (xs : list name).   (* comprehension targets *)

Inductive expr :=
| EConst (is_str : bool)                     (* Constant (also stands for an absent optional child) *)
| EName (x : name)                           (* Name, Load *)
| EUnary (e : expr)
| EBin (l r : expr)
| ECompare (l : expr) (rs : exprs)
| EBoolOp (vs : exprs)
| EIfExp (t b o : expr)
| ESeq (es : exprs)                          (* List / Tuple / Set display *)
| EDict (kvs : exprs)                       (* k1, v1, k2, v2, ... in evaluation order *)
| EAttr (e : expr) (a : name)                (* Attribute, Load *)
| ESub (e i : expr)                          (* Subscript, Load *)
| ESlice (lo hi st : expr)
| ECall (f : expr) (args kws : exprs)        (* kws: the keyword values *)
| EStarred (e : expr)
| EComp (elt : expr) (gs : gens)             (* ListComp / SetComp / GeneratorExp *)
| EDictComp (k v : expr) (gs : gens)
| EFStr (parts : exprs)                      (* JoinedStr *)
| EFmt (v spec : expr)                       (* FormattedValue *)
| ELambda (has_params : bool) (defaults : exprs) (body : expr)
| ENamed (x : name) (v : expr)               (* x := v *)
| EOther (es : exprs)                        (* Yield, YieldFrom, Await, ... *)
with exprs := ENil | ECons (e : expr) (es : exprs)
with gens := GNil | GCons (t : ctarget) (it : expr) (ifs : exprs) (rest : gens).

Inductive target :=
| TName (x : name) | TAttr (e : expr) (a : name) | TSub (e i : expr)
| TSeq (ts : targets) | TStar (t : target)
with targets := TNil | TCons (t : target) (ts : targets).

Inductive ctl := CReturn | CRaise | CBreak | CContinue.

Inductive stmt :=
| SExpr (e : expr)
| SAssign (ts : targets) (v : expr)
| SAug (t : target) (v : expr)
| SPass
| SControl (c : ctl)                          (* return / raise / break / continue (assert, yield: CRaise) *)
| SIf (t : expr) (b o : stmts)
| SFor (t : target) (it : expr) (b o : stmts)
| SWhile (t : expr) (b o : stmts)
| SWith (ctx : expr) (b : stmts)
| SDef (x : name) (decos evald : exprs) (bases : bool) (cbody : stmts)
      (* def / class statement: its decorators, what else is evaluated when the statement is executed
         (defaults, annotations, base classes) and, for a class, its body *)
| SOther                                      (* import, del, global, try, ... *)
with stmts := SNil | SCons (s : stmt) (ss : stmts).

(* ---------------- ast.walk collectors used by the Call branch ---------------- *)
Definition ct_names (t : ctarget) : list name :=
  match t with CTName x => [x] | CTTuple xs => xs end.

Fixpoint names_of (e : expr) : list name :=
  match e with
  | EConst _ => []
  | EName x => [x]
  | EUnary e => names_of e
  | EBin l r => names_of l ++ names_of r
  | ECompare l rs => names_of l ++ names_of_l rs
  | EBoolOp vs => names_of_l vs
  | EIfExp t b o => names_of t ++ names_of b ++ names_of o
  | ESeq es => names_of_l es
  | EDict kvs => names_of_l kvs
  | EAttr e _ => names_of e
  | ESub e i => names_of e ++ names_of i
  | ESlice lo hi st => names_of lo ++ names_of hi ++ names_of st
  | ECall f args kws => names_of f ++ names_of_l args ++ names_of_l kws
  | EStarred e => names_of e
  | EComp elt gs => names_of elt ++ names_of_g gs
  | EDictComp k v gs => names_of k ++ names_of v ++ names_of_g gs
  | EFStr ps => names_of_l ps
  | EFmt v s => names_of v ++ names_of s
  | ELambda _ ds b => names_of_l ds ++ names_of b
  | ENamed x v => x :: names_of v
  | EOther es => names_of_l es
  end
with names_of_l (es : exprs) : list name :=
  match es with ENil => [] | ECons e tl => names_of e ++ names_of_l tl end
with names_of_g (gs : gens) : list name :=
  match gs with
  | GNil => []
  | GCons t it ifs rest => ct_names t ++ names_of it ++ names_of_l ifs ++ names_of_g rest
  end.

Fixpoint attrs_of (e : expr) : list name :=
  match e with
  | EConst _ => []
  | EName _ => []
  | EUnary e => attrs_of e
  | EBin l r => attrs_of l ++ attrs_of r
  | ECompare l rs => attrs_of l ++ attrs_of_l rs
  | EBoolOp vs => attrs_of_l vs
  | EIfExp t b o => attrs_of t ++ attrs_of b ++ attrs_of o
  | ESeq es => attrs_of_l es
  | EDict kvs => attrs_of_l kvs
  | EAttr e a => a :: attrs_of e
  | ESub e i => attrs_of e ++ attrs_of i
  | ESlice lo hi st => attrs_of lo ++ attrs_of hi ++ attrs_of st
  | ECall f args kws => attrs_of f ++ attrs_of_l args ++ attrs_of_l kws
  | EStarred e => attrs_of e
  | EComp elt gs => attrs_of elt ++ attrs_of_g gs
  | EDictComp k v gs => attrs_of k ++ attrs_of v ++ attrs_of_g gs
  | EFStr ps => attrs_of_l ps
  | EFmt v s => attrs_of v ++ attrs_of s
  | ELambda _ ds b => attrs_of_l ds ++ attrs_of b
  | ENamed _ v => attrs_of v
  | EOther es => attrs_of_l es
  end
with attrs_of_l (es : exprs) : list name :=
  match es with ENil => [] | ECons e tl => attrs_of e ++ attrs_of_l tl end
with attrs_of_g (gs : gens) : list name :=
  match gs with
  | GNil => []
  | GCons _ it ifs rest => attrs_of it ++ attrs_of_l ifs ++ attrs_of_g rest
  end.

(* ---------------- core.has_side_effect ---------------- *)
Definition is_const (e : expr) : bool := match e with EConst _ => true | _ => false end.
Definition is_underscore (e : expr) : bool :=
  match e with EName x => String.eqb x underscore | _ => false end.

Definition func_whitelist (f : expr) (wl : list name) : list name :=
  match f with
  | EAttr (EConst _) a => a :: wl        (* like "".join() *)
  | _ => wl
  end.

Fixpoint hse (e : expr) (wl : list name) : bool :=
  match e with
  | EConst _ => false
  | EName _ => false
  | EUnary e => hse e wl
  | EBin l r => hse l wl || hse r wl
  | ECompare l rs => hse l wl || hse_l rs wl
  | EBoolOp vs => hse_l vs wl
  | EIfExp t b o => hse t wl || hse b wl || hse o wl
  | ESeq es => hse_l es wl
  | EDict kvs => hse_l kvs wl
  | EAttr e _ => hse e []
  | ESub e i => hse e wl || hse i wl
  | ESlice lo hi st => hse lo wl || hse hi wl || hse st wl
  | ECall f args kws =>
      let fwl := func_whitelist f wl in
      negb (forallb (fun x => mem x fwl || String.eqb x underscore) (names_of f))
      || hse_l args wl || hse_l kws wl
      || negb (forallb (fun a => mem a fwl) (attrs_of (ECall f args kws)))
  | EStarred e => hse e wl
  | EComp elt gs => hse elt wl || hse_g gs wl
  | EDictComp k v gs => hse k wl || hse v wl || hse_g gs wl
  | EFStr ps => hse_l ps []
  | EFmt v s => hse v [] || hse s []
  | ELambda has_params ds b => has_params || hse_l ds wl || hse b wl
  | ENamed x v => hse v [] || negb (String.eqb x underscore)
  | EOther _ => true
  end
with hse_l (es : exprs) (wl : list name) : bool :=
  match es with ENil => false | ECons e tl => hse e wl || hse_l tl wl end
with hse_g (gs : gens) (wl : list name) : bool :=
  match gs with
  | GNil => false
  | GCons t it ifs rest =>
      negb (match t with CTName _ => true | CTTuple _ => false end && negb (hse it wl) && negb (hse_l ifs wl))
      || hse_g rest wl
  end.

Fixpoint hse_t (t : target) (wl : list name) : bool :=
  match t with
  | TName x => negb (String.eqb x underscore)
  | TAttr _ _ => true
  | TSub e i => hse e wl || hse i wl || negb (is_underscore e)
  | TSeq ts => hse_ts ts wl
  | TStar t => hse_t t wl
  end
with hse_ts (ts : targets) (wl : list name) : bool :=
  match ts with TNil => false | TCons t tl => hse_t t wl || hse_ts tl wl end.

Fixpoint hse_s (s : stmt) (wl : list name) : bool :=
  match s with
  | SExpr e => hse e wl
  | SAssign ts v => hse v [] || hse_ts ts []
  | SAug t v => hse v [] || hse_t t []
  | SPass => false
  | SControl _ => true
  | SIf t b o => hse_ss b wl || hse t wl || hse_ss o wl
  | SFor t it b o => hse_t t wl || hse it wl || hse_ss b wl || hse_ss o wl
  | SWhile _ _ _ => true
  | SWith _ _ => true
  | SDef x decos evald bases cbody =>
      negb (String.eqb x underscore) || negb (match decos with ENil => true | _ => false end)
      || bases                       (* a class with base classes / keywords: creating it calls their hooks *)
      || hse_l evald wl || hse_ss cbody wl
  | SOther => true
  end
with hse_ss (ss : stmts) (wl : list name) : bool :=
  match ss with SNil => false | SCons s tl => hse_s s wl || hse_ss tl wl end.

(* ---------------- fixes.delete_pointless_statements: which children of a body are deleted ---------------- *)
Definition is_docstring (s : stmt) : bool :=
  match s with SExpr (EConst true) => true | _ => false end.

Fixpoint pointless_from (i : nat) (body : stmts) (wl : list name) : list bool :=
  match body with
  | SNil => []
  | SCons s tl =>
      (negb (hse_s s wl) && (negb (Nat.eqb i 0) || negb (is_docstring s))) :: pointless_from (S i) tl wl
  end.
Definition pointless (body : stmts) (wl : list name) : list bool := pointless_from 0 body wl.

(* ---- the guards of delete_pointless_statements (fixes.py): try bodies, `_` that is read, iteration ---- *)
Definition cannot_raise (s : stmt) : bool :=
  match s with SPass => true | SExpr (EConst _) => true | _ => false end.

(* fixes._is_static_iterable: iterating the value does no more than evaluating the expression *)
Definition reiterable : list name :=
  ["range"; "enumerate"; "zip"; "reversed"; "sorted"; "list"; "tuple"; "set"; "frozenset"]%string.

Fixpoint static_iter (e : expr) : bool :=
  match e with
  | EConst _ | ESeq _ | EDict _ | EFStr _ | EComp _ _ | EDictComp _ _ _ => true
  | ECall (EName g) args ENil =>
      String.eqb g "range"%string || (mem g reiterable && static_iter_l args)
  | _ => false
  end
with static_iter_l (es : exprs) : bool :=
  match es with ENil => true | ECons e tl => static_iter e && static_iter_l tl end.

(* fixes._iterates_unknown_object, over every sub-tree *)
Fixpoint iter_unk (e : expr) : bool :=
  match e with
  | EConst _ | EName _ => false
  | EUnary e => iter_unk e
  | EBin l r => iter_unk l || iter_unk r
  | ECompare l rs => iter_unk l || iter_unk_l rs
  | EBoolOp vs => iter_unk_l vs
  | EIfExp t b o => iter_unk t || iter_unk b || iter_unk o
  | ESeq es => iter_unk_l es
  | EDict kvs => iter_unk_l kvs
  | EAttr e _ => iter_unk e
  | ESub e i => iter_unk e || iter_unk i
  | ESlice lo hi st => iter_unk lo || iter_unk hi || iter_unk st
  | ECall f args kws => iter_unk f || iter_unk_l args || iter_unk_l kws
  | EStarred e => negb (static_iter e) || iter_unk e
  | EComp elt gs => iter_unk elt || iter_unk_g gs
  | EDictComp k v gs => iter_unk k || iter_unk v || iter_unk_g gs
  | EFStr ps => iter_unk_l ps
  | EFmt v s => iter_unk v || iter_unk s
  | ELambda _ ds b => iter_unk_l ds || iter_unk b
  | ENamed _ v => iter_unk v
  | EOther es => iter_unk_l es
  end
with iter_unk_l (es : exprs) : bool :=
  match es with ENil => false | ECons e tl => iter_unk e || iter_unk_l tl end
with iter_unk_g (gs : gens) : bool :=
  match gs with
  | GNil => false
  | GCons _ it ifs rest => negb (static_iter it) || iter_unk it || iter_unk_l ifs || iter_unk_g rest
  end.

Fixpoint iter_unk_t (t : target) : bool :=
  match t with
  | TName _ => false
  | TAttr e _ => iter_unk e
  | TSub e i => iter_unk e || iter_unk i
  | TSeq ts => iter_unk_ts ts
  | TStar t => iter_unk_t t
  end
with iter_unk_ts (ts : targets) : bool :=
  match ts with TNil => false | TCons t tl => iter_unk_t t || iter_unk_ts tl end.

Fixpoint iter_unk_s (s : stmt) : bool :=
  match s with
  | SExpr e => iter_unk e
  | SAssign ts v => iter_unk_ts ts || iter_unk v
  | SAug t v => iter_unk_t t || iter_unk v
  | SPass | SControl _ | SOther => false
  | SIf t b o => iter_unk t || iter_unk_ss b || iter_unk_ss o
  | SFor t it b o => negb (static_iter it) || iter_unk_t t || iter_unk it || iter_unk_ss b || iter_unk_ss o
  | SWhile t b o => iter_unk t || iter_unk_ss b || iter_unk_ss o
  | SWith ctx b => iter_unk ctx || iter_unk_ss b
  | SDef _ decos evald _ cbody => iter_unk_l decos || iter_unk_l evald || iter_unk_ss cbody
  end
with iter_unk_ss (ss : stmts) : bool :=
  match ss with SNil => false | SCons s tl => iter_unk_s s || iter_unk_ss tl end.

(* fixes._mentions_underscore: a Name `_` (any context) or a definition named `_` anywhere in the statement *)
Fixpoint names_t (t : target) : list name :=
  match t with
  | TName x => [x]
  | TAttr e _ => names_of e
  | TSub e i => names_of e ++ names_of i
  | TSeq ts => names_ts ts
  | TStar t => names_t t
  end
with names_ts (ts : targets) : list name :=
  match ts with TNil => [] | TCons t tl => names_t t ++ names_ts tl end.

Fixpoint names_s (s : stmt) : list name :=
  match s with
  | SExpr e => names_of e
  | SAssign ts v => names_ts ts ++ names_of v
  | SAug t v => names_t t ++ names_of v
  | SPass | SControl _ | SOther => []
  | SIf t b o => names_of t ++ names_ss b ++ names_ss o
  | SFor t it b o => names_t t ++ names_of it ++ names_ss b ++ names_ss o
  | SWhile t b o => names_of t ++ names_ss b ++ names_ss o
  | SWith ctx b => names_of ctx ++ names_ss b
  | SDef x decos evald _ cbody => x :: names_of_l decos ++ names_of_l evald ++ names_ss cbody
  end
with names_ss (ss : stmts) : list name :=
  match ss with SNil => [] | SCons s tl => names_s s ++ names_ss tl end.

Definition mentions_us (s : stmt) : bool := mem underscore (names_s s).

(* the decision for one body: [in_try]: the body is (in) the body of a try statement with handlers;
   [us_used]: the name `_` is read somewhere in the module *)
Fixpoint pointless_ctx_from (in_try us_used : bool) (i : nat) (body : stmts) (wl : list name) : list bool :=
  match body with
  | SNil => []
  | SCons s tl =>
      (negb (hse_s s wl) && (negb (Nat.eqb i 0) || negb (is_docstring s))
       && (negb in_try || cannot_raise s) && (negb us_used || negb (mentions_us s)) && negb (iter_unk_s s))
      :: pointless_ctx_from in_try us_used (S i) tl wl
  end.
Definition pointless_ctx (in_try us_used : bool) (body : stmts) (wl : list name) : list bool :=
  pointless_ctx_from in_try us_used 0 body wl.

(* ---------------- parsing.safe_callable_names ---------------- *)
(* A function definition as safe_callable_names sees it: its name, the statements it passes to
   has_side_effect (the body up to the first blocking statement, that statement included unless it is a
   `return`) and the values of all its `return` statements.  The split is made by core.is_blocking
   (FlowModel); here it is part of the input. *)
Record fdef := mkF { f_name : name; f_deco : bool; f_checked : stmts; f_rets : exprs }.
(* [f_deco]: the definition has decorators (a decorator replaces the function by whatever it returns: skipped) *)

Definition fdef_pure (d : fdef) (safe : list name) : bool :=
  negb (f_deco d) && negb (hse_ss (f_checked d) safe) && negb (hse_l (f_rets d) safe).

(* one pass of the `for node in function_defs` loop; [acc] = (safe names, indices of safe nodes) *)
Fixpoint safe_pass (defs : list (nat * fdef)) (shadowed dups : list name) (safe : list name) (nodes : list nat)
  : list name * list nat * bool :=
  match defs with
  | [] => (safe, nodes, false)
  | (i, d) :: tl =>
      if mem (f_name d) shadowed then safe_pass tl shadowed dups safe nodes
      else if fdef_pure d safe then
        (* the definition is remembered; its NAME is whitelisted only when no other definition shares it *)
        let safe' := if mem (f_name d) dups then safe else f_name d :: safe in
        let '(s', n', _) := safe_pass tl shadowed dups safe' (i :: nodes) in (s', n', true)
      else safe_pass tl shadowed dups safe nodes
  end.

Fixpoint safe_loop (fuel : nat) (defs : list (nat * fdef)) (shadowed dups safe : list name) (nodes : list nat)
  : list name * list nat :=
  match fuel with
  | 0 => (safe, nodes)
  | S k =>
      let '(s', n', changed) := safe_pass defs shadowed dups safe nodes in
      if changed
      then safe_loop k (filter (fun p => negb (existsb (Nat.eqb (fst p)) n')) defs) shadowed dups s' n'
      else (s', n')
  end.

Fixpoint number_from {A} (i : nat) (l : list A) : list (nat * A) :=
  match l with [] => [] | x :: tl => (i, x) :: number_from (S i) tl end.

(* classes: (name, indices of the definitions of __init__ / __post_init__ / __new__ in its body) *)
Definition class_safe (nodes : list nat) (c : name * list nat) : bool :=
  forallb (fun i => existsb (Nat.eqb i) nodes) (snd c).

(* [shadowed]: names also bound by something that is not a def (parameter, import, assignment / loop / with /
   except target); [dups]: names shared by several def / class statements; [classes]: the classes without base
   classes, keywords and decorators (the others are skipped by the code before it looks at their constructors) *)
Definition safe_callable_names (base : list name) (shadowed dups : list name) (defs : list fdef)
           (classes : list (name * list nat)) : list name :=
  let '(safe, nodes) := safe_loop (S (List.length defs)) (number_from 0 defs) shadowed dups base [] in
  map fst (filter (fun c => negb (mem (fst c) shadowed) && negb (mem (fst c) dups) && class_safe nodes c) classes)
  ++ safe.

(* ---------------- reference semantics ---------------- *)
Inductive callee :=
| CName (f : name)                    (* f(...) *)
| CMeth (lit_receiver : bool) (a : name)   (* <expr>.a(...) ; lit_receiver: the receiver is a literal constant *)
| CDyn.                               (* anything else *)

Inductive event :=
| EvCall (c : callee)
| EvBind (x : name)                   (* a name of the enclosing scope is (re)bound *)
| EvStoreAttr                         (* x.a = ... *)
| EvStoreSub (into_underscore : bool) (* x[i] = ... *)
| EvOther.                            (* yield / await / import / ... *)

Inductive outcome := ONormal | OAbrupt (c : ctl).

Definition oracle := list nat.
Definition draw (o : oracle) : nat * oracle := match o with [] => (0, []) | x :: t => (x, t) end.
Definition truthy (n : nat) : bool := negb (Nat.eqb n 0).

Definition res := (list event * oracle)%type.

Fixpoint repeat_run (n : nat) (f : oracle -> res) (o : oracle) : res :=
  match n with
  | 0 => ([], o)
  | S m => let '(t1, o1) := f o in let '(t2, o2) := repeat_run m f o1 in (t1 ++ t2, o2)
  end.

Definition callee_of (f : expr) : callee :=
  match f with
  | EName g => CName g
  | EAttr r a => CMeth (is_const r) a
  | _ => CDyn
  end.

(* builtins of SAFE_CALLABLES that call a function they are given (map, filter, sorted(key=), ...):
   a bare name passed to one of them may be called *)
Definition higher_order : list name :=
  ["map"; "filter"; "sorted"; "min"; "max"; "iter"; "__build_class__"]%string.

Fixpoint bare_names (es : exprs) : list name :=
  match es with
  | ENil => []
  | ECons (EName x) tl => x :: bare_names tl
  | ECons _ tl => bare_names tl
  end.

(* each of them may or may not be called (map is lazy, sorted(key=) calls only for a non-empty input) *)
Fixpoint may_calls (xs : list name) (o : oracle) : res :=
  match xs with
  | [] => ([], o)
  | x :: tl =>
      let '(d, o1) := draw o in
      let '(t, o2) := may_calls tl o1 in
      ((if truthy d then [EvCall (CName x)] else []) ++ t, o2)
  end.

Definition ho_calls (f : expr) (args kws : exprs) (o : oracle) : res :=
  match f with
  | EName g => if mem g higher_order then may_calls (bare_names args ++ bare_names kws) o else ([], o)
  | _ => ([], o)
  end.

Fixpoint eval (e : expr) (o : oracle) {struct e} : res :=
  match e with
  | EConst _ => ([], o)
  | EName _ => ([], o)
  | EUnary e => eval e o
  | EBin l r => let '(t1, o1) := eval l o in let '(t2, o2) := eval r o1 in (t1 ++ t2, o2)
  | ECompare l rs => let '(t1, o1) := eval l o in let '(t2, o2) := eval_chain rs o1 in (t1 ++ t2, o2)
  | EBoolOp vs => eval_chain vs o
  | EIfExp t b e' =>
      let '(t1, o1) := eval t o in
      let '(d, o2) := draw o1 in
      let '(t2, o3) := if truthy d then eval b o2 else eval e' o2 in (t1 ++ t2, o3)
  | ESeq es => eval_l es o
  | EDict kvs => eval_l kvs o
  | EAttr e _ => eval e o
  | ESub e i => let '(t1, o1) := eval e o in let '(t2, o2) := eval i o1 in (t1 ++ t2, o2)
  | ESlice lo hi st =>
      let '(t1, o1) := eval lo o in let '(t2, o2) := eval hi o1 in
      let '(t3, o3) := eval st o2 in (t1 ++ t2 ++ t3, o3)
  | ECall f args kws =>
      let '(t1, o1) := eval f o in
      let '(t2, o2) := eval_l args o1 in
      let '(t3, o3) := eval_l kws o2 in
      let '(t4, o4) := ho_calls f args kws o3 in
      (t1 ++ t2 ++ t3 ++ [EvCall (callee_of f)] ++ t4, o4)
  | EStarred e => eval e o
  | EComp elt gs => eval_g gs (eval elt) o
  | EDictComp k v gs =>
      eval_g gs (fun o => let '(t1, o1) := eval k o in let '(t2, o2) := eval v o1 in (t1 ++ t2, o2)) o
  | EFStr ps => eval_l ps o
  | EFmt v s => let '(t1, o1) := eval v o in let '(t2, o2) := eval s o1 in (t1 ++ t2, o2)
  | ELambda _ ds _ => eval_l ds o          (* the body is not evaluated when the lambda is created *)
  | ENamed x v => let '(t1, o1) := eval v o in (t1 ++ [EvBind x], o1)
  | EOther es => let '(t1, o1) := eval_l es o in (t1 ++ [EvOther], o1)
  end
with eval_l (es : exprs) (o : oracle) {struct es} : res :=
  match es with
  | ENil => ([], o)
  | ECons e tl => let '(t1, o1) := eval e o in let '(t2, o2) := eval_l tl o1 in (t1 ++ t2, o2)
  end
(* short-circuit evaluation (and / or / chained comparison): after every operand but the last one the
   evaluation may stop *)
with eval_chain (es : exprs) (o : oracle) {struct es} : res :=
  match es with
  | ENil => ([], o)
  | ECons e ENil => eval e o
  | ECons e tl =>
      let '(t1, o1) := eval e o in
      let '(d, o2) := draw o1 in
      if truthy d then let '(t2, o3) := eval_chain tl o2 in (t1 ++ t2, o3) else (t1, o2)
  end
(* the `if` clauses of one generator, then the continuation *)
with eval_ifs (ifs : exprs) (k : oracle -> res) (o : oracle) {struct ifs} : res :=
  match ifs with
  | ENil => k o
  | ECons c tl =>
      let '(t1, o1) := eval c o in
      let '(d, o2) := draw o1 in
      if truthy d then let '(t2, o3) := eval_ifs tl k o2 in (t1 ++ t2, o3) else (t1, o2)
  end
(* nested generators: the iterable, then for each of its (oracle-many) items the ifs and the rest;
   [k] evaluates the element *)
with eval_g (gs : gens) (k : oracle -> res) (o : oracle) {struct gs} : res :=
  match gs with
  | GNil => k o
  | GCons _ it ifs rest =>
      let '(t1, o1) := eval it o in
      let '(n, o2) := draw o1 in
      let '(t2, o3) := repeat_run n (eval_ifs ifs (eval_g rest k)) o2 in (t1 ++ t2, o3)
  end.

Fixpoint store (t : target) (o : oracle) : res :=
  match t with
  | TName x => ([EvBind x], o)
  | TAttr e _ => let '(t1, o1) := eval e o in (t1 ++ [EvStoreAttr], o1)
  | TSub e i =>
      let '(t1, o1) := eval e o in let '(t2, o2) := eval i o1 in
      (t1 ++ t2 ++ [EvStoreSub (is_underscore e)], o2)
  | TSeq ts => store_l ts o
  | TStar t => store t o
  end
with store_l (ts : targets) (o : oracle) : res :=
  match ts with
  | TNil => ([], o)
  | TCons t tl => let '(t1, o1) := store t o in let '(t2, o2) := store_l tl o1 in (t1 ++ t2, o2)
  end.

(* augmented assignment: the receiver / index of the target are evaluated (and loaded) before the value,
   the store comes last *)
Definition aug_parts (t : target) (o : oracle) : res :=
  match t with
  | TAttr e _ => eval e o
  | TSub e i => let '(t1, o1) := eval e o in let '(t2, o2) := eval i o1 in (t1 ++ t2, o2)
  | _ => ([], o)
  end.
Definition store_event (t : target) : list event :=
  match t with
  | TName x => [EvBind x]
  | TAttr _ _ => [EvStoreAttr]
  | TSub e _ => [EvStoreSub (is_underscore e)]
  | _ => []
  end.

Definition sres := (list event * outcome * oracle)%type.

(* n iterations of a loop: [head] runs at the start of each iteration (the for-target binding or the
   while-test), [body] is the loop body; returns the events, whether the loop was left by `break`, and an
   abrupt outcome that leaves the loop statement *)
Fixpoint iterate (n : nat) (head : oracle -> res) (body : oracle -> sres) (o : oracle)
  : list event * bool * option ctl * oracle :=
  match n with
  | 0 => ([], false, None, o)
  | S m =>
      let '(t1, o1) := head o in
      let '(t2, out, o2) := body o1 in
      match out with
      | ONormal | OAbrupt CContinue =>
          let '(t3, brk, ab, o3) := iterate m head body o2 in (t1 ++ t2 ++ t3, brk, ab, o3)
      | OAbrupt CBreak => (t1 ++ t2, true, None, o2)
      | OAbrupt c => (t1 ++ t2, false, Some c, o2)
      end
  end.

(* a while loop: the test is evaluated, its truth value drawn, before every iteration.  Every iteration
   consumes at least one draw and an exhausted oracle answers 0 (false), so [S (length o)] units of fuel are
   never used up *)
Fixpoint iterate_while (fuel : nat) (test : oracle -> res) (body : oracle -> sres) (o : oracle)
  : list event * bool * option ctl * oracle :=
  match fuel with
  | 0 => ([], false, None, o)
  | S k =>
      let '(t0, o0) := test o in
      let '(d, o1) := draw o0 in
      if truthy d then
        let '(t2, out, o2) := body o1 in
        match out with
        | ONormal | OAbrupt CContinue =>
            let '(t3, brk, ab, o3) := iterate_while k test body o2 in (t0 ++ t2 ++ t3, brk, ab, o3)
        | OAbrupt CBreak => (t0 ++ t2, true, None, o2)
        | OAbrupt c => (t0 ++ t2, false, Some c, o2)
        end
      else (t0, false, None, o1)
  end.

(* decorators are applied (called) bottom-up once the definition exists *)
Fixpoint decorator_calls (decos : exprs) : list event :=
  match decos with
  | ENil => []
  | ECons e tl => decorator_calls tl ++ [EvCall (callee_of e)]
  end.

Fixpoint exec (s : stmt) (o : oracle) : sres :=
  match s with
  | SExpr e => let '(t, o1) := eval e o in (t, ONormal, o1)
  | SAssign ts v =>
      let '(t1, o1) := eval v o in let '(t2, o2) := store_l ts o1 in (t1 ++ t2, ONormal, o2)
  | SAug t v =>
      let '(t1, o1) := aug_parts t o in let '(t2, o2) := eval v o1 in
      (t1 ++ t2 ++ store_event t, ONormal, o2)
  | SPass => ([], ONormal, o)
  | SControl c => ([], OAbrupt c, o)
  | SIf t b e =>
      let '(t1, o1) := eval t o in
      let '(d, o2) := draw o1 in
      let '(t2, out, o3) := if truthy d then exec_ss b o2 else exec_ss e o2 in (t1 ++ t2, out, o3)
  | SFor t it b e =>
      let '(t1, o1) := eval it o in
      let '(n, o2) := draw o1 in
      let '(t2, brk, ab, o3) := iterate n (store t) (exec_ss b) o2 in
      match ab with
      | Some c => (t1 ++ t2, OAbrupt c, o3)
      | None => if brk then (t1 ++ t2, ONormal, o3)
                else let '(t3, out, o4) := exec_ss e o3 in (t1 ++ t2 ++ t3, out, o4)
      end
  | SWhile t b e =>
      let '(t2, brk, ab, o2) := iterate_while (S (List.length o)) (eval t) (exec_ss b) o in
      match ab with
      | Some c => (t2, OAbrupt c, o2)
      | None => if brk then (t2, ONormal, o2)
                else let '(t4, out, o4) := exec_ss e o2 in (t2 ++ t4, out, o4)
      end
  | SWith ctx b =>
      let '(t1, o1) := eval ctx o in
      let '(t2, out, o2) := exec_ss b o1 in
      (t1 ++ [EvCall (CMeth false "__enter__"%string)] ++ t2 ++ [EvCall (CMeth false "__exit__"%string)], out, o2)
  | SDef x decos evald bases cbody =>
      let '(t1, o1) := eval_l decos o in
      let '(t2, o2) := eval_l evald o1 in
      let '(t3, out, o3) := exec_ss cbody o2 in
      match out with
      | ONormal => (t1 ++ t2 ++ t3 ++ (if bases then [EvCall CDyn] else []) ++ decorator_calls decos ++ [EvBind x],
                    ONormal, o3)
      | _ => (t1 ++ t2 ++ t3, out, o3)
      end
  | SOther => ([EvOther], ONormal, o)
  end
with exec_ss (ss : stmts) (o : oracle) : sres :=
  match ss with
  | SNil => ([], ONormal, o)
  | SCons s tl =>
      let '(t1, out, o1) := exec s o in
      match out with
      | ONormal => let '(t2, out2, o2) := exec_ss tl o1 in (t1 ++ t2, out2, o2)
      | _ => (t1, out, o1)
      end
  end.

(* which events are harmless: calls of callables declared safe, methods of literals, and -- the tool's
   documented convention -- (re)binding / storing into the throw-away name `_` *)
Definition benign (wl : list name) (ev : event) : bool :=
  match ev with
  | EvCall (CName g) => mem g wl
  | EvCall (CMeth true _) => true
  | EvBind x => String.eqb x underscore
  | EvStoreSub true => true
  | _ => false
  end.

(* ---------------- the guard of the partial theorem ----------------
   has_side_effect identifies callees by bare name.  The guard asks that every call in the tree has a
   callee that can be identified that way: a plain name other than `_`, or a method of a literal; and
   that no higher-order builtin receives a bare name (which it might call). *)
Definition is_enil (es : exprs) : bool := match es with ENil => true | _ => false end.
Definition no_bare (args kws : exprs) : bool :=
  match bare_names args ++ bare_names kws with [] => true | _ => false end.

Definition call_ok (f : expr) (args kws : exprs) : bool :=
  match f with
  | EName g => negb (String.eqb g underscore) && (negb (mem g higher_order) || no_bare args kws)
  | EAttr r _ => is_const r
  | _ => false
  end.

Fixpoint plain (e : expr) : bool :=
  match e with
  | EConst _ | EName _ => true
  | EUnary e => plain e
  | EBin l r => plain l && plain r
  | ECompare l rs => plain l && plain_l rs
  | EBoolOp vs => plain_l vs
  | EIfExp t b o => plain t && plain b && plain o
  | ESeq es => plain_l es
  | EDict kvs => plain_l kvs
  | EAttr e _ => plain e
  | ESub e i => plain e && plain i
  | ESlice lo hi st => plain lo && plain hi && plain st
  | ECall f args kws => call_ok f args kws && plain f && plain_l args && plain_l kws
  | EStarred e => plain e
  | EComp elt gs => plain elt && plain_g gs
  | EDictComp k v gs => plain k && plain v && plain_g gs
  | EFStr ps => plain_l ps
  | EFmt v s => plain v && plain s
  | ELambda _ ds b => plain_l ds && plain b
  | ENamed _ v => plain v
  | EOther es => plain_l es
  end
with plain_l (es : exprs) : bool :=
  match es with ENil => true | ECons e tl => plain e && plain_l tl end
with plain_g (gs : gens) : bool :=
  match gs with
  | GNil => true
  | GCons _ it ifs rest => plain it && plain_l ifs && plain_g rest
  end.

Fixpoint plain_t (t : target) : bool :=
  match t with
  | TName _ => true
  | TAttr e _ => plain e
  | TSub e i => plain e && plain i
  | TSeq ts => plain_ts ts
  | TStar t => plain_t t
  end
with plain_ts (ts : targets) : bool :=
  match ts with TNil => true | TCons t tl => plain_t t && plain_ts tl end.

Fixpoint plain_s (s : stmt) : bool :=
  match s with
  | SExpr e => plain e
  | SAssign ts v => plain_ts ts && plain v
  | SAug t v => plain_t t && plain v
  | SPass | SControl _ | SOther => true
  | SIf t b o => plain t && plain_ss b && plain_ss o
  | SFor t it b o => plain_t t && plain it && plain_ss b && plain_ss o
  | SWhile t b o => plain t && plain_ss b && plain_ss o
  | SWith ctx b => plain ctx && plain_ss b
  | SDef _ decos evald _ cbody => plain_l decos && plain_l evald && plain_ss cbody
  end
with plain_ss (ss : stmts) : bool :=
  match ss with SNil => true | SCons s tl => plain_s s && plain_ss tl end.

(* builtins that are certainly not free of side effects: none of them may be in SAFE_CALLABLES *)
Definition impure_builtins : list name :=
  ["next"; "anext"; "help"; "input"; "print"; "open"; "exec"; "eval"; "compile"; "setattr"; "delattr";
   "breakpoint"; "exit"; "quit"; "copyright"; "credits"; "license"; "__import__"; "globals"; "locals";
   "__build_class__"]%string.
