(* C02, statement-merging / collection-literal tranche.

   A small statement language over the expression fragment of RulesExprModel.v (assignment, `x[k] = v`,
   `x.append/extend/add/update(...)`, expression statements, return, if, for with the iterator sources
   `e`, `filter(f, e)`, `e.keys()/.values()/.items()`), its reference semantics (a trusted definition,
   validated against CPython by harness/c02_coll.py) and faithful models of pyrefact's rules

     fixes.replace_dict_assign_with_dict_literal        fixes.replace_dict_update_with_dict_literal
     fixes.replace_dictcomp_assign_with_dict_literal    fixes.replace_dictcomp_update_with_dict_literal
     fixes.replace_collection_add_update_with_collection_literal
     fixes.breakout_starred_args     fixes.simplify_assign_immediate_return     fixes.replace_with_filter
     fixes.implicit_dict_keys_values_items (for-statement forms items -> keys / values)
     fixes.simplify_redundant_lambda (at the level of one application of the lambda)
     fixes.fix_raise_missing_from (exception record)      fixes.implicit_defaultdict (one loop step)

   Models only; proofs are in RulesCollProofs.v. *)
From Coq Require Import List ZArith Bool Lia Arith.
Import ListNotations.
Require Import Pyrefact.RulesExprModel.
Open Scope Z_scope.

(* =========================================================================================== *)
(* Stores: association lists sorted by name, so that equal bindings are equal stores *)

Definition store := list (nat * val).

Fixpoint sget (s : store) (x : nat) : option val :=
  match s with
  | [] => None
  | (y, v) :: tl => if Nat.eqb x y then Some v else sget tl x
  end.

Fixpoint sset (s : store) (x : nat) (v : val) : store :=
  match s with
  | [] => [(x, v)]
  | (y, w) :: tl =>
      if Nat.ltb x y then (x, v) :: s
      else if Nat.eqb x y then (y, v) :: tl
      else (y, w) :: sset tl x v
  end.

Fixpoint sbind_names (xs : list nat) (vs : list val) (s : store) : option store :=
  match xs, vs with
  | [], [] => Some s
  | x :: xs', v :: vs' => sbind_names xs' vs' (sset s x v)
  | _, _ => None
  end.

Definition sbind (t : tgt) (v : val) (s : store) : option store :=
  match t with
  | TName x => Some (sset s x v)
  | TTup xs => match items_of v with Some vs => sbind_names xs vs s | None => None end
  end.

Definition tgt_names (t : tgt) : list nat := match t with TName x => [x] | TTup xs => xs end.

(* =========================================================================================== *)
(* Syntactic predicates on expressions *)

Definition tgt_binds (x : nat) (t : tgt) : bool := existsb (Nat.eqb x) (tgt_names t).

(* does the name x occur in e (read, or bound by a comprehension): mirror of
   `any(isinstance(n, ast.Name) and n.id == x for n in ast.walk(e))` *)
Fixpoint mentions (x : nat) (e : expr) : bool :=
  match e with
  | EConst _ => false
  | EName y => Nat.eqb y x
  | ECall _ args | EBi _ args | ESeq _ args | EDict args => existsb (mentions x) args
  | ECmp l rest => mentions x l || existsb (mentions x) rest
  | ENot e1 | EStar e1 | EKw _ e1 | EDStar e1 | EOp _ e1 => mentions x e1
  | EKV k v => mentions x k || mentions x v
  | EComp _ elt dval t iter ifs =>
      tgt_binds x t || mentions x elt || mentions x dval || mentions x iter || existsb (mentions x) ifs
  end.

(* mirror of `not core.has_side_effect(e)` (empty whitelist: every call counts as an effect; a
   comprehension with a tuple target counts as an effect) *)
Fixpoint pure (e : expr) : bool :=
  match e with
  | EConst _ | EName _ => true
  | ECall _ _ | EBi _ _ => false
  | ESeq _ l | EDict l => forallb pure l
  | ECmp l rest => pure l && forallb pure rest
  | ENot a | EStar a | EKw _ a | EDStar a | EOp _ a => pure a
  | EKV k v => pure k && pure v
  | EComp _ elt dval t iter ifs =>
      pure elt && pure dval && (match t with TName _ => true | TTup _ => false end) && pure iter && forallb pure ifs
  end.

(* expressions whose value is a NEW mutable object *)
Definition fresh (e : expr) : bool :=
  match e with
  | ESeq KList _ | ESeq KSet _ | EDict _ => true
  | EComp CList _ _ _ _ _ | EComp CSet _ _ _ _ _ | EComp CDict _ _ _ _ _ => true
  | EBi BList _ | EBi BSet _ | EBi BDict _ | EBi BSorted _ => true
  | _ => false
  end.

(* =========================================================================================== *)
(* Statements *)

Inductive meth := MAppend | MExtend | MAdd | MUpdate.

Inductive isrc :=
| IPlain (e : expr)                        (* for t in e *)
| IFilter (f : option nat) (e : expr)      (* for t in filter(None | f_n, e) *)
| IKeys (e : expr)                         (* for t in e.keys() *)
| IValues (e : expr)
| IItems (e : expr).

Inductive stmt :=
| SAssign (x : nat) (e : expr)             (* x = e *)
| SSetItem (x : nat) (k v : expr)          (* x[k] = v *)
| SMeth (x : nat) (m : meth) (args : list expr)   (* x.m(args) as a statement *)
| SExpr (e : expr)
| SRet (e : expr)
| SPass | SCont | SBreak
| SIf (c : expr) (b1 b2 : list stmt)
| SFor (t : tgt) (it : isrc) (body : list stmt).

Inductive outcome := ONormal | OCont | OBreak | ORet (v : val).

(* State: the variables, the name whose (mutable) value is known to be referenced from nowhere else
   ("owned": bound by the latest `x = <new object>` and not read since), the trace of opaque calls.
   Values are immutable terms; a mutation `x.append(v)` rebinds x.  That is the meaning of the
   Python statement only if no other reference to the object exists, so the semantics is DEFINED
   (Some) only for mutations of the owned name; everything else is outside the model (None, like a
   raised exception). *)
Record state := mkSt { st_store : store; st_own : option nat; st_trace : trace }.

(* The results of opaque calls may depend on the variables (a function that reads a global) *)
Definition worlds := store -> world.

Definition read_own (o : option nat) (es : list expr) : option nat :=
  match o with
  | Some x => if existsb (mentions x) es then None else o
  | None => None
  end.
Definition rebind_own (o : option nat) (y : nat) : option nat :=
  match o with
  | Some x => if Nat.eqb x y then None else o
  | None => None
  end.
Definition is_owned (o : option nat) (x : nat) : bool :=
  match o with Some y => Nat.eqb x y | None => false end.

Definition apply_meth (m : meth) (recv : val) (args : list val) : option val :=
  match m, recv, args with
  | MAppend, VList l, [a] => Some (VList (l ++ [a]))
  | MExtend, VList l, [a] => option_map (fun its => VList (l ++ its)) (items_of a)
  | MAdd, VSet s, [a] => if hashable a then Some (VSet (set_add s a)) else None
  | MUpdate, VSet s, _ =>
      match all_items args with
      | Some ls => if forallb hashable (concat ls) then Some (VSet (fold_left set_add (concat ls) s)) else None
      | None => None
      end
  | MUpdate, VDict d, [VDict d'] => Some (VDict (dict_update d d'))
  | _, _, _ => None
  end.

Definition isrc_expr (it : isrc) : expr :=
  match it with IPlain e | IFilter _ e | IKeys e | IValues e | IItems e => e end.

Definition src_items (it : isrc) (v : val) : option (list val) :=
  match it with
  | IPlain _ | IFilter _ _ => items_of v
  | IKeys _ => match v with VDict d => Some (map fst d) | _ => None end
  | IValues _ => match v with VDict d => Some (map snd d) | _ => None end
  | IItems _ => match v with VDict d => Some (map (fun kv => VTuple [fst kv; snd kv]) d) | _ => None end
  end.

(* the test of filter(f, ..) on one item *)
Definition accept (W : worlds) (it : isrc) (v : val) (q : state) : option (bool * state) :=
  match it with
  | IFilter None _ => Some (truthy v, q)
  | IFilter (Some g) _ =>
      match call_or (W (st_store q)) (st_trace q) g [v] with
      | Some r => Some (truthy r, mkSt (st_store q) (st_own q) (st_trace q ++ [(g, [v])]))
      | None => None
      end
  | _ => Some (true, q)
  end.

Definition eval_in (W : worlds) (e : expr) (q : state) : option (val * trace) :=
  eval (W (st_store q)) e (sget (st_store q)) (st_trace q).

Fixpoint exec_stmt (W : worlds) (s : stmt) (q : state) {struct s} : option (outcome * state) :=
  let blk := fix blk (b : list stmt) (q : state) {struct b} : option (outcome * state) :=
    match b with
    | [] => Some (ONormal, q)
    | s1 :: tl =>
        match exec_stmt W s1 q with
        | Some (ONormal, q1) => blk tl q1
        | r => r
        end
    end in
  match s with
  | SAssign y e =>
      match eval_in W e q with
      | Some (v, tr1) =>
          let o1 := read_own (st_own q) [e] in
          Some (ONormal, mkSt (sset (st_store q) y v) (if fresh e then Some y else rebind_own o1 y) tr1)
      | None => None
      end
  | SSetItem x k v =>
      if is_owned (st_own q) x then
        match eval_in W v q with
        | Some (vv, tr1) =>
            match eval (W (st_store q)) k (sget (st_store q)) tr1 with
            | Some (kv, tr2) =>
                match sget (st_store q) x with
                | Some (VDict d) =>
                    if hashable kv && (negb (mentions x k || mentions x v) || hashable vv)
                    then Some (ONormal, mkSt (sset (st_store q) x (VDict (dict_set d kv vv))) (st_own q) tr2)
                    else None
                | _ => None
                end
            | None => None
            end
        | None => None
        end
      else None
  | SMeth x m args =>
      if is_owned (st_own q) x then
        match sget (st_store q) x with
        | Some recv =>
            match eval_elts (eval (W (st_store q))) (sget (st_store q)) args (st_trace q) with
            | Some (vs, tr1) =>
                if negb (existsb (mentions x) args) || forallb hashable vs then
                  match apply_meth m recv vs with
                  | Some r => Some (ONormal, mkSt (sset (st_store q) x r) (st_own q) tr1)
                  | None => None
                  end
                else None
            | None => None
            end
        | None => None
        end
      else None
  | SExpr e =>
      match eval_in W e q with
      | Some (_, tr1) => Some (ONormal, mkSt (st_store q) (read_own (st_own q) [e]) tr1)
      | None => None
      end
  | SRet e =>
      match eval_in W e q with
      | Some (v, tr1) => Some (ORet v, mkSt (st_store q) (read_own (st_own q) [e]) tr1)
      | None => None
      end
  | SPass => Some (ONormal, q)
  | SCont => Some (OCont, q)
  | SBreak => Some (OBreak, q)
  | SIf c b1 b2 =>
      match eval_in W c q with
      | Some (cv, tr1) =>
          let q1 := mkSt (st_store q) (read_own (st_own q) [c]) tr1 in
          if truthy cv then blk b1 q1 else blk b2 q1
      | None => None
      end
  | SFor t it body =>
      match eval_in W (isrc_expr it) q with
      | Some (itv, tr1) =>
          match src_items it itv with
          | Some items =>
              let o1 := fold_left rebind_own (tgt_names t) (read_own (st_own q) [isrc_expr it]) in
              (fix loop (items : list val) (q : state) {struct items} : option (outcome * state) :=
                 match items with
                 | [] => Some (ONormal, q)
                 | v :: rest =>
                     match accept W it v q with
                     | Some (true, q1) =>
                         match sbind t v (st_store q1) with
                         | Some s' =>
                             match blk body (mkSt s' (fold_left rebind_own (tgt_names t) (st_own q1)) (st_trace q1)) with
                             | Some (ONormal, q2) | Some (OCont, q2) => loop rest q2
                             | Some (OBreak, q2) => Some (ONormal, q2)
                             | r => r
                             end
                         | None => None
                         end
                     | Some (false, q1) => loop rest q1
                     | None => None
                     end
                 end) items (mkSt (st_store q) o1 tr1)
          | None => None
          end
      | None => None
      end
  end.

Definition exec_block (W : worlds) : list stmt -> state -> option (outcome * state) :=
  fix blk (b : list stmt) (q : state) {struct b} : option (outcome * state) :=
    match b with
    | [] => Some (ONormal, q)
    | s1 :: tl =>
        match exec_stmt W s1 q with
        | Some (ONormal, q1) => blk tl q1
        | r => r
        end
    end.

(* the loop of a for statement, as a function of its own *)
Definition exec_loop (W : worlds) (t : tgt) (it : isrc) (body : list stmt)
  : list val -> state -> option (outcome * state) :=
  fix loop (items : list val) (q : state) {struct items} : option (outcome * state) :=
    match items with
    | [] => Some (ONormal, q)
    | v :: rest =>
        match accept W it v q with
        | Some (true, q1) =>
            match sbind t v (st_store q1) with
            | Some s' =>
                match exec_block W body (mkSt s' (fold_left rebind_own (tgt_names t) (st_own q1)) (st_trace q1)) with
                | Some (ONormal, q2) | Some (OCont, q2) => loop rest q2
                | Some (OBreak, q2) => Some (ONormal, q2)
                | r => r
                end
            | None => None
            end
        | Some (false, q1) => loop rest q1
        | None => None
        end
    end.

(* =========================================================================================== *)
(* Rule models, group A: `x = <display>` followed by statements that fill x, merged into one display
   (core.walk_sequence(..., expand_last=True) on one statement list).

   After the repairs of this tranche a following statement is folded only if it does not mention x
   (F02coll-1), for `x[k] = v` if key and value are not both effectful (the display evaluates the key
   first, the assignment the value: F02coll-2), for append/add if it has exactly one plain argument and
   for extend/update if no argument is starred (F02coll-3). *)

Inductive mrule := MDictAssign | MDictUpdate | MDictCompAssign | MDictCompUpdate | MCollAdd.
Inductive akind := AKDict | AKList | AKSet.

Definition display (k : akind) (ps : list expr) : expr :=
  match k with AKDict => EDict ps | AKList => ESeq KList ps | AKSet => ESeq KSet ps end.

Definition is_dict_expr (e : expr) : bool :=
  match e with EDict _ | EComp CDict _ _ _ _ _ => true | _ => false end.

Definition init_of (r : mrule) (s : stmt) : option (nat * akind * list expr) :=
  match s with
  | SAssign x e =>
      match r, e with
      | MDictAssign, EDict items | MDictUpdate, EDict items => Some (x, AKDict, items)
      | MDictCompAssign, EComp CDict _ _ _ _ _ | MDictCompUpdate, EComp CDict _ _ _ _ _ => Some (x, AKDict, [EDStar e])
      | MCollAdd, ESeq KList elts => Some (x, AKList, elts)
      | MCollAdd, ESeq KSet elts => Some (x, AKSet, elts)
      | MCollAdd, EComp CList _ _ _ _ _ => Some (x, AKList, [EStar e])
      | MCollAdd, EComp CSet _ _ _ _ _ => Some (x, AKSet, [EStar e])
      | MCollAdd, EBi BSet [] => Some (x, AKSet, [])
      | MCollAdd, EBi BSet [a] => if plain a then Some (x, AKSet, [EStar a]) else None
      | _, _ => None
      end
  | _ => None
  end.

Definition inline_arg (a : expr) : list expr :=
  match a with
  | ESeq KList l | ESeq KTuple l => l
  | _ => [EStar a]
  end.

Definition mod_of (r : mrule) (x : nat) (s : stmt) : option (list expr) :=
  match r, s with
  | MDictAssign, SSetItem y k v | MDictCompAssign, SSetItem y k v =>
      if Nat.eqb y x && negb (mentions x k || mentions x v) && (pure k || pure v) then Some [EKV k v] else None
  | MDictUpdate, SMeth y MUpdate [a] | MDictCompUpdate, SMeth y MUpdate [a] =>
      if Nat.eqb y x && negb (mentions x a) && is_dict_expr a then Some [EDStar a] else None
  | MCollAdd, SMeth y m args =>
      if Nat.eqb y x && negb (existsb (mentions x) args) then
        match m with
        | MAppend | MAdd => match args with [a] => if plain a then Some [a] else None | _ => None end
        | MExtend | MUpdate => if forallb plain args then Some (flat_map inline_arg args) else None
        end
      else None
  | _, _ => None
  end.

(* an open transaction: the original first statement, target, kind, display pieces, anything folded? *)
Definition cur := (stmt * nat * akind * list expr * bool)%type.

Definition flush (c : option cur) : list stmt :=
  match c with
  | None => []
  | Some (s0, x, k, ps, folded) => if folded then [SAssign x (display k ps)] else [s0]
  end.

Definition start (r : mrule) (s : stmt) : option cur :=
  match init_of r s with Some (x, k, ps) => Some (s, x, k, ps, false) | None => None end.

Fixpoint scan (r : mrule) (c : option cur) (b : list stmt) : list stmt :=
  match b with
  | [] => flush c
  | s :: tl =>
      let restart := match start r s with Some c' => scan r (Some c') tl | None => s :: scan r None tl end in
      match c with
      | Some (s0, x, k, ps, fo) =>
          match mod_of r x s with
          | Some more => scan r (Some (s0, x, k, ps ++ more, true)) tl
          | None => flush c ++ restart
          end
      | None => restart
      end
  end.

Definition merge_block (r : mrule) (b : list stmt) : list stmt := scan r None b.

(* the pass in every statement list of a nested program (core.walk_sequence visits every body / orelse) *)
Fixpoint merge_s (r : mrule) (s : stmt) : stmt :=
  let mb := fix mb (b : list stmt) : list stmt :=
    match b with [] => [] | s1 :: tl => merge_s r s1 :: mb tl end in
  match s with
  | SIf c b1 b2 => SIf c (merge_block r (mb b1)) (merge_block r (mb b2))
  | SFor t it body => SFor t it (merge_block r (mb body))
  | _ => s
  end.
Definition merge_deep (r : mrule) (b : list stmt) : list stmt := merge_block r (map (merge_s r) b).

(* the rules before the repairs: every following statement of the right shape is folded *)
Definition mod_of_old (r : mrule) (x : nat) (s : stmt) : option (list expr) :=
  match r, s with
  | MDictAssign, SSetItem y k v | MDictCompAssign, SSetItem y k v =>
      if Nat.eqb y x then Some [EKV k v] else None
  | MDictUpdate, SMeth y MUpdate [a] | MDictCompUpdate, SMeth y MUpdate [a] =>
      if Nat.eqb y x && is_dict_expr a then Some [EDStar a] else None
  | MCollAdd, SMeth y m args =>
      if Nat.eqb y x then
        match m with
        | MAppend | MAdd => match args with a :: _ => Some [a] | [] => None end
        | MExtend | MUpdate => Some (flat_map inline_arg args)
        end
      else None
  | _, _ => None
  end.

Fixpoint scan_old (r : mrule) (c : option cur) (b : list stmt) : list stmt :=
  match b with
  | [] => flush c
  | s :: tl =>
      let restart := match start r s with Some c' => scan_old r (Some c') tl | None => s :: scan_old r None tl end in
      match c with
      | Some (s0, x, k, ps, fo) =>
          match mod_of_old r x s with
          | Some more => scan_old r (Some (s0, x, k, ps ++ more, true)) tl
          | None => flush c ++ restart
          end
      | None => restart
      end
  end.

(* =========================================================================================== *)
(* fixes.breakout_starred_args: `f( *[a, b], c)` becomes `f(a, b, c)`; a one-element set display is unpacked too
   (after the repair F02coll-4: unless its element is starred) *)

Definition splice_arg (a : expr) : option (list expr) :=
  match a with
  | EStar (ESeq KList l) | EStar (ESeq KTuple l) => Some l
  | EStar (ESeq KSet [x]) => if is_star x then None else Some [x]
  | _ => None
  end.

Definition splice_args (args : list expr) : list expr :=
  flat_map (fun a => match splice_arg a with Some l => l | None => [a] end) args.

Definition rw_starargs (e : expr) : option expr :=
  match e with
  | ECall f args => if existsb (fun a => match splice_arg a with Some _ => true | None => false end) args
                    then Some (ECall f (splice_args args)) else None
  | EBi b args => if existsb (fun a => match splice_arg a with Some _ => true | None => false end) args
                  then Some (EBi b (splice_args args)) else None
  | _ => None
  end.

(* =========================================================================================== *)
(* fixes.simplify_assign_immediate_return: `x = e; return x` -> `return e` inside a function where x is
   assigned exactly once (and, after the repair F02coll-5, read nowhere else) *)

Fixpoint count_s (x : nat) (s : stmt) : nat :=
  let cb := fix cb (l : list stmt) : nat :=
    match l with [] => O | s1 :: l' => (count_s x s1 + cb l')%nat end in
  match s with
  | SAssign y _ => if Nat.eqb y x then 1%nat else O
  | SIf _ b1 b2 => (cb b1 + cb b2)%nat
  | SFor _ _ body => cb body
  | _ => O
  end.
Definition count_b (x : nat) (b : list stmt) : nat := fold_right (fun s n => (count_s x s + n)%nat) O b.

(* number of Name(id=x, ctx=Load) nodes *)
Fixpoint loads (x : nat) (e : expr) : nat :=
  let ll := fix ll (l : list expr) : nat := match l with [] => O | a :: l' => (loads x a + ll l')%nat end in
  match e with
  | EConst _ => O
  | EName y => if Nat.eqb y x then 1%nat else O
  | ECall _ args | EBi _ args | ESeq _ args | EDict args => ll args
  | ECmp l rest => (loads x l + ll rest)%nat
  | ENot e1 | EStar e1 | EKw _ e1 | EDStar e1 | EOp _ e1 => loads x e1
  | EKV k v => (loads x k + loads x v)%nat
  | EComp k elt dval _ iter ifs =>
      (loads x elt + (match k with CDict => loads x dval | _ => O end) + loads x iter + ll ifs)%nat
  end.
Definition loads_l (x : nat) (l : list expr) : nat := fold_right (fun e n => (loads x e + n)%nat) O l.
Definition name_load (x y : nat) : nat := if Nat.eqb x y then 1%nat else O.

Fixpoint loads_s (x : nat) (s : stmt) : nat :=
  let lb := fix lb (l : list stmt) : nat :=
    match l with [] => O | s1 :: l' => (loads_s x s1 + lb l')%nat end in
  match s with
  | SAssign _ e | SExpr e | SRet e => loads x e
  | SSetItem y k v => (name_load x y + loads x k + loads x v)%nat
  | SMeth y _ args => (name_load x y + loads_l x args)%nat
  | SPass | SCont | SBreak => O
  | SIf c b1 b2 => (loads x c + lb b1 + lb b2)%nat
  | SFor _ it body => (loads x (isrc_expr it) + lb body)%nat
  end.
Definition loads_b (x : nat) (b : list stmt) : nat := fold_right (fun s n => (loads_s x s + n)%nat) O b.

(* ok x: may `x = e; return x` be contracted, judged on the whole function body *)
Fixpoint immret_s (ok : nat -> bool) (s : stmt) : stmt :=
  let ib := fix ib (b : list stmt) : list stmt :=
    match b with
    | [] => []
    | s1 :: tl =>
        match s1, tl with
        | SAssign x e, SRet (EName y) :: tl' =>
            if Nat.eqb x y && ok x then SRet e :: ib tl' else immret_s ok s1 :: ib tl
        | _, _ => immret_s ok s1 :: ib tl
        end
    end in
  match s with
  | SIf c b1 b2 => SIf c (ib b1) (ib b2)
  | SFor t it body => SFor t it (ib body)
  | _ => s
  end.
Definition immret_b (ok : nat -> bool) : list stmt -> list stmt :=
  fix ib (b : list stmt) : list stmt :=
    match b with
    | [] => []
    | s1 :: tl =>
        match s1, tl with
        | SAssign x e, SRet (EName y) :: tl' =>
            if Nat.eqb x y && ok x then SRet e :: ib tl' else immret_s ok s1 :: ib tl
        | _, _ => immret_s ok s1 :: ib tl
        end
    end.
Definition immret_ok (body : list stmt) (x : nat) : bool :=
  Nat.eqb (count_b x body) 1 && Nat.eqb (loads_b x body) 1.
Definition immret_ok_old (body : list stmt) (x : nat) : bool := Nat.eqb (count_b x body) 1.
Definition rw_immret (body : list stmt) : list stmt := immret_b (immret_ok body) body.
Definition rw_immret_old (body : list stmt) : list stmt := immret_b (immret_ok_old body) body.

(* =========================================================================================== *)
(* fixes.replace_with_filter, on one for statement (body of exactly one statement: the `{{body}}`
   wildcard of the real template matches a single statement).  After the repair F02coll-6 the test
   callable must be a plain name other than the loop variable; here: an opaque function f_n. *)

Definition filter_test (x : nat) (c : expr) : option (option nat) :=
  match c with
  | EName y => if Nat.eqb x y then Some None else None
  | ECall g [EName y] => if Nat.eqb x y then Some (Some g) else None
  | _ => None
  end.

(* before 295ec41 a compound body statement was pasted without its inner indentation by the template back
   end and the unparsable text rolled back (the rule was silent on it: `rw_filter_old`); the repaired
   back end indents every line of the statement, so the rule now fires on compound bodies too *)
Definition simple_stmt (s : stmt) : bool :=
  match s with SIf _ _ _ | SFor _ _ _ => false | _ => true end.

(* the two body shapes: (test, the one statement, negative form?) *)
Definition filter_shape (body : list stmt) : option (expr * stmt * bool) :=
  match body with
  | [SIf c [s1] []] => Some (c, s1, false)
  | [SIf (ENot c) [SCont] []; s1] => Some (c, s1, true)
  | _ => None
  end.

Definition rw_filter (s : stmt) : option stmt :=
  match s with
  | SFor (TName x) (IPlain e) body =>
      match filter_shape body with
      | Some (c, s1, _) =>
          match filter_test x c with
          | Some f => Some (SFor (TName x) (IFilter f e) [s1])
          | None => None
          end
      | None => None
      end
  | _ => None
  end.
Definition rw_filter_old (s : stmt) : option stmt :=
  match s with
  | SFor _ _ body =>
      match filter_shape body with
      | Some (_, s1, _) => if simple_stmt s1 then rw_filter s else None
      | None => None
      end
  | _ => None
  end.

(* =========================================================================================== *)
(* fixes.implicit_dict_keys_values_items, for-statement forms `for k, _ in d.items()` -> `for k in
   d.keys()` and `for _, v in d.items()` -> `for v in d.values()`; after the repair F02coll-7 only when
   `_` is read nowhere in the file (us_read = fixes._reads_underscore) *)

Definition rw_items (us_read : bool) (s : stmt) : option stmt :=
  match s with
  | SFor (TTup [k; u]) (IItems e) body =>
      if us_read then None
      else if Nat.eqb u underscore then Some (SFor (TName k) (IKeys e) body)
      else if Nat.eqb k underscore then Some (SFor (TName u) (IValues e) body)
      else None
  | _ => None
  end.
Definition rw_items_old (s : stmt) : option stmt := rw_items false s.

Fixpoint reads_us_s (s : stmt) : bool :=
  let rb := fix rb (l : list stmt) : bool :=
    match l with [] => false | s1 :: l' => reads_us_s s1 || rb l' end in
  match s with
  | SAssign _ e | SExpr e | SRet e => reads_us e
  | SSetItem y k v => Nat.eqb y underscore || reads_us k || reads_us v
  | SMeth y _ args => Nat.eqb y underscore || existsb reads_us args
  | SPass | SCont | SBreak => false
  | SIf c b1 b2 => reads_us c || rb b1 || rb b2
  | SFor _ it body => reads_us (isrc_expr it) || rb body
  end.
Definition reads_us_b (b : list stmt) : bool := existsb reads_us_s b.

(* =========================================================================================== *)
(* fixes.simplify_redundant_lambda, judged on one application of the lambda.  A lambda is
   (positional parameters, number of defaults, *vararg, body); the replacement is a builtin or the
   opaque function itself.  After the repairs F02coll-8: no defaults, callee not a parameter. *)

Record lam := mkLam { l_params : list nat; l_ndefaults : nat; l_vararg : option nat; l_body : expr }.
Inductive lrepl := LBi (b : bi) | LFun (f : nat).

(* are the call arguments exactly the parameters, in order, and *vararg *)
Fixpoint is_forward (xs : list nat) (va : option nat) (args : list expr) : bool :=
  match xs, args with
  | x :: xs', EName y :: args' => Nat.eqb x y && is_forward xs' va args'
  | [], [EStar (EName y)] => match va with Some a => Nat.eqb a y | None => false end
  | [], [] => match va with Some _ => false | None => true end
  | _, _ => false
  end.

Definition seq_bi (k : skind) : bi := match k with KList => BList | KTuple => BTuple | KSet => BSet end.

Definition lam_literal (l : lam) : option lrepl :=
  match l_params l, l_vararg l with
  | [], None =>
      match l_body l with
      | ESeq KList [] => Some (LBi BList)
      | ESeq KTuple [] => Some (LBi BTuple)
      | EDict [] => Some (LBi BDict)
      | _ => None
      end
  | [x], None =>
      match l_body l with
      | ESeq k [EStar (EName y)] => if Nat.eqb x y then Some (LBi (seq_bi k)) else None
      | _ => None
      end
  | _, _ => None
  end.

Definition lam_forward (l : lam) : option lrepl :=
  match l_body l with
  | ECall f args => if is_forward (l_params l) (l_vararg l) args then Some (LFun f) else None
  | EBi b args => if is_forward (l_params l) (l_vararg l) args then Some (LBi b) else None
  | _ => None
  end.

Definition rw_lambda_gen (check_defaults : bool) (l : lam) : option lrepl :=
  if check_defaults && negb (Nat.eqb (l_ndefaults l) 0) then None
  else match lam_literal l with Some r => Some r | None => lam_forward l end.
Definition rw_lambda := rw_lambda_gen true.
Definition rw_lambda_old := rw_lambda_gen false.

(* calling the lambda with positional arguments (defaults are not modelled: a lambda with defaults
   called with fewer arguments is outside the model) *)
Fixpoint bind_params (xs : list nat) (vs : list val) (en : env) : option (env * list val) :=
  match xs, vs with
  | [], _ => Some (en, vs)
  | x :: xs', v :: vs' => bind_params xs' vs' (upd en x v)
  | _ :: _, [] => None
  end.

Definition apply_lam (w : world) (l : lam) (en : env) (args : list val) (tr : trace) : option (val * trace) :=
  match bind_params (l_params l) args en with
  | Some (en1, rest) =>
      match l_vararg l, rest with
      | Some a, _ => eval w (l_body l) (upd en1 a (VTuple rest)) tr
      | None, [] => eval w (l_body l) en1 tr
      | None, _ :: _ => None
      end
  | None => None
  end.

Definition apply_repl (w : world) (r : lrepl) (args : list val) (tr : trace) : option (val * trace) :=
  match r with
  | LBi b => match bapply b args [] with Some v => Some (v, tr) | None => None end
  | LFun f => match call_or w tr f args with Some v => Some (v, tr ++ [(f, args)]) | None => None end
  end.

(* =========================================================================================== *)
(* fixes.fix_raise_missing_from: what a handler that catches c and executes `raise X` / `raise X from
   error` (error bound to c) propagates *)

Record exn := mkExn { x_value : val; x_cause : option val; x_context : option val; x_suppress : bool }.
Definition raise_plain (caught x : val) : exn := mkExn x None (Some caught) false.
Definition raise_from (caught x : val) : exn := mkExn x (Some caught) (Some caught) true.

(* =========================================================================================== *)
(* fixes.implicit_defaultdict: one step of the loop body.  `if k not in d: d[k] = []` followed by
   `d[k].append(v)` on a dict, against `d[k].append(v)` on a collections.defaultdict(list) *)

Fixpoint dict_get (d : list (val * val)) (k : val) : option val :=
  match d with
  | [] => None
  | (k', v) :: tl => if key_eqb k' k then Some v else dict_get tl k
  end.

Definition dd_kind_append (list_kind : bool) (cur v : val) : option val :=
  match list_kind, cur with
  | true, VList l => Some (VList (l ++ [v]))
  | false, VSet s => if hashable v then Some (VSet (set_add s v)) else None
  | _, _ => None
  end.
Definition dd_empty (list_kind : bool) : val := if list_kind then VList [] else VSet [].

(* the original two statements on a plain dict *)
Definition plain_step (list_kind : bool) (d : list (val * val)) (k v : val) : option (list (val * val)) :=
  if hashable k then
    let d1 := match dict_get d k with Some _ => d | None => dict_set d k (dd_empty list_kind) end in
    match dict_get d1 k with
    | Some c => option_map (dict_set d1 k) (dd_kind_append list_kind c v)
    | None => None
    end
  else None.
(* the rewritten single statement on a defaultdict: __missing__ inserts factory() *)
Definition dd_step (list_kind : bool) (d : list (val * val)) (k v : val) : option (list (val * val)) :=
  if hashable k then
    match dict_get d k with
    | Some c => option_map (dict_set d k) (dd_kind_append list_kind c v)
    | None => option_map (dict_set (dict_set d k (dd_empty list_kind)) k) (dd_kind_append list_kind (dd_empty list_kind) v)
    end
  else None.
(* what the program can see of the mapping: its class and its items *)
Inductive mapping := PlainDict (d : list (val * val)) | DefaultDict (list_kind : bool) (d : list (val * val)).
Definition mapping_items (m : mapping) := match m with PlainDict d | DefaultDict _ d => d end.
(* reading a missing key afterwards *)
Definition mapping_read (m : mapping) (k : val) : option val * mapping :=
  match dict_get (mapping_items m) k with
  | Some v => (Some v, m)
  | None => match m with
            | PlainDict d => (None, m)                                   (* KeyError *)
            | DefaultDict lk d => (Some (dd_empty lk), DefaultDict lk (dict_set d k (dd_empty lk)))
            end
  end.

(* =========================================================================================== *)
(* Decidable equality of statements; case checkers for the correspondence files *)

Definition meth_eqb (a b : meth) : bool :=
  match a, b with MAppend, MAppend | MExtend, MExtend | MAdd, MAdd | MUpdate, MUpdate => true | _, _ => false end.
Definition onat_eqb (a b : option nat) : bool :=
  match a, b with Some x, Some y => Nat.eqb x y | None, None => true | _, _ => false end.
Definition isrc_eqb (a b : isrc) : bool :=
  match a, b with
  | IPlain x, IPlain y | IKeys x, IKeys y | IValues x, IValues y | IItems x, IItems y => expr_eqb x y
  | IFilter f x, IFilter g y => onat_eqb f g && expr_eqb x y
  | _, _ => false
  end.

Fixpoint stmt_eqb (a b : stmt) {struct a} : bool :=
  let beq := fix beq (x y : list stmt) : bool :=
    match x, y with
    | [], [] => true
    | p :: x', q :: y' => stmt_eqb p q && beq x' y'
    | _, _ => false
    end in
  match a, b with
  | SAssign x e, SAssign y f => Nat.eqb x y && expr_eqb e f
  | SSetItem x k v, SSetItem y k' v' => Nat.eqb x y && expr_eqb k k' && expr_eqb v v'
  | SMeth x m l, SMeth y m' l' => Nat.eqb x y && meth_eqb m m' && lexpr_eqb l l'
  | SExpr e, SExpr f | SRet e, SRet f => expr_eqb e f
  | SPass, SPass | SCont, SCont | SBreak, SBreak => true
  | SIf c b1 b2, SIf c' b1' b2' => expr_eqb c c' && beq b1 b1' && beq b2 b2'
  | SFor t it body, SFor t' it' body' => tgt_eqb t t' && isrc_eqb it it' && beq body body'
  | _, _ => false
  end.
Fixpoint block_eqb (x y : list stmt) : bool :=
  match x, y with
  | [], [] => true
  | p :: x', q :: y' => stmt_eqb p q && block_eqb x' y'
  | _, _ => false
  end.

(* statement-level rules of the case files *)
Inductive brule := BMerge (r : mrule) | BMergeDeep (r : mrule) | BImmRet | BFilter | BItems (us_read : bool).

Definition map_opt {A} (f : A -> option A) (l : list A) : list A :=
  map (fun a => match f a with Some a' => a' | None => a end) l.

(* the block a rule produces (the block itself when the rule is silent); BFilter / BItems are judged on
   the statements of the block itself *)
Definition iter5 {A} (f : A -> A) (a : A) : A := f (f (f (f (f a)))).   (* processing.fix: up to 5 passes *)

Definition apply_brule (r : brule) (b : list stmt) : list stmt :=
  match r with
  | BMerge m => iter5 (merge_block m) b
  | BMergeDeep m => iter5 (merge_deep m) b
  | BImmRet => iter5 rw_immret b
  | BFilter => map_opt rw_filter b
  | BItems u => map_opt (rw_items u) b
  end.

Definition brule_case_ok (c : brule * list stmt * list stmt) : bool :=
  let '(r, b, out) := c in block_eqb (apply_brule r b) out.

Definition starargs_case_ok (c : expr * list expr) : bool :=
  let '(e, out) := c in lexpr_eqb (opt_list (rw_starargs e)) out.

Definition lrepl_eqb (a b : option lrepl) : bool :=
  match a, b with
  | Some (LBi x), Some (LBi y) => bi_eqb x y
  | Some (LFun f), Some (LFun g) => Nat.eqb f g
  | None, None => true
  | _, _ => false
  end.
Definition lambda_case_ok (c : lam * option lrepl) : bool :=
  let '(l, out) := c in lrepl_eqb (rw_lambda l) out.

(* side-condition kernels used by the repaired rules, tied to the Python helpers on their own *)
Definition pure_case_ok (c : expr * bool) : bool := Bool.eqb (pure (fst c)) (snd c).
Definition mentions_case_ok (c : nat * expr * bool) : bool :=
  let '(x, e, r) := c in Bool.eqb (mentions x e) r.

(* =========================================================================================== *)
(* Semantics validation against CPython: the scripted world family of the harness.  f0..f4 as in
   RulesExprModel.test_call; f5 reads the global v1: it returns len(v1) (or -1). *)

Definition global_len (s : store) : val :=
  match sget s 1%nat with
  | Some (VList l) | Some (VTuple l) | Some (VSet l) => VInt (Z.of_nat (length l))
  | Some (VDict d) => VInt (Z.of_nat (length d))
  | _ => VInt (-1)
  end.

Definition test_worlds : worlds :=
  fun s => {| call_or := fun tr f args => if Nat.eqb f 5 then Some (global_len s) else test_call tr f args;
              eq_or := eq_or test_world |}.

Definition outcome_eqb (a b : outcome) : bool :=
  match a, b with
  | ONormal, ONormal | OCont, OCont | OBreak, OBreak => true
  | ORet x, ORet y => val_equiv x y
  | _, _ => false
  end.

Fixpoint store_equiv (a b : store) : bool :=
  match a, b with
  | [], [] => true
  | (x, v) :: a', (y, w) :: b' => Nat.eqb x y && val_equiv v w && store_equiv a' b'
  | _, _ => false
  end.

Definition norm_store (l : list (nat * val)) : store := fold_left (fun s p => sset s (fst p) (snd p)) l [].

(* a semantics case: block, initial bindings, owned name, expected (outcome, final bindings, trace) *)
Definition sem_case := (list stmt * list (nat * val) * option (outcome * list (nat * val) * trace))%type.

(* 0 = agree, 1 = disagree, 2 = the model is undefined where CPython gives a result *)
Definition sem_status (c : sem_case) : nat :=
  let '(b, init, expected) := c in
  match exec_block test_worlds b (mkSt (norm_store init) None []), expected with
  | Some (o, q), Some (o', fin, tr') =>
      if outcome_eqb o o' && store_equiv (st_store q) (norm_store fin) && trace_eqb (st_trace q) tr'
      then 0%nat else 1%nat
  | None, None => 0%nat
  | None, Some _ => 2%nat
  | Some _, None => 1%nat
  end.

(* lambda application cases: lambda, arguments, expected result of calling the ORIGINAL lambda *)
Definition lam_sem_status (c : lam * list (nat * val) * list val * option (val * trace)) : nat :=
  let '(l, init, args, expected) := c in
  match apply_lam test_world l (mkenv init) args [], expected with
  | Some (v, tr), Some (v', tr') => if val_equiv v v' && trace_eqb tr tr' then 0%nat else 1%nat
  | None, None => 0%nat
  | None, Some _ => 2%nat
  | Some _, None => 1%nat
  end.
