(* C06 (round 5) -- picking one element of a hash-ordered collection: when is the choice independent of the
   iteration order?  Exactly when the key separates the best elements. *)
From Coq Require Import List ZArith Bool Lia Permutation String.
Import ListNotations.
Require Import Pyrefact.PickModel.
Open Scope Z_scope.

Section PickProofs.
Variable A : Type.
Variable key : A -> Z.

Notation argmax_from := (argmax_from A key).
Notation argmax := (argmax A key).
Notation is_max := (is_max A key).

Lemma argmax_from_spec (l : list A) : forall best,
  (argmax_from best l = best \/ List.In (argmax_from best l) l)
  /\ key best <= key (argmax_from best l)
  /\ (forall z, List.In z l -> key z <= key (argmax_from best l)).
Proof.
  induction l as [|x t IH]; intros best; cbn [PickModel.argmax_from].
  - split; [now left|]. split; [lia|]. intros z [].
  - destruct (key best <? key x) eqn:E.
    + apply Z.ltb_lt in E. destruct (IH x) as (Hin & Hle & Hall).
      split; [right; destruct Hin as [-> | Hin]; [now left | now right]|].
      split; [lia|]. intros z [<- | Hz]; [exact Hle | now apply Hall].
    + apply Z.ltb_ge in E. destruct (IH best) as (Hin & Hle & Hall).
      split; [destruct Hin as [Hb | Hin]; [now left | right; now right]|].
      split; [exact Hle|]. intros z [<- | Hz]; [lia | now apply Hall].
Qed.

(* what max(l, key=..) returns is an element of l with maximal key *)
Theorem argmax_is_max (l : list A) (m : A) : argmax l = Some m -> is_max l m.
Proof.
  destruct l as [|x t]; cbn [PickModel.argmax]; [discriminate|]. intros [= <-].
  destruct (argmax_from_spec t x) as (Hin & Hle & Hall). split.
  - destruct Hin as [-> | Hin]; [now left | now right].
  - intros z [<- | Hz]; [exact Hle | now apply Hall].
Qed.

(* ties go to the FIRST: an element that nothing behind it beats strictly is kept *)
Lemma argmax_from_keeps (t : list A) : forall best,
  (forall z, List.In z t -> key z <= key best) -> argmax_from best t = best.
Proof.
  induction t as [|x t IH]; intros best H; cbn [PickModel.argmax_from]; [reflexivity|].
  destruct (key best <? key x) eqn:E.
  - apply Z.ltb_lt in E. specialize (H x (or_introl eq_refl)). lia.
  - apply IH. intros z Hz. apply H. now right.
Qed.

Theorem argmax_head_wins_ties (x : A) (t : list A) :
  (forall z, List.In z t -> key z <= key x) -> argmax (x :: t) = Some x.
Proof. intros H. cbn [PickModel.argmax]. now rewrite argmax_from_keeps. Qed.

Lemma is_max_perm (l l' : list A) (x : A) : Permutation l l' -> is_max l x -> is_max l' x.
Proof.
  intros P [Hin Hall]. split.
  - now apply (Permutation_in _ P).
  - intros z Hz. apply Hall. apply (Permutation_in _ (Permutation_sym P)). exact Hz.
Qed.

(* the key separates the best elements of l *)
Definition key_separates_maxima (l : list A) : Prop :=
  forall x y, is_max l x -> is_max l y -> x = y.

(* PARTIAL (guarded) form: no tie among the best => every iteration order picks the same element *)
Theorem argmax_perm_invariant (l l' : list A) :
  key_separates_maxima l -> Permutation l l' -> argmax l' = argmax l.
Proof.
  intros Sep P.
  destruct (argmax l) as [m|] eqn:El; destruct (argmax l') as [m'|] eqn:El'.
  - f_equal. apply Sep.
    + apply (is_max_perm l' l); [now apply Permutation_sym | now apply argmax_is_max].
    + now apply argmax_is_max.
  - destruct l' as [|y t']; [|discriminate]. apply Permutation_sym, Permutation_nil in P. subst l. discriminate.
  - destruct l as [|y t]; [|discriminate]. apply Permutation_nil in P. subst l'. discriminate.
  - reflexivity.
Qed.

(* CONVERSE: a tie among the best elements can be exhibited by two iteration orders *)
Theorem argmax_tie_order_dependent (l : list A) (x y : A) :
  is_max l x -> is_max l y -> x <> y ->
  exists l1 l2, Permutation l l1 /\ Permutation l l2 /\ argmax l1 = Some x /\ argmax l2 = Some y.
Proof.
  intros [Hx Mx] [Hy My] Hne.
  destruct (in_split _ _ Hx) as (a1 & a2 & E1). destruct (in_split _ _ Hy) as (b1 & b2 & E2).
  exists (x :: a1 ++ a2), (y :: b1 ++ b2).
  assert (P1 : Permutation l (x :: a1 ++ a2)) by (rewrite E1; apply Permutation_sym, Permutation_middle).
  assert (P2 : Permutation l (y :: b1 ++ b2)) by (rewrite E2; apply Permutation_sym, Permutation_middle).
  split; [exact P1|]. split; [exact P2|]. split.
  - apply argmax_head_wins_ties. intros z Hz. apply Mx.
    apply (Permutation_in _ (Permutation_sym P1)). now right.
  - apply argmax_head_wins_ties. intros z Hz. apply My.
    apply (Permutation_in _ (Permutation_sym P2)). now right.
Qed.

(* max over a set is a function of the SET iff the key separates the best elements *)
Theorem argmax_order_independent_iff (l : list A) :
  (forall l', Permutation l l' -> argmax l' = argmax l) <-> key_separates_maxima l.
Proof.
  split.
  - intros Inv x y Hx Hy.
    assert (Hx' := Hx). assert (Hy' := Hy). destruct Hx' as [Ix Mx]. destruct Hy' as [Iy My].
    destruct (in_split _ _ Ix) as (a1 & a2 & E1). destruct (in_split _ _ Iy) as (b1 & b2 & E2).
    assert (P1 : Permutation l (x :: a1 ++ a2)) by (rewrite E1; apply Permutation_sym, Permutation_middle).
    assert (P2 : Permutation l (y :: b1 ++ b2)) by (rewrite E2; apply Permutation_sym, Permutation_middle).
    assert (A1 : argmax (x :: a1 ++ a2) = Some x).
    { apply argmax_head_wins_ties. intros z Hz. apply Mx. apply (Permutation_in _ (Permutation_sym P1)). now right. }
    assert (A2 : argmax (y :: b1 ++ b2) = Some y).
    { apply argmax_head_wins_ties. intros z Hz. apply My. apply (Permutation_in _ (Permutation_sym P2)). now right. }
    rewrite (Inv _ P1) in A1. rewrite (Inv _ P2) in A2. congruence.
  - intros Sep l' P. now apply argmax_perm_invariant.
Qed.

End PickProofs.

(* an injective key (e.g. (lineno, col_offset) on the nodes of one tree; a text on distinct texts) separates the maxima *)
Theorem injective_key_separates (A : Type) (key : A -> Z) (l : list A) :
  (forall x y, List.In x l -> List.In y l -> key x = key y -> x = y) -> key_separates_maxima A key l.
Proof.
  intros Inj x y [Ix Mx] [Iy My]. apply Inj; [exact Ix | exact Iy |].
  specialize (Mx y Iy). specialize (My x Ix). lia.
Qed.

(* REFUTED at full strength: the seeded change C06-d -- two spellings written equally often *)
Definition tie_mentions : list string := ["boxWidth"; "BoxWidth"; "boxWidth"; "BoxWidth"]%string.

Theorem most_written_perm_invariance_refuted :
  exists (mentions names names' : list string),
    Permutation names names' /\ most_written mentions names <> most_written mentions names'.
Proof.
  exists tie_mentions, ["boxWidth"; "BoxWidth"]%string, ["BoxWidth"; "boxWidth"]%string.
  split; [apply perm_swap|]. vm_compute. discriminate.
Qed.

(* the guard is non-trivial: with different counts the choice is the same for every order *)
Example most_written_no_tie :
  key_separates_maxima string (mention_count ["boxWidth"; "BoxWidth"; "boxWidth"]%string) ["boxWidth"; "BoxWidth"]%string.
Proof.
  apply injective_key_separates. intros x y [<-|[<-|[]]] [<-|[<-|[]]]; vm_compute; intros H; try reflexivity; discriminate.
Qed.
