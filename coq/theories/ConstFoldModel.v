(* K4 consumers -- the rules that act on a value found by core.literal_value:
     fixes.remove_dead_ifs            (If / While / IfExp part; fixes.py remove_dead_ifs)
     fixes.delete_unreachable_code    (the If / While branch)
     fixes.remove_redundant_boolop_values  (the truthy/falsy/unknown mask; the removal itself is
                                       BoolRwModel.redundant, proved in BoundProofs.redundant_sound)
     symbolic_math.simplify_boolean_expressions  (`not <constant>` and the single-operator Compare fold)
   and a small statement semantics to state what "deleting a dead branch" must preserve.
   Mirrors the code after the fix commits F15-4, F15-8 (while ... else). *)
From Coq Require Import List ZArith Bool String.
Import ListNotations.
Require Import Pyrefact.Ops Pyrefact.PyValModel Pyrefact.LitValModel Pyrefact.BoolRwModel.
Open Scope Z_scope.

(* statements: tests are expressions, everything else is opaque (event i); no break/continue *)
Inductive stmt :=
| SAtom (i : nat)
| SIf (c : expr) (body orelse : list stmt)
| SWhile (c : expr) (body orelse : list stmt).

Inductive outcome := ONormal | ORaise (k : exn) | OGap.

Section Exec.
Variable env : string -> option val.
(* the events of running a statement list and how it ends; None = out of fuel (a loop that does not
   terminate).  The continuation is kept in the list, so one unit of fuel = one statement. *)
Fixpoint exec (fuel : nat) (ss : list stmt) : option (list nat * outcome) :=
  match fuel with
  | O => None
  | S f =>
      match ss with
      | [] => Some ([], ONormal)
      | SAtom i :: rest =>
          match exec f rest with Some (t, o) => Some (i :: t, o) | None => None end
      | SIf c b o :: rest =>
          match eval env c with
          | Val v => exec f ((if truthy v then b else o) ++ rest)
          | Exc k => Some ([], ORaise k)
          | Gap => Some ([], OGap)
          end
      | SWhile c b o :: rest =>
          match eval env c with
          | Val v => if truthy v then exec f (b ++ SWhile c b o :: rest) else exec f (o ++ rest)
          | Exc k => Some ([], ORaise k)
          | Gap => Some ([], OGap)
          end
      end
  end.
End Exec.

(* remove_dead_ifs on a statement: the replacement for the node, if the rule fires *)
Definition dead_if (s : stmt) : option (list stmt) :=
  match s with
  | SIf c b o =>
      match lv c with LKnown v => Some (if truthy v then b else o) | _ => None end
  | SWhile c b o =>
      match lv c with
      | LKnown v => if truthy v then None else match o with [] => Some [] | _ => None end
      | _ => None
      end
  | SAtom _ => None
  end.

(* remove_dead_ifs leaves an `if` that is written as `elif` alone: dedenting its live branch would make
   it run after the earlier branches too.  [is_elif]: the source text of the node starts with "elif". *)
Definition dead_if_src (is_elif : bool) (s : stmt) : option (list stmt) :=
  match s with
  | SIf _ _ _ => if is_elif then None else dead_if s
  | _ => dead_if s
  end.

(* delete_unreachable_code, If / While branch: the children of the dead branch are deleted (an `if`
   that loses both branches, and a `while` whose test is false, are deleted as a whole) *)
Definition unreachable_if (s : stmt) : option (list stmt) :=
  match s with
  | SIf c b o =>
      match lv c with
      | LKnown v =>
          if truthy v then match b with [] => Some [] | _ => Some [SIf c b []] end
          else match o with [] => Some [] | _ => Some [SIf c [] o] end
      | _ => None
      end
  | SWhile c b o =>
      match lv c with
      | LKnown v => if truthy v then None else match o with [] => Some [] | _ => None end
      | _ => None
      end
  | SAtom _ => None
  end.

(* remove_dead_ifs on a conditional expression *)
Definition fold_ifexp (e : expr) : option expr :=
  match e with
  | EIf c a b => match lv c with LKnown v => Some (if truthy v then a else b) | _ => None end
  | _ => None
  end.

(* simplify_boolean_expressions: `not <constant>` and `<a> op <b>` with one of == != < <= > >= *)
Definition foldable_cmp (o : cmpop) : bool :=
  match o with CEq | CNotEq | CLt | CLtE | CGt | CGtE => true | _ => false end.
Definition fold_bool_expr (e : expr) : option expr :=
  match e with
  | EUn UNot (EConst v) => Some (EConst (VBool (negb (truthy v))))
  | ECmp a [(o, b)] =>
      if foldable_cmp o then match lv e with LKnown v => Some (EConst v) | _ => None end else None
  | _ => None
  end.

(* remove_redundant_boolop_values: the mask handed to BoolRwModel.redundant *)
Definition tri_of (e : expr) : tri :=
  match lv e with LKnown v => if truthy v then Truthy else Falsy | _ => Unknown end.
Definition mask_of (es : list expr) : list tri := map tri_of es.

(* ---------------- correspondence plumbing ---------------- *)
(* what a rule did to the fixed program shapes of harness/c15.py, as a code:
   0 nothing, 1 replaced by body, 2 replaced by orelse, 3 node deleted, 4 else-children deleted,
   5 body-children deleted, 6 only the first operand kept, 7 only the second operand kept,
   10/11 folded to False/True.  None = the model makes no claim (value outside the domain). *)
Definition stmts_eqb (a b : list stmt) : bool :=
  match a, b with
  | [], [] => true
  | [SAtom i], [SAtom j] => Nat.eqb i j
  | _, _ => false
  end.
Definition cons_code (shape : nat) (e : expr) : option nat :=
  match lv e with
  | LGap => None
  | _ =>
    Some
    (match shape with
     | 0%nat => (* if e: A1 else: A2 ; remove_dead_ifs *)
         match dead_if (SIf e [SAtom 1] [SAtom 2]) with
         | None => 0 | Some ss => if stmts_eqb ss [SAtom 1] then 1 else if stmts_eqb ss [SAtom 2] then 2 else 99
         end
     | 1%nat => (* while e: A1 ; remove_dead_ifs and delete_unreachable_code *)
         match dead_if (SWhile e [SAtom 1] []), unreachable_if (SWhile e [SAtom 1] []) with
         | None, None => 0 | Some [], Some [] => 3 | _, _ => 99
         end
     | 2%nat => (* A1 if e else A2 ; remove_dead_ifs *)
         match fold_ifexp (EIf e (EConst (VInt 1)) (EConst (VInt 2))) with
         | None => 0 | Some (EConst (VInt 1)) => 1 | Some (EConst (VInt 2)) => 2 | _ => 99
         end
     | 3%nat => (* if e: A1 else: A2 ; delete_unreachable_code *)
         match unreachable_if (SIf e [SAtom 1] [SAtom 2]) with
         | None => 0 | Some [SIf _ [SAtom _] []] => 4 | Some [SIf _ [] [SAtom _]] => 5 | _ => 99
         end
     | 4%nat => (* e and u() ; remove_redundant_boolop_values *)
         match redundant true [tri_of e; Unknown] with
         | [false; false] => 0 | [false; true] => 6 | [true; false] => 7 | _ => 99
         end
     | 5%nat => (* e or u() *)
         match redundant false [tri_of e; Unknown] with
         | [false; false] => 0 | [false; true] => 6 | [true; false] => 7 | _ => 99
         end
     | 6%nat => (* print(e) ; simplify_boolean_expressions on a comparison / not over atoms *)
         match fold_bool_expr e with
         | None => 0 | Some (EConst (VBool false)) => 10 | Some (EConst (VBool true)) => 11 | _ => 99
         end
     | 7%nat => (* if u: A0 elif e: A1 else: A2 ; remove_dead_ifs on the elif *)
         match dead_if_src true (SIf e [SAtom 1] [SAtom 2]) with None => 0 | _ => 99 end
     | 8%nat => (* if e: A1 (no else) ; remove_dead_ifs *)
         match dead_if_src false (SIf e [SAtom 1] []) with
         | None => 0 | Some [] => 3 | Some ss => if stmts_eqb ss [SAtom 1] then 1 else 99
         end
     | 9%nat => (* if e: A1 (no else) ; delete_unreachable_code: nothing to delete when e is truthy *)
         match unreachable_if (SIf e [SAtom 1] []) with
         | None => 0 | Some [] => 3 | Some [SIf _ [SAtom _] []] => 0 | _ => 99
         end
     | _ =>
         (* 10 + 4*isor + 2*(constant is falsy) + (constant first):  <e> op <c> op u()  /  <c> op <e> op u() ;
            remove_redundant_boolop_values ; code 100 + 4*r0 + 2*r1 + r2 (r_i: operand i removed) *)
         if (10 <=? shape) && (shape <=? 17) then
           let k := shape - 10 in
           let isand := negb (Nat.odd (k / 4)) in
           let c := if Nat.odd (k / 2) then Falsy else Truthy in
           let mask := if Nat.odd k then [c; tri_of e; Unknown] else [tri_of e; c; Unknown] in
           match redundant isand mask with
           | [r0; r1; r2] => 100 + 4 * (if r0 then 1 else 0) + 2 * (if r1 then 1 else 0) + (if r2 then 1 else 0)
           | _ => 99
           end
         else 99
     end)%nat
  end.
Definition cons_case_ok (c : nat * expr * nat) : bool :=
  let '(shape, e, observed) := c in
  match cons_code shape e with None => true | Some k => Nat.eqb k observed end.
