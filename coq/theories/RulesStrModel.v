(* C02, tranche "str": text-level rules.
   (1) fixes.invalid_escape_sequence      -- string-literal escape decoding (str / bytes, raw / non-raw)
   (2) fixes.deinterpolate_logging_args   -- f-string / str.format rendering vs. logging's  msg % args
   (3) fixes.delete_commented_code        -- deleting comment-only lines vs. the token stream
   Models and reference semantics only (no proofs); proofs in RulesStrProofs.v.
   Everything is total and computable; the reference semantics are definitions validated against CPython by
   harness/c02_str.py. *)
From Coq Require Import List NArith Bool Ascii Arith.
Import ListNotations.
Local Open Scope N_scope.

(* ================================================================================================ *)
(** * 1. Escape decoding of Python string literals                                                   *)

Definition se_code (c : ascii) : N := N_of_ascii c.

Definition se_is (n : N) (c : ascii) : bool := N.eqb (se_code c) n.
Definition se_bs : ascii := ascii_of_N 92.
Definition se_is_bs := se_is 92.

Definition se_is_oct (c : ascii) : bool := N.leb 48 (se_code c) && N.leb (se_code c) 55.
Definition se_octval (c : ascii) : N := se_code c - 48.

Definition se_hexval (c : ascii) : option N :=
  let n := se_code c in
  if N.leb 48 n && N.leb n 57 then Some (n - 48)
  else if N.leb 65 n && N.leb n 70 then Some (n - 55)
  else if N.leb 97 n && N.leb n 102 then Some (n - 87)
  else None.

(* value of exactly [k] hex digits at the front of [s] *)
Fixpoint se_hex (k : nat) (acc : N) (s : list ascii) : option N :=
  match k with
  | O => Some acc
  | S k' => match s with
            | [] => None
            | c :: r => match se_hexval c with
                        | Some d => se_hex k' (acc * 16 + d) r
                        | None => None
                        end
            end
  end.

(* the one-character escapes: backslash, quote, double quote, a b f n r t v *)
Definition se_simple (e : ascii) : option N :=
  let n := se_code e in
  if N.eqb n 92 then Some 92 else if N.eqb n 39 then Some 39 else if N.eqb n 34 then Some 34
  else if N.eqb n 97 then Some 7 else if N.eqb n 98 then Some 8 else if N.eqb n 102 then Some 12
  else if N.eqb n 110 then Some 10 else if N.eqb n 114 then Some 13 else if N.eqb n 116 then Some 9
  else if N.eqb n 118 then Some 11 else None.

(* Is  backslash + e  the start of a VALID escape sequence?  (bytes literals know no \N \u \U) *)
Definition se_valid_char (bytes : bool) (e : ascii) : bool :=
  match se_simple e with
  | Some _ => true
  | None => se_is 10 e || se_is_oct e || se_is 120 e
            || (negb bytes && (se_is 78 e || se_is 117 e || se_is 85 e))
  end.

Definition se_ocons (n : N) (o : option (list N)) : option (list N) := option_map (cons n) o.

(* a source character of the literal: bytes literals may only contain ASCII characters *)
Definition se_plain (bytes : bool) (c : ascii) : option N :=
  if bytes && N.leb 128 (se_code c) then None else Some (se_code c).

Definition se_oct_result (bytes : bool) (v : N) : N := if bytes then N.land v 255 else v.

Section Decode.
  (* the Unicode name database, \N{name}: an oracle; every theorem holds for every oracle *)
  Variable uname : list ascii -> option N.

  (* \N{name}: scan to the closing brace, then continue with [k] *)
  Definition se_nscan (k : list ascii -> option (list N)) :=
    fix go (acc : list ascii) (t : list ascii) {struct t} : option (list N) :=
      match t with
      | [] => None
      | d :: t' => if se_is 125 d
                   then match uname (rev acc) with
                        | Some n => se_ocons n (k t')
                        | None => None
                        end
                   else go (d :: acc) t'
      end.

  (* non-raw literal body -> code points (str) / byte values (bytes); None = the literal is a syntax error *)
  Fixpoint se_cooked (bytes : bool) (s : list ascii) {struct s} : option (list N) :=
    match s with
    | [] => Some []
    | c :: r =>
      if se_is_bs c then
        match r with
        | [] => None                                   (* a lone backslash cannot end a literal *)
        | e :: r1 =>
          match se_simple e with
          | Some n => se_ocons n (se_cooked bytes r1)
          | None =>
            if se_is 10 e then se_cooked bytes r1     (* backslash-newline: nothing *)
            else if se_is_oct e then
              match r1 with
              | e2 :: r2 =>
                if se_is_oct e2 then
                  match r2 with
                  | e3 :: r3 =>
                    if se_is_oct e3
                    then se_ocons (se_oct_result bytes (se_octval e * 64 + se_octval e2 * 8 + se_octval e3))
                                  (se_cooked bytes r3)
                    else se_ocons (se_octval e * 8 + se_octval e2) (se_cooked bytes r2)
                  | [] => se_ocons (se_octval e * 8 + se_octval e2) (se_cooked bytes r2)
                  end
                else se_ocons (se_octval e) (se_cooked bytes r1)
              | [] => se_ocons (se_octval e) (se_cooked bytes r1)
              end
            else if se_is 120 e then                  (* \xhh: exactly two hex digits *)
              match r1 with
              | h1 :: h2 :: r3 =>
                match se_hex 2%nat 0 [h1; h2] with
                | Some v => se_ocons v (se_cooked bytes r3)
                | None => None
                end
              | _ => None
              end
            else if negb bytes && se_is 117 e then    (* \uXXXX *)
              match r1 with
              | h1 :: h2 :: h3 :: h4 :: r5 =>
                match se_hex 4%nat 0 [h1; h2; h3; h4] with
                | Some v => se_ocons v (se_cooked bytes r5)
                | None => None
                end
              | _ => None
              end
            else if negb bytes && se_is 85 e then     (* \UXXXXXXXX, at most 0x10FFFF *)
              match r1 with
              | h1 :: h2 :: h3 :: h4 :: h5 :: h6 :: h7 :: h8 :: r9 =>
                match se_hex 8%nat 0 [h1; h2; h3; h4; h5; h6; h7; h8] with
                | Some v => if N.leb v 1114111 then se_ocons v (se_cooked bytes r9) else None
                | None => None
                end
              | _ => None
              end
            else if negb bytes && se_is 78 e then     (* \N{name} *)
              match r1 with
              | b :: r2 =>
                if se_is 123 b then
                  (fix go (acc : list ascii) (t : list ascii) {struct t} : option (list N) :=
                     match t with
                     | [] => None
                     | d :: t' => if se_is 125 d
                                  then match uname (rev acc) with
                                       | Some n => se_ocons n (se_cooked bytes t')
                                       | None => None
                                       end
                                  else go (d :: acc) t'
                     end) [] r2
                else None
              | [] => None
              end
            else                                       (* an invalid escape keeps the backslash *)
              match se_plain bytes e with
              | Some n => se_ocons 92 (se_ocons n (se_cooked bytes r1))
              | None => None
              end
          end
        end
      else
        match se_plain bytes c with
        | Some n => se_ocons n (se_cooked bytes r)
        | None => None
        end
    end.

  (* raw literal body: every character stands for itself; a backslash still "escapes" the next character
     for the purpose of finding the end of the literal, so a body cannot end in an odd backslash *)
  Fixpoint se_raw (bytes : bool) (s : list ascii) {struct s} : option (list N) :=
    match s with
    | [] => Some []
    | c :: r =>
      if se_is_bs c then
        match r with
        | [] => None
        | e :: r1 => match se_plain bytes e with
                     | Some n => se_ocons 92 (se_ocons n (se_raw bytes r1))
                     | None => None
                     end
        end
      else
        match se_plain bytes c with
        | Some n => se_ocons n (se_raw bytes r)
        | None => None
        end
    end.

  Definition decode (raw bytes : bool) (s : list ascii) : option (list N) :=
    if raw then se_raw bytes s else se_cooked bytes s.
End Decode.

(* the literal contains no valid escape sequence (scanned the way the decoder pairs backslashes) *)
Fixpoint se_all_invalid (bytes : bool) (s : list ascii) : bool :=
  match s with
  | [] => true
  | c :: r => if se_is_bs c then
                match r with
                | [] => true
                | e :: r1 => negb (se_valid_char bytes e) && se_all_invalid bytes r1
                end
              else se_all_invalid bytes r
  end.

Definition se_has_bs (s : list ascii) : bool := existsb se_is_bs s.

Fixpoint se_list_eqb (a b : list N) : bool :=
  match a, b with
  | [], [] => true
  | x :: a', y :: b' => N.eqb x y && se_list_eqb a' b'
  | _, _ => false
  end.

(* fixes.invalid_escape_sequence after 9b544c4 (str literals without a prefix, outside f-strings): the literal has a
   backslash, r<literal> evaluates, and to the same string.  Output: the same body with the prefix r. *)
Definition ies_fires (uname : list ascii -> option N) (body : list ascii) : bool :=
  se_has_bs body &&
  match decode uname true false body, decode uname false false body with
  | Some a, Some b => se_list_eqb a b
  | _, _ => false
  end.

(* implicit concatenation  "p1" "p2" ...: the rule puts r in front of the FIRST piece only and compares the values of
   the whole concatenations. piece = (is raw, body) *)
Fixpoint se_concat (uname : list ascii -> option N) (ps : list (bool * list ascii)) : option (list N) :=
  match ps with
  | [] => Some []
  | (raw, b) :: r => match decode uname raw false b, se_concat uname r with
                     | Some x, Some y => Some (x ++ y)
                     | _, _ => None
                     end
  end.

Definition ies_fires_concat (uname : list ascii -> option N) (first : list ascii) (rest : list (bool * list ascii)) : bool :=
  (se_has_bs first || existsb (fun p => se_has_bs (snd p)) rest) &&
  match se_concat uname ((true, first) :: rest), se_concat uname ((false, first) :: rest) with
  | Some a, Some b => se_list_eqb a b
  | _, _ => false
  end.

(* the rule BEFORE 9b544c4: no text of this list occurs in the literal ("\ooo" and "\xhh" are the placeholder texts of
   the language reference, taken literally) *)
Fixpoint se_prefix (p s : list ascii) : bool :=
  match p, s with
  | [], _ => true
  | x :: p', y :: s' => N.eqb (se_code x) (se_code y) && se_prefix p' s'
  | _ :: _, [] => false
  end.

Fixpoint se_substr (p s : list ascii) : bool :=
  se_prefix p s || match s with [] => false | _ :: t => se_substr p t end.

Definition se_pat (l : list N) : list ascii := se_bs :: map ascii_of_N l.

Definition se_old_list : list (list ascii) :=
  map se_pat [[92]; [39]; [34]; [97]; [98]; [102]; [110]; [114]; [116]; [118]; [111; 111; 111]; [120; 104; 104];
              [78]; [117]; [85]].

(* what the old list misses: \x.., octal digits, backslash-newline *)
Definition se_missing_list : list (list ascii) :=
  map se_pat [[120]; [48]; [49]; [50]; [51]; [52]; [53]; [54]; [55]; [10]].

Definition se_none_of (pats : list (list ascii)) (s : list ascii) : bool :=
  forallb (fun p => negb (se_substr p s)) pats.

Definition ies_old_fires (body : list ascii) : bool := se_has_bs body && se_none_of se_old_list body.

(* case checkers for the correspondence (harness/c02_str.py) *)
Fixpoint bad_idx_from {A} (ok : A -> bool) (n : nat) (l : list A) : list nat :=
  match l with
  | [] => []
  | x :: r => if ok x then bad_idx_from ok (S n) r else n :: bad_idx_from ok (S n) r
  end.
Definition bad_idx {A} (ok : A -> bool) (l : list A) : list nat := bad_idx_from ok 0 l.

Definition se_opt_eqb (a b : option (list N)) : bool :=
  match a, b with
  | Some x, Some y => se_list_eqb x y
  | None, None => true
  | _, _ => false
  end.

(* a finite name table for the validation runs *)
Fixpoint se_names (tab : list (list ascii * N)) (nm : list ascii) : option N :=
  match tab with
  | [] => None
  | (k, v) :: r => if se_prefix k nm && se_prefix nm k then Some v else se_names r nm
  end.

(* (raw, bytes, body, CPython's value) *)
Definition se_case_ok (tab : list (list ascii * N)) (c : bool * bool * list ascii * option (list N)) : bool :=
  match c with (raw, bytes, body, expect) => se_opt_eqb (decode (se_names tab) raw bytes body) expect end.

(* (body, the real rule added the prefix) *)
Definition ies_case_ok (tab : list (list ascii * N)) (c : list ascii * bool) : bool :=
  Bool.eqb (ies_fires (se_names tab) (fst c)) (snd c).
Definition ies_old_case_ok (c : list ascii * bool) : bool := Bool.eqb (ies_old_fires (fst c)) (snd c).
Definition ies_concat_case_ok (tab : list (list ascii * N)) (c : list ascii * list (bool * list ascii) * bool) : bool :=
  match c with (f, r, fired) => Bool.eqb (ies_fires_concat (se_names tab) f r) fired end.

(* ================================================================================================ *)
(** * 2. f-string / str.format rendering vs. the logging module's  msg % args                        *)

Definition text := list N.          (* code points *)

Inductive conv := CNone | CStr | CRepr | CAscii.

(* values are indices into tables supplied by the oracle [objs]: what str / repr / ascii / format(v, spec) give
   (None = the call raises), and whether the value is a non-empty Mapping (logging treats a single such argument
   specially) *)
Record obj := mkObj { o_str : option text; o_repr : option text; o_ascii : option text;
                      o_format : text -> option text; o_mapping : bool }.

Inductive part :=
  | PLit (t : text)
  | PFld (v : nat) (c : conv) (spec : option text).   (* {v}  {v!r}  {v:spec}  *)

Section Render.
  Variable objs : nat -> obj.

  Definition lg_conv (c : conv) (v : nat) : option text :=
    match c with
    | CNone | CStr => o_str (objs v)
    | CRepr => o_repr (objs v)
    | CAscii => o_ascii (objs v)
    end.

  (* a replacement field: without conversion format(v, spec); with a conversion format(conv(v), spec), and format of
     a str with the empty spec is the str itself (a non-empty spec applied to a str is not modelled: rule refuses) *)
  Definition lg_field (v : nat) (c : conv) (spec : option text) : option text :=
    match c, spec with
    | CNone, None => o_format (objs v) []
    | CNone, Some sp => o_format (objs v) sp
    | _, None => lg_conv c v
    | _, Some [] => lg_conv c v
    | _, Some _ => None
    end.

  (* the text of an f-string; None = evaluating it raises *)
  Fixpoint lg_fstring (ps : list part) : option text :=
    match ps with
    | [] => Some []
    | PLit t :: r => option_map (app t) (lg_fstring r)
    | PFld v c sp :: r => match lg_field v c sp, lg_fstring r with
                          | Some a, Some b => Some (a ++ b)
                          | _, _ => None
                          end
    end.

  (* fmt % args  for the directives %s %r %a %% (anything else: None = raises / not modelled);
     [strict] = leftover arguments are an error (they are not when the right operand is a mapping) *)
  Fixpoint lg_percent (strict : bool) (fmt : text) (args : list nat) {struct fmt} : option text :=
    match fmt with
    | [] => match args with [] => Some [] | _ :: _ => if strict then None else Some [] end
    | c :: r =>
      if N.eqb c 37 then
        match r with
        | [] => None
        | d :: r' =>
          if N.eqb d 37 then option_map (cons 37%N) (lg_percent strict r' args)
          else
            let cv := if N.eqb d 115 then Some CStr else if N.eqb d 114 then Some CRepr
                      else if N.eqb d 97 then Some CAscii else None in
            match cv, args with
            | Some k, a :: args' => match lg_conv k a, lg_percent strict r' args' with
                                    | Some x, Some y => Some (x ++ y)
                                    | _, _ => None
                                    end
            | _, _ => None
            end
        end
      else option_map (cons c) (lg_percent strict r args)
    end.

  (* LogRecord.getMessage: no arguments: the message as it is; one argument that is a non-empty Mapping: msg % mapping;
     else msg % tuple *)
  Definition lg_getmessage (msg : text) (args : list nat) : option text :=
    match args with
    | [] => Some msg
    | [a] => lg_percent (negb (o_mapping (objs a))) msg args
    | _ => lg_percent true msg args
    end.

  (* what a logging call does. Before: the f-string is evaluated first (an exception propagates), then logged if the
     level is enabled. After: the record is rendered only if the level is enabled, and an exception in rendering is
     swallowed by Handler.handleError (the line is lost). *)
  Inductive lg_outcome := LRaise | LEmit (line : option text).

  Definition lg_before (enabled : bool) (ps : list part) : lg_outcome :=
    match lg_fstring ps with
    | None => LRaise
    | Some t => LEmit (if enabled then Some t else None)
    end.

  Definition lg_after (enabled : bool) (msg : text) (args : list nat) : lg_outcome :=
    if enabled then LEmit (lg_getmessage msg args) else LEmit None.
End Render.

(* ---- the rule (fixes._convert_to_string_formatting / _percent_format_string after 79e10b7) *)
Definition lg_is_field (p : part) : bool := match p with PFld _ _ _ => true | PLit _ => false end.
Definition lg_field_ok (p : part) : bool :=
  match p with PFld _ _ None => true | PFld _ _ (Some _) => false | PLit _ => true end.

Fixpoint lg_escape (t : text) : text :=
  match t with
  | [] => []
  | c :: r => if N.eqb c 37 then 37%N :: 37%N :: lg_escape r else c :: lg_escape r
  end.

Definition lg_directive (c : conv) : text :=
  match c with CNone | CStr => [37; 115] | CRepr => [37; 114] | CAscii => [37; 97] end%N.

Fixpoint lg_fmt (esc : bool) (ps : list part) : text :=
  match ps with
  | [] => []
  | PLit t :: r => (if esc then lg_escape t else t) ++ lg_fmt esc r
  | PFld _ c _ :: r => lg_directive c ++ lg_fmt esc r
  end.

Fixpoint lg_args (ps : list part) : list nat :=
  match ps with
  | [] => []
  | PLit _ :: r => lg_args r
  | PFld v _ _ :: r => v :: lg_args r
  end.

Definition lg_rule (ps : list part) : option (text * list nat) :=
  if forallb lg_field_ok ps then Some (lg_fmt (existsb lg_is_field ps) ps, lg_args ps) else None.

(* the rule before 79e10b7: str.format placeholders, format specs copied, conversions dropped *)
Fixpoint lg_fmt_old (ps : list part) : text :=
  match ps with
  | [] => []
  | PLit t :: r => t ++ lg_fmt_old r
  | PFld _ _ sp :: r => (123 :: match sp with Some s => s | None => [] end ++ [125])%N ++ lg_fmt_old r
  end.
Definition lg_rule_old (ps : list part) : option (text * list nat) := Some (lg_fmt_old ps, lg_args ps).

(* the boolean guard of the partial theorem: every argument renders, and for the plain fields format(v, "") is
   str(v) (true unless the class overrides __format__) *)
Fixpoint lg_text_eqb (a b : text) : bool :=
  match a, b with
  | [], [] => true
  | x :: a', y :: b' => N.eqb x y && lg_text_eqb a' b'
  | _, _ => false
  end.

Definition lg_benign_part (objs : nat -> obj) (p : part) : bool :=
  match p with
  | PLit _ => true
  | PFld v CNone _ => match o_str (objs v), o_format (objs v) [] with
                      | Some a, Some b => lg_text_eqb a b
                      | _, _ => false
                      end
  | PFld v c _ => match lg_conv objs c v with Some _ => true | None => false end
  end.
Definition lg_benign (objs : nat -> obj) (ps : list part) : bool := forallb (lg_benign_part objs) ps.

(* ---- "...".format(args) with automatically numbered fields: the parser of the format string
   (string.Formatter().parse restricted to what the rule accepts; None = something else / malformed) *)
Fixpoint lg_fparse (lit : text) (s : text) (next : nat) {struct s} : option (list part) :=
  let flush (ps : list part) := match lit with [] => ps | _ => PLit (rev lit) :: ps end in
  match s with
  | [] => Some (flush [])
  | c :: r =>
    if N.eqb c 123 then
      match r with
      | d :: r' =>
        if N.eqb d 123 then lg_fparse (123%N :: lit) r' next
        else if N.eqb d 125 then option_map (fun ps => flush (PFld next CNone None :: ps)) (lg_fparse [] r' (S next))
        else if N.eqb d 58 then                      (* {:} : the empty format spec *)
          match r' with
          | e :: r'' => if N.eqb e 125
                        then option_map (fun ps => flush (PFld next CNone None :: ps)) (lg_fparse [] r'' (S next))
                        else None
          | [] => None
          end
        else if N.eqb d 33 then
          match r' with
          | k :: e :: r'' =>
            let cv := if N.eqb k 115 then Some CStr else if N.eqb k 114 then Some CRepr
                      else if N.eqb k 97 then Some CAscii else None in
            match cv with
            | Some cv' => if N.eqb e 125
                          then option_map (fun ps => flush (PFld next cv' None :: ps)) (lg_fparse [] r'' (S next))
                          else if N.eqb e 58 then
                            match r'' with
                            | e2 :: r3 => if N.eqb e2 125
                                          then option_map (fun ps => flush (PFld next cv' None :: ps))
                                                          (lg_fparse [] r3 (S next))
                                          else None
                            | [] => None
                            end
                          else None
            | None => None
            end
          | _ => None
          end
        else None
      | [] => None
      end
    else if N.eqb c 125 then
      match r with
      | d :: r' => if N.eqb d 125 then lg_fparse (125%N :: lit) r' next else None
      | [] => None
      end
    else lg_fparse (c :: lit) r next
  end.

(* the rule on  "fmt".format(a0, .., a(n-1)) : parse, one field per argument *)
Definition lg_rule_format (fmt : text) (nargs : nat) : option (text * list nat) :=
  match lg_fparse [] fmt 0%nat with
  | Some ps => if Nat.eqb (length (lg_args ps)) nargs then lg_rule ps else None
  | None => None
  end.

(* ---- case checkers *)
Definition lg_opt_text_eqb (a b : option text) : bool :=
  match a, b with Some x, Some y => lg_text_eqb x y | None, None => true | _, _ => false end.

(* table of objects for the validation: (str, repr, ascii, format "", mapping) ; format with another spec: None *)
Definition lg_tab_obj (t : option text * option text * option text * option text * bool) : obj :=
  match t with (s, r, a, f, m) =>
    mkObj s r a (fun sp => match sp with [] => f | _ => None end) m end.
Definition lg_objs (tab : list (option text * option text * option text * option text * bool)) (v : nat) : obj :=
  lg_tab_obj (nth v tab (None, None, None, None, false)).

Definition lg_tab := list (option text * option text * option text * option text * bool).

(* CPython: (format string, argument indices, what  getMessage  gives) *)
Definition lg_percent_case_ok (tab : lg_tab) (c : text * list nat * option text) : bool :=
  match c with (fmt, args, expect) => lg_opt_text_eqb (lg_getmessage (lg_objs tab) fmt args) expect end.
(* CPython: (parts, the text of the f-string) *)
Definition lg_fstring_case_ok (tab : lg_tab) (c : list part * option text) : bool :=
  lg_opt_text_eqb (lg_fstring (lg_objs tab) (fst c)) (snd c).

Fixpoint lg_nat_list_eqb (a b : list nat) : bool :=
  match a, b with
  | [], [] => true
  | x :: a', y :: b' => Nat.eqb x y && lg_nat_list_eqb a' b'
  | _, _ => false
  end.
Definition lg_out_eqb (a b : option (text * list nat)) : bool :=
  match a, b with
  | Some (f, x), Some (g, y) => lg_text_eqb f g && lg_nat_list_eqb x y
  | None, None => true
  | _, _ => false
  end.
(* the real rule: (parts of the f-string, the real output: format string + argument indices, None = left alone) *)
Definition lg_rule_case_ok (c : list part * option (text * list nat)) : bool := lg_out_eqb (lg_rule (fst c)) (snd c).
Definition lg_rule_format_case_ok (c : text * nat * option (text * list nat)) : bool :=
  match c with (fmt, n, out) => lg_out_eqb (lg_rule_format fmt n) out end.
(* str.format itself: (format string, n, CPython's text of fmt.format(o0..o(n-1))) -- validates lg_fparse + lg_fstring *)
Definition lg_format_case_ok (tab : lg_tab) (c : text * nat * option text) : bool :=
  match c with (fmt, n, expect) =>
    match lg_fparse [] fmt 0%nat with
    | Some ps => if Nat.leb (length (lg_args ps)) n then lg_opt_text_eqb (lg_fstring (lg_objs tab) ps) expect else true
    | None => true
    end
  end.

(* ================================================================================================ *)
Local Close Scope N_scope.
(** * 3. Deleting commented-out code                                                                 *)

(* Tokens as CPython's tokenize reports them, per physical line. A token that spans several lines (a triple-quoted
   string, a backslash continuation inside a string) contributes a piece [TSig] to every line it touches. *)
Inductive tok := TComment | TNl | TSig (id : nat).

Definition tk_insig (t : tok) : bool := match t with TSig _ => false | _ => true end.

Record line := mkLine {
  l_id : nat;            (* position in the original file *)
  l_cand : bool;         (* the text matches  \s*#[^\r\n]*  (regular expression of the rule) *)
  l_blank : bool;        (* whitespace only *)
  l_lit : bool;          (* overlaps the source range of a str / bytes constant or an f-string (ast) *)
  l_toks : list tok }.

Definition cm_sig (src : list line) : list tok := filter (fun t => negb (tk_insig t)) (flat_map l_toks src).

Definition cm_line_insig (l : line) : bool := forallb tk_insig (l_toks l).

(* a line the rule may delete: part of a comment block and not overlapping a literal *)
Definition cm_deletable (l : line) : bool := (l_cand l || l_blank l) && negb (l_lit l).

(* Comment blocks (re.finditer): the first line that is blank or a comment, from which a comment is reached over blank
   lines only, up to the last comment line of the run. [cm_reaches] = a comment line follows after blank lines. *)
Fixpoint cm_reaches (src : list line) : bool :=
  match src with
  | [] => false
  | l :: r => if l_cand l then true else if l_blank l then cm_reaches r else false
  end.

(* length of the block that starts at the head of src (0 = none): lines up to the last comment line *)
Fixpoint cm_block_len (src : list line) : nat :=
  match src with
  | [] => 0
  | l :: r => if l_cand l || l_blank l
              then (if cm_reaches src then S (cm_block_len r) else 0)
              else 0
  end.

(* The decision of the rule for the sub-block lines [i, j) of the file: uncommented, does the text parse as code and
   pass the heuristics? (core.is_valid_python + the filters of the rule: an oracle, supplied by the harness.) *)
Section Comments.
  Variable parses : nat -> nat -> bool.     (* first line id, line id behind the last one *)

  (* within one block (lines b, first id = base, n = length b): the double loop over (si, se), first fit wins;
     removed = list of (first, behind-last) positions inside the block, kept disjoint *)
  Definition cm_overlaps (a b : nat * nat) : bool := Nat.ltb (fst a) (snd b) && Nat.ltb (fst b) (snd a).

  Definition cm_sub_ok (b : list line) (removed : list (nat * nat)) (i j : nat) : bool :=
    negb (existsb (cm_overlaps (i, j)) removed)
    && forallb (fun l => negb (l_lit l)) (firstn (j - i) (skipn i b))
    && match nth_error b i with Some l => parses (l_id l) (l_id l + (j - i)) | None => false end.

  (* inner loop: se = 0 .. n - si - 1 (the sub-block must keep at least one line) *)
  Fixpoint cm_loop_se (b : list line) (n si : nat) (k se : nat) (removed : list (nat * nat)) : list (nat * nat) :=
    match k with
    | O => removed
    | S k' => let j := n - se in
              let removed' := if cm_sub_ok b removed si j then removed ++ [(si, j)] else removed in
              cm_loop_se b n si k' (S se) removed'
    end.

  Fixpoint cm_loop_si (b : list line) (n : nat) (k si : nat) (removed : list (nat * nat)) : list (nat * nat) :=
    match k with
    | O => removed
    | S k' => cm_loop_si b n k' (S si) (cm_loop_se b n si (n - si) 0 removed)
    end.

  Definition cm_block_removed (b : list line) : list (nat * nat) :=
    cm_loop_si b (length b) (length b) 0 [].

  Definition cm_in_removed (removed : list (nat * nat)) (i : nat) : bool :=
    existsb (fun r => Nat.leb (fst r) i && Nat.ltb i (snd r)) removed.

  (* lines of the block that survive *)
  Fixpoint cm_keep (removed : list (nat * nat)) (i : nat) (b : list line) : list line :=
    match b with
    | [] => []
    | l :: r => if cm_in_removed removed i then cm_keep removed (S i) r else l :: cm_keep removed (S i) r
    end.

  (* the whole file; fuel = number of lines (every step consumes at least one) *)
  Fixpoint cm_rule_fuel (fuel : nat) (src : list line) : list line :=
    match fuel with
    | O => src
    | S f =>
      match src with
      | [] => []
      | l :: r =>
        let n := cm_block_len src in
        match n with
        | O => l :: cm_rule_fuel f r
        | S _ => let b := firstn n src in
                 cm_keep (cm_block_removed b) 0 b ++ cm_rule_fuel f (skipn n src)
        end
      end
    end.

  Definition cm_rule (src : list line) : list line := cm_rule_fuel (length src) src.
End Comments.

(* the rule before f6ddf69 protected str constants and f-strings only: the harness supplies the flag computed that
   way; the model is the same function *)

Fixpoint cm_table (tab : list (nat * nat)) (i j : nat) : bool :=
  match tab with
  | [] => false
  | (a, b) :: r => (Nat.eqb a i && Nat.eqb b j) || cm_table r i j
  end.

(* (lines, sub-blocks that parse as code, ids of the non-blank lines the real rule kept) *)
Definition cm_case_ok (c : list line * list (nat * nat) * list nat) : bool :=
  match c with (src, tab, kept) =>
    lg_nat_list_eqb (map l_id (filter (fun l => negb (l_blank l)) (cm_rule (cm_table tab) src))) kept
  end.
