(* K7 (file part) -- proofs about FilesModel.v: format_files does not depend on the order of the file
   list, dispatches every file at most once per pass, runs at most max_passes passes, never resumes a
   converged folder, and depends on format_file only through the per-file change results. *)
From Coq Require Import List Arith Bool Lia Permutation Sorted.
Import ListNotations.
Require Import Pyrefact.FilesModel.

(* ---- the order on files *)
Definition fle (a b : file) : Prop := file_leb a b = true.

Lemma file_leb_total a b : file_leb a b = true \/ file_leb b a = true.
Proof.
  unfold file_leb. destruct a as [a1 a2], b as [b1 b2]; cbn [fst snd].
  rewrite !orb_true_iff, !andb_true_iff, !Nat.ltb_lt, !Nat.eqb_eq, !Nat.leb_le. lia.
Qed.

Lemma file_leb_trans a b c : fle a b -> fle b c -> fle a c.
Proof.
  unfold fle, file_leb. destruct a as [a1 a2], b as [b1 b2], c as [c1 c2]; cbn [fst snd].
  rewrite !orb_true_iff, !andb_true_iff, !Nat.ltb_lt, !Nat.eqb_eq, !Nat.leb_le. lia.
Qed.

Lemma file_leb_antisym a b : fle a b -> fle b a -> a = b.
Proof.
  unfold fle, file_leb. destruct a as [a1 a2], b as [b1 b2]; cbn [fst snd].
  rewrite !orb_true_iff, !andb_true_iff, !Nat.ltb_lt, !Nat.eqb_eq, !Nat.leb_le.
  intros H1 H2. f_equal; lia.
Qed.

Lemma file_eqb_spec a b : file_eqb a b = true <-> a = b.
Proof.
  unfold file_eqb. destruct a as [a1 a2], b as [b1 b2]; cbn [fst snd].
  rewrite andb_true_iff, !Nat.eqb_eq. split; [intros [-> ->]; reflexivity | intros H; inversion H; auto].
Qed.

(* ---- insertion sort: permutation, sortedness, uniqueness *)
Lemma insert_perm x l : Permutation (x :: l) (insert_file x l).
Proof.
  induction l as [|y tl IH]; cbn; [reflexivity|].
  destruct (file_leb x y); [reflexivity|].
  rewrite perm_swap. now apply perm_skip.
Qed.

Lemma sort_perm l : Permutation l (sort_files l).
Proof.
  induction l as [|x tl IH]; cbn; [reflexivity|].
  rewrite <- insert_perm. now apply perm_skip.
Qed.

Lemma insert_sorted x l : StronglySorted fle l -> StronglySorted fle (insert_file x l).
Proof.
  induction 1 as [|y tl Hs IH Hy]; cbn; [repeat constructor|].
  destruct (file_leb x y) eqn:E.
  - constructor; [now constructor|]. constructor; [exact E|].
    eapply Forall_impl; [|exact Hy]. intros z Hz. eapply file_leb_trans; eauto.
  - constructor; [exact IH|].
    assert (Hyx : fle y x) by (destruct (file_leb_total x y) as [H|H]; [congruence | exact H]).
    eapply Permutation_Forall; [apply insert_perm|]. constructor; assumption.
Qed.

Lemma sort_sorted l : StronglySorted fle (sort_files l).
Proof. induction l; cbn; [constructor | now apply insert_sorted]. Qed.

Lemma sorted_perm_eq (l : list file) : forall l', StronglySorted fle l -> StronglySorted fle l' ->
  Permutation l l' -> l = l'.
Proof.
  induction l as [|x tl IH]; intros l' S S' P.
  - apply Permutation_nil in P. now subst.
  - destruct l' as [|y tl']; [apply Permutation_sym, Permutation_nil in P; discriminate|].
    inversion S as [|? ? Stl Hx]; inversion S' as [|? ? Stl' Hy]; subst.
    assert (x = y) as ->.
    { assert (Ix : In x (y :: tl')) by (eapply Permutation_in; [exact P | now left]).
      assert (Iy : In y (x :: tl)) by (eapply Permutation_in; [apply Permutation_sym; exact P | now left]).
      destruct Ix as [->|Ix]; [reflexivity|]. destruct Iy as [->|Iy]; [reflexivity|].
      rewrite Forall_forall in Hx, Hy. apply file_leb_antisym; [now apply Hx | now apply Hy]. }
    f_equal. apply IH; try assumption. eapply Permutation_cons_inv; exact P.
Qed.

Theorem sort_files_perm l l' : Permutation l l' -> sort_files l = sort_files l'.
Proof.
  intros P. apply sorted_perm_eq; try apply sort_sorted.
  rewrite <- !sort_perm. exact P.
Qed.

(* ---- T06.3: the order of the file list does not matter *)
Theorem format_files_order_independent (chg : file -> nat -> bool) (max_passes : nat) (fs fs' : list file) :
  Permutation fs fs' -> format_files_model chg max_passes fs = format_files_model chg max_passes fs'.
Proof. intros P. unfold format_files_model. now rewrite (sort_files_perm fs fs' P). Qed.

(* ---- the bookkeeping depends on format_file only through the change results of the given files *)
Lemma nodup_acc_incl l : forall seen f, In f (nodup_acc seen l) -> In f l.
Proof.
  induction l as [|x tl IH]; intros seen f; cbn; [tauto|].
  destruct (existsb (file_eqb x) seen); [intros H; right; eauto|].
  intros [H|H]; [now left | right; eauto].
Qed.

Lemma todo_incl (st : fstate) (fs : list file) f :
  In f (sort_files (nodup_files (filter (fun f => active st (fst f)) fs))) -> In f fs /\ active st (fst f) = true.
Proof.
  intros H. eapply Permutation_in in H; [|apply Permutation_sym, sort_perm].
  apply nodup_acc_incl in H. now apply filter_In in H.
Qed.

Lemma one_pass_ext chg chg' p fs st :
  (forall f, In f fs -> chg f p = chg' f p) -> one_pass chg p fs st = one_pass chg' p fs st.
Proof.
  intros E. unfold one_pass.
  set (todo := sort_files (nodup_files (filter (fun f => active st (fst f)) fs))).
  assert (M : map (fun f => (f, chg f p)) todo = map (fun f => (f, chg' f p)) todo).
  { apply map_ext_in. intros f Hf. apply todo_incl in Hf. now rewrite E. }
  destruct todo; [reflexivity|]. now rewrite M.
Qed.

Lemma pass_loop_ext chg chg' fs : (forall f, In f fs -> forall p, chg f p = chg' f p) ->
  forall fuel p st, pass_loop chg fuel p fs st = pass_loop chg' fuel p fs st.
Proof.
  intros E. induction fuel as [|n IH]; intros p st; cbn; [reflexivity|].
  rewrite (one_pass_ext chg chg' p fs st) by (intros; now apply E).
  destruct (one_pass chg' p fs st) as [[todo st']|]; [|reflexivity]. now rewrite IH.
Qed.


(* ---- at most max_passes passes; every batch is duplicate-free (no two workers get the same file) *)
Lemma pass_loop_length chg : forall fuel p fs st, length (fst (pass_loop chg fuel p fs st)) <= fuel.
Proof.
  induction fuel as [|n IH]; intros p fs st; cbn; [lia|].
  destruct (one_pass chg p fs st) as [[todo st']|]; cbn; [|lia].
  specialize (IH (S p) fs st'). destruct (pass_loop chg n (S p) fs st'); cbn in *. lia.
Qed.

Lemma nodup_acc_nodup l : forall seen,
  NoDup (nodup_acc seen l) /\ (forall f, In f (nodup_acc seen l) -> existsb (file_eqb f) seen = false).
Proof.
  induction l as [|x tl IH]; intros seen; cbn; [split; [constructor | tauto]|].
  destruct (existsb (file_eqb x) seen) eqn:E; [apply IH|].
  destruct (IH (x :: seen)) as [N S]. split.
  - constructor; [|exact N]. intros I. apply S in I. cbn in I.
    rewrite (proj2 (file_eqb_spec x x) eq_refl) in I. discriminate.
  - intros f [<-|I]; [exact E|]. apply S in I. cbn in I. apply orb_false_iff in I. tauto.
Qed.

Lemma todo_nodup (st : fstate) fs :
  NoDup (sort_files (nodup_files (filter (fun f => active st (fst f)) fs))).
Proof.
  eapply Permutation_NoDup; [apply sort_perm|]. apply (nodup_acc_nodup _ []).
Qed.

Lemma pass_loop_batches chg : forall fuel p fs st batch,
  In batch (fst (pass_loop chg fuel p fs st)) ->
  NoDup batch /\ StronglySorted fle batch /\ (forall f, In f batch -> In f fs).
Proof.
  induction fuel as [|n IH]; intros p fs st batch; cbn; [tauto|].
  unfold one_pass.
  set (todo := sort_files (nodup_files (filter (fun f => active st (fst f)) fs))).
  assert (T : NoDup todo /\ StronglySorted fle todo /\ (forall f, In f todo -> In f fs)).
  { split; [apply todo_nodup|]. split; [apply sort_sorted|]. intros f Hf. now apply todo_incl in Hf. }
  destruct todo as [|t0 tl] eqn:Et; cbn; [tauto|].
  match goal with |- context [pass_loop chg n (S p) fs ?s] => specialize (IH (S p) fs s batch);
    destruct (pass_loop chg n (S p) fs s) as [log stf] end.
  cbn in *. intros [<-|H]; [exact T | now apply IH].
Qed.

Lemma existsb_ext_in' {A} (f g : A -> bool) l : (forall x, In x l -> f x = g x) -> existsb f l = existsb g l.
Proof.
  induction l as [|a l IH]; intros H; cbn; [reflexivity|].
  rewrite (H a) by now left. rewrite IH; [reflexivity|]. intros x Hx. apply H. now right.
Qed.

Lemma log_changes_ext chg chg' (fs : list file) : (forall f, In f fs -> forall p, chg f p = chg' f p) ->
  forall log p, (forall batch, In batch log -> forall f, In f batch -> In f fs) ->
  log_changes chg p log = log_changes chg' p log.
Proof.
  intros E. induction log as [|b tl IH]; intros p H; cbn; [reflexivity|].
  rewrite IH by (intros batch Hb; apply H; now right). f_equal.
  apply existsb_ext_in'. intros f Hf. apply E. eapply H; [now left | exact Hf].
Qed.

Theorem format_files_change_results_only chg chg' max_passes fs :
  (forall f, In f fs -> forall p, chg f p = chg' f p) ->
  format_files_model chg max_passes fs = format_files_model chg' max_passes fs.
Proof.
  intros E. unfold format_files_model.
  assert (E' : forall f, In f (sort_files fs) -> forall p, chg f p = chg' f p).
  { intros f Hf. apply E. eapply Permutation_in; [apply Permutation_sym, sort_perm | exact Hf]. }
  rewrite (pass_loop_ext chg chg' (sort_files fs) E').
  pose proof (pass_loop_batches chg' max_passes 1 (sort_files fs)
                (map (fun d => (d, (true, max_passes))) (folders_of (sort_files fs)))) as B.
  destruct (pass_loop chg' max_passes 1 (sort_files fs) _) as [log st]. cbn [fst] in B.
  f_equal. apply (log_changes_ext chg chg' (sort_files fs) E').
  intros batch Hb f Hf. now apply (B batch Hb).
Qed.

Theorem format_files_batches chg max_passes fs :
  let log := fst (format_files_model chg max_passes fs) in
  length log <= max_passes
  /\ forall batch, In batch log -> NoDup batch /\ StronglySorted fle batch /\ (forall f, In f batch -> In f fs).
Proof.
  unfold format_files_model.
  pose proof (pass_loop_length chg max_passes 1 (sort_files fs)
                (map (fun d => (d, (true, max_passes))) (folders_of (sort_files fs)))) as L.
  pose proof (pass_loop_batches chg max_passes 1 (sort_files fs)
                (map (fun d => (d, (true, max_passes))) (folders_of (sort_files fs)))) as B.
  destruct (pass_loop chg max_passes 1 (sort_files fs) _) as [log st]. cbn in *.
  split; [exact L|]. intros batch Hb. destruct (B batch Hb) as (N & S & I).
  split; [exact N|]. split; [exact S|]. intros f Hf.
  eapply Permutation_in; [apply Permutation_sym, sort_perm | now apply I].
Qed.

(* ---- a converged folder is never formatted again: the batches only shrink *)
Lemma active_after_update (results : list (file * bool)) (fs : list file) (st : fstate) d :
  (forall r, In r results -> active st (fst (fst r)) = true) ->
  active (map (fun e : nat * (bool * nat) =>
                 (fst e, (existsb (fun f => (fst f =? fst e) && result_of results f) fs,
                          snd (snd e) - 1))) st) d = true ->
  active st d = true.
Proof.
  intros R H. unfold active in H at 1. apply existsb_exists in H. destruct H as [e [He Hc]].
  apply in_map_iff in He. destruct He as [e0 [<- He0]]. cbn [fst snd] in Hc.
  apply andb_true_iff in Hc. destruct Hc as [Hc _]. apply andb_true_iff in Hc. destruct Hc as [Hd Hc].
  apply Nat.eqb_eq in Hd. apply existsb_exists in Hc. destruct Hc as [f [Hf Hc]].
  apply andb_true_iff in Hc. destruct Hc as [Hfd Hr]. apply Nat.eqb_eq in Hfd.
  unfold result_of in Hr. apply existsb_exists in Hr. destruct Hr as [r [Hr Hrc]].
  apply andb_true_iff in Hrc. destruct Hrc as [Hgf _]. apply file_eqb_spec in Hgf.
  apply R in Hr. rewrite Hgf in Hr. congruence.
Qed.

Lemma active_after_pass chg p fs st todo st' d :
  one_pass chg p fs st = Some (todo, st') -> active st' d = true -> active st d = true.
Proof.
  unfold one_pass.
  set (td := sort_files (nodup_files (filter (fun f => active st (fst f)) fs))).
  assert (R : forall r, In r (map (fun f => (f, chg f p)) td) -> active st (fst (fst r)) = true).
  { intros r Hr. apply in_map_iff in Hr. destruct Hr as [g [<- Hg]]. cbn. now apply todo_incl in Hg. }
  revert R. generalize (map (fun f => (f, chg f p)) td). intros results R.
  destruct td as [|t0 tl]; [discriminate|]. intros H; inversion H; subst; clear H.
  now apply active_after_update.
Qed.

Theorem batches_shrink chg : forall fuel p fs st b1 b2 rest,
  fst (pass_loop chg fuel p fs st) = b1 :: b2 :: rest -> forall f, In f b2 -> In f b1.
Proof.
  destruct fuel as [|n]; intros p fs st b1 b2 rest; cbn; [discriminate|].
  destruct (one_pass chg p fs st) as [[todo st']|] eqn:E1; [|discriminate].
  destruct n as [|m]; cbn; [discriminate|].
  destruct (one_pass chg (S p) fs st') as [[todo2 st'']|] eqn:E2; [|discriminate].
  destruct (pass_loop chg m (S (S p)) fs st'') as [log stf]. cbn.
  intros H; inversion H; subst; clear H. intros f Hf.
  pose proof E1 as E1'. pose proof E2 as E2'.
  unfold one_pass in E1, E2.
  destruct (sort_files (nodup_files (filter (fun f => active st (fst f)) fs))) as [|a l] eqn:T1; [discriminate|].
  destruct (sort_files (nodup_files (filter (fun f => active st' (fst f)) fs))) as [|a2 l2] eqn:T2; [discriminate|].
  inversion E1; inversion E2; subst. clear E1 E2.
  rewrite <- T2 in Hf. apply todo_incl in Hf. destruct Hf as [Hin Hact].
  rewrite <- T1.
  eapply Permutation_in; [apply sort_perm|].
  assert (A : active st (fst f) = true) by (eapply active_after_pass; eauto).
  assert (F : In f (filter (fun f => active st (fst f)) fs)) by (apply filter_In; auto).
  clear - F. unfold nodup_files.
  (* membership is preserved by first-occurrence de-duplication *)
  assert (G : forall l seen, In f l -> existsb (file_eqb f) seen = false -> In f (nodup_acc seen l)).
  { induction l as [|x tl IH]; intros seen I S; [destruct I|]. cbn.
    destruct (existsb (file_eqb x) seen) eqn:Ex.
    - destruct I as [->|I]; [congruence | now apply IH].
    - destruct I as [->|I]; [now left|].
      destruct (file_eqb f x) eqn:Efx; [apply file_eqb_spec in Efx; subst; now left|].
      right. apply IH; [exact I|]. cbn. now rewrite Efx. }
  now apply G.
Qed.
