(* C02, abstraction tranche ("abs").

   AbsPy: a loop-free statement language in the style of MiniPy (MiniPyModel.v: opaque calls answered by an
   oracle indexed by the draw position, every call an event of the trace, environments as lists) with
   the three things MiniPy does not have and these rules are about (MiniPy's inductive types cannot be
   extended from outside, so the statement type is a new one):
     - literal expressions: immutable atoms (string constants of a given code width), tuple displays
       (immutable values) and list displays (a NEW heap object per evaluation, mutated by x.append(e));
       events and returned values carry the CONTENTS of the objects (render), so sharing is observable
       through mutation only;
     - opaque calls that may RAISE (the oracle answers None);
     - resource handles: x = open(p_r) / x.close() / y = x.read() / with open(p_r) as x: ...
       with open / close / read events and a table of open handles.
   Reference semantics = eval / exec_stmt / exec_block (total, structural; a trusted definition validated
   against CPython by harness/c02_abs.py on every run).  Rule models:

     abstractions.overused_constant      oc        (one scope: the module body or a function body)
     fixes.missing_context_manager       mcm1 (one rewrite in one statement list), mcm_deep (the rule
                                         function: to the fixpoint, every nested list)

   Models only; proofs are in RulesAbsProofs.v. *)
From Coq Require Import List Bool Arith.
Import ListNotations.

Definition var := nat.

Inductive kind := KTup | KList.

Inductive expr :=
| EAtom (k w : nat)                      (* string constant number k whose source text is w characters wide *)
| EName (x : var)
| EDisp (kd : kind) (es : list expr)     (* (e1, ..., en) / [e1, ..., en] *)
| ECall (i : nat) (es : list expr).      (* f_i(e1, ..., en): opaque *)

Inductive stmt :=
| SPass
| SImport (i : nat)                      (* import m_i (an already loaded module: no event) *)
| SExpr (e : expr)
| SAssign (x : var) (e : expr)
| SAppend (x : var) (e : expr)           (* x.append(e) *)
| SOpen (x : var) (r : nat)              (* x = open(p_r) *)
| SClose (x : var)                       (* x.close() *)
| SRead (y x : var)                      (* y = x.read() *)
| SReturn (e : expr)
| SIf (e : expr) (b1 b2 : list stmt)
| SWith (x : var) (r : nat) (b : list stmt).   (* with open(p_r) as x: b *)

(* ---- values ---- *)
Inductive val :=
| VAtom (k w : nat)
| VOpq (n : nat)                         (* the result of an opaque call: the integer n *)
| VTup (vs : list val)
| VRef (a : nat)                         (* a list object: address in the heap *)
| VHandle (h : nat).                     (* a file object: index in the table of handles *)

(* what an observer of a value sees: its contents.  A list inside a list is shown as RNested. *)
Inductive rval :=
| RAtom (k w : nat) | ROpq (n : nat) | RTup (vs : list rval) | RList (vs : list rval) | RNested
| RHandle (h : nat) (is_open : bool).

Inductive exk := XName | XStub | XAttr | XClosed.

Inductive event :=
| EvCall (i : nat) (args : list rval)
| EvOpen (r h : nat)
| EvClose (h : nat)
| EvRead (h : nat).

Definition env := list (option val).
Definition heap := list (list val).
Record state := mkSt { s_env : env; s_heap : heap; s_files : list bool; s_pos : nat; s_tr : list event }.
(* None: the call raises *)
Definition oracle := nat -> option nat.

Definition get (e : env) (x : var) : option val := nth x e None.
Fixpoint upd (e : env) (x : var) (v : val) : env :=
  match x, e with
  | O, [] => [Some v]
  | O, _ :: tl => Some v :: tl
  | S x', [] => None :: upd [] x' v
  | S x', a :: tl => a :: upd tl x' v
  end.
Fixpoint happ (hp : heap) (a : nat) (v : val) : heap :=
  match hp, a with
  | [], _ => []
  | c :: tl, O => (c ++ [v]) :: tl
  | c :: tl, S a' => c :: happ tl a' v
  end.
Fixpoint fset (fl : list bool) (h : nat) (b : bool) : list bool :=
  match fl, h with
  | [], _ => []
  | _ :: tl, O => b :: tl
  | c :: tl, S h' => c :: fset tl h' b
  end.

Definition set_var (x : var) (v : val) (st : state) : state :=
  mkSt (upd (s_env st) x v) (s_heap st) (s_files st) (s_pos st) (s_tr st).
Definition set_heap (hp : heap) (st : state) : state :=
  mkSt (s_env st) hp (s_files st) (s_pos st) (s_tr st).
Definition set_files (fl : list bool) (st : state) : state :=
  mkSt (s_env st) (s_heap st) fl (s_pos st) (s_tr st).
Definition emit (ev : event) (st : state) : state :=
  mkSt (s_env st) (s_heap st) (s_files st) (s_pos st) (ev :: s_tr st).
Definition bump (st : state) : state :=
  mkSt (s_env st) (s_heap st) (s_files st) (S (s_pos st)) (s_tr st).

Fixpoint render0 (fl : list bool) (v : val) : rval :=
  match v with
  | VAtom k w => RAtom k w
  | VOpq n => ROpq n
  | VTup vs => RTup (map (render0 fl) vs)
  | VRef _ => RNested
  | VHandle h => RHandle h (nth h fl false)
  end.
Fixpoint render (hp : heap) (fl : list bool) (v : val) : rval :=
  match v with
  | VAtom k w => RAtom k w
  | VOpq n => ROpq n
  | VTup vs => RTup (map (render hp fl) vs)
  | VRef a => RList (map (render0 fl) (nth a hp []))
  | VHandle h => RHandle h (nth h fl false)
  end.
Definition render_st (st : state) (v : val) : rval := render (s_heap st) (s_files st) v.

Definition truthy (st : state) (v : val) : bool :=
  match v with
  | VAtom _ _ => true
  | VOpq n => negb (Nat.eqb n 0)
  | VTup vs => match vs with [] => false | _ => true end
  | VRef a => match nth a (s_heap st) [] with [] => false | _ => true end
  | VHandle _ => true
  end.

(* ---- expressions ---- *)
Inductive er := EV (v : val) (st : state) | EX (k : exk) (st : state).
Inductive lr := LV (vs : list val) (st : state) | LX (k : exk) (st : state).

Definition call (o : oracle) (i : nat) (vs : list val) (st : state) : er :=
  let st1 := emit (EvCall i (map (render_st st) vs)) st in
  match o (s_pos st1) with
  | Some n => EV (VOpq n) (bump st1)
  | None => EX XStub (bump st1)
  end.

Definition mk (kd : kind) (vs : list val) (st : state) : er :=
  match kd with
  | KTup => EV (VTup vs) st
  | KList => EV (VRef (length (s_heap st))) (set_heap (s_heap st ++ [vs]) st)
  end.

(* left to right *)
Definition evals_with (ev : state -> expr -> er) : state -> list expr -> lr :=
  fix go (st : state) (es : list expr) {struct es} : lr :=
    match es with
    | [] => LV [] st
    | e :: tl =>
        match ev st e with
        | EX k st1 => LX k st1
        | EV v st1 => match go st1 tl with LV vs st2 => LV (v :: vs) st2 | LX k st2 => LX k st2 end
        end
    end.

Fixpoint eval (o : oracle) (st : state) (e : expr) {struct e} : er :=
  match e with
  | EAtom k w => EV (VAtom k w) st
  | EName x => match get (s_env st) x with Some v => EV v st | None => EX XName st end
  | EDisp kd es =>
      match evals_with (eval o) st es with LV vs st1 => mk kd vs st1 | LX k st1 => EX k st1 end
  | ECall i es =>
      match evals_with (eval o) st es with LV vs st1 => call o i vs st1 | LX k st1 => EX k st1 end
  end.
Definition evals (o : oracle) : state -> list expr -> lr := evals_with (eval o).

(* ---- statements ---- *)
Inductive outcome := Normal | Ret (v : rval) | Exc (k : exk).
Definition res := (outcome * state)%type.

Definition do_open (r : nat) (st : state) : nat * state :=
  let h := length (s_files st) in
  (h, emit (EvOpen r h) (set_files (s_files st ++ [true]) st)).
(* closing a closed file is a no-op *)
Definition close_h (h : nat) (st : state) : state :=
  if nth h (s_files st) false then emit (EvClose h) (set_files (fset (s_files st) h false) st) else st.

Definition block_with (ex : state -> stmt -> res) : state -> list stmt -> res :=
  fix go (st : state) (b : list stmt) {struct b} : res :=
    match b with
    | [] => (Normal, st)
    | s :: tl => match ex st s with (Normal, st1) => go st1 tl | r => r end
    end.

Fixpoint exec_stmt (o : oracle) (st : state) (s : stmt) {struct s} : res :=
  match s with
  | SPass | SImport _ => (Normal, st)
  | SExpr e => match eval o st e with EV _ st1 => (Normal, st1) | EX k st1 => (Exc k, st1) end
  | SAssign x e =>
      match eval o st e with EV v st1 => (Normal, set_var x v st1) | EX k st1 => (Exc k, st1) end
  | SAppend x e =>
      match get (s_env st) x with
      | None => (Exc XName, st)
      | Some (VRef a) =>
          match eval o st e with
          | EV v st1 => (Normal, set_heap (happ (s_heap st1) a v) st1)
          | EX k st1 => (Exc k, st1)
          end
      | Some _ => (Exc XAttr, st)
      end
  | SOpen x r => let (h, st1) := do_open r st in (Normal, set_var x (VHandle h) st1)
  | SClose x =>
      match get (s_env st) x with
      | None => (Exc XName, st)
      | Some (VHandle h) => (Normal, close_h h st)
      | Some _ => (Exc XAttr, st)
      end
  | SRead y x =>
      match get (s_env st) x with
      | None => (Exc XName, st)
      | Some (VHandle h) =>
          if nth h (s_files st) false then
            let st1 := emit (EvRead h) st in
            match o (s_pos st1) with
            | Some n => (Normal, set_var y (VOpq n) (bump st1))
            | None => (Exc XStub, bump st1)
            end
          else (Exc XClosed, st)
      | Some _ => (Exc XAttr, st)
      end
  | SReturn e =>
      match eval o st e with EV v st1 => (Ret (render_st st1 v), st1) | EX k st1 => (Exc k, st1) end
  | SIf e b1 b2 =>
      match eval o st e with
      | EX k st1 => (Exc k, st1)
      | EV v st1 => block_with (exec_stmt o) st1 (if truthy st1 v then b1 else b2)
      end
  | SWith x r b =>
      let (h, st1) := do_open r st in
      let (out, st2) := block_with (exec_stmt o) (set_var x (VHandle h) st1) b in
      (out, close_h h st2)
  end.
Definition exec_block (o : oracle) : state -> list stmt -> res := block_with (exec_stmt o).

(* =========================================================================================== *)
(* decidable equalities *)

Fixpoint list_eqb {A} (eqb : A -> A -> bool) (l m : list A) : bool :=
  match l, m with
  | [], [] => true
  | a :: l', b :: m' => eqb a b && list_eqb eqb l' m'
  | _, _ => false
  end.
Definition kind_eqb (a b : kind) : bool :=
  match a, b with KTup, KTup | KList, KList => true | _, _ => false end.
Fixpoint expr_eqb (a b : expr) {struct a} : bool :=
  let leq := fix leq (l m : list expr) {struct l} : bool :=
               match l, m with
               | [], [] => true
               | x :: l', y :: m' => expr_eqb x y && leq l' m'
               | _, _ => false
               end in
  match a, b with
  | EAtom k w, EAtom k' w' => Nat.eqb k k' && Nat.eqb w w'
  | EName x, EName y => Nat.eqb x y
  | EDisp kd es, EDisp kd' es' => kind_eqb kd kd' && leq es es'
  | ECall i es, ECall j es' => Nat.eqb i j && leq es es'
  | _, _ => false
  end.
Fixpoint stmt_eqb (a b : stmt) {struct a} : bool :=
  let leq := fix leq (l m : list stmt) {struct l} : bool :=
               match l, m with
               | [], [] => true
               | x :: l', y :: m' => stmt_eqb x y && leq l' m'
               | _, _ => false
               end in
  match a, b with
  | SPass, SPass => true
  | SImport i, SImport j => Nat.eqb i j
  | SExpr e, SExpr g => expr_eqb e g
  | SAssign x e, SAssign y g | SAppend x e, SAppend y g => Nat.eqb x y && expr_eqb e g
  | SOpen x r, SOpen y q => Nat.eqb x y && Nat.eqb r q
  | SClose x, SClose y => Nat.eqb x y
  | SRead a1 b1, SRead a2 b2 => Nat.eqb a1 a2 && Nat.eqb b1 b2
  | SReturn e, SReturn g => expr_eqb e g
  | SIf e b1 b2, SIf g c1 c2 => expr_eqb e g && leq b1 c1 && leq b2 c2
  | SWith x r b, SWith y q c => Nat.eqb x y && Nat.eqb r q && leq b c
  | _, _ => false
  end.
Definition prog_eqb : list stmt -> list stmt -> bool := list_eqb stmt_eqb.
Fixpoint rval_eqb (a b : rval) {struct a} : bool :=
  let leq := fix leq (l m : list rval) {struct l} : bool :=
               match l, m with
               | [], [] => true
               | x :: l', y :: m' => rval_eqb x y && leq l' m'
               | _, _ => false
               end in
  match a, b with
  | RAtom k w, RAtom k' w' => Nat.eqb k k' && Nat.eqb w w'
  | ROpq n, ROpq m => Nat.eqb n m
  | RTup vs, RTup ws | RList vs, RList ws => leq vs ws
  | RNested, RNested => true
  | RHandle h b1, RHandle h' b2 => Nat.eqb h h' && Bool.eqb b1 b2
  | _, _ => false
  end.
Definition exk_eqb (a b : exk) : bool :=
  match a, b with XName, XName | XStub, XStub | XAttr, XAttr | XClosed, XClosed => true | _, _ => false end.
Definition event_eqb (a b : event) : bool :=
  match a, b with
  | EvCall i x, EvCall j y => Nat.eqb i j && list_eqb rval_eqb x y
  | EvOpen r h, EvOpen q g => Nat.eqb r q && Nat.eqb h g
  | EvClose h, EvClose g | EvRead h, EvRead g => Nat.eqb h g
  | _, _ => false
  end.
Definition outcome_eqb (a b : outcome) : bool :=
  match a, b with
  | Normal, Normal => true
  | Ret v, Ret w => rval_eqb v w
  | Exc k, Exc j => exk_eqb k j
  | _, _ => false
  end.

(* =========================================================================================== *)
(* abstractions.overused_constant (abstractions.py:543-672) on ONE scope *)

Definition is_atom (e : expr) : bool := match e with EAtom _ _ => true | _ => false end.
(* the rule's template: a Constant, or a Tuple / List display of Constants *)
Definition is_lit (e : expr) : bool :=
  match e with EAtom _ _ => true | EDisp _ es => forallb is_atom es | _ => false end.
(* evaluating it yields an immutable value *)
Definition imm_lit (e : expr) : bool :=
  match e with EAtom _ _ => true | EDisp KTup es => forallb is_atom es | _ => false end.

(* len(re.sub(r"\s", "", core.unparse(node))) *)
Definition atom_w (e : expr) : nat := match e with EAtom _ w => w | _ => 0 end.
Definition width (e : expr) : nat :=
  match e with
  | EAtom _ w => w
  | EDisp KTup [a] => atom_w a + 3
  | EDisp _ es => 2 + fold_right (fun a n => atom_w a + n) 0 es + (length es - 1)
  | _ => 0
  end.

Definition mem (e : expr) (l : list expr) : bool := existsb (expr_eqb e) l.
Fixpoint dedup (l : list expr) : list expr :=
  match l with [] => [] | e :: tl => let d := dedup tl in e :: filter (fun x => negb (expr_eqb e x)) d end.

(* the candidate nodes, in source order; `ov` = displays that are replaced as a whole (their elements are not
   candidates: elements_of_replaced_displays) *)
Fixpoint cands_e (ov : list expr) (e : expr) {struct e} : list expr :=
  match e with
  | EAtom _ _ => [e]
  | EName _ => []
  | EDisp kd es =>
      if is_lit e then (if mem e ov then [e] else e :: flat_map (cands_e ov) es)
      else flat_map (cands_e ov) es
  | ECall i es => flat_map (cands_e ov) es
  end.
(* the first statement of a `body` (not of an orelse) that is a constant expression is not a candidate *)
Definition skip_doc {A} (f : stmt -> list A) (b : list stmt) : list A :=
  match b with SExpr (EAtom _ _) :: tl => flat_map f tl | _ => flat_map f b end.
Fixpoint cands_s (ov : list expr) (s : stmt) {struct s} : list expr :=
  match s with
  | SExpr e | SAssign _ e | SAppend _ e | SReturn e => cands_e ov e
  | SIf e b1 b2 => cands_e ov e ++ skip_doc (cands_s ov) b1 ++ flat_map (cands_s ov) b2
  | SWith _ _ b => skip_doc (cands_s ov) b
  | _ => []
  end.
Definition cands (ov : list expr) (p : list stmt) : list expr := skip_doc (cands_s ov) p.

Definition count (l : expr) (cs : list expr) : nat := length (filter (expr_eqb l) cs).
Definition overused (l : expr) (cs : list expr) : bool := (5 <=? count l cs) && (20 <=? width l).

Definition oc_lits (p : list stmt) : list expr :=
  let raw := cands [] p in
  let ovd := filter (fun l => negb (is_atom l) && overused l raw) (dedup raw) in
  let adj := cands ovd p in
  filter (fun l => overused l adj) (dedup adj).

Fixpoint maxv_e (e : expr) : nat :=
  match e with
  | EName x => x
  | EDisp _ es | ECall _ es => fold_right (fun a n => Nat.max (maxv_e a) n) 0 es
  | _ => 0
  end.
Fixpoint maxv_s (s : stmt) : nat :=
  match s with
  | SExpr e | SReturn e => maxv_e e
  | SAssign x e | SAppend x e => Nat.max x (maxv_e e)
  | SOpen x _ | SClose x => x
  | SRead y x => Nat.max y x
  | SIf e b1 b2 => Nat.max (maxv_e e) (Nat.max (fold_right (fun a n => Nat.max (maxv_s a) n) 0 b1)
                                                 (fold_right (fun a n => Nat.max (maxv_s a) n) 0 b2))
  | SWith x _ b => Nat.max x (fold_right (fun a n => Nat.max (maxv_s a) n) 0 b)
  | _ => 0
  end.
Definition maxv (p : list stmt) : nat := fold_right (fun a n => Nat.max (maxv_s a) n) 0 p.

Definition plan := list (expr * var).
(* new names: the harness numbers the names the rule invents in the order of oc_lits *)
Definition oc_plan (p : list stmt) : plan :=
  let ls := oc_lits p in combine ls (seq (S (maxv p)) (length ls)).

Fixpoint lookup (pl : plan) (e : expr) : option var :=
  match pl with
  | [] => None
  | (l, x) :: tl => if expr_eqb l e then Some x else lookup tl e
  end.
Fixpoint subst_e (pl : plan) (e : expr) {struct e} : expr :=
  match lookup pl e with
  | Some x => EName x
  | None =>
      match e with
      | EDisp kd es => EDisp kd (map (subst_e pl) es)
      | ECall i es => ECall i (map (subst_e pl) es)
      | _ => e
      end
  end.
Definition sub_body (f : stmt -> stmt) (b : list stmt) : list stmt :=
  match b with SExpr (EAtom k w) :: tl => SExpr (EAtom k w) :: map f tl | _ => map f b end.
Fixpoint subst_s (pl : plan) (s : stmt) {struct s} : stmt :=
  match s with
  | SExpr e => SExpr (subst_e pl e)
  | SAssign x e => SAssign x (subst_e pl e)
  | SAppend x e => SAppend x (subst_e pl e)
  | SReturn e => SReturn (subst_e pl e)
  | SIf e b1 b2 => SIf (subst_e pl e) (sub_body (subst_s pl) b1) (map (subst_s pl) b2)
  | SWith x r b => SWith x r (sub_body (subst_s pl) b)
  | _ => s
  end.

Definition is_import (s : stmt) : bool := match s with SImport _ => true | _ => false end.
Fixpoint split_imports (b : list stmt) : list stmt * list stmt :=
  match b with
  | s :: tl => if is_import s then let (a, c) := split_imports tl in (s :: a, c) else ([], b)
  | [] => ([], [])
  end.
Definition binds (pl : plan) : list stmt := map (fun lx => SAssign (snd lx) (fst lx)) pl.
(* _get_constant_insertion_lineno: behind the docstring and the imports that follow it *)
Definition insert_binds (pl : plan) (p : list stmt) : list stmt :=
  match p with
  | SExpr (EAtom k w) :: tl => let (im, rest) := split_imports tl in SExpr (EAtom k w) :: im ++ binds pl ++ rest
  | _ => let (im, rest) := split_imports p in im ++ binds pl ++ rest
  end.
Definition oc_with (pl : plan) (p : list stmt) : list stmt := insert_binds pl (sub_body (subst_s pl) p).
Definition oc (p : list stmt) : option (list stmt) :=
  match oc_plan p with [] => None | pl => Some (oc_with pl p) end.
(* the repair the proof asks for: only immutable literals *)
Definition plan_imm (pl : plan) : bool := forallb (fun lx => imm_lit (fst lx)) pl.

(* =========================================================================================== *)
(* fixes.missing_context_manager (fixes.py:4915-5018) *)

Fixpoint mentions_e (x : var) (e : expr) {struct e} : bool :=
  match e with
  | EName y => Nat.eqb x y
  | EDisp _ es | ECall _ es => existsb (mentions_e x) es
  | _ => false
  end.
(* a statement that rebinds x (Name(id=x, ctx=Store) anywhere in it) *)
Fixpoint assigns (x : var) (s : stmt) {struct s} : bool :=
  match s with
  | SAssign y _ | SOpen y _ => Nat.eqb x y
  | SRead y _ => Nat.eqb x y
  | SIf _ b1 b2 => existsb (assigns x) b1 || existsb (assigns x) b2
  | SWith y _ b => Nat.eqb x y || existsb (assigns x) b
  | _ => false
  end.
(* a `return` that mentions x, anywhere in the statement (after the repair; before it: ret_top) *)
Fixpoint ret_handle (x : var) (s : stmt) {struct s} : bool :=
  match s with
  | SReturn e => mentions_e x e
  | SIf _ b1 b2 => existsb (ret_handle x) b1 || existsb (ret_handle x) b2
  | SWith _ _ b => existsb (ret_handle x) b
  | _ => false
  end.
Definition ret_top (x : var) (s : stmt) : bool :=
  match s with SReturn e => mentions_e x e | _ => false end.
Fixpoint split_close (x : var) (b : list stmt) : option (list stmt * list stmt) :=
  match b with
  | [] => None
  | s :: tl =>
      if (match s with SClose y => Nat.eqb x y | _ => false end) then Some ([], tl)
      else match split_close x tl with Some (b1, b2) => Some (s :: b1, b2) | None => None end
  end.
(* `deep` = the rule after the two repairs of this tranche (nested returns of the handle; no rebinding of the handle
   between open and the close() that is removed); `deep = false`: the rule before *)
Definition mcm_here_with (deep : bool) (x : var) (r : nat) (rest : list stmt) : option (list stmt) :=
  match rest with
  | [] => None
  | _ =>
      if existsb (if deep then ret_handle x else ret_top x) rest then None
      else match split_close x rest with
           | Some (b1, b2) => if deep && existsb (assigns x) b1 then None else Some (SWith x r b1 :: b2)
           | None => Some [SWith x r rest]      (* the loop that drops trailing statements never drops one *)
           end
  end.
Definition mcm_here := mcm_here_with true.
Fixpoint mcm1_with (deep : bool) (b : list stmt) : option (list stmt) :=
  match b with
  | [] => None
  | s :: rest =>
      match (match s with SOpen x r => mcm_here_with deep x r rest | _ => None end) with
      | Some b' => Some b'
      | None => match mcm1_with deep rest with Some r' => Some (s :: r') | None => None end
      end
  end.
Definition mcm1 := mcm1_with true.
Definition mcm1_old := mcm1_with false.
(* an empty with body cannot be printed: the rewrite is rolled back *)
Fixpoint has_empty_with (b : list stmt) : bool :=
  match b with
  | [] => false
  | SWith _ _ [] :: _ => true
  | _ :: tl => has_empty_with tl
  end.
(* the rule function: rewrite, parse again, until nothing changes *)
Fixpoint mcm_iter (fuel : nat) (b : list stmt) : list stmt :=
  match fuel with
  | O => b
  | S f => match mcm1 b with
           | Some b' => if has_empty_with b' then b else mcm_iter f b'
           | None => b
           end
  end.
Fixpoint size_s (s : stmt) : nat :=
  match s with
  | SIf _ b1 b2 => S (fold_right (fun a n => size_s a + n) 0 b1 + fold_right (fun a n => size_s a + n) 0 b2)
  | SWith _ _ b => S (fold_right (fun a n => size_s a + n) 0 b)
  | _ => 1
  end.
Definition size (b : list stmt) : nat := fold_right (fun a n => size_s a + n) 0 b.
Fixpoint mcm_deep (fuel : nat) (b : list stmt) : list stmt :=
  match fuel with
  | O => b
  | S f =>
      map (fun s => match s with
                    | SIf e b1 b2 => SIf e (mcm_deep f b1) (mcm_deep f b2)
                    | SWith x r c => SWith x r (mcm_deep f c)
                    | _ => s
                    end) (mcm_iter (S (length b)) b)
  end.
Definition mcm (b : list stmt) : list stmt := mcm_deep (S (size b)) b.

(* =========================================================================================== *)
(* case checkers for the correspondence (harness/c02_abs.py) *)

(* the rule's output with the invented names numbered S (maxv p), ... in the order of the inserted assignments
   (pl = those assignments): the same SET of literals as the model's, and the model's rewrite under that plan *)
Definition oc_case_ok (c : list stmt * plan * option (list stmt)) : bool :=
  let '(p, pl, out) := c in
  let ls := oc_lits p in
  match out with
  | None => match ls with [] => true | _ => false end
  | Some q =>
      negb (match ls with [] => true | _ => false end)
      && Nat.eqb (length pl) (length ls) && forallb (fun l => mem l (map fst pl)) ls
      && list_eqb Nat.eqb (map snd pl) (seq (S (maxv p)) (length pl))
      && prog_eqb (oc_with pl p) q
  end.
Definition mcm_case_ok (c : list stmt * list stmt) : bool := prog_eqb (mcm (fst c)) (snd c).

Definition oracle_of (script : list (option nat)) : oracle := fun n => nth n script (Some 0).
Definition st0 : state := mkSt [] [] [] 0 [].
Definition orval_eqb (a b : option rval) : bool :=
  match a, b with None, None => true | Some x, Some y => rval_eqb x y | _, _ => false end.
(* program, script, expected outcome, trace (oldest first), rendered variables 0..n-1 *)
Definition sem_case := (list stmt * list (option nat) * (outcome * list event * list (option rval)))%type.
Definition sem_case_ok (c : sem_case) : bool :=
  let '(p, script, (out, tr, final)) := c in
  let (out', st) := exec_block (oracle_of script) st0 p in
  outcome_eqb out' out && list_eqb event_eqb (rev (s_tr st)) tr
  && list_eqb orval_eqb (map (fun x => option_map (render_st st) (get (s_env st) x)) (seq 0 (length final))) final.
