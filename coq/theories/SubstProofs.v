(* K1+K13 -- theorems about SubstModel.v (subn / sub): T14.1 - T14.5.
   Unbounded: every list of matches, every count, every set of ignored lines, every source. *)
From Coq Require Import List ZArith Bool Lia Permutation Sorted Arith.
Import ListNotations.
Require Import Pyrefact.SchedModel Pyrefact.SchedProofs Pyrefact.Splice Pyrefact.SubstModel.
Require Pyrefact.IgnoreModel Pyrefact.IgnoreProofs Pyrefact.SchedApplyModel.
Open Scope Z_scope.

(* ======================================================================================== *)
(* generic lemmas                                                                            *)
(* ======================================================================================== *)
Lemma existsb_map {A B} (f : B -> bool) (g : A -> B) (l : list A) :
  existsb f (map g l) = existsb (fun x => f (g x)) l.
Proof. induction l as [|a l IH]; simpl; [reflexivity | rewrite IH; reflexivity]. Qed.

Lemma existsb_ext' {A} (f g : A -> bool) (l : list A) :
  (forall x, f x = g x) -> existsb f l = existsb g l.
Proof. intros H. induction l as [|a l IH]; simpl; [reflexivity | rewrite H, IH; reflexivity]. Qed.

Lemma SS_app {A} (R : A -> A -> Prop) (l1 l2 : list A) :
  StronglySorted R l1 -> StronglySorted R l2 ->
  (forall a b, In a l1 -> In b l2 -> R a b) -> StronglySorted R (l1 ++ l2).
Proof.
  induction l1 as [|x l1 IH]; simpl; intros H1 H2 H12; [exact H2|].
  inversion H1 as [|? ? Hs Hx]; subst. constructor.
  - apply IH; [exact Hs | exact H2 |]. intros a b Ha Hb. apply H12; [right; exact Ha | exact Hb].
  - apply Forall_app. split; [exact Hx|]. apply Forall_forall. intros b Hb.
    apply H12; [left; reflexivity | exact Hb].
Qed.

Lemma SS_rev {A} (R : A -> A -> Prop) (l : list A) :
  StronglySorted R l -> StronglySorted (fun a b => R b a) (rev l).
Proof.
  induction 1 as [|x l Hs IH Hx]; simpl; [constructor|].
  apply SS_app; [exact IH | repeat constructor |].
  intros a b Ha [<-|[]]. rewrite Forall_forall in Hx. apply Hx. apply in_rev. exact Ha.
Qed.

Lemma SS_map {A B} (R : A -> A -> Prop) (Q : B -> B -> Prop) (f : A -> B) (l : list A) :
  (forall a b, In a l -> In b l -> R a b -> Q (f a) (f b)) ->
  StronglySorted R l -> StronglySorted Q (map f l).
Proof.
  intros H Hs. induction Hs as [|x l Hs IH Hx]; simpl; [constructor|].
  constructor.
  - apply IH. intros a b Ha Hb. apply H; right; assumption.
  - rewrite Forall_forall in *. intros y Hy. apply in_map_iff in Hy. destruct Hy as [z [<- Hz]].
    apply H; [left; reflexivity | right; exact Hz | apply Hx; exact Hz].
Qed.

Lemma FOP_map {A B} (R : A -> A -> Prop) (Q : B -> B -> Prop) (f : A -> B) (l : list A) :
  (forall a b, In a l -> In b l -> R a b -> Q (f a) (f b)) ->
  ForallOrdPairs R l -> ForallOrdPairs Q (map f l).
Proof.
  intros H Hs. induction Hs as [|x l Hx Hs IH]; simpl; [constructor|].
  constructor.
  - rewrite Forall_forall in *. intros y Hy. apply in_map_iff in Hy. destruct Hy as [z [<- Hz]].
    apply H; [left; reflexivity | right; exact Hz | apply Hx; exact Hz].
  - apply IH. intros a b Ha Hb. apply H; right; assumption.
Qed.

(* ======================================================================================== *)
(* the scheduler on one group of default transactions is the greedy selection                 *)
(* ======================================================================================== *)
Section SubnProofs.
Variable T : Type.
Variable teqb : T -> T -> bool.
Variable tcmp : T -> T -> comparison.
Hypothesis teqb_spec : forall a b, teqb a b = true <-> a = b.
Variable ilines : list range.

Notation rw := (rewrite T).
Notation entry := (tkey * rewrite T)%type.
Notation item := (range * T)%type.

Definition rw_of (it : item) : rw := mkRw (fst it) (snd it).

(* the yielded items with the transaction numbers the shared counter gives them *)
Fixpoint number (c : Z) (items : list item) : list (Z * rw) :=
  match items with
  | [] => []
  | it :: tl => (c + 1, rw_of it) :: number (c + 1) tl
  end.

Lemma fill_default (items : list item) : forall c,
  fill T c (subn_yield T items) = (number c items, c + Z.of_nat (length items)).
Proof.
  induction items as [|it tl IH]; intros c.
  - simpl. f_equal. lia.
  - cbn [subn_yield map fill]. fold (subn_yield T tl). rewrite IH.
    cbn [number length]. f_equal. lia.
Qed.

Definition tx1 (p : Z * rw) : tkey * list rw := ((0, fst p), [snd p]).

Lemma tr_add_last (k : tkey) (r : rw) (tr : txmap T) :
  Forall (fun e => key_cmp (fst e) k = Lt) tr -> tr_add T k r tr = tr ++ [(k, [r])].
Proof.
  induction tr as [|[k' rs] tl IH]; intros H; [reflexivity|].
  inversion H as [|? ? Hk Htl]; subst. simpl in Hk.
  cbn [tr_add]. apply key_cmp_Gt in Hk. rewrite Hk. rewrite IH by exact Htl. reflexivity.
Qed.

Lemma number_keys_gt (items : list item) : forall c p, In p (number c items) -> c < fst p.
Proof.
  induction items as [|it tl IH]; intros c p Hp; [destruct Hp|].
  destruct Hp as [<-|Hp]; [simpl; lia|]. apply IH in Hp. lia.
Qed.

Lemma add_items_default (items : list item) : forall c (tr : txmap T),
  Forall (fun e => fst (fst e) = 0 /\ snd (fst e) <= c) tr ->
  add_items T 0 (number c items) tr = tr ++ map tx1 (number c items).
Proof.
  induction items as [|it tl IH]; intros c tr Htr.
  - simpl. rewrite app_nil_r. reflexivity.
  - cbn [number]. rewrite add_items_cons. cbn [fst snd].
    assert (H1 : Forall (fun e : tkey * list rw => key_cmp (fst e) (0, c + 1) = Lt) tr).
    { eapply Forall_impl; [|exact Htr]. intros e [H1 H2].
      apply key_cmp_Lt. simpl. unfold tkey in *. right. split; [exact H1 | lia]. }
    assert (H2 : Forall (fun e : tkey * list rw => fst (fst e) = 0 /\ snd (fst e) <= c + 1)
                        (tr ++ [((0, c + 1), [rw_of it])])).
    { apply Forall_app. split.
      - eapply Forall_impl; [|exact Htr]. intros e [E1 E2]. unfold tkey in *. split; [exact E1 | lia].
      - constructor; [|constructor]. simpl. split; [reflexivity | lia]. }
    rewrite (tr_add_last _ _ _ H1). rewrite IH by exact H2.
    rewrite <- app_assoc. reflexivity.
Qed.

(* invariants that tie the scheduler's state to the greedy selection's state *)
Lemma rws_eqb_single (a b : rw) : rws_eqb T teqb [a] [b] = rw_eqb T teqb a b.
Proof. simpl. apply andb_true_r. Qed.

Lemma dup_test (it : item) (seenI : list item) :
  existsb (rws_eqb T teqb [rw_of it]) (map (fun s => [rw_of s]) seenI)
  = existsb (item_eqb T teqb it) seenI.
Proof.
  rewrite existsb_map. apply existsb_ext'. intros s. rewrite rws_eqb_single. reflexivity.
Qed.

Lemma conflict_test (it : item) (sched : list entry) (acc : list item) :
  map snd sched = map rw_of acc ->
  sched_conflict T sched [rw_of it] = existsb (fun a => overlaps (fst it) (fst a)) acc.
Proof.
  intros H. unfold sched_conflict. cbn [existsb]. rewrite orb_false_r.
  transitivity (existsb (fun r : rw => overlaps (fst it) (rrng r)) (map snd sched)).
  - rewrite existsb_map. reflexivity.
  - rewrite H, existsb_map. reflexivity.
Qed.

Lemma greedy_fold (items : list item) : forall c (seenI acc : list item) (sched : list entry),
  map snd sched = map rw_of acc ->
  map snd (fold_left (process_tx T teqb ilines 0)
                     (dedup T teqb (map (fun s => [rw_of s]) seenI) (map tx1 (number c items)))
                     sched)
  = map rw_of (greedy T teqb ilines seenI acc items).
Proof.
  induction items as [|it tl IH]; intros c seenI acc sched Hs.
  - simpl. exact Hs.
  - cbn [number map tx1 fst snd dedup greedy].
    rewrite dup_test.
    destruct (existsb (item_eqb T teqb it) seenI) eqn:Edup.
    + cbn [orb].
      change ([rw_of it] :: map (fun s => [rw_of s]) seenI) with (map (fun s => [rw_of s]) (it :: seenI)).
      apply IH. exact Hs.
    + cbn [orb fold_left].
      change ([rw_of it] :: map (fun s => [rw_of s]) seenI) with (map (fun s => [rw_of s]) (it :: seenI)).
      unfold process_tx at 2. cbn [fst snd]. rewrite Z.eqb_refl. cbn [negb].
      assert (Hnd : nodup_rw T teqb [rw_of it] = [rw_of it]) by reflexivity.
      rewrite Hnd. unfold judge. cbn [existsb self_conflict]. rewrite orb_false_r.
      change (rrng (rw_of it)) with (fst it).
      destruct (ignored ilines (fst it)) eqn:Eig.
      * cbn [orb]. apply IH. exact Hs.
      * cbn [orb]. rewrite (conflict_test it sched acc Hs).
        destruct (existsb (fun a => overlaps (fst it) (fst a)) acc) eqn:Eov.
        -- apply IH. exact Hs.
        -- apply IH. rewrite !map_app, Hs. reflexivity.
Qed.

(* the accepted rewrites, in the order of acceptance, are exactly the greedy selection *)
Theorem accepted_is_greedy (items : list item) :
  map snd (accepted_unsorted T teqb ilines [subn_yield T items])
  = map rw_of (greedy T teqb ilines [] [] items).
Proof.
  unfold accepted_unsorted. cbn [run_groups]. rewrite fill_default.
  rewrite (add_items_default items START_COUNT []) by constructor.
  cbn [app snd].
  apply (greedy_fold items START_COUNT [] [] []). reflexivity.
Qed.

(* T14.3 *)
Theorem schedule_is_greedy (items : list item) :
  Permutation (map snd (subn_schedule T teqb tcmp ilines items))
              (map rw_of (greedy T teqb ilines [] [] items)).
Proof.
  unfold subn_schedule, schedule. rewrite <- accepted_is_greedy.
  apply Permutation_map, Permutation_sym, sort_desc_perm.
Qed.

(* ---- facts about the greedy selection ---- *)
Lemma greedy_incl (items : list item) : forall seen acc x,
  In x (greedy T teqb ilines seen acc items) -> In x acc \/ In x items.
Proof.
  induction items as [|it tl IH]; intros seen acc x H; [left; exact H|].
  cbn [greedy] in H.
  destruct (existsb (item_eqb T teqb it) seen || ignored ilines (fst it)
            || existsb (fun a => overlaps (fst it) (fst a)) acc).
  - apply IH in H. destruct H; [left; assumption | right; right; assumption].
  - apply IH in H. destruct H as [H|H]; [|right; right; exact H].
    apply in_app_or in H. destruct H as [H|[<-|[]]]; [left; exact H | right; left; reflexivity].
Qed.

Lemma greedy_length (items : list item) : forall seen acc,
  (length (greedy T teqb ilines seen acc items) <= length acc + length items)%nat.
Proof.
  induction items as [|it tl IH]; intros seen acc; [simpl; lia|].
  cbn [greedy length].
  destruct (existsb (item_eqb T teqb it) seen || ignored ilines (fst it)
            || existsb (fun a => overlaps (fst it) (fst a)) acc).
  - specialize (IH (it :: seen) acc). lia.
  - specialize (IH (it :: seen) (acc ++ [it])). rewrite app_length in IH. simpl in IH. lia.
Qed.

Lemma greedy_not_ignored (items : list item) : forall seen acc,
  (forall x, In x acc -> ignored ilines (fst x) = false) ->
  forall x, In x (greedy T teqb ilines seen acc items) -> ignored ilines (fst x) = false.
Proof.
  induction items as [|it tl IH]; intros seen acc Hacc x H; [apply Hacc; exact H|].
  cbn [greedy] in H.
  destruct (existsb (item_eqb T teqb it) seen) eqn:E1; cbn [orb] in H; [eapply IH; eassumption|].
  destruct (ignored ilines (fst it)) eqn:E2; cbn [orb] in H; [eapply IH; eassumption|].
  destruct (existsb (fun a => overlaps (fst it) (fst a)) acc) eqn:E3; [eapply IH; eassumption|].
  eapply IH; [|exact H]. intros y Hy. apply in_app_or in Hy.
  destruct Hy as [Hy|[<-|[]]]; [apply Hacc; exact Hy | exact E2].
Qed.

(* the selection is exactly "greedy": an item is selected iff it is not a repetition of an earlier
   item, does not touch an ignored line and overlaps nothing selected before it *)
Lemma greedy_app (items : list item) : forall seen acc,
  exists ext, greedy T teqb ilines seen acc items = acc ++ ext.
Proof.
  induction items as [|it tl IH]; intros seen acc; [exists []; simpl; rewrite app_nil_r; reflexivity|].
  cbn [greedy].
  destruct (existsb (item_eqb T teqb it) seen || ignored ilines (fst it)
            || existsb (fun a => overlaps (fst it) (fst a)) acc).
  - apply IH.
  - destruct (IH (it :: seen) (acc ++ [it])) as [ext E]. exists (it :: ext).
    rewrite E, <- app_assoc. reflexivity.
Qed.

Theorem greedy_step (pre : list item) (it : item) (post : list item) :
  let sel := greedy T teqb ilines [] [] pre in
  greedy T teqb ilines [] [] (pre ++ it :: post)
  = if existsb (item_eqb T teqb it) pre || ignored ilines (fst it)
       || existsb (fun a => overlaps (fst it) (fst a)) sel
    then greedy T teqb ilines (it :: rev pre) sel post
    else greedy T teqb ilines (it :: rev pre) (sel ++ [it]) post.
Proof.
  assert (G : forall pre seen acc,
    greedy T teqb ilines seen acc (pre ++ it :: post)
    = let sel := greedy T teqb ilines seen acc pre in
      if existsb (item_eqb T teqb it) (rev pre ++ seen) || ignored ilines (fst it)
         || existsb (fun a => overlaps (fst it) (fst a)) sel
      then greedy T teqb ilines (it :: rev pre ++ seen) sel post
      else greedy T teqb ilines (it :: rev pre ++ seen) (sel ++ [it]) post).
  { clear pre. induction pre as [|p pre IH]; intros seen acc; [reflexivity|].
    cbn [app greedy rev]. rewrite <- !app_assoc. cbn [app].
    destruct (existsb (item_eqb T teqb p) seen || ignored ilines (fst p)
              || existsb (fun a => overlaps (fst p) (fst a)) acc); apply IH. }
  intros sel. rewrite G. rewrite app_nil_r. cbn zeta. fold sel.
  replace (existsb (item_eqb T teqb it) (rev pre)) with (existsb (item_eqb T teqb it) pre);
    [reflexivity|].
  apply bool_eq_iff. rewrite !existsb_exists. split; intros [x [Hx Ex]]; exists x; split; auto.
  - rewrite <- in_rev. exact Hx.
  - rewrite <- in_rev in Hx. exact Hx.
Qed.

(* ---- T14.2 count ---- *)
Lemma take_count_length {X} (count : Z) (l : list X) :
  0 < count -> (length (take_count count l) <= Z.to_nat count)%nat.
Proof.
  intros H. unfold take_count. apply Z.ltb_lt in H. rewrite H. apply firstn_le_length.
Qed.

Theorem schedule_length (items : list item) :
  (length (subn_schedule T teqb tcmp ilines items) <= length items)%nat.
Proof.
  rewrite <- (map_length snd).
  rewrite (Permutation_length (schedule_is_greedy items)), map_length.
  apply (greedy_length items [] []).
Qed.

Theorem count_bounds_rewrites (count : Z) (items : list item) :
  0 < count ->
  (length (subn_schedule T teqb tcmp ilines (take_count count items)) <= Z.to_nat count)%nat.
Proof.
  intros H. eapply Nat.le_trans; [apply schedule_length | apply take_count_length; exact H].
Qed.

(* ---- T14.5 ignore ---- *)
Theorem scheduled_not_ignored (items : list item) :
  forall e, In e (subn_schedule T teqb tcmp ilines items) ->
            ignored ilines (rrng (snd e)) = false.
Proof.
  intros e He.
  assert (H : In (snd e) (map rw_of (greedy T teqb ilines [] [] items))).
  { eapply Permutation_in; [apply schedule_is_greedy | apply in_map; exact He]. }
  apply in_map_iff in H. destruct H as [x [Ex Hx]]. rewrite <- Ex. cbn [rw_of rrng].
  eapply greedy_not_ignored; [|exact Hx]. intros y [].
Qed.

Theorem scheduled_from_items (items : list item) :
  forall e, In e (subn_schedule T teqb tcmp ilines items) ->
            In (rrng (snd e), rnew (snd e)) items.
Proof.
  intros e He.
  assert (H : In (snd e) (map rw_of (greedy T teqb ilines [] [] items))).
  { eapply Permutation_in; [apply schedule_is_greedy | apply in_map; exact He]. }
  apply in_map_iff in H. destruct H as [x [Ex Hx]]. rewrite <- Ex. cbn [rw_of rrng rnew].
  destruct (greedy_incl items [] [] x Hx) as [[]|H]. destruct x; exact H.
Qed.

(* ---- the final sort is descending by range, whatever the order on the new texts ---- *)
Definition rge (a b : entry) : Prop := range_cmp (rrng (snd a)) (rrng (snd b)) <> Lt.

Lemma range_cmp_Lt (a b : range) :
  range_cmp a b = Lt <-> (fst a < fst b \/ (fst a = fst b /\ snd a < snd b)).
Proof.
  unfold range_cmp. destruct (Z.compare_spec (fst a) (fst b)) as [H|H|H].
  - rewrite Z.compare_lt_iff. lia.
  - split; [intros _; lia | reflexivity].
  - split; [discriminate | intros; exfalso; lia].
Qed.

Lemma range_cmp_Gt (a b : range) : range_cmp a b = Gt <-> range_cmp b a = Lt.
Proof.
  rewrite range_cmp_Lt. unfold range_cmp. destruct (Z.compare_spec (fst a) (fst b)) as [H|H|H].
  - rewrite Z.compare_gt_iff. lia.
  - split; [discriminate | intros; exfalso; lia].
  - split; [intros _; lia | reflexivity].
Qed.

Lemma range_cmp_ge (a b : range) :
  range_cmp a b <> Lt <-> (fst b < fst a \/ (fst a = fst b /\ snd b <= snd a)).
Proof. rewrite range_cmp_Lt. lia. Qed.

Lemma entry_cmp_Gt_rge (x y : entry) : entry_cmp T tcmp x y = Gt -> rge x y.
Proof.
  unfold entry_cmp, rge. destruct (range_cmp (rrng (snd x)) (rrng (snd y))); congruence.
Qed.

Lemma entry_cmp_notGt_rge (x y : entry) : entry_cmp T tcmp x y <> Gt -> rge y x.
Proof.
  unfold entry_cmp, rge. intros H. apply range_cmp_ge.
  assert (H0 : range_cmp (rrng (snd x)) (rrng (snd y)) <> Gt).
  { intros E. apply H. rewrite E. reflexivity. }
  rewrite range_cmp_Gt, range_cmp_Lt in H0. lia.
Qed.

Lemma rge_trans (a b c : entry) : rge a b -> rge b c -> rge a c.
Proof. unfold rge. rewrite !range_cmp_ge. lia. Qed.

Lemma insert_desc_sorted (x : entry) (l : list entry) :
  StronglySorted rge l -> StronglySorted rge (insert_desc T tcmp x l).
Proof.
  induction 1 as [|y tl Hs IH Hy]; cbn [insert_desc]; [repeat constructor|].
  destruct (entry_cmp T tcmp x y) eqn:E.
  - constructor; [exact IH|]. apply Forall_forall. intros z Hz.
    apply (Permutation_in z (Permutation_sym (insert_desc_perm T tcmp x tl))) in Hz.
    destruct Hz as [<-|Hz]; [apply entry_cmp_notGt_rge; congruence|].
    rewrite Forall_forall in Hy. apply Hy. exact Hz.
  - constructor; [exact IH|]. apply Forall_forall. intros z Hz.
    apply (Permutation_in z (Permutation_sym (insert_desc_perm T tcmp x tl))) in Hz.
    destruct Hz as [<-|Hz]; [apply entry_cmp_notGt_rge; congruence|].
    rewrite Forall_forall in Hy. apply Hy. exact Hz.
  - constructor; [constructor; assumption|].
    constructor; [apply entry_cmp_Gt_rge; exact E|].
    rewrite Forall_forall in *. intros z Hz. eapply rge_trans; [apply entry_cmp_Gt_rge; exact E|].
    apply Hy. exact Hz.
Qed.

Lemma sort_desc_sorted (l : list entry) : StronglySorted rge (sort_desc T tcmp l).
Proof.
  unfold sort_desc.
  assert (G : forall acc, StronglySorted rge acc ->
                          StronglySorted rge (fold_left (fun acc x => insert_desc T tcmp x acc) l acc)).
  { induction l as [|x l IH]; intros acc Hacc; [exact Hacc|]. simpl. apply IH, insert_desc_sorted, Hacc. }
  apply G. constructor.
Qed.

End SubnProofs.

(* ======================================================================================== *)
(* text: _do_rewrite is a splice; the candidate is the simultaneous splice (T14.4)           *)
(* ======================================================================================== *)
Close Scope Z_scope.
Open Scope nat_scope.

Lemma SS_unmap {A B} (Q : B -> B -> Prop) (f : A -> B) (l : list A) :
  StronglySorted Q (map f l) -> StronglySorted (fun a b => Q (f a) (f b)) l.
Proof.
  induction l as [|x l IH]; simpl; intros H; [constructor|].
  inversion H as [|? ? Hs Hx]; subst. constructor; [apply IH; exact Hs|].
  rewrite Forall_forall in *. intros y Hy. apply Hx. apply in_map. exact Hy.
Qed.

Lemma FOP_unmap {A B} (Q : B -> B -> Prop) (f : A -> B) (l : list A) :
  ForallOrdPairs Q (map f l) -> ForallOrdPairs (fun a b => Q (f a) (f b)) l.
Proof.
  induction l as [|x l IH]; simpl; intros H; [constructor|].
  inversion H as [|? ? Hx Hs]; subst. constructor; [|apply IH; exact Hs].
  rewrite Forall_forall in *. intros y Hy. apply Hx. apply in_map. exact Hy.
Qed.

Lemma Forall_unmap {A B} (P : B -> Prop) (f : A -> B) (l : list A) :
  Forall P (map f l) -> Forall (fun a => P (f a)) l.
Proof.
  induction l as [|x l IH]; simpl; intros H; [constructor|].
  inversion H; subst. constructor; [assumption | apply IH; assumption].
Qed.

Section Segments.
Variable A : Type.

Definition seg (p q : nat) (l : list A) : list A := firstn (q - p) (skipn p l).

Lemma skipn_skipn (x y : nat) : forall l : list A, skipn x (skipn y l) = skipn (x + y) l.
Proof.
  induction y as [|y IH]; intros l.
  - rewrite Nat.add_0_r. reflexivity.
  - rewrite Nat.add_succ_r. destruct l as [|a l]; [rewrite !skipn_nil; reflexivity|].
    cbn [skipn]. apply IH.
Qed.

Lemma seg_split (p a q : nat) (l : list A) : p <= a -> a <= q -> seg p q l = seg p a l ++ seg a q l.
Proof.
  intros H1 H2. unfold seg.
  rewrite (firstn_split A (a - p) (q - p) (skipn p l)) by lia.
  rewrite skipn_skipn. replace (a - p + p) with a by lia. replace (q - p - (a - p)) with (q - a) by lia.
  reflexivity.
Qed.

Lemma skipn_seg (p a : nat) (l : list A) : p <= a -> skipn p l = seg p a l ++ skipn a l.
Proof.
  intros H. unfold seg. rewrite <- (firstn_skipn (a - p) (skipn p l)) at 1.
  rewrite skipn_skipn. replace (a - p + p) with a by lia. reflexivity.
Qed.

Lemma splice_self (cur : list A) (s e : nat) :
  s <= e -> firstn s cur ++ seg s e cur ++ skipn e cur = cur.
Proof.
  intros H. rewrite <- (skipn_seg s e cur H). apply firstn_skipn.
Qed.

(* a stretch [a, b) of the source that no rewrite touches is a contiguous piece of the result *)
Lemma build_keeps (src : list A) (asc : list (nrw A)) : forall p a b,
  chain_ok A (length src) p asc -> p <= a -> a <= b -> b <= length src ->
  (forall r, In r asc -> nend A r <= a \/ b <= nstart A r) ->
  exists pre post, build A p src asc = pre ++ seg a b src ++ post.
Proof.
  induction asc as [|r rest IH]; intros p a b Hc Hpa Hab Hb Hfree.
  - exists (seg p a src), (skipn b src). cbn [build].
    rewrite (skipn_seg p a src Hpa), (skipn_seg a b src Hab). reflexivity.
  - inversion Hc as [|? ? ? Hps Hse Hel Hrest]; subst. cbn [build].
    destruct (Hfree r (or_introl eq_refl)) as [Hr|Hr].
    + destruct (IH (nend A r) a b Hrest Hr Hab Hb) as [pre [post E]].
      { intros q Hq. apply Hfree. right. exact Hq. }
      exists (firstn (nstart A r - p) (skipn p src) ++ ntext A r ++ pre), post.
      rewrite E, <- !app_assoc. reflexivity.
    + exists (seg p a src), (seg b (nstart A r) src ++ ntext A r ++ build A (nend A r) src rest).
      change (firstn (nstart A r - p) (skipn p src)) with (seg p (nstart A r) src).
      rewrite (seg_split p a (nstart A r) src) by lia.
      rewrite (seg_split a b (nstart A r) src) by lia.
      rewrite <- !app_assoc. reflexivity.
Qed.

End Segments.

(* ---- the lines that carry an ignore comment lie inside the text ---- *)
Lemma ignore_entry_ok (src : text) (coms : option (list nat)) (e : range * IgnoreModel.text) :
  In e (ignore_entries src coms) ->
  (0 <= fst (fst e))%Z /\ (fst (fst e) <= snd (fst e))%Z /\ (snd (fst e) <= Z.of_nat (length src))%Z.
Proof.
  intros H. unfold ignore_entries in H.
  destruct (IgnoreProofs.ignore_entries_in _ _ _ H) as [Hin _].
  destruct e as [r l].
  destruct (IgnoreProofs.line_ranges_slice _ _ _ _ Hin) as (X & Y & Hc & Hs & He).
  rewrite IgnoreProofs.split_lines_concat in Hc.
  assert (Hlen : length src = length (X ++ l ++ Y)).
  { rewrite <- Hc. unfold to_n. rewrite map_length. reflexivity. }
  rewrite !app_length in Hlen. cbn [fst snd]. lia.
Qed.

Lemma fold_left_map_filter {A B C} (g : C -> B -> C) (h : A -> B) (p : A -> bool) (l : list A) :
  forall a, fold_left g (map h (filter p l)) a = fold_left (fun a x => if p x then g a (h x) else a) l a.
Proof.
  induction l as [|x l IH]; intros a; [reflexivity|].
  cbn [filter]. destruct (p x) eqn:E; cbn [map fold_left]; rewrite E; apply IH.
Qed.

Lemma filter_filter' {A} (p q : A -> bool) (l : list A) :
  filter p (filter q l) = filter (fun x => q x && p x) l.
Proof.
  induction l as [|x l IH]; [reflexivity|].
  cbn [filter]. destruct (q x); cbn [andb filter]; [destruct (p x); rewrite IH; reflexivity | exact IH].
Qed.

Section TextProofs.
Variable valid : text -> bool.
Variable equiv : text -> text -> bool.
Variable wrap : range -> bool.
Variable mlstr : text -> bool.
Variable coms : option (list nat).

Definition nat_range (r : range) : nat * nat := (Z.to_nat (fst r), Z.to_nat (snd r)).
Definition range_ok (len : nat) (r : range) : Prop :=
  (0 <= fst r)%Z /\ (fst r <= snd r)%Z /\ (snd r <= Z.of_nat len)%Z.

Lemma slice_seg (src : text) (r : range) :
  slice src r = seg Z (Z.to_nat (fst r)) (Z.to_nat (snd r)) src.
Proof. reflexivity. Qed.

Lemma splice_slice (cur : text) (r : range) :
  Z.to_nat (fst r) <= Z.to_nat (snd r) -> splice Z cur r (slice cur r) = cur.
Proof. intros H. unfold splice. rewrite slice_seg. apply splice_self. exact H. Qed.

Lemma first_valid_splice (cur : text) (r : range) (n : text) (extras : list nat) (dflt : text) :
  (exists n', dflt = splice Z cur r n') ->
  exists n', first_valid valid cur r n extras dflt = splice Z cur r n'.
Proof.
  intros Hd. induction extras as [|x tl IH]; [exact Hd|].
  cbn [first_valid]. destruct (valid (splice_t cur r (extra_indented x n))); [|exact IH].
  eexists. reflexivity.
Qed.

(* whatever _do_rewrite decides (equal text, plain candidate, parentheses, padding, "pass", re-indented
   candidate), the result is the current text with the range replaced by SOME text *)
Lemma do_rewrite_splice (cur : text) (r : range) (n : text) :
  Z.to_nat (fst r) <= Z.to_nat (snd r) ->
  exists n', do_rewrite valid equiv wrap cur (r, n) = splice Z cur r n'.
Proof.
  intros H. unfold do_rewrite.
  destruct (text_eqb n (slice cur r)); [exists (slice cur r); symmetry; apply splice_slice; exact H|].
  generalize (pad_braces valid equiv cur r (wrapped wrap r n)). intros n1.
  match goal with |- context [first_valid _ _ _ _ _ ?c] => set (choice := c) end.
  assert (Hc : exists n', choice = splice Z cur r n').
  { unfold choice. destruct (_ || _); [eexists; reflexivity|].
    destruct (valid (splice_t cur r str_pass)); eexists; reflexivity. }
  destruct (_ && _); [apply first_valid_splice; exact Hc | exact Hc].
Qed.

(* one turn of the loop of _apply_rewrites: a member of a refused transaction and a no-op member (both judged
   on the ORIGINAL source src0) leave the text alone, every other member goes through _do_rewrite *)
Definition step (src0 : text) (ks : list tkey) (cur : text) (e : entry) : text :=
  if negb (existsb (key_eqb (fst e)) ks) && negb (noop src0 e)
  then do_rewrite valid equiv wrap cur (rrng (snd e), rnew (snd e))
  else cur.

Lemma candidate_as_steps (src0 : text) (sched : list entry) :
  do_all valid equiv wrap src0 (sched_pairs (applicable mlstr src0 sched))
  = fold_left (step src0 (SchedApplyModel.refused_keys text (ws_refused mlstr src0) sched)) sched src0.
Proof.
  unfold do_all, sched_pairs, applicable, SchedApplyModel.surviving. cbv zeta.
  rewrite filter_filter', fold_left_map_filter. reflexivity.
Qed.

Lemma steps_splices (src0 : text) (ks : list tkey) (l : list entry) :
  Forall (fun e : entry => Z.to_nat (fst (rrng (snd e))) <= Z.to_nat (snd (rrng (snd e)))) l ->
  forall cur, exists rws', map fst rws' = map (fun e : entry => rrng (snd e)) l
                          /\ fold_left (step src0 ks) l cur = apply_all Z cur rws'.
Proof.
  induction 1 as [|e tl Hr Htl IH]; intros cur.
  - exists []. split; reflexivity.
  - cbn [fold_left].
    assert (E : exists n', step src0 ks cur e = splice Z cur (rrng (snd e)) n').
    { unfold step. destruct (_ && _); [apply do_rewrite_splice; exact Hr|].
      exists (slice cur (rrng (snd e))). symmetry. apply splice_slice. exact Hr. }
    destruct E as [n' E].
    destruct (IH (step src0 ks cur e)) as [rws' [Em Ea]].
    exists ((rrng (snd e), n') :: rws'). split; [cbn [map fst]; rewrite Em; reflexivity|].
    rewrite Ea. transitivity (apply_all Z (splice Z cur (rrng (snd e)) n') rws'); [|reflexivity].
    f_equal. exact E.
Qed.

(* ---- order, disjointness and bounds of the scheduled ranges, as natural-number ranges ---- *)
Definition lexk (x y : nat * nat) : Prop := fst x < fst y \/ (fst x = fst y /\ snd x <= snd y).
Definition novk (x y : nat * nat) : Prop := ((fst x <? snd y) && (fst y <? snd x)) = false.
Definition wfk (len : nat) (x : nat * nat) : Prop := fst x <= snd x /\ snd x <= len.

Variable src : text.
Variable items : list (range * text).
Hypothesis items_ok : Forall (fun it => range_ok (length src) (fst it)) items.

Let S := subn_sched_text src coms items.
Let ranges := map (fun e : tkey * rewrite text => rrng (snd e)) S.

Lemma ranges_ok : forall r, In r ranges -> range_ok (length src) r.
Proof.
  intros r Hr. unfold ranges in Hr. apply in_map_iff in Hr. destruct Hr as [e [<- He]].
  apply (scheduled_from_items text text_eqb text_cmp (sched_ilines src coms) items) in He.
  rewrite Forall_forall in items_ok. apply (items_ok _ He).
Qed.

Lemma entry_ok : forall e, In e S -> range_ok (length src) (rrng (snd e)).
Proof.
  intros e He. apply ranges_ok. unfold ranges.
  apply (in_map (fun e : tkey * rewrite text => rrng (snd e))). exact He.
Qed.

Lemma ranges_sorted : StronglySorted lexk (rev (map nat_range ranges)).
Proof.
  rewrite <- map_rev. unfold ranges. rewrite <- map_rev.
  pose proof (sort_desc_sorted text text_cmp
                (accepted_unsorted text text_eqb (sched_ilines src coms) [subn_yield text items])) as Hs.
  fold (schedule text text_eqb text_cmp (sched_ilines src coms) [subn_yield text items]) in Hs.
  fold (subn_schedule text text_eqb text_cmp (sched_ilines src coms) items) in Hs.
  fold (subn_sched_text src coms items) in Hs. fold S in Hs.
  apply SS_rev in Hs. rewrite map_map.
  eapply SS_map; [|exact Hs].
  intros a b Ha Hb Hab. cbn beta in Hab. unfold rge in Hab. apply range_cmp_ge in Hab.
  assert (Ra : range_ok (length src) (rrng (snd a))).
  { apply entry_ok. apply in_rev. exact Ha. }
  assert (Rb : range_ok (length src) (rrng (snd b))).
  { apply entry_ok. apply in_rev. exact Hb. }
  unfold range_ok in Ra, Rb. unfold lexk, nat_range. cbn [fst snd]. lia.
Qed.

Lemma ranges_disjoint : ForallOrdPairs novk (rev (map nat_range ranges)).
Proof.
  rewrite <- map_rev. unfold ranges. rewrite <- map_rev, map_map.
  pose proof (schedule_disjoint text text_eqb text_cmp (sched_ilines src coms) [subn_yield text items]) as Hd.
  fold (subn_schedule text text_eqb text_cmp (sched_ilines src coms) items) in Hd.
  fold (subn_sched_text src coms items) in Hd. fold S in Hd.
  assert (Hd' : ForallOrdPairs (disjoint_entries text) (rev S)).
  { eapply FOP_perm; [apply disjoint_sym | apply Permutation_rev | exact Hd]. }
  eapply FOP_map; [|exact Hd'].
  intros a b Ha Hb Hab. unfold disjoint_entries, overlaps in Hab.
  assert (Ra : range_ok (length src) (rrng (snd a))).
  { apply entry_ok. apply in_rev. exact Ha. }
  assert (Rb : range_ok (length src) (rrng (snd b))).
  { apply entry_ok. apply in_rev. exact Hb. }
  unfold range_ok in Ra, Rb. unfold novk, nat_range. cbn [fst snd].
  apply andb_false_iff in Hab. apply andb_false_iff.
  destruct Hab as [Hab|Hab]; apply Z.ltb_ge in Hab; [left|right]; apply Nat.ltb_ge; lia.
Qed.

Lemma ranges_wf : Forall (wfk (length src)) (rev (map nat_range ranges)).
Proof.
  apply Forall_forall. intros x Hx. apply in_rev in Hx. apply in_map_iff in Hx.
  destruct Hx as [r [<- Hr]]. apply ranges_ok in Hr. unfold range_ok in Hr.
  unfold wfk, nat_range. cbn [fst snd]. lia.
Qed.

Definition nkey (r : nrw Z) : nat * nat := (nstart Z r, nend Z r).

(* T14.4: the text after the loop of _apply_rewrites (refused transactions, skipped no-op members and the chain
   of _do_rewrite calls) is the simultaneous splice of the source at the scheduled ranges: everything outside
   them is the source, verbatim and in order *)
Theorem candidate_is_simultaneous_splice :
  exists asc : list (nrw Z),
    map nkey asc = rev (map nat_range ranges)
    /\ chain_ok Z (length src) 0 asc
    /\ subn_candidate valid equiv wrap mlstr src coms items = build Z 0 src asc.
Proof.
  unfold subn_candidate. fold S. rewrite candidate_as_steps.
  assert (Hle : Forall (fun e : entry => Z.to_nat (fst (rrng (snd e))) <= Z.to_nat (snd (rrng (snd e)))) S).
  { apply Forall_forall. intros e He.
    assert (Hr : range_ok (length src) (rrng (snd e))) by (apply entry_ok; exact He).
    unfold range_ok in Hr. lia. }
  destruct (steps_splices src (SchedApplyModel.refused_keys text (ws_refused mlstr src) S) S Hle src)
    as [rws' [Em Ea]].
  exists (rev (map (to_nrw Z) rws')).
  assert (Hk : map nkey (rev (map (to_nrw Z) rws')) = rev (map nat_range ranges)).
  { rewrite map_rev, map_map. f_equal.
    transitivity (map nat_range (map fst rws')); [rewrite map_map; reflexivity|].
    rewrite Em. reflexivity. }
  assert (Hsorted : StronglySorted (lex_le Z) (rev (map (to_nrw Z) rws'))).
  { pose proof ranges_sorted as H. rewrite <- Hk in H. apply SS_unmap in H. exact H. }
  assert (Hdisj : ForallOrdPairs (fun a b => noverlaps Z a b = false) (rev (map (to_nrw Z) rws'))).
  { pose proof ranges_disjoint as H. rewrite <- Hk in H. apply FOP_unmap in H. exact H. }
  assert (Hwf : Forall (wf Z (length src)) (rev (map (to_nrw Z) rws'))).
  { pose proof ranges_wf as H. rewrite <- Hk in H. apply Forall_unmap in H. exact H. }
  split; [exact Hk|]. split.
  - apply sorted_disjoint_chain; auto; lia.
  - rewrite Ea, apply_all_as_nat.
    rewrite <- (sorted_disjoint_apply Z src _ Hsorted Hdisj Hwf).
    unfold apply_desc. rewrite rev_involutive. reflexivity.
Qed.

(* T14.5 (text): a physical line that carries an ignore comment is a contiguous, unchanged piece of
   the text after all rewrites (whatever was rewritten around it) *)
Theorem ignored_line_verbatim :
  forall l, In l (ignore_lines src coms) ->
  exists pre post, subn_candidate valid equiv wrap mlstr src coms items = pre ++ slice src l ++ post.
Proof.
  intros l Hl. unfold ignore_lines in Hl. apply in_map_iff in Hl. destruct Hl as [en [El Hen]].
  pose proof (ignore_entry_ok src coms en Hen) as Hok. rewrite El in Hok.
  destruct candidate_is_simultaneous_splice as [asc [Hk [Hc E]]].
  rewrite E, slice_seg.
  apply (build_keeps Z src asc 0 (Z.to_nat (fst l)) (Z.to_nat (snd l)) Hc); try lia.
  intros r Hr.
  assert (Hin : In (nkey r) (rev (map nat_range ranges))) by (rewrite <- Hk; apply in_map; exact Hr).
  apply in_rev in Hin. apply in_map_iff in Hin. destruct Hin as [rz [Ez Hz]].
  pose proof (ranges_ok rz Hz) as Rz. unfold range_ok in Rz.
  unfold ranges in Hz. apply in_map_iff in Hz. destruct Hz as [e [Ee He]].
  pose proof (scheduled_not_ignored text text_eqb text_cmp (sched_ilines src coms) items e He) as Hni.
  rewrite Ee in Hni. unfold ignored in Hni.
  rewrite existsb_false_iff in Hni.
  assert (Hsl : In (sched_line en) (sched_ilines src coms)) by (unfold sched_ilines; apply in_map; exact Hen).
  specialize (Hni _ Hsl). unfold touches_line, overlaps, sched_line in Hni. rewrite El in Hni. cbn [fst snd] in Hni.
  unfold nkey, nat_range in Ez. inversion Ez as [[E1 E2]].
  destruct (fst rz =? snd rz)%Z eqn:Eq.
  - apply Z.eqb_eq in Eq. apply andb_false_iff in Hni.
    destruct (IgnoreModel.terminated (snd en));
      (destruct Hni as [Hni|Hni]; [apply Z.leb_gt in Hni | apply Z.ltb_ge in Hni]; lia).
  - apply andb_false_iff in Hni.
    destruct (IgnoreModel.terminated (snd en));
      (destruct Hni as [Hni|Hni]; apply Z.ltb_ge in Hni; lia).
Qed.

End TextProofs.

(* ---- the lines of a text partition it; the ignored-line ranges lie inside the text ---- *)
Lemma lines_ke_concat (s : text) : forall cur, concat (lines_ke_aux cur s) = rev cur ++ s.
Proof.
  induction s as [|c tl IH]; intros cur.
  - simpl. destruct cur; simpl; rewrite ?app_nil_r; reflexivity.
  - cbn [lines_ke_aux]. destruct (Z.eqb c NL).
    + cbn [concat]. rewrite IH. simpl. rewrite <- app_assoc. reflexivity.
    + rewrite IH. simpl. rewrite <- app_assoc. reflexivity.
Qed.

Theorem lines_partition (s : text) : concat (lines_ke s) = s.
Proof. unfold lines_ke. rewrite lines_ke_concat. reflexivity. Qed.

Theorem ignore_lines_ok (src : text) (coms : option (list nat)) :
  forall l, In l (ignore_lines src coms) -> range_ok (length src) l.
Proof.
  intros l Hl. unfold ignore_lines in Hl. apply in_map_iff in Hl. destruct Hl as [e [<- He]].
  exact (ignore_entry_ok src coms e He).
Qed.

(* ---- T14.1: no match => the source, byte for byte ---- *)
Theorem no_match_identity (valid : text -> bool) (equiv : text -> text -> bool) (wrap : range -> bool)
        (mlstr : text -> bool) (strl : text -> list nat) (restore : text -> text -> text) (src tmpl : text)
        (coms : option (list nat)) (count : Z) :
  (forall s, restore s s = s) ->
  subn_items strl src tmpl count [] = Some []
  /\ subn_output valid equiv wrap mlstr restore src coms [] = src.
Proof.
  intros Hr. split.
  - unfold subn_items, take_count. destruct (Z.ltb 0 count); cbn [firstn items_of];
      rewrite ?firstn_nil; reflexivity.
  - unfold subn_output, subn_candidate. cbn. rewrite Hr. destruct (valid src); reflexivity.
Qed.

(* the output of subn is the source (rollback) or the restored candidate *)
Theorem output_cases (valid : text -> bool) (equiv : text -> text -> bool) (wrap : range -> bool)
        (mlstr : text -> bool) (restore : text -> text -> text) (src : text) (coms : option (list nat))
        (items : list (range * text)) :
  subn_output valid equiv wrap mlstr restore src coms items = src
  \/ subn_output valid equiv wrap mlstr restore src coms items
     = restore src (subn_candidate valid equiv wrap mlstr src coms items).
Proof.
  unfold subn_output.
  destruct (valid (subn_candidate valid equiv wrap mlstr src coms items)); cbn [negb]; [|left; reflexivity].
  destruct (valid (restore src (subn_candidate valid equiv wrap mlstr src coms items))); cbn [negb];
    [right|left]; reflexivity.
Qed.

(* T14.5 (text), without side condition on the lines: the ranges of ignore_lines always lie inside the text *)
Theorem ignored_lines_survive (valid : text -> bool) (equiv : text -> text -> bool) (wrap : range -> bool)
        (mlstr : text -> bool) (src : text) (coms : option (list nat)) (items : list (range * text)) :
  Forall (fun it => range_ok (length src) (fst it)) items ->
  forall l, In l (ignore_lines src coms) ->
  exists pre post, subn_candidate valid equiv wrap mlstr src coms items = pre ++ slice src l ++ post.
Proof.
  intros Hok l Hl. apply ignored_line_verbatim; [exact Hok | exact Hl].
Qed.

(* the scheduled rewrites are pairwise non-overlapping (instance of T10.2) *)
Theorem subn_schedule_disjoint (T : Type) (teqb : T -> T -> bool) (tcmp : T -> T -> comparison)
        (ilines : list range) (items : list (range * T)) :
  ForallOrdPairs (fun a b => overlaps (rrng (snd a)) (rrng (snd b)) = false)
                 (subn_schedule T teqb tcmp ilines items).
Proof. apply schedule_disjoint. Qed.

(* ======================================================================================== *)
(* the "whitespace-only change" guard of _do_rewrite                                          *)
(* ======================================================================================== *)
Open Scope nat_scope.

Lemma text_eqb_spec (a : text) : forall b, text_eqb a b = true <-> a = b.
Proof.
  induction a as [|x a IH]; intros [|y b]; simpl; try (split; [discriminate | intros E; discriminate]).
  - split; reflexivity.
  - rewrite andb_true_iff, Z.eqb_eq, IH. split; [intros [-> ->]; reflexivity | intros E; inversion E; auto].
Qed.

Lemma texts_eqb_spec (a : list text) : forall b, texts_eqb a b = true <-> a = b.
Proof.
  induction a as [|x a IH]; intros [|y b]; simpl; try (split; [discriminate | intros E; discriminate]).
  - split; reflexivity.
  - rewrite andb_true_iff, text_eqb_spec, IH.
    split; [intros [-> ->]; reflexivity | intros E; inversion E; auto].
Qed.

(* the guard fires iff replacement and replaced code have the same rstripped non-blank lines *)
Theorem ws_only_change_spec (n code : text) :
  ws_only_change n code = true <-> sig_lines n = sig_lines code.
Proof. unfold ws_only_change. apply texts_eqb_spec. Qed.

(* rstrip only removes trailing white space: a non-blank line keeps its indentation *)
Lemma lstrip_split (s : text) : exists pre, forallb is_space pre = true /\ s = pre ++ lstrip s.
Proof.
  induction s as [|c s IH]; [exists []; split; reflexivity|].
  cbn [lstrip]. destruct (is_space c) eqn:E.
  - destruct IH as [pre [Hp Hs]]. exists (c :: pre). split; [simpl; rewrite E; exact Hp|].
    simpl. f_equal. exact Hs.
  - exists []. split; reflexivity.
Qed.

Lemma lstrip_head (s : text) : match lstrip s with c :: _ => is_space c = false | [] => True end.
Proof.
  induction s as [|c s IH]; [exact I|]. cbn [lstrip]. destruct (is_space c) eqn:E; [exact IH | exact E].
Qed.

Lemma count_leading_sp_app (a b : text) :
  (exists c, In c a /\ (c =? SP)%Z = false) -> count_leading_sp (a ++ b) = count_leading_sp a.
Proof.
  induction a as [|x a IH]; intros [c [Hc Ec]]; [destruct Hc|].
  cbn [app count_leading_sp]. destruct (x =? SP)%Z eqn:Ex; [|reflexivity].
  f_equal. apply IH. destruct Hc as [<-|Hc]; [congruence|]. exists c. split; assumption.
Qed.

Lemma nonblank_rev (l : text) : nonblank l = true -> lstrip (rev l) <> [].
Proof.
  unfold nonblank. intros H E.
  destruct (lstrip_split (rev l)) as [pre [Hp Hs]]. rewrite E, app_nil_r in Hs.
  assert (Hall : forallb is_space l = true).
  { rewrite forallb_forall in *. intros x Hx. apply Hp. rewrite <- Hs. apply in_rev in Hx. exact Hx. }
  clear -H Hall. induction l as [|c l IH]; [discriminate|].
  simpl in Hall. apply andb_true_iff in Hall. destruct Hall as [Hc Hl].
  cbn [lstrip] in H. rewrite Hc in H. apply IH; assumption.
Qed.

Lemma rstrip_keeps_indentation (l : text) :
  nonblank l = true -> count_leading_sp (rstrip l) = count_leading_sp l.
Proof.
  intros H. unfold rstrip.
  destruct (lstrip_split (rev l)) as [pre [Hp Hs]].
  assert (El : l = rev (lstrip (rev l)) ++ rev pre).
  { rewrite <- rev_app_distr, <- Hs, rev_involutive. reflexivity. }
  rewrite El at 2. symmetry. apply count_leading_sp_app.
  pose proof (lstrip_head (rev l)) as Hh. pose proof (nonblank_rev l H) as Hne.
  destruct (lstrip (rev l)) as [|c tl]; [contradiction|].
  exists c. split; [apply in_rev; rewrite rev_involutive; left; reflexivity|].
  destruct (c =? SP)%Z eqn:E; [|reflexivity].
  apply Z.eqb_eq in E. subst c. discriminate.
Qed.

(* a skipped rewrite has, line by line, the indentation of the code it would have replaced: a change
   of block structure (a statement moved out of / into a block) is never taken for white space *)
Theorem skipped_keeps_indentation (n code : text) :
  ws_only_change n code = true ->
  map count_leading_sp (filter nonblank (lines_nk n))
  = map count_leading_sp (filter nonblank (lines_nk code)).
Proof.
  intros H. apply ws_only_change_spec in H. unfold sig_lines in H.
  apply (f_equal (map count_leading_sp)) in H. rewrite !map_map in H.
  rewrite (map_ext_in (fun x => count_leading_sp (rstrip x)) count_leading_sp) in H.
  - rewrite (map_ext_in (fun x => count_leading_sp (rstrip x)) count_leading_sp) in H; [exact H|].
    intros l Hl. apply filter_In in Hl. apply rstrip_keeps_indentation, Hl.
  - intros l Hl. apply filter_In in Hl. apply rstrip_keeps_indentation, Hl.
Qed.

(* the decision of _apply_rewrites, taken on the ORIGINAL source: a scheduled rewrite reaches _do_rewrite iff no
   member of its transaction is a whitespace-only change (a difference, but only in blank lines and trailing
   blanks outside string literals) and its own replacement differs from the text it replaces *)
Theorem ws_refused_spec (mlstr : text -> bool) (src : text) (e : entry) :
  let code := slice src (rrng (snd e)) in
  let n := rnew (snd e) in
  ws_refused mlstr src e = true
  <-> (n <> code /\ sig_lines n = sig_lines code /\ mlstr code = false /\ mlstr n = false).
Proof.
  cbv zeta. unfold ws_refused, same_significant.
  rewrite !andb_true_iff, negb_true_iff, ws_only_change_spec, negb_true_iff, orb_false_iff.
  split.
  - intros [H1 [H2 [H3 H4]]]. repeat split; try assumption.
    intros E. apply text_eqb_spec in E. congruence.
  - intros [H1 [H2 [H3 H4]]]. repeat split; try assumption.
    destruct (text_eqb (rnew (snd e)) (slice src (rrng (snd e)))) eqn:E; [|reflexivity].
    apply text_eqb_spec in E. contradiction.
Qed.

Theorem applicable_spec (mlstr : text -> bool) (src : text) (sched : list entry) (e : entry) :
  In e (applicable mlstr src sched)
  <-> (In e sched
       /\ (forall e', In e' sched -> fst e' = fst e -> ws_refused mlstr src e' = false)
       /\ rnew (snd e) <> slice src (rrng (snd e))).
Proof.
  unfold applicable, SchedApplyModel.surviving, SchedApplyModel.refused_keys. cbv zeta.
  rewrite !filter_In, !negb_true_iff. unfold noop. split.
  - intros [[H1 H2] H3]. split; [exact H1|]. split.
    + intros e' He' Hk. destruct (ws_refused mlstr src e') eqn:E; [|reflexivity].
      exfalso. rewrite existsb_false_iff in H2.
      specialize (H2 (fst e')). rewrite Hk in H2.
      assert (Hin : In (fst e) (map fst (filter (ws_refused mlstr src) sched))).
      { rewrite <- Hk. apply in_map. apply filter_In. split; assumption. }
      specialize (H2 Hin). unfold key_eqb in H2. rewrite !Z.eqb_refl in H2. discriminate.
    + intros E. apply text_eqb_spec in E. congruence.
  - intros [H1 [H2 H3]]. split; [split; [exact H1|]|].
    + rewrite existsb_false_iff. intros k Hk. apply in_map_iff in Hk. destruct Hk as [e' [<- He']].
      apply filter_In in He'. destruct He' as [He' Hr].
      destruct (key_eqb (fst e) (fst e')) eqn:E; [|reflexivity].
      exfalso. unfold key_eqb in E. apply andb_true_iff in E. destruct E as [E1 E2].
      apply Z.eqb_eq in E1, E2.
      assert (Hk : fst e' = fst e) by (destruct (fst e), (fst e'); cbn [fst snd] in *; congruence).
      rewrite (H2 e' He' Hk) in Hr. discriminate.
    + destruct (text_eqb (rnew (snd e)) (slice src (rrng (snd e)))) eqn:E; [|reflexivity].
      apply text_eqb_spec in E. contradiction.
Qed.

(* the complete decision of _do_rewrite(scheduled=True): it returns the text unchanged exactly when the
   replacement is the text that is already there; otherwise it splices in the replacement (with the call's
   parentheses put back when it replaces a generator that shared them, padded with blanks next to the brace
   of an f-string field), or "pass" for an empty one, or a re-indented copy *)
Theorem do_rewrite_decision (valid : text -> bool) (equiv : text -> text -> bool) (wrap : range -> bool)
        (cur : text) (r : range) (n : text) :
  let code := slice cur r in
  (n = code -> do_rewrite valid equiv wrap cur (r, n) = cur)
  /\ (n <> code ->
      exists n', In n' (candidates (pad_braces valid equiv cur r (wrapped wrap r n)))
                 /\ do_rewrite valid equiv wrap cur (r, n) = splice Z cur r n').
Proof.
  intros code. unfold do_rewrite. fold code. split.
  - intros H. apply text_eqb_spec in H. rewrite H. reflexivity.
  - intros H1.
    destruct (text_eqb n code) eqn:E1; [apply text_eqb_spec in E1; contradiction|].
    generalize (pad_braces valid equiv cur r (wrapped wrap r n)). intros n1.
    match goal with |- context [first_valid _ _ _ _ _ ?c] => set (choice := c) end.
    assert (Hc : exists n', In n' (candidates n1) /\ choice = splice Z cur r n').
    { unfold choice, candidates. destruct n1 as [|c n1].
      - cbn [orb]. destruct (valid (splice_t cur r [])); [exists []; split; [left; reflexivity | reflexivity]|].
        destruct (valid (splice_t cur r str_pass)).
        + exists str_pass. split; [right; left; reflexivity | reflexivity].
        + exists []. split; [left; reflexivity | reflexivity].
      - cbn [orb]. exists (c :: n1). split; [left; reflexivity | reflexivity]. }
    cbv beta iota zeta. fold choice.
    destruct (match n1 with [] => false | _ :: _ => true end && negb (valid choice)); [|exact Hc].
    assert (G : forall extras, incl extras [0; 4; 8; 12] ->
              exists n', In n' (candidates n1) /\ first_valid valid cur r n1 extras choice = splice Z cur r n').
    { induction extras as [|x tl IH]; intros Hi; [exact Hc|].
      cbn [first_valid]. destruct (valid (splice_t cur r (extra_indented x n1))).
      - exists (extra_indented x n1). split; [|reflexivity].
        unfold candidates. right. apply in_or_app. right.
        apply (in_map (fun x => extra_indented x n1)). apply Hi. left. reflexivity.
      - apply IH. intros y Hy. apply Hi. right. exact Hy. }
    apply G. apply incl_refl.
Qed.

(* the brace padding changes nothing but two blanks around the replacement *)
Theorem pad_braces_cases (valid : text -> bool) (equiv : text -> text -> bool) (src : text) (r : range) (n : text) :
  pad_braces valid equiv src r n = n \/ pad_braces valid equiv src r n = SP :: n ++ [SP].
Proof.
  unfold pad_braces. destruct (_ || _); [|left; reflexivity].
  destruct (_ && _); [right | left]; reflexivity.
Qed.

(* ======================================================================================== *)
(* the scheduler's "touches an ignored line" is core.has_ignore_comment (IgnoreModel, C20)     *)
(* ======================================================================================== *)
Lemma terminated_term (body term : IgnoreModel.text) :
  In term IgnoreProofs.TERMINATORS -> IgnoreModel.terminated (body ++ term) = true.
Proof.
  intros H. unfold IgnoreModel.terminated. rewrite rev_app_distr.
  destruct H as [<-|[<-|[<-|[]]]]; reflexivity.
Qed.

(* only the last physical line can lack a terminator: such a line ends where the text ends *)
Lemma unterminated_is_last (ls : list IgnoreModel.text) :
  IgnoreProofs.py_lines ls -> forall pos r l,
  In (r, l) (IgnoreModel.line_ranges pos ls) -> IgnoreModel.terminated l = false ->
  snd r = (pos + Z.of_nat (length (concat ls)))%Z.
Proof.
  induction 1 as [|body Hb Hne|body term rest Hb Ht Hrest IH]; intros pos r l Hin Hterm.
  - destruct Hin.
  - cbn [IgnoreModel.line_ranges] in Hin. destruct Hin as [Hin|[]]. inversion Hin; subst.
    cbn [snd concat]. rewrite app_nil_r. reflexivity.
  - cbn [IgnoreModel.line_ranges] in Hin. destruct Hin as [Hin|Hin].
    + inversion Hin; subst. rewrite terminated_term in Hterm by exact Ht. discriminate.
    + apply IH in Hin; [|exact Hterm]. cbn [concat]. rewrite app_length. lia.
Qed.

Lemma existsb_ext_in' {A} (f g : A -> bool) (l : list A) :
  (forall x, In x l -> f x = g x) -> existsb f l = existsb g l.
Proof.
  induction l as [|a l IH]; intros H; [reflexivity|].
  cbn [existsb]. rewrite (H a (or_introl eq_refl)), IH; [reflexivity|].
  intros x Hx. apply H. right. exact Hx.
Qed.

(* for every range of the text (insertion points included) the test the scheduler model applies to the lines
   handed over by [sched_ilines] is IgnoreModel.has_ignore, the model of core.has_ignore_comment *)
Theorem sched_ignored_is_has_ignore (src : text) (coms : option (list nat)) (r : range) :
  (fst r <= snd r)%Z -> (snd r <= Z.of_nat (length src))%Z ->
  ignored (sched_ilines src coms) r = IgnoreModel.has_ignore (to_n src) coms r.
Proof.
  intros Hle Hr. unfold ignored, sched_ilines, IgnoreModel.has_ignore. rewrite existsb_map.
  apply existsb_ext_in'. intros e He.
  pose proof (ignore_entry_ok src coms e He) as Hok.
  unfold ignore_entries in He. destruct (IgnoreProofs.ignore_entries_in _ _ _ He) as [Hin _].
  destruct e as [[ls le] l]. cbn [fst snd] in Hok.
  unfold touches_line, IgnoreModel.touches, sched_line, overlaps. cbn [fst snd].
  destruct (IgnoreModel.terminated l) eqn:Et.
  - cbn [negb]. rewrite andb_false_r, orb_false_r. reflexivity.
  - pose proof (unterminated_is_last _ (IgnoreProofs.split_lines_py_lines (to_n src)) 0%Z _ _ Hin Et) as Hend.
    rewrite IgnoreProofs.split_lines_concat in Hend. unfold to_n in Hend. rewrite map_length in Hend.
    cbn [snd] in Hend. cbn [negb]. rewrite andb_true_r.
    destruct (fst r =? snd r)%Z eqn:Eq.
    + apply Bool.eq_iff_eq_true.
      rewrite orb_true_iff, !andb_true_iff, !Z.leb_le, !Z.ltb_lt, Z.eqb_eq. lia.
    + apply Z.eqb_neq in Eq. apply Bool.eq_iff_eq_true.
      rewrite !andb_true_iff, !Z.ltb_lt. lia.
Qed.

(* T14.5 restated on the recogniser itself: no scheduled rewrite is one that core.has_ignore_comment refuses *)
Theorem scheduled_has_no_ignore (src : text) (coms : option (list nat)) (items : list (range * text)) :
  Forall (fun it => range_ok (length src) (fst it)) items ->
  forall e, In e (subn_sched_text src coms items) ->
  IgnoreModel.has_ignore (to_n src) coms (rrng (snd e)) = false.
Proof.
  intros Hok e He.
  pose proof (scheduled_from_items text text_eqb text_cmp (sched_ilines src coms) items e He) as Hin.
  rewrite Forall_forall in Hok. specialize (Hok _ Hin). unfold range_ok in Hok. cbn [fst] in Hok.
  rewrite <- sched_ignored_is_has_ignore by lia.
  exact (scheduled_not_ignored text text_eqb text_cmp (sched_ilines src coms) items e He).
Qed.

(* ======================================================================================== *)
(* T14.10: the indentation steps (find_replace, format_template) never touch a line that     *)
(* begins inside a string literal                                                            *)
(* ======================================================================================== *)

(* the test of the generator expression in find_replace / format_template *)
Definition line_kept (blanks : bool) (strl : list nat) (i : nat) (l : text) : bool :=
  Nat.eqb i 0 || existsb (Nat.eqb i) strl || (negb blanks && negb (nonblank l)).

Lemma indent_lines_nth (blanks : bool) (k : nat) (strl : list nat) (ls : list text) : forall i j,
  nth_error (indent_lines blanks k strl i ls) j
  = option_map (fun l => if line_kept blanks strl (i + j) l then l else spaces k ++ l) (nth_error ls j).
Proof.
  induction ls as [|l tl IH]; intros i j.
  - destruct j; reflexivity.
  - destruct j as [|j]; cbn [indent_lines nth_error option_map].
    + rewrite Nat.add_0_r. reflexivity.
    + rewrite IH. replace (S i + j) with (i + S j) by lia. reflexivity.
Qed.

Lemma indent_lines_length (blanks : bool) (k : nat) (strl : list nat) (ls : list text) : forall i,
  length (indent_lines blanks k strl i ls) = length ls.
Proof. induction ls as [|l tl IH]; intros i; cbn [indent_lines length]; [reflexivity | rewrite IH; reflexivity]. Qed.

Lemma existsb_eqb_in (j : nat) (l : list nat) : In j l -> existsb (Nat.eqb j) l = true.
Proof. intros H. apply existsb_exists. exists j. split; [exact H | apply Nat.eqb_refl]. Qed.

Theorem indent_lines_string_lines_verbatim (blanks : bool) (k : nat) (strl : list nat) (ls : list text) (j : nat) :
  In j strl -> nth_error (indent_lines blanks k strl O ls) j = nth_error ls j.
Proof.
  intros Hin. rewrite indent_lines_nth. cbn [Nat.add]. unfold line_kept.
  rewrite (existsb_eqb_in j strl Hin), orb_true_r. cbn [orb].
  destruct (nth_error ls j); reflexivity.
Qed.

(* str.split("\n") of "\n".join(lines) gives the lines back when no line contains "\n" *)
Definition no_nl (l : text) : Prop := ~ In NL l.

Lemma split_nl_aux_app (l : text) : forall cur rest,
  no_nl l -> split_nl_aux cur (l ++ rest) = split_nl_aux (rev l ++ cur) rest.
Proof.
  induction l as [|c tl IH]; intros cur rest Hn; [reflexivity|].
  cbn [app split_nl_aux]. destruct (c =? NL)%Z eqn:E.
  - apply Z.eqb_eq in E. exfalso. apply Hn. left. exact E.
  - rewrite IH by (intros H; apply Hn; right; exact H).
    cbn [rev]. rewrite <- app_assoc. reflexivity.
Qed.

Lemma split_nl_aux_join (ls : list text) : forall l cur,
  Forall no_nl (l :: ls) -> split_nl_aux cur (join_nl (l :: ls)) = (rev cur ++ l) :: ls.
Proof.
  induction ls as [|l2 tl IH]; intros l cur Hn.
  - cbn [join_nl]. rewrite <- (app_nil_r l) at 1. rewrite split_nl_aux_app by (inversion Hn; assumption).
    cbn [split_nl_aux]. rewrite rev_app_distr, rev_involutive. reflexivity.
  - change (join_nl (l :: l2 :: tl)) with (l ++ NL :: join_nl (l2 :: tl)).
    rewrite split_nl_aux_app by (inversion Hn; assumption).
    cbn [split_nl_aux]. rewrite Z.eqb_refl. rewrite rev_app_distr, rev_involutive.
    rewrite IH by (inversion Hn; assumption). reflexivity.
Qed.

Lemma split_join_nl (ls : list text) : ls <> [] -> Forall no_nl ls -> split_nl (join_nl ls) = ls.
Proof.
  intros Hne Hn. destruct ls as [|l tl]; [contradiction|].
  unfold split_nl. rewrite split_nl_aux_join by exact Hn. reflexivity.
Qed.

Lemma split_nl_aux_no_nl (s : text) : forall cur, no_nl cur -> Forall no_nl (split_nl_aux cur s).
Proof.
  induction s as [|c tl IH]; intros cur Hc; cbn [split_nl_aux].
  - constructor; [|constructor]. intros H. apply in_rev in H. exact (Hc H).
  - destruct (c =? NL)%Z eqn:E.
    + constructor; [intros H; apply in_rev in H; exact (Hc H)|]. apply IH. intros [].
    + apply IH. intros [H|H]; [apply Z.eqb_neq in E; congruence | exact (Hc H)].
Qed.

Lemma split_nl_no_nl (s : text) : Forall no_nl (split_nl s).
Proof. apply split_nl_aux_no_nl. intros []. Qed.

Lemma split_nl_aux_nonempty (s : text) : forall cur, split_nl_aux cur s <> [].
Proof. induction s as [|c tl IH]; intros cur; cbn [split_nl_aux]; [discriminate|]. destruct (c =? NL)%Z; [discriminate | apply IH]. Qed.

Lemma spaces_no_nl (k : nat) : no_nl (spaces k).
Proof. induction k as [|k IH]; [intros [] | intros [H|H]; [discriminate H | exact (IH H)]]. Qed.

Lemma indent_lines_no_nl (blanks : bool) (k : nat) (strl : list nat) (ls : list text) : forall i,
  Forall no_nl ls -> Forall no_nl (indent_lines blanks k strl i ls).
Proof.
  induction ls as [|l tl IH]; intros i Hn; cbn [indent_lines]; [constructor|].
  inversion Hn as [|? ? Hl Htl]; subst. constructor; [|apply IH; exact Htl].
  destruct (_ || _ || _); [exact Hl|]. intros H. apply in_app_or in H. destruct H as [H|H];
    [exact (spaces_no_nl k H) | exact (Hl H)].
Qed.

(* the lines of the text find_replace yields ARE the lines the indentation step produced *)
Theorem place_replacement_lines (strl : text -> list nat) (src : text) (r : range) (filled : text) :
  split_nl (place_replacement strl src r filled) = place_lines strl src r filled.
Proof.
  unfold place_replacement. apply split_join_nl.
  - unfold place_lines. intros H. apply (f_equal (@length text)) in H. rewrite indent_lines_length in H.
    cbn [length] in H. apply length_zero_iff_nil in H. exact (split_nl_aux_nonempty _ _ H).
  - unfold place_lines. apply indent_lines_no_nl. apply split_nl_no_nl.
Qed.

(* find_replace: every line of the instantiated (dedented) replacement that the tokenizer reports as
   beginning inside a string literal is, byte for byte, a line of the yielded text at the same position:
   whatever the indentation of the matched line, whether the literal stems from the template or from a
   binding. *)
Theorem place_replacement_string_lines_verbatim (strl : text -> list nat) (src : text) (r : range) (filled : text) (j : nat) :
  In j (strl (dedent filled)) ->
  nth_error (split_nl (place_replacement strl src r filled)) j = nth_error (split_nl (dedent filled)) j.
Proof.
  intros Hin. rewrite place_replacement_lines. unfold place_lines.
  apply indent_lines_string_lines_verbatim. exact Hin.
Qed.

(* ... and every other line is the line of the dedented text, with the indentation of the matched line in
   front unless it is the first line or blank *)
Theorem place_replacement_line_cases (strl : text -> list nat) (src : text) (r : range) (filled : text) (j : nat) :
  nth_error (split_nl (place_replacement strl src r filled)) j
  = option_map (fun l => if line_kept false (strl (dedent filled)) j l then l
                         else spaces (match_indentation src r) ++ l)
               (nth_error (split_nl (dedent filled)) j).
Proof. rewrite place_replacement_lines. unfold place_lines. rewrite indent_lines_nth. reflexivity. Qed.

(* format_template: the same for the text of a binding put into an indented slot *)
Theorem indent_binding_string_lines_verbatim (strl : text -> list nat) (k : nat) (v : text) (j : nat) :
  In j (strl v) -> nth_error (split_nl (indent_binding strl k v)) j = nth_error (split_nl v) j.
Proof.
  intros Hin. unfold indent_binding. rewrite split_join_nl.
  - apply indent_lines_string_lines_verbatim. exact Hin.
  - intros H. apply (f_equal (@length text)) in H. rewrite indent_lines_length in H.
    cbn [length] in H. apply length_zero_iff_nil in H. exact (split_nl_aux_nonempty _ _ H).
  - apply indent_lines_no_nl. apply split_nl_no_nl.
Qed.
