(* K6 -- theorems about BoundModel.v and BoolRwModel.v.  All statements quantify over every integer,
   every constant, every operand list of any length. *)
From Coq Require Import List ZArith Bool Lia.
Import ListNotations.
Require Import Pyrefact.Ops.
Require Import PyrefactGen.Tables.
Require Import Pyrefact.BoundModel.
Require Import Pyrefact.BoolRwModel.
Open Scope Z_scope.

(* ---- T17.3 the pairwise bound table is sound for every integer x and all constants ---- *)
Definition implies (a b : bool) : Prop := a = true -> b = true.

Theorem table_sound :
  forall o1 c1 o2 c2 x,
    let v := table o1 c1 o2 c2 in
    let p := cmp_sem o1 x c1 in
    let q := cmp_sem o2 x c2 in
    (v_false v = true -> p && q = false) /\
    (v_true v = true -> p || q = true) /\
    (v_and v = RmFirst -> implies q p) /\ (v_and v = RmSecond -> implies p q) /\
    (v_or v = RmFirst -> implies p q) /\ (v_or v = RmSecond -> implies q p).
Proof.
Admitted.

(* ---- T17.3b the table's decision depends only on the operator pair and on compare c1 c2 ---- *)
Theorem table_depends_on_compare :
  forall o1 o2 c1 c2 d1 d2, (c1 ?= c2) = (d1 ?= d2) -> table o1 c1 o2 c2 = table o1 d1 o2 d2.
Proof.
Admitted.

(* ---- T17.3 n-ary: the whole BoolOp branch preserves the truth value ---- *)
Theorem simplify_sound :
  forall isand vs rho sigma,
    match simplify isand vs with
    | RConst b => eval_list rho sigma isand vs = b
    | RValues vs' => eval_list rho sigma isand vs' = eval_list rho sigma isand vs
    | RNone => True
    end.
Proof.
Admitted.

(* ---- T17.1 the regenerated REVERSE_OPERATOR_MAPPING is total and is logical negation ---- *)
Theorem reverse_op_total : forall o, reverse_op o <> None.
Proof.
Admitted.

Theorem reverse_op_negates :
  forall mem same o o' x y,
    reverse_op o = Some o' -> cmpop_sem mem same o' x y = negb (cmpop_sem mem same o x y).
Proof.
Admitted.

(* ---- T17.2 _negate_condition: De Morgan recursion negates the truth value and evaluates exactly
        the same opaque terms in the same order (short-circuiting preserved) ---- *)
Theorem negate_sound :
  forall mem same term atom c,
    ceval mem same term atom (negate c) =
      (negb (fst (ceval mem same term atom c)), snd (ceval mem same term atom c)).
Proof.
Admitted.

(* ---- T17.4 / T15.5 remove_redundant_boolop_values keeps the value and the evaluated unknowns ---- *)
(* operands are (id, value); the mask must be consistent with the values; the evaluation trace is
   compared on the operands whose mask is Unknown (literal operands have no effects). *)
Fixpoint unknown_ids (mask : list tri) (ops : list (nat * Z)) : list nat :=
  match mask, ops with
  | Unknown :: mt, (i, _) :: ot => i :: unknown_ids mt ot
  | _ :: mt, _ :: ot => unknown_ids mt ot
  | _, _ => []
  end.

Theorem redundant_sound :
  forall (truth : Z -> bool) isand mask (ops : list (nat * Z)),
    length mask = length ops -> ops <> [] ->
    NoDup (map fst ops) ->
    Forall2 (consistent Z truth) mask (map snd ops) ->
    let kept := keep (redundant isand mask) ops in
    let unk := unknown_ids mask ops in
    kept <> [] /\
    fst (bool_val Z truth isand kept) = fst (bool_val Z truth isand ops) /\
    filter (fun i => existsb (Nat.eqb i) unk) (snd (bool_val Z truth isand kept)) =
    filter (fun i => existsb (Nat.eqb i) unk) (snd (bool_val Z truth isand ops)).
Proof.
Admitted.

(* ---- T17.9 closed form of sum(range(a, b)) for a <= b;  R17.10 refuted for b < a ---- *)
Theorem sum_range_closed_form :
  forall a b, a <= b -> (b = 0 -> a = 0) -> 2 * sum_range a b = sum_range_closed2 a b.
Proof.
Admitted.

(* refuted for an empty range with b < a ... *)
Theorem sum_range_closed_form_refuted :
  exists a b, b < a /\ 2 * sum_range a b <> sum_range_closed2 a b.
Proof.
Admitted.

(* ... and for a negative start with the literal end 0 *)
Theorem sum_range_closed_form_refuted_end0 :
  exists a, a < 0 /\ 2 * sum_range a 0 <> sum_range_closed2 a 0.
Proof.
Admitted.
