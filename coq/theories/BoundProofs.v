(* K6 -- theorems about BoundModel.v and BoolRwModel.v.  All statements quantify over every integer,
   every constant, every operand list of any length. *)
From Coq Require Import List ZArith Bool Lia.
From Coq Require Import ZifyBool.
Import ListNotations.
Require Import Pyrefact.Ops.
Require Import PyrefactGen.Tables.
Require Import Pyrefact.BoundModel.
Require Import Pyrefact.BoolRwModel.
Open Scope Z_scope.

(* ---- T17.3 the pairwise bound table is sound for every integer x and all constants ---- *)
Definition implies (a b : bool) : Prop := a = true -> b = true.


Ltac table_case :=
  repeat match goal with
         | |- context [if ?b then _ else _] => let E := fresh "E" in destruct b eqn:E
         end;
  cbn; unfold implies; repeat split; intros; try discriminate; try lia.

Theorem table_sound :
  forall o1 c1 o2 c2 x,
    let v := table o1 c1 o2 c2 in
    let p := cmp_sem o1 x c1 in
    let q := cmp_sem o2 x c2 in
    (v_false v = true -> p && q = false) /\
    (v_true v = true -> p || q = true) /\
    (v_and v = RmFirst -> implies q p) /\ (v_and v = RmSecond -> implies p q) /\
    (v_or v = RmFirst -> implies p q) /\ (v_or v = RmSecond -> implies q p).
Proof.
  intros o1 c1 o2 c2 x.
  destruct o1, o2; cbv zeta; unfold table, cmp_sem, vnone; table_case.
Qed.

Theorem table_depends_on_compare :
  forall o1 o2 c1 c2 d1 d2, (c1 ?= c2) = (d1 ?= d2) -> table o1 c1 o2 c2 = table o1 d1 o2 d2.
Proof.
  intros o1 o2 c1 c2 d1 d2 H.
  assert (Heq : (c1 =? c2) = (d1 =? d2)) by (rewrite !Z.eqb_compare, H; reflexivity).
  assert (Hlt : (c1 <? c2) = (d1 <? d2)) by (unfold Z.ltb; rewrite H; reflexivity).
  assert (Hgt : (c1 >? c2) = (d1 >? d2)) by (unfold Z.gtb; rewrite H; reflexivity).
  assert (Hle : (c1 <=? c2) = (d1 <=? d2)) by (unfold Z.leb; rewrite H; reflexivity).
  assert (Hge : (c1 >=? c2) = (d1 >=? d2)) by (unfold Z.geb; rewrite H; reflexivity).
  destruct o1, o2; unfold table; rewrite ?Heq, ?Hlt, ?Hgt, ?Hle, ?Hge; reflexivity.
Qed.


(* ---- T17.3 n-ary: the whole BoolOp branch preserves the truth value ---- *)
(* Proof outline: (a) eval of a BoolOp is "every operand has the neutral value"; every collected atom
   is a conjunct/disjunct; (b) the flags are sound through [pair_verdict_sound]; (c) removal: every
   removed direct operand has a justifier atom of strictly higher rank ([pair_verdict_rank]), so by
   induction on the number of higher-ranked atoms all atoms have the neutral value as soon as the
   kept operands do. *)
(* ---------- induction principle for the nested type [operand] ---------- *)
Section OperandInd.
  Variable P : operand -> Prop.
  Hypothesis HCmp : forall k op c fl, P (OCmp k op c fl).
  Hypothesis HVar : forall i, P (OVar i).
  Hypothesis HConst : forall b, P (OConst b).
  Hypothesis HNot : forall o, P o -> P (ONot o).
  Hypothesis HBool : forall a vs, Forall P vs -> P (OBool a vs).
  Hypothesis HChain : forall t0 ls, P (OChain t0 ls).
  Fixpoint operand_ind' (o : operand) : P o :=
    match o with
    | OCmp k op c fl => HCmp k op c fl
    | OVar i => HVar i
    | OConst b => HConst b
    | ONot o' => HNot o' (operand_ind' o')
    | OBool a vs =>
        HBool a vs ((fix go (l : list operand) : Forall P l :=
                       match l with
                       | [] => Forall_nil P
                       | x :: t => Forall_cons x (operand_ind' x) (go t)
                       end) vs)
    | OChain t0 ls => HChain t0 ls
    end.
End OperandInd.

(* ---------- eval of a BoolOp ---------- *)
Lemma eval_OBool_cons : forall rho sigma a v tl,
  eval rho sigma (OBool a (v :: tl)) =
  if a then eval rho sigma v && eval rho sigma (OBool a tl)
  else eval rho sigma v || eval rho sigma (OBool a tl).
Proof. reflexivity. Qed.

Lemma eval_OBool_nil : forall rho sigma a, eval rho sigma (OBool a []) = a.
Proof. reflexivity. Qed.

Lemma eval_list_iff : forall rho sigma a vs,
  eval_list rho sigma a vs = a <-> Forall (fun v => eval rho sigma v = a) vs.
Proof.
  intros rho sigma a vs. unfold eval_list. induction vs as [| v tl IH].
  - rewrite eval_OBool_nil. split; [constructor | reflexivity].
  - rewrite eval_OBool_cons. split.
    + intros H. constructor.
      * destruct a, (eval rho sigma v); cbn in H; try reflexivity; try discriminate.
      * apply IH. destruct a, (eval rho sigma v), (eval rho sigma (OBool _ tl)); cbn in H;
          try reflexivity; try discriminate.
    + intros H. pose proof (Forall_inv H) as Hv. pose proof (Forall_inv_tail H) as Htl. cbn beta in Hv. apply IH in Htl. rewrite Hv, Htl.
      destruct a; reflexivity.
Qed.

Lemma bool_eq_by_iff : forall a b1 b2 : bool, (b1 = a <-> b2 = a) -> b1 = b2.
Proof. intros a b1 b2 H. destruct a, b1, b2; try reflexivity; destruct H as [H1 H2];
  try (specialize (H1 eq_refl); discriminate); try (specialize (H2 eq_refl); discriminate). Qed.

Lemma eval_list_eq : forall rho sigma a l1 l2,
  (Forall (fun v => eval rho sigma v = a) l1 <-> Forall (fun v => eval rho sigma v = a) l2) ->
  eval_list rho sigma a l1 = eval_list rho sigma a l2.
Proof.
  intros rho sigma a l1 l2 H. apply (bool_eq_by_iff a). rewrite !eval_list_iff. exact H.
Qed.

Lemma eval_list_neg : forall rho sigma a vs v,
  In v vs -> eval rho sigma v = negb a -> eval_list rho sigma a vs = negb a.
Proof.
  intros rho sigma a vs v Hin Hv.
  destruct (eval_list rho sigma a vs) eqn:E; destruct a; try reflexivity; cbn in *.
  - apply (proj1 (eval_list_iff rho sigma true vs)) in E.
    rewrite Forall_forall in E. specialize (E v Hin). congruence.
  - apply (proj1 (eval_list_iff rho sigma false vs)) in E.
    rewrite Forall_forall in E. specialize (E v Hin). congruence.
Qed.

(* ---------- structural equality ---------- *)
Lemma bop_eqb_eq : forall a b, bop_eqb a b = true -> a = b.
Proof. intros a b H. destruct a, b; try reflexivity; discriminate. Qed.

Lemma bop_eqb_refl : forall a, bop_eqb a a = true.
Proof. destruct a; reflexivity. Qed.

Lemma operand_eqb_OBool : forall a1 v1 a2 v2,
  operand_eqb (OBool a1 v1) (OBool a2 v2) = Bool.eqb a1 a2 && operands_eqb v1 v2.
Proof.
  intros a1 v1 a2 v2. reflexivity.
Qed.

Lemma cterm_eqb_eq : forall a b, cterm_eqb a b = true -> a = b.
Proof.
  intros [x|x] [y|y] H; try discriminate; cbn in H.
  - apply Nat.eqb_eq in H. subst. reflexivity.
  - apply Z.eqb_eq in H. subst. reflexivity.
Qed.

Lemma links_eqb_eq : forall a b, links_eqb a b = true -> a = b.
Proof.
  induction a as [|[o1 t1] a' IH]; intros [|[o2 t2] b'] H; try discriminate; [reflexivity|].
  cbn in H. apply andb_true_iff in H. destruct H as [H Hl].
  apply andb_true_iff in H. destruct H as [Ho Ht].
  apply bop_eqb_eq in Ho. apply cterm_eqb_eq in Ht. apply IH in Hl. subst. reflexivity.
Qed.

Lemma operand_eqb_eq : forall a b, operand_eqb a b = true -> a = b.
Proof.
  intros a. induction a as [k op c fl | i | x | o IH | a1 v1 IH | t0 ls] using operand_ind'; intros b H.
  - destruct b as [k2 op2 c2 fl2 | | | | |]; try discriminate. cbn in H.
    apply andb_true_iff in H. destruct H as [H Hf].
    apply andb_true_iff in H. destruct H as [H Hc].
    apply andb_true_iff in H. destruct H as [Hk Ho].
    apply Nat.eqb_eq in Hk. apply bop_eqb_eq in Ho. apply Z.eqb_eq in Hc. apply eqb_prop in Hf.
    subst. reflexivity.
  - destruct b; try discriminate. cbn in H. apply Nat.eqb_eq in H. subst. reflexivity.
  - destruct b; try discriminate. cbn in H. apply eqb_prop in H. subst. reflexivity.
  - destruct b; try discriminate. cbn in H. f_equal. apply IH. exact H.
  - destruct b as [| | | | a2 v2 |]; try discriminate. rewrite operand_eqb_OBool in H.
    apply andb_true_iff in H. destruct H as [Ha Hv]. apply eqb_prop in Ha. subst a2. f_equal.
    revert v2 Hv. induction IH as [| x t1 Hx Ht IHt]; intros v2 Hv; destruct v2 as [| y t2];
      try discriminate; try reflexivity.
    cbn in Hv. apply andb_true_iff in Hv. destruct Hv as [Hxy Htt].
    f_equal; [apply Hx; exact Hxy | apply IHt; exact Htt].
  - destruct b as [| | | | | t2 l2]; try discriminate. cbn in H.
    apply andb_true_iff in H. destruct H as [Ht Hl].
    apply cterm_eqb_eq in Ht. apply links_eqb_eq in Hl. subst. reflexivity.
Qed.

(* ---------- opposite expressions ---------- *)
Lemma opposite_present_sound : forall rho sigma isand vs,
  opposite_present vs = true -> eval_list rho sigma isand vs = negb isand.
Proof.
  intros rho sigma isand vs H. unfold opposite_present in H.
  apply existsb_exists in H. destruct H as [v [Hv H]].
  assert (H' : existsb (fun w => match w with ONot w' => operand_eqb w' v | _ => false end) vs = true).
  { destruct v; try exact H; discriminate. }
  clear H. apply existsb_exists in H'. destruct H' as [w [Hw H]].
  destruct w as [| | | w' | |]; try discriminate.
  apply operand_eqb_eq in H. subst w'.
  destruct (eval rho sigma v) eqn:Ev.
  - destruct isand.
    + apply (eval_list_neg rho sigma true vs (ONot v) Hw). cbn. rewrite Ev. reflexivity.
    + apply (eval_list_neg rho sigma false vs v Hv). exact Ev.
  - destruct isand.
    + apply (eval_list_neg rho sigma true vs v Hv). exact Ev.
    + apply (eval_list_neg rho sigma false vs (ONot v) Hw). cbn. rewrite Ev. reflexivity.
Qed.

(* ---------- constant folding section ---------- *)
Lemma is_const_eval : forall rho sigma b o, is_const b o = true -> eval rho sigma o = b.
Proof.
  intros rho sigma b o H. destruct o; try discriminate. cbn in *. apply eqb_prop in H. exact H.
Qed.

Lemma const_section_sound : forall isand vs rho sigma,
  match const_section isand vs with
  | RConst b => eval_list rho sigma isand vs = b
  | RValues vs' => eval_list rho sigma isand vs' = eval_list rho sigma isand vs
  | RNone => True
  end.
Proof.
  intros isand vs rho sigma. unfold const_section.
  destruct (existsb (is_const (negb isand)) vs) eqn:E1.
  - apply existsb_exists in E1. destruct E1 as [v [Hv Hc]].
    apply (eval_list_neg rho sigma isand vs v Hv). apply is_const_eval. exact Hc.
  - set (values := filter (fun v => negb (is_const isand v)) vs).
    assert (Hvals : Forall (fun v => eval rho sigma v = isand) values <->
                    Forall (fun v => eval rho sigma v = isand) vs).
    { unfold values. rewrite !Forall_forall. split.
      - intros H v Hv. destruct (is_const isand v) eqn:Ec.
        + apply is_const_eval. exact Ec.
        + apply H. apply filter_In. split; [exact Hv|]. rewrite Ec. reflexivity.
      - intros H v Hv. apply filter_In in Hv. apply H. tauto. }
    destruct values as [| v tl] eqn:Evals.
    + apply eval_list_iff. apply Hvals. constructor.
    + destruct (all_same (v :: tl)) eqn:Es.
      * apply eval_list_eq. rewrite <- Hvals. cbn in Es.
        rewrite forallb_forall in Es. rewrite !Forall_forall. split.
        -- intros H w Hw. destruct Hw as [Hw | Hw].
           ++ subst w. apply H. left. reflexivity.
           ++ specialize (Es w Hw). apply operand_eqb_eq in Es. subst w. apply H. left. reflexivity.
        -- intros H w Hw. apply H. destruct Hw as [Hw | []]. left. exact Hw.
      * destruct (Nat.ltb (length (v :: tl)) (length vs)).
        -- apply eval_list_eq. exact Hvals.
        -- exact I.
Qed.

(* ---------- semantics of atoms ---------- *)
Definition atom_sem (rho : nat -> Z) (a : atom) : bool :=
  cmp_sem (a_op a) (rho (a_key a)) (a_c a).

Lemma cmp_sem_opposite : forall op x c, cmp_sem (opposite op) x c = cmp_sem op c x.
Proof. intros op x c. destruct op; cbn; lia. Qed.

Lemma atom_of_spec : forall d v a, In a (atom_of d v) ->
  exists k op c fl, v = OCmp k op c fl /\ a = mkAtom k (if fl then opposite op else op) c d.
Proof.
  intros d v a H. destruct v as [k op c fl | | | | |]; cbn in H; try contradiction.
  destruct H as [H | []]. exists k, op, c, fl. split; [reflexivity | symmetry; exact H].
Qed.

Lemma eval_OCmp_atom : forall rho sigma k op c fl d,
  eval rho sigma (OCmp k op c fl) = atom_sem rho (mkAtom k (if fl then opposite op else op) c d).
Proof.
  intros rho sigma k op c fl d. unfold atom_sem. cbn. destruct fl.
  - rewrite cmp_sem_opposite. reflexivity.
  - reflexivity.
Qed.

Lemma atom_of_sem : forall rho sigma d v a, In a (atom_of d v) ->
  eval rho sigma v = atom_sem rho a /\ a_didx a = d.
Proof.
  intros rho sigma d v a H. apply atom_of_spec in H.
  destruct H as (k & op & c & fl & Hv & Ha). subst v a.
  split; [apply eval_OCmp_atom | reflexivity].
Qed.

Lemma nested_atoms_OBool : forall isand a vs,
  nested_atoms isand (OBool a vs) =
  if Bool.eqb a isand then flat_map (fun v => atom_of None v ++ nested_atoms isand v) vs else [].
Proof.
  intros isand a vs. cbn [nested_atoms]. destruct (Bool.eqb a isand); [|reflexivity].
  induction vs as [| v tl IH]; [reflexivity|]. cbn [flat_map]. rewrite <- IH. reflexivity.
Qed.

Lemma nested_sem : forall rho sigma isand o a, In a (nested_atoms isand o) ->
  a_didx a = None /\ (eval rho sigma o = isand -> atom_sem rho a = isand).
Proof.
  intros rho sigma isand o.
  induction o as [k op c fl | i | x | o IH | a0 vs IH | t0 ls] using operand_ind'; intros a Ha;
    try (cbn in Ha; contradiction).
  rewrite nested_atoms_OBool in Ha. destruct (Bool.eqb a0 isand) eqn:E; [|contradiction].
  apply eqb_prop in E. subst a0.
  apply in_flat_map in Ha. destruct Ha as [v [Hv Ha]].
  rewrite Forall_forall in IH.
  apply in_app_or in Ha. destruct Ha as [Ha | Ha].
  - destruct (atom_of_sem rho sigma None v a Ha) as [Hs Hd]. split; [exact Hd|].
    intros He. apply (proj1 (eval_list_iff rho sigma isand vs)) in He.
    rewrite Forall_forall in He. rewrite <- Hs. apply He. exact Hv.
  - destruct (IH v Hv a Ha) as [Hd Hs]. split; [exact Hd|].
    intros He. apply (proj1 (eval_list_iff rho sigma isand vs)) in He.
    rewrite Forall_forall in He. apply Hs. apply He. exact Hv.
Qed.

Lemma direct_atoms_spec : forall isand vs i0 a, In a (direct_atoms isand i0 vs) ->
  exists j v, nth_error vs j = Some v /\
    (In a (atom_of (Some (i0 + j)%nat) v) \/ In a (nested_atoms isand v)).
Proof.
  intros isand vs. induction vs as [| v tl IH]; intros i0 a Ha.
  - cbn in Ha. contradiction.
  - cbn [direct_atoms] in Ha. apply in_app_or in Ha. destruct Ha as [Ha | Ha].
    + exists 0%nat, v. split; [reflexivity|]. rewrite Nat.add_0_r.
      apply in_app_or in Ha. exact Ha.
    + apply IH in Ha. destruct Ha as (j & w & Hn & Hw).
      exists (S j), w. split; [exact Hn|].
      replace (i0 + S j)%nat with (S i0 + j)%nat by lia. exact Hw.
Qed.

Lemma direct_atom_inv : forall isand vs i0 a j, In a (direct_atoms isand i0 vs) ->
  a_didx a = Some j ->
  exists j' k op c fl, j = (i0 + j')%nat /\ nth_error vs j' = Some (OCmp k op c fl) /\
                    a = mkAtom k (if fl then opposite op else op) c (Some j).
Proof.
  intros isand vs i0 a j Ha Hd. apply direct_atoms_spec in Ha.
  destruct Ha as (j' & v & Hn & [Ha | Ha]).
  - apply atom_of_spec in Ha. destruct Ha as (k & op & c & fl & Hv & Ha). subst v.
    assert (Hj : j = (i0 + j')%nat) by (subst a; cbn in Hd; congruence).
    exists j', k, op, c, fl. split; [exact Hj|]. split; [exact Hn|]. rewrite Hj. exact Ha.
  - destruct (nested_sem (fun _ => 0) (fun _ => true) isand v a Ha) as [Hnone _]. congruence.
Qed.

Lemma direct_atoms_conj : forall rho sigma isand vs i0 a,
  In a (direct_atoms isand i0 vs) -> eval_list rho sigma isand vs = isand ->
  atom_sem rho a = isand.
Proof.
  intros rho sigma isand vs i0 a Ha He. apply direct_atoms_spec in Ha.
  destruct Ha as (j & v & Hn & Ha). apply nth_error_In in Hn.
  apply (proj1 (eval_list_iff rho sigma isand vs)) in He. rewrite Forall_forall in He.
  specialize (He v Hn). destruct Ha as [Ha | Ha].
  - destruct (atom_of_sem rho sigma _ v a Ha) as [Hs _]. rewrite <- Hs. exact He.
  - destruct (nested_sem rho sigma isand v a Ha) as [_ Hs]. apply Hs. exact He.
Qed.

Lemma bad_atom_sound : forall rho sigma isand vs i0 a,
  In a (direct_atoms isand i0 vs) -> atom_sem rho a = negb isand ->
  eval_list rho sigma isand vs = negb isand.
Proof.
  intros rho sigma isand vs i0 a Ha Hs.
  destruct (Bool.bool_dec (eval_list rho sigma isand vs) isand) as [He | He].
  - rewrite (direct_atoms_conj rho sigma isand vs i0 a Ha He) in Hs. destruct isand; discriminate.
  - destruct (eval_list rho sigma isand vs), isand; try reflexivity; congruence.
Qed.

(* ---------- pair verdicts ---------- *)
Lemma pair_verdict_sound : forall rho a b, a_key a = a_key b ->
  let v := pair_verdict a b in
  let p := atom_sem rho a in
  let q := atom_sem rho b in
  (v_false v = true -> p && q = false) /\
  (v_true v = true -> p || q = true) /\
  (v_and v = RmFirst -> implies q p) /\ (v_and v = RmSecond -> implies p q) /\
  (v_or v = RmFirst -> implies p q) /\ (v_or v = RmSecond -> implies q p).
Proof.
  intros rho a b Hk. unfold atom_sem. rewrite Hk. set (x := rho (a_key b)).
  destruct a as [ka oa ca da], b as [kb ob cb db]. cbn [a_key a_op a_c a_didx] in *.
  unfold pair_verdict. cbn [a_key a_op a_c a_didx].
  destruct (bop_eqb oa ob) eqn:Eo.
  - apply bop_eqb_eq in Eo. subst ob.
    destruct (ca =? cb) eqn:Ec.
    + apply Z.eqb_eq in Ec. subst cb.
      destruct db; cbn; unfold implies; repeat split; intros; try discriminate; assumption.
    + apply table_sound.
  - destruct (Nat.leb (class oa) (class ob)).
    + apply table_sound.
    + pose proof (table_sound ob cb oa ca x) as T. cbv zeta in T.
      destruct T as (T1 & T2 & T3 & T4 & T5 & T6).
      cbn [v_false v_true v_and v_or].
      split; [intros H; rewrite andb_comm; apply T1; exact H|].
      split; [intros H; rewrite orb_comm; apply T2; exact H|].
      split; [intros H; apply T4; destruct (v_and (table ob cb oa ca)); cbn in H; congruence|].
      split; [intros H; apply T3; destruct (v_and (table ob cb oa ca)); cbn in H; congruence|].
      split; [intros H; apply T6; destruct (v_or (table ob cb oa ca)); cbn in H; congruence|].
      intros H; apply T5; destruct (v_or (table ob cb oa ca)); cbn in H; congruence.
Qed.

Definition vrm (isand : bool) (v : verdict) : rm := if isand then v_and v else v_or v.

(* "x is removable because of y": if y has the neutral value then so has x *)
Lemma pair_verdict_justifies : forall rho isand a b, a_key a = a_key b ->
  (vrm isand (pair_verdict a b) = RmFirst -> atom_sem rho b = isand -> atom_sem rho a = isand) /\
  (vrm isand (pair_verdict a b) = RmSecond -> atom_sem rho a = isand -> atom_sem rho b = isand).
Proof.
  intros rho isand a b Hk.
  pose proof (pair_verdict_sound rho a b Hk) as T. cbv zeta in T.
  destruct T as (_ & _ & T3 & T4 & T5 & T6). unfold implies in *. unfold vrm.
  destruct isand.
  - split; intros H; [apply T3 | apply T4]; exact H.
  - split; intros H Hs.
    + specialize (T5 H). destruct (atom_sem rho a); [|reflexivity].
      rewrite T5 in Hs by reflexivity. discriminate.
    + specialize (T6 H). destruct (atom_sem rho b); [|reflexivity].
      rewrite T6 in Hs by reflexivity. discriminate.
Qed.

(* ---------- rank: removal edges go strictly upwards ---------- *)
Definition k1 (o : bop) : Z := match o with BNe => 0 | BEq => 2 | _ => 1 end.
Definition k2 (o : bop) (c : Z) : Z :=
  match o with BGt => 2 * c + 1 | BGe => 2 * c | BLt => - 2 * c + 1 | BLe => - 2 * c | _ => 0 end.
Definition sgn (isand : bool) : Z := if isand then 1 else -1.
Definition k3 (d : option nat) : Z := match d with None => 1 | Some i => - Z.of_nat i end.

Definition lt2 (isand : bool) (o1 : bop) (c1 : Z) (o2 : bop) (c2 : Z) : Prop :=
  sgn isand * k1 o1 < sgn isand * k1 o2 \/
  (sgn isand * k1 o1 = sgn isand * k1 o2 /\ sgn isand * k2 o1 c1 < sgn isand * k2 o2 c2).

Lemma table_rank : forall isand o1 c1 o2 c2,
  (vrm isand (table o1 c1 o2 c2) = RmFirst -> lt2 isand o1 c1 o2 c2) /\
  (vrm isand (table o1 c1 o2 c2) = RmSecond -> lt2 isand o2 c2 o1 c1).
Proof.
  intros isand o1 c1 o2 c2. unfold lt2, vrm.
  destruct isand, o1, o2; unfold table, vnone; cbn [k1 k2 sgn];
    repeat match goal with
           | |- context [if ?b then _ else _] => let E := fresh "E" in destruct b eqn:E
           end;
    cbn [v_and v_or]; split; intros H; try discriminate; lia.
Qed.

Definition r1 (isand : bool) (a : atom) : Z := sgn isand * k1 (a_op a).
Definition r2 (isand : bool) (a : atom) : Z := sgn isand * k2 (a_op a) (a_c a).
Definition r3 (a : atom) : Z := k3 (a_didx a).

Definition alt (isand : bool) (a b : atom) : Prop :=
  r1 isand a < r1 isand b \/
  (r1 isand a = r1 isand b /\
   (r2 isand a < r2 isand b \/ (r2 isand a = r2 isand b /\ r3 a < r3 b))).

Definition altb (isand : bool) (a b : atom) : bool :=
  (r1 isand a <? r1 isand b) ||
  ((r1 isand a =? r1 isand b) &&
   ((r2 isand a <? r2 isand b) || ((r2 isand a =? r2 isand b) && (r3 a <? r3 b)))).

Lemma altb_iff : forall isand a b, altb isand a b = true <-> alt isand a b.
Proof. intros isand a b. unfold altb, alt. lia. Qed.

Lemma alt_trans : forall isand a b c, alt isand a b -> alt isand b c -> alt isand a c.
Proof. intros isand a b c. unfold alt. lia. Qed.

Lemma alt_irrefl : forall isand a, ~ alt isand a a.
Proof. intros isand a. unfold alt. lia. Qed.

Lemma pair_verdict_rank : forall isand a b,
  (vrm isand (pair_verdict a b) = RmFirst -> alt isand a b \/ a_didx a = None) /\
  (vrm isand (pair_verdict a b) = RmSecond ->
   (forall i j, a_didx a = Some i -> a_didx b = Some j -> (i < j)%nat) ->
   alt isand b a \/ a_didx b = None).
Proof.
  intros isand a b.
  destruct a as [ka oa ca da], b as [kb ob cb db].
  unfold pair_verdict, alt, r1, r2, r3. cbn [a_key a_op a_c a_didx].
  destruct (bop_eqb oa ob) eqn:Eo.
  - apply bop_eqb_eq in Eo. subst ob.
    destruct (ca =? cb) eqn:Ec.
    + apply Z.eqb_eq in Ec. subst cb.
      destruct db as [j|].
      * split; intros H; [destruct isand; discriminate|]. intros Hord.
        destruct da as [i|].
        -- specialize (Hord i j eq_refl eq_refl). left. cbn [k3]. lia.
        -- left. cbn [k3]. lia.
      * split; intros H; [|destruct isand; discriminate].
        destruct da as [i|]; [|right; reflexivity]. left. cbn [k3]. lia.
    + destruct (table_rank isand oa ca oa cb) as [T1 T2]. unfold lt2 in *.
      split; intros H; [specialize (T1 H) | intros _; specialize (T2 H)]; left; lia.
  - destruct (Nat.leb (class oa) (class ob)).
    + destruct (table_rank isand oa ca ob cb) as [T1 T2]. unfold lt2 in *.
      split; intros H; [specialize (T1 H) | intros _; specialize (T2 H)]; left; lia.
    + destruct (table_rank isand ob cb oa ca) as [T1 T2]. unfold lt2, vrm in *.
      cbn [v_and v_or] in *.
      split; intros H; [|intros _]; left.
      * assert (H' : (if isand then v_and (table ob cb oa ca) else v_or (table ob cb oa ca)) = RmSecond).
        { destruct isand; [destruct (v_and (table ob cb oa ca)) | destruct (v_or (table ob cb oa ca))];
            cbn in H; congruence. }
        specialize (T2 H'). lia.
      * assert (H' : (if isand then v_and (table ob cb oa ca) else v_or (table ob cb oa ca)) = RmFirst).
        { destruct isand; [destruct (v_and (table ob cb oa ca)) | destruct (v_or (table ob cb oa ca))];
            cbn in H; congruence. }
        specialize (T1 H'). lia.
Qed.

(* ---------- scan_all as a fold over the ordered pairs ---------- *)
Fixpoint pairs (l : list atom) : list (atom * atom) :=
  match l with
  | [] => []
  | a :: tl => map (pair a) tl ++ pairs tl
  end.

Definition step (isand : bool) (s : acc) (p : atom * atom) : acc :=
  if Nat.eqb (a_key (fst p)) (a_key (snd p))
  then add_verdict isand (fst p) (snd p) (pair_verdict (fst p) (snd p)) s else s.

Lemma scan_pairs_fold : forall isand a rest s,
  scan_pairs isand a rest s = fold_left (step isand) (map (pair a) rest) s.
Proof.
  intros isand a rest. induction rest as [| b tl IH]; intros s.
  - reflexivity.
  - cbn [scan_pairs map fold_left]. rewrite IH. reflexivity.
Qed.

Lemma scan_all_fold : forall isand ats s,
  scan_all isand ats s = fold_left (step isand) (pairs ats) s.
Proof.
  intros isand ats. induction ats as [| a tl IH]; intros s.
  - reflexivity.
  - cbn [scan_all pairs]. rewrite fold_left_app, IH, scan_pairs_fold. reflexivity.
Qed.

Lemma fold_left_event : forall (A B : Type) (f : B -> A -> B) (P : B -> Prop) (E : A -> Prop),
  (forall s x, P (f s x) -> P s \/ E x) ->
  forall l s, P (fold_left f l s) -> P s \/ exists x, In x l /\ E x.
Proof.
  intros A B f P E Hstep l. induction l as [| x l IH]; intros s H.
  - left. exact H.
  - cbn [fold_left] in H. apply IH in H. destruct H as [H | [y [Hy He]]].
    + apply Hstep in H. destruct H as [H | H]; [left; exact H|].
      right. exists x. split; [left; reflexivity | exact H].
    + right. exists y. split; [right; exact Hy | exact He].
Qed.

(* ordered pairs of a list *)
Fixpoint opair (l : list atom) (a b : atom) : Prop :=
  match l with
  | [] => False
  | x :: tl => (x = a /\ In b tl) \/ opair tl a b
  end.

Lemma pairs_opair : forall l a b, In (a, b) (pairs l) -> opair l a b.
Proof.
  induction l as [| x tl IH]; intros a b H.
  - contradiction.
  - cbn [pairs] in H. apply in_app_or in H. cbn [opair]. destruct H as [H | H].
    + left. apply in_map_iff in H. destruct H as [y [Hy Hin]]. inversion Hy; subst. tauto.
    + right. apply IH. exact H.
Qed.

Lemma opair_in : forall l a b, opair l a b -> In a l /\ In b l.
Proof.
  induction l as [| x tl IH]; intros a b H.
  - contradiction.
  - cbn [opair] in H. destruct H as [[Hx Hb] | H].
    + split; [left; exact Hx | right; exact Hb].
    + apply IH in H. split; right; tauto.
Qed.

Lemma opair_app : forall l1 l2 a b, opair (l1 ++ l2) a b ->
  opair l1 a b \/ opair l2 a b \/ (In a l1 /\ In b l2).
Proof.
  induction l1 as [| x tl IH]; intros l2 a b H.
  - right. left. exact H.
  - cbn [app opair] in H. destruct H as [[Hx Hb] | H].
    + apply in_app_or in Hb. destruct Hb as [Hb | Hb].
      * left. cbn [opair]. left. tauto.
      * right. right. split; [left; exact Hx | exact Hb].
    + apply IH in H. destruct H as [H | [H | [Ha Hb]]].
      * left. cbn [opair]. right. exact H.
      * right. left. exact H.
      * right. right. split; [right; exact Ha | exact Hb].
Qed.

Lemma nested_didx : forall isand v a, In a (nested_atoms isand v) -> a_didx a = None.
Proof.
  intros isand v a H.
  exact (proj1 (nested_sem (fun _ => 0) (fun _ => true) isand v a H)).
Qed.

Lemma direct_atoms_ge : forall isand vs i0 b j,
  In b (direct_atoms isand i0 vs) -> a_didx b = Some j -> (i0 <= j)%nat.
Proof.
  intros isand vs i0 b j Hb Hd.
  destruct (direct_atom_inv isand vs i0 b j Hb Hd) as (j' & _ & _ & _ & _ & Hj & _). lia.
Qed.

Lemma direct_atoms_ordered : forall isand vs i0 a b i j,
  opair (direct_atoms isand i0 vs) a b ->
  a_didx a = Some i -> a_didx b = Some j -> (i < j)%nat.
Proof.
  intros isand vs. induction vs as [| v tl IH]; intros i0 a b i j H Ha Hb.
  - contradiction.
  - cbn [direct_atoms] in H. apply opair_app in H. destruct H as [H | [H | [H1 H2]]].
    + exfalso. apply opair_app in H. destruct H as [H | [H | [H1 H2]]].
      * destruct v; cbn in H; tauto.
      * apply opair_in in H. destruct H as [H _]. apply nested_didx in H. congruence.
      * apply nested_didx in H2. congruence.
    + exact (IH (S i0) a b i j H Ha Hb).
    + pose proof (direct_atoms_ge isand tl (S i0) b j H2 Hb) as Hge.
      apply in_app_or in H1. destruct H1 as [H1 | H1].
      * apply atom_of_spec in H1. destruct H1 as (k & op & c & fl & _ & Hav). subst a.
        cbn in Ha. inversion Ha; subst. lia.
      * apply nested_didx in H1. congruence.
Qed.

(* ---------- what scan_all can put into the accumulator ---------- *)
Definition red (isand : bool) (s : acc) : list nat := if isand then red_and s else red_or s.

Lemma didx_list_in : forall x i, In i (didx_list x) -> a_didx x = Some i.
Proof.
  intros x i H. unfold didx_list in H. destruct (a_didx x) as [j|]; [|contradiction].
  destruct H as [H | []]. subst. reflexivity.
Qed.

Definition red_event (isand : bool) (i : nat) (p : atom * atom) : Prop :=
  a_key (fst p) = a_key (snd p) /\
  ((vrm isand (pair_verdict (fst p) (snd p)) = RmFirst /\ a_didx (fst p) = Some i) \/
   (vrm isand (pair_verdict (fst p) (snd p)) = RmSecond /\ a_didx (snd p) = Some i)).

Lemma step_red : forall isand i s p,
  In i (red isand (step isand s p)) -> In i (red isand s) \/ red_event isand i p.
Proof.
  intros isand i s [a b]. unfold step, red_event. cbn [fst snd].
  destruct (Nat.eqb (a_key a) (a_key b)) eqn:Ek; [|intros H; left; exact H].
  apply Nat.eqb_eq in Ek. intros H.
  unfold red, add_verdict, vrm in *. destruct isand; cbn [red_and red_or] in H.
  - destruct (v_and (pair_verdict a b)).
    + left. exact H.
    + apply in_app_or in H. destruct H as [H | H]; [|left; exact H].
      right. split; [exact Ek|]. left. split; [reflexivity | apply didx_list_in; exact H].
    + apply in_app_or in H. destruct H as [H | H]; [|left; exact H].
      right. split; [exact Ek|]. right. split; [reflexivity | apply didx_list_in; exact H].
  - destruct (v_or (pair_verdict a b)).
    + left. exact H.
    + apply in_app_or in H. destruct H as [H | H]; [|left; exact H].
      right. split; [exact Ek|]. left. split; [reflexivity | apply didx_list_in; exact H].
    + apply in_app_or in H. destruct H as [H | H]; [|left; exact H].
      right. split; [exact Ek|]. right. split; [reflexivity | apply didx_list_in; exact H].
Qed.

Lemma scan_all_red : forall isand ats i,
  In i (red isand (scan_all isand ats acc0)) ->
  exists a b, opair ats a b /\ red_event isand i (a, b).
Proof.
  intros isand ats i H. rewrite scan_all_fold in H.
  apply (fold_left_event _ _ (step isand) (fun s => In i (red isand s)) (red_event isand i)
           (step_red isand i)) in H.
  destruct H as [H | [[a b] [Hin He]]].
  - destruct isand; cbn in H; contradiction.
  - exists a, b. split; [apply pairs_opair; exact Hin | exact He].
Qed.

Definition false_event (isand : bool) (p : atom * atom) : Prop :=
  a_key (fst p) = a_key (snd p) /\ v_false (pair_verdict (fst p) (snd p)) = true /\ isand = true.
Definition true_event (isand : bool) (p : atom * atom) : Prop :=
  a_key (fst p) = a_key (snd p) /\ v_true (pair_verdict (fst p) (snd p)) = true /\ isand = false.

Lemma step_false : forall isand s p,
  always_false (step isand s p) = true -> always_false s = true \/ false_event isand p.
Proof.
  intros isand s [a b]. unfold step, false_event. cbn [fst snd].
  destruct (Nat.eqb (a_key a) (a_key b)) eqn:Ek; [|intros H; left; exact H].
  apply Nat.eqb_eq in Ek. unfold add_verdict. cbn [always_false]. intros H.
  apply orb_true_iff in H. destruct H as [H | H]; [left; exact H|].
  apply andb_true_iff in H. right. tauto.
Qed.

Lemma step_true : forall isand s p,
  always_true (step isand s p) = true -> always_true s = true \/ true_event isand p.
Proof.
  intros isand s [a b]. unfold step, true_event. cbn [fst snd].
  destruct (Nat.eqb (a_key a) (a_key b)) eqn:Ek; [|intros H; left; exact H].
  apply Nat.eqb_eq in Ek. unfold add_verdict. cbn [always_true]. intros H.
  apply orb_true_iff in H. destruct H as [H | H]; [left; exact H|].
  apply andb_true_iff in H. destruct H as [H1 H2]. apply negb_true_iff in H2. right. tauto.
Qed.

(* some collected atom does not have the neutral value *)
Definition bad_atom (rho : nat -> Z) (isand : bool) (ats : list atom) : Prop :=
  exists a, In a ats /\ atom_sem rho a = negb isand.

Lemma scan_all_false : forall rho isand ats,
  always_false (scan_all isand ats acc0) = true -> isand = true /\ bad_atom rho isand ats.
Proof.
  intros rho isand ats H. rewrite scan_all_fold in H.
  apply (fold_left_event _ _ (step isand) (fun s => always_false s = true) (false_event isand)
           (step_false isand)) in H.
  destruct H as [H | [[a b] [Hin (Hk & Hv & Hi)]]]; [discriminate|].
  cbn [fst snd] in *. split; [exact Hi|]. subst isand.
  apply pairs_opair in Hin. apply opair_in in Hin. destruct Hin as [Ha Hb].
  pose proof (pair_verdict_sound rho a b Hk) as T. cbv zeta in T. destruct T as (T1 & _).
  specialize (T1 Hv). apply andb_false_iff in T1. destruct T1 as [T1 | T1].
  - exists a. split; [exact Ha | exact T1].
  - exists b. split; [exact Hb | exact T1].
Qed.

Lemma scan_all_true : forall rho isand ats,
  always_true (scan_all isand ats acc0) = true -> isand = false /\ bad_atom rho isand ats.
Proof.
  intros rho isand ats H. rewrite scan_all_fold in H.
  apply (fold_left_event _ _ (step isand) (fun s => always_true s = true) (true_event isand)
           (step_true isand)) in H.
  destruct H as [H | [[a b] [Hin (Hk & Hv & Hi)]]]; [discriminate|].
  cbn [fst snd] in *. split; [exact Hi|]. subst isand.
  apply pairs_opair in Hin. apply opair_in in Hin. destruct Hin as [Ha Hb].
  pose proof (pair_verdict_sound rho a b Hk) as T. cbv zeta in T. destruct T as (_ & T2 & _).
  specialize (T2 Hv). apply orb_true_iff in T2. destruct T2 as [T2 | T2].
  - exists a. split; [exact Ha | exact T2].
  - exists b. split; [exact Hb | exact T2].
Qed.

Lemma triple_rule_bad : forall rho isand ats, triple_rule ats = true -> bad_atom rho isand ats.
Proof.
  intros rho isand ats H. unfold triple_rule in H.
  apply existsb_exists in H. destruct H as [g [Hg H]].
  apply andb_true_iff in H. destruct H as [Hgo H].
  apply existsb_exists in H. destruct H as [l [Hl H]].
  apply andb_true_iff in H. destruct H as [H He].
  apply andb_true_iff in H. destruct H as [H Hcl].
  apply andb_true_iff in H. destruct H as [Hlo Hkl].
  apply existsb_exists in He. destruct He as [e [He H]].
  apply andb_true_iff in H. destruct H as [H Hce].
  apply andb_true_iff in H. destruct H as [Heo Hke].
  apply bop_eqb_eq in Hgo, Hlo, Heo. apply Nat.eqb_eq in Hkl, Hke. apply Z.eqb_eq in Hcl, Hce.
  unfold bad_atom.
  assert (Hsg : atom_sem rho g = (rho (a_key g) >? a_c g)) by (unfold atom_sem; rewrite Hgo; reflexivity).
  assert (Hsl : atom_sem rho l = (rho (a_key g) <? a_c g))
    by (unfold atom_sem; rewrite Hlo, <- Hkl, <- Hcl; reflexivity).
  assert (Hse : atom_sem rho e = (rho (a_key g) =? a_c g))
    by (unfold atom_sem; rewrite Heo, <- Hke, <- Hce; reflexivity).
  destruct isand; cbn [negb].
  - destruct (atom_sem rho g) eqn:Eg; [|exists g; tauto].
    exists l. split; [exact Hl|]. lia.
  - destruct (atom_sem rho g) eqn:Eg; [exists g; tauto|].
    destruct (atom_sem rho l) eqn:El; [exists l; tauto|].
    exists e. split; [exact He|]. lia.
Qed.

(* ---------- counting argument ---------- *)
Lemma filter_length_le : forall (A : Type) (f g : A -> bool) l,
  (forall z, f z = true -> g z = true) -> (length (filter f l) <= length (filter g l))%nat.
Proof.
  intros A f g l Hfg. induction l as [| x l IH]; [apply le_n|].
  cbn [filter]. destruct (f x) eqn:Ef.
  - rewrite (Hfg x Ef). cbn [length]. lia.
  - destruct (g x); cbn [length]; lia.
Qed.

Lemma filter_length_lt : forall (A : Type) (f g : A -> bool) l y,
  (forall z, f z = true -> g z = true) -> In y l -> g y = true -> f y = false ->
  (length (filter f l) < length (filter g l))%nat.
Proof.
  intros A f g l y Hfg. induction l as [| x l IH]; intros Hy Hg Hf; [contradiction|].
  cbn [filter]. destruct Hy as [Hy | Hy].
  - subst x. rewrite Hg, Hf. cbn [length].
    pose proof (filter_length_le A f g l Hfg). lia.
  - specialize (IH Hy Hg Hf). destruct (f x) eqn:Ef.
    + rewrite (Hfg x Ef). cbn [length]. lia.
    + destruct (g x); cbn [length]; lia.
Qed.

Definition count_gt (isand : bool) (ats : list atom) (a : atom) : nat :=
  length (filter (altb isand a) ats).

Lemma count_gt_lt : forall isand ats a y, alt isand a y -> In y ats ->
  (count_gt isand ats y < count_gt isand ats a)%nat.
Proof.
  intros isand ats a y Hay Hy. unfold count_gt.
  apply (filter_length_lt atom (altb isand y) (altb isand a) ats y).
  - intros z Hz. apply altb_iff. apply altb_iff in Hz. exact (alt_trans isand a y z Hay Hz).
  - exact Hy.
  - apply altb_iff. exact Hay.
  - destruct (altb isand y y) eqn:E; [|reflexivity]. apply altb_iff in E.
    exfalso. exact (alt_irrefl isand y E).
Qed.

(* ---------- removal of redundant operands ---------- *)
Lemma filter_idx_in : forall R vs i0 v, In v (filter_idx R i0 vs) -> In v vs.
Proof.
  intros R vs. induction vs as [| w tl IH]; intros i0 v H; [contradiction|].
  cbn [filter_idx] in H. destruct (existsb (Nat.eqb i0) R).
  - right. exact (IH _ _ H).
  - destruct H as [H | H]; [left; exact H | right; exact (IH _ _ H)].
Qed.

Lemma filter_idx_keep : forall R vs i0 j v,
  nth_error vs j = Some v -> existsb (Nat.eqb (i0 + j)%nat) R = false ->
  In v (filter_idx R i0 vs).
Proof.
  intros R vs. induction vs as [| w tl IH]; intros i0 j v Hn Hr.
  - destruct j; discriminate.
  - cbn [filter_idx]. destruct j as [| j].
    + cbn in Hn. inversion Hn; subst w. rewrite Nat.add_0_r in Hr. rewrite Hr. left. reflexivity.
    + cbn in Hn. replace (i0 + S j)%nat with (S i0 + j)%nat in Hr by lia.
      pose proof (IH (S i0) j v Hn Hr) as H.
      destruct (existsb (Nat.eqb i0) R); [exact H | right; exact H].
Qed.

Lemma existsb_eqb_in : forall j R, existsb (Nat.eqb j) R = true -> In j R.
Proof.
  intros j R H. apply existsb_exists in H. destruct H as [x [Hx He]].
  apply Nat.eqb_eq in He. subst x. exact Hx.
Qed.

Section Removal.
Variables (rho : nat -> Z) (sigma : nat -> bool) (isand : bool) (vs : list operand).
Let ats := direct_atoms isand 0 vs.
Let R := red isand (scan_all isand ats acc0).
Hypothesis Hkept : forall j v, nth_error vs j = Some v -> existsb (Nat.eqb j) R = false ->
                               eval rho sigma v = isand.

Lemma atom_unique : forall a b j, In a ats -> In b ats ->
  a_didx a = Some j -> a_didx b = Some j -> a = b.
Proof.
  intros a b j Ha Hb Hda Hdb.
  destruct (direct_atom_inv isand vs 0 a j Ha Hda) as (ja & ka & oa & ca & fa & Hja & Hna & Hea).
  destruct (direct_atom_inv isand vs 0 b j Hb Hdb) as (jb & kb & ob & cb & fb & Hjb & Hnb & Heb).
  cbn in Hja, Hjb. subst ja jb. rewrite Hna in Hnb. inversion Hnb; subst. reflexivity.
Qed.

Lemma all_atoms_neutral : forall n a, In a ats -> (count_gt isand ats a < n)%nat ->
  atom_sem rho a = isand.
Proof.
  induction n as [| n IH]; intros a Ha Hc; [lia|].
  pose proof Ha as Ha'. apply direct_atoms_spec in Ha'.
  destruct Ha' as (j & v & Hn & Hav). cbn [Nat.add] in Hav.
  destruct (existsb (Nat.eqb j) R) eqn:Er.
  - (* operand j is removed: its justifier ranks strictly higher *)
    apply existsb_eqb_in in Er. apply scan_all_red in Er.
    destruct Er as (a' & b' & Hop & Hk & Hev). cbn [fst snd] in Hk, Hev.
    pose proof (opair_in _ _ _ Hop) as [Ha'in Hb'in].
    destruct (pair_verdict_rank isand a' b') as [Rk1 Rk2].
    destruct (pair_verdict_justifies rho isand a' b' Hk) as [J1 J2].
    destruct Hev as [[Hv Hd] | [Hv Hd]].
    + destruct Hav as [Hav | Hav].
      * destruct (atom_of_sem rho sigma _ v a Hav) as [_ Hda].
        assert (a' = a) by (apply (atom_unique a' a j); assumption). subst a'.
        destruct (Rk1 Hv) as [Hlt | Hnone]; [|congruence].
        pose proof (count_gt_lt isand ats a b' Hlt Hb'in).
        apply (J1 Hv). apply IH; [exact Hb'in | lia].
      * exfalso.
        destruct (direct_atom_inv isand vs 0 a' j Ha'in Hd) as (j' & k & op & c & fl & Hj & Hn' & _).
        cbn in Hj. subst j'. rewrite Hn in Hn'. inversion Hn'; subst v. cbn in Hav. exact Hav.
    + assert (Hord : forall i j0, a_didx a' = Some i -> a_didx b' = Some j0 -> (i < j0)%nat).
      { intros i j0. apply (direct_atoms_ordered isand vs 0 a' b'). exact Hop. }
      destruct Hav as [Hav | Hav].
      * destruct (atom_of_sem rho sigma _ v a Hav) as [_ Hda].
        assert (b' = a) by (apply (atom_unique b' a j); assumption). subst b'.
        destruct (Rk2 Hv Hord) as [Hlt | Hnone]; [|congruence].
        pose proof (count_gt_lt isand ats a a' Hlt Ha'in).
        apply (J2 Hv). apply IH; [exact Ha'in | lia].
      * exfalso.
        destruct (direct_atom_inv isand vs 0 b' j Hb'in Hd) as (j' & k & op & c & fl & Hj & Hn' & _).
        cbn in Hj. subst j'. rewrite Hn in Hn'. inversion Hn'; subst v. cbn in Hav. exact Hav.
  - (* operand j is kept *)
    specialize (Hkept j v Hn Er). destruct Hav as [Hav | Hav].
    + destruct (atom_of_sem rho sigma _ v a Hav) as [Hs _]. rewrite <- Hs. exact Hkept.
    + destruct (nested_sem rho sigma isand v a Hav) as [_ Hs]. apply Hs. exact Hkept.
Qed.

Lemma removed_neutral : forall j v, nth_error vs j = Some v -> eval rho sigma v = isand.
Proof.
  intros j v Hn. destruct (existsb (Nat.eqb j) R) eqn:Er; [|exact (Hkept j v Hn Er)].
  apply existsb_eqb_in in Er. apply scan_all_red in Er.
  destruct Er as (a' & b' & Hop & Hk & Hev). cbn [fst snd] in Hk, Hev.
  pose proof (opair_in _ _ _ Hop) as [Ha'in Hb'in].
  assert (Hx : exists x, In x ats /\ a_didx x = Some j).
  { destruct Hev as [[_ Hd] | [_ Hd]]; [exists a' | exists b']; tauto. }
  destruct Hx as [x [Hx Hd]].
  destruct (direct_atom_inv isand vs 0 x j Hx Hd) as (j' & k & op & c & fl & Hj & Hn' & Hex).
  cbn in Hj. subst j'. rewrite Hn in Hn'. inversion Hn'; subst v.
  rewrite (eval_OCmp_atom rho sigma k op c fl (Some j)). rewrite <- Hex.
  apply (all_atoms_neutral (S (count_gt isand ats x)) x Hx). apply Nat.lt_succ_diag_r.
Qed.
End Removal.

Lemma removal_sound : forall rho sigma isand vs,
  eval_list rho sigma isand
    (filter_idx (red isand (scan_all isand (direct_atoms isand 0 vs) acc0)) 0 vs)
  = eval_list rho sigma isand vs.
Proof.
  intros rho sigma isand vs. apply eval_list_eq. rewrite !Forall_forall. split.
  - intros H v Hv. apply In_nth_error in Hv. destruct Hv as [j Hj].
    apply (removed_neutral rho sigma isand vs) with (j := j); [|exact Hj].
    intros j0 v0 Hn0 Hr0. apply H. apply (filter_idx_keep _ vs 0%nat j0 v0 Hn0). exact Hr0.
  - intros H v Hv. apply H. exact (filter_idx_in _ _ _ _ Hv).
Qed.

(* ---------- the whole BoolOp branch ---------- *)
Theorem simplify_sound :
  forall isand vs rho sigma,
    match simplify isand vs with
    | RConst b => eval_list rho sigma isand vs = b
    | RValues vs' => eval_list rho sigma isand vs' = eval_list rho sigma isand vs
    | RNone => True
    end.
Proof.
  intros isand vs rho sigma. unfold simplify.
  destruct (opposite_present vs) eqn:Eopp.
  - apply opposite_present_sound. exact Eopp.
  - set (ats := direct_atoms isand 0 vs).
    set (s0 := scan_all isand ats acc0).
    set (s := if triple_rule ats
              then mkAcc (always_false s0 || isand) (always_true s0 || negb isand)
                         (red_and s0) (red_or s0) (red_and_any s0) (red_or_any s0)
              else s0).
    assert (Hbad : bad_atom rho isand ats -> eval_list rho sigma isand vs = negb isand).
    { intros [a [Ha Hs]]. exact (bad_atom_sound rho sigma isand vs 0 a Ha Hs). }
    assert (Hred : (if isand then red_and s else red_or s) = red isand s0).
    { unfold s, red. destruct (triple_rule ats), isand; reflexivity. }
    assert (Haf : always_false s = true -> eval_list rho sigma isand vs = false).
    { unfold s. destruct (triple_rule ats) eqn:Et; cbn [always_false]; intros H.
      - destruct isand.
        + apply (Hbad (triple_rule_bad rho true ats Et)).
        + rewrite orb_false_r in H. destruct (scan_all_false rho false ats H) as [Hc _]. discriminate.
      - destruct (scan_all_false rho isand ats H) as [Hi Hb]. subst isand. exact (Hbad Hb). }
    assert (Hat : always_true s = true -> eval_list rho sigma isand vs = true).
    { unfold s. destruct (triple_rule ats) eqn:Et; cbn [always_true]; intros H.
      - destruct isand.
        + cbn [negb] in H. rewrite orb_false_r in H.
          destruct (scan_all_true rho true ats H) as [Hc _]. discriminate.
        + apply (Hbad (triple_rule_bad rho false ats Et)).
      - destruct (scan_all_true rho isand ats H) as [Hi Hb]. subst isand. exact (Hbad Hb). }
    destruct (always_false s) eqn:Eaf; [exact (Haf eq_refl)|].
    destruct (always_true s) eqn:Eat; [exact (Hat eq_refl)|].
    rewrite Hred.
    destruct ((if isand then red_and_any s else red_or_any s) &&
              Nat.eqb (length (filter_idx (red isand s0) 0 vs)) 1).
    + apply removal_sound.
    + destruct ((if isand then red_and_any s else red_or_any s) &&
                negb (Nat.eqb (length (filter_idx (red isand s0) 0 vs)) (length vs))).
      * apply removal_sound.
      * apply const_section_sound.
Qed.


(* ---- T17.1 the regenerated REVERSE_OPERATOR_MAPPING is total and is logical negation ---- *)
Theorem reverse_op_total : forall o, reverse_op o <> None.
Proof.
  intros o; destruct o; vm_compute; discriminate.
Qed.

Theorem reverse_op_negates :
  forall mem same o o' x y,
    reverse_op o = Some o' -> cmpop_sem mem same o' x y = negb (cmpop_sem mem same o x y).
Proof.
  intros mem same o o' x y H.
  destruct o; vm_compute in H; inversion H; subst o'; unfold cmpop_sem;
    rewrite ?negb_involutive; try reflexivity; lia.
Qed.

(* ---- T17.2 _negate_condition: De Morgan recursion negates the truth value and evaluates exactly
        the same opaque terms in the same order (short-circuiting preserved) ---- *)
Section CondInd.
  Variable P : cond -> Prop.
  Hypothesis HNot : forall c, P c -> P (CNot c).
  Hypothesis HCmp : forall l op r, P (CCmp l op r).
  Hypothesis HAtom : forall i, P (CAtom i).
  Hypothesis HBool : forall a vs, Forall P vs -> P (CBool a vs).
  Fixpoint cond_ind' (c : cond) : P c :=
    match c with
    | CNot c' => HNot c' (cond_ind' c')
    | CCmp l op r => HCmp l op r
    | CAtom i => HAtom i
    | CBool a vs =>
        HBool a vs ((fix go (l : list cond) : Forall P l :=
                       match l with
                       | [] => Forall_nil P
                       | x :: t => Forall_cons x (cond_ind' x) (go t)
                       end) vs)
    end.
End CondInd.

Lemma ceval_CBool_cons : forall mem same term atom a v tl,
  ceval mem same term atom (CBool a (v :: tl)) =
  let '(b, t) := ceval mem same term atom v in
  if Bool.eqb b a
  then let '(b', t') := ceval mem same term atom (CBool a tl) in (b', t ++ t')
  else (b, t).
Proof. reflexivity. Qed.

Lemma ceval_CBool_nil : forall mem same term atom a,
  ceval mem same term atom (CBool a []) = (a, []).
Proof. reflexivity. Qed.

Theorem negate_sound :
  forall mem same term atom c,
    ceval mem same term atom (negate c) =
      (negb (fst (ceval mem same term atom c)), snd (ceval mem same term atom c)).
Proof.
  intros mem same term atom c.
  induction c as [c IH | l op r | i | a vs IH] using cond_ind'.
  - cbn [negate]. cbn [ceval]. destruct (ceval mem same term atom c) as [b t]. cbn.
    rewrite negb_involutive. reflexivity.
  - cbn [negate]. destruct (reverse_op op) as [op'|] eqn:E.
    + cbn [ceval fst snd]. rewrite (reverse_op_negates mem same op op' _ _ E). reflexivity.
    + cbn [ceval fst snd]. reflexivity.
  - cbn [negate ceval fst snd]. reflexivity.
  - cbn [negate].
    induction IH as [| v tl Hv Htl IHtl].
    + cbn. reflexivity.
    + cbn [map]. rewrite !ceval_CBool_cons. rewrite Hv.
      destruct (ceval mem same term atom v) as [b t]. cbn [fst snd].
      rewrite IHtl.
      destruct (ceval mem same term atom (CBool a tl)) as [b' t'].
      cbn [fst snd].
      destruct b, a; cbn; reflexivity.
Qed.


(* ---- T17.4 / T15.5 remove_redundant_boolop_values keeps the value and the evaluated unknowns ---- *)
(* operands are (id, value); the mask must be consistent with the values; the evaluation trace is
   compared on the operands whose mask is Unknown (literal operands have no effects). *)
Fixpoint unknown_ids (mask : list tri) (ops : list (nat * Z)) : list nat :=
  match mask, ops with
  | Unknown :: mt, (i, _) :: ot => i :: unknown_ids mt ot
  | _ :: mt, _ :: ot => unknown_ids mt ot
  | _, _ => []
  end.

(* ---------- structural characterisation of [redundant] ---------- *)
Fixpoint rs (isand h : bool) (mask : list tri) : list bool :=
  match mask with
  | [] => []
  | t :: mtl =>
    match mtl with
    | [] => [h]
    | nt :: _ =>
      if isand then
        if is_falsy t then h :: map (fun _ => true) mtl
        else (h || is_truthy t) :: rs isand false mtl
      else (h || is_falsy t) :: rs isand (is_truthy t && is_truthy nt) mtl
    end
  end.

Lemma set_at_app : forall (rpre l : list bool) k,
  set_at (length rpre + k) (rpre ++ l) = rpre ++ set_at k l.
Proof.
  induction rpre as [| r rpre IH]; intros l k; cbn.
  - reflexivity.
  - rewrite IH. reflexivity.
Qed.

Lemma set_from_app : forall (rpre l : list bool) k,
  set_from (length rpre + k) (rpre ++ l) = rpre ++ set_from k l.
Proof.
  induction rpre as [| r rpre IH]; intros l k; cbn.
  - reflexivity.
  - rewrite IH. reflexivity.
Qed.

Lemma set_from_0 : forall l, set_from 0 l = map (fun _ => true) l.
Proof.
  induction l as [| x l IH]; cbn; [reflexivity | rewrite IH; reflexivity].
Qed.

Lemma set_at_here : forall rpre i h rest, length rpre = i ->
  set_at i (rpre ++ h :: rest) = rpre ++ true :: rest.
Proof.
  intros rpre i h rest Hl. subst i.
  replace (length rpre) with (length rpre + 0)%nat by lia.
  rewrite set_at_app. reflexivity.
Qed.

Lemma set_at_next : forall rpre i h h1 rest, length rpre = i ->
  set_at (S i) (rpre ++ h :: h1 :: rest) = rpre ++ h :: true :: rest.
Proof.
  intros rpre i h h1 rest Hl. subst i.
  replace (S (length rpre)) with (length rpre + 1)%nat by lia.
  rewrite set_at_app. reflexivity.
Qed.

Lemma set_from_next : forall rpre i h rest, length rpre = i ->
  set_from (S i) (rpre ++ h :: rest) = rpre ++ h :: map (fun _ => true) rest.
Proof.
  intros rpre i h rest Hl. subst i.
  replace (S (length rpre)) with (length rpre + 1)%nat by lia.
  rewrite set_from_app. cbn. destruct rest as [| x rest]; cbn.
  - reflexivity.
  - rewrite set_from_0. reflexivity.
Qed.

Lemma nth_error_here : forall (pre : list tri) i t rest, length pre = i ->
  nth_error (pre ++ t :: rest) i = Some t.
Proof.
  intros pre i t rest Hl. subst i. rewrite nth_error_app2 by lia.
  rewrite Nat.sub_diag. reflexivity.
Qed.

Lemma nth_error_next : forall (pre : list tri) i t rest, length pre = i ->
  nth_error (pre ++ t :: rest) (S i) = nth_error rest 0.
Proof.
  intros pre i t rest Hl. subst i. rewrite nth_error_app2 by lia.
  replace (S (length pre) - length pre)%nat with 1%nat by lia. reflexivity.
Qed.

Lemma rloop_rs : forall isand mtl fuel i pre rpre t h,
  length pre = i -> length rpre = i -> (length mtl <= fuel)%nat ->
  rloop isand fuel i (pre ++ t :: mtl) (rpre ++ h :: map (fun _ => false) mtl)
  = rpre ++ rs isand h (t :: mtl).
Proof.
  intros isand mtl.
  induction mtl as [| nt mtl' IH]; intros fuel i pre rpre t h Hp Hr Hf.
  - cbn [rs map]. destruct fuel as [| f]; [reflexivity|].
    cbn [rloop]. rewrite (nth_error_here pre i t [] Hp), (nth_error_next pre i t [] Hp).
    reflexivity.
  - destruct fuel as [| f]; [cbn in Hf; lia|].
    cbn [length] in Hf. apply le_S_n in Hf.
    assert (Hstep : forall h' h1',
      rloop isand f (S i) (pre ++ t :: nt :: mtl')
            (rpre ++ h' :: h1' :: map (fun _ => false) mtl')
      = rpre ++ h' :: rs isand h1' (nt :: mtl')).
    { intros h' h1'.
      replace (pre ++ t :: nt :: mtl') with ((pre ++ [t]) ++ nt :: mtl')
        by (rewrite <- app_assoc; reflexivity).
      replace (rpre ++ h' :: h1' :: map (fun _ => false) mtl')
        with ((rpre ++ [h']) ++ h1' :: map (fun _ => false) mtl')
        by (rewrite <- app_assoc; reflexivity).
      rewrite IH.
      - rewrite <- app_assoc. reflexivity.
      - rewrite app_length. cbn. lia.
      - rewrite app_length. cbn. lia.
      - exact Hf. }
    cbn [rloop]. rewrite (nth_error_here pre i t _ Hp), (nth_error_next pre i t _ Hp).
    cbn [nth_error map].
    destruct isand, t, nt, h; cbn [is_truthy is_falsy andb negb orb rs];
      rewrite ?(set_at_here rpre i _ _ Hr), ?(set_at_next rpre i _ _ _ Hr),
              ?(set_from_next rpre i _ _ Hr), ?(set_at_here rpre i _ _ Hr);
      try (rewrite Hstep; reflexivity);
      cbn [map]; rewrite ?map_map; reflexivity.
Qed.

Lemma redundant_rs : forall isand mask, redundant isand mask = rs isand false mask.
Proof.
  intros isand mask. unfold redundant. destruct mask as [| t mtl]; [reflexivity|].
  cbn [map length].
  apply (rloop_rs isand mtl (S (length mtl)) 0%nat [] [] t false); cbn; lia.
Qed.

Section RedSound.
Variable truth : Z -> bool.

Lemma bool_val_cons : forall isand i v ops, ops <> [] ->
  bool_val Z truth isand ((i, v) :: ops) =
  if Bool.eqb (truth v) isand
  then (fst (bool_val Z truth isand ops), i :: snd (bool_val Z truth isand ops))
  else (Some v, [i]).
Proof.
  intros isand i v ops Hne. destruct ops as [| p ops]; [contradiction|].
  change (bool_val Z truth isand ((i, v) :: p :: ops)) with
    (if Bool.eqb (truth v) isand
     then let '(r, t) := bool_val Z truth isand (p :: ops) in (r, i :: t)
     else (Some v, [i])).
  destruct (Bool.eqb (truth v) isand); [|reflexivity].
  destruct (bool_val Z truth isand (p :: ops)) as [r t]. reflexivity.
Qed.

Lemma bool_val_short : forall isand i v ops, Bool.eqb (truth v) isand = false ->
  bool_val Z truth isand ((i, v) :: ops) = (Some v, [i]).
Proof.
  intros isand i v ops H. destruct ops as [| p ops]; [reflexivity|].
  rewrite bool_val_cons by discriminate. rewrite H. reflexivity.
Qed.

Lemma bool_val_trace_in : forall isand ops j,
  In j (snd (bool_val Z truth isand ops)) -> In j (map fst ops).
Proof.
  intros isand ops. induction ops as [| [i v] ops IH]; intros j Hj.
  - cbn in Hj. contradiction.
  - destruct ops as [| p ops].
    + cbn in Hj. cbn. tauto.
    + rewrite bool_val_cons in Hj by discriminate.
      destruct (Bool.eqb (truth v) isand); cbn [snd] in Hj.
      * destruct Hj as [Hj | Hj]; [left; exact Hj | right; apply IH; exact Hj].
      * cbn in Hj. left. tauto.
Qed.

Lemma keep_in : forall (X : Type) red (l : list X) x, In x (keep red l) -> In x l.
Proof.
  intros X red. induction red as [| r red IH]; intros l x Hx.
  - cbn in Hx. contradiction.
  - destruct l as [| y l]; [cbn in Hx; contradiction|].
    cbn in Hx. destruct r.
    + right. apply IH. exact Hx.
    + destruct Hx as [Hx | Hx]; [left; exact Hx | right; apply IH; exact Hx].
Qed.

Lemma keep_all_true : forall (X : Type) (m : list tri) (l : list X),
  keep (map (fun _ => true) m) l = [].
Proof.
  intros X m. induction m as [| t m IH]; intros l; cbn.
  - reflexivity.
  - destruct l; [reflexivity | apply IH].
Qed.

Lemma unknown_ids_in : forall mask ops j, In j (unknown_ids mask ops) -> In j (map fst ops).
Proof.
  induction mask as [| t mask IH]; intros ops j Hj.
  - cbn in Hj. contradiction.
  - destruct ops as [| [i v] ops]; [destruct t; cbn in Hj; contradiction|].
    destruct t; cbn in Hj; cbn.
    + right. apply IH. exact Hj.
    + right. apply IH. exact Hj.
    + destruct Hj as [Hj | Hj]; [left; exact Hj | right; apply IH; exact Hj].
Qed.

Definition inb (unk : list nat) (i : nat) : bool := existsb (Nat.eqb i) unk.

Lemma inb_false : forall unk i, ~ In i unk -> inb unk i = false.
Proof.
  intros unk i H. unfold inb. destruct (existsb (Nat.eqb i) unk) eqn:E; [|reflexivity].
  apply existsb_exists in E. destruct E as [x [Hx Hxi]]. apply Nat.eqb_eq in Hxi. subst x.
  contradiction.
Qed.

Lemma inb_here : forall unk i, inb (i :: unk) i = true.
Proof. intros unk i. unfold inb. cbn [existsb]. rewrite Nat.eqb_refl. reflexivity. Qed.

Lemma filter_inb_cons : forall i unk l, ~ In i l ->
  filter (inb (i :: unk)) l = filter (inb unk) l.
Proof.
  intros i unk l H. apply filter_ext_in. intros j Hj. unfold inb. cbn [existsb].
  destruct (Nat.eqb j i) eqn:E; [|reflexivity].
  apply Nat.eqb_eq in E. subst j. contradiction.
Qed.

Lemma keep_fst_in : forall red (ops : list (nat * Z)) j,
  In j (map fst (keep red ops)) -> In j (map fst ops).
Proof.
  intros red ops j Hj. apply in_map_iff in Hj. destruct Hj as [x [Hx Hin]].
  apply in_map_iff. exists x. split; [exact Hx|]. eapply keep_in. exact Hin.
Qed.

(* the statement for a given reduction vector *)
Definition sound_for (isand : bool) (red : list bool) (mask : list tri) (ops : list (nat * Z)) : Prop :=
  let kept := keep red ops in
  let unk := unknown_ids mask ops in
  kept <> [] /\
  fst (bool_val Z truth isand kept) = fst (bool_val Z truth isand ops) /\
  filter (inb unk) (snd (bool_val Z truth isand kept)) =
  filter (inb unk) (snd (bool_val Z truth isand ops)).

Lemma rs_sound : forall isand mask ops,
  length mask = length ops -> ops <> [] -> NoDup (map fst ops) ->
  Forall2 (consistent Z truth) mask (map snd ops) ->
  sound_for isand (rs isand false mask) mask ops.
Proof.
  intros isand mask.
  induction mask as [| t mtl IH]; intros ops Hlen Hne Hnd Hcons.
  - destruct ops; [contradiction | discriminate].
  - destruct ops as [| [i v] ops']; [contradiction|].
    cbn [length] in Hlen. injection Hlen as Hlen.
    cbn [map fst snd] in Hnd, Hcons.
    inversion Hnd as [| ? ? Hi Hnd']; subst.
    inversion Hcons as [| ? ? ? ? Htv Hcons']; subst.
    destruct mtl as [| nt mtl'].
    + (* single operand *)
      destruct ops'; [|discriminate]. unfold sound_for. cbn.
      split; [discriminate|]. split; reflexivity.
    + destruct ops' as [| p ops'']; [discriminate|].
      assert (Hne' : p :: ops'' <> []) by discriminate.
      specialize (IH (p :: ops'') Hlen Hne' Hnd' Hcons').
      remember (p :: ops'') as ops' eqn:Hops'.
      remember (nt :: mtl') as mtl eqn:Hmtl.
      assert (Hrs : rs isand false (t :: mtl) =
                    if isand then
                      if is_falsy t then false :: map (fun _ => true) mtl
                      else (false || is_truthy t) :: rs isand false mtl
                    else (false || is_falsy t) :: rs isand (is_truthy t && is_truthy nt) mtl).
      { subst mtl. reflexivity. }
      unfold sound_for in *. rewrite Hrs. clear Hrs.
      destruct IH as [IHne [IHv IHt]].
      assert (Hnotin_tr : forall red, ~ In i (snd (bool_val Z truth isand (keep red ops')))).
      { intros red Hc. apply bool_val_trace_in in Hc. apply keep_fst_in in Hc. contradiction. }
      assert (Hnotin_tr0 : ~ In i (snd (bool_val Z truth isand ops'))).
      { intros Hc. apply bool_val_trace_in in Hc. contradiction. }
      assert (Hnotin_unk : ~ In i (unknown_ids mtl ops')).
      { intros Hc. apply unknown_ids_in in Hc. contradiction. }
      destruct isand.
      * (* and *)
        destruct t; cbn [is_falsy is_truthy orb consistent] in *.
        -- (* Truthy: dropped *)
           cbn [keep unknown_ids].
           split; [exact IHne|].
           rewrite (bool_val_cons true i v ops' Hne'). rewrite Htv. cbn [Bool.eqb fst snd].
           split; [exact IHv|].
           cbn [filter]. rewrite (inb_false _ _ Hnotin_unk). exact IHt.
        -- (* Falsy: everything after is dropped *)
           cbn [keep]. rewrite keep_all_true.
           split; [discriminate|].
           rewrite (bool_val_short true i v ops') by (rewrite Htv; reflexivity).
           cbn. split; reflexivity.
        -- (* Unknown *)
           cbn [keep unknown_ids].
           split; [discriminate|].
           rewrite (bool_val_cons true i v ops' Hne').
           rewrite (bool_val_cons true i v _ IHne).
           destruct (Bool.eqb (truth v) true); cbn [fst snd].
           ++ split; [exact IHv|].
              cbn [filter]. rewrite !inb_here.
              f_equal.
              rewrite (filter_inb_cons i _ _ (Hnotin_tr _)).
              rewrite (filter_inb_cons i _ _ Hnotin_tr0). exact IHt.
           ++ split; reflexivity.
      * (* or *)
        destruct t; cbn [is_falsy is_truthy orb andb consistent] in *.
        -- (* Truthy: decides *)
           cbn [keep].
           split; [discriminate|].
           rewrite (bool_val_short false i v ops') by (rewrite Htv; reflexivity).
           rewrite (bool_val_short false i v _) by (rewrite Htv; reflexivity).
           split; reflexivity.
        -- (* Falsy: dropped *)
           cbn [keep unknown_ids].
           split; [exact IHne|].
           rewrite (bool_val_cons false i v ops' Hne'). rewrite Htv. cbn [Bool.eqb fst snd].
           split; [exact IHv|].
           cbn [filter]. rewrite (inb_false _ _ Hnotin_unk). exact IHt.
        -- (* Unknown *)
           cbn [keep unknown_ids].
           split; [discriminate|].
           rewrite (bool_val_cons false i v ops' Hne').
           rewrite (bool_val_cons false i v _ IHne).
           destruct (Bool.eqb (truth v) false); cbn [fst snd].
           ++ split; [exact IHv|].
              cbn [filter]. rewrite !inb_here.
              f_equal.
              rewrite (filter_inb_cons i _ _ (Hnotin_tr _)).
              rewrite (filter_inb_cons i _ _ Hnotin_tr0). exact IHt.
           ++ split; reflexivity.
Qed.
End RedSound.

Theorem redundant_sound :
  forall (truth : Z -> bool) isand mask (ops : list (nat * Z)),
    length mask = length ops -> ops <> [] ->
    NoDup (map fst ops) ->
    Forall2 (consistent Z truth) mask (map snd ops) ->
    let kept := keep (redundant isand mask) ops in
    let unk := unknown_ids mask ops in
    kept <> [] /\
    fst (bool_val Z truth isand kept) = fst (bool_val Z truth isand ops) /\
    filter (fun i => existsb (Nat.eqb i) unk) (snd (bool_val Z truth isand kept)) =
    filter (fun i => existsb (Nat.eqb i) unk) (snd (bool_val Z truth isand ops)).
Proof.
  intros truth isand mask ops Hlen Hne Hnd Hcons. rewrite redundant_rs.
  exact (rs_sound truth isand mask ops Hlen Hne Hnd Hcons).
Qed.

(* ---- T17.9 closed form of sum(range(a, b)) for a <= b;  R17.10 refuted for b < a ---- *)
Lemma sum_range_nat_closed : forall n a,
  2 * sum_range_nat a n = Z.of_nat n * (2 * a + Z.of_nat n - 1).
Proof.
  induction n as [| n IH]; intros a.
  - cbn. reflexivity.
  - cbn [sum_range_nat]. rewrite Z.mul_add_distr_l, IH. rewrite Nat2Z.inj_succ. nia.
Qed.

Theorem sum_range_closed_form :
  forall a b, a <= b -> 2 * sum_range a b = sum_range_closed2 a b.
Proof.
  intros a b Hab. unfold sum_range, sum_range_closed2.
  rewrite sum_range_nat_closed. rewrite Z2Nat.id by lia. nia.
Qed.

Theorem sum_range_closed_form_refuted :
  exists a b, b < a /\ 2 * sum_range a b <> sum_range_closed2 a b.
Proof.
  exists 2, 1. split; [lia|]. vm_compute. discriminate.
Qed.

(* ---- axiom audit ---- *)
Print Assumptions table_sound.
Print Assumptions table_depends_on_compare.
Print Assumptions simplify_sound.
Print Assumptions reverse_op_total.
Print Assumptions reverse_op_negates.
Print Assumptions negate_sound.
Print Assumptions redundant_sound.
Print Assumptions sum_range_closed_form.
Print Assumptions sum_range_closed_form_refuted.
