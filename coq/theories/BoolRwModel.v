(* K6 -- models of fixes._negate_condition (fixes.py:1141-1159),
   fixes.replace_negated_numeric_comparison (2584-2609, the operator flip only),
   fixes.remove_redundant_boolop_values (3970-4019) and the closed forms of
   symbolic_math._sum_range.  Mirrors the code as it is.  The operator table is the regenerated
   constants.REVERSE_OPERATOR_MAPPING (PyrefactGen.Tables). *)
From Coq Require Import List ZArith Bool.
Import ListNotations.
Require Import Pyrefact.Ops.
Require Import PyrefactGen.Tables.
Open Scope Z_scope.

(* ---------------- REVERSE_OPERATOR_MAPPING ---------------- *)
Fixpoint lookup_rev (tbl : list (cmpop * cmpop)) (o : cmpop) : option cmpop :=
  match tbl with
  | [] => None
  | (a, b) :: tl => if cmpop_eqb a o then Some b else lookup_rev tl o
  end.
Definition reverse_op (o : cmpop) : option cmpop := lookup_rev REVERSE_OPERATOR_MAPPING o.

(* semantics of a comparison operator on integers; membership and identity are abstract relations *)
Section CmpSem.
Variable mem : Z -> Z -> bool.     (* x in y *)
Variable same : Z -> Z -> bool.    (* x is y *)
Definition cmpop_sem (o : cmpop) (x y : Z) : bool :=
  match o with
  | CEq => x =? y | CNotEq => negb (x =? y)
  | CLt => x <? y | CLtE => x <=? y | CGt => x >? y | CGtE => x >=? y
  | CIs => same x y | CIsNot => negb (same x y)
  | CIn => mem x y | CNotIn => negb (mem x y)
  end.
End CmpSem.

(* ---------------- _negate_condition ---------------- *)
(* [CCmp l op r]: a Compare with exactly one operator between the opaque terms l and r;
   [CAtom i]: any other expression (names, calls, chained comparisons ...) *)
Inductive cond :=
| CNot (c : cond)
| CCmp (l : nat) (op : cmpop) (r : nat)
| CAtom (i : nat)
| CBool (isand : bool) (vs : list cond).

Fixpoint negate (c : cond) : cond :=
  match c with
  | CNot c' => c'
  | CCmp l op r => match reverse_op op with
                   | Some op' => CCmp l op' r
                   | None => CNot c
                   end
  | CBool isand vs => CBool (negb isand) (map negate vs)
  | CAtom _ => CNot c
  end.

(* truth value and evaluation trace (which opaque terms are evaluated, in order; `and`/`or`
   short-circuit) *)
Section CondSem.
Variable mem same : Z -> Z -> bool.
Variable term : nat -> Z.          (* value of the opaque term l / r *)
Variable atom : nat -> bool.       (* truth value of an opaque condition *)

Fixpoint ceval (c : cond) : bool * list nat :=
  match c with
  | CNot c' => let '(b, t) := ceval c' in (negb b, t)
  | CCmp l op r => (cmpop_sem mem same op (term l) (term r), [l; r])
  | CAtom i => (atom i, [i])
  | CBool isand vs =>
      (fix go (l : list cond) : bool * list nat :=
         match l with
         | [] => (isand, [])
         | v :: tl =>
             let '(b, t) := ceval v in
             if Bool.eqb b isand      (* and: continue while true; or: continue while false *)
             then let '(b', t') := go tl in (b', t ++ t')
             else (b, t)
         end) vs
  end.
End CondSem.

(* ---------------- remove_redundant_boolop_values ---------------- *)
Inductive tri := Truthy | Falsy | Unknown.
Definition is_truthy (t : tri) := match t with Truthy => true | _ => false end.
Definition is_falsy (t : tri) := match t with Falsy => true | _ => false end.

Fixpoint set_at (i : nat) (l : list bool) : list bool :=
  match l, i with
  | [], _ => []
  | _ :: tl, O => true :: tl
  | x :: tl, S i' => x :: set_at i' tl
  end.
(* redundant[i:] = [True] * ... *)
Fixpoint set_from (i : nat) (l : list bool) : list bool :=
  match l, i with
  | [], _ => []
  | _ :: tl, O => true :: set_from O tl
  | x :: tl, S i' => x :: set_from i' tl
  end.

Fixpoint rloop (isand : bool) (fuel i : nat) (mask : list tri) (red : list bool) : list bool :=
  match fuel with
  | O => red
  | S f =>
      match nth_error mask i, nth_error mask (S i) with
      | Some t, Some nt =>
          let red1 := if is_truthy t && is_truthy nt
                      then (if isand then set_at i red else set_at (S i) red) else red in
          let red2 := if is_falsy t && is_falsy nt
                      then (if isand then set_at (S i) red1 else set_at i red1) else red1 in
          if is_falsy t && isand then set_from (S i) red2          (* break *)
          else
            let red3 := if is_falsy t && negb (is_falsy nt) && negb isand then set_at i red2 else red2 in
            let red4 := if is_truthy t && negb (is_truthy nt) && isand then set_at i red3 else red3 in
            rloop isand f (S i) mask red4
      | _, _ => red
      end
  end.

Definition redundant (isand : bool) (mask : list tri) : list bool :=
  rloop isand (length mask) 0 mask (map (fun _ => false) mask).

Fixpoint keep {X} (red : list bool) (l : list X) : list X :=
  match red, l with
  | r :: rt, x :: xt => if r then keep rt xt else x :: keep rt xt
  | _, _ => []
  end.

(* Python value of `a and b and ...` / `a or b or ...`: the deciding operand's value, and the list
   of operands evaluated (by id).  None for an empty operand list (cannot be written in Python). *)
Section BoolVal.
Variable V : Type.
Variable truth : V -> bool.
Fixpoint bool_val (isand : bool) (ops : list (nat * V)) : option V * list nat :=
  match ops with
  | [] => (None, [])
  | [(i, v)] => (Some v, [i])
  | (i, v) :: tl =>
      if Bool.eqb (truth v) isand
      then let '(r, t) := bool_val isand tl in (r, i :: t)
      else (Some v, [i])
  end.
Definition consistent (m : tri) (v : V) : Prop :=
  match m with Truthy => truth v = true | Falsy => truth v = false | Unknown => True end.
End BoolVal.

(* ---------------- closed forms of _sum_range ---------------- *)
(* sum(range(a, b)) is rewritten to ((b - 1) * b - (a - 1) * a) / 2  (true division) *)
Fixpoint sum_range_nat (a : Z) (n : nat) : Z :=   (* a + (a+1) + ... n terms *)
  match n with O => 0 | S n' => a + sum_range_nat (a + 1) n' end.
Definition sum_range (a b : Z) : Z := sum_range_nat a (Z.to_nat (b - a)).
(* twice the closed form (symbolic_math._sum_range; the start == 0 shortcut is the same formula) *)
Definition sum_range_closed2 (a b : Z) : Z := ((b - 1) * b - (a - 1) * a).

(* after the repair c4152d3: bounds that are literals and make the range empty give 0 *)
Definition sum_range_out2 (literal : bool) (a b : Z) : Z :=
  if literal && (b <? a) then 0 else sum_range_closed2 a b.

(* ---------------- correspondence plumbing ---------------- *)
Fixpoint cond_eqb (a b : cond) : bool :=
  match a, b with
  | CNot x, CNot y => cond_eqb x y
  | CCmp l1 o1 r1, CCmp l2 o2 r2 => Nat.eqb l1 l2 && cmpop_eqb o1 o2 && Nat.eqb r1 r2
  | CAtom i, CAtom j => Nat.eqb i j
  | CBool a1 v1, CBool a2 v2 =>
      Bool.eqb a1 a2 &&
      (fix go (l1 l2 : list cond) : bool :=
         match l1, l2 with
         | [], [] => true
         | x :: t1, y :: t2 => cond_eqb x y && go t1 t2
         | _, _ => false
         end) v1 v2
  | _, _ => false
  end.

Definition negate_case_ok (c : cond * cond) : bool := cond_eqb (negate (fst c)) (snd c).

Fixpoint bools_eqb (a b : list bool) : bool :=
  match a, b with
  | [], [] => true
  | x :: a', y :: b' => Bool.eqb x y && bools_eqb a' b'
  | _, _ => false
  end.
Definition redundant_case_ok (c : bool * list tri * list bool) : bool :=
  let '(isand, mask, expected) := c in bools_eqb (redundant isand mask) expected.
