(* K4 consumers -- proofs about ConstFoldModel: dead-branch removal, conditional-expression and
   comparison folding preserve the behaviour of the program; the truthy/falsy/unknown mask handed to
   BoolRwModel.redundant is consistent with Python's values, so BoundProofs.redundant_sound applies
   to Python values (transported along an encoding that is injective on the operands at hand). *)
From Coq Require Import List ZArith Bool String Lia.
Import ListNotations.
Require Import Pyrefact.Ops Pyrefact.PyValModel Pyrefact.LitValModel Pyrefact.LitValProofs Pyrefact.BoolRwModel Pyrefact.ConstFoldModel Pyrefact.BoundProofs.
Open Scope Z_scope.

(* ---------- T15.4 the consumers ---------- *)
Theorem dead_if_sound : forall env s ss, dead_if s = Some ss ->
  forall fuel rest, exec env (S fuel) (s :: rest) = exec env fuel (ss ++ rest).
Proof.
  intros env s ss H fuel rest. destruct s as [i | c b o | c b o]; cbn [dead_if] in H; [discriminate | |].
  - destruct (lv c) as [v | | k |] eqn:Hc; try discriminate. inversion H. subst ss.
    cbn [exec]. rewrite (lv_sound env c v Hc). reflexivity.
  - destruct (lv c) as [v | | k |] eqn:Hc; try discriminate.
    destruct (truthy v) eqn:Ht; [discriminate|]. destruct o; [| discriminate]. inversion H. subst ss.
    cbn [exec]. rewrite (lv_sound env c v Hc). rewrite Ht. reflexivity.
Qed.

Theorem dead_if_src_sound : forall env is_elif s ss, dead_if_src is_elif s = Some ss ->
  forall fuel rest, exec env (S fuel) (s :: rest) = exec env fuel (ss ++ rest).
Proof.
  intros env is_elif s ss H. apply dead_if_sound.
  destruct s; cbn [dead_if_src] in H; try exact H. destruct is_elif; [discriminate | exact H].
Qed.

Theorem unreachable_if_sound : forall env s ss, unreachable_if s = Some ss ->
  forall fuel rest, exec env (S fuel) (s :: rest) = exec env (S fuel) (ss ++ rest) \/
                    exec env (S fuel) (s :: rest) = exec env fuel (ss ++ rest).
Proof.
  intros env s ss H fuel rest. destruct s as [i | c b o | c b o]; cbn [unreachable_if] in H; [discriminate | |].
  - destruct (lv c) as [v | | k |] eqn:Hc; try discriminate.
    pose proof (lv_sound env c v Hc) as He.
    destruct (truthy v) eqn:Ht.
    + destruct b as [| s0 b'].
      * inversion H. subst ss. right. cbn [exec]. rewrite He, Ht. reflexivity.
      * inversion H. subst ss. left. cbn [exec app]. rewrite He, Ht. reflexivity.
    + destruct o as [| s0 o'].
      * inversion H. subst ss. right. cbn [exec]. rewrite He, Ht. reflexivity.
      * inversion H. subst ss. left. cbn [exec app]. rewrite He, Ht. reflexivity.
  - destruct (lv c) as [v | | k |] eqn:Hc; try discriminate.
    destruct (truthy v) eqn:Ht; [discriminate|]. destruct o; [| discriminate]. inversion H. subst ss.
    right. cbn [exec]. rewrite (lv_sound env c v Hc). rewrite Ht. reflexivity.
Qed.

Theorem fold_ifexp_sound : forall env e e', fold_ifexp e = Some e' -> eval env e = eval env e'.
Proof.
  intros env e e' H. destruct e; cbn [fold_ifexp] in H; try discriminate.
  destruct (lv e1) as [v | | k |] eqn:Hc; try discriminate. inversion H. subst e'.
  cbn [eval]. rewrite (lv_sound env e1 v Hc). cbn [bind]. destruct (truthy v); reflexivity.
Qed.

Theorem fold_bool_expr_sound : forall env e e', fold_bool_expr e = Some e' -> eval env e = eval env e'.
Proof.
  intros env e e' H. destruct e; cbn [fold_bool_expr] in H; try discriminate.
  - destruct o; try discriminate. destruct e; try discriminate. inversion H. subst e'. reflexivity.
  - destruct rest as [| [o b] [| p t]]; try discriminate.
    destruct (foldable_cmp o); [| discriminate].
    destruct (lv (ECmp e [(o, b)])) as [v | | k |] eqn:Hc; try discriminate. inversion H. subst e'.
    rewrite (lv_sound env _ v Hc). reflexivity.
Qed.

(* T15.5 the mask computed from literal_value is consistent with the operands' Python values, under
   every abstraction of values that respects truthiness *)
Lemma mask_consistent : forall (abs : val -> Z) (truth : Z -> bool),
  (forall v, truth (abs v) = truthy v) ->
  forall env es ws, Forall2 (fun e w => eval env e = Val w) es ws ->
  Forall2 (consistent Z truth) (mask_of es) (map abs ws).
Proof.
  intros abs truth Habs env es ws H. induction H as [| e w es' ws' He _ IH]; cbn [mask_of map]; [constructor|].
  constructor; [| exact IH].
  unfold tri_of. destruct (lv e) as [v | | k |] eqn:Hl; cbn [consistent]; try exact I.
  pose proof (lv_sound env e v Hl) as Hv. rewrite Hv in He. inversion He. subst w.
  destruct (truthy v) eqn:Ht; cbn [consistent]; rewrite Habs; exact Ht.
Qed.

Lemma forall2_length : forall {A B} (R : A -> B -> Prop) l m, Forall2 R l m -> List.length l = List.length m.
Proof. intros A B R l m H. induction H; cbn; [reflexivity | f_equal; assumption]. Qed.
Lemma map_fst_combine : forall {A B} (l : list A) (m : list B), List.length l = List.length m -> map fst (combine l m) = l.
Proof. intros A B l. induction l as [| x t IH]; intros m H; destruct m; try discriminate; [reflexivity|]. cbn. f_equal. apply IH. cbn in H. lia. Qed.
Lemma map_snd_combine : forall {A B} (l : list A) (m : list B), List.length l = List.length m -> map snd (combine l m) = m.
Proof. intros A B l. induction l as [| x t IH]; intros m H; destruct m; try discriminate; [reflexivity|]. cbn. f_equal. apply IH. cbn in H. lia. Qed.

Theorem redundant_mask_sound : forall (abs : val -> Z) (truth : Z -> bool),
  (forall v, truth (abs v) = truthy v) ->
  forall env isand es ws ids,
    Forall2 (fun e w => eval env e = Val w) es ws ->
    List.length ids = List.length ws -> NoDup ids -> es <> [] ->
    let mask := mask_of es in
    let ops := combine ids (map abs ws) in
    let kept := keep (redundant isand mask) ops in
    let unk := unknown_ids mask ops in
    kept <> [] /\
    fst (bool_val Z truth isand kept) = fst (bool_val Z truth isand ops) /\
    filter (fun i => existsb (Nat.eqb i) unk) (snd (bool_val Z truth isand kept)) =
    filter (fun i => existsb (Nat.eqb i) unk) (snd (bool_val Z truth isand ops)).
Proof.
  intros abs truth Habs env isand es ws ids HF Hlen Hnd Hne.
  pose proof (forall2_length _ _ _ HF) as Hl.
  assert (Hm : List.length ids = List.length (map abs ws)) by (rewrite map_length; exact Hlen).
  apply redundant_sound.
  - unfold mask_of. rewrite map_length, combine_length, map_length. lia.
  - destruct es as [| e es']; [contradiction|]. destruct ws as [| w ws']; [inversion HF|].
    destruct ids as [| i ids']; [discriminate|]. discriminate.
  - rewrite (map_fst_combine ids (map abs ws) Hm). exact Hnd.
  - rewrite (map_snd_combine ids (map abs ws) Hm). exact (mask_consistent abs truth Habs env es ws HF).
Qed.

(* ---- the same statement on Python VALUES (no abstraction): transport along an encoding that is
   injective on the operand values at hand ---- *)
Fixpoint val_eq_dec (a b : val) : {a = b} + {a <> b}.
Proof.
  decide equality; try apply Z.eq_dec; try apply Bool.bool_dec;
    try (apply list_eq_dec; apply Z.eq_dec); apply list_eq_dec; exact val_eq_dec.
Defined.

Fixpoint index_of (v : val) (ws : list val) : nat :=
  match ws with
  | [] => O
  | w :: t => if val_eq_dec v w then O else S (index_of v t)
  end.
Lemma nth_index_of : forall v ws, In v ws -> nth (index_of v ws) ws VNone = v.
Proof.
  intros v ws. induction ws as [| w t IH]; intros H; [contradiction|].
  cbn [index_of]. destruct (val_eq_dec v w) as [E | N]; [symmetry; exact E|].
  cbn [nth]. apply IH. destruct H as [H | H]; [congruence | exact H].
Qed.

Lemma keep_map : forall {X Y} (f : X -> Y) red l, keep red (map f l) = map f (keep red l).
Proof.
  intros X Y f red. induction red as [| r rt IH]; intros l; [reflexivity|].
  destruct l as [| x xt]; [reflexivity|]. cbn [keep map]. destruct r; [apply IH | cbn [map]; f_equal; apply IH].
Qed.

Lemma bool_val_map : forall (abs : val -> Z) (truth : Z -> bool) isand ops,
  (forall p, In p ops -> truth (abs (snd p)) = truthy (snd p)) ->
  bool_val Z truth isand (map (fun p => (fst p, abs (snd p))) ops) =
  (option_map abs (fst (bool_val val truthy isand ops)), snd (bool_val val truthy isand ops)).
Proof.
  intros abs truth isand ops. induction ops as [| [i v] t IH]; intros H; [reflexivity|].
  destruct t as [| q t'].
  - reflexivity.
  - change (bool_val val truthy isand ((i, v) :: q :: t')) with
      (if Bool.eqb (truthy v) isand
       then let '(r, tr) := bool_val val truthy isand (q :: t') in (r, i :: tr)
       else (Some v, [i])).
    change (bool_val Z truth isand (map (fun p => (fst p, abs (snd p))) ((i, v) :: q :: t'))) with
      (if Bool.eqb (truth (abs v)) isand
       then let '(r, tr) := bool_val Z truth isand (map (fun p => (fst p, abs (snd p))) (q :: t')) in (r, i :: tr)
       else (Some (abs v), [i])).
    pose proof (H (i, v) (or_introl eq_refl)) as Hiv. cbn [snd] in Hiv. rewrite Hiv.
    destruct (Bool.eqb (truthy v) isand); [| reflexivity].
    rewrite IH by (intros p Hp; apply H; right; exact Hp).
    destruct (bool_val val truthy isand (q :: t')) as [r tr]. reflexivity.
Qed.

Lemma combine_map_r : forall {A B C} (f : B -> C) (l : list A) (m : list B),
  combine l (map f m) = map (fun p => (fst p, f (snd p))) (combine l m).
Proof. intros A B C f l. induction l as [| x t IH]; intros m; destruct m; try reflexivity. cbn. f_equal. apply IH. Qed.

Lemma in_combine_snd : forall {A B} (l : list A) (m : list B) p, In p (combine l m) -> In (snd p) m.
Proof. intros A B l m [a b] H. apply in_combine_r in H. exact H. Qed.

Lemma in_keep : forall {X} red (l : list X) x, In x (keep red l) -> In x l.
Proof.
  intros X red. induction red as [| r rt IH]; intros l x H; [contradiction|].
  destruct l as [| y t]; [contradiction|]. cbn [keep] in H. destruct r.
  - right. exact (IH t x H).
  - destruct H as [H | H]; [left; exact H | right; exact (IH t x H)].
Qed.

Lemma mask_consistent_on : forall (abs : val -> Z) (truth : Z -> bool) env es ws,
  (forall w, In w ws -> truth (abs w) = truthy w) ->
  Forall2 (fun e w => eval env e = Val w) es ws ->
  Forall2 (consistent Z truth) (mask_of es) (map abs ws).
Proof.
  intros abs truth env es ws Habs HF. revert Habs.
  induction HF as [| e w es' ws' He _ IH]; intros Habs; cbn [mask_of map]; [constructor|].
  constructor.
  - unfold tri_of. destruct (lv e) as [v | | k |] eqn:Hl; cbn [consistent]; try exact I.
    pose proof (lv_sound env e v Hl) as Hv. rewrite Hv in He. inversion He. subst w.
    destruct (truthy v) eqn:Ht; cbn [consistent]; rewrite (Habs v (or_introl eq_refl)); exact Ht.
  - apply IH. intros w0 Hw0. apply Habs. right. exact Hw0.
Qed.

Lemma bool_val_fst_in : forall V (truth : V -> bool) isand ops v,
  fst (bool_val V truth isand ops) = Some v -> exists i, In (i, v) ops.
Proof.
  intros V truth isand ops. induction ops as [| [i w] t IH]; intros v H; [discriminate|].
  destruct t as [| q t'].
  - cbn in H. inversion H. subst. exists i. left. reflexivity.
  - change (bool_val V truth isand ((i, w) :: q :: t')) with
      (if Bool.eqb (truth w) isand
       then let '(r, tr) := bool_val V truth isand (q :: t') in (r, i :: tr)
       else (Some w, [i])) in H.
    destruct (Bool.eqb (truth w) isand).
    + destruct (bool_val V truth isand (q :: t')) as [r tr] eqn:E. cbn [fst] in H.
      destruct (IH v H) as [j Hj]. exists j. right. exact Hj.
    + cbn [fst] in H. inversion H. subst. exists i. left. reflexivity.
Qed.

Lemma unknown_ids_nth : forall mask (opsZ : list (nat * Z)) i id,
  nth_error mask i = Some Unknown -> (exists z, nth_error opsZ i = Some (id, z)) -> In id (unknown_ids mask opsZ).
Proof.
  intros mask. induction mask as [| m mt IH]; intros opsZ i id Hm [z Ho]; [destruct i; discriminate|].
  destruct opsZ as [| [j y] ot]; [destruct i; discriminate|].
  destruct i as [| i'].
  - cbn in Hm, Ho. inversion Hm. inversion Ho. subst. cbn. left. reflexivity.
  - cbn [nth_error] in Hm, Ho. destruct m; cbn [unknown_ids]; try (apply (IH ot i' id Hm); exists z; exact Ho).
    right. apply (IH ot i' id Hm). exists z. exact Ho.
Qed.

Theorem redundant_values_sound :
  forall env isand es ws ids,
    Forall2 (fun e w => eval env e = Val w) es ws ->
    List.length ids = List.length ws -> NoDup ids -> es <> [] ->
    let mask := mask_of es in
    let ops := combine ids ws in
    let kept := keep (redundant isand mask) ops in
    kept <> [] /\
    fst (bool_val val truthy isand kept) = fst (bool_val val truthy isand ops) /\
    forall i, nth_error mask i = Some Unknown -> forall id, nth_error ids i = Some id ->
      (In id (snd (bool_val val truthy isand kept)) <-> In id (snd (bool_val val truthy isand ops))).
Proof.
  intros env isand es ws ids HF Hlen Hnd Hne mask ops kept.
  set (abs := fun v => Z.of_nat (index_of v ws)).
  set (truth := fun z => truthy (nth (Z.to_nat z) ws VNone)).
  assert (Habs : forall w, In w ws -> truth (abs w) = truthy w).
  { intros w Hw. unfold truth, abs. rewrite Nat2Z.id. rewrite (nth_index_of w ws Hw). reflexivity. }
  assert (Hinj : forall a b, In a ws -> In b ws -> abs a = abs b -> a = b).
  { intros a b Ha Hb E. unfold abs in E. apply Nat2Z.inj in E.
    rewrite <- (nth_index_of a ws Ha), <- (nth_index_of b ws Hb), E. reflexivity. }
  assert (Hcons : Forall2 (consistent Z truth) mask (map abs ws))
    by exact (mask_consistent_on abs truth env es ws Habs HF).
  pose proof (forall2_length _ _ _ HF) as Hl.
  assert (Hm : List.length ids = List.length (map abs ws)) by (rewrite map_length; exact Hlen).
  assert (HopsZ : combine ids (map abs ws) = map (fun p => (fst p, abs (snd p))) ops) by apply combine_map_r.
  assert (Hne' : combine ids (map abs ws) <> []).
  { destruct es as [| e es']; [contradiction|]. destruct ws as [| w ws']; [inversion HF|].
    destruct ids as [| i ids']; [discriminate|]. discriminate. }
  destruct (redundant_sound truth isand mask (combine ids (map abs ws))) as [Hk [Hv Ht]].
  - unfold mask, mask_of. rewrite map_length, combine_length, map_length. lia.
  - exact Hne'.
  - rewrite (map_fst_combine ids (map abs ws) Hm). exact Hnd.
  - rewrite (map_snd_combine ids (map abs ws) Hm). exact Hcons.
  - rewrite HopsZ in Hk, Hv, Ht. rewrite keep_map in Hk, Hv, Ht.
    assert (Hops_in : forall p, In p ops -> truth (abs (snd p)) = truthy (snd p)).
    { intros p Hp. apply Habs. exact (in_combine_snd ids ws p Hp). }
    assert (Hkept_in : forall p, In p kept -> truth (abs (snd p)) = truthy (snd p)).
    { intros p Hp. apply Hops_in. exact (in_keep _ _ _ Hp). }
    pose proof (bool_val_map abs truth isand kept Hkept_in) as E1. unfold kept in E1.
    rewrite E1 in Hv, Ht. clear E1.
    rewrite (bool_val_map abs truth isand ops Hops_in) in Hv, Ht.
    cbn [fst snd] in Hv, Ht.
    split; [| split].
    + intros E. apply Hk. fold kept. rewrite E. reflexivity.
    + (* values: the encoding is injective on ws *)
      fold kept in Hv.
      destruct (fst (bool_val val truthy isand kept)) as [a |] eqn:Ea;
        destruct (fst (bool_val val truthy isand ops)) as [b |] eqn:Eb; cbn [option_map] in Hv; try discriminate; [| reflexivity].
      inversion Hv as [Hab]. f_equal.
      destruct (bool_val_fst_in _ _ _ _ _ Ea) as [i Hi]. destruct (bool_val_fst_in _ _ _ _ _ Eb) as [j Hj].
      apply Hinj; [| | exact Hab].
      * exact (in_combine_snd ids ws (i, a) (in_keep _ _ _ Hi)).
      * exact (in_combine_snd ids ws (j, b) Hj).
    + intros i Hmi id Hid. fold kept in Ht.
      assert (Hp : existsb (Nat.eqb id) (unknown_ids mask (map (fun p => (fst p, abs (snd p))) ops)) = true).
      { apply existsb_exists. exists id. split; [| apply Nat.eqb_refl].
        rewrite <- HopsZ. apply (unknown_ids_nth mask (combine ids (map abs ws)) i id Hmi).
        clear -Hid Hm. revert i Hid Hm. generalize (map abs ws). induction ids as [| x t IH]; intros l i Hid Hm.
        - destruct i; discriminate.
        - destruct l as [| z l']; [discriminate|]. destruct i as [| i'].
          + cbn in Hid. inversion Hid. subst. exists z. reflexivity.
          + cbn in Hid. cbn in Hm. cbn [combine nth_error]. apply (IH l' i' Hid). lia. }
      split; intros Hin.
      * assert (Hf : In id (filter (fun i0 => existsb (Nat.eqb i0) (unknown_ids mask (map (fun p => (fst p, abs (snd p))) ops)))
                              (snd (bool_val val truthy isand kept)))) by (apply filter_In; split; assumption).
        rewrite Ht in Hf. apply filter_In in Hf. exact (proj1 Hf).
      * assert (Hf : In id (filter (fun i0 => existsb (Nat.eqb i0) (unknown_ids mask (map (fun p => (fst p, abs (snd p))) ops)))
                              (snd (bool_val val truthy isand ops)))) by (apply filter_In; split; assumption).
        rewrite <- Ht in Hf. apply filter_In in Hf. exact (proj1 Hf).
Qed.
