(* C02, tranche "perf": iteration rules of pyrefact/performance.py
     remove_redundant_iter, optimize_contains_types, replace_sorted_heapq
   Reference semantics (a definition, validated against CPython by harness/c02_perf.py) of a fragment with
   integers, lists with identity (a store), immutable tuples, one-shot iterators (position in the store),
   opaque producers (generator functions g<k>() whose elements come from a world W and whose every step is an
   event), and the models of the rules as the code is (after the repairs 5ea8100 32fac44 2835a2e 608b244 cf0e3b9).
   No proofs in this file. *)
From Coq Require Import List ZArith Bool Lia.
From Pyrefact Require Import Base.
Import ListNotations.
Open Scope Z_scope.

Definition name := nat.
(* names 0..6 are printed as the builtins, names >= 8 as v<n> *)
Definition N_LIST : name := 0%nat.
Definition N_TUPLE : name := 1%nat.
Definition N_ITER : name := 2%nat.
Definition N_SORTED : name := 3%nat.
Definition N_MIN : name := 4%nat.
Definition N_MAX : name := 5%nat.
Definition N_REVERSED : name := 6%nat.

Inductive fn := FList | FTuple | FIter.
Definition fn_name (f : fn) : name := match f with FList => N_LIST | FTuple => N_TUPLE | FIter => N_ITER end.

Inductive atom := AInt (z : Z) | ANone | AVar (x : name).

Inductive expr :=
| EAtom (a : atom)
| EDisp (zs : list Z)                 (* [1, 2] *)
| ETupD (zs : list Z)                 (* (1, 2) *)
| EGen (k : nat)                      (* g<k>() : a new generator *)
| ECall (f : fn) (e : expr)           (* list(e) tuple(e) iter(e) *)
| ESorted (k : bool) (e : expr)       (* sorted(e) / sorted(e, key=abs) *)
| EMin (k : bool) (e : expr)
| EMax (k : bool) (e : expr)
| EIn (a : atom) (e : expr)           (* a in e *)
| EInSet (a : atom) (zs : list Z)     (* a in {1, 2} *)
| EIdx0 (e : expr)                    (* e[0] *)
| EIdxL (e : expr)                    (* e[-1] *)
| ESliceTo (e : expr) (n : atom)      (* e[:n] *)
| ESliceFrom (e : expr) (n : atom)    (* e[-n:] *)
| ENsm (n : atom) (k : bool) (e : expr)     (* heapq.nsmallest(n, e[, key=abs]) *)
| ERevNl (n : atom) (k : bool) (e : expr)   (* list(reversed(heapq.nlargest(n, e[, key=abs]))) *)
| EComp (e : expr)                    (* [c for c in e] *)
| EGenx (e : expr).                   (* (c for c in e) *)

Inductive simple :=
| SAssign (x : name) (e : expr)
| SPrint (e : expr)
| SExpr (e : expr)
| SAppend (x : name) (a : atom)       (* x.append(a) *)
| SRemove (x : name) (a : atom).      (* x.remove(a) *)

Inductive stmt := SS (s : simple) | SFor (x : name) (e : expr) (body : list simple).
Definition prog := list stmt.

(* ---------------------------------------------------------------- values, store *)
Inductive src := SList (l : nat) | SSnap (zs : list Z) | SGen (k : nat).
Inductive val :=
| VInt (z : Z) | VBool (b : bool) | VNone
| VTup (zs : list Z)
| VNewList (zs : list Z)              (* a list nobody else has a reference to (yet) *)
| VList (l : nat)                     (* a list in the store *)
| VNewIter (s : src) (p : nat)        (* an iterator nobody else has a reference to (yet) *)
| VIter (i : nat).                    (* an iterator in the store *)
Inductive rval := RInt (z : Z) | RBool (b : bool) | RNone | RTup (zs : list Z) | RList (zs : list Z) | RIter.
Inductive event := EvPrint (r : rval) | EvPull (k i : nat) | EvDone (k : nat).
Inductive exc := TypeErr | IndexErr | ValueErr | NameErr | AttrErr | Stuck | OutOfFuel.

Record heap := mkHeap { lists : list (list Z); iters : list (src * nat * bool); tr : list event }.
Definition env := list (name * val).
Definition empty_heap := mkHeap [] [] [].

Inductive res (A : Type) := Ok (a : A) (h : heap) | Err (x : exc) (h : heap).
Arguments Ok {A}. Arguments Err {A}.

Fixpoint lookup (en : env) (x : name) : option val :=
  match en with [] => None | (y, v) :: t => if Nat.eqb x y then Some v else lookup t x end.
Definition set_var (en : env) (x : name) (v : val) : env := (x, v) :: en.
Definition bound (en : env) (x : name) : bool := match lookup en x with Some _ => true | None => false end.

Fixpoint set_nth {A} (l : list A) (i : nat) (a : A) : list A :=
  match l, i with
  | [], _ => []
  | _ :: t, O => a :: t
  | b :: t, S j => b :: set_nth t j a
  end.

Definition getl (h : heap) (l : nat) : list Z := nth l (lists h) [].
Definition emit (h : heap) (evs : list event) : heap := mkHeap (lists h) (iters h) (tr h ++ evs).
Definition set_list (h : heap) (l : nat) (zs : list Z) : heap := mkHeap (set_nth (lists h) l zs) (iters h) (tr h).
Definition set_iter (h : heap) (i : nat) (c : src * nat * bool) : heap := mkHeap (lists h) (set_nth (iters h) i c) (tr h).

Definition keyf (k : bool) (z : Z) : Z := if k then Z.abs z else z.
Fixpoint insert (k : bool) (x : Z) (l : list Z) : list Z :=
  match l with
  | [] => [x]
  | y :: t => if keyf k x <=? keyf k y then x :: y :: t else y :: insert k x t
  end.
Definition isort (k : bool) (l : list Z) : list Z := fold_right (insert k) [] l.
(* the first minimal / the first maximal element *)
Fixpoint minby (k : bool) (l : list Z) : option Z :=
  match l with
  | [] => None
  | x :: t => match minby k t with None => Some x | Some m => if keyf k x <=? keyf k m then Some x else Some m end
  end.
Fixpoint maxby (k : bool) (l : list Z) : option Z :=
  match l with
  | [] => None
  | x :: t => match maxby k t with None => Some x | Some m => if keyf k m <=? keyf k x then Some x else Some m end
  end.

Definition veq (v : val) (z : Z) : bool :=
  match v with VInt a => a =? z | VBool b => (if b then 1 else 0) =? z | _ => false end.
Fixpoint find_idx (v : val) (l : list Z) : option nat :=
  match l with [] => None | z :: t => if veq v z then Some O else option_map S (find_idx v t) end.
Fixpoint remove_first (v : val) (l : list Z) : option (list Z) :=
  match l with
  | [] => None
  | z :: t => if veq v z then Some t else option_map (cons z) (remove_first v t)
  end.

Inductive itref := IStored (i : nat) | ILocal (s : src) (p : nat).
Definition to_itref (v : val) : option itref :=
  match v with
  | VTup zs | VNewList zs => Some (ILocal (SSnap zs) 0)
  | VList l => Some (ILocal (SList l) 0)
  | VNewIter s p => Some (ILocal s p)
  | VIter i => Some (IStored i)
  | _ => None
  end.
Definition of_itref (it : itref) : val := match it with ILocal s p => VNewIter s p | IStored i => VIter i end.

(* Python index values: int, bool; None only in slices *)
Definition as_index (v : val) : option (option Z) :=
  match v with VInt z => Some (Some z) | VBool b => Some (Some (if b then 1 else 0)) | VNone => Some None | _ => None end.
Definition slice_to (zs : list Z) (z : Z) : list Z :=
  if 0 <=? z then firstn (Z.to_nat z) zs else firstn (length zs - Z.to_nat (- z)) zs.
(* zs[-n:] *)
Definition slice_from_neg (zs : list Z) (n : Z) : list Z :=
  if 0 <? n then skipn (length zs - Z.to_nat n) zs else skipn (Z.to_nat (- n)) zs.

Definition unhashable (v : val) : bool := match v with VList _ | VNewList _ => true | _ => false end.

Section Sem.
Variable W : nat -> list Z.       (* what generator function g<k> yields *)

Definition rest (h : heap) (s : src) (p : nat) : list Z :=
  match s with SList l => skipn p (getl h l) | SSnap zs => skipn p zs | SGen k => skipn p (W k) end.

Definition consume_local (h : heap) (s : src) (p n : nat) (ex : bool) : heap :=
  match s with
  | SGen k => emit h (map (EvPull k) (seq p n) ++ (if ex then [EvDone k] else []))
  | _ => h
  end.

Definition view (h : heap) (it : itref) : option (src * nat) :=
  match it with
  | ILocal s p => Some (s, p)
  | IStored i => match nth_error (iters h) i with Some (s, p, false) => Some (s, p) | _ => None end
  end.

Definition advance (h : heap) (it : itref) (n : nat) (ex : bool) : heap :=
  match it with
  | ILocal s p => consume_local h s p n ex
  | IStored i =>
      match nth_error (iters h) i with
      | Some (s, p, false) => set_iter (consume_local h s p n ex) i (s, (p + n)%nat, ex)
      | _ => h
      end
  end.

Definition drain (h : heap) (it : itref) : list Z * heap :=
  match view h it with
  | None => ([], h)
  | Some (s, p) => let r := rest h s p in (r, advance h it (length r) true)
  end.

Definition scan (va : val) (h : heap) (it : itref) : bool * heap :=
  match view h it with
  | None => (false, h)
  | Some (s, p) =>
      let r := rest h s p in
      match find_idx va r with
      | Some j => (true, advance h it (S j) false)
      | None => (false, advance h it (length r) true)
      end
  end.

Definition next (h : heap) (it : itref) : option Z * heap * itref :=
  match view h it with
  | None => (None, h, it)
  | Some (s, p) =>
      match rest h s p with
      | [] => (None, advance h it 0 true, it)
      | z :: _ => (Some z, advance h it 1 false, match it with ILocal s0 p0 => ILocal s0 (S p0) | _ => it end)
      end
  end.

Definition atomv (en : env) (a : atom) : option val :=
  match a with AInt z => Some (VInt z) | ANone => Some VNone | AVar x => lookup en x end.

Definition as_seq (h : heap) (v : val) : option (bool * list Z) :=
  match v with
  | VTup zs => Some (true, zs)
  | VNewList zs => Some (false, zs)
  | VList l => Some (false, getl h l)
  | _ => None
  end.
Definition mk_seq (t : bool) (zs : list Z) : val := if t then VTup zs else VNewList zs.

Definition call (f : fn) (v : val) (h : heap) : res val :=
  match to_itref v with
  | None => Err TypeErr h
  | Some it =>
      match f with
      | FList => let (zs, h') := drain h it in Ok (VNewList zs) h'
      | FTuple => let (zs, h') := drain h it in Ok (VTup zs) h'
      | FIter => Ok (of_itref it) h
      end
  end.

(* drain the value of an argument, then continue *)
Definition with_items (v : val) (h : heap) (k : list Z -> heap -> res val) : res val :=
  match to_itref v with
  | None => Err TypeErr h
  | Some it => let (zs, h') := drain h it in k zs h'
  end.

Definition nlargest_rev (k : bool) (z : Z) (zs : list Z) : list Z :=
  rev (firstn (Z.to_nat z) (rev (isort k (rev zs)))).

Fixpoint eval (en : env) (e : expr) (h : heap) : res val :=
  match e with
  | EAtom a => match atomv en a with Some v => Ok v h | None => Err NameErr h end
  | EDisp zs => Ok (VNewList zs) h
  | ETupD zs => Ok (VTup zs) h
  | EGen k => Ok (VNewIter (SGen k) 0) h
  | ECall f e1 =>
      match eval en e1 h with
      | Err x h1 => Err x h1
      | Ok v h1 => if bound en (fn_name f) then Err TypeErr h1 else call f v h1
      end
  | ESorted k e1 =>
      match eval en e1 h with
      | Err x h1 => Err x h1
      | Ok v h1 => if bound en N_SORTED then Err TypeErr h1
                   else with_items v h1 (fun zs h2 => Ok (VNewList (isort k zs)) h2)
      end
  | EMin k e1 =>
      match eval en e1 h with
      | Err x h1 => Err x h1
      | Ok v h1 => if bound en N_MIN then Err TypeErr h1
                   else with_items v h1 (fun zs h2 =>
                          match minby k zs with Some m => Ok (VInt m) h2 | None => Err ValueErr h2 end)
      end
  | EMax k e1 =>
      match eval en e1 h with
      | Err x h1 => Err x h1
      | Ok v h1 => if bound en N_MAX then Err TypeErr h1
                   else with_items v h1 (fun zs h2 =>
                          match maxby k zs with Some m => Ok (VInt m) h2 | None => Err ValueErr h2 end)
      end
  | EIn a e1 =>
      match atomv en a with
      | None => Err NameErr h
      | Some va =>
          match eval en e1 h with
          | Err x h1 => Err x h1
          | Ok v h1 =>
              match to_itref v with
              | None => Err TypeErr h1
              | Some it => let (b, h2) := scan va h1 it in Ok (VBool b) h2
              end
          end
      end
  | EInSet a zs =>
      match atomv en a with
      | None => Err NameErr h
      | Some va => if unhashable va then Err TypeErr h else Ok (VBool (existsb (veq va) zs)) h
      end
  | EIdx0 e1 =>
      match eval en e1 h with
      | Err x h1 => Err x h1
      | Ok v h1 =>
          match as_seq h1 v with
          | None => Err TypeErr h1
          | Some (_, zs) => match zs with z :: _ => Ok (VInt z) h1 | [] => Err IndexErr h1 end
          end
      end
  | EIdxL e1 =>
      match eval en e1 h with
      | Err x h1 => Err x h1
      | Ok v h1 =>
          match as_seq h1 v with
          | None => Err TypeErr h1
          | Some (_, zs) => match rev zs with z :: _ => Ok (VInt z) h1 | [] => Err IndexErr h1 end
          end
      end
  | ESliceTo e1 n =>
      match eval en e1 h with
      | Err x h1 => Err x h1
      | Ok v h1 =>
          match atomv en n with
          | None => Err NameErr h1
          | Some vn =>
              match as_seq h1 v, as_index vn with
              | Some (t, zs), Some (Some z) => Ok (mk_seq t (slice_to zs z)) h1
              | Some (t, zs), Some None => Ok (mk_seq t zs) h1
              | _, _ => Err TypeErr h1
              end
          end
      end
  | ESliceFrom e1 n =>
      match eval en e1 h with
      | Err x h1 => Err x h1
      | Ok v h1 =>
          match atomv en n with
          | None => Err NameErr h1
          | Some vn =>
              match as_seq h1 v, as_index vn with
              | Some (t, zs), Some (Some z) => Ok (mk_seq t (slice_from_neg zs z)) h1
              | _, _ => Err TypeErr h1
              end
          end
      end
  | ENsm n k e1 =>
      match atomv en n with
      | None => Err NameErr h
      | Some vn =>
          match eval en e1 h with
          | Err x h1 => Err x h1
          | Ok v h1 =>
              match as_index vn, to_itref v with
              | Some (Some z), Some it =>
                  if z <=? 0 then Ok (VNewList []) h1
                  else let (zs, h2) := drain h1 it in Ok (VNewList (firstn (Z.to_nat z) (isort k zs))) h2
              | _, _ => Err TypeErr h1
              end
          end
      end
  | ERevNl n k e1 =>
      match atomv en n with
      | None => Err NameErr h
      | Some vn =>
          match eval en e1 h with
          | Err x h1 => Err x h1
          | Ok v h1 =>
              match as_index vn, to_itref v with
              | Some (Some z), Some it =>
                  if z <=? 0 then (if bound en N_LIST || bound en N_REVERSED then Err TypeErr h1 else Ok (VNewList []) h1)
                  else let (zs, h2) := drain h1 it in
                       if bound en N_LIST || bound en N_REVERSED then Err TypeErr h2
                       else Ok (VNewList (nlargest_rev k z zs)) h2
              | _, _ => Err TypeErr h1
              end
          end
      end
  | EComp e1 =>
      match eval en e1 h with
      | Err x h1 => Err x h1
      | Ok v h1 => with_items v h1 (fun zs h2 => Ok (VNewList zs) h2)
      end
  | EGenx e1 =>
      match eval en e1 h with
      | Err x h1 => Err x h1
      | Ok v h1 => match to_itref v with None => Err TypeErr h1 | Some it => Ok (of_itref it) h1 end
      end
  end.

Definition render (h : heap) (v : val) : rval :=
  match v with
  | VInt z => RInt z | VBool b => RBool b | VNone => RNone
  | VTup zs => RTup zs | VNewList zs => RList zs | VList l => RList (getl h l)
  | VNewIter _ _ | VIter _ => RIter
  end.

(* binding a new object to a name gives it an identity *)
Definition bindv (h : heap) (v : val) : val * heap :=
  match v with
  | VNewList zs => (VList (length (lists h)), mkHeap (lists h ++ [zs]) (iters h) (tr h))
  | VNewIter s p => (VIter (length (iters h)), mkHeap (lists h) (iters h ++ [(s, p, false)]) (tr h))
  | _ => (v, h)
  end.

Definition outcome := (option exc * env * heap)%type.

Definition exec_simple (en : env) (s : simple) (h : heap) : outcome :=
  match s with
  | SAssign x e =>
      match eval en e h with
      | Err ex h1 => (Some ex, en, h1)
      | Ok v h1 => let (v', h2) := bindv h1 v in (None, set_var en x v', h2)
      end
  | SPrint e =>
      match eval en e h with
      | Err ex h1 => (Some ex, en, h1)
      | Ok v h1 => (None, en, emit h1 [EvPrint (render h1 v)])
      end
  | SExpr e =>
      match eval en e h with
      | Err ex h1 => (Some ex, en, h1)
      | Ok _ h1 => (None, en, h1)
      end
  | SAppend x a =>
      match lookup en x with
      | None => (Some NameErr, en, h)
      | Some (VList l) =>
          match atomv en a with
          | None => (Some NameErr, en, h)
          | Some (VInt z) => (None, en, set_list h l (getl h l ++ [z]))
          | Some _ => (Some Stuck, en, h)
          end
      | Some _ => (Some AttrErr, en, h)
      end
  | SRemove x a =>
      match lookup en x with
      | None => (Some NameErr, en, h)
      | Some (VList l) =>
          match atomv en a with
          | None => (Some NameErr, en, h)
          | Some va =>
              match remove_first va (getl h l) with
              | Some zs => (None, en, set_list h l zs)
              | None => (Some ValueErr, en, h)
              end
          end
      | Some _ => (Some AttrErr, en, h)
      end
  end.

Fixpoint exec_body (en : env) (b : list simple) (h : heap) : outcome :=
  match b with
  | [] => (None, en, h)
  | s :: t =>
      match exec_simple en s h with
      | (Some ex, en1, h1) => (Some ex, en1, h1)
      | (None, en1, h1) => exec_body en1 t h1
      end
  end.

Fixpoint loop (fuel : nat) (x : name) (body : list simple) (en : env) (h : heap) (it : itref) : outcome :=
  match fuel with
  | O => (Some OutOfFuel, en, h)
  | S f =>
      match next h it with
      | (None, h1, _) => (None, en, h1)
      | (Some z, h1, it') =>
          match exec_body (set_var en x (VInt z)) body h1 with
          | (Some ex, en2, h2) => (Some ex, en2, h2)
          | (None, en2, h2) => loop f x body en2 h2 it'
          end
      end
  end.

(* the value a loop or comprehension iterates over, as an iterator reference *)
Definition eval_it (en : env) (e : expr) (h : heap) : res itref :=
  match eval en e h with
  | Err x h1 => Err x h1
  | Ok v h1 => match to_itref v with None => Err TypeErr h1 | Some it => Ok it h1 end
  end.

Definition exec_stmt (fuel : nat) (en : env) (st : stmt) (h : heap) : outcome :=
  match st with
  | SS s => exec_simple en s h
  | SFor x e body =>
      match eval_it en e h with
      | Err ex h1 => (Some ex, en, h1)
      | Ok it h1 => loop fuel x body en h1 it
      end
  end.

Fixpoint exec_prog (fuel : nat) (en : env) (p : prog) (h : heap) : outcome :=
  match p with
  | [] => (None, en, h)
  | st :: t =>
      match exec_stmt fuel en st h with
      | (Some ex, en1, h1) => (Some ex, en1, h1)
      | (None, en1, h1) => exec_prog fuel en1 t h1
      end
  end.

(* a module starts with no global bound and an empty store *)
Definition run (fuel : nat) (p : prog) : outcome := exec_prog fuel [] p empty_heap.

End Sem.

(* ---------------------------------------------------------------- the guards of the rules *)
Definition binds_simple (n : name) (s : simple) : bool :=
  match s with SAssign x _ => Nat.eqb x n | _ => false end.
Definition binds_stmt (n : name) (st : stmt) : bool :=
  match st with
  | SS s => binds_simple n s
  | SFor x _ body => Nat.eqb x n || existsb (binds_simple n) body
  end.
(* performance._rebound_names *)
Definition rebound (p : prog) (n : name) : bool := existsb (binds_stmt n) p.

Definition assigns_simple (x : name) (s : simple) : list expr :=
  match s with SAssign y e => if Nat.eqb y x then [e] else [] | _ => [] end.
Definition assigns_stmt (x : name) (st : stmt) : list expr :=
  match st with SS s => assigns_simple x s | SFor _ _ body => flat_map (assigns_simple x) body end.
Definition assigns (x : name) (p : prog) : list expr := flat_map (assigns_stmt x) p.
(* bindings of the name that are not assignments: loop targets *)
Definition fortarget (x : name) (st : stmt) : bool := match st with SFor y _ _ => Nat.eqb y x | _ => false end.

(* performance._is_collection without its Name case / _is_immutable_collection *)
Definition is_coll_head (p : prog) (e : expr) : bool :=
  match e with
  | EDisp _ | ETupD _ | EComp _ => true
  | ECall FList _ | ERevNl _ _ _ => negb (rebound p N_LIST)
  | ECall FTuple _ => negb (rebound p N_TUPLE)
  | ESorted _ _ => negb (rebound p N_SORTED)
  | _ => false
  end.
Definition is_imm_head (p : prog) (e : expr) : bool :=
  match e with
  | ETupD _ => true
  | ECall FTuple _ => negb (rebound p N_TUPLE)
  | _ => false
  end.
(* the Name case: every binding of x is an assignment of a collection (of an immutable one unless mut) *)
Definition collvar (mut : bool) (p : prog) (x : name) : bool :=
  let vs := assigns x p in
  match vs with [] => false | _ => true end
  && negb (existsb (fortarget x) p)
  && forallb (fun v => is_coll_head p v && (mut || is_imm_head p v)) vs.
Definition is_coll (mut : bool) (p : prog) (e : expr) : bool :=
  is_coll_head p e || match e with EAtom (AVar x) => collvar mut p x | _ => false end.

(* ---------------------------------------------------------------- generic traversal *)
Section Map.
Variable fe : expr -> expr.       (* applied to every expression that a statement evaluates *)
Variable fi : expr -> expr.       (* applied to what a for statement iterates over *)
Definition map_simple (s : simple) : simple :=
  match s with
  | SAssign x e => SAssign x (fe e)
  | SPrint e => SPrint (fe e)
  | SExpr e => SExpr (fe e)
  | _ => s
  end.
Definition map_stmt (st : stmt) : stmt :=
  match st with
  | SS s => SS (map_simple s)
  | SFor x e body => SFor x (fi e) (map map_simple body)
  end.
End Map.

(* ---------------------------------------------------------------- remove_redundant_iter *)
(* [any]: the rule before 32fac44 (every argument); [mut]: the rule before 608b244 (names of mutable collections) *)
Fixpoint strip_with (any mut : bool) (p : prog) (e : expr) : expr :=
  match e with
  | ECall FIter a => if rebound p N_ITER then e else strip_with any mut p a
  | ECall f a => if negb (rebound p (fn_name f)) && (any || is_coll mut p a) then strip_with any mut p a else e
  | _ => e
  end.

Fixpoint rri_expr_with (any mut : bool) (p : prog) (e : expr) : expr :=
  let r := rri_expr_with any mut p in
  match e with
  | ECall f a => ECall f (r a)
  | ESorted k a => ESorted k (r a)
  | EMin k a => EMin k (r a)
  | EMax k a => EMax k (r a)
  | EIn x a => EIn x (r a)
  | EIdx0 a => EIdx0 (r a)
  | EIdxL a => EIdxL (r a)
  | ESliceTo a n => ESliceTo (r a) n
  | ESliceFrom a n => ESliceFrom (r a) n
  | ENsm n k a => ENsm n k (r a)
  | ERevNl n k a => ERevNl n k (r a)
  | EComp a => EComp (strip_with any mut p (r a))
  | EGenx a => EGenx (strip_with any mut p (r a))
  | _ => e
  end.

Definition rri_with (any mut : bool) (p : prog) : prog :=
  map (map_stmt (rri_expr_with any mut p) (fun e => strip_with any mut p (rri_expr_with any mut p e))) p.
Definition rri := rri_with false false.
Definition rri_before_608b244 := rri_with false true.
Definition rri_before_32fac44 := rri_with true true.

(* ---------------------------------------------------------------- optimize_contains_types *)
(* [sets]: displays become set displays; [any]: the rule before 2835a2e / cf0e3b9 (every argument) *)
Fixpoint oct_rhs (sets any : bool) (p : prog) (a : atom) (c : expr) : expr :=
  match c with
  | ECall f c1 => if negb (rebound p (fn_name f)) && (any || is_coll true p c1) then oct_rhs sets any p a c1 else EIn a c
  | ESorted false c1 => if negb (rebound p N_SORTED) && (any || is_coll true p c1) then oct_rhs sets any p a c1 else EIn a c
  | EDisp zs | ETupD zs => if sets then EInSet a zs else EIn a c
  | EComp c1 => if any || is_coll true p c1 then EIn a (EGenx c1) else EIn a c
  | _ => EIn a c
  end.

Fixpoint oct_expr (sets any : bool) (p : prog) (e : expr) : expr :=
  let r := oct_expr sets any p in
  match e with
  | ECall f a => ECall f (r a)
  | ESorted k a => ESorted k (r a)
  | EMin k a => EMin k (r a)
  | EMax k a => EMax k (r a)
  | EIn x a => oct_rhs sets any p x (r a)
  | EIdx0 a => EIdx0 (r a)
  | EIdxL a => EIdxL (r a)
  | ESliceTo a n => ESliceTo (r a) n
  | ESliceFrom a n => ESliceFrom (r a) n
  | ENsm n k a => ENsm n k (r a)
  | ERevNl n k a => ERevNl n k (r a)
  | EComp a => EComp (r a)
  | EGenx a => EGenx (r a)
  | _ => e
  end.

Definition oct_with (sets any : bool) (p : prog) : prog :=
  map (map_stmt (oct_expr sets any p) (oct_expr sets any p)) p.
Definition oct := oct_with true false.
Definition oct_wrappers := oct_with false false.       (* the rule without its display -> set part *)
Definition oct_before_2835a2e := oct_with true true.

(* ---------------------------------------------------------------- replace_sorted_heapq *)
Definition negative_literal (n : atom) : bool := match n with AInt z => z <? 0 | _ => false end.

Definition hq_head (p : prog) (e : expr) : expr :=
  if rebound p N_SORTED then e else
  match e with
  | EIdx0 (ESorted k c) => if rebound p N_MIN then e else EMin k c
  | EIdxL (ESorted k c) => if rebound p N_MAX then e else EMax k c
  | ESliceTo (ESorted k c) n => if negative_literal n then e else ENsm n k c
  | ESliceFrom (ESorted k c) n => if rebound p N_LIST || rebound p N_REVERSED then e else ERevNl n k c
  | _ => e
  end.

Fixpoint hq_expr (p : prog) (e : expr) : expr :=
  let r := hq_expr p in
  hq_head p
  match e with
  | ECall f a => ECall f (r a)
  | ESorted k a => ESorted k (r a)
  | EMin k a => EMin k (r a)
  | EMax k a => EMax k (r a)
  | EIn x a => EIn x (r a)
  | EIdx0 a => EIdx0 (r a)
  | EIdxL a => EIdxL (r a)
  | ESliceTo a n => ESliceTo (r a) n
  | ESliceFrom a n => ESliceFrom (r a) n
  | ENsm n k a => ENsm n k (r a)
  | ERevNl n k a => ERevNl n k (r a)
  | EComp a => EComp (r a)
  | EGenx a => EGenx (r a)
  | _ => e
  end.

Definition hq (p : prog) : prog := map (map_stmt (hq_expr p) (hq_expr p)) p.

(* the guard of the _partial theorem: what every rewritten site must look like *)
Definition nonempty_display (c : expr) : bool :=
  match c with EDisp (_ :: _) | ETupD (_ :: _) => true | _ => false end.
Definition positive_literal (n : atom) : bool := match n with AInt z => 0 <? z | _ => false end.
(* what a rewritten site must look like; hq_ok follows the traversal of hq_expr *)
Definition head_safe (e : expr) : bool :=
  match e with
  | EIdx0 (ESorted k c) => nonempty_display c
  | EIdxL (ESorted k c) => negb k && nonempty_display c
  | ESliceTo (ESorted k c) n => positive_literal n || negative_literal n
  | ESliceFrom (ESorted k c) n => negb k && positive_literal n
  | _ => true
  end.
Fixpoint hq_ok (p : prog) (e : expr) : bool :=
  match e with
  | EIdx0 a => hq_ok p a && head_safe (EIdx0 (hq_expr p a))
  | EIdxL a => hq_ok p a && head_safe (EIdxL (hq_expr p a))
  | ESliceTo a n => hq_ok p a && head_safe (ESliceTo (hq_expr p a) n)
  | ESliceFrom a n => hq_ok p a && head_safe (ESliceFrom (hq_expr p a) n)
  | ECall _ a | ESorted _ a | EMin _ a | EMax _ a | EIn _ a | ENsm _ _ a | ERevNl _ _ a | EComp a | EGenx a => hq_ok p a
  | _ => true
  end.
Definition simple_all (f : expr -> bool) (s : simple) : bool :=
  match s with SAssign _ e | SPrint e | SExpr e => f e | _ => true end.
Definition stmt_all (f : expr -> bool) (st : stmt) : bool :=
  match st with SS s => simple_all f s | SFor _ e body => f e && forallb (simple_all f) body end.
Definition prog_all (f : expr -> bool) (p : prog) : bool := forallb (stmt_all f) p.

(* the guard of the _partial theorem of optimize_contains_types: the tested element is a literal *)
Definition literal_atom (a : atom) : bool := match a with AVar _ => false | _ => true end.
Fixpoint oct_safe (e : expr) : bool :=
  match e with
  | EIn a c => literal_atom a && oct_safe c
  | ECall _ a | ESorted _ a | EMin _ a | EMax _ a | EIdx0 a | EIdxL a | ESliceTo a _ | ESliceFrom a _
  | ENsm _ _ a | ERevNl _ _ a | EComp a | EGenx a => oct_safe a
  | _ => true
  end.

(* ---------------------------------------------------------------- case checkers for the harness *)
Definition atom_eqb (a b : atom) : bool :=
  match a, b with AInt x, AInt y => x =? y | ANone, ANone => true | AVar x, AVar y => Nat.eqb x y | _, _ => false end.
Fixpoint zs_eqb (a b : list Z) : bool :=
  match a, b with [], [] => true | x :: s, y :: t => (x =? y) && zs_eqb s t | _, _ => false end.
Definition fn_eqb (f g : fn) : bool :=
  match f, g with FList, FList | FTuple, FTuple | FIter, FIter => true | _, _ => false end.
Fixpoint expr_eqb (a b : expr) : bool :=
  match a, b with
  | EAtom x, EAtom y => atom_eqb x y
  | EDisp x, EDisp y | ETupD x, ETupD y => zs_eqb x y
  | EGen x, EGen y => Nat.eqb x y
  | ECall f x, ECall g y => fn_eqb f g && expr_eqb x y
  | ESorted k x, ESorted l y | EMin k x, EMin l y | EMax k x, EMax l y => Bool.eqb k l && expr_eqb x y
  | EIn a x, EIn b y => atom_eqb a b && expr_eqb x y
  | EInSet a x, EInSet b y => atom_eqb a b && zs_eqb x y
  | EIdx0 x, EIdx0 y | EIdxL x, EIdxL y | EComp x, EComp y | EGenx x, EGenx y => expr_eqb x y
  | ESliceTo x n, ESliceTo y m | ESliceFrom x n, ESliceFrom y m => atom_eqb n m && expr_eqb x y
  | ENsm n k x, ENsm m l y | ERevNl n k x, ERevNl m l y => atom_eqb n m && Bool.eqb k l && expr_eqb x y
  | _, _ => false
  end.
Definition simple_eqb (a b : simple) : bool :=
  match a, b with
  | SAssign x e, SAssign y f => Nat.eqb x y && expr_eqb e f
  | SPrint e, SPrint f | SExpr e, SExpr f => expr_eqb e f
  | SAppend x a, SAppend y b | SRemove x a, SRemove y b => Nat.eqb x y && atom_eqb a b
  | _, _ => false
  end.
Fixpoint list_eqb {A} (f : A -> A -> bool) (a b : list A) : bool :=
  match a, b with [], [] => true | x :: s, y :: t => f x y && list_eqb f s t | _, _ => false end.
Definition stmt_eqb (a b : stmt) : bool :=
  match a, b with
  | SS s, SS t => simple_eqb s t
  | SFor x e b1, SFor y f b2 => Nat.eqb x y && expr_eqb e f && list_eqb simple_eqb b1 b2
  | _, _ => false
  end.
Definition prog_eqb := list_eqb stmt_eqb.

Inductive prule := RRri | ROct | RHq.
Definition apply_rule (r : prule) (p : prog) : prog :=
  match r with RRri => rri p | ROct => oct p | RHq => hq p end.
Definition rule_case_ok (c : prule * prog * prog) : bool :=
  let '(r, p, q) := c in prog_eqb (apply_rule r p) q.

(* semantics cases: program, world (as a list), expected exception class and trace *)
Definition exc_code (o : option exc) : nat :=
  match o with
  | None => 0 | Some TypeErr => 1 | Some IndexErr => 2 | Some ValueErr => 3 | Some NameErr => 4
  | Some AttrErr => 5 | Some Stuck => 6 | Some OutOfFuel => 7
  end%nat.
Definition rval_eqb (a b : rval) : bool :=
  match a, b with
  | RInt x, RInt y => x =? y | RBool x, RBool y => Bool.eqb x y | RNone, RNone => true
  | RTup x, RTup y | RList x, RList y => zs_eqb x y | RIter, RIter => true | _, _ => false
  end.
Definition event_eqb (a b : event) : bool :=
  match a, b with
  | EvPrint x, EvPrint y => rval_eqb x y
  | EvPull k i, EvPull l j => Nat.eqb k l && Nat.eqb i j
  | EvDone k, EvDone l => Nat.eqb k l
  | _, _ => false
  end.
Definition world_of (w : list (list Z)) (k : nat) : list Z := nth k w [].
Definition sem_fuel := 40%nat.
(* 0 = agrees, 1 = differs, 2 = outside the fragment (Stuck) or out of fuel *)
Definition sem_status (c : prog * list (list Z) * nat * list event) : nat :=
  let '(p, w, code, t) := c in
  let '(o, _, h) := run (world_of w) sem_fuel p in
  match o with
  | Some Stuck | Some OutOfFuel => 2%nat
  | _ => if Nat.eqb (exc_code o) code && list_eqb event_eqb (tr h) t then 0%nat else 1%nat
  end.
