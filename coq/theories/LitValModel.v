(* K4 -- model of core.literal_value (pyrefact/core.py, `literal_value` + `_literal_value`) with its
   `has_side_effect(node, BUILTIN_FUNCTIONS)` gate (core.py has_side_effect, the expression cases),
   and of ast.literal_eval (CPython 3.12 Lib/ast.py) as far as the fragment of PyValModel.expr
   reaches.  Mirrors the code as it is after the fix commits F15-1..3:
     - literal_value = try _literal_value except ValueError: raise except Exception: raise ValueError
     - BinOp through constants.COMPARISON_OPERATORS (regenerated: PyrefactGen.Tables.OPERATOR_TABLE)
     - Compare as all(op(literal_value(l), literal_value(r)) for (l, op, r) in zip(...))  (a bool;
       every inner operand is evaluated twice)
     - not / and / or: operand selection
     - <constant>.<method>(args) without keywords: getattr(value, method)( *args)
     - <builtin>(args) without keywords, builtin in constants.PURE_BUILTIN_FUNCTIONS (regenerated:
       PyrefactGen.TablesC15): getattr(builtins, name)( *args)
     - everything else: ast.literal_eval(node)  (constants, tuple/list displays of literals, +/- on
       a numeric constant; conditional expressions, names, other unary operators: ValueError)
   The primitive operations applied to VALUES are Python's own (operator.add, len, str.join ...), so
   the model applies the reference functions of PyValModel to them; what is modelled here is the
   tool's control flow: what is evaluated, in which order, what is refused. *)
From Coq Require Import List ZArith Bool String.
Import ListNotations.
Require Import Pyrefact.Ops Pyrefact.PyValModel.
Require Import PyrefactGen.Tables PyrefactGen.TablesC15.
Open Scope Z_scope.

Inductive lvres :=
| LKnown (v : val)        (* literal_value returns v *)
| LUnknown                (* literal_value raises ValueError: "no known value" *)
| LCrash (k : exn)        (* any other exception escapes to the caller *)
| LGap.                   (* outside the modelled value domain *)

Definition anyop_eqb (a b : anyop) : bool :=
  match a, b with
  | OC x, OC y => cmpop_eqb x y
  | OB x, OB y =>
      match x, y with
      | BAdd, BAdd | BSub, BSub | BMult, BMult | BDiv, BDiv | BFloorDiv, BFloorDiv | BMod, BMod
      | BPow, BPow | BLShift, BLShift | BRShift, BRShift | BBitOr, BBitOr | BBitXor, BBitXor
      | BBitAnd, BBitAnd | BMatMult, BMatMult => true
      | _, _ => false
      end
  | _, _ => false
  end.
Fixpoint lookup_op (tbl : list (anyop * opfn)) (o : anyop) : option opfn :=
  match tbl with
  | [] => None
  | (a, f) :: tl => if anyop_eqb a o then Some f else lookup_op tl o
  end.
Definition table_fn (o : anyop) : option opfn := lookup_op OPERATOR_TABLE o.

Definition mem_str (x : string) (l : list string) : bool := existsb (String.eqb x) l.

(* Builtins that are functions of their arguments only: no input, output, files, imports, code
   execution, process exit, interpreter state (id, hash of str), interactive helpers.  TRUSTED list;
   the regenerated whitelist of the tool must stay inside it (LitValProofs.pure_table_ok). *)
Open Scope string_scope.
Definition KNOWN_PURE : list string :=
  ["abs"; "all"; "any"; "ascii"; "bin"; "bool"; "bytes"; "callable"; "chr"; "complex"; "dict"; "divmod";
   "enumerate"; "filter"; "float"; "format"; "frozenset"; "hex"; "int"; "isinstance"; "issubclass"; "iter";
   "len"; "list"; "map"; "max"; "min"; "oct"; "ord"; "pow"; "range"; "repr"; "reversed"; "round"; "set";
   "slice"; "sorted"; "str"; "sum"; "tuple"; "type"; "zip"].
Close Scope string_scope.

(* ---------------- has_side_effect on expressions ---------------- *)
(* every Attribute node below e (core.walk(node, ast.Attribute)) *)
Fixpoint attrs_of (e : expr) : list string :=
  match e with
  | EConst _ | EName _ => []
  | EUn _ a => attrs_of a
  | EBin _ a b => attrs_of a ++ attrs_of b
  | EBool _ es => flat_map attrs_of es
  | ECmp a rest => attrs_of a ++ flat_map (fun p => attrs_of (snd p)) rest
  | EIf c a b => attrs_of c ++ attrs_of a ++ attrs_of b
  | ETuple es | EList es => flat_map attrs_of es
  | ECall _ args kws => flat_map attrs_of args ++ flat_map (fun p => attrs_of (snd p)) kws
  | EMeth _ m args kws => m :: flat_map attrs_of args ++ flat_map (fun p => attrs_of (snd p)) kws
  end.

Fixpoint hse (wl : list string) (e : expr) : bool :=
  match e with
  | EConst _ => false
  | EName _ => false                                   (* ctx is Load *)
  | EUn _ a => hse wl a
  | EBin _ a b => hse wl a || hse wl b
  | EBool _ es => existsb (hse wl) es
  | ECmp a rest => hse wl a || existsb (fun p => hse wl (snd p)) rest
  | EIf c a b => hse wl c || hse wl a || hse wl b
  | ETuple es | EList es => existsb (hse wl) es
  | ECall f args kws =>
      negb (mem_str f wl || String.eqb f "_")
      || existsb (hse wl) args
      || existsb (fun p => hse wl (snd p)) kws
      || negb (forallb (fun a => mem_str a wl) (attrs_of e))
  | EMeth _ m args kws =>
      let wl' := m :: wl in                             (* receiver is a Constant: attr whitelisted *)
      existsb (hse wl') args
      || existsb (fun p => hse wl' (snd p)) kws
      || negb (forallb (fun a => mem_str a wl') (attrs_of e))
  end.

(* ---------------- ast.literal_eval ---------------- *)
Fixpoint leval (e : expr) : res val :=
  match e with
  | EConst v => Val v
  | ETuple es => l <- eval_list leval es ;; Val (VTuple l)
  | EList es => l <- eval_list leval es ;; Val (VList l)
  | EUn UNeg (EConst (VInt z)) => Val (VInt (- z))     (* type(value) in (int, float, complex) *)
  | EUn UPos (EConst (VInt z)) => Val (VInt z)
  | ECall f [] [] => if String.eqb f "set" then Gap else Exc KValue
  | _ => Exc KValue                                    (* malformed node or string *)
  end.

(* the value of a recursive literal_value call as seen by the calling frame *)
Definition sub (r : lvres) : res val :=
  match r with LKnown v => Val v | LUnknown => Exc KValue | LCrash k => Exc k | LGap => Gap end.
(* the try/except of literal_value around _literal_value *)
Definition wrap (r : res val) : lvres :=
  match r with
  | Val v => LKnown v
  | Exc k => if is_exception k then LUnknown else LCrash k
  | Gap => LGap
  end.

(* Compare: all(op(literal_value(l), literal_value(r)) for l, op, r in zip([left] + comparators, ops,
   comparators)) -- a bool; [ev prev] is evaluated again for every pair *)
Section CmpAll.
Variable ev : expr -> res val.
(* [rprev]: the (re-)evaluation of the left operand of the current pair *)
Fixpoint cmp_all (rprev : res val) (l : list (cmpop * expr)) : res val :=
  match l with
  | [] => Val (VBool true)
  | (o, b) :: tl =>
      match table_fn (OC o) with
      | Some f => x <- rprev ;; y <- ev b ;; r <- opfn_apply f x y ;;
                  if truthy r then cmp_all (ev b) tl else Val (VBool false)
      | None => Exc KValue                               (* KeyError is an Exception *)
      end
  end.
End CmpAll.

Definition is_dunder (m : string) : bool := String.prefix "__" m.

Fixpoint lv (e : expr) : lvres :=
  wrap
    (if hse BUILTIN_FUNCTIONS e then Exc KValue else
     match e with
     | EBin o a b =>
         match table_fn (OB o) with
         | Some f => x <- sub (lv a) ;; y <- sub (lv b) ;; opfn_apply f x y
         | None => leval e
         end
     | ECmp a rest =>
         match rest with
         | [] => Gap                                      (* not a Python expression *)
         | _ => cmp_all (fun x => sub (lv x)) (sub (lv a)) rest
         end
     | EUn UNot a => v <- sub (lv a) ;; Val (VBool (negb (truthy v)))
     | EBool isand es =>
         match es with
         | [] => Exc KValue
         | _ => boolop_go (fun x => sub (lv x)) isand es
         end
     | EMeth recv m args kws =>
         match kws with
         | [] => if is_dunder m then Exc KValue          (* special methods are refused (hunt C15-5 / C06-1) *)
                 else a <- eval_list (fun x => sub (lv x)) args ;; call_method recv m a
         | _ => Exc KValue                               (* literal_eval of a Call *)
         end
     | ECall f args kws =>
         match kws with
         | [] =>
             if mem_str f PURE_BUILTIN_FUNCTIONS then
               a <- eval_list (fun x => sub (lv x)) args ;; call_builtin f a
             else leval e
         | _ => leval e
         end
     | _ => leval e
     end).

(* ---------------- correspondence plumbing ---------------- *)
Definition lv_ok (model observed : lvres) : bool :=
  match model, observed with
  | LKnown a, LKnown b => val_same a b
  | LUnknown, LUnknown => true
  | LCrash j, LCrash k => exn_eqb j k
  | LGap, _ => true
  | _, _ => false
  end.
Definition no_env : string -> option val := fun _ => None.
(* one case: expression, what core.literal_value did, what CPython's eval did *)
Definition case_ok (c : expr * lvres * res val) : bool :=
  let '(e, l, r) := c in lv_ok (lv e) l && res_ok (eval no_env e) r.
(* does the model make a claim on this case at all? (for the coverage count) *)
Definition case_claims (c : expr * lvres * res val) : bool :=
  let '(e, _, _) := c in
  negb (match lv e with LGap => true | _ => false end) && negb (is_gap (eval no_env e)).
