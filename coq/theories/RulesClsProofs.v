(* C02, definition / class tranche -- proofs. *)
From Coq Require Import List Bool Arith Lia.
Import ListNotations.
Require Import Pyrefact.Base Pyrefact.MiniPyModel Pyrefact.MiniPyProofs.
Require Import Pyrefact.RulesFlowModel Pyrefact.RulesFlowProofs Pyrefact.RulesFlowProofs2.
Require Import Pyrefact.RulesClsModel.

(* ============================================================================================== *)
(* Part L : un-assigning dead assignments preserves the behaviour                                  *)
(* ============================================================================================== *)

Lemma vmem_app x a b : vmem x (a ++ b) = vmem x a || vmem x b.
Proof. unfold vmem. apply existsb_app. Qed.
Lemma vmem_In x s : vmem x s = true <-> In x s.
Proof.
  unfold vmem. rewrite existsb_exists. split.
  - intros [y [Hy E]]. apply Nat.eqb_eq in E. subst. exact Hy.
  - intros H. exists x. split; [exact H|apply Nat.eqb_refl].
Qed.
Lemma vmem_remove x y s : vmem y (vremove x s) = negb (Nat.eqb x y) && vmem y s.
Proof.
  induction s as [|a s IH]; simpl; [rewrite andb_false_r; reflexivity|].
  destruct (Nat.eqb x a) eqn:E; simpl.
  - rewrite IH. apply Nat.eqb_eq in E. subst a.
    destruct (Nat.eqb y x) eqn:E2; simpl; [|reflexivity].
    apply Nat.eqb_eq in E2. subst. rewrite Nat.eqb_refl. reflexivity.
  - rewrite IH. destruct (Nat.eqb y a) eqn:E2; simpl; [|reflexivity].
    apply Nat.eqb_eq in E2. subst. rewrite E. reflexivity.
Qed.
Lemma vmem_norm x s : vmem x (vnorm s) = vmem x s.
Proof.
  induction s as [|a s IH]; simpl; [reflexivity|].
  destruct (Nat.eqb x a) eqn:E; simpl; [reflexivity|].
  rewrite vmem_remove, IH. rewrite Nat.eqb_sym, E. reflexivity.
Qed.
Lemma vsubset_spec a b : vsubset a b = true -> forall x, vmem x a = true -> vmem x b = true.
Proof.
  unfold vsubset. rewrite forallb_forall. intros H x Hx. apply H. apply vmem_In. exact Hx.
Qed.

(* the two stores agree on the variables in L; position and trace are equal *)
Definition agree (L : vset) (st st' : state) : Prop :=
  s_pos st = s_pos st' /\ s_tr st = s_tr st' /\
  forall x, vmem x L = true -> get (s_env st) x = get (s_env st') x.

Lemma agree_sub L L' st st' :
  (forall x, vmem x L' = true -> vmem x L = true) -> agree L st st' -> agree L' st st'.
Proof. intros H [H1 [H2 H3]]. repeat split; auto. Qed.
Lemma agree_sym L st st' : agree L st st' -> agree L st' st.
Proof. intros [H1 [H2 H3]]. repeat split; auto. intros; symmetry; auto. Qed.

Lemma map_get_agree L st st' rd :
  agree L st st' -> (forall x, vmem x rd = true -> vmem x L = true) ->
  map (get (s_env st)) rd = map (get (s_env st')) rd.
Proof.
  intros [_ [_ H]] Hs. apply map_ext_in. intros x Hx. apply H. apply Hs. apply vmem_In. exact Hx.
Qed.

Lemma eval_test_env o st t : s_env (snd (eval_test o st t)) = s_env st.
Proof.
  revert st. induction t as [b|i rd|t IH]; intros st; simpl; auto.
  specialize (IH st). destruct (eval_test o st t). simpl in *. exact IH.
Qed.

Lemma eval_test_agree L o t : forall st st',
  agree L st st' -> (forall x, vmem x (t_reads t) = true -> vmem x L = true) ->
  fst (eval_test o st t) = fst (eval_test o st' t) /\
  agree L (snd (eval_test o st t)) (snd (eval_test o st' t)).
Proof.
  induction t as [b|i rd|t IH]; intros st st' HA Hs; simpl.
  - split; [reflexivity|exact HA].
  - pose proof (map_get_agree _ _ _ _ HA Hs) as E. simpl in E. destruct HA as [H1 [H2 H3]].
    unfold draw, emit; simpl. rewrite E, H1, H2. split; [reflexivity|].
    repeat split; simpl; auto.
  - specialize (IH st st' HA Hs).
    destruct (eval_test o st t) as [v s1], (eval_test o st' t) as [v' s1']. simpl in *.
    destruct IH as [-> IH]. split; [reflexivity|exact IH].
Qed.

Lemma eval_rexpr_env o st e : s_env (snd (eval_rexpr o st e)) = s_env st.
Proof. destruct e; simpl; auto. apply eval_test_env. Qed.

Lemma eval_rexpr_agree L o e st st' :
  agree L st st' -> (forall x, vmem x (r_reads e) = true -> vmem x L = true) ->
  fst (eval_rexpr o st e) = fst (eval_rexpr o st' e) /\
  agree L (snd (eval_rexpr o st e)) (snd (eval_rexpr o st' e)).
Proof.
  intros HA Hs. destruct e as [v|y|t]; simpl.
  - split; [reflexivity|exact HA].
  - split; [|exact HA]. destruct HA as [_ [_ H]]. apply H. apply Hs. simpl. rewrite Nat.eqb_refl. reflexivity.
  - apply eval_test_agree; assumption.
Qed.

Lemma agree_set_both L O v w st st' :
  agree L st st' -> (forall x, vmem x (vremove v O) = true -> vmem x L = true) ->
  agree O (set_var v w st) (set_var v w st').
Proof.
  intros [H1 [H2 H3]] Hs. repeat split; simpl; auto. intros x Hx.
  destruct (Nat.eq_dec x v) as [->|Hne].
  - rewrite !get_upd_same. reflexivity.
  - rewrite !get_upd_other by exact Hne. apply H3. apply Hs. rewrite vmem_remove.
    rewrite Hx. destruct (Nat.eqb v x) eqn:E; [apply Nat.eqb_eq in E; congruence|reflexivity].
Qed.
Lemma agree_set_left L O v w st st' :
  agree L st st' -> (forall x, vmem x O = true -> vmem x L = true) -> vmem v O = false ->
  agree O (set_var v w st) st'.
Proof.
  intros [H1 [H2 H3]] Hs Hv. repeat split; simpl; auto. intros x Hx.
  destruct (Nat.eq_dec x v) as [->|Hne]; [congruence|].
  rewrite get_upd_other by exact Hne. apply H3. apply Hs. exact Hx.
Qed.

(* the block functions nested in lv_stmt / ok_stmt are lv_block / ok_block *)
Lemma lv_blk_eq n x l : forall o b c,
  (fix blk (l : list stmt) (o b c : vset) {struct l} : vset :=
     match l with
     | [] => o
     | s' :: tl => lv_stmt n s' (blk tl o b c) b c x
     end) l o b c = lv_block n l o b c x.
Proof. induction l as [|s l IH]; intros; simpl; [reflexivity|rewrite IH; reflexivity]. Qed.

Lemma ok_blk_eq n x l : forall l' o b c,
  (fix blk (l l' : list stmt) (o b c : vset) {struct l} : bool :=
     match l, l' with
     | [], [] => true
     | s1 :: tl, s1' :: tl' => ok_stmt n s1 s1' (lv_block n tl' o b c x) b c x && blk tl tl' o b c
     | _, _ => false
     end) l l' o b c = ok_block n l l' o b c x.
Proof.
  induction l as [|s l IH]; intros [|s' l'] o b c; simpl; try reflexivity. rewrite IH. reflexivity.
Qed.

Lemma lv_if n t b1 b2 o b c x :
  lv_stmt n (SIf t b1 b2) o b c x = vnorm (t_reads t ++ lv_block n b1 o b c x ++ lv_block n b2 o b c x).
Proof. simpl. rewrite !lv_blk_eq. reflexivity. Qed.
Lemma iter_n_ext {A} (f g : A -> A) : (forall a, f a = g a) -> forall n a, iter_n n f a = iter_n n g a.
Proof. intros H. induction n as [|n IH]; intros a; simpl; [reflexivity|]. rewrite H. apply IH. Qed.

Lemma lv_loop n h bd el o b c x :
  lv_stmt n (SLoop h bd el) o b c x = h_entry_reads h ++ loop_head n h bd el o b c x.
Proof.
  simpl. unfold loop_head, loop_x0. rewrite !lv_blk_eq. f_equal.
  apply iter_n_ext. intros X. rewrite lv_blk_eq. reflexivity.
Qed.

Lemma ok_if n t b1 b2 s' o b c x :
  ok_stmt n (SIf t b1 b2) s' o b c x = true ->
  exists b1' b2', s' = SIf t b1' b2' /\ ok_block n b1 b1' o b c x = true /\ ok_block n b2 b2' o b c x = true.
Proof.
  destruct s'; simpl; try discriminate. rewrite !ok_blk_eq. intros H.
  apply andb_true_iff in H. destruct H as [H H3]. apply andb_true_iff in H. destruct H as [H1 H2].
  apply test_eqb_eq in H1. subst. eauto.
Qed.
Lemma ok_loop n h bd el s' o b c x :
  ok_stmt n (SLoop h bd el) s' o b c x = true ->
  exists bd' el', s' = SLoop h bd' el' /\
    let X := loop_head n h bd' el' o b c x in
    vsubset (loop_x0 n h el' o b c x ++ lv_block n bd' X o X x) X = true /\
    ok_block n bd bd' X o X x = true /\ ok_block n el el' o b c x = true.
Proof.
  destruct s'; simpl; try discriminate. rewrite !ok_blk_eq. intros H.
  apply andb_true_iff in H. destruct H as [H H4]. apply andb_true_iff in H. destruct H as [H H3].
  apply andb_true_iff in H. destruct H as [H1 H2].
  apply head_eqb_eq in H1. subst. eauto 10.
Qed.

Definition side {A} (d : bool) (a b : A) : A := if d then a else b.
Lemma side_same {A} d (a : A) : side d a a = a.
Proof. destruct d; reflexivity. Qed.

Definition sel (O B C X : vset) (out : outcome) : vset :=
  match out with Normal => O | Brk => B | Cnt => C | _ => X end.
Definition rres (O B C X : vset) (r r' : res) : Prop :=
  fst r = fst r' /\ agree (sel O B C X (fst r)) (snd r) (snd r').

Definition lk_reads (lk : lkind) : vset := match lk with LWhile t => t_reads t | _ => [] end.

Lemma loop_next_agree L o lk st st2 :
  agree L st st2 -> (forall x, vmem x (lk_reads lk) = true -> vmem x L = true) ->
  fst (fst (loop_next o st lk)) = fst (fst (loop_next o st2 lk)) /\
  snd (loop_next o st lk) = snd (loop_next o st2 lk) /\
  agree L (snd (fst (loop_next o st lk))) (snd (fst (loop_next o st2 lk))) /\
  lk_reads (snd (loop_next o st lk)) = lk_reads lk.
Proof.
  intros HA Hs. destruct lk as [t|k|i]; simpl.
  - pose proof (eval_test_agree L o t st st2 HA Hs) as [E1 E2].
    destruct (eval_test o st t) as [v s1], (eval_test o st2 t) as [v' s1']. simpl in *. subst v'. auto.
  - destruct k; simpl; auto.
  - destruct HA as [H1 [H2 H3]]. unfold draw, emit; simpl. rewrite H1, H2.
    repeat split; simpl; auto.
Qed.

Lemma enter_agree L o h st st2 :
  agree L st st2 -> (forall x, vmem x (h_entry_reads h) = true -> vmem x L = true) ->
  snd (enter o st h) = snd (enter o st2 h) /\ agree L (fst (enter o st h)) (fst (enter o st2 h)) /\
  (forall x, vmem x (lk_reads (snd (enter o st h))) = true -> vmem x (h_iter_reads h) = true).
Proof.
  intros HA Hs. destruct h as [t|[k|i rd]]; simpl; auto.
  pose proof (map_get_agree _ _ _ _ HA Hs) as E. simpl in E. destruct HA as [H1 [H2 H3]].
  unfold emit; simpl. rewrite E, H2. repeat split; simpl; auto; try (intros; discriminate).
Qed.

Lemma ok_atom n s s' o b c x :
  match s with SAssign _ _ | SIf _ _ _ | SLoop _ _ _ => False | _ => True end ->
  ok_stmt n s s' o b c x = true -> s' = s.
Proof.
  intros Hs H. symmetry. apply stmt_eqb_eq. destruct s; try contradiction; destruct s'; exact H.
Qed.
Lemma ok_asg n v e s' o b c x :
  ok_stmt n (SAssign v e) s' o b c x = true ->
  s' = SAssign v e \/ (s' = drop_asg e /\ vmem v o = false).
Proof.
  intros H. assert (H' : stmt_eqb (SAssign v e) s' || (stmt_eqb s' (drop_asg e) && negb (vmem v o)) = true)
    by (destruct s'; exact H).
  apply orb_true_iff in H'. destruct H' as [H'|H'].
  - left. symmetry. apply stmt_eqb_eq. exact H'.
  - right. apply andb_true_iff in H'. destruct H' as [H1 H2]. apply stmt_eqb_eq in H1.
    apply negb_true_iff in H2. auto.
Qed.

Lemma lruns_step o st lk b e st1 lk1 r1 r :
  loop_next o st lk = (true, st1, lk1) -> runs o st1 b r1 -> lafter o r1 lk1 b e r -> lruns o st lk b e r.
Proof. intros E H1 H2. apply lruns_unfold. rewrite E. eauto. Qed.
Lemma lruns_stop o st lk b e st1 lk1 r :
  loop_next o st lk = (false, st1, lk1) -> runs o st1 e r -> lruns o st lk b e r.
Proof. intros E H1. apply lruns_unfold. rewrite E. exact H1. Qed.

Section Sim.
Variable n : nat.

Definition block_sim (f : nat) : Prop := forall d o p p' O B C X st st2 r,
  ok_block n p p' O B C X = true ->
  agree (lv_block n p' O B C X) st st2 ->
  exec f o st (side d p p') = Some r ->
  exists r2, runs o st2 (side (negb d) p p') r2 /\ rres O B C X r r2.

Definition loop_sim (f : nat) : Prop := forall d o h bd bd' el el' lk O B C X st st2 r,
  vsubset (loop_x0 n h el' O B C X
           ++ lv_block n bd' (loop_head n h bd' el' O B C X) O (loop_head n h bd' el' O B C X) X)
          (loop_head n h bd' el' O B C X) = true ->
  ok_block n bd bd' (loop_head n h bd' el' O B C X) O (loop_head n h bd' el' O B C X) X = true ->
  ok_block n el el' O B C X = true ->
  (forall x, vmem x (lk_reads lk) = true -> vmem x (h_iter_reads h) = true) ->
  agree (loop_head n h bd' el' O B C X) st st2 ->
  loop_ f o st lk (side d bd bd') (side d el el') = Some r ->
  exists r2, lruns o st2 lk (side (negb d) bd bd') (side (negb d) el el') r2 /\ rres O B C X r r2.

Lemma rres_other O O' B C X r r' :
  rres O B C X r r' -> fst r <> Normal -> rres O' B C X r r'.
Proof. intros [H1 H2] Hn. split; [exact H1|]. destruct (fst r); simpl in *; auto. congruence. Qed.

Lemma step_sim f : block_sim f -> loop_sim f ->
  forall d o s s' O B C X st st2 r,
  ok_stmt n s s' O B C X = true ->
  agree (lv_stmt n s' O B C X) st st2 ->
  step1 (exec f o) (loop_ f o) o st (side d s s') = Some r ->
  exists r2, runs1 o st2 (side (negb d) s s') r2 /\ rres O B C X r r2.
Proof.
  intros IHb IHl d o s s' O B C X st st2 r Hok HA Hst.
  destruct s as [|i rd|v e|e| | | |t b1 b2|h bd el].
  - (* pass *) apply ok_atom in Hok; [|exact I]. subst s'. rewrite side_same in *. simpl in *.
    inversion Hst; subst. eexists; split; [reflexivity|]. split; simpl; auto.
  - (* event *) apply ok_atom in Hok; [|exact I]. subst s'. rewrite side_same in *. simpl in *.
    inversion Hst; subst. eexists; split; [reflexivity|]. split; simpl; auto.
    assert (E : map (get (s_env st)) rd = map (get (s_env st2)) rd).
    { eapply map_get_agree; [exact HA|]. intros x Hx. rewrite vmem_app, Hx. reflexivity. }
    rewrite E. destruct HA as [H1 [H2 H3]]. repeat split; simpl; auto; try congruence.
    intros x Hx. apply H3. rewrite vmem_app, Hx. apply orb_true_r.
  - (* assignment *)
    apply ok_asg in Hok. destruct Hok as [Hok|[Hok Hv]].
    + subst s'. rewrite side_same in *. simpl in *.
      pose proof (eval_rexpr_agree _ o e st st2 HA) as HE.
      destruct HE as [E1 E2]; [intros x Hx; rewrite vmem_app, Hx; reflexivity|].
      destruct (eval_rexpr o st e) as [w s1] eqn:Ee. inversion Hst; subst. simpl in *.
      eexists; split; [reflexivity|]. split; simpl; auto. rewrite <- E1.
      eapply agree_set_both; [exact E2|]. intros x Hx. rewrite vmem_app, Hx. apply orb_true_r.
    + subst s'.
      destruct e as [w|y|t]; simpl in *.
      * (* constant *) destruct d; simpl in *; inversion Hst; subst.
        -- eexists; split; [reflexivity|]. split; simpl; auto.
           eapply agree_set_left; eauto.
        -- eexists; split; [reflexivity|]. split; simpl; auto.
           apply agree_sym. eapply agree_set_left; [apply agree_sym; exact HA| |exact Hv]. auto.
      * (* variable *) destruct d; simpl in *; inversion Hst; subst.
        -- eexists; split; [reflexivity|]. split; simpl; auto.
           eapply agree_set_left; eauto.
        -- eexists; split; [reflexivity|]. split; simpl; auto.
           apply agree_sym. eapply agree_set_left; [apply agree_sym; exact HA| |exact Hv]. auto.
      * (* opaque call *)
        assert (HA' : agree (t_reads t ++ O ++ O) st st2).
        { eapply agree_sub; [|exact HA]. intros x Hx. rewrite vmem_norm. exact Hx. }
        clear HA. rename HA' into HA.
        assert (HL : forall x, vmem x O = true -> vmem x (t_reads t ++ O ++ O) = true).
        { intros x Hx. rewrite !vmem_app, Hx. rewrite orb_true_r. reflexivity. }
        pose proof (eval_test_agree _ o t st st2 HA) as HE.
        destruct HE as [E1 E2]; [intros x Hx; rewrite vmem_app, Hx; reflexivity|].
        destruct d; simpl in *.
        -- destruct (eval_test o st t) as [w s1] eqn:Ee. inversion Hst; subst. simpl in *.
           exists (Normal, snd (eval_test o st2 t)). split.
           ++ destruct (truthy (fst (eval_test o st2 t))); apply runs_nil; reflexivity.
           ++ split; simpl; auto. eapply agree_set_left; [exact E2|exact HL|exact Hv].
        -- destruct (eval_test o st t) as [w s1] eqn:Ee. simpl in *.
           assert (Hr : r = (Normal, s1)).
           { destruct (truthy w); destruct f; simpl in Hst; congruence. }
           subst r. eexists; split; [reflexivity|]. split; simpl; auto.
           apply agree_sym. eapply agree_set_left; [apply agree_sym; exact E2|exact HL|exact Hv].
  - (* return *) apply ok_atom in Hok; [|exact I]. subst s'. rewrite side_same in *. simpl in *.
    pose proof (eval_rexpr_agree _ o e st st2 HA) as HE.
    destruct HE as [E1 E2]; [intros x Hx; rewrite vmem_app, Hx; reflexivity|].
    destruct (eval_rexpr o st e) as [w s1] eqn:Ee. inversion Hst; subst. simpl in *.
    eexists; split; [reflexivity|]. split; simpl; [congruence|].
    eapply agree_sub; [|exact E2]. intros x Hx. rewrite vmem_app, Hx. apply orb_true_r.
  - apply ok_atom in Hok; [|exact I]. subst s'. rewrite side_same in *. simpl in *.
    inversion Hst; subst. eexists; split; [reflexivity|]. split; simpl; auto.
  - apply ok_atom in Hok; [|exact I]. subst s'. rewrite side_same in *. simpl in *.
    inversion Hst; subst. eexists; split; [reflexivity|]. split; simpl; auto.
  - apply ok_atom in Hok; [|exact I]. subst s'. rewrite side_same in *. simpl in *.
    inversion Hst; subst. eexists; split; [reflexivity|]. split; simpl; auto.
  - (* if *)
    apply ok_if in Hok. destruct Hok as [b1' [b2' [-> [Hk1 Hk2]]]]. rewrite lv_if in HA.
    assert (HA' : agree (t_reads t ++ lv_block n b1' O B C X ++ lv_block n b2' O B C X) st st2).
    { eapply agree_sub; [|exact HA]. intros x Hx. rewrite vmem_norm. exact Hx. }
    clear HA. rename HA' into HA.
    assert (Es : forall dd, side dd (SIf t b1 b2) (SIf t b1' b2') = SIf t (side dd b1 b1') (side dd b2 b2'))
      by (intros []; reflexivity).
    rewrite Es in *. simpl in *.
    pose proof (eval_test_agree _ o t st st2 HA) as HE.
    destruct HE as [E1 E2]; [intros x Hx; rewrite vmem_app, Hx; reflexivity|].
    destruct (eval_test o st t) as [w s1] eqn:Ee. simpl in *. rewrite <- E1.
    destruct (truthy w).
    + eapply IHb; [exact Hk1| |exact Hst]. eapply agree_sub; [|exact E2].
      intros x Hx. rewrite !vmem_app, Hx. rewrite orb_true_r. reflexivity.
    + eapply IHb; [exact Hk2| |exact Hst]. eapply agree_sub; [|exact E2].
      intros x Hx. rewrite !vmem_app, Hx. rewrite !orb_true_r. reflexivity.
  - (* loop *)
    apply ok_loop in Hok. destruct Hok as [bd' [el' [-> [Hfix [Hk1 Hk2]]]]]. rewrite lv_loop in HA.
    assert (Es : forall dd, side dd (SLoop h bd el) (SLoop h bd' el') = SLoop h (side dd bd bd') (side dd el el'))
      by (intros []; reflexivity).
    rewrite Es in *. simpl in *.
    pose proof (enter_agree _ o h st st2 HA) as HE.
    destruct HE as [E1 [E2 E3]]; [intros x Hx; rewrite vmem_app, Hx; reflexivity|].
    destruct (enter o st h) as [s1 lk] eqn:Ee. simpl in *. rewrite <- E1.
    eapply IHl; [exact Hfix|exact Hk1|exact Hk2|exact E3| |exact Hst].
    eapply agree_sub; [|exact E2]. intros x Hx. rewrite vmem_app, Hx. apply orb_true_r.
Qed.

Lemma side_cons {A} d (a b : A) (l m : list A) : side d (a :: l) (b :: m) = side d a b :: side d l m.
Proof. destruct d; reflexivity. Qed.
Lemma side_nil {A} d : side d (@nil A) [] = [].
Proof. destruct d; reflexivity. Qed.

Lemma sim_all : forall f, block_sim f /\ loop_sim f.
Proof.
  induction f as [|f [IHb IHl]].
  - split; unfold block_sim, loop_sim; intros; simpl in *; discriminate.
  - split.
    + (* blocks *)
      unfold block_sim. intros d o p p' O B C X st st2 r Hok HA Hex.
      destruct p as [|s tl], p' as [|s' tl']; simpl in Hok; try discriminate.
      * rewrite side_nil in *. simpl in Hex. inversion Hex; subst.
        exists (Normal, st2). split; [apply runs_nil; reflexivity|]. split; simpl; auto.
      * apply andb_true_iff in Hok. destruct Hok as [Hk1 Hk2].
        rewrite side_cons in *. simpl in Hex. simpl in HA.
        destruct (step1 (exec f o) (loop_ f o) o st (side d s s')) as [[out1 st1]|] eqn:E1; [|discriminate].
        destruct (step_sim f IHb IHl d o s s' _ B C X st st2 _ Hk1 HA E1) as [[out1' st1'] [Hr1 [Ho1 Ha1]]].
        simpl in Ho1, Ha1. subst out1'.
        destruct out1; simpl in Hex;
          try (inversion Hex; subst; eexists; split;
               [apply runs_cons; eexists; split; [exact Hr1|reflexivity]|split; simpl; auto]).
        destruct (IHb d o tl tl' O B C X st1 st1' r Hk2 Ha1 Hex) as [r2 [Hr2 Hres]].
        exists r2. split; [|exact Hres]. apply runs_cons. eexists; split; [exact Hr1|exact Hr2].
    + (* loops *)
      unfold loop_sim. intros d o h bd bd' el el' lk O B C X st st2 r Hfix Hk1 Hk2 Hlk HA Hex.
      set (Xh := loop_head n h bd' el' O B C X) in *.
      pose proof (vsubset_spec _ _ Hfix) as Hsub.
      assert (Hlk' : forall x, vmem x (lk_reads lk) = true -> vmem x Xh = true).
      { intros x Hx. apply Hsub. unfold loop_x0. rewrite !vmem_app. rewrite (Hlk x Hx). reflexivity. }
      pose proof (loop_next_agree Xh o lk st st2 HA Hlk') as [En1 [En2 [En3 En4]]].
      simpl in Hex.
      destruct (loop_next o st lk) as [[go s1] lk1] eqn:ELN.
      destruct (loop_next o st2 lk) as [[go' s1'] lk1'] eqn:ELN'. simpl in *. subst go' lk1'.
      destruct go.
      * (* one more iteration *)
        destruct (exec f o s1 (side d bd bd')) as [[out1 s2]|] eqn:E1; [|discriminate].
        assert (HAb : agree (lv_block n bd' Xh O Xh X) s1 s1').
        { eapply agree_sub; [|exact En3]. intros x Hx. apply Hsub. rewrite vmem_app, Hx. apply orb_true_r. }
        destruct (IHb d o bd bd' Xh O Xh X s1 s1' _ Hk1 HAb E1) as [[out1' s2'] [Hr1 [Ho1 Ha1]]].
        simpl in Ho1, Ha1. subst out1'.
        assert (Hlk1 : forall x, vmem x (lk_reads lk1) = true -> vmem x (h_iter_reads h) = true)
          by (rewrite En4; exact Hlk).
        destruct out1; simpl in Hex, Ha1.
        -- destruct (IHl d o h bd bd' el el' lk1 O B C X s2 s2' r Hfix Hk1 Hk2 Hlk1 Ha1 Hex) as [r2 [Hr2 Hres]].
           exists r2. split; [|exact Hres]. eapply lruns_step; [exact ELN'|exact Hr1|exact Hr2].
        -- inversion Hex; subst. eexists; split; [eapply lruns_step; [exact ELN'|exact Hr1|reflexivity]|].
           split; simpl; auto.
        -- inversion Hex; subst. eexists; split; [eapply lruns_step; [exact ELN'|exact Hr1|reflexivity]|].
           split; simpl; auto.
        -- inversion Hex; subst. eexists; split; [eapply lruns_step; [exact ELN'|exact Hr1|reflexivity]|].
           split; simpl; auto.
        -- destruct (IHl d o h bd bd' el el' lk1 O B C X s2 s2' r Hfix Hk1 Hk2 Hlk1 Ha1 Hex) as [r2 [Hr2 Hres]].
           exists r2. split; [|exact Hres]. eapply lruns_step; [exact ELN'|exact Hr1|exact Hr2].
      * (* the loop ends: else clause *)
        assert (HAe : agree (lv_block n el' O B C X) s1 s1').
        { eapply agree_sub; [|exact En3]. intros x Hx. apply Hsub. unfold loop_x0.
          rewrite !vmem_app, Hx. rewrite orb_true_r. reflexivity. }
        destruct (IHb d o el el' O B C X s1 s1' r Hk2 HAe Hex) as [r2 [Hr2 Hres]].
        exists r2. split; [|exact Hres]. eapply lruns_stop; [exact ELN'|exact Hr2].
Qed.
End Sim.

Lemma agree_refl L st : agree L st st.
Proof. repeat split; auto. Qed.

(* T02k_undefine_dead_sound : an output that the checker accepts behaves like the input: same
   outcome (returned value), same trace, same oracle position, under every oracle, from every
   state; termination is preserved in both directions. *)
Theorem undefine_dead_sound n p p' : uv_ok n p p' = true -> obs_equiv p p'.
Proof.
  intros Hok o st. split; intros r [f Hr].
  - destruct (sim_all n f) as [Hb _].
    destruct (Hb true o p p' [] [] [] [] st st r Hok (agree_refl _ _) Hr) as [r2 [H2 [Ho [Hp [Ht _]]]]].
    exists r2. split; [exact H2|]. unfold obs. rewrite Ho, Hp, Ht. reflexivity.
  - destruct (sim_all n f) as [Hb _].
    destruct (Hb false o p p' [] [] [] [] st st r Hok (agree_refl _ _) Hr) as [r2 [H2 [Ho [Hp [Ht _]]]]].
    exists r2. split; [exact H2|]. unfold obs. rewrite Ho, Hp, Ht. reflexivity.
Qed.

(* the same with a set of variables that are observed afterwards (the globals a later reader sees) *)
Theorem undefine_dead_sound_out n p p' out :
  ok_block n p p' out [] [] out = true ->
  forall o st r, runs o st p r ->
  exists r', runs o st p' r' /\ obs r = obs r' /\
             (fst r = Normal ->
              forall x, vmem x out = true -> get (s_env (snd r)) x = get (s_env (snd r')) x).
Proof.
  intros Hok o st r [f Hr]. destruct (sim_all n f) as [Hb _].
  destruct (Hb true o p p' out [] [] out st st r Hok (agree_refl _ _) Hr) as [r2 [H2 [Ho [Hp [Ht He]]]]].
  exists r2. split; [exact H2|]. split; [unfold obs; rewrite Ho, Hp, Ht; reflexivity|].
  intros En x Hx. rewrite En in He. simpl in He. apply He. exact Hx.
Qed.

(* ---- the rule's decision on straight-line code only drops dead assignments ---- *)
Lemma list_nat_eqb_refl l : list_eqb Nat.eqb l l = true.
Proof. induction l; simpl; auto. rewrite Nat.eqb_refl. auto. Qed.
Lemma test_eqb_refl t : test_eqb t t = true.
Proof.
  induction t; simpl; auto.
  - destruct b; reflexivity.
  - rewrite Nat.eqb_refl, list_nat_eqb_refl. reflexivity.
Qed.
Lemma val_eqb_refl v : val_eqb v v = true.
Proof. destruct v as [[]|[] k]; simpl; auto; apply Nat.eqb_refl. Qed.
Lemma rexpr_eqb_refl e : rexpr_eqb e e = true.
Proof. destruct e; simpl; [apply val_eqb_refl|apply Nat.eqb_refl|apply test_eqb_refl]. Qed.
Lemma stmt_eqb_refl_simple s : simple s = true -> stmt_eqb s s = true.
Proof.
  destruct s; simpl; try discriminate; auto.
  - rewrite Nat.eqb_refl, list_nat_eqb_refl. reflexivity.
  - rewrite Nat.eqb_refl, rexpr_eqb_refl. reflexivity.
Qed.
Lemma drop_eqb_refl e : stmt_eqb (drop_asg e) (drop_asg e) = true.
Proof. destruct e; simpl; auto. rewrite test_eqb_refl. reflexivity. Qed.

Lemma lv_drop n e o b c x y :
  vmem y (lv_stmt n (drop_asg e) o b c x) = true -> vmem y (r_reads e) = true \/ vmem y o = true.
Proof.
  destruct e as [w|z|t]; simpl; auto.
  rewrite vmem_norm, !vmem_app. intros H. repeat (apply orb_true_iff in H; destruct H as [H|H]); auto.
Qed.

Lemma uv_line_live n b c xx y : forall l,
  forallb simple l = true ->
  vmem y (lv_block n (uv_line l) [] b c xx) = true -> read_next y l = true.
Proof.
  induction l as [|s tl IH]; intros Hs H; simpl in *; [discriminate|].
  apply andb_true_iff in Hs. destruct Hs as [Hs1 Hs2]. specialize (IH Hs2).
  destruct s as [|i rd|v e| | | | | |]; simpl in Hs1; try discriminate; simpl in H |- *.
  - auto.
  - rewrite vmem_app in H. destruct (vmem y rd); [reflexivity|]. simpl in H. auto.
  - destruct (vmem y (r_reads e)) eqn:Er; [reflexivity|].
    destruct (read_next v tl) eqn:Ev; simpl in H.
    + rewrite vmem_app, Er, vmem_remove in H. simpl in H.
      apply andb_true_iff in H. destruct H as [H1 H2]. apply negb_true_iff in H1.
      rewrite Nat.eqb_sym in H1. rewrite H1. auto.
    + apply lv_drop in H. destruct H as [H|H]; [congruence|].
      specialize (IH H). destruct (Nat.eqb y v) eqn:E; [|exact IH].
      apply Nat.eqb_eq in E. subst. congruence.
Qed.

Lemma uv_line_ok n b c xx : forall l,
  forallb simple l = true -> ok_block n l (uv_line l) [] b c xx = true.
Proof.
  induction l as [|s tl IH]; intros Hs; simpl in *; [reflexivity|].
  apply andb_true_iff in Hs. destruct Hs as [Hs1 Hs2]. specialize (IH Hs2).
  destruct s as [|i rd|v e| | | | | |]; simpl in Hs1; try discriminate.
  - simpl. exact IH.
  - simpl. rewrite Nat.eqb_refl, list_nat_eqb_refl. exact IH.
  - destruct (read_next v tl) eqn:Ev.
    + change (ok_block n (SAssign v e :: tl) (SAssign v e :: uv_line tl) [] b c xx = true).
      simpl. rewrite Nat.eqb_refl, rexpr_eqb_refl. simpl. exact IH.
    + change (ok_block n (SAssign v e :: tl) (drop_asg e :: uv_line tl) [] b c xx = true).
      assert (Hd : vmem v (lv_block n (uv_line tl) [] b c xx) = false).
      { destruct (vmem v (lv_block n (uv_line tl) [] b c xx)) eqn:E; [|reflexivity].
        apply uv_line_live in E; [congruence|exact Hs2]. }
      cbn [ok_block]. rewrite IH, andb_true_r.
      assert (Hk : forall s', s' = drop_asg e ->
                   ok_stmt n (SAssign v e) s' (lv_block n (uv_line tl) [] b c xx) b c xx = true).
      { intros s' ->. destruct e as [w|z|t]; simpl; rewrite Hd; simpl; auto.
        rewrite test_eqb_refl. auto. }
      apply Hk. reflexivity.
Qed.

(* T02k_undefine_straight_sound *)
Theorem undefine_straight_sound p : forallb simple p = true -> obs_equiv p (uv_line p).
Proof. intros H. apply (undefine_dead_sound 0). apply uv_line_ok. exact H. Qed.

(* without the deadness test the rewrite is wrong: `v0 = True; e(1, v0)` *)
Theorem undefine_live_refuted :
  exists p p', (exists pre x e post, p = pre ++ SAssign x e :: post /\ p' = pre ++ drop_asg e :: post) /\
               ~ obs_equiv p p'.
Proof.
  exists [SAssign 0 (RVal (VBool true)); SEv 1 [0]], [SPass; SEv 1 [0]]. split.
  - exists [], 0, (RVal (VBool true)), [SEv 1 [0]]. split; reflexivity.
  - intros H. destruct (H (fun _ => VBool false) (mkSt [] 0 [])) as [H1 _].
    destruct (H1 (Normal, mkSt [VBool true] 0 [EvCall 1 [VBool true]])) as [r' [[f Hr] Ho]].
    + exists 5. reflexivity.
    + destruct f as [|[|[|f]]]; simpl in Hr; try discriminate.
      inversion Hr; subst. unfold obs in Ho. simpl in Ho. discriminate.
Qed.

(* ============================================================================================== *)
(* Part U : moving `C.a = v` into the class body                                                   *)
(* ============================================================================================== *)
Definition dom_in (N : ns) (bound : list name) : Prop :=
  forall x, ns_get N x <> None -> nmem x bound = true.

Lemma ns_get_set N a v x : ns_get (ns_set N a v) x = if Nat.eqb x a then Some v else ns_get N x.
Proof.
  induction N as [|[y w] N IH]; simpl.
  - destruct (Nat.eqb x a); reflexivity.
  - destruct (Nat.eqb a y) eqn:E; simpl.
    + apply Nat.eqb_eq in E. subst y. destruct (Nat.eqb x a); reflexivity.
    + destruct (Nat.eqb x y) eqn:E2; simpl.
      * apply Nat.eqb_eq in E2. subst y. rewrite Nat.eqb_sym, E. reflexivity.
      * exact IH.
Qed.

Lemma dom_in_set N bound a v : dom_in N bound -> dom_in (ns_set N a v) (a :: bound).
Proof.
  intros H x Hx. rewrite ns_get_set in Hx. unfold nmem. simpl.
  destruct (Nat.eqb x a) eqn:E; [reflexivity|]. simpl. apply H. exact Hx.
Qed.

Lemma veval_scopes G N bound e tr :
  dom_in N bound -> v_reads_class e = false -> existsb (fun x => nmem x bound) (v_names e) = false ->
  veval (fun x => match ns_get N x with Some v => Some v | None => ns_get G x end) (fun _ => None) e tr
  = veval (ns_get G) (ns_get N) e tr.
Proof.
  intros HD. revert tr. induction e as [k|x|a|k e IH]; intros tr Hc Hn; simpl in *; try reflexivity.
  - rewrite orb_false_r in Hn. destruct (ns_get N x) eqn:E; [|reflexivity].
    assert (nmem x bound = true) by (apply HD; congruence). congruence.
  - discriminate.
  - rewrite (IH tr Hc Hn). reflexivity.
Qed.

Lemma fu_split_app : forall post bound mv st, fu_split bound post = (mv, st) -> post = mv ++ st.
Proof.
  induction post as [|[a e] tl IH]; intros bound mv st H; simpl in H.
  - inversion H; reflexivity.
  - destruct (u_mangled a || v_reads_class e || existsb (fun x => nmem x bound) (v_names e)).
    + inversion H; reflexivity.
    + destruct (fu_split (a :: bound) tl) as [mv' st'] eqn:E. inversion H; subst.
      simpl. f_equal. eapply IH; eauto.
Qed.

Lemma moved_same G : forall post bound mv st N tr,
  fu_split bound post = (mv, st) -> dom_in N bound -> ubody G N mv tr = upost G N mv tr.
Proof.
  induction post as [|[a e] tl IH]; intros bound mv st N tr H HD; simpl in H.
  - inversion H; reflexivity.
  - destruct (u_mangled a || v_reads_class e || existsb (fun x => nmem x bound) (v_names e)) eqn:Eg.
    + inversion H; reflexivity.
    + destruct (fu_split (a :: bound) tl) as [mv' st'] eqn:E. inversion H; subst. simpl.
      apply orb_false_iff in Eg. destruct Eg as [Eg Eg3]. apply orb_false_iff in Eg. destruct Eg as [_ Eg2].
      rewrite (veval_scopes G N bound e tr HD Eg2 Eg3).
      destruct (veval (ns_get G) (ns_get N) e tr) as [[v|] tr']; [|reflexivity].
      eapply IH; [exact E|]. apply dom_in_set. exact HD.
Qed.

Lemma ubody_app G : forall b1 b2 N tr,
  ubody G N (b1 ++ b2) tr = match ubody G N b1 tr with (Some N1, tr1) => ubody G N1 b2 tr1 | r => r end.
Proof.
  induction b1 as [|[a e] tl IH]; intros; simpl; [reflexivity|].
  destruct (veval _ _ e tr) as [[v|] tr']; [apply IH|reflexivity].
Qed.
Lemma upost_app G : forall b1 b2 N tr,
  upost G N (b1 ++ b2) tr = match upost G N b1 tr with (Some N1, tr1) => upost G N1 b2 tr1 | r => r end.
Proof.
  induction b1 as [|[a e] tl IH]; intros; simpl; [reflexivity|].
  destruct (veval _ _ e tr) as [[v|] tr']; [apply IH|reflexivity].
Qed.

Lemma ubody_dom G : forall b N tr N' tr',
  ubody G N b tr = (Some N', tr') ->
  forall x, ns_get N' x <> None -> nmem x (map fst b) = true \/ ns_get N x <> None.
Proof.
  induction b as [|[a e] tl IH]; intros N tr N' tr' H x Hx; simpl in *.
  - inversion H; subst. right. exact Hx.
  - destruct (veval _ _ e tr) as [[v|] tr1]; [|discriminate].
    destruct (IH _ _ _ _ H x Hx) as [Hl|Hr].
    + left. unfold nmem in *. simpl. rewrite Hl. apply orb_true_r.
    + rewrite ns_get_set in Hr. unfold nmem. simpl.
      destruct (Nat.eqb x a); [left; reflexivity|right; exact Hr].
Qed.

(* T02k_unconventional_sound: for a class that nothing observes while it is created, the rule's
   output runs like the input: same outcome, same log, same attributes of the class. *)
Theorem unconventional_sound p : u_hook p = false -> urun (fu_model p) = urun p.
Proof.
  intros Hh. unfold fu_model, urun.
  destruct (fu_split (map fst (u_body p)) (u_post p)) as [mv st] eqn:Es. simpl. rewrite Hh.
  rewrite ubody_app.
  destruct (ubody (u_globals p) [] (u_body p) []) as [[N|] tr] eqn:Eb; [|reflexivity].
  assert (HD : dom_in N (map fst (u_body p))).
  { intros x Hx. destruct (ubody_dom _ _ _ _ _ _ Eb x Hx) as [H|H]; [exact H|]. simpl in H. congruence. }
  rewrite (fu_split_app _ _ _ _ Es), upost_app.
  rewrite (moved_same (u_globals p) _ _ _ _ N tr Es HD).
  destruct (upost (u_globals p) N mv tr) as [[N1|] tr1] eqn:Em; reflexivity.
Qed.

(* a class decorator, a metaclass or __init_subclass__ of a base sees the class when it is created:
   with the attribute after the rewrite, without it before *)
Theorem unconventional_hook_refuted :
  exists p, u_hook p = true /\ urun (fu_model p) <> urun p.
Proof.
  exists (mkU [] true [(1, VConst 1)] [(2, VConst 2)] []). split; [reflexivity|].
  vm_compute. discriminate.
Qed.

(* without the guards the rewrite is wrong: `C.b = a` where the class body binds a;
   `C.b = C.a` (the class does not exist yet inside its body) *)
Definition fu_unguarded (p : uprog) : uprog := mkU (u_globals p) (u_hook p) (u_body p ++ u_post p) [] (u_rest p).
Theorem unconventional_unguarded_refuted :
  (exists p, u_hook p = false /\ urun (fu_unguarded p) <> urun p /\ fst (fst (urun p)) = true
             /\ exists a x, u_post p = [(a, VName x)])
  /\ (exists p, u_hook p = false /\ urun (fu_unguarded p) <> urun p /\ fst (fst (urun p)) = true
                /\ exists a b, u_post p = [(a, VAttr b)]).
Proof.
  split.
  - exists (mkU [(1, UInt 5)] false [(1, VConst 1)] [(2, VName 1)] []).
    split; [reflexivity|]. split; [vm_compute; discriminate|]. split; [reflexivity|exists 2, 1; reflexivity].
  - exists (mkU [] false [(1, VConst 1)] [(2, VAttr 1)] []).
    split; [reflexivity|]. split; [vm_compute; discriminate|]. split; [reflexivity|exists 2, 1; reflexivity].
Qed.
